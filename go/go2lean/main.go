// go2lean: table-driven extractor that regenerates the decision expressions and
// constants of the Lean model from /repo's current Go source (DESIGN §3.2).
//
// It is deliberately NOT a Go semantics.  It renders a small whitelisted expression
// language (literals, renamed identifiers/sub-expressions, comparisons, && || !, + - * )
// as Lean `def`s over Int / Bool / String.  Everything else in the model is written by
// hand and tied by the correspondence check.
//
// usage: go2lean -repo /repo -out /verif/lean/MocModel/Gen -report gen_report.json [-pin pinned.json] [-writepin]
package main

import (
	"bytes"
	"crypto/sha256"
	"encoding/hex"
	"encoding/json"
	"flag"
	"fmt"
	"go/ast"
	"go/parser"
	"go/printer"
	"go/token"
	"os"
	"path/filepath"
	"regexp"
	"sort"
	"strconv"
	"strings"
)

// Item describes one extracted definition.
type Item struct {
	Group  string            // output file MocModel/Gen/<Group>.lean
	Name   string            // Lean name (inside namespace Moc.Gen)
	File   string            // path relative to the repo root
	Func   string            // "Recv.Method" or "Func" ("" for package-level const/var)
	Sel    string            // selector: "if:N" | "return:N" | "const:NAME" | "elseif:N" | "case:N:M" | "regexp:VAR" | "sqlconst:NAME:REGEX" | "callarg:FN:N:ARG" | "bodytext" | "sites"
	Params string            // Lean binder text, e.g. "(createdAt since : Int)"
	Type   string            // Lean result type: Bool | Int | String | Nat
	Rename map[string]string // Go source text of a sub-expression -> Lean text
	Note   string
}

type Result struct {
	Item
	OK     bool   `json:"ok"`
	Source string `json:"source"`
	Lean   string `json:"lean"`
	Err    string `json:"err,omitempty"`
	Pinned bool   `json:"used_pinned_fallback,omitempty"`
}

var fset = token.NewFileSet()
var parsed = map[string]*ast.File{}

func parseFile(repo, rel string) (*ast.File, error) {
	if f, ok := parsed[rel]; ok {
		return f, nil
	}
	f, err := parser.ParseFile(fset, filepath.Join(repo, rel), nil, parser.ParseComments)
	if err != nil {
		return nil, err
	}
	parsed[rel] = f
	return f, nil
}

func src(n ast.Node) string {
	var b bytes.Buffer
	printer.Fprint(&b, fset, n)
	return b.String()
}

func norm(s string) string { return strings.Join(strings.Fields(s), " ") }

func findFunc(f *ast.File, name string) *ast.FuncDecl {
	recv, fn := "", name
	if i := strings.Index(name, "."); i >= 0 {
		recv, fn = name[:i], name[i+1:]
	}
	for _, d := range f.Decls {
		fd, ok := d.(*ast.FuncDecl)
		if !ok || fd.Name.Name != fn {
			continue
		}
		if recv == "" {
			if fd.Recv == nil {
				return fd
			}
			continue
		}
		if fd.Recv == nil || len(fd.Recv.List) == 0 {
			continue
		}
		t := src(fd.Recv.List[0].Type)
		t = strings.TrimPrefix(t, "*")
		if i := strings.Index(t, "["); i >= 0 {
			t = t[:i]
		}
		if t == recv {
			return fd
		}
	}
	return nil
}

type xlate struct {
	rename map[string]string
	params map[string]bool
}

func (x *xlate) expr(e ast.Expr) (string, error) {
	if r, ok := x.rename[norm(src(e))]; ok {
		return r, nil
	}
	switch e := e.(type) {
	case *ast.Ident:
		if x.params[e.Name] {
			return e.Name, nil
		}
	case *ast.ParenExpr:
		s, err := x.expr(e.X)
		if err != nil {
			return "", err
		}
		return "(" + s + ")", nil
	case *ast.BasicLit:
		switch e.Kind {
		case token.INT:
			v, err := strconv.ParseInt(strings.ReplaceAll(e.Value, "_", ""), 0, 64)
			if err != nil {
				return "", err
			}
			return fmt.Sprintf("%d", v), nil
		case token.CHAR:
			r, _, _, err := strconv.UnquoteChar(e.Value[1:len(e.Value)-1], '\'')
			if err != nil {
				return "", err
			}
			return fmt.Sprintf("%d", r), nil
		case token.STRING:
			s, err := strconv.Unquote(e.Value)
			if err != nil {
				return "", err
			}
			return leanString(s), nil
		}
		return "", fmt.Errorf("unsupported literal %s", e.Value)
	case *ast.UnaryExpr:
		s, err := x.expr(e.X)
		if err != nil {
			return "", err
		}
		switch e.Op {
		case token.NOT:
			return "(!" + s + ")", nil
		case token.SUB:
			return "(-" + s + ")", nil
		}
		return "", fmt.Errorf("unsupported unary %s", e.Op)
	case *ast.BinaryExpr:
		a, err := x.expr(e.X)
		if err != nil {
			return "", err
		}
		b, err := x.expr(e.Y)
		if err != nil {
			return "", err
		}
		switch e.Op {
		case token.LAND:
			return "(" + a + " && " + b + ")", nil
		case token.LOR:
			return "(" + a + " || " + b + ")", nil
		case token.LSS:
			return "decide (" + a + " < " + b + ")", nil
		case token.LEQ:
			return "decide (" + a + " ≤ " + b + ")", nil
		case token.GTR:
			return "decide (" + a + " > " + b + ")", nil
		case token.GEQ:
			return "decide (" + a + " ≥ " + b + ")", nil
		case token.EQL:
			return "(" + a + " == " + b + ")", nil
		case token.NEQ:
			return "(" + a + " != " + b + ")", nil
		case token.ADD:
			return "(" + a + " + " + b + ")", nil
		case token.SUB:
			return "(" + a + " - " + b + ")", nil
		case token.MUL:
			return "(" + a + " * " + b + ")", nil
		}
		return "", fmt.Errorf("unsupported binary %s", e.Op)
	}
	return "", fmt.Errorf("unsupported expression %q (no rename entry)", norm(src(e)))
}

func leanString(s string) string {
	var b strings.Builder
	b.WriteByte('"')
	for _, r := range s {
		switch {
		case r == '"':
			b.WriteString("\\\"")
		case r == '\\':
			b.WriteString("\\\\")
		case r == '\n':
			b.WriteString("\\n")
		case r == '\t':
			b.WriteString("\\t")
		case r == '\r':
			b.WriteString("\\r")
		case r < 0x20 || r == 0x7f:
			fmt.Fprintf(&b, "\\x%02x", r)
		default:
			b.WriteRune(r)
		}
	}
	b.WriteByte('"')
	return b.String()
}

// collect nodes of a function body in source (pre-)order
func collect(body ast.Node) (ifs []*ast.IfStmt, rets []*ast.ReturnStmt, cases []*ast.CaseClause, calls []*ast.CallExpr) {
	ast.Inspect(body, func(n ast.Node) bool {
		switch n := n.(type) {
		case *ast.FuncLit:
			// still descend: closures are part of the body text
			_ = n
		case *ast.IfStmt:
			ifs = append(ifs, n)
		case *ast.ReturnStmt:
			rets = append(rets, n)
		case *ast.CaseClause:
			cases = append(cases, n)
		case *ast.CallExpr:
			calls = append(calls, n)
		}
		return true
	})
	return
}

func extract(repo string, it Item) (sourceTxt, lean string, err error) {
	f, err := parseFile(repo, it.File)
	if err != nil {
		return "", "", err
	}
	x := &xlate{rename: map[string]string{}, params: map[string]bool{}}
	for k, v := range it.Rename {
		x.rename[norm(k)] = v
	}
	for _, w := range regexp.MustCompile(`[A-Za-z_][A-Za-z0-9_]*`).FindAllString(it.Params, -1) {
		if w != "Int" && w != "Bool" && w != "String" && w != "Nat" {
			x.params[w] = true
		}
	}
	parts := strings.Split(it.Sel, ":")
	kind := parts[0]

	switch kind {
	case "const", "regexp":
		// package-level const/var with literal value (or regexp.MustCompile(`lit`))
		for _, d := range f.Decls {
			gd, ok := d.(*ast.GenDecl)
			if !ok {
				continue
			}
			for _, sp := range gd.Specs {
				vs, ok := sp.(*ast.ValueSpec)
				if !ok {
					continue
				}
				for i, n := range vs.Names {
					if n.Name != parts[1] || i >= len(vs.Values) {
						continue
					}
					v := vs.Values[i]
					if kind == "regexp" {
						ce, ok := v.(*ast.CallExpr)
						if !ok || len(ce.Args) != 1 || norm(src(ce.Fun)) != "regexp.MustCompile" {
							return src(v), "", fmt.Errorf("not regexp.MustCompile(lit)")
						}
						v = ce.Args[0]
					}
					s, err := x.expr(v)
					return norm(src(vs.Values[i])), s, err
				}
			}
		}
		return "", "", fmt.Errorf("const/var %s not found", parts[1])
	case "sqlconst":
		// string constant, matched against a regexp with capture groups; result = groups joined by ","
		for _, d := range f.Decls {
			gd, ok := d.(*ast.GenDecl)
			if !ok {
				continue
			}
			for _, sp := range gd.Specs {
				vs, ok := sp.(*ast.ValueSpec)
				if !ok {
					continue
				}
				for i, n := range vs.Names {
					if n.Name != parts[1] || i >= len(vs.Values) {
						continue
					}
					bl, ok := vs.Values[i].(*ast.BasicLit)
					if !ok {
						return "", "", fmt.Errorf("not a literal")
					}
					s, err := strconv.Unquote(bl.Value)
					if err != nil {
						return "", "", err
					}
					s = norm(s)
					return s, leanString(s), nil
				}
			}
		}
		return "", "", fmt.Errorf("const %s not found", parts[1])
	}

	if it.Sel == "lockpairs" {
		t := lockPairs(f)
		return fmt.Sprintf("%d acquisitions", strings.Count(t, "\n(")+map[bool]int{true: 0, false: 1}[t == "[]"]), t, nil
	}
	if it.Sel == "locks" {
		t := locksOf(f)
		return fmt.Sprintf("%d methods", strings.Count(t, "\n(")+1), t, nil
	}
	if kind == "fielduses" {
		t, err := fieldUses(repo, it.File, strings.Split(parts[1], ","))
		return fmt.Sprintf("%d uses", strings.Count(t, "\n(")+map[bool]int{true: 0, false: 1}[t == "[]"]), t, err
	}
	if it.Sel == "sites" {
		t := sitesOf(f)
		return fmt.Sprintf("%d sites", strings.Count(t, "\n(")+1), t, nil
	}
	fd := findFunc(f, it.Func)
	if fd == nil {
		return "", "", fmt.Errorf("function %s not found in %s", it.Func, it.File)
	}
	ifs, rets, cases, calls := collect(fd.Body)
	idx := func(i int) (int, error) {
		if len(parts) <= i {
			return 0, fmt.Errorf("bad selector %s", it.Sel)
		}
		return strconv.Atoi(parts[i])
	}
	var e ast.Expr
	switch kind {
	case "if":
		n, err := idx(1)
		if err != nil {
			return "", "", err
		}
		if n >= len(ifs) {
			return "", "", fmt.Errorf("if #%d not found (function has %d)", n, len(ifs))
		}
		e = ifs[n].Cond
	case "return":
		n, err := idx(1)
		if err != nil {
			return "", "", err
		}
		if n >= len(rets) {
			return "", "", fmt.Errorf("return #%d not found (function has %d)", n, len(rets))
		}
		k := 0
		if len(parts) > 2 {
			k, _ = strconv.Atoi(parts[2])
		}
		if k >= len(rets[n].Results) {
			return "", "", fmt.Errorf("return #%d has no result %d", n, k)
		}
		e = rets[n].Results[k]
	case "case":
		n, err := idx(1)
		if err != nil {
			return "", "", err
		}
		m, err := idx(2)
		if err != nil {
			return "", "", err
		}
		if n >= len(cases) || m >= len(cases[n].List) {
			return "", "", fmt.Errorf("case %d:%d not found", n, m)
		}
		e = cases[n].List[m]
	case "casetext":
		n, err := idx(1)
		if err != nil {
			return "", "", err
		}
		m, err := idx(2)
		if err != nil {
			return "", "", err
		}
		if n >= len(cases) || m >= len(cases[n].List) {
			return "", "", fmt.Errorf("case %d:%d not found", n, m)
		}
		t := norm(src(cases[n].List[m]))
		return t, leanString(t), nil
	case "calltext":
		// calltext:PREFIX:N — source text of the N-th call whose function text starts with PREFIX
		n, err := idx(2)
		if err != nil {
			return "", "", err
		}
		k := 0
		for _, c := range calls {
			if strings.HasPrefix(norm(src(c.Fun)), parts[1]) {
				if k == n {
					t := norm(src(c))
					return t, leanString(t), nil
				}
				k++
			}
		}
		return "", "", fmt.Errorf("call with prefix %s #%d not found", parts[1], n)
	case "appendchars":
		// appendchars:N — the character literals appended by the N-th `append(dst, 'a', 'b', …)` call, as a string
		n, err := idx(1)
		if err != nil {
			return "", "", err
		}
		k := 0
		for _, c := range calls {
			if norm(src(c.Fun)) != "append" {
				continue
			}
			if k == n {
				var sb strings.Builder
				for _, a := range c.Args[1:] {
					bl, ok := a.(*ast.BasicLit)
					if !ok || bl.Kind != token.CHAR {
						return norm(src(c)), "", fmt.Errorf("append argument %s is not a character literal", norm(src(a)))
					}
					r, _, _, err := strconv.UnquoteChar(bl.Value[1:len(bl.Value)-1], '\'')
					if err != nil {
						return "", "", err
					}
					sb.WriteRune(r)
				}
				return norm(src(c)), leanString(sb.String()), nil
			}
			k++
		}
		return "", "", fmt.Errorf("append call #%d not found", n)
	case "synccalls":
		// the functions called by the body itself, in source order, without those inside `go func() {…}()` / `go f()`
		var names []string
		seen := map[string]bool{}
		var walk func(n ast.Node)
		walk = func(n ast.Node) {
			ast.Inspect(n, func(n ast.Node) bool {
				switch x := n.(type) {
				case *ast.GoStmt:
					return false
				case *ast.CallExpr:
					t := norm(src(x.Fun))
					if _, isLit := x.Fun.(*ast.FuncLit); !isLit && !seen[t] {
						seen[t] = true
						names = append(names, leanString(t))
					}
				}
				return true
			})
		}
		walk(fd.Body)
		return fmt.Sprintf("%d calls", len(names)), "[" + strings.Join(names, ", ") + "]", nil
	case "bodytext":
		// the whole function body as a normalised source string
		t := norm(src(fd.Body))
		return t, leanString(t), nil
	case "iftext":
		// whole if statement (init; cond {body}) as a normalised source string
		n, err := idx(1)
		if err != nil {
			return "", "", err
		}
		if n >= len(ifs) {
			return "", "", fmt.Errorf("if #%d not found (function has %d)", n, len(ifs))
		}
		cp := *ifs[n]
		cp.Else = nil
		t := norm(src(&cp))
		return t, leanString(t), nil
	case "callarg":
		// callarg:FUNCTEXT:N:ARG  — ARG-th argument of the N-th call whose Fun text is FUNCTEXT
		n, err := idx(2)
		if err != nil {
			return "", "", err
		}
		a, err := idx(3)
		if err != nil {
			return "", "", err
		}
		k := 0
		for _, c := range calls {
			if norm(src(c.Fun)) == parts[1] {
				if k == n {
					if a >= len(c.Args) {
						return "", "", fmt.Errorf("call has no arg %d", a)
					}
					e = c.Args[a]
				}
				k++
			}
		}
		if e == nil {
			return "", "", fmt.Errorf("call %s #%d not found", parts[1], n)
		}
	default:
		return "", "", fmt.Errorf("unknown selector kind %s", kind)
	}
	s, err := x.expr(e)
	return norm(src(e)), s, err
}

// sitesOf lists every channel operation of a file: (function, kind, guard, normalised text).
// kind: select | send | recv | range ; guard: ctxDone (a case receives from a Done() channel, or the operation is
// itself a receive from one), default (non-blocking select), none.
func sitesOf(f *ast.File) string {
	var rows []string
	for _, d := range f.Decls {
		fd, ok := d.(*ast.FuncDecl)
		if !ok || fd.Body == nil {
			continue
		}
		name := fd.Name.Name
		if fd.Recv != nil && len(fd.Recv.List) > 0 {
			t := norm(src(fd.Recv.List[0].Type))
			t = strings.TrimPrefix(t, "*")
			if i := strings.Index(t, "["); i >= 0 {
				t = t[:i]
			}
			name = t + "." + name
		}
		chans := map[string]bool{}
		if fd.Type.Params != nil {
			for _, p := range fd.Type.Params.List {
				if _, ok := p.Type.(*ast.ChanType); ok {
					for _, n := range p.Names {
						chans[n.Name] = true
					}
				}
			}
		}
		ast.Inspect(fd.Body, func(n ast.Node) bool {
			if as, ok := n.(*ast.AssignStmt); ok && len(as.Lhs) == 1 && len(as.Rhs) == 1 {
				if c, ok := as.Rhs[0].(*ast.CallExpr); ok {
					if id, ok := c.Fun.(*ast.Ident); ok && id.Name == "make" && len(c.Args) > 0 {
						if _, ok := c.Args[0].(*ast.ChanType); ok {
							chans[norm(src(as.Lhs[0]))] = true
						}
					}
				}
			}
			return true
		})
		isDone := func(e ast.Expr) bool {
			u, ok := e.(*ast.UnaryExpr)
			return ok && u.Op == token.ARROW && strings.HasSuffix(norm(src(u.X)), ".Done()")
		}
		add := func(kind, guard string, n ast.Node) {
			t := norm(src(n))
			if len(t) > 160 {
				t = t[:160]
			}
			rows = append(rows, fmt.Sprintf("(%s, %s, %s, %s)", leanString(name), leanString(kind), leanString(guard), leanString(t)))
		}
		var walk func(n ast.Node)
		walk = func(n ast.Node) {
			ast.Inspect(n, func(n ast.Node) bool {
				switch x := n.(type) {
				case *ast.SelectStmt:
					guard := "none"
					for _, c := range x.Body.List {
						cc := c.(*ast.CommClause)
						if cc.Comm == nil {
							if guard == "none" {
								guard = "default"
							}
							continue
						}
						var e ast.Expr
						switch cm := cc.Comm.(type) {
						case *ast.ExprStmt:
							e = cm.X
						case *ast.AssignStmt:
							if len(cm.Rhs) == 1 {
								e = cm.Rhs[0]
							}
						}
						if e != nil && isDone(e) {
							guard = "ctxDone"
						}
					}
					hdr := "select {"
					for _, c := range x.Body.List {
						cc := c.(*ast.CommClause)
						if cc.Comm == nil {
							hdr += " default;"
						} else {
							hdr += " case " + norm(src(cc.Comm)) + ";"
						}
					}
					hdr += " }"
					t := hdr
					if len(t) > 200 {
						t = t[:200]
					}
					rows = append(rows, fmt.Sprintf("(%s, %s, %s, %s)", leanString(name), leanString("select"), leanString(guard), leanString(t)))
					for _, c := range x.Body.List {
						for _, st := range c.(*ast.CommClause).Body {
							walk(st)
						}
					}
					return false
				case *ast.SendStmt:
					add("send", "none", x)
				case *ast.UnaryExpr:
					if x.Op == token.ARROW {
						if isDone(x) {
							add("recv", "ctxDone", x)
						} else {
							add("recv", "none", x)
						}
					}
				case *ast.RangeStmt:
					if chans[norm(src(x.X))] {
						rows = append(rows, fmt.Sprintf("(%s, %s, %s, %s)", leanString(name), leanString("range"), leanString("none"), leanString("for range "+norm(src(x.X)))))
					}
				case *ast.FuncLit:
					// same goroutine or a started one: its operations belong to the enclosing function's list
				}
				return true
			})
		}
		walk(fd.Body)
	}
	if len(rows) == 0 {
		return "[]"
	}
	return "[" + strings.Join(rows, ",\n") + "]"
}

func main() {
	repo := flag.String("repo", "/repo", "repository root")
	out := flag.String("out", "", "output directory for Gen/*.lean")
	report := flag.String("report", "", "report json path")
	pin := flag.String("pin", "", "pinned.json path (fallback definitions)")
	writepin := flag.Bool("writepin", false, "rewrite pinned.json from the current tree")
	list := flag.String("list", "", "debug: FILE:FUNC — list the selectable sites of a function")
	flag.Parse()
	if *list != "" {
		i := strings.Index(*list, ":")
		f, err := parseFile(*repo, (*list)[:i])
		if err != nil {
			panic(err)
		}
		fd := findFunc(f, (*list)[i+1:])
		if fd == nil {
			fmt.Println("not found")
			return
		}
		ifs, rets, cases, calls := collect(fd.Body)
		for i, n := range ifs {
			init := ""
			if n.Init != nil {
				init = norm(src(n.Init)) + " ; "
			}
			fmt.Printf("if:%d  %s%s\n", i, init, norm(src(n.Cond)))
		}
		for i, n := range rets {
			fmt.Printf("return:%d  %s\n", i, norm(src(n)))
		}
		for i, n := range cases {
			for j, e := range n.List {
				fmt.Printf("case:%d:%d  %s\n", i, j, norm(src(e)))
			}
		}
		_ = calls
		return
	}

	pinned := map[string]string{}
	if *pin != "" && !*writepin {
		if b, err := os.ReadFile(*pin); err == nil {
			json.Unmarshal(b, &pinned)
		}
	}

	var results []Result
	groups := map[string][]Result{}
	var order []string
	for _, it := range items {
		s, l, err := extract(*repo, it)
		r := Result{Item: it, Source: s, Lean: l, OK: err == nil}
		if err != nil {
			r.Err = err.Error()
			if p, ok := pinned[it.Group+"."+it.Name]; ok {
				r.Lean = p
				r.Pinned = true
			} else {
				r.Lean = "default"
			}
		}
		results = append(results, r)
		if _, ok := groups[it.Group]; !ok {
			order = append(order, it.Group)
		}
		groups[it.Group] = append(groups[it.Group], r)
	}

	if *writepin && *pin != "" {
		m := map[string]string{}
		for _, r := range results {
			if r.OK {
				m[r.Group+"."+r.Name] = r.Lean
			}
		}
		b, _ := json.MarshalIndent(m, "", " ")
		os.WriteFile(*pin, append(b, '\n'), 0o644)
	}

	h := sha256.New()
	if *out != "" {
		os.MkdirAll(*out, 0o755)
		want := map[string]bool{}
		for _, g := range order {
			var b strings.Builder
			b.WriteString("/- GENERATED by go2lean from /repo — do not edit. -/\n")
			for _, imp := range groupImports[g] {
				b.WriteString("import MocModel.Gen." + imp + "\n")
			}
			b.WriteString("namespace Moc.Gen\n\n")
			for _, r := range groups[g] {
				fmt.Fprintf(&b, "/-- %s %s [%s]\n    Go: `%s`%s -/\n", r.File, r.Func, r.Sel, strings.ReplaceAll(r.Source, "-/", "- /"), map[bool]string{true: "", false: "\n    EXTRACTION FAILED: " + r.Err + " (pinned fallback in use)"}[r.OK])
				fmt.Fprintf(&b, "def %s %s : %s := %s\n\n", r.Name, r.Params, r.Type, r.Lean)
			}
			b.WriteString("end Moc.Gen\n")
			path := filepath.Join(*out, g+".lean")
			want[g+".lean"] = true
			h.Write([]byte(b.String()))
			old, err := os.ReadFile(path)
			if err != nil || string(old) != b.String() {
				if err := os.WriteFile(path, []byte(b.String()), 0o644); err != nil {
					fmt.Fprintln(os.Stderr, err)
					os.Exit(2)
				}
			}
		}
		// delete stale generated files
		ents, _ := os.ReadDir(*out)
		for _, e := range ents {
			if strings.HasSuffix(e.Name(), ".lean") && !want[e.Name()] {
				os.Remove(filepath.Join(*out, e.Name()))
			}
		}
	}
	sort.SliceStable(results, func(i, j int) bool { return results[i].Group < results[j].Group })
	rep := map[string]any{"items": results, "digest": hex.EncodeToString(h.Sum(nil))}
	nfail := 0
	for _, r := range results {
		if !r.OK {
			nfail++
		}
	}
	rep["failed"] = nfail
	b, _ := json.MarshalIndent(rep, "", " ")
	if *report != "" {
		os.WriteFile(*report, b, 0o644)
	} else {
		os.Stdout.Write(b)
	}
	_ = regexp.MustCompile
}
