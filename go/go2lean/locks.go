package main

import (
	"fmt"
	"go/ast"
	"go/token"
	"os"
	"path/filepath"
	"sort"
	"strings"
)

// locksOf lists, for every method declared in a file, how it relates to the receiver's mutex and state:
//
//	(Type.method, lock, writes, touches, entry, callees)
//
// lock:    "Lock"  – the body starts with `r.mu.Lock()` `defer r.mu.Unlock()`
//
//	"RLock" – the body starts with `r.mu.RLock()` `defer r.mu.RUnlock()`
//	"none"  – the mutex is not mentioned
//	"irregular" – the mutex is used in any other way
//
// writes:  the body assigns through / deletes from / calls Set or Del on something rooted at the receiver or at a
//
//	local variable that was assigned from something rooted at the receiver (an alias of shared state)
//
// touches: the body reads or writes a field of the receiver other than the mutex (or uses such an alias)
// entry:   type and method are both exported (callable from outside the package)
// callees: methods of types declared in the same file that the body calls on the receiver or on one of its fields
func locksOf(f *ast.File) string {
	// field types of the structs declared in the file: Type.field -> declared type name (if declared in this file)
	declared := map[string]bool{}
	fieldType := map[string]string{}
	for _, d := range f.Decls {
		gd, ok := d.(*ast.GenDecl)
		if !ok || gd.Tok != token.TYPE {
			continue
		}
		for _, sp := range gd.Specs {
			ts := sp.(*ast.TypeSpec)
			declared[ts.Name.Name] = true
		}
	}
	for _, d := range f.Decls {
		gd, ok := d.(*ast.GenDecl)
		if !ok || gd.Tok != token.TYPE {
			continue
		}
		for _, sp := range gd.Specs {
			ts := sp.(*ast.TypeSpec)
			st, ok := ts.Type.(*ast.StructType)
			if !ok {
				continue
			}
			for _, fl := range st.Fields.List {
				t := strings.TrimPrefix(norm(src(fl.Type)), "*")
				if declared[t] {
					for _, n := range fl.Names {
						fieldType[ts.Name.Name+"."+n.Name] = t
					}
				}
			}
		}
	}

	var rows []string
	for _, d := range f.Decls {
		fd, ok := d.(*ast.FuncDecl)
		if !ok || fd.Body == nil || fd.Recv == nil || len(fd.Recv.List) == 0 {
			continue
		}
		rt := strings.TrimPrefix(norm(src(fd.Recv.List[0].Type)), "*")
		if i := strings.Index(rt, "["); i >= 0 {
			rt = rt[:i]
		}
		recv := ""
		if len(fd.Recv.List[0].Names) > 0 {
			recv = fd.Recv.List[0].Names[0].Name
		}
		name := rt + "." + fd.Name.Name

		// lock kind
		lock := "none"
		muText := recv + ".mu."
		body := norm(src(fd.Body))
		if recv != "" && strings.Contains(body, muText) {
			lock = "irregular"
			if len(fd.Body.List) >= 2 {
				s0, s1 := norm(src(fd.Body.List[0])), norm(src(fd.Body.List[1]))
				rest := strings.Count(body, muText)
				if s0 == muText+"Lock()" && s1 == "defer "+muText+"Unlock()" && rest == 2 {
					lock = "Lock"
				}
				if s0 == muText+"RLock()" && s1 == "defer "+muText+"RUnlock()" && rest == 2 {
					lock = "RLock"
				}
			}
		}

		// aliases of shared state: locals assigned from receiver-rooted (or alias-rooted) index/selector expressions
		alias := map[string]bool{}
		var root func(e ast.Expr) string
		root = func(e ast.Expr) string {
			switch x := e.(type) {
			case *ast.Ident:
				return x.Name
			case *ast.SelectorExpr:
				return root(x.X)
			case *ast.IndexExpr:
				return root(x.X)
			case *ast.StarExpr:
				return root(x.X)
			case *ast.ParenExpr:
				return root(x.X)
			case *ast.SliceExpr:
				return root(x.X)
			}
			return ""
		}
		shared := func(e ast.Expr) bool {
			if _, isIdent := e.(*ast.Ident); isIdent {
				return alias[e.(*ast.Ident).Name]
			}
			r := root(e)
			return r != "" && (r == recv || alias[r])
		}
		for changed := true; changed; {
			changed = false
			ast.Inspect(fd.Body, func(n ast.Node) bool {
				mark := func(lhs ast.Expr) {
					if id, ok := lhs.(*ast.Ident); ok && id.Name != "_" && !alias[id.Name] {
						alias[id.Name] = true
						changed = true
					}
				}
				switch x := n.(type) {
				case *ast.AssignStmt:
					if len(x.Rhs) == 1 {
						switch r := x.Rhs[0].(type) {
						case *ast.SelectorExpr, *ast.IndexExpr:
							if shared(r) {
								mark(x.Lhs[0])
							}
						case *ast.Ident:
							if alias[r.Name] {
								mark(x.Lhs[0])
							}
						}
					}
				case *ast.RangeStmt:
					// `for k, v := range shared`: v may alias an inner container
					if shared(x.X) && x.Value != nil {
						mark(x.Value)
					}
				}
				return true
			})
		}

		writes, touches := false, false
		callees := map[string]bool{}
		ast.Inspect(fd.Body, func(n ast.Node) bool {
			switch x := n.(type) {
			case *ast.AssignStmt:
				for _, l := range x.Lhs {
					switch l.(type) {
					case *ast.IndexExpr, *ast.SelectorExpr, *ast.StarExpr:
						if shared(l) {
							writes = true
						}
					}
				}
			case *ast.IncDecStmt:
				switch x.X.(type) {
				case *ast.IndexExpr, *ast.SelectorExpr, *ast.StarExpr:
					if shared(x.X) {
						writes = true
					}
				}
			case *ast.CallExpr:
				if id, ok := x.Fun.(*ast.Ident); ok && (id.Name == "delete" || id.Name == "clear") && len(x.Args) > 0 {
					if shared(x.Args[0]) {
						writes = true
					}
				}
				if se, ok := x.Fun.(*ast.SelectorExpr); ok {
					// method call on the receiver or on one of its fields
					if id, ok := se.X.(*ast.Ident); ok && id.Name == recv && recv != "" {
						callees[rt+"."+se.Sel.Name] = true
					} else if inner, ok := se.X.(*ast.SelectorExpr); ok {
						if id, ok := inner.X.(*ast.Ident); ok && id.Name == recv && recv != "" {
							if t, ok := fieldType[rt+"."+inner.Sel.Name]; ok {
								callees[t+"."+se.Sel.Name] = true
							} else if inner.Sel.Name != "mu" {
								// a container of another package (the tree): its mutators by name
								switch se.Sel.Name {
								case "Set", "Del", "Clear":
									writes = true
								}
							}
						}
					}
				}
			case *ast.SelectorExpr:
				if id, ok := x.X.(*ast.Ident); ok && id.Name == recv && recv != "" && x.Sel.Name != "mu" {
					// a field (not a method value used as callee: those are SelectorExpr too, filtered below)
					touches = true
				}
			case *ast.Ident:
				if alias[x.Name] {
					touches = true
				}
			}
			return true
		})
		// `r.method(...)` made touches true through the SelectorExpr case; undo when every receiver selector is a call
		if touches {
			touches = false
			called := map[*ast.SelectorExpr]bool{}
			ast.Inspect(fd.Body, func(n ast.Node) bool {
				if c, ok := n.(*ast.CallExpr); ok {
					if se, ok := c.Fun.(*ast.SelectorExpr); ok {
						if id, ok := se.X.(*ast.Ident); ok && id.Name == recv {
							called[se] = true
						}
					}
				}
				return true
			})
			ast.Inspect(fd.Body, func(n ast.Node) bool {
				switch x := n.(type) {
				case *ast.SelectorExpr:
					if id, ok := x.X.(*ast.Ident); ok && id.Name == recv && recv != "" && x.Sel.Name != "mu" && !called[x] {
						touches = true
					}
				case *ast.Ident:
					if alias[x.Name] {
						touches = true
					}
				}
				return true
			})
		}
		var cs []string
		for c := range callees {
			cs = append(cs, leanString(c))
		}
		sort.Strings(cs)
		entry := ast.IsExported(rt) && ast.IsExported(fd.Name.Name)
		rows = append(rows, fmt.Sprintf("(%s, %s, %v, %v, %v, [%s])", leanString(name), leanString(lock), writes, touches, entry, strings.Join(cs, ", ")))
	}
	if len(rows) == 0 {
		return "[]"
	}
	return "[" + strings.Join(rows, ",\n") + "]"
}

// fieldUses lists (file, function, field) for every selector `.field` with field in `fields`, over the non-test Go
// files of the directory of `rel` other than `rel` itself (private state reached from outside its file)
func fieldUses(repo, rel string, fields []string) (string, error) {
	dir := filepath.Dir(filepath.Join(repo, rel))
	ents, err := os.ReadDir(dir)
	if err != nil {
		return "", err
	}
	want := map[string]bool{}
	for _, f := range fields {
		want[f] = true
	}
	var rows []string
	for _, e := range ents {
		n := e.Name()
		if e.IsDir() || !strings.HasSuffix(n, ".go") || strings.HasSuffix(n, "_test.go") || n == filepath.Base(rel) {
			continue
		}
		r := filepath.Join(filepath.Dir(rel), n)
		if b, err := os.ReadFile(filepath.Join(repo, r)); err == nil && (strings.HasPrefix(string(b), "//go:build verif\n") || strings.HasPrefix(string(b), "//go:build verif ")) {
			continue // hooks of the verification harness: not part of a normal build
		}
		f, err := parseFile(repo, r)
		if err != nil {
			return "", err
		}
		for _, d := range f.Decls {
			fn := "(package level)"
			if fd, ok := d.(*ast.FuncDecl); ok {
				fn = fd.Name.Name
			}
			ast.Inspect(d, func(nd ast.Node) bool {
				if se, ok := nd.(*ast.SelectorExpr); ok && want[se.Sel.Name] {
					rows = append(rows, fmt.Sprintf("(%s, %s, %s)", leanString(n), leanString(fn), leanString(se.Sel.Name)))
				}
				return true
			})
		}
	}
	if len(rows) == 0 {
		return "[]", nil
	}
	return "[" + strings.Join(rows, ",\n") + "]", nil
}

// lockPairs lists every mutex acquisition of a file — a statement `X.Lock()` or `X.RLock()` — with the function it is
// in and whether the statement right after it is the matching `defer X.Unlock()` / `defer X.RUnlock()`:
//
//	(function, acquisition text, paired)
func lockPairs(f *ast.File) string {
	var rows []string
	for _, d := range f.Decls {
		fd, ok := d.(*ast.FuncDecl)
		if !ok || fd.Body == nil {
			continue
		}
		name := fd.Name.Name
		if fd.Recv != nil && len(fd.Recv.List) > 0 {
			t := strings.TrimPrefix(norm(src(fd.Recv.List[0].Type)), "*")
			if i := strings.Index(t, "["); i >= 0 {
				t = t[:i]
			}
			name = t + "." + name
		}
		ast.Inspect(fd.Body, func(n ast.Node) bool {
			var list []ast.Stmt
			switch b := n.(type) {
			case *ast.BlockStmt:
				list = b.List
			case *ast.CaseClause:
				list = b.Body
			case *ast.CommClause:
				list = b.Body
			default:
				return true
			}
			for i, st := range list {
				es, ok := st.(*ast.ExprStmt)
				if !ok {
					continue
				}
				t := norm(src(es))
				var un string
				switch {
				case strings.HasSuffix(t, ".RLock()"):
					un = "defer " + strings.TrimSuffix(t, ".RLock()") + ".RUnlock()"
				case strings.HasSuffix(t, ".Lock()"):
					un = "defer " + strings.TrimSuffix(t, ".Lock()") + ".Unlock()"
				default:
					continue
				}
				paired := i+1 < len(list) && norm(src(list[i+1])) == un
				rows = append(rows, fmt.Sprintf("(%s, %s, %v)", leanString(name), leanString(t), paired))
			}
			return true
		})
	}
	if len(rows) == 0 {
		return "[]"
	}
	return "[" + strings.Join(rows, ",\n") + "]"
}
