module verif

go 1.23.0

require (
	github.com/btcsuite/btcd/btcec/v2 v2.3.4
	github.com/coder/websocket v1.8.13
	github.com/high-moctane/mocrelay v0.0.0
	github.com/mattn/go-sqlite3 v1.14.27
	github.com/prometheus/client_golang v1.22.0
)

require (
	github.com/beorn7/perks v1.0.1 // indirect
	github.com/btcsuite/btcd/chaincfg/chainhash v1.0.1 // indirect
	github.com/cespare/xxhash/v2 v2.3.0 // indirect
	github.com/decred/dcrd/crypto/blake256 v1.0.0 // indirect
	github.com/decred/dcrd/dcrec/secp256k1/v4 v4.0.1 // indirect
	github.com/doug-martin/goqu/v9 v9.19.0 // indirect
	github.com/google/uuid v1.6.0 // indirect
	github.com/hashicorp/golang-lru/v2 v2.0.7 // indirect
	github.com/igrmk/treemap/v2 v2.0.1 // indirect
	github.com/munnerz/goautoneg v0.0.0-20191010083416-a7dc8b61c822 // indirect
	github.com/pierrec/xxHash v0.1.5 // indirect
	github.com/prometheus/client_model v0.6.1 // indirect
	github.com/prometheus/common v0.62.0 // indirect
	github.com/prometheus/procfs v0.15.1 // indirect
	golang.org/x/exp v0.0.0-20220317015231-48e79f11773a // indirect
	golang.org/x/sys v0.30.0 // indirect
	golang.org/x/time v0.11.0 // indirect
	google.golang.org/protobuf v1.36.5 // indirect
)

replace github.com/high-moctane/mocrelay => /repo
