// harness: runs the REAL mocrelay code (from /repo, via `replace`) in-process on generated
// or replayed inputs and writes one JSON line per operation:
//     {"op":..., <inputs>..., "out": <canonicalised implementation output>}
// The Lean driver (mocdriver) reads these lines, runs the model on the same inputs,
// reports differences and evaluates the property monitors on the implementation output.
//
// usage: harness <property> [-seed N] [-n N] [-tier quick|thorough] [-replay file]
package main

import (
	"bytes"
	"flag"
	"fmt"
	"io"
	"os"
	"strconv"
)

func bytesReader(b []byte) io.Reader { return bytes.NewReader(b) }

type propRunner struct {
	gen    func(r *Rng, n int, tier string)
	replay func(lines []replayLine)
}

var props = map[string]propRunner{}

func main() {
	if len(os.Args) < 2 {
		fmt.Fprintln(os.Stderr, "usage: harness <property> [flags]")
		os.Exit(3)
	}
	prop := os.Args[1]
	fs := flag.NewFlagSet("harness", flag.ExitOnError)
	seedDefault := uint64(1)
	if s := os.Getenv("VERIF_SEED"); s != "" {
		if v, err := strconv.ParseUint(s, 10, 64); err == nil {
			seedDefault = v
		} else if v, err := strconv.ParseInt(s, 10, 64); err == nil {
			seedDefault = uint64(v)
		}
	}
	seed := fs.Uint64("seed", seedDefault, "seed")
	n := fs.Int("n", 1000, "number of cases")
	tier := fs.String("tier", "quick", "tier")
	replay := fs.String("replay", "", "replay file")
	fs.Parse(os.Args[2:])

	p, ok := props[prop]
	if !ok {
		fmt.Fprintln(os.Stderr, "unknown property", prop)
		os.Exit(3)
	}
	defer out.Flush()
	if *replay != "" {
		lines := readReplay(*replay)
		// the replay of a crash of the implementation: the generator is deterministic, so the same run is repeated
		if len(lines) > 0 && lines[0]["op"] == "crash-rerun" {
			p.gen(NewRng(uint64(jnum(lines[0]["seed"]))), int(jnum(lines[0]["n"])), str(lines[0]["tier"]))
			return
		}
		p.replay(lines)
		return
	}
	p.gen(NewRng(*seed), *n, *tier)
}
