package main

import (
	"context"
	"fmt"
	"time"

	"github.com/high-moctane/mocrelay"
)

// C08 / C09: the real NewMergeHandler over SCRIPTED children.  A child's NOTICE passes the merge unchanged,
// so a barrier NOTICE emitted by the same child right after a message delimits that message's effect on the
// client side; a client message is complete when every child has received it.  Any total order of atomic
// steps can therefore be forced deterministically, without timeouts.

type scriptedChild struct {
	idx  int
	got  chan mocrelay.ClientMsg
	emit chan mocrelay.ServerMsg
}

func (c *scriptedChild) ServeNostr(ctx context.Context, send chan<- mocrelay.ServerMsg, recv <-chan mocrelay.ClientMsg) error {
	for {
		select {
		case <-ctx.Done():
			return ctx.Err()
		case m, ok := <-recv:
			if !ok {
				return mocrelay.ErrRecvClosed
			}
			select {
			case c.got <- m:
			case <-ctx.Done():
				return ctx.Err()
			}
		case m := <-c.emit:
			select {
			case send <- m:
			case <-ctx.Done():
				return ctx.Err()
			}
		}
	}
}

type mergeStep struct {
	K string // client | child
	I int
	C mocrelay.ClientMsg
	S mocrelay.ServerMsg
}

func runMergeTrace(n int, steps []mergeStep) {
	children := make([]*scriptedChild, n)
	hs := make([]mocrelay.Handler, n)
	for i := range children {
		children[i] = &scriptedChild{idx: i, got: make(chan mocrelay.ClientMsg, 64), emit: make(chan mocrelay.ServerMsg)}
		hs[i] = children[i]
	}
	h := mocrelay.NewMergeHandler(hs...)
	// An EARLIER connection on the same handler that ends with requests half answered: it sends the first EVENT and
	// the first COUNT of the trace, child 0 answers them (accepting / count 5), and the connection goes away.  A
	// merged handler serves many connections; nothing of this one may show in the session under test.
	if mergePrelude {
		pctx, pcancel := context.WithCancel(context.Background())
		psend := make(chan mocrelay.ServerMsg, 16)
		precv := make(chan mocrelay.ClientMsg)
		pdone := make(chan error, 1)
		go func() { pdone <- h.ServeNostr(pctx, psend, precv) }()
		var pe *mocrelay.ClientEventMsg
		var pc *mocrelay.ClientCountMsg
		for _, st := range steps {
			if st.K != "client" {
				continue
			}
			if m, ok := st.C.(*mocrelay.ClientEventMsg); ok && pe == nil {
				pe = m
			}
			if m, ok := st.C.(*mocrelay.ClientCountMsg); ok && pc == nil {
				pc = m
			}
		}
		feed := func(m mocrelay.ClientMsg, reply mocrelay.ServerMsg) {
			select {
			case precv <- m:
			case <-time.After(5 * time.Second):
				return
			}
			for i := 0; i < n; i++ {
				select {
				case <-children[i].got:
				case <-time.After(5 * time.Second):
				}
			}
			select {
			case children[0].emit <- reply:
			case <-time.After(5 * time.Second):
			}
		}
		if pe != nil {
			feed(pe, mocrelay.NewServerOKMsg(pe.Event.ID, true, "", ""))
		}
		if pc != nil {
			feed(pc, mocrelay.NewServerCountMsg(pc.SubscriptionID, 5, nil))
		}
		time.Sleep(2 * time.Millisecond)
		pcancel()
		select {
		case <-pdone:
		case <-time.After(5 * time.Second):
		}
		for i := 0; i < n; i++ { // nothing of the earlier connection is left in the scripted children
			for len(children[i].got) > 0 {
				<-children[i].got
			}
		}
	}
	ctx, cancel := context.WithCancel(context.Background())
	send := make(chan mocrelay.ServerMsg)
	recv := make(chan mocrelay.ClientMsg)
	done := make(chan error, 1)
	go func() { done <- h.ServeNostr(ctx, send, recv) }()
	nb := 0
	var outs []any
	stalled := false
	for _, st := range steps {
		to := time.After(10 * time.Second)
		if st.K == "client" {
			select {
			case recv <- st.C:
			case <-to:
				stalled = true
			}
			for i := 0; i < n && !stalled; i++ {
				select {
				case <-children[i].got:
				case <-to:
					stalled = true
				}
			}
			outs = append(outs, M{"k": "client", "msg": cmsgJ(st.C)})
		} else {
			nb++
			id := fmt.Sprintf("%s%d", barrierPrefix, nb)
			c := children[st.I]
			var got []mocrelay.ServerMsg
			push := func(m mocrelay.ServerMsg) {
				for {
					select {
					case c.emit <- m:
						return
					case x := <-send:
						got = append(got, x)
					case <-to:
						stalled = true
						return
					}
				}
			}
			push(st.S)
			push(mocrelay.NewServerNoticeMsg(id))
			seen := false
			for _, x := range got {
				if b, ok := isBarrierNotice(x); ok && b == id {
					seen = true
				}
			}
			for !seen && !stalled {
				select {
				case x := <-send:
					if b, ok := isBarrierNotice(x); ok && b == id {
						seen = true
					} else {
						got = append(got, x)
					}
				case <-to:
					stalled = true
				}
			}
			var clean []mocrelay.ServerMsg
			for _, x := range got {
				if _, ok := isBarrierNotice(x); !ok {
					clean = append(clean, x)
				}
			}
			outs = append(outs, M{"k": "child", "i": st.I, "msg": smsgJ(st.S), "out": smsgsJ(clean)})
		}
		if stalled {
			break
		}
	}
	cancel()
	select {
	case <-done:
	case <-time.After(5 * time.Second):
	}
	line := M{"op": "merge", "n": n, "steps": outs}
	if mergePrelude {
		line["prelude"] = true
	}
	if stalled {
		line["stalled"] = true
		mergeStalls++
	}
	emit(line)
}

// traces of this run in which a step ran into its 10 s limit: after a few the sweep stops
var mergeStalls int

// whether the next trace is preceded by an earlier connection on the same merged handler (set by the generator and
// recorded in the line, so that a replay does the same)
var mergePrelude bool

// ---- trace generator: respects causality (a child speaks about a request only after the client sent it)

func genMergeTrace(r *Rng, g *EvGen, allowDupInFlight bool) (int, []mergeStep) {
	n := pick(r, []int{2, 2, 3, 4})
	g.made = nil
	var steps []mergeStep
	type pendEv struct {
		e    *mocrelay.Event
		todo []int // children that still have to answer
	}
	type pendCnt struct {
		sub  string
		todo []int
	}
	type subSt struct {
		fs       []*mocrelay.ReqFilter
		eoseTodo []int
		closed   bool
	}
	var pevs []*pendEv
	var pcnts []*pendCnt
	subs := map[string]*subSt{}
	subNames := []string{"s1", "s2", "s3"}
	all := func() []int {
		x := make([]int, n)
		for i := range x {
			x[i] = i
		}
		return x
	}
	pool := []*mocrelay.Event{}
	for k := 0; k < 12; k++ {
		pool = append(pool, g.Event())
	}
	total := r.Range(8, 40)
	for len(steps) < total {
		// scripted: a child that has already sent its EOSE emits an OLDER event while another child is still
		// streaming, and that other child then repeats the event at the head of the stream (a rare line-up of three)
		if r.P(5) {
			for _, name := range subNames {
				s, ok := subs[name]
				if !ok || s.closed || len(s.eoseTodo) < 2 {
					continue
				}
				a, b := s.eoseTodo[0], s.eoseTodo[1]
				head := pick(r, pool)
				older := g.Event()
				older.CreatedAt = head.CreatedAt - int64(r.Range(1, 3))
				pool = append(pool, older)
				steps = append(steps,
					mergeStep{K: "child", I: a, S: mocrelay.NewServerEventMsg(name, head)},
					mergeStep{K: "child", I: a, S: mocrelay.NewServerEOSEMsg(name)},
					mergeStep{K: "child", I: a, S: mocrelay.NewServerEventMsg(name, older)},
					mergeStep{K: "child", I: b, S: mocrelay.NewServerEventMsg(name, head)})
				s.eoseTodo = s.eoseTodo[1:]
				break
			}
		}
		switch r.Intn(12) {
		case 0, 1:
			// client REQ (not re-issued before its EOSE, except rarely)
			name := pick(r, subNames)
			if s, ok := subs[name]; ok && len(s.eoseTodo) > 0 && !s.closed && !r.P(3) {
				continue
			}
			fs := g.Filters()
			if r.P(40) {
				fs = []*mocrelay.ReqFilter{{}}
			}
			if r.P(30) {
				fs = []*mocrelay.ReqFilter{{Limit: ptr(int64(r.Range(0, 3)))}}
			}
			subs[name] = &subSt{fs: fs, eoseTodo: all()}
			steps = append(steps, mergeStep{K: "client", C: &mocrelay.ClientReqMsg{SubscriptionID: name, ReqFilters: fs}})
		case 2:
			// CLOSE of a REQ id — or of an id that a COUNT in flight uses (the id spaces of REQ and COUNT overlap:
			// a CLOSE concerns the subscription only, a pending COUNT must still get its one reply)
			name := pick(r, append(append([]string{}, subNames...), "c1", "c2"))
			if len(pcnts) > 0 && r.P(40) {
				name = pcnts[r.Intn(len(pcnts))].sub
			}
			if s, ok := subs[name]; ok {
				s.closed = true
			}
			steps = append(steps, mergeStep{K: "client", C: &mocrelay.ClientCloseMsg{SubscriptionID: name}})
		case 3:
			e := g.Event()
			if len(pevs) > 0 && allowDupInFlight && r.P(30) {
				e = pevs[0].e // the same id while it is still in flight
			} else if len(pool) > 0 && r.P(15) {
				e = pick(r, pool)
				dup := false
				for _, p := range pevs {
					if p.e.ID == e.ID {
						dup = true
					}
				}
				if dup {
					continue
				}
			}
			pevs = append(pevs, &pendEv{e: e, todo: all()})
			steps = append(steps, mergeStep{K: "client", C: &mocrelay.ClientEventMsg{Event: e}})
		case 4:
			name := pick(r, []string{"c1", "c2", "c1", "c2", "s1", "s2"})
			dup := false
			for _, p := range pcnts {
				if p.sub == name {
					dup = true
				}
			}
			if dup && !(allowDupInFlight && r.P(50)) {
				continue
			}
			pcnts = append(pcnts, &pendCnt{sub: name, todo: all()})
			steps = append(steps, mergeStep{K: "client", C: &mocrelay.ClientCountMsg{SubscriptionID: name, ReqFilters: []*mocrelay.ReqFilter{{}}}})
		case 5, 6:
			// a child answers a pending EVENT
			if len(pevs) == 0 {
				continue
			}
			pi := r.Intn(len(pevs))
			p := pevs[pi]
			ci := r.Intn(len(p.todo))
			child := p.todo[ci]
			p.todo = append(p.todo[:ci], p.todo[ci+1:]...)
			acc := r.P(60)
			pfx, msg := "", ""
			if !acc {
				pfx, msg = pick(r, []string{"", "blocked: ", "rate-limited: ", "duplicate: "}), pick(r, []string{"no", "slow down", ""})
			} else if r.P(20) {
				msg = "stored"
			}
			steps = append(steps, mergeStep{K: "child", I: child, S: mocrelay.NewServerOKMsg(p.e.ID, acc, pfx, msg)})
			if len(p.todo) == 0 {
				pevs = append(pevs[:pi], pevs[pi+1:]...)
			}
		case 7:
			if len(pcnts) == 0 {
				continue
			}
			pi := r.Intn(len(pcnts))
			p := pcnts[pi]
			ci := r.Intn(len(p.todo))
			child := p.todo[ci]
			p.todo = append(p.todo[:ci], p.todo[ci+1:]...)
			steps = append(steps, mergeStep{K: "child", I: child, S: mocrelay.NewServerCountMsg(p.sub, uint64(r.Intn(5)), nil)})
			if len(p.todo) == 0 {
				pcnts = append(pcnts[:pi], pcnts[pi+1:]...)
			}
		case 8, 9, 10:
			// a child emits an event for a requested subscription: sorted or not, matching or not, duplicated or not
			if len(subs) == 0 {
				continue
			}
			name := pick(r, subNames)
			if _, ok := subs[name]; !ok {
				continue
			}
			e := pick(r, pool)
			if r.P(20) {
				e = g.Event()
				pool = append(pool, e)
			}
			steps = append(steps, mergeStep{K: "child", I: r.Intn(n), S: mocrelay.NewServerEventMsg(name, e)})
		default:
			// a child sends EOSE (sometimes twice, sometimes for an unknown subscription)
			name := pick(r, subNames)
			s, ok := subs[name]
			child := r.Intn(n)
			if ok && len(s.eoseTodo) > 0 && r.P(85) {
				ci := r.Intn(len(s.eoseTodo))
				child = s.eoseTodo[ci]
				s.eoseTodo = append(s.eoseTodo[:ci], s.eoseTodo[ci+1:]...)
			}
			steps = append(steps, mergeStep{K: "child", I: child, S: mocrelay.NewServerEOSEMsg(name)})
		}
		if r.P(3) {
			steps = append(steps, mergeStep{K: "child", I: r.Intn(n), S: pick(r, []mocrelay.ServerMsg{mocrelay.NewServerNoticeMsg("hi"), mocrelay.NewServerClosedMsg("s1", "", "bye"), &mocrelay.ServerAuthMsg{Challenge: "c"}})})
		}
	}
	// let the children finish what is pending (every child answers each EVENT / COUNT once)
	for _, p := range pevs {
		for _, child := range p.todo {
			steps = append(steps, mergeStep{K: "child", I: child, S: mocrelay.NewServerOKMsg(p.e.ID, true, "", "")})
		}
	}
	for _, p := range pcnts {
		for _, child := range p.todo {
			steps = append(steps, mergeStep{K: "child", I: child, S: mocrelay.NewServerCountMsg(p.sub, 1, nil)})
		}
	}
	return n, steps
}

func init() {
	mk := func(dup bool) propRunner {
		return propRunner{
			gen: func(r *Rng, n int, tier string) {
				g := &EvGen{r: r}
				for i := 0; i < n && mergeStalls < 4; i++ {
					k, steps := genMergeTrace(r, g, dup)
					mergePrelude = r.P(25)
					runMergeTrace(k, steps)
					mergePrelude = false
				}
			},
			replay: func(lines []replayLine) {
				for _, l := range lines {
					if l["op"] != "merge" {
						continue
					}
					var steps []mergeStep
					arr, _ := l["steps"].([]any)
					for _, x := range arr {
						m := x.(map[string]any)
						if str(m["k"]) == "client" {
							steps = append(steps, mergeStep{K: "client", C: cmsgFromJ(m["msg"])})
						} else {
							steps = append(steps, mergeStep{K: "child", I: int(jnum(m["i"])), S: smsgFromJ(m["msg"])})
						}
					}
					mergePrelude, _ = l["prelude"].(bool)
					runMergeTrace(int(jnum(l["n"])), steps)
					mergePrelude = false
				}
			},
		}
	}
	props["merge"] = mk(false)
	props["mergedup"] = mk(true)
}
