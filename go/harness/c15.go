package main

import (
	"os"
	"path/filepath"
	"runtime"
	"sync"
	"sync/atomic"

	"github.com/high-moctane/mocrelay"
)

// C15: concurrent Add / Find / Len on ONE EventCache (directly and through concurrent CacheHandler
// sessions), every call stamped with a global logical clock at invocation and at response.  Built with
// -race; a race report (GORACE log_path) marks the case.  The Lean driver searches a linearization of
// every small history against the sequential model and judges every listing.

type concCall struct {
	K        string
	E        *mocrelay.Event
	Fs       []*mocrelay.ReqFilter
	Inv, Res int64
	Out      any
}

func (c concCall) J() any {
	m := M{"k": c.K, "inv": c.Inv, "res": c.Res, "out": c.Out}
	if c.E != nil {
		m["e"] = evJ(c.E)
	}
	if c.Fs != nil {
		m["fs"] = filtersJ(c.Fs)
	}
	return m
}

var raceLogPrefix = os.Getenv("VERIF_RACE_LOG")

func raceSeen() bool {
	if raceLogPrefix == "" {
		return false
	}
	m, _ := filepath.Glob(raceLogPrefix + ".*")
	return len(m) > 0
}

type concPlan struct {
	Cap     int
	Pre     []*mocrelay.Event
	Threads [][]concCall // K, E, Fs filled
	Via     string       // "cache" | "handler"
}

func genConcPlan(r *Rng, g *EvGen) concPlan {
	g.made = nil
	p := concPlan{Cap: pick(r, []int{1, 2, 2, 3, 4}), Via: "cache"}
	if r.P(25) {
		p.Via = "handler"
	}
	for i := r.Intn(4); i > 0; i-- {
		p.Pre = append(p.Pre, g.Event())
	}
	pool := append([]*mocrelay.Event{}, p.Pre...)
	nth := r.Range(2, 4)
	total := 0
	for t := 0; t < nth; t++ {
		var calls []concCall
		for k := r.Range(1, 3); k > 0 && total < 9; k-- {
			total++
			switch r.Intn(10) {
			case 0, 1, 2, 3, 4:
				var e *mocrelay.Event
				switch {
				case len(pool) > 0 && r.P(30):
					base := pick(r, pool)
					e = g.Event()
					e.Pubkey, e.Kind, e.CreatedAt = base.Pubkey, base.Kind, base.CreatedAt+int64(r.Range(-1, 1))
					e.Tags = cloneEv(base).Tags
				case len(pool) > 0 && r.P(30):
					e = g.Deletion()
				case len(pool) > 0 && r.P(15):
					e = cloneEv(pick(r, pool))
				default:
					e = g.Event()
				}
				pool = append(pool, e)
				calls = append(calls, concCall{K: "add", E: e})
			case 5, 6, 7:
				calls = append(calls, concCall{K: "find", Fs: []*mocrelay.ReqFilter{{}}})
			case 8:
				// a query is ONE atomic read however many filters it has: several filters about the same events
				switch {
				case len(pool) > 0 && r.P(40):
					b := pick(r, pool)
					calls = append(calls, concCall{K: "find", Fs: []*mocrelay.ReqFilter{{Authors: []string{b.Pubkey}}, {Kinds: []int64{b.Kind}}}})
				case r.P(50):
					calls = append(calls, concCall{K: "find", Fs: []*mocrelay.ReqFilter{g.aimedFilter(pool), {}}})
				default:
					calls = append(calls, concCall{K: "find", Fs: []*mocrelay.ReqFilter{g.aimedFilter(pool)}})
				}
			default:
				if p.Via == "cache" {
					calls = append(calls, concCall{K: "len"})
				} else {
					calls = append(calls, concCall{K: "find", Fs: []*mocrelay.ReqFilter{{}}})
				}
			}
		}
		p.Threads = append(p.Threads, calls)
	}
	return p
}

func runConcPlan(p concPlan) {
	var clk int64
	tick := func() int64 { return atomic.AddInt64(&clk, 1) }
	results := make([][]concCall, len(p.Threads))
	var start sync.WaitGroup
	start.Add(1)
	var wg sync.WaitGroup
	if p.Via == "cache" {
		c := mocrelay.NewEventCache(p.Cap)
		for _, e := range p.Pre {
			c.Add(e)
		}
		for t := range p.Threads {
			wg.Add(1)
			go func(t int) {
				defer wg.Done()
				start.Wait()
				for _, call := range p.Threads[t] {
					call.Inv = tick()
					switch call.K {
					case "add":
						call.Out = M{"added": c.Add(call.E)}
					case "find":
						res := c.Find(call.Fs)
						if res == nil {
							res = []*mocrelay.Event{}
						}
						call.Out = M{"res": evsJ(res)}
					case "len":
						call.Out = M{"len": c.Len()}
					}
					call.Res = tick()
					results[t] = append(results[t], call)
					runtime.Gosched()
				}
			}(t)
		}
		start.Done()
		wg.Wait()
	} else {
		h := mocrelay.NewCacheHandler(p.Cap)
		pre := startPlain(h)
		for _, e := range p.Pre {
			pre.step(&mocrelay.ClientEventMsg{Event: e})
		}
		pre.stop()
		sessions := make([]*plainSession, len(p.Threads))
		for t := range p.Threads {
			sessions[t] = startPlain(h)
		}
		for t := range p.Threads {
			wg.Add(1)
			go func(t int) {
				defer wg.Done()
				start.Wait()
				s := sessions[t]
				for _, call := range p.Threads[t] {
					// the barrier COUNT of step() touches no cache state, so [inv,res] brackets the cache call
					call.Inv = tick()
					switch call.K {
					case "add":
						rs, _ := s.step(&mocrelay.ClientEventMsg{Event: call.E})
						acc := false
						if len(rs) == 1 {
							if ok, isOK := rs[0].(*mocrelay.ServerOKMsg); isOK {
								acc = ok.Accepted
							}
						}
						call.Out = M{"added": acc}
					case "find":
						rs, _ := s.step(&mocrelay.ClientReqMsg{SubscriptionID: "q", ReqFilters: call.Fs})
						call.Out = M{"res": evsJ(eventsOf(rs))}
					}
					call.Res = tick()
					results[t] = append(results[t], call)
				}
			}(t)
		}
		start.Done()
		wg.Wait()
		for _, s := range sessions {
			s.stop()
		}
	}
	var ops []any
	for _, rs := range results {
		for _, c := range rs {
			ops = append(ops, c.J())
		}
	}
	plan := make([]any, len(p.Threads))
	for t, calls := range p.Threads {
		cs := make([]any, len(calls))
		for i, c := range calls {
			cs[i] = c.J()
		}
		plan[t] = cs
	}
	line := M{"op": "conc", "cap": p.Cap, "via": p.Via, "pre": evsJ(p.Pre), "ops": ops, "plan": plan}
	if raceSeen() {
		line["race"] = true
	}
	emit(line)
}

// a large mix: only the listings are judged (and the race detector watches)
func runConcBig(r *Rng, g *EvGen) {
	g.made = nil
	cap := pick(r, []int{3, 8, 50})
	c := mocrelay.NewEventCache(cap)
	var evs []*mocrelay.Event
	for i := 0; i < 300; i++ {
		if r.P(15) {
			evs = append(evs, g.Deletion())
		} else {
			evs = append(evs, g.Event())
		}
	}
	var mu sync.Mutex
	var listings [][]*mocrelay.Event
	var wg sync.WaitGroup
	for t := 0; t < 8; t++ {
		wg.Add(1)
		go func(t int) {
			defer wg.Done()
			for i := t; i < len(evs); i += 8 {
				c.Add(evs[i])
				if i%3 == 0 {
					// alternately one filter and three (the union of a multi-filter query is still ONE snapshot)
					fs := []*mocrelay.ReqFilter{{}}
					if i%2 == 0 {
						fs = []*mocrelay.ReqFilter{{Kinds: []int64{0, 3, 10002, 30023, 30024, 5}}, {Authors: authors}, {}}
					}
					l := c.Find(fs)
					mu.Lock()
					if len(listings) < 200 {
						listings = append(listings, l)
					}
					mu.Unlock()
				}
				c.Len()
			}
		}(t)
	}
	wg.Wait()
	var clk int64
	var ops []any
	for _, l := range listings {
		if l == nil {
			l = []*mocrelay.Event{}
		}
		clk += 2
		ops = append(ops, concCall{K: "find", Fs: []*mocrelay.ReqFilter{{}}, Inv: clk, Res: clk + 1, Out: M{"res": evsJ(l)}}.J())
	}
	line := M{"op": "concbig", "cap": cap, "ops": ops}
	if raceSeen() {
		line["race"] = true
	}
	emit(line)
}

// racing pairs: an event and a deletion request of its author naming it are offered at the same moment by two
// goroutines, 120 pairs in a row on a store without eviction.  Whichever call is linearized first, the event must be
// gone in the end (refused, or removed by the request): the final listing is judged.
func runConcPairs(r *Rng, g *EvGen) {
	g.made = nil
	const pairs = 120
	c := mocrelay.NewEventCache(4 * pairs)
	var xs, ds []*mocrelay.Event
	for i := 0; i < pairs; i++ {
		x := g.Event()
		x.Kind, x.Tags = 1, []mocrelay.Tag{}
		g.nextID++
		d := &mocrelay.Event{ID: eventID(g.nextID), Pubkey: x.Pubkey, CreatedAt: x.CreatedAt, Kind: 5, Content: "del",
			Sig: sig128(g.nextID), Tags: []mocrelay.Tag{{"e", x.ID}}}
		xs, ds = append(xs, x), append(ds, d)
	}
	gates := make([]chan struct{}, pairs)
	for i := range gates {
		gates[i] = make(chan struct{})
	}
	var wg sync.WaitGroup
	for _, side := range [][]*mocrelay.Event{xs, ds} {
		wg.Add(1)
		go func(evs []*mocrelay.Event) {
			defer wg.Done()
			for i, e := range evs {
				<-gates[i]
				c.Add(e)
			}
		}(side)
	}
	for i := range gates {
		close(gates[i]) // both goroutines are released for pair i at once
		if i%16 == 15 {
			runtime.Gosched()
		}
	}
	wg.Wait()
	l := c.Find([]*mocrelay.ReqFilter{{}})
	if l == nil {
		l = []*mocrelay.Event{}
	}
	line := M{"op": "concbig", "cap": 4 * pairs, "ops": []any{concCall{K: "find", Fs: []*mocrelay.ReqFilter{{}}, Inv: 1, Res: 2, Out: M{"res": evsJ(l)}}.J()}}
	if raceSeen() {
		line["race"] = true
	}
	emit(line)
}

func init() {
	props["C15"] = propRunner{
		gen: func(r *Rng, n int, tier string) {
			g := &EvGen{r: r}
			for i := 0; i < n; i++ {
				if i%500 == 499 {
					runConcBig(r, g)
				} else if i%250 == 100 {
					runConcPairs(r, g)
				} else {
					runConcPlan(genConcPlan(r, g))
				}
			}
		},
		replay: func(lines []replayLine) {
			// a concurrent history cannot be re-executed deterministically: replay re-runs the recorded PLAN
			// many times and emits every execution (the checker judges each)
			for _, l := range lines {
				if l["op"] != "conc" {
					continue
				}
				p := concPlan{Cap: int(jnum(l["cap"])), Via: str(l["via"]), Pre: evsFromJ(l["pre"])}
				plan, _ := l["plan"].([]any)
				for _, th := range plan {
					var calls []concCall
					for _, c := range th.([]any) {
						m := c.(map[string]any)
						cc := concCall{K: str(m["k"])}
						if e, ok := m["e"]; ok && e != nil {
							cc.E = evFromJ(e)
						}
						if fs, ok := m["fs"]; ok && fs != nil {
							cc.Fs = filtersFromJ(fs)
						}
						calls = append(calls, cc)
					}
					p.Threads = append(p.Threads, calls)
				}
				for i := 0; i < 300; i++ {
					runConcPlan(p)
				}
			}
		},
	}
}
