package main

import (
	"encoding/json"
	"fmt"
	"io"
	"math"
	"net/http"
	"net/http/httptest"
	"reflect"

	"github.com/high-moctane/mocrelay"
)

// C20: ServeMux routing over header combinations and mux configurations; Nip11Kind and NIP11 JSON
// round trips.

type markerHandler struct{}

func (markerHandler) ServeHTTP(w http.ResponseWriter, r *http.Request) { io.WriteString(w, "__DEFAULT__") }

var c20Doc = &mocrelay.NIP11{Name: "n", Description: "d <&>  ", SupportedNIPs: []int{1, 11},
	Limitation: &mocrelay.NIP11Limitation{MaxFilters: 3},
	Retention:  &mocrelay.NIP11Retention{Kinds: []*mocrelay.Nip11Kind{{From: 0, To: 0}, {From: 30000, To: 39999}}}}

// further request headers of the next c20Route call (conditional / range requests must not change the answer)
var c20Extra [][2]string

func c20Route(upgrade, accept *string, hasNip11, hasDefault bool, more ...string) any {
	mux := &mocrelay.ServeMux{Relay: mocrelay.NewRelay(mocrelay.NewDefaultHandler(), nil)}
	if hasNip11 {
		mux.NIP11 = c20Doc
	}
	if hasDefault {
		mux.Default = markerHandler{}
	}
	req := httptest.NewRequest("GET", "/", nil)
	up, ac := "", ""
	if upgrade != nil {
		req.Header.Set("Upgrade", *upgrade)
		up = *upgrade
	}
	if accept != nil {
		req.Header.Set("Accept", *accept)
		ac = *accept
		for _, m := range more { // further Accept lines: the header's value (Header.Get) stays the first line
			req.Header.Add("Accept", m)
		}
	} else {
		more = nil
	}
	if more == nil {
		more = []string{}
	}
	extra := []any{}
	for _, kv := range c20Extra {
		req.Header.Set(kv[0], kv[1])
		extra = append(extra, []any{kv[0], kv[1]})
	}
	rec := httptest.NewRecorder()
	mux.ServeHTTP(rec, req)
	res := rec.Result()
	body, _ := io.ReadAll(res.Body)
	o := M{}
	switch {
	case string(body) == "__DEFAULT__":
		o["target"] = "default"
	case string(body) == "Hello Mocrelay (｀･ω･´)！":
		o["target"] = "greeting"
	case string(body) == "{}" && res.Header.Get("Content-Type") != "application/nostr+json":
		o["target"] = "empty"
	case res.StatusCode >= 400 && res.Header.Get("Content-Type") != "application/nostr+json" && string(body) != "Need an Accept header of application/nostr+json":
		o["target"] = "relay" // websocket.Accept refused the (non-handshake) request
	default:
		// the NIP-11 handler answered (document, or its own 400)
		o["target"] = "nip11"
		o["status"] = res.StatusCode
		o["contentType"] = res.Header.Get("Content-Type")
		o["cors"] = res.Header.Get("Access-Control-Allow-Origin")
		var back mocrelay.NIP11
		ok := json.Valid(body) && json.Unmarshal(body, &back) == nil && docEqual(&back, c20Doc)
		o["bodyEqualsConfig"] = ok
	}
	return M{"op": "route", "upgrade": up, "accept": ac, "upgradeSet": upgrade != nil, "acceptSet": accept != nil, "acceptMore": more, "extra": extra,
		"hasNip11": hasNip11, "hasDefault": hasDefault, "out": o}
}

// equality modulo omitempty (nil == empty slice, nil pointer == pointer to zero struct is NOT equal)
func normDoc(d *mocrelay.NIP11) *mocrelay.NIP11 {
	b, _ := json.Marshal(d)
	var x mocrelay.NIP11
	json.Unmarshal(b, &x)
	return &x
}

func docEqual(a, b *mocrelay.NIP11) bool {
	ja, _ := json.Marshal(a)
	jb, _ := json.Marshal(b)
	return string(ja) == string(jb) && reflect.DeepEqual(normDoc(a), normDoc(b))
}

func c20Kind(from, to int) any {
	k := mocrelay.Nip11Kind{From: from, To: to}
	b, err := json.Marshal(k)
	o := M{}
	if err != nil {
		o["tree"] = nil
		o["back"] = "error"
	} else {
		t, _ := treeOf(b)
		o["tree"] = t
		var back mocrelay.Nip11Kind
		if err := json.Unmarshal(b, &back); err != nil {
			o["back"] = "error"
		} else {
			o["back"] = fmt.Sprintf("ok:%d:%d", back.From, back.To)
		}
	}
	return M{"op": "kind", "from": from, "to": to, "out": o}
}

func c20KindParse(text string) any {
	t, err := treeOf([]byte(text))
	if err != nil {
		return nil
	}
	var back mocrelay.Nip11Kind
	res := ""
	if p := recoverStr(func() {
		if err := json.Unmarshal([]byte(text), &back); err != nil {
			res = "error"
		} else {
			res = fmt.Sprintf("ok:%d:%d", back.From, back.To)
		}
	}); p != "" {
		res = "panic"
	}
	return M{"op": "kindparse", "text": text, "tree": t, "out": M{"res": res}}
}

func genKindInt(r *Rng) int {
	switch r.Intn(8) {
	case 0:
		return 0
	case 1:
		return r.Intn(70000)
	case 2:
		return -r.Intn(100)
	case 3:
		return math.MaxInt
	case 4:
		return math.MinInt
	case 5:
		return (1 << 53) + r.Intn(5)
	default:
		return r.Intn(40000)
	}
}

func genDoc(r *Rng) *mocrelay.NIP11 {
	d := &mocrelay.NIP11{}
	strs := []string{"", "x", "relay <b>&</b>", "日本語   😀", "a\"b\\c\n"}
	if r.Bool() {
		d.Name = pick(r, strs)
	}
	if r.Bool() {
		d.Description = pick(r, strs)
	}
	if r.Bool() {
		d.Pubkey = authors[0]
	}
	if r.Bool() {
		d.Contact = pick(r, strs)
	}
	if r.Bool() {
		d.SupportedNIPs = []int{}
		for i := r.Intn(4); i > 0; i-- {
			d.SupportedNIPs = append(d.SupportedNIPs, r.Intn(100))
		}
	}
	if r.Bool() {
		d.Software, d.Version = pick(r, strs), pick(r, strs)
	}
	if r.P(60) {
		d.Limitation = &mocrelay.NIP11Limitation{MaxMessageLength: r.Intn(3) * 1000, MaxSubscriptions: r.Intn(3), MaxFilters: r.Intn(3),
			MaxLimit: r.Intn(3) * 100, MaxSubIDLength: r.Intn(3), MaxEventTags: r.Intn(3), MaxContentLength: r.Intn(3),
			MinPoWDifficulty: r.Intn(2), AuthRequired: r.Bool(), PaymentRequired: r.Bool(),
			CreatedAtLowerLimit: int64(r.Intn(3)), CreatedAtUpperLimit: int64(r.Intn(3))}
	}
	kinds := func() []*mocrelay.Nip11Kind {
		var ks []*mocrelay.Nip11Kind
		for i := r.Intn(4); i > 0; i-- {
			k := &mocrelay.Nip11Kind{From: genKindInt(r), To: genKindInt(r)}
			if r.P(40) {
				k.To = k.From
			}
			ks = append(ks, k)
		}
		return ks
	}
	if r.P(50) {
		d.Retention = &mocrelay.NIP11Retention{Kinds: kinds()}
		if r.Bool() {
			d.Retention.Time = ptr(r.Intn(5))
		}
		if r.Bool() {
			d.Retention.Count = ptr(r.Intn(5))
		}
	}
	if r.Bool() {
		d.RelayContries = []string{"JP", "US"}[:r.Intn(3)]
	}
	if r.Bool() {
		d.LanguageTags = []string{"ja", "en"}[:r.Intn(3)]
	}
	if r.Bool() {
		d.Tags = []string{"sfw-only"}[:r.Intn(2)]
	}
	if r.Bool() {
		d.PostingPolicy, d.PaymentsURL, d.Icon = pick(r, strs), pick(r, strs), pick(r, strs)
	}
	if r.P(40) {
		fee := func() []*mocrelay.Nip11Fee {
			var fs []*mocrelay.Nip11Fee
			for i := r.Intn(3); i > 0; i-- {
				f := &mocrelay.Nip11Fee{Kinds: kinds(), Amount: r.Intn(1000), Unit: pick(r, []string{"", "msats"})}
				if r.Bool() {
					f.Period = ptr(r.Intn(1000))
				}
				fs = append(fs, f)
			}
			return fs
		}
		d.Fees = &mocrelay.NIP11Fees{Admission: fee(), Subscription: fee(), Publication: fee()}
	}
	return d
}

func c20Doc1(d *mocrelay.NIP11) any {
	b, err := json.Marshal(d)
	o := M{"roundtrip": false, "served": false}
	var dj any
	json.Unmarshal(b, &dj)
	if err == nil {
		var back mocrelay.NIP11
		if json.Unmarshal(b, &back) == nil {
			o["roundtrip"] = docEqual(&back, d)
			bb, _ := json.Marshal(&back)
			var bj any
			json.Unmarshal(bb, &bj)
			o["back"] = bj
		}
		// through ServeHTTP
		req := httptest.NewRequest("GET", "/", nil)
		req.Header.Set("Accept", "application/nostr+json")
		rec := httptest.NewRecorder()
		(&mocrelay.ServeMux{NIP11: d}).ServeHTTP(rec, req)
		body, _ := io.ReadAll(rec.Result().Body)
		var served mocrelay.NIP11
		o["served"] = json.Valid(body) && json.Unmarshal(body, &served) == nil && docEqual(&served, d) &&
			rec.Result().Header.Get("Content-Type") == "application/nostr+json" && rec.Result().Header.Get("Access-Control-Allow-Origin") == "*"
		// the configuration changes behind the same pointer (an operator edits the relay's document at run time):
		// the next answer is the document as it is NOW, on the same mux and the same *NIP11
		mux := &mocrelay.ServeMux{NIP11: d}
		rec0 := httptest.NewRecorder()
		mux.ServeHTTP(rec0, req)
		d.Name += "+"
		d.Description = "changed " + d.Description
		rec2 := httptest.NewRecorder()
		mux.ServeHTTP(rec2, req)
		body2, _ := io.ReadAll(rec2.Result().Body)
		var served2 mocrelay.NIP11
		o["servedAfterChange"] = json.Valid(body2) && json.Unmarshal(body2, &served2) == nil && docEqual(&served2, d)
	}
	return M{"op": "doc", "doc": dj, "out": o}
}

func init() {
	sp := func(s string) *string { return &s }
	upgrades := []*string{nil, sp(""), sp("websocket"), sp("x"), sp("h2c")}
	accepts := []*string{nil, sp(""), sp("application/nostr+json"), sp("application/json"), sp("application/nostr+json, */*"),
		sp("Application/Nostr+json"), sp("application/nostr+json;q=0.9"), sp("*/*"), sp(" application/nostr+json"), sp("text/html,application/nostr+json")}
	kindTexts := []string{`5`, `-3`, `[1,2]`, `[1]`, `[1,2,3]`, `[]`, `"x"`, `null`, `true`, `{}`, `{"From":1,"To":2}`, `1.5`, `1e3`, `[1.5,2]`, `[1,"2"]`,
		`[null,1]`, `9223372036854775807`, `9223372036854775808`, `[9223372036854775808,1]`, `[-9223372036854775808,0]`, `[[1],[2]]`, ` [ 30000 , 39999 ] `}
	props["C20"] = propRunner{
		gen: func(r *Rng, n int, tier string) {
			// exhaustive routing table first
			for _, u := range upgrades {
				for _, a := range accepts {
					for _, hn := range []bool{false, true} {
						for _, hd := range []bool{false, true} {
							emit(c20Route(u, a, hn, hd))
						}
					}
				}
			}
			// requests with several Accept lines
			for _, u := range upgrades {
				for _, a := range accepts {
					if a == nil {
						continue
					}
					for _, m := range [][]string{{"application/nostr+json"}, {"text/html"}, {"*/*", "application/nostr+json"}, {""}} {
						for _, hn := range []bool{false, true} {
							for _, hd := range []bool{false, true} {
								emit(c20Route(u, a, hn, hd, m...))
							}
						}
					}
				}
			}
			// conditional, range and content-negotiation headers next to the Accept header: the answer stays the same
			for _, ex := range [][2]string{{"Range", "bytes=0-0"}, {"Range", "bytes=1-"}, {"If-None-Match", "*"}, {"If-Match", "\"x\""},
				{"If-Modified-Since", "Mon, 02 Jan 2006 15:04:05 GMT"}, {"If-Unmodified-Since", "Mon, 02 Jan 2006 15:04:05 GMT"}, {"If-Range", "\"x\""},
				{"Accept-Encoding", "gzip"}, {"Origin", "https://example.com"}, {"Content-Type", "application/nostr+json"}, {"Connection", "Upgrade"}} {
				c20Extra = [][2]string{ex}
				for _, a := range []*string{sp("application/nostr+json"), sp("text/html"), nil} {
					for _, hn := range []bool{false, true} {
						for _, hd := range []bool{false, true} {
							emit(c20Route(nil, a, hn, hd))
						}
					}
				}
			}
			c20Extra = nil
			for _, t := range kindTexts {
				if l := c20KindParse(t); l != nil {
					emit(l)
				}
			}
			for i := 0; i < n; i++ {
				switch r.Intn(3) {
				case 0:
					f, t := genKindInt(r), genKindInt(r)
					if r.P(40) {
						t = f
					}
					emit(c20Kind(f, t))
				default:
					emit(c20Doc1(genDoc(r)))
				}
			}
		},
		replay: func(lines []replayLine) {
			for _, l := range lines {
				switch l["op"] {
				case "route":
					var u, a *string
					if b, _ := l["upgradeSet"].(bool); b {
						u = sp(str(l["upgrade"]))
					}
					if b, _ := l["acceptSet"].(bool); b {
						a = sp(str(l["accept"]))
					}
					hn, _ := l["hasNip11"].(bool)
					hd, _ := l["hasDefault"].(bool)
					var more []string
					if ml, ok := l["acceptMore"].([]any); ok {
						for _, x := range ml {
							more = append(more, str(x))
						}
					}
					c20Extra = nil
					if xl, ok := l["extra"].([]any); ok {
						for _, x := range xl {
							if kv, ok := x.([]any); ok && len(kv) == 2 {
								c20Extra = append(c20Extra, [2]string{str(kv[0]), str(kv[1])})
							}
						}
					}
					emit(c20Route(u, a, hn, hd, more...))
					c20Extra = nil
				case "kind":
					emit(c20Kind(int(jnum(l["from"])), int(jnum(l["to"]))))
				case "kindparse":
					if x := c20KindParse(str(l["text"])); x != nil {
						emit(x)
					}
				case "doc":
					b, _ := json.Marshal(l["doc"])
					var d mocrelay.NIP11
					if json.Unmarshal(b, &d) == nil {
						emit(c20Doc1(&d))
					}
				}
			}
		},
	}
}
