//go:build !verif_noreg

package main

import (
	"github.com/high-moctane/mocrelay"
)

func registrySize(r *mocrelay.RouterHandler) (int, int) { return r.VerifRegistrySize() }
