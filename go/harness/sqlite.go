package main

import (
	"context"
	"database/sql"
	"database/sql/driver"
	"errors"
	"fmt"
	"math"
	"os"
	"path/filepath"
	"sync"

	"github.com/high-moctane/mocrelay"
	"github.com/high-moctane/mocrelay/handler/sqlite"
	sqlite3 "github.com/mattn/go-sqlite3"
)

// C06 / C14: the real insertEvents / queryEvent (verif exports) on a real SQLite database.
// A wrapping database/sql driver can fail at the k-th driver call of a batch (begin, each prepare, each exec,
// commit); file databases are closed and reopened between batches.

// ---- fault-injecting driver

type faultPlan struct {
	mu     sync.Mutex
	armed  bool
	count  int // driver calls seen since arming
	failAt int // 1-based index of the call that fails; 0 = never
	hit    bool
}

var fault faultPlan

var errInjected = errors.New("injected driver fault")

func (f *faultPlan) point() error {
	f.mu.Lock()
	defer f.mu.Unlock()
	if !f.armed {
		return nil
	}
	f.count++
	if f.failAt != 0 && f.count == f.failAt {
		f.hit = true
		return errInjected
	}
	return nil
}

type faultDriver struct{ inner driver.Driver }

func (d *faultDriver) Open(name string) (driver.Conn, error) {
	c, err := d.inner.Open(name)
	if err != nil {
		return nil, err
	}
	return &faultConn{c.(*sqlite3.SQLiteConn)}, nil
}

type faultConn struct{ c *sqlite3.SQLiteConn }

func (c *faultConn) Prepare(q string) (driver.Stmt, error) { return c.PrepareContext(context.Background(), q) }
func (c *faultConn) Close() error                          { return c.c.Close() }
func (c *faultConn) Begin() (driver.Tx, error)             { return c.BeginTx(context.Background(), driver.TxOptions{}) }
func (c *faultConn) BeginTx(ctx context.Context, o driver.TxOptions) (driver.Tx, error) {
	if err := fault.point(); err != nil {
		return nil, err
	}
	tx, err := c.c.BeginTx(ctx, o)
	if err != nil {
		return nil, err
	}
	return &faultTx{tx}, nil
}
func (c *faultConn) PrepareContext(ctx context.Context, q string) (driver.Stmt, error) {
	if err := fault.point(); err != nil {
		return nil, err
	}
	s, err := c.c.PrepareContext(ctx, q)
	if err != nil {
		return nil, err
	}
	return &faultStmt{s.(*sqlite3.SQLiteStmt)}, nil
}
func (c *faultConn) ExecContext(ctx context.Context, q string, a []driver.NamedValue) (driver.Result, error) {
	return c.c.ExecContext(ctx, q, a)
}
func (c *faultConn) QueryContext(ctx context.Context, q string, a []driver.NamedValue) (driver.Rows, error) {
	return c.c.QueryContext(ctx, q, a)
}
func (c *faultConn) Ping(ctx context.Context) error { return c.c.Ping(ctx) }

type faultTx struct{ tx driver.Tx }

// a failing commit behaves like SQLite's own failures that abort the transaction: it is rolled back
func (t *faultTx) Commit() error {
	if err := fault.point(); err != nil {
		t.tx.Rollback()
		return err
	}
	return t.tx.Commit()
}
func (t *faultTx) Rollback() error { return t.tx.Rollback() }

type faultStmt struct{ s *sqlite3.SQLiteStmt }

func (s *faultStmt) Close() error  { return s.s.Close() }
func (s *faultStmt) NumInput() int { return s.s.NumInput() }
func (s *faultStmt) Exec(a []driver.Value) (driver.Result, error) { return s.s.Exec(a) }
func (s *faultStmt) Query(a []driver.Value) (driver.Rows, error)  { return s.s.Query(a) }
func (s *faultStmt) ExecContext(ctx context.Context, a []driver.NamedValue) (driver.Result, error) {
	if err := fault.point(); err != nil {
		return nil, err
	}
	return s.s.ExecContext(ctx, a)
}
func (s *faultStmt) QueryContext(ctx context.Context, a []driver.NamedValue) (driver.Rows, error) {
	return s.s.QueryContext(ctx, a)
}

func init() { sql.Register("sqlite3_verif_fault", &faultDriver{&sqlite3.SQLiteDriver{}}) }

// ---- a database under test

type sqlDB struct {
	dir  string
	path string
	db   *sql.DB
	seed uint32
	n    int
}

var sqlCounter int

func (d *sqlDB) open() error {
	db, err := sql.Open("sqlite3_verif_fault", d.path)
	if err != nil {
		return err
	}
	db.SetMaxOpenConns(1)
	ctx := context.Background()
	if err := sqlite.Migrate(ctx, db); err != nil {
		return err
	}
	seed, err := sqlite.VerifSetOrLoadXXHashSeed(ctx, db)
	if err != nil {
		return err
	}
	d.db, d.seed = db, seed
	return nil
}

func newSQLDB(file bool) *sqlDB {
	d := &sqlDB{}
	sqlCounter++
	if file {
		dir, err := os.MkdirTemp("", "verif-sqlite-")
		if err != nil {
			panic(err)
		}
		d.dir = dir
		d.path = "file:" + filepath.Join(dir, "db.sqlite") + "?_synchronous=OFF&_journal_mode=DELETE"
	} else {
		d.path = fmt.Sprintf("file:verifmem%d_%d?mode=memory&cache=shared", os.Getpid(), sqlCounter)
	}
	if err := d.open(); err != nil {
		panic(err)
	}
	return d
}

func (d *sqlDB) close() {
	if d.db != nil {
		d.db.Close()
		d.db = nil
	}
	if d.dir != "" {
		os.RemoveAll(d.dir)
	}
}

func (d *sqlDB) reopen() {
	d.db.Close()
	if err := d.open(); err != nil {
		panic(err)
	}
	emit(M{"op": "reopen"})
}

func (d *sqlDB) batch(events []*mocrelay.Event, failAt int) {
	fault.mu.Lock()
	fault.armed, fault.count, fault.failAt, fault.hit = true, 0, failAt, false
	fault.mu.Unlock()
	err := sqlite.VerifInsertEvents(context.Background(), d.db, d.seed, events)
	fault.mu.Lock()
	fault.armed = false
	points := fault.count
	fault.mu.Unlock()
	evs := make([]any, len(events))
	for i, e := range events {
		evs[i] = evJ(e)
	}
	out := M{"err": err != nil, "points": points}
	if err != nil {
		out["msg"] = err.Error()
	}
	line := M{"op": "batch", "events": evs, "out": out}
	if failAt != 0 {
		line["fault"] = failAt
	}
	emit(line)
}

func (d *sqlDB) query(fs []*mocrelay.ReqFilter) {
	got, err := sqlite.VerifQueryEvent(context.Background(), d.db, d.seed, fs, math.MaxUint)
	out := M{"err": err != nil}
	if err != nil {
		out["msg"] = err.Error()
	} else {
		evs := make([]any, len(got))
		for i, e := range got {
			evs[i] = evJ(e)
		}
		out["events"] = evs
	}
	emit(M{"op": "query", "filters": filtersJ(fs), "out": out})
}

var sqlContents = []string{"plain", "日本語 ✓ 🎉", "quote \" back\\slash", "line\nbreak\ttab", "a<b>&c  ", "", "nul\x00byte"}

func genSQLBatch(r *Rng, g *EvGen) []*mocrelay.Event {
	n := pick(r, []int{1, 1, 2, 3, 5, 8})
	var evs []*mocrelay.Event
	for i := 0; i < n; i++ {
		switch {
		case len(g.made) > 0 && r.P(12):
			evs = append(evs, pick(r, g.made)) // duplicate
		case r.P(18):
			evs = append(evs, g.Deletion())
		case len(g.made) > 0 && r.P(25):
			// a new version of an earlier replaceable / addressable event, at -1/0/+1 s
			t := pickVersioned(r, g.made)
			e := g.Event()
			e.Kind, e.Pubkey, e.Tags = t.Kind, t.Pubkey, t.Tags
			e.CreatedAt = t.CreatedAt + int64(r.Range(-1, 1))
			evs = append(evs, e)
		default:
			e := g.Event()
			if r.P(30) {
				e.Content = pick(r, sqlContents)
			}
			if r.P(15) {
				name := pick(r, []string{"p", "e", "t"})
				e.Tags = append(e.Tags, mocrelay.Tag{name, tagVals[0]}, mocrelay.Tag{name, tagVals[1]})
			}
			if r.P(3) {
				e.CreatedAt = pick(r, []int64{0, 4294967296 + 5, 1 << 40, -3})
			}
			evs = append(evs, e)
		}
	}
	return evs
}

// sqlHiddenNewest scripts: the newest version of an address is deleted BY ID (it stays stored, hidden), optionally the
// database is closed and reopened, then an older (or equally old) version of the address arrives.  The hidden row
// still decides "newest wins": the late-comer must not become visible, whether or not there was a reopen.
func sqlHiddenNewest(r *Rng, g *EvGen, d *sqlDB, file bool) int {
	v2 := g.Event()
	v2.Kind = pick(r, []int64{0, 3, 10002, 30023})
	v2.Tags = g.tags(v2.Kind)
	v2.CreatedAt = int64(r.Range(5, 12))
	g.nextID++
	del := &mocrelay.Event{ID: eventID(g.nextID), Pubkey: v2.Pubkey, CreatedAt: int64(r.Range(1, 12)), Kind: 5, Content: "del",
		Sig: sig128(g.nextID), Tags: []mocrelay.Tag{{"e", v2.ID}}}
	g.made = append(g.made, del)
	v1 := g.Event()
	v1.Kind, v1.Pubkey, v1.Tags = v2.Kind, v2.Pubkey, v2.Tags
	v1.CreatedAt = v2.CreatedAt - int64(r.Range(0, 2))
	if r.P(50) {
		d.batch([]*mocrelay.Event{v2}, 0)
		d.batch([]*mocrelay.Event{del}, 0)
	} else {
		d.batch([]*mocrelay.Event{v2, del}, 0)
	}
	if file && r.P(60) {
		d.reopen()
	}
	d.batch([]*mocrelay.Event{v1}, 0)
	d.query([]*mocrelay.ReqFilter{{Authors: []string{v2.Pubkey}, Kinds: []int64{v2.Kind}}})
	d.query([]*mocrelay.ReqFilter{{}})
	return 5
}

func genSQLFilters(r *Rng, g *EvGen) []*mocrelay.ReqFilter {
	switch {
	case r.P(8):
		// one tag condition listing every value: an event carrying several of them must count once
		return []*mocrelay.ReqFilter{{Tags: map[string][]string{pick(r, []string{"p", "e", "t"}): tagVals}, Limit: ptr(int64(r.Range(1, 3)))}}
	case r.P(4):
		return []*mocrelay.ReqFilter{}
	case r.P(15):
		return []*mocrelay.ReqFilter{{}}
	case r.P(10):
		return []*mocrelay.ReqFilter{{Limit: ptr(int64(r.Range(0, 3)))}}
	case r.P(8):
		return []*mocrelay.ReqFilter{{Limit: ptr(int64(r.Range(0, 2)))}, g.Filter()}
	}
	return g.Filters()
}

func sqlQueries(r *Rng, g *EvGen, d *sqlDB, n int) {
	for i := 0; i < n; i++ {
		d.query(genSQLFilters(r, g))
	}
}

func init() {
	// C06: batch histories on an in-memory database, queries after every batch
	props["sqlite"] = propRunner{
		gen: func(r *Rng, n int, tier string) {
			done := 0
			for done < n {
				g := &EvGen{r: r}
				d := newSQLDB(false)
				emit(M{"op": "reset"})
				if r.P(15) {
					done += sqlHiddenNewest(r, g, d, false)
				}
				for b := r.Range(3, 10); b > 0; b-- {
					d.batch(genSQLBatch(r, g), 0)
					done++
					k := r.Range(1, 4)
					sqlQueries(r, g, d, k)
					done += k
				}
				d.close()
			}
		},
		replay: sqlReplay,
	}
	// C14: file database, injected faults at every driver call index, retries, close/reopen
	props["sqlitefault"] = propRunner{
		gen: func(r *Rng, n int, tier string) {
			done := 0
			first := true
			for done < n {
				g := &EvGen{r: r}
				d := newSQLDB(true)
				emit(M{"op": "reset"})
				if r.P(25) {
					done += sqlHiddenNewest(r, g, d, true)
				}
				for b := r.Range(3, 8); b > 0; b-- {
					evs := genSQLBatch(r, g)
					big := r.P(5) || (first && b == 2)
					if big {
						// a batch of the size the handler really inserts (EventBulkInsertNum defaults to 1000)
						for i := r.Range(600, 1200); i > 0; i-- {
							evs = append(evs, g.Event())
						}
					}
					kind := r.Intn(4)
					if big {
						kind = 0
					}
					switch kind {
					case 0, 1:
						// fail at a random call index (may lie beyond the batch: then it succeeds), then retry
						d.batch(evs, r.Range(1, 4*len(evs)+7))
						sqlQueries(r, g, d, 2)
						if r.P(30) {
							d.batch(evs, r.Range(1, 4*len(evs)+7))
						}
						d.batch(evs, 0)
						done += 3
					case 2:
						d.batch(evs, 0)
						d.batch(evs, 0) // the same batch again after a success
						done += 2
					default:
						d.batch(evs, 0)
						done++
					}
					if r.P(35) {
						d.reopen()
					}
					k := r.Range(1, 3)
					sqlQueries(r, g, d, k)
					done += k
				}
				d.close()
				first = false
			}
		},
		replay: sqlReplay,
	}
}

func sqlReplay(lines []replayLine) {
	var d *sqlDB
	file := false
	for _, l := range lines {
		if l["op"] == "reopen" || l["fault"] != nil {
			file = true
		}
	}
	for _, l := range lines {
		switch l["op"] {
		case "reset":
			if d != nil {
				d.close()
			}
			d = newSQLDB(file)
			emit(M{"op": "reset"})
		case "reopen":
			if d != nil {
				d.reopen()
			}
		case "batch":
			if d == nil {
				d = newSQLDB(file)
			}
			var evs []*mocrelay.Event
			arr, _ := l["events"].([]any)
			for _, x := range arr {
				evs = append(evs, evFromJ(x))
			}
			f := 0
			if l["fault"] != nil {
				f = int(jnum(l["fault"]))
			}
			d.batch(evs, f)
		case "query":
			if d == nil {
				d = newSQLDB(file)
			}
			d.query(filtersFromJ(l["filters"]))
		}
	}
	if d != nil {
		d.close()
	}
}
