package main

import (
	"context"
	"database/sql"
	"fmt"
	"net/http/httptest"
	"os"
	"runtime"
	"strings"
	"time"

	"github.com/coder/websocket"
	"github.com/high-moctane/mocrelay"
	"github.com/high-moctane/mocrelay/handler/sqlite"
	mprom "github.com/high-moctane/mocrelay/middleware/prometheus"
	"github.com/prometheus/client_golang/prometheus"
)

// C13: handler compositions (default / cache / router / SQLite, merged, under stacks of the provided middlewares
// incl. Prometheus) serve a client history that is cut at EVERY point, by cancelling the context or by closing the
// inbound channel, with a peer that drains the output or has stopped reading.  Observed: ServeNostr returns, the
// goroutines with frames of the repository's packages are back to the count before the session, the router
// registry is empty and the gauges are back.  WebSocket clause: a TCP peer that never reads, a flooding handler,
// SendTimeout x PingDuration incl. ping disabled.

type c13Spec struct {
	Bases []string
	Mws   []mwSpec
	Prom  bool
}

func (s c13Spec) J() any {
	mws := make([]any, len(s.Mws))
	for i, m := range s.Mws {
		mws[i] = m.J()
	}
	bases := make([]any, len(s.Bases))
	for i, b := range s.Bases {
		bases[i] = b
	}
	return M{"bases": bases, "mws": mws, "prom": s.Prom}
}

func c13SpecFromJ(v any) c13Spec {
	m := v.(map[string]any)
	var s c13Spec
	for _, b := range m["bases"].([]any) {
		s.Bases = append(s.Bases, str(b))
	}
	for _, x := range m["mws"].([]any) {
		s.Mws = append(s.Mws, mwSpecFromJ(x))
	}
	s.Prom, _ = m["prom"].(bool)
	return s
}

type c13Built struct {
	h       mocrelay.Handler
	routers []*mocrelay.RouterHandler
	reg     *prometheus.Registry
	cleanup func()
}

var c13DBCounter int

// clean-ups of this run after which workers of the handlers were still running
var c13CleanupTimeouts int

func (s c13Spec) build() *c13Built {
	b := &c13Built{}
	pre, _ := repoGoroutines()
	hctx, hcancel := context.WithCancel(context.Background())
	var dbs []*sql.DB
	var hs []mocrelay.Handler
	for _, k := range s.Bases {
		switch k {
		case "default":
			hs = append(hs, mocrelay.NewDefaultHandler())
		case "cache":
			hs = append(hs, mocrelay.NewCacheHandler(200))
		case "router":
			r := mocrelay.NewRouterHandler(3)
			b.routers = append(b.routers, r)
			hs = append(hs, r)
		case "sqlite":
			c13DBCounter++
			db, err := sql.Open("sqlite3", fmt.Sprintf("file:c13mem%d_%d?mode=memory&cache=shared", os.Getpid(), c13DBCounter))
			if err != nil {
				panic(err)
			}
			dbs = append(dbs, db)
			h, err := sqlite.NewSQLiteHandler(hctx, db, &sqlite.SQLiteHandlerOption{EventBulkInsertNum: 1, MaxLimit: sqlite.NoLimit})
			if err != nil {
				panic(err)
			}
			hs = append(hs, h)
		}
	}
	var h mocrelay.Handler
	if len(hs) == 1 {
		h = hs[0]
	} else {
		h = mocrelay.NewMergeHandler(hs...)
	}
	for i := len(s.Mws) - 1; i >= 0; i-- {
		h = s.Mws[i].build()(h)
	}
	if s.Prom {
		b.reg = prometheus.NewRegistry()
		h = mocrelay.Middleware(mprom.NewPrometheusMiddleware(b.reg))(h)
	}
	b.h = h
	b.cleanup = func() {
		hcancel()
		// the handlers' own workers (SQLite bulk inserter) end with their context: wait for them, so that the
		// next case measures its baseline on a quiet process
		if c13CleanupTimeouts < 5 {
			if left, _ := waitGoroutines(pre, 3*time.Second); left > 0 {
				c13CleanupTimeouts++ // the handler's own workers do not end on this tree: no use waiting every time
			}
		}
		for _, db := range dbs {
			db.Close()
		}
	}
	return b
}

// goroutines with a frame of the repository's packages (sessions, forwarders, store workers)
func repoGoroutines() (int, string) {
	buf := make([]byte, 1<<20)
	n := runtime.Stack(buf, true)
	cnt := 0
	var sample string
	for _, g := range strings.Split(string(buf[:n]), "\n\n") {
		if strings.Contains(g, "github.com/high-moctane/mocrelay") {
			cnt++
			sample = g
		}
	}
	return cnt, sample
}

func waitGoroutines(base int, d time.Duration) (int, string) {
	deadline := time.Now().Add(d)
	for {
		n, sample := repoGoroutines()
		if n <= base || time.Now().After(deadline) {
			return n - base, sample
		}
		time.Sleep(2 * time.Millisecond)
	}
}

// sessions of this run that left goroutines behind: after a dozen the sweep stops (each one waits three seconds)
var c13Leaks int

// sessions that did not return so far in this run: after a few the sweep stops (each costs ~10 s of waiting)
var c13Stuck int

func runC13Case(spec c13Spec, hist []mocrelay.ClientMsg, cut int, ending, peer string) {
	if c13Stuck >= 6 || c13Leaks >= 12 {
		return
	}
	b := spec.build()
	time.Sleep(time.Millisecond)
	base, _ := repoGoroutines()
	ctx, cancel := context.WithCancel(context.Background())
	send := make(chan mocrelay.ServerMsg)
	recv := make(chan mocrelay.ClientMsg)
	done := make(chan error, 1)
	go func() { done <- b.h.ServeNostr(ctx, send, recv) }()
	stopRead := make(chan struct{})
	readerDone := make(chan struct{})
	go func() {
		defer close(readerDone)
		for {
			select {
			case <-stopRead:
				return
			case <-send:
			}
		}
	}()
	fed := 0
	for i := 0; i < cut && i < len(hist); i++ {
		select {
		case recv <- hist[i]:
			fed++
		case <-time.After(3 * time.Second):
			i = len(hist)
		}
	}
	if peer == "stall" {
		// the peer stops reading; what follows piles up inside the pipeline
		close(stopRead)
		<-readerDone
		for i := cut; i < len(hist) && i < cut+4; i++ {
			select {
			case recv <- hist[i]:
				fed++
			case <-time.After(20 * time.Millisecond):
				i = len(hist)
			}
		}
	}
	if ending == "cancel" {
		cancel()
	} else {
		close(recv)
	}
	returned := false
	select {
	case <-done:
		returned = true
	case <-time.After(5 * time.Second):
	}
	if peer != "stall" {
		close(stopRead)
		<-readerDone
	}
	cancel()
	if !returned {
		select {
		case <-done:
		case <-time.After(2 * time.Second):
		}
	}
	if !returned {
		c13Stuck++
	}
	left, sample := waitGoroutines(base, 3*time.Second)
	if left < 0 {
		// fewer than before the session: a worker of an earlier case ended meanwhile; nothing of this session is left
		left = 0
	}
	if left > 0 {
		c13Leaks++
	}
	out := M{"returned": returned, "leftover": left, "fed": fed}
	if left > 0 {
		if len(sample) > 1500 {
			sample = sample[:1500]
		}
		out["sample"] = sample
	}
	regc, regs := 0, 0
	for _, r := range b.routers {
		c, s := registrySize(r)
		regc += c
		regs += s
	}
	out["registry"] = regc + regs
	if b.reg != nil {
		g := gather(b.reg).(M)
		out["conn"], out["req"] = g["conn"], g["req"]
	} else {
		out["conn"], out["req"] = 0.0, 0.0
	}
	b.cleanup()
	hj := make([]any, len(hist))
	for i, m := range hist {
		hj[i] = cmsgJ(m)
	}
	emit(M{"op": "c13", "spec": spec.J(), "hist": hj, "cut": cut, "ending": ending, "peer": peer, "out": out})
}

func genC13Spec(r *Rng, g *EvGen) c13Spec {
	var s c13Spec
	all := []string{"default", "cache", "router", "sqlite"}
	switch r.Intn(6) {
	case 5:
		// a flat merge of four to six handlers (the same kind may appear several times)
		for k := r.Range(4, 6); k > 0; k-- {
			s.Bases = append(s.Bases, pick(r, []string{"default", "cache", "router", "default", "cache", "router", "sqlite"}))
		}
	case 0:
		s.Bases = []string{pick(r, all)}
	case 1, 2:
		s.Bases = []string{pick(r, all), pick(r, all)}
	case 3:
		s.Bases = []string{"cache", "router", "sqlite"}
	default:
		s.Bases = []string{pick(r, all), pick(r, all), pick(r, all)}
	}
	kinds := []string{"maxSubs", "maxFilters", "maxLimit", "maxSubIDLen", "maxEventTags", "maxContentLen", "createdAtLower", "createdAtUpper", "recvUnique", "sendUnique"}
	for i := r.Intn(4); i > 0; i-- {
		s.Mws = append(s.Mws, mwSpec{K: pick(r, kinds), N: int64(r.Range(1, 20))})
	}
	s.Prom = r.P(60)
	return s
}

func genC13Hist(r *Rng, g *EvGen) []mocrelay.ClientMsg {
	var hist []mocrelay.ClientMsg
	subs := []string{"a", "b", "c", ""}
	n := r.Range(5, 11)
	for i := 0; i < n; i++ {
		switch r.Intn(7) {
		case 0, 1, 2:
			hist = append(hist, &mocrelay.ClientEventMsg{Event: g.Event()})
		case 3, 4:
			fs := []*mocrelay.ReqFilter{{}}
			if r.P(40) {
				fs = g.Filters()
			}
			hist = append(hist, &mocrelay.ClientReqMsg{SubscriptionID: pick(r, subs), ReqFilters: fs})
		case 5:
			hist = append(hist, &mocrelay.ClientCloseMsg{SubscriptionID: pick(r, subs)})
		default:
			hist = append(hist, &mocrelay.ClientCountMsg{SubscriptionID: pick(r, subs), ReqFilters: []*mocrelay.ReqFilter{{}}})
		}
	}
	return hist
}

func slicesContains(xs []string, x string) bool {
	for _, y := range xs {
		if y == x {
			return true
		}
	}
	return false
}

// ---- WebSocket clause

type floodHandler struct{ ended chan time.Duration }

func (h *floodHandler) ServeNostr(ctx context.Context, send chan<- mocrelay.ServerMsg, recv <-chan mocrelay.ClientMsg) error {
	start := time.Now()
	big := mocrelay.NewServerNoticeMsg(strings.Repeat("x", 60000))
	for {
		select {
		case <-ctx.Done():
			h.ended <- time.Since(start)
			return ctx.Err()
		case send <- big:
		}
	}
}

func runC13WS(sendTimeoutMs, pingMs int) {
	time.Sleep(time.Millisecond)
	base, _ := repoGoroutines()
	h := &floodHandler{ended: make(chan time.Duration, 1)}
	opt := mocrelay.NewDefaultRelayOption()
	opt.SendTimeout = time.Duration(sendTimeoutMs) * time.Millisecond
	opt.PingDuration = time.Duration(pingMs) * time.Millisecond
	relay := mocrelay.NewRelay(h, opt)
	srv := httptest.NewServer(relay)
	ctx, cancel := context.WithCancel(context.Background())
	// a WebSocket peer that completes the handshake and then never reads
	conn, _, err := websocket.Dial(ctx, "ws"+strings.TrimPrefix(srv.URL, "http"), nil)
	out := M{}
	if err != nil {
		out["dial_error"] = err.Error()
	} else {
		bound := time.Duration(sendTimeoutMs)*time.Millisecond + 3*time.Second
		select {
		case d := <-h.ended:
			out["ended"] = true
			out["ended_ms"] = d.Milliseconds()
		case <-time.After(bound):
			out["ended"] = false
		}
		_ = conn
	}
	cancel()
	if conn != nil {
		conn.CloseNow()
	}
	srv.CloseClientConnections()
	srv.Close()
	// nothing of the session may be left: the loops, the handler and any ping still waiting for its pong
	left, sample := waitGoroutines(base, 3*time.Second)
	if left < 0 {
		left = 0
	}
	out["leftover"] = left
	if left > 0 {
		if len(sample) > 1500 {
			sample = sample[:1500]
		}
		out["sample"] = sample
	}
	emit(M{"op": "c13ws", "send_timeout_ms": sendTimeoutMs, "ping_ms": pingMs, "out": out})
}

// an idle session whose peer does not read, ended by the peer going away while a ping waits for its pong
type idleHandler struct{ ended chan time.Duration }

func (h *idleHandler) ServeNostr(ctx context.Context, send chan<- mocrelay.ServerMsg, recv <-chan mocrelay.ClientMsg) error {
	start := time.Now()
	<-ctx.Done()
	h.ended <- time.Since(start)
	return ctx.Err()
}

func runC13WSIdle(pingMs int) {
	time.Sleep(time.Millisecond)
	base, _ := repoGoroutines()
	h := &idleHandler{ended: make(chan time.Duration, 1)}
	opt := mocrelay.NewDefaultRelayOption()
	opt.SendTimeout = 5 * time.Second
	opt.PingDuration = time.Duration(pingMs) * time.Millisecond
	relay := mocrelay.NewRelay(h, opt)
	srv := httptest.NewServer(relay)
	ctx, cancel := context.WithCancel(context.Background())
	conn, _, err := websocket.Dial(ctx, "ws"+strings.TrimPrefix(srv.URL, "http"), nil)
	out := M{}
	if err != nil {
		out["dial_error"] = err.Error()
	} else {
		// the peer never reads, so the first ping (after pingMs) stays without a pong; then the peer disappears
		time.Sleep(time.Duration(4*pingMs) * time.Millisecond)
		conn.CloseNow()
		select {
		case d := <-h.ended:
			out["ended"] = true
			out["ended_ms"] = d.Milliseconds()
		case <-time.After(4 * time.Second):
			out["ended"] = false
		}
	}
	cancel()
	srv.CloseClientConnections()
	srv.Close()
	left, sample := waitGoroutines(base, 3*time.Second)
	if left < 0 {
		left = 0
	}
	out["leftover"] = left
	if left > 0 {
		if len(sample) > 1500 {
			sample = sample[:1500]
		}
		out["sample"] = sample
	}
	emit(M{"op": "c13wsidle", "ping_ms": pingMs, "out": out})
}

// runC13BusyStore: a session on the SQLite handler whose store is busy (the pool's only connection is held, so the
// bulk inserter waits in its first batch): the insert queue (2 × EventBulkInsertNum) fills after a few EVENTs and
// the next one waits for a slot.  Cancelling the session at that moment must still end it promptly.
func runC13BusyStore(nEvents int) {
	pre, _ := repoGoroutines()
	c13DBCounter++
	db, err := sql.Open("sqlite3", fmt.Sprintf("file:c13busy%d_%d?mode=memory&cache=shared", os.Getpid(), c13DBCounter))
	if err != nil {
		panic(err)
	}
	db.SetMaxOpenConns(1)
	hctx, hcancel := context.WithCancel(context.Background())
	h, err := sqlite.NewSQLiteHandler(hctx, db, &sqlite.SQLiteHandlerOption{EventBulkInsertNum: 1, MaxLimit: sqlite.NoLimit})
	if err != nil {
		panic(err)
	}
	hold, err := db.Conn(context.Background()) // the store is busy from now on
	if err != nil {
		panic(err)
	}
	ctx, cancel := context.WithCancel(context.Background())
	recv := make(chan mocrelay.ClientMsg)
	send := make(chan mocrelay.ServerMsg, 64)
	ended := make(chan struct{})
	go func() { h.ServeNostr(ctx, send, recv); close(ended) }()
	go func() { // the peer keeps reading
		for {
			select {
			case <-send:
			case <-ended:
				return
			}
		}
	}()
	g := &EvGen{r: NewRng(uint64(nEvents))}
	handed := 0
	for i := 0; i < nEvents; i++ {
		e := g.Event()
		e.Kind, e.Tags = 1, nil
		select {
		case recv <- &mocrelay.ClientEventMsg{Event: e}:
			handed++
		case <-time.After(300 * time.Millisecond): // the handler is waiting for a queue slot: cancel now
			i = nEvents
		}
	}
	cancel()
	out := M{"handed": handed, "returned": true}
	select {
	case <-ended:
	case <-time.After(3 * time.Second):
		out["returned"] = false
	}
	hold.Close()
	hcancel()
	select {
	case <-ended:
	case <-time.After(10 * time.Second):
	}
	left, sample := waitGoroutines(pre, 10*time.Second)
	out["leftover"] = left
	if left > 0 {
		out["sample"] = sample
	}
	db.Close()
	emit(M{"op": "c13busy", "events": nEvents, "out": out})
}

func init() {
	props["c13"] = propRunner{
		gen: func(r *Rng, n int, tier string) {
			g := &EvGen{r: r}
			done := 0
			// the WebSocket clause: every combination, once per run
			for _, st := range []int{150, 400} {
				for _, ping := range []int{0, 30, 60000} {
					runC13WS(st, ping)
					done++
				}
			}
			for _, ping := range []int{10, 25} {
				runC13WSIdle(ping)
				done++
			}
			for _, k := range []int{3, 4, 6} {
				runC13BusyStore(k)
				done++
			}
			for done < n && c13Stuck < 6 && c13Leaks < 12 {
				spec := genC13Spec(r, g)
				hist := genC13Hist(r, g)
				from := 0
				if r.P(12) || done < 10 {
					// a long history: many stored events, then a REQ whose answer is large
					var bulk []mocrelay.ClientMsg
					for i := r.Range(64, 90); i > 0; i-- {
						e := g.Event()
						e.Kind, e.Tags = 1, nil
						bulk = append(bulk, &mocrelay.ClientEventMsg{Event: e})
					}
					bulk = append(bulk, &mocrelay.ClientReqMsg{SubscriptionID: "big", ReqFilters: []*mocrelay.ReqFilter{{}}})
					hist = append(bulk, hist[:3]...)
					from = len(bulk) - 2
					if !slicesContains(spec.Bases, "cache") {
						spec.Bases = append(spec.Bases, "cache")
					}
				}
				for cut := from; cut <= len(hist); cut++ {
					runC13Case(spec, hist, cut, "cancel", "drain")
					runC13Case(spec, hist, cut, "cancel", "stall")
					runC13Case(spec, hist, cut, "close", "drain")
					done += 3
				}
			}
		},
		replay: func(lines []replayLine) {
			for _, l := range lines {
				switch l["op"] {
				case "c13":
					var hist []mocrelay.ClientMsg
					for _, x := range l["hist"].([]any) {
						hist = append(hist, cmsgFromJ(x))
					}
					runC13Case(c13SpecFromJ(l["spec"]), hist, int(jnum(l["cut"])), str(l["ending"]), str(l["peer"]))
				case "c13ws":
					runC13WS(int(jnum(l["send_timeout_ms"])), int(jnum(l["ping_ms"])))
				case "c13wsidle":
					runC13WSIdle(int(jnum(l["ping_ms"])))
				case "c13busy":
					runC13BusyStore(int(jnum(l["events"])))
				}
			}
		},
	}
}
