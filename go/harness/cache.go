package main

import (
	"github.com/high-moctane/mocrelay"
)

// C03 / C04 / C05: histories of Add / Find / Len on a real EventCache.  After EVERY insertion the
// returned flag, Len() and the match-everything listing are recorded, followed by a battery of filter
// lists, so a stale index entry / wrong comparison shows at the step where it arises.

func cloneEv(e *mocrelay.Event) *mocrelay.Event {
	c := *e
	c.Tags = make([]mocrelay.Tag, len(e.Tags))
	for i, t := range e.Tags {
		c.Tags[i] = append(mocrelay.Tag{}, t...)
	}
	return &c
}

func cacheAdd(c *mocrelay.EventCache, e *mocrelay.Event) any {
	var added bool
	p := recoverStr(func() { added = c.Add(e) })
	all := c.Find([]*mocrelay.ReqFilter{{}})
	return M{"op": "add", "e": evJ(e), "out": M{"added": added, "len": c.Len(), "all": evsJ(all), "panic": p != "", "state": cacheStateJ(c)}}
}

func cacheFind(c *mocrelay.EventCache, fs []*mocrelay.ReqFilter) any {
	var res []*mocrelay.Event
	p := recoverStr(func() { res = c.Find(fs) })
	if p != "" {
		return M{"op": "find", "fs": filtersJ(fs), "out": M{"panic": true}}
	}
	return M{"op": "find", "fs": filtersJ(fs), "out": M{"res": evsJ(res)}}
}

// a filter aimed at the current content (selective conditions that actually hit)
func (g *EvGen) aimedFilter(shown []*mocrelay.Event) *mocrelay.ReqFilter {
	r := g.r
	f := g.Filter()
	if len(shown) == 0 {
		return f
	}
	t := pick(r, shown)
	switch r.Intn(8) {
	case 0:
		f.IDs = append(f.IDs, t.ID)
	case 1:
		f.Authors = []string{t.Pubkey}
	case 2:
		f.Kinds = []int64{t.Kind}
	case 3:
		if len(t.Tags) > 0 {
			tg := pick(r, t.Tags)
			if len(tg) > 0 && len(tg[0]) == 1 {
				v := ""
				if len(tg) > 1 {
					v = tg[1]
				}
				f.Tags = map[string][]string{tg[0]: {v}}
			}
		}
	case 4:
		f.Since = ptr(t.CreatedAt)
	case 5:
		f.Until = ptr(t.CreatedAt)
	case 6:
		f.Authors = []string{t.Pubkey}
		f.Kinds = []int64{t.Kind, 1}
		f.IDs = nil
	}
	return f
}

func cacheGenHistory(r *Rng, g *EvGen, steps int, findsPerStep int) {
	cap := pick(r, []int{1, 1, 2, 3, 3, 4, 5, 8, 50})
	c := mocrelay.NewEventCache(cap)
	emit(M{"op": "reset", "cap": cap})
	g.made = nil
	var offered []*mocrelay.Event
	var shown []*mocrelay.Event
	var script []*mocrelay.Event // a scripted scenario in progress (rare interactions the random mix seldom lines up)
	for i := 0; i < steps; i++ {
		var e *mocrelay.Event
		if len(script) == 0 && r.P(4) {
			script = g.deletionChain()
		} else if len(script) == 0 && r.P(2) {
			script = g.selfDeletion()
		} else if len(script) == 0 && r.P(2) {
			script = g.nestedDeletion()
		}
		switch {
		case len(script) > 0:
			e, script = script[0], script[1:]
		case len(offered) > 0 && r.P(12):
			e = cloneEv(pick(r, offered)) // the same event again (duplicate / re-insert after deletion or eviction)
		case len(offered) > 0 && r.P(25):
			// a new version of an existing address (same author, kind, d): newer, older or equal timestamp
			base := pickVersioned(r, offered)
			e = g.Event()
			e.Pubkey, e.Kind = base.Pubkey, base.Kind
			e.Tags = make([]mocrelay.Tag, len(base.Tags))
			for k, t := range base.Tags {
				e.Tags[k] = append(mocrelay.Tag{}, t...)
			}
			e.CreatedAt = base.CreatedAt + int64(r.Range(-1, 1))
		case r.P(22):
			e = g.Deletion()
		default:
			e = g.Event()
		}
		offered = append(offered, e)
		emit(cacheAdd(c, e))
		shown = c.Find([]*mocrelay.ReqFilter{{}})
		for k := 0; k < findsPerStep; k++ {
			var fs []*mocrelay.ReqFilter
			switch r.Intn(10) {
			case 0:
				fs = []*mocrelay.ReqFilter{}
			case 1:
				fs = []*mocrelay.ReqFilter{{Limit: ptr(int64(r.Intn(3)))}}
			case 2:
				fs = []*mocrelay.ReqFilter{{Since: ptr(int64(r.Range(0, 13))), Until: ptr(int64(r.Range(0, 13)))}}
			default:
				for n := pick(r, []int{1, 1, 2, 3}); n > 0; n-- {
					fs = append(fs, g.aimedFilter(shown))
				}
			}
			if r.P(2) {
				fs = append(fs, &mocrelay.ReqFilter{Tags: map[string][]string{}}) // non-nil empty tag map
			}
			emit(cacheFind(c, fs))
		}
	}
}

func cacheReplay(lines []replayLine) {
	var c *mocrelay.EventCache
	for _, l := range lines {
		switch l["op"] {
		case "reset":
			c = mocrelay.NewEventCache(int(jnum(l["cap"])))
			emit(M{"op": "reset", "cap": jnum(l["cap"])})
		case "add":
			if c != nil {
				emit(cacheAdd(c, evFromJ(l["e"])))
			}
		case "find":
			if c != nil {
				emit(cacheFind(c, filtersFromJ(l["fs"])))
			}
		}
	}
}

func init() {
	props["cache"] = propRunner{
		gen: func(r *Rng, n int, tier string) {
			g := &EvGen{r: r}
			lines := 0
			for lines < n {
				steps := r.Range(4, 30)
				finds := r.Range(1, 3)
				cacheGenHistory(r, g, steps, finds)
				lines += 1 + steps*(1+finds)
			}
		},
		replay: cacheReplay,
	}
}
