package main

import (
	"github.com/high-moctane/mocrelay"
)

// C02: NewReqFilterMatcher(f).Match(e); NewReqFiltersEventLimitMatcher(fs).Match/LimitMatch/Done.

func init() {
	props["C02"] = propRunner{gen: c02Gen, replay: c02Replay}
}

func c02ExecMatch(f *mocrelay.ReqFilter, e *mocrelay.Event) any {
	var res bool
	if p := recoverStr(func() { res = mocrelay.NewReqFilterMatcher(f).Match(e) }); p != "" {
		return M{"res": "panic"}
	}
	if res {
		return M{"res": "true"}
	}
	return M{"res": "false"}
}

func c02ExecSeq(fs []*mocrelay.ReqFilter, es []*mocrelay.Event) any {
	var steps []any
	done0 := false
	p := recoverStr(func() {
		m := mocrelay.NewReqFiltersEventLimitMatcher(fs)
		done0 = m.Done()
		for _, e := range es {
			mt := m.Match(e)
			lm := m.LimitMatch(e)
			steps = append(steps, M{"m": mt, "lm": lm, "done": m.Done()})
		}
	})
	if steps == nil {
		steps = []any{}
	}
	return M{"done0": done0, "steps": steps, "panic": p != ""}
}

func c02Gen(r *Rng, n int, tier string) {
	g := &EvGen{r: r}
	for i := 0; i < n; i++ {
		if r.P(70) {
			e := g.Event()
			if r.P(2) {
				e.Tags = append(e.Tags, mocrelay.Tag{}) // the excluded point: empty tag
			}
			f := g.Filter()
			if r.P(3) {
				f.Tags = map[string][]string{} // non-nil empty map
			}
			emit(M{"op": "match", "f": filterJ(f), "e": evJ(e), "out": c02ExecMatch(f, e)})
		} else {
			fs := g.Filters()
			if r.P(5) {
				fs = []*mocrelay.ReqFilter{}
			}
			var es []*mocrelay.Event
			for k := r.Range(0, 8); k > 0; k-- {
				if len(es) > 0 && r.P(20) {
					es = append(es, pick(r, es)) // the same event fed twice
				} else {
					es = append(es, g.Event())
				}
			}
			emit(M{"op": "seq", "fs": filtersJ(fs), "es": evsJ(es), "out": c02ExecSeq(fs, es)})
		}
		if len(g.made) > 40 {
			g.made = g.made[20:]
		}
	}
}

func c02Replay(lines []replayLine) {
	for _, l := range lines {
		switch l["op"] {
		case "match":
			f, e := filterFromJ(l["f"]), evFromJ(l["e"])
			emit(M{"op": "match", "f": filterJ(f), "e": evJ(e), "out": c02ExecMatch(f, e)})
		case "seq":
			fs, es := filtersFromJ(l["fs"]), evsFromJ(l["es"])
			emit(M{"op": "seq", "fs": filtersJ(fs), "es": evsJ(es), "out": c02ExecSeq(fs, es)})
		}
	}
}
