package main

import (
	"github.com/high-moctane/mocrelay"
)

// C02: NewReqFilterMatcher(f).Match(e); NewReqFiltersEventLimitMatcher(fs).Match/LimitMatch/Done.

func init() {
	props["C02"] = propRunner{gen: c02Gen, replay: c02Replay}
}

func c02ExecMatch(f *mocrelay.ReqFilter, e *mocrelay.Event) any {
	var res bool
	if p := recoverStr(func() { res = mocrelay.NewReqFilterMatcher(f).Match(e) }); p != "" {
		return M{"res": "panic"}
	}
	if res {
		return M{"res": "true"}
	}
	return M{"res": "false"}
}

func c02ExecSeq(fs []*mocrelay.ReqFilter, es []*mocrelay.Event) any {
	var steps []any
	done0 := false
	p := recoverStr(func() {
		m := mocrelay.NewReqFiltersEventLimitMatcher(fs)
		done0 = m.Done()
		for _, e := range es {
			mt := m.Match(e)
			lm := m.LimitMatch(e)
			steps = append(steps, M{"m": mt, "lm": lm, "done": m.Done()})
		}
	})
	if steps == nil {
		steps = []any{}
	}
	return M{"done0": done0, "steps": steps, "panic": p != ""}
}

// c02TagCase: only tag conditions decide.  2–5 conditions over a tiny alphabet of names and values, an event with
// 0–8 tags that repeat names (adjacent and non-adjacent), so that "all but one condition satisfied", "one condition
// satisfied several times" and "a name that is no condition in between" are all common.
func c02TagCase(r *Rng, g *EvGen) (*mocrelay.ReqFilter, *mocrelay.Event) {
	names := []string{"e", "p", "t", "a", "d", "E"}
	vals := []string{"v1", "v2", "v3"}
	f := &mocrelay.ReqFilter{Tags: map[string][]string{}}
	for k := r.Range(2, 5); k > 0; k-- {
		vs := []string{}
		for j := r.Range(1, 2); j > 0; j-- {
			vs = append(vs, pick(r, vals))
		}
		f.Tags[pick(r, names)] = vs
	}
	e := g.Event()
	e.Tags = []mocrelay.Tag{}
	for k := r.Intn(9); k > 0; k-- {
		name := pick(r, names)
		if r.P(10) {
			name = pick(r, []string{"x", "ee", ""})
		}
		switch r.Intn(8) {
		case 0:
			e.Tags = append(e.Tags, mocrelay.Tag{name})
		case 1:
			e.Tags = append(e.Tags, mocrelay.Tag{name, pick(r, vals), pick(r, vals)})
		default:
			e.Tags = append(e.Tags, mocrelay.Tag{name, pick(r, vals)})
		}
	}
	if r.P(15) {
		// a tag whose NAME + VALUE spells a condition's name + listed value with the split moved:
		// #e:["v1"] vs ["ev","1"], ["ev1"], ["ev1",""] — name and value must be compared separately
		for x, vs := range f.Tags {
			if len(vs) == 0 {
				continue
			}
			v := pick(r, vs)
			k := r.Range(1, len(v))
			switch r.Intn(3) {
			case 0:
				e.Tags = append(e.Tags, mocrelay.Tag{x + v[:k], v[k:]})
			case 1:
				e.Tags = append(e.Tags, mocrelay.Tag{x + v})
			default:
				e.Tags = append(e.Tags, mocrelay.Tag{x + v, ""})
			}
			break
		}
	}
	if r.P(30) {
		f.Limit = ptr(int64(r.Range(0, 2)))
	}
	return f, e
}

func c02Gen(r *Rng, n int, tier string) {
	g := &EvGen{r: r}
	for i := 0; i < n; i++ {
		if r.P(20) {
			f, e := c02TagCase(r, g)
			if r.P(70) {
				emit(M{"op": "match", "f": filterJ(f), "e": evJ(e), "out": c02ExecMatch(f, e)})
			} else {
				fs := []*mocrelay.ReqFilter{f}
				es := []*mocrelay.Event{e}
				for k := r.Intn(3); k > 0; k-- {
					f2, e2 := c02TagCase(r, g)
					if r.P(50) {
						fs = append(fs, f2)
					}
					es = append(es, e2)
				}
				emit(M{"op": "seq", "fs": filtersJ(fs), "es": evsJ(es), "out": c02ExecSeq(fs, es)})
			}
		} else if r.P(70) {
			e := g.Event()
			if r.P(2) {
				e.Tags = append(e.Tags, mocrelay.Tag{}) // the excluded point: empty tag
			}
			f := g.Filter()
			if r.P(3) {
				f.Tags = map[string][]string{} // non-nil empty map
			}
			emit(M{"op": "match", "f": filterJ(f), "e": evJ(e), "out": c02ExecMatch(f, e)})
		} else {
			fs := g.Filters()
			if r.P(5) {
				fs = []*mocrelay.ReqFilter{}
			}
			var es []*mocrelay.Event
			for k := r.Range(0, 8); k > 0; k-- {
				if len(es) > 0 && r.P(20) {
					es = append(es, pick(r, es)) // the same event fed twice
				} else {
					es = append(es, g.Event())
				}
			}
			emit(M{"op": "seq", "fs": filtersJ(fs), "es": evsJ(es), "out": c02ExecSeq(fs, es)})
		}
		if len(g.made) > 40 {
			g.made = g.made[20:]
		}
	}
}

func c02Replay(lines []replayLine) {
	for _, l := range lines {
		switch l["op"] {
		case "match":
			f, e := filterFromJ(l["f"]), evFromJ(l["e"])
			emit(M{"op": "match", "f": filterJ(f), "e": evJ(e), "out": c02ExecMatch(f, e)})
		case "seq":
			fs, es := filtersFromJ(l["fs"]), evsFromJ(l["es"])
			emit(M{"op": "seq", "fs": filtersJ(fs), "es": evsJ(es), "out": c02ExecSeq(fs, es)})
		}
	}
}
