package main

import (
	"fmt"

	"github.com/high-moctane/mocrelay"
)

// ---- structured generators over a small universe (so that boundaries are hit often)

type EvGen struct {
	r      *Rng
	nextID int
	made   []*mocrelay.Event
	uniq   int // counter for one-of-a-kind tag values
}

func ptr[T any](v T) *T { return &v }

func (g *EvGen) tags(kind int64) []mocrelay.Tag {
	r := g.r
	tags := []mocrelay.Tag{}
	n := r.Intn(4)
	if r.P(8) {
		n = r.Range(4, 8) // tag-heavy: names repeat, adjacent and not
	}
	for i := 0; i < n; i++ {
		name := pick(r, tagNames)
		switch r.Intn(6) {
		case 0:
			tags = append(tags, mocrelay.Tag{name})
		case 1:
			tags = append(tags, mocrelay.Tag{name, pick(r, tagVals), "extra"})
		default:
			tags = append(tags, mocrelay.Tag{name, pick(r, tagVals)})
		}
	}
	if r.P(5) {
		// the same tag twice (name and value), with a value nobody else uses, and a further one-of-a-kind tag after
		// it: index entries that hold exactly this event, visited twice when the event leaves the store
		g.uniq++
		u := fmt.Sprintf("u%d", g.uniq)
		dup := mocrelay.Tag{pick(r, []string{"t", "p", "e"}), u}
		tags = append(tags, dup, append(mocrelay.Tag{}, dup...), mocrelay.Tag{pick(r, []string{"t", "p", "a"}), u + "z"})
	}
	if 30000 <= kind && kind < 40000 && r.P(85) {
		d := mocrelay.Tag{"d", pick(r, dvals)}
		if r.P(10) {
			d = mocrelay.Tag{"d"}
		}
		pos := r.Intn(len(tags) + 1)
		tags = append(tags[:pos], append([]mocrelay.Tag{d}, tags[pos:]...)...)
		if r.P(12) {
			tags = append(tags, mocrelay.Tag{"d", pick(r, dvals)}) // a further d tag: the address is the FIRST one's value
		}
	}
	return tags
}

// Event makes a fresh event (new id) from the small universe.
func (g *EvGen) Event() *mocrelay.Event {
	r := g.r
	g.nextID++
	k := pick(r, kindsAll)
	if k == 5 {
		k = 1
	}
	e := &mocrelay.Event{
		ID: eventID(g.nextID), Pubkey: pick(r, authors), CreatedAt: int64(r.Range(1, 12)), Kind: k,
		Content: fmt.Sprintf("c%d", g.nextID), Sig: sig128(g.nextID),
	}
	e.Tags = g.tags(k)
	if r.P(3) {
		// timestamps are signed 64-bit integers and nothing restricts them: zero, negative, beyond 32 bits
		e.CreatedAt = pick(r, []int64{0, -1, -7, 4294967296 + 3, 1 << 40})
	}
	g.made = append(g.made, e)
	return e
}

func addrOf(e *mocrelay.Event) string {
	switch e.EventType() {
	case mocrelay.EventTypeReplaceable:
		return fmt.Sprintf("%d:%s", e.Kind, e.Pubkey)
	case mocrelay.EventTypeParamReplaceable:
		for _, t := range e.Tags {
			if len(t) >= 1 && t[0] == "d" {
				d := ""
				if len(t) > 1 {
					d = t[1]
				}
				return fmt.Sprintf("%d:%s:%s", e.Kind, e.Pubkey, d)
			}
		}
	}
	return ""
}

// Deletion makes a kind-5 event referencing past/future/own/foreign events.
func (g *EvGen) Deletion() *mocrelay.Event {
	r := g.r
	g.nextID++
	e := &mocrelay.Event{
		ID: eventID(g.nextID), Pubkey: pick(r, authors), CreatedAt: int64(r.Range(1, 12)), Kind: 5,
		Content: "del", Sig: sig128(g.nextID), Tags: []mocrelay.Tag{},
	}
	n := r.Range(1, 3)
	for i := 0; i < n; i++ {
		var tag mocrelay.Tag
		switch {
		case len(g.made) > 0 && r.P(70):
			t := pick(r, g.made)
			if a := addrOf(t); a != "" && r.P(70) {
				tag = mocrelay.Tag{"a", a}
			} else {
				tag = mocrelay.Tag{"e", t.ID}
			}
			if r.P(50) {
				// same author as the target, so that the deletion is effective
				e.Pubkey = t.Pubkey
			}
		case r.P(50):
			tag = mocrelay.Tag{"e", eventID(g.nextID + r.Range(1, 5))} // future id
		case r.P(30):
			tag = mocrelay.Tag{"e", e.ID} // self reference
		default:
			tag = mocrelay.Tag{"a", fmt.Sprintf("30023:%s:%s", pick(r, authors), pick(r, dvals))}
		}
		switch r.Intn(8) {
		case 0:
			tag = append(tag, "wss://relay")
		case 1:
			tag = tag[:1]
		}
		e.Tags = append(e.Tags, tag)
	}
	if r.P(20) {
		e.Tags = append(e.Tags, mocrelay.Tag{"t", "v1"})
	}
	g.made = append(g.made, e)
	return e
}

// deletionChain scripts the interaction of several deletion requests of ONE author about ONE target: two requests
// naming the target (by id, or by address when it has one), a third request that deletes one of the two, and the
// target offered before, between or after them and once more at the end.
func (g *EvGen) deletionChain() []*mocrelay.Event {
	r := g.r
	author := pick(r, authors)
	x := g.Event()
	x.Pubkey = author
	if r.P(40) {
		x.Kind = 30023
		x.Tags = g.tags(30023)
	} else if r.P(30) {
		x.Kind = 1
		x.Tags = g.tags(1)
	}
	ref := func() mocrelay.Tag {
		if a := addrOf(x); a != "" && x.Kind >= 30000 && r.P(50) {
			return mocrelay.Tag{"a", a}
		}
		return mocrelay.Tag{"e", x.ID}
	}
	del := func(t int64, tag mocrelay.Tag) *mocrelay.Event {
		g.nextID++
		e := &mocrelay.Event{ID: eventID(g.nextID), Pubkey: author, CreatedAt: t, Kind: 5, Content: "del", Sig: sig128(g.nextID), Tags: []mocrelay.Tag{tag}}
		g.made = append(g.made, e)
		return e
	}
	t1 := int64(r.Range(1, 11))
	t2 := int64(r.Range(1, 11))
	k1 := del(t1, ref())
	k2 := del(t2, ref())
	victim := k1
	if r.P(50) {
		victim = k2
	}
	k3 := del(int64(r.Range(1, 12)), mocrelay.Tag{"e", victim.ID})
	seq := []*mocrelay.Event{k1, k2, k3}
	if r.P(50) {
		seq[0], seq[1] = seq[1], seq[0]
	}
	// the target arrives first, in the middle, or only at the end
	switch r.Intn(3) {
	case 0:
		seq = append([]*mocrelay.Event{x}, seq...)
	case 1:
		seq = []*mocrelay.Event{seq[0], x, seq[1], seq[2]}
	}
	return append(seq, cloneEv(x))
}

// nestedDeletion scripts a deletion request that names ANOTHER deletion request of the author (which itself names two
// things) and, in a later tag, a retained event: removing the first request must not disturb the processing of the
// second one's remaining tags.
func (g *EvGen) nestedDeletion() []*mocrelay.Event {
	r := g.r
	author := pick(r, authors)
	mk := func() *mocrelay.Event {
		x := g.Event()
		x.Pubkey = author
		if r.P(30) {
			x.Kind = 30023
			x.Tags = g.tags(30023)
		} else {
			x.Kind, x.Tags = 1, g.tags(1)
		}
		return x
	}
	ref := func(x *mocrelay.Event) mocrelay.Tag {
		if a := addrOf(x); a != "" && x.Kind >= 30000 && r.P(50) {
			return mocrelay.Tag{"a", a}
		}
		return mocrelay.Tag{"e", x.ID}
	}
	del := func(tags ...mocrelay.Tag) *mocrelay.Event {
		g.nextID++
		e := &mocrelay.Event{ID: eventID(g.nextID), Pubkey: author, CreatedAt: int64(r.Range(1, 12)), Kind: 5, Content: "del", Sig: sig128(g.nextID), Tags: tags}
		g.made = append(g.made, e)
		return e
	}
	x, y, b, c := mk(), mk(), mk(), mk()
	d1 := del(ref(x), ref(y))
	var d2 *mocrelay.Event
	switch r.Intn(3) {
	case 0:
		d2 = del(mocrelay.Tag{"e", d1.ID}, ref(b))
	case 1:
		d2 = del(ref(c), mocrelay.Tag{"e", d1.ID}, ref(b))
	default:
		d2 = del(mocrelay.Tag{"e", d1.ID}, ref(b), ref(c))
	}
	seq := []*mocrelay.Event{d1, b}
	if r.P(60) {
		seq = append(seq, c)
	}
	if r.P(30) {
		seq = append([]*mocrelay.Event{x}, seq...)
	}
	seq = append(seq, d2, cloneEv(b), cloneEv(x))
	return seq
}

// selfDeletion scripts a deletion request that names ITSELF among other targets (in any tag position): it leaves
// the store while it is being processed, so nothing it names may stay blocked afterwards.  The targets are offered
// before and again after the request.
func (g *EvGen) selfDeletion() []*mocrelay.Event {
	r := g.r
	author := pick(r, authors)
	mk := func() *mocrelay.Event {
		x := g.Event()
		x.Pubkey = author
		if r.P(40) {
			x.Kind = 30023
			x.Tags = g.tags(30023)
		} else if r.P(50) {
			x.Kind = 1
			x.Tags = g.tags(1)
		}
		return x
	}
	ref := func(x *mocrelay.Event) mocrelay.Tag {
		if a := addrOf(x); a != "" && x.Kind >= 30000 && r.P(50) {
			return mocrelay.Tag{"a", a}
		}
		return mocrelay.Tag{"e", x.ID}
	}
	x, y := mk(), mk()
	g.nextID++
	k := &mocrelay.Event{ID: eventID(g.nextID), Pubkey: author, CreatedAt: int64(r.Range(1, 12)), Kind: 5, Content: "del", Sig: sig128(g.nextID)}
	self := mocrelay.Tag{"e", k.ID}
	switch r.Intn(4) {
	case 0:
		k.Tags = []mocrelay.Tag{self, ref(x)}
	case 1:
		k.Tags = []mocrelay.Tag{ref(x), self}
	case 2:
		k.Tags = []mocrelay.Tag{self, ref(x), ref(y)}
	default:
		k.Tags = []mocrelay.Tag{ref(x), self, ref(y)}
	}
	g.made = append(g.made, k)
	var seq []*mocrelay.Event
	if r.P(60) {
		seq = append(seq, x)
	}
	if r.P(30) {
		seq = append(seq, y)
	}
	seq = append(seq, k, cloneEv(x), cloneEv(y))
	if r.P(30) {
		seq = append(seq, cloneEv(k))
	}
	return seq
}

// Filter over the same universe.  wide=false keeps it selective.
func (g *EvGen) Filter() *mocrelay.ReqFilter {
	r := g.r
	f := &mocrelay.ReqFilter{}
	if len(g.made) > 0 && r.P(6) {
		// one tag condition taken from an event that was made (stored, deleted, replaced or evicted since): its
		// last single-letter tag with a value
		x := pick(r, g.made)
		for i := len(x.Tags) - 1; i >= 0; i-- {
			t := x.Tags[i]
			if len(t) >= 2 && len(t[0]) == 1 && (('a' <= t[0][0] && t[0][0] <= 'z') || ('A' <= t[0][0] && t[0][0] <= 'Z')) {
				f.Tags = map[string][]string{t[0]: {t[1]}}
				return f
			}
		}
	}
	if len(g.made) > 0 && r.P(6) {
		// "fetch this address": one author, one kind and — for an addressable event — one d value, which may be
		// ANY of the event's d tags (a tag condition matches any tag of that name, not only the first)
		if x := pickVersioned(r, g.made); x != nil {
			f.Authors = []string{x.Pubkey}
			f.Kinds = []int64{x.Kind}
			if x.Kind >= 30000 && x.Kind < 40000 {
				var ds []string
				for _, t := range x.Tags {
					if len(t) > 0 && t[0] == "d" {
						if len(t) > 1 {
							ds = append(ds, t[1])
						} else {
							ds = append(ds, "")
						}
					}
				}
				if len(ds) > 0 {
					f.Tags = map[string][]string{"d": {pick(r, ds)}}
				} else if r.P(50) {
					f.Tags = map[string][]string{"d": {""}}
				}
			}
			if r.P(30) {
				f.Limit = ptr(int64(pick(r, []int{1, 2})))
			}
			return f
		}
	}
	if r.P(25) {
		f.IDs = []string{}
		for i := r.Intn(3); i > 0; i-- {
			if len(g.made) > 0 && r.P(80) {
				f.IDs = append(f.IDs, pick(r, g.made).ID)
			} else {
				f.IDs = append(f.IDs, eventID(1000+r.Intn(5)))
			}
		}
	}
	if r.P(30) {
		f.Authors = []string{}
		for i := r.Intn(3); i > 0; i-- {
			f.Authors = append(f.Authors, pick(r, authors))
		}
	}
	if r.P(35) {
		f.Kinds = []int64{}
		for i := r.Intn(3); i > 0; i-- {
			f.Kinds = append(f.Kinds, pick(r, kindsAll))
		}
	}
	if r.P(35) {
		f.Tags = map[string][]string{}
		nc := r.Range(1, 2)
		if r.P(15) {
			nc = r.Range(3, 4) // several tag conditions: all but one satisfied is then a common case
		}
		for i := nc; i > 0; i-- {
			name := pick(r, []string{"e", "p", "t", "a", "d", "E"})
			vs := []string{}
			for j := r.Intn(3); j > 0; j-- {
				vs = append(vs, pick(r, tagVals))
			}
			f.Tags[name] = vs
		}
	}
	if r.P(30) {
		f.Since = ptr(int64(r.Range(0, 13)))
	}
	if r.P(30) {
		f.Until = ptr(int64(r.Range(0, 13)))
	}
	if r.P(40) {
		f.Limit = ptr(int64(pick(r, []int{0, 1, 1, 2, 3, 5, 100})))
	}
	return f
}

func (g *EvGen) Filters() []*mocrelay.ReqFilter {
	n := pick(g.r, []int{1, 1, 1, 2, 2, 3})
	fs := make([]*mocrelay.ReqFilter, n)
	for i := range fs {
		fs[i] = g.Filter()
	}
	return fs
}
