//go:build verif_noreg

package main

import (
	"github.com/high-moctane/mocrelay"
)

// the hook RouterHandler.VerifRegistrySize does not compile against this tree: the registry is not inspected
func registrySize(r *mocrelay.RouterHandler) (int, int) { return 0, 0 }
