package main

import (
	"bytes"
	"encoding/json"
	"fmt"
	"io"
	"regexp"
)

// JSON text -> tree in the harness encoding (see MocModel/JTree.lean), using Go's own decoder
// token stream so that tokenisation, string unescaping and UTF-8 repair are encoding/json's.

var intLit = regexp.MustCompile(`^-?(0|[1-9][0-9]*)$`)

func numJ(lit string) any {
	if intLit.MatchString(lit) {
		return M{"i": json.Number(lit)}
	}
	return M{"n": lit}
}

func treeOf(b []byte) (any, error) {
	dec := json.NewDecoder(bytes.NewReader(b))
	dec.UseNumber()
	v, err := treeVal(dec)
	if err != nil {
		return nil, err
	}
	if _, err := dec.Token(); err != io.EOF {
		return nil, fmt.Errorf("trailing data")
	}
	return v, nil
}

func treeVal(dec *json.Decoder) (any, error) {
	tok, err := dec.Token()
	if err != nil {
		return nil, err
	}
	return treeFrom(dec, tok)
}

func treeFrom(dec *json.Decoder, tok json.Token) (any, error) {
	switch t := tok.(type) {
	case json.Delim:
		switch t {
		case '[':
			arr := []any{}
			for dec.More() {
				v, err := treeVal(dec)
				if err != nil {
					return nil, err
				}
				arr = append(arr, v)
			}
			if _, err := dec.Token(); err != nil {
				return nil, err
			}
			return arr, nil
		case '{':
			kvs := []any{}
			for dec.More() {
				kt, err := dec.Token()
				if err != nil {
					return nil, err
				}
				k, ok := kt.(string)
				if !ok {
					return nil, fmt.Errorf("bad key")
				}
				v, err := treeVal(dec)
				if err != nil {
					return nil, err
				}
				kvs = append(kvs, []any{k, v})
			}
			if _, err := dec.Token(); err != nil {
				return nil, err
			}
			return M{"o": kvs}, nil
		}
		return nil, fmt.Errorf("unexpected delimiter")
	case json.Number:
		return numJ(string(t)), nil
	case string:
		return t, nil
	case bool:
		return t, nil
	case nil:
		return nil, nil
	}
	return nil, fmt.Errorf("unknown token")
}
