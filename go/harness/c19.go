package main

import (
	"context"
	"sync"
	"time"

	"github.com/high-moctane/mocrelay"
	mprom "github.com/high-moctane/mocrelay/middleware/prometheus"
	"github.com/prometheus/client_golang/prometheus"
)

// C19: the real Prometheus middleware on a real registry.  Mode "seq": the harness interleaves the
// steps of several sessions one at a time and gathers after every step (each step is closed by a
// barrier round trip, so the point is quiescent).  Mode "conc": sessions run concurrently; the registry
// is gathered when all have finished their steps (still live) and again after all have ended.

func gather(reg *prometheus.Registry) any {
	mfs, err := reg.Gather()
	if err != nil {
		panic(err)
	}
	res := M{"conn": 0.0, "req": 0.0, "recv": M{}, "kinds": M{}, "sent": M{}}
	for _, mf := range mfs {
		switch mf.GetName() {
		case "mocrelay_connection_count":
			res["conn"] = mf.Metric[0].GetGauge().GetValue()
		case "mocrelay_req_count":
			res["req"] = mf.Metric[0].GetGauge().GetValue()
		case "mocrelay_recv_msg_total", "mocrelay_recv_event_total", "mocrelay_send_msg_total":
			key := map[string]string{"mocrelay_recv_msg_total": "recv", "mocrelay_recv_event_total": "kinds", "mocrelay_send_msg_total": "sent"}[mf.GetName()]
			m := res[key].(M)
			for _, x := range mf.Metric {
				m[x.Label[0].GetValue()] = x.GetCounter().GetValue()
			}
		}
	}
	return res
}

type promStep struct {
	Sid int
	K   string // start | stop | c | s
	C   mocrelay.ClientMsg
	S   mocrelay.ServerMsg
}

func promStepJ(st promStep, outm any, metrics any) M {
	m := M{"sid": st.Sid, "k": st.K}
	switch st.K {
	case "c":
		m["msg"] = cmsgJ(st.C)
	case "s":
		m["msg"] = smsgJ(st.S)
	}
	if outm != nil {
		m["out"] = outm
	}
	if metrics != nil {
		m["metrics"] = metrics
	}
	return m
}

// explicit barrier steps: the barrier CLOSE / NOTICE cross the middleware too and are counted
func barrierEvents(sid int, nb int) []M {
	id := barrierID(nb)
	return []M{
		{"sid": sid, "k": "c", "msg": cmsgJ(&mocrelay.ClientCloseMsg{SubscriptionID: id}), "barrier": true},
		{"sid": sid, "k": "s", "msg": smsgJ(mocrelay.NewServerNoticeMsg(id)), "barrier": true},
	}
}

func barrierID(n int) string { return barrierPrefix + itoa(n) }

func itoa(n int) string {
	if n == 0 {
		return "0"
	}
	s := ""
	for n > 0 {
		s = string(rune('0'+n%10)) + s
		n /= 10
	}
	return s
}

func runPromStep(s *mwSession, st promStep) (events []M) {
	switch st.K {
	case "c":
		if mwStalls >= 4 {
			return
		}
		_, fwd, reply, err := s.clientStep(st.C)
		if err != nil {
			mwStalls++
			events = append(events, M{"sid": st.Sid, "k": "stalled"})
		}
		events = append(events, promStepJ(st, M{"fwd": one(fwd, func(m mocrelay.ClientMsg) any { return cmsgJ(m) }), "reply": one(reply, func(m mocrelay.ServerMsg) any { return smsgJ(m) })}, nil))
		events = append(events, barrierEvents(st.Sid, s.nb)...)
	case "s":
		if mwStalls >= 4 {
			return
		}
		got, err := s.serverStep(st.S)
		if err != nil {
			mwStalls++
			events = append(events, M{"sid": st.Sid, "k": "stalled"})
		}
		events = append(events, promStepJ(st, M{"got": one(got, func(m mocrelay.ServerMsg) any { return smsgJ(m) })}, nil))
		// a server step uses only a NOTICE barrier
		events = append(events, M{"sid": st.Sid, "k": "s", "msg": smsgJ(mocrelay.NewServerNoticeMsg(barrierID(s.nb))), "barrier": true})
	}
	return
}

func genPromMsgs(r *Rng, g *EvGen, n int) []promStep {
	// short ids, and long ids that share a long common prefix (keys must not be truncated or hashed)
	long := "pppppppppppppppppppppppppppppppppppppppppppppppppppppppppppppppp"
	subs := []string{"a", "b", "c", "", long + "-x", long + "-y", long + long + long + long + "1", long + long + long + long + "2"}
	var steps []promStep
	for i := 0; i < n && mwStalls < 4; i++ {
		switch r.Intn(12) {
		case 0, 1, 2:
			steps = append(steps, promStep{K: "c", C: &mocrelay.ClientReqMsg{SubscriptionID: pick(r, subs), ReqFilters: g.Filters()}})
		case 3, 4:
			steps = append(steps, promStep{K: "c", C: &mocrelay.ClientCloseMsg{SubscriptionID: pick(r, subs)}})
		case 5, 6:
			e := g.Event()
			if r.P(25) {
				// kinds are int64 on this path (validation sits elsewhere): values that agree modulo 2^16 or 2^32 are
				// still different label values
				e.Kind = pick(r, []int64{-1, 65535, 65536, 0, 65537, 1, 131073, 1 << 32, 1<<32 + 1, -65536, -65535})
			}
			steps = append(steps, promStep{K: "c", C: &mocrelay.ClientEventMsg{Event: e}})
		case 7:
			steps = append(steps, promStep{K: "s", S: mocrelay.NewServerClosedMsg(pick(r, subs), "", "bye")})
		case 8:
			if r.Bool() {
				steps = append(steps, promStep{K: "c", C: &mocrelay.ClientCountMsg{SubscriptionID: pick(r, subs), ReqFilters: g.Filters()}})
			} else {
				steps = append(steps, promStep{K: "c", C: &mocrelay.ClientAuthMsg{Event: g.Event()}})
			}
		default:
			steps = append(steps, promStep{K: "s", S: genServerMsg(r, g)})
		}
	}
	return steps
}

func promHandler(reg *prometheus.Registry) func(mocrelay.Handler) mocrelay.Handler {
	mw := mocrelay.Middleware(mprom.NewPrometheusMiddleware(reg))
	return func(h mocrelay.Handler) mocrelay.Handler { return mw(h) }
}

// sequential interleaving: order = list of session indexes, one step each
func execPromSeq(sessions [][]promStep, order []int, endOrder []int) {
	reg := prometheus.NewRegistry()
	h := promHandler(reg)
	var events []M
	live := make([]*mwSession, len(sessions))
	pos := make([]int, len(sessions))
	events = append(events, M{"sid": -1, "k": "init", "metrics": gather(reg)})
	step := func(i int) {
		if live[i] == nil {
			live[i] = startSession(h)
			// Start has run when the first barrier comes back: do one barrier round trip
			_, _, _, _ = live[i].clientStep(&mocrelay.ClientCloseMsg{SubscriptionID: "__warmup"})
			events = append(events, M{"sid": i, "k": "start"})
			events = append(events, M{"sid": i, "k": "c", "msg": cmsgJ(&mocrelay.ClientCloseMsg{SubscriptionID: "__warmup"})})
			evs := barrierEvents(i, live[i].nb)
			evs[len(evs)-1]["metrics"] = gather(reg)
			events = append(events, evs...)
			return
		}
		if pos[i] >= len(sessions[i]) {
			return
		}
		st := sessions[i][pos[i]]
		st.Sid = i
		pos[i]++
		evs := runPromStep(live[i], st)
		if len(evs) > 0 {
			evs[len(evs)-1]["metrics"] = gather(reg)
		}
		events = append(events, evs...)
	}
	for _, i := range order {
		step(i)
	}
	for _, i := range endOrder {
		if live[i] != nil {
			live[i].stop()
			events = append(events, M{"sid": i, "k": "stop", "metrics": gather(reg)})
			live[i] = nil
		}
	}
	emit(M{"op": "prom", "mode": "seq", "events": events})
}

func execPromConc(sessions [][]promStep) {
	reg := prometheus.NewRegistry()
	h := promHandler(reg)
	evs := make([][]M, len(sessions))
	live := make([]*mwSession, len(sessions))
	var wg sync.WaitGroup
	for i := range sessions {
		wg.Add(1)
		go func(i int) {
			defer wg.Done()
			s := startSession(h)
			live[i] = s
			_, _, _, _ = s.clientStep(&mocrelay.ClientCloseMsg{SubscriptionID: "__warmup"})
			evs[i] = append(evs[i], M{"sid": i, "k": "start"}, M{"sid": i, "k": "c", "msg": cmsgJ(&mocrelay.ClientCloseMsg{SubscriptionID: "__warmup"})})
			evs[i] = append(evs[i], barrierEvents(i, s.nb)...)
			for _, st := range sessions[i] {
				st.Sid = i
				evs[i] = append(evs[i], runPromStep(s, st)...)
			}
		}(i)
	}
	wg.Wait()
	var events []M
	for i := range sessions {
		events = append(events, evs[i]...)
	}
	events = append(events, M{"sid": -1, "k": "checkpoint", "metrics": gather(reg)})
	for i := range sessions {
		wg.Add(1)
		go func(i int) { defer wg.Done(); live[i].stop() }(i)
	}
	wg.Wait()
	for i := range sessions {
		events = append(events, M{"sid": i, "k": "stop"})
	}
	events = append(events, M{"sid": -1, "k": "checkpoint", "metrics": gather(reg)})
	line := M{"op": "prom", "mode": "conc", "events": events}
	if raceSeen() {
		line["race"] = true // the shared counters were touched without mutual exclusion (harness built with -race)
	}
	emit(line)
}

// raceInner: an inner handler that swallows client messages and emits CLOSED for the id it is told on `trig`
type raceInner struct{ trig chan string }

func (h *raceInner) ServeNostr(ctx context.Context, send chan<- mocrelay.ServerMsg, recv <-chan mocrelay.ClientMsg) error {
	for {
		select {
		case <-ctx.Done():
			return ctx.Err()
		case _, ok := <-recv:
			if !ok {
				return nil
			}
		case id := <-h.trig:
			select {
			case send <- mocrelay.NewServerClosedMsg(id, "", "bye"):
			case <-ctx.Done():
				return ctx.Err()
			}
		}
	}
}

// execPromCloseRace: within ONE session, many times: REQ x, then the client's CLOSE x and the server's CLOSED x for
// that subscription at the same moment (they travel on the middleware's two goroutines).  Whatever the order, the
// subscription is closed once, so at the quiescent point after the trials the subscription gauge must read 0.
func execPromCloseRace(trials int) {
	reg := prometheus.NewRegistry()
	inner := &raceInner{trig: make(chan string)}
	h := promHandler(reg)(inner)
	ctx, cancel := context.WithCancel(context.Background())
	send := make(chan mocrelay.ServerMsg, 16)
	recv := make(chan mocrelay.ClientMsg)
	done := make(chan error, 1)
	go func() { done <- h.ServeNostr(ctx, send, recv) }()
	stalled := false
	push := func(m mocrelay.ClientMsg) {
		select {
		case recv <- m:
		case <-time.After(5 * time.Second):
			stalled = true
		}
	}
	for i := 0; i < trials && !stalled; i++ {
		id := "x" + itoa(i)
		push(&mocrelay.ClientReqMsg{SubscriptionID: id, ReqFilters: []*mocrelay.ReqFilter{{}}})
		var wg sync.WaitGroup
		var gate sync.WaitGroup
		gate.Add(1)
		wg.Add(2)
		go func() { defer wg.Done(); gate.Wait(); push(&mocrelay.ClientCloseMsg{SubscriptionID: id}) }()
		go func() {
			defer wg.Done()
			gate.Wait()
			select {
			case inner.trig <- id:
			case <-time.After(5 * time.Second):
				stalled = true
			}
		}()
		gate.Done()
		wg.Wait()
		// the CLOSED comes out on the client side: wait for it, then both paths are through
		select {
		case <-send:
		case <-time.After(5 * time.Second):
			stalled = true
		}
	}
	// one more round trip on the client path so that the last CLOSE is fully processed
	push(&mocrelay.ClientCloseMsg{SubscriptionID: "__sync"})
	push(&mocrelay.ClientCloseMsg{SubscriptionID: "__sync2"})
	mid := gather(reg)
	cancel()
	select {
	case <-done:
	case <-time.After(5 * time.Second):
		stalled = true
	}
	line := M{"op": "promrace", "trials": trials, "out": M{"mid": mid, "end": gather(reg), "stalled": stalled}}
	if raceSeen() {
		line["race"] = true
	}
	emit(line)
}

func init() {
	props["C19"] = propRunner{
		gen: func(r *Rng, n int, tier string) {
			g := &EvGen{r: r}
			for k := 0; k < 4; k++ {
				execPromCloseRace(10000)
			}
			for i := 0; i < n && mwStalls < 4; i++ {
				ns := r.Range(1, 3)
				sessions := make([][]promStep, ns)
				for s := range sessions {
					sessions[s] = genPromMsgs(r, g, r.Range(2, 12))
				}
				if r.P(60) {
					var order []int
					total := 0
					for _, s := range sessions {
						total += len(s) + 1
					}
					for k := 0; k < total*2; k++ {
						order = append(order, r.Intn(ns))
					}
					endOrder := []int{}
					for _, p := range []int{0, 1, 2} {
						if p < ns {
							endOrder = append(endOrder, p)
						}
					}
					if r.Bool() {
						for a, b := 0, len(endOrder)-1; a < b; a, b = a+1, b-1 {
							endOrder[a], endOrder[b] = endOrder[b], endOrder[a]
						}
					}
					execPromSeq(sessions, order, endOrder)
				} else {
					execPromConc(sessions)
				}
				if len(g.made) > 30 {
					g.made = g.made[15:]
				}
			}
		},
		replay: func(lines []replayLine) {
			// replay re-executes the recorded per-session message lists in the recorded mode
			for _, l := range lines {
				if l["op"] == "promrace" {
					for k := 0; k < 8; k++ { // a race: the replay repeats the scenario
						execPromCloseRace(int(jnum(l["trials"])))
					}
					continue
				}
				if l["op"] != "prom" {
					continue
				}
				evs, _ := l["events"].([]any)
				sess := map[int][]promStep{}
				var order, endOrder []int
				maxSid := -1
				for _, x := range evs {
					e := x.(map[string]any)
					sid := int(jnum(e["sid"]))
					if sid > maxSid {
						maxSid = sid
					}
					if b, _ := e["barrier"].(bool); b {
						continue
					}
					switch str(e["k"]) {
					case "start":
						order = append(order, sid)
					case "stop":
						endOrder = append(endOrder, sid)
					case "c":
						m := cmsgFromJ(e["msg"])
						if c, ok := m.(*mocrelay.ClientCloseMsg); ok && c.SubscriptionID == "__warmup" {
							continue
						}
						sess[sid] = append(sess[sid], promStep{K: "c", C: m})
						order = append(order, sid)
					case "s":
						sess[sid] = append(sess[sid], promStep{K: "s", S: smsgFromJ(e["msg"])})
						order = append(order, sid)
					}
				}
				sessions := make([][]promStep, maxSid+1)
				for i := range sessions {
					sessions[i] = sess[i]
				}
				if str(l["mode"]) == "conc" {
					execPromConc(sessions)
				} else {
					execPromSeq(sessions, order, endOrder)
				}
			}
		},
	}
}
