package main

import (
	"context"
	"crypto/sha256"
	"encoding/hex"
	"encoding/json"
	"fmt"
	"log/slog"
	"net/http/httptest"
	"os"
	"strings"
	"time"
	"unicode/utf8"

	"github.com/coder/websocket"
	"github.com/high-moctane/mocrelay"
)

// C12 (and the relay-level clause of C01): a real WebSocket connection to httptest.NewServer(NewRelay(h)).
// After every frame a barrier CLOSE is sent; the recording handler answers it with a barrier NOTICE; what
// the handler saw / the client received in between belongs to that frame.  No timeouts in the verdicts.

type wsFrame struct {
	Binary  bool
	Payload []byte
}

type wsSession struct {
	srv    *httptest.Server
	conn   *websocket.Conn
	rec    *recHandler
	ctx    context.Context
	cancel context.CancelFunc
	nb     int
}

func startWS(pingMs, burst int) *wsSession {
	rec := &recHandler{got: make(chan []mocrelay.ClientMsg, 1), emit: make(chan mocrelay.ServerMsg)}
	opt := mocrelay.NewDefaultRelayOption()
	opt.RecvRateLimitRate = 1e9
	opt.RecvRateLimitBurst = 1 << 30
	if burst > 0 {
		// a small burst of the receive rate limiter (the rate stays out of the way): frames of any legal size must pass
		opt.RecvRateLimitBurst = burst
	}
	if pingMs > 0 {
		opt.PingDuration = time.Duration(pingMs) * time.Millisecond
		opt.SendTimeout = 2 * time.Second // a ping that gets no pong gives up after 2 s (default 10 s)
	}
	if os.Getenv("VERIF_DEBUG") != "" {
		opt.Logger = slog.New(slog.NewTextHandler(os.Stderr, &slog.HandlerOptions{Level: slog.LevelInfo}))
	}
	relay := mocrelay.NewRelay(rec, opt)
	srv := httptest.NewServer(relay)
	ctx, cancel := context.WithTimeout(context.Background(), 120*time.Second)
	conn, _, err := websocket.Dial(ctx, "ws"+strings.TrimPrefix(srv.URL, "http"), nil)
	if err != nil {
		panic(err)
	}
	conn.SetReadLimit(1 << 24)
	return &wsSession{srv: srv, conn: conn, rec: rec, ctx: ctx, cancel: cancel}
}

func (s *wsSession) stop() {
	s.conn.Close(websocket.StatusNormalClosure, "")
	s.cancel()
	s.srv.Close()
}

// read server frames until the barrier NOTICE
func (s *wsSession) readUntilBarrier(id string) (msgs []mocrelay.ServerMsg, allText bool, err error) {
	allText = true
	// no step takes longer than this on a working relay; a read that times out closes the connection, which is
	// fine: the session is reported as stalled
	rctx, rcancel := context.WithTimeout(s.ctx, 15*time.Second)
	defer rcancel()
	for {
		typ, data, e := s.conn.Read(rctx)
		if e != nil {
			return msgs, allText, e
		}
		if typ != websocket.MessageText {
			allText = false
		}
		m := decodeServerFrame(data)
		if m == nil {
			allText = false
			continue
		}
		if b, ok := isBarrierNotice(m); ok && b == id {
			return msgs, allText, nil
		}
		msgs = append(msgs, m)
	}
}

func decodeServerFrame(data []byte) mocrelay.ServerMsg {
	var arr []json.RawMessage
	if json.Unmarshal(data, &arr) != nil || len(arr) == 0 {
		return nil
	}
	var label string
	json.Unmarshal(arr[0], &label)
	var m mocrelay.ServerMsg
	switch label {
	case "EOSE":
		m = new(mocrelay.ServerEOSEMsg)
	case "EVENT":
		m = new(mocrelay.ServerEventMsg)
	case "NOTICE":
		m = new(mocrelay.ServerNoticeMsg)
	case "OK":
		m = new(mocrelay.ServerOKMsg)
	case "AUTH":
		m = new(mocrelay.ServerAuthMsg)
	case "COUNT":
		m = new(mocrelay.ServerCountMsg)
	case "CLOSED":
		m = new(mocrelay.ServerClosedMsg)
	default:
		return nil
	}
	if json.Unmarshal(data, m) != nil {
		return nil
	}
	return m
}

func (s *wsSession) frameStep(f wsFrame) (fwd []mocrelay.ClientMsg, replies []mocrelay.ServerMsg, err error) {
	s.nb++
	id := fmt.Sprintf("%s%d", barrierPrefix, s.nb)
	typ := websocket.MessageText
	if f.Binary {
		typ = websocket.MessageBinary
	}
	if err = s.conn.Write(s.ctx, typ, f.Payload); err != nil {
		return
	}
	b, _ := json.Marshal(&mocrelay.ClientCloseMsg{SubscriptionID: id})
	if err = s.conn.Write(s.ctx, websocket.MessageText, b); err != nil {
		return
	}
	replies, _, err = s.readUntilBarrier(id)
	if err != nil && os.Getenv("VERIF_DEBUG") != "" {
		fmt.Fprintf(os.Stderr, "ws read until barrier: %v\n", err)
	}
	wait := 10 * time.Second
	if err != nil {
		wait = 300 * time.Millisecond // the connection is gone: nothing more will be forwarded
	}
	select {
	case fwd = <-s.rec.got:
	case <-time.After(wait):
		err = errStall
	}
	return
}

// the connection idles for a while (the client keeps reading, so it answers the relay's pings), then the handler
// emits the barrier: several ping rounds pass on a healthy connection
func (s *wsSession) idleStep(d time.Duration) error {
	s.nb++
	id := fmt.Sprintf("%s%d", barrierPrefix, s.nb)
	go func() {
		time.Sleep(d)
		select {
		case s.rec.emit <- mocrelay.NewServerNoticeMsg(id):
		case <-s.ctx.Done():
		case <-time.After(5 * time.Second):
		}
	}()
	_, _, err := s.readUntilBarrier(id)
	return err
}

func (s *wsSession) outboundStep(msgs []mocrelay.ServerMsg) (got []mocrelay.ServerMsg, allText bool, err error) {
	s.nb++
	id := fmt.Sprintf("%s%d", barrierPrefix, s.nb)
	go func() {
		for _, m := range msgs {
			s.rec.emit <- m
		}
		s.rec.emit <- mocrelay.NewServerNoticeMsg(id)
	}()
	return s.readUntilBarrier(id)
}

func frameJ(f wsFrame, fwd []mocrelay.ClientMsg, replies []mocrelay.ServerMsg, stalled bool) M {
	m := M{"type": "text", "utf8": utf8.Valid(f.Payload), "json": json.Valid(f.Payload), "hex": fmt.Sprintf("%x", f.Payload)}
	if f.Binary {
		m["type"] = "binary"
	}
	if utf8.Valid(f.Payload) {
		m["text"] = string(f.Payload)
		if t, err := treeOf(f.Payload); err == nil {
			m["tree"] = t
		}
		// signature oracle for EVENT frames, from btcec directly
		var probe struct{ E *mocrelay.Event }
		var arr []json.RawMessage
		if json.Unmarshal(f.Payload, &arr) == nil && len(arr) == 2 {
			var label string
			json.Unmarshal(arr[0], &label)
			if label == "EVENT" {
				probe.E = new(mocrelay.Event)
				if probe.E.UnmarshalJSON(arr[1]) == nil {
					m["oracle"] = sigOracle(probe.E)
				}
			}
		}
	}
	fw := make([]any, len(fwd))
	for i, x := range fwd {
		fw[i] = cmsgJ(x)
	}
	m["out"] = M{"fwd": fw, "replies": smsgsJ(replies)}
	if stalled {
		m["stalled"] = true
	}
	return m
}

func genWSFrames(r *Rng, n int) []wsFrame {
	var frames []wsFrame
	for i := 0; i < n; i++ {
		switch r.Intn(13) {
		case 12:
			// a well-formed message padded with characters that are white space for Unicode but not for JSON
			// (and, as a control, with JSON's own four): only the latter is a valid frame
			b, _ := json.Marshal(wfClientMsg(r))
			pad := pick(r, []string{"\v", "\f", "\u0085", "\u00a0", "\u2028", "\u2029", "\u3000", "\u2000", "\ufeff", "\u200b", "\x00", "\x1f", " ", "\t", "\n", "\r"})
			switch r.Intn(3) {
			case 0:
				b = append([]byte(pad), b...)
			case 1:
				b = append(b, pad...)
			default:
				b = append(append([]byte(pad), b...), pad...)
			}
			frames = append(frames, wsFrame{Payload: b})
		case 0, 1, 2:
			// correctly signed EVENT, possibly followed by altered copies that keep id and sig
			e, _ := genC01Event(r)
			signEvent(e, privKey(r.Intn(5)))
			b, _ := json.Marshal(&mocrelay.ClientEventMsg{Event: e})
			frames = append(frames, wsFrame{Payload: addSpace(r, b, true)})
			if r.P(50) {
				ts := tamperings(r, e)
				for _, name := range []string{"content", "created_at", "tags-add", "sig-bit", "kind", "pubkey-bit"} {
					if r.P(35) {
						b, _ := json.Marshal(&mocrelay.ClientEventMsg{Event: ts[name]})
						frames = append(frames, wsFrame{Payload: b})
					}
				}
			}
		case 3, 4, 5:
			m := wfClientMsg(r)
			if _, isEv := m.(*mocrelay.ClientEventMsg); isEv && r.P(70) {
				m = &mocrelay.ClientReqMsg{SubscriptionID: "s", ReqFilters: []*mocrelay.ReqFilter{wfFilter(r)}}
			}
			b, _ := json.Marshal(m)
			frames = append(frames, wsFrame{Payload: addSpace(r, b, true)})
		case 6, 7:
			b, _ := json.Marshal(wfClientMsg(r))
			b, _ = mutateText(r, b)
			frames = append(frames, wsFrame{Payload: b})
		case 8:
			b, _ := json.Marshal(wfClientMsg(r))
			b, _ = textMutate(r, b)
			frames = append(frames, wsFrame{Payload: b})
		case 9:
			b, _ := json.Marshal(wfClientMsg(r))
			frames = append(frames, wsFrame{Binary: true, Payload: b})
		case 10:
			if r.P(40) {
				// the id is right but the key is not a curve point / the signature is garbage: Verify errs or says false
				e, _ := genC01Event(r)
				e.Pubkey, e.Sig = hexN(r, 64), hexN(r, 128)
				h := sha256.Sum256([]byte(nip01Canonical(e)))
				e.ID = hex.EncodeToString(h[:])
				b, _ := json.Marshal(&mocrelay.ClientEventMsg{Event: e})
				frames = append(frames, wsFrame{Payload: b})
				continue
			}
			frames = append(frames, wsFrame{Payload: []byte(pick(r, []string{"", "null", "[]", "{}", "hello", `["PING"]`, `[`, `["CLOSE"`, "\xff\xfe", `"EVENT"`}))})
		default:
			// invalid UTF-8 inside a JSON string of an otherwise well-formed message
			b, _ := json.Marshal(&mocrelay.ClientCloseMsg{SubscriptionID: "sub"})
			frames = append(frames, wsFrame{Payload: []byte(strings.Replace(string(b), "sub", "s\xffb", 1))})
		}
	}
	return frames
}

// number of sessions that stalled in this run: after a few the sweep stops (every further one would wait again)
var wsStalled int

func execWS(frames []wsFrame, outbound []mocrelay.ServerMsg, pingMs, burst int) {
	s := startWS(pingMs, burst)
	defer s.stop()
	var fj []any
	if pingMs > 0 {
		// a few ping rounds before the first frame: a healthy connection must stay usable afterwards
		if err := s.idleStep(time.Duration(4*pingMs) * time.Millisecond); err != nil && os.Getenv("VERIF_DEBUG") != "" {
			fmt.Fprintf(os.Stderr, "ws session (ping %d ms) broke while idle: %v\n", pingMs, err)
		}
	}
	for _, f := range frames {
		fwd, replies, err := s.frameStep(f)
		fj = append(fj, frameJ(f, fwd, replies, err != nil))
		if err != nil {
			wsStalled++
			if os.Getenv("VERIF_DEBUG") != "" {
				fmt.Fprintf(os.Stderr, "ws session (ping %d ms) broke at frame %d: %v\n", pingMs, len(fj), err)
			}
			break
		}
	}
	line := M{"op": "ws", "frames": fj, "ping_ms": pingMs, "burst": burst}
	if len(outbound) > 0 {
		got, allText, _ := s.outboundStep(outbound)
		line["outbound"] = M{"sent": smsgsJ(outbound), "got": smsgsJ(got), "allText": allText}
	}
	emit(line)
}

func init() {
	props["ws"] = propRunner{
		gen: func(r *Rng, n int, tier string) {
			for i := 0; i < n && wsStalled < 6; i++ {
				var outbound []mocrelay.ServerMsg
				for k := r.Intn(5); k > 0; k-- {
					m := wfServerMsg(r)
					if ok, isOK := m.(*mocrelay.ServerOKMsg); isOK && !normalPrefix(ok.MsgPrefix, ok.Msg) {
						continue
					}
					if c, isC := m.(*mocrelay.ServerClosedMsg); isC && !normalPrefix(c.MsgPrefix, c.Msg) {
						continue
					}
					outbound = append(outbound, m)
				}
				pingMs := 0
				if r.P(15) {
					pingMs = 15 // the relay pings every 15 ms in this session
				}
				frames := genWSFrames(r, r.Range(2, 10))
				burst := 0
				if r.P(10) {
					burst = r.Range(1, 3)
				}
				if burst > 0 || r.P(4) {
					// long frames within the default size limit (100000 bytes): a valid CLOSE and a text that is not JSON
					for k := r.Range(1, 2); k > 0; k-- {
						n := pick(r, []int{20000, 40000, 70000, 99000})
						var f wsFrame
						if r.P(60) {
							b, _ := json.Marshal(&mocrelay.ClientCloseMsg{SubscriptionID: strings.Repeat("a", n-12)})
							f = wsFrame{Payload: b}
						} else {
							f = wsFrame{Payload: []byte(strings.Repeat("x", n))}
						}
						pos := r.Intn(len(frames) + 1)
						frames = append(frames[:pos], append([]wsFrame{f}, frames[pos:]...)...)
					}
				}
				execWS(frames, outbound, pingMs, burst)
			}
		},
		replay: func(lines []replayLine) {
			for _, l := range lines {
				if l["op"] != "ws" {
					continue
				}
				var frames []wsFrame
				fs, _ := l["frames"].([]any)
				for _, x := range fs {
					m := x.(map[string]any)
					var b []byte
					fmt.Sscanf(str(m["hex"]), "%x", &b)
					frames = append(frames, wsFrame{Binary: str(m["type"]) == "binary", Payload: b})
				}
				var outbound []mocrelay.ServerMsg
				if ob, ok := l["outbound"].(map[string]any); ok {
					sent, _ := ob["sent"].([]any)
					for _, x := range sent {
						outbound = append(outbound, smsgFromJ(x))
					}
				}
				execWS(frames, outbound, int(jnum(l["ping_ms"])), int(jnum(l["burst"])))
			}
		},
	}
}
