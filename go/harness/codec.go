package main

import (
	"reflect"
	"bytes"
	"encoding/json"
	"fmt"
	"math"
	"strings"
	"unicode/utf8"

	"github.com/high-moctane/mocrelay"
)

// C10 / C11: ParseClientMsg + ValidClientMsg, json.Unmarshal into every exported message type, and
// encode/decode round trips — on structured well-formed messages (with insignificant white space),
// every single-point corruption of them, and raw byte strings.

// ---------------------------------------------------------------- well-formed values

func hexN(r *Rng, n int) string {
	const d = "0123456789abcdef"
	b := make([]byte, n)
	for i := range b {
		b[i] = d[r.Intn(16)]
	}
	return string(b)
}

var uniStrs = []string{"", "x", "hello world", "<b>&amp;</b>", "line\nbreak\ttab", "quote\"back\\slash", "日本語", "😀 astral", " sep ", "nul\x00ctl\x1f", "a:b:c"}

func wfEvent(r *Rng) *mocrelay.Event {
	e := &mocrelay.Event{ID: hexN(r, 64), Pubkey: hexN(r, 64), Kind: int64(pick(r, []int{0, 1, 3, 5, 7, 10002, 20001, 30023, 65535})),
		Content: pick(r, uniStrs), Sig: hexN(r, 128)}
	e.CreatedAt = pick(r, []int64{0, 1, 1700000000, -5, math.MaxInt64, math.MinInt64})
	e.Tags = []mocrelay.Tag{}
	for i := r.Intn(4); i > 0; i-- {
		t := mocrelay.Tag{pick(r, []string{"e", "p", "t", "d", "a", "long-name", "é"})}
		for j := r.Intn(3); j > 0; j-- {
			t = append(t, pick(r, uniStrs))
		}
		e.Tags = append(e.Tags, t)
	}
	return e
}

func wfNaddr(r *Rng) string {
	return fmt.Sprintf("%d:%s:%s", pick(r, []int{0, 3, 10002, 30023, 65535}), hexN(r, 64), pick(r, []string{"", "x", "a:b", "::", "日本", "\n", "a\nb", "\r\n", " ", "\t", "\u2028", "\x00"}))
}

func wfFilter(r *Rng) *mocrelay.ReqFilter {
	f := &mocrelay.ReqFilter{}
	strs := func(gen func() string) []string {
		l := []string{}
		for i := r.Intn(3); i > 0; i-- {
			l = append(l, gen())
		}
		return l
	}
	if r.P(40) {
		f.IDs = strs(func() string { return hexN(r, 64) })
	}
	if r.P(40) {
		f.Authors = strs(func() string { return hexN(r, 64) })
	}
	if r.P(40) {
		f.Kinds = []int64{}
		for i := r.Intn(3); i > 0; i-- {
			f.Kinds = append(f.Kinds, int64(pick(r, []int{0, 1, 5, 30023, 65535})))
		}
	}
	if r.P(45) {
		f.Tags = map[string][]string{}
		for i := r.Range(1, 3); i > 0; i-- {
			// every letter class boundary of the tag-name test: A, Z, a, z are names; @ [ ` { are not (f-key mutation)
			switch n := pick(r, []string{"e", "p", "a", "t", "d", "E", "Z", "A", "z", "e", "p", "a", "t"}); n {
			case "e", "p":
				f.Tags[n] = strs(func() string { return hexN(r, 64) })
			case "a":
				f.Tags[n] = strs(func() string { return wfNaddr(r) })
			default:
				f.Tags[n] = strs(func() string { return pick(r, uniStrs) })
			}
		}
	}
	s := int64(r.Intn(100))
	if r.P(35) {
		f.Since = ptr(s)
	}
	if r.P(35) {
		f.Until = ptr(s + int64(r.Intn(50)))
	}
	if r.P(35) {
		f.Limit = ptr(int64(pick(r, []int{0, 1, 500})))
	}
	return f
}

func wfClientMsg(r *Rng) mocrelay.ClientMsg {
	subs := []string{"", "s", "sub:1", "日本", strings.Repeat("x", 64)}
	fs := func() []*mocrelay.ReqFilter {
		var l []*mocrelay.ReqFilter
		for i := r.Range(1, 3); i > 0; i-- {
			l = append(l, wfFilter(r))
		}
		return l
	}
	switch r.Intn(5) {
	case 0:
		return &mocrelay.ClientEventMsg{Event: wfEvent(r)}
	case 1:
		return &mocrelay.ClientReqMsg{SubscriptionID: pick(r, subs), ReqFilters: fs()}
	case 2:
		return &mocrelay.ClientCloseMsg{SubscriptionID: pick(r, subs)}
	case 3:
		return &mocrelay.ClientAuthMsg{Event: wfEvent(r)}
	default:
		return &mocrelay.ClientCountMsg{SubscriptionID: pick(r, subs), ReqFilters: fs()}
	}
}

var prefixes = []string{"", "pow: ", "duplicate: ", "blocked: ", "rate-limited: ", "invalid: ", "error: "}

func wfServerMsg(r *Rng) mocrelay.ServerMsg {
	msgTexts := []string{"", "ok", "failed: a: b", "日本語 <&>", "x\ny",
		// texts that LOOK like a machine-readable prefix but are not one: another letter case, no blank, a blank before
		"Error: x", "BLOCKED: y", "Duplicate: ", "Pow: ", "error:x", " error: x", "rate-Limited: z", "invalid : w"}
	switch r.Intn(7) {
	case 0:
		return mocrelay.NewServerEOSEMsg(pick(r, uniStrs))
	case 1:
		return mocrelay.NewServerEventMsg(pick(r, uniStrs), wfEvent(r))
	case 2:
		return mocrelay.NewServerNoticeMsg(pick(r, uniStrs))
	case 3:
		return mocrelay.NewServerOKMsg(hexN(r, 64), r.Bool(), pick(r, prefixes), pick(r, msgTexts))
	case 4:
		return &mocrelay.ServerAuthMsg{Challenge: pick(r, uniStrs)}
	case 5:
		var ap *bool
		if r.Bool() {
			ap = ptr(r.Bool())
		}
		return mocrelay.NewServerCountMsg(pick(r, uniStrs), pick(r, []uint64{0, 1, 42, math.MaxInt64, math.MaxUint64}), ap)
	default:
		return mocrelay.NewServerClosedMsg(pick(r, uniStrs), pick(r, prefixes), pick(r, msgTexts))
	}
}

// ---------------------------------------------------------------- text manipulation

// insert insignificant JSON white space at token boundaries (never inside strings)
func addSpace(r *Rng, b []byte, lead bool) []byte {
	ws := []string{" ", "\n", "\t", "\r", "  \n"}
	var o bytes.Buffer
	if lead && r.P(50) {
		o.WriteString(pick(r, ws))
	}
	inStr, esc := false, false
	for _, c := range b {
		if inStr {
			o.WriteByte(c)
			if esc {
				esc = false
			} else if c == '\\' {
				esc = true
			} else if c == '"' {
				inStr = false
			}
			continue
		}
		if c == '"' {
			inStr = true
		}
		if strings.ContainsRune("[]{},:", rune(c)) && r.P(20) {
			o.WriteString(pick(r, ws))
			o.WriteByte(c)
			if r.P(50) {
				o.WriteString(pick(r, ws))
			}
			continue
		}
		o.WriteByte(c)
	}
	if r.P(20) {
		o.WriteString(pick(r, ws))
	}
	return o.Bytes()
}

// generic tree for mutation
func toAny(b []byte) any {
	dec := json.NewDecoder(bytes.NewReader(b))
	dec.UseNumber()
	var v any
	dec.Decode(&v)
	return v
}

type mutation struct {
	name string
	f    func(r *Rng, root []any) bool
}

func eventObjs(root []any) []map[string]any {
	var res []map[string]any
	for _, x := range root {
		if m, ok := x.(map[string]any); ok {
			if _, isEv := m["sig"]; isEv {
				res = append(res, m)
			}
		}
	}
	return res
}

func filterObjs(root []any) []map[string]any {
	var res []map[string]any
	if len(root) > 0 {
		if l, _ := root[0].(string); l == "REQ" || l == "COUNT" {
			for _, x := range root[2:] {
				if m, ok := x.(map[string]any); ok {
					res = append(res, m)
				}
			}
		}
	}
	return res
}

var wrongTypes = []any{nil, true, json.Number("7"), "str", []any{}, map[string]any{}, json.Number("1.5")}

// sameBytesNonHex: the string with a stretch replaced by ONE multi-byte character that a Unicode-aware test might
// take for a hex digit (a decimal digit of another script, a full-width or Cyrillic look-alike of a-f), keeping the
// length IN BYTES — so a length check in bytes plus a per-rune "is digit / is letter" test is not enough
func sameBytesNonHex(r *Rng, s string) string {
	c := pick(r, []string{"\u0663", "\u0969", "\uff13", "\U0001d7d1", "\u0430", "\uff41", "\u00e9", "\u0661\u0662"})
	if len(s) < len(c) {
		return c
	}
	at := r.Intn(len(s) - len(c) + 1)
	return s[:at] + c + s[at+len(c):]
}

var mutations = []mutation{
	{"label-unknown", func(r *Rng, root []any) bool { root[0] = pick(r, []string{"EVENTS", "event", "", "OK", "NOTICE", "REQ2"}); return true }},
	{"label-type", func(r *Rng, root []any) bool { root[0] = pick(r, wrongTypes[:6]); return true }},
	{"ev-field-type", func(r *Rng, root []any) bool {
		es := eventObjs(root)
		if len(es) == 0 {
			return false
		}
		e := pick(r, es)
		k := pick(r, []string{"id", "pubkey", "created_at", "kind", "tags", "content", "sig"})
		e[k] = pick(r, wrongTypes)
		return true
	}},
	{"ev-missing", func(r *Rng, root []any) bool {
		es := eventObjs(root)
		if len(es) == 0 {
			return false
		}
		delete(pick(r, es), pick(r, []string{"id", "pubkey", "created_at", "kind", "tags", "content"}))
		return true
	}},
	{"ev-extra", func(r *Rng, root []any) bool {
		es := eventObjs(root)
		if len(es) == 0 {
			return false
		}
		pick(r, es)[pick(r, []string{"extra", "", "ID", "id ", "\x00"})] = "x"
		return true
	}},
	{"ev-hex", func(r *Rng, root []any) bool {
		es := eventObjs(root)
		if len(es) == 0 {
			return false
		}
		e := pick(r, es)
		k := pick(r, []string{"id", "pubkey", "sig"})
		s, _ := e[k].(string)
		if len(s) < 2 {
			return false
		}
		switch r.Intn(6) {
		case 5:
			e[k] = sameBytesNonHex(r, s)
		case 0:
			e[k] = s[1:]
		case 1:
			e[k] = s + "0"
		case 2:
			e[k] = strings.ToUpper(s[:len(s)-1]) + "A"
		case 3:
			e[k] = s[:len(s)-1] + "g"
		default:
			e[k] = ""
		}
		return true
	}},
	{"ev-kind", func(r *Rng, root []any) bool {
		es := eventObjs(root)
		if len(es) == 0 {
			return false
		}
		pick(r, es)["kind"] = json.Number(pick(r, []string{"-1", "65536", "70000", "9223372036854775807", "9223372036854775808", "1.0", "1e3", "-0"}))
		return true
	}},
	{"ev-created-at", func(r *Rng, root []any) bool {
		es := eventObjs(root)
		if len(es) == 0 {
			return false
		}
		pick(r, es)["created_at"] = json.Number(pick(r, []string{"1.5", "1e9", "9223372036854775808", "-9223372036854775809", "0.0"}))
		return true
	}},
	{"ev-tags", func(r *Rng, root []any) bool {
		es := eventObjs(root)
		if len(es) == 0 {
			return false
		}
		pick(r, es)["tags"] = pick(r, []any{[]any{[]any{}}, []any{[]any{""}}, []any{[]any{"e", nil}}, []any{nil}, []any{"e"}, []any{[]any{json.Number("1")}}, []any{[]any{"", "v"}}})
		return true
	}},
	{"f-key", func(r *Rng, root []any) bool {
		fs := filterObjs(root)
		if len(fs) == 0 {
			return false
		}
		pick(r, fs)[pick(r, []string{"#ab", "#", "#1", "#é", "foo", "IDS", "search", "#-", "", "i", "##", "\x00", "#\x00", "limit ", "#@", "#[", "#`", "#{", "#0", "#9"})] = pick(r, []any{[]any{"x"}, []any{}, nil, json.Number("0")})
		return true
	}},
	{"f-type", func(r *Rng, root []any) bool {
		fs := filterObjs(root)
		if len(fs) == 0 {
			return false
		}
		pick(r, fs)[pick(r, []string{"ids", "authors", "kinds", "#e", "#t", "since", "until", "limit"})] = pick(r, wrongTypes)
		return true
	}},
	{"f-elem", func(r *Rng, root []any) bool {
		fs := filterObjs(root)
		if len(fs) == 0 {
			return false
		}
		f := pick(r, fs)
		switch r.Intn(7) {
		case 6:
			f[pick(r, []string{"ids", "authors", "#e", "#p"})] = []any{sameBytesNonHex(r, hexN(r, 64))}
		case 0:
			f["ids"] = []any{hexN(r, 63)}
		case 1:
			f["authors"] = []any{strings.ToUpper(hexN(r, 64))}
		case 2:
			f["kinds"] = []any{json.Number(pick(r, []string{"-1", "65536", "70000", "1.5"}))}
		case 3:
			f["#e"] = []any{hexN(r, 64) + "0"}
		case 4:
			f["#p"] = []any{"xyz"}
		default:
			f["ids"] = []any{nil}
		}
		return true
	}},
	{"f-naddr", func(r *Rng, root []any) bool {
		fs := filterObjs(root)
		if len(fs) == 0 {
			return false
		}
		pick(r, fs)["#a"] = []any{pick(r, []string{"30023:" + hexN(r, 64), "x:" + hexN(r, 64) + ":d", "70000:" + hexN(r, 64) + ":d", "-1:" + hexN(r, 64) + ":", "30023:" + hexN(r, 63) + ":d", "30023", ""})}
		return true
	}},
	{"f-range", func(r *Rng, root []any) bool {
		fs := filterObjs(root)
		if len(fs) == 0 {
			return false
		}
		f := pick(r, fs)
		switch r.Intn(4) {
		case 0:
			f["since"] = json.Number("-1")
		case 1:
			f["until"] = json.Number("-1")
		case 2:
			f["limit"] = json.Number("-1")
		default:
			f["since"], f["until"] = json.Number("10"), json.Number("9")
		}
		return true
	}},
	{"arity", func(r *Rng, root []any) bool { return true }}, // handled on the text level below
	{"null-elem", func(r *Rng, root []any) bool {
		if len(root) < 2 {
			return false
		}
		root[1+r.Intn(len(root)-1)] = nil
		return true
	}},
}

func mutateText(r *Rng, good []byte) ([]byte, string) {
	root, ok := toAny(good).([]any)
	if !ok {
		return good, "none"
	}
	for tries := 0; tries < 10; tries++ {
		m := pick(r, mutations)
		if m.name == "arity" {
			if r.Bool() && len(root) > 1 {
				root = root[:len(root)-1]
			} else {
				root = append(root, pick(r, []any{"x", map[string]any{}, nil}))
			}
			b, _ := json.Marshal(root)
			return b, "arity"
		}
		if m.f(r, root) {
			b, _ := json.Marshal(root)
			return b, m.name
		}
	}
	return good, "none"
}

// text-level mutations that keep or break JSON syntax
func textMutate(r *Rng, good []byte) ([]byte, string) {
	s := string(good)
	switch r.Intn(8) {
	case 0:
		return []byte(strings.Replace(s, `"EVENT"`, `"EVENT"`, 1)), "label-escaped"
	case 1:
		return []byte(s[:r.Intn(len(s)+1)]), "truncated"
	case 2:
		i := r.Intn(len(s))
		return []byte(s[:i] + string([]byte{byte(0x80 + r.Intn(0x7f))}) + s[i:]), "bad-utf8"
	case 3:
		return []byte(strings.Replace(s, `"id"`, `"id":"dup","id"`, 1)), "dup-key"
	case 4:
		return []byte(strings.Replace(s, `"kinds":[`, `"kinds":[1,1.0e0,`, 1)), "number-form"
	case 5:
		return []byte(strings.Repeat("[", 1+r.Intn(200)) + s), "nesting"
	case 6:
		return []byte(s + pick(r, []string{"x", "[]", " null", ","})), "trailing"
	default:
		return []byte(strings.Replace(s, `[`, `[ `+strings.Repeat(" ", r.Intn(3)), 1)), "space-after-bracket"
	}
}

// ---------------------------------------------------------------- execution

func execParse(text []byte, wf bool, mut string) {
	if !utf8.Valid(text) {
		execRaw("ParseClientMsg", text)
		return
	}
	o := M{}
	var msg mocrelay.ClientMsg
	var err error
	if p := recoverStr(func() { msg, err = mocrelay.ParseClientMsg(text) }); p != "" {
		o["res"] = "panic"
	} else if err != nil {
		o["res"] = "error"
	} else if _, filled := valJ(msg); !filled {
		o["res"] = "unfilled" // accepted, but the value has a nil part (a nil filter, an event without tag list)
	} else {
		o["res"] = "ok"
		o["msg"] = cmsgJ(msg)
		var valid bool
		if p := recoverStr(func() { valid = mocrelay.ValidClientMsg(msg) }); p != "" {
			o["valid_panic"] = p
		}
		o["valid"] = valid
		if e := eventOfMsg(msg); e != nil && e.Tags == nil {
			o["res"] = "error" // cannot happen: decoded events always carry a tag slice
		}
	}
	tree, terr := treeOf(text)
	line := M{"op": "parse", "text": string(text), "wf": wf, "mut": mut, "out": o}
	if terr == nil {
		line["tree"] = tree
		if tree == nil {
			line["tree"] = M{"o": []any{}} // never: a bare null is not produced by the generators
			line["tree"] = nil
		}
	}
	emit(line)
}

func eventOfMsg(m mocrelay.ClientMsg) *mocrelay.Event {
	switch m := m.(type) {
	case *mocrelay.ClientEventMsg:
		return m.Event
	case *mocrelay.ClientAuthMsg:
		return m.Event
	}
	return nil
}

var allTypes = []string{"Event", "ReqFilter", "ClientEventMsg", "ClientReqMsg", "ClientCloseMsg", "ClientAuthMsg", "ClientCountMsg",
	"ServerEOSEMsg", "ServerEventMsg", "ServerNoticeMsg", "ServerOKMsg", "ServerAuthMsg", "ServerCountMsg", "ServerClosedMsg"}

func newOf(typ string) any {
	switch typ {
	case "Event":
		return new(mocrelay.Event)
	case "ReqFilter":
		return new(mocrelay.ReqFilter)
	case "ClientEventMsg":
		return new(mocrelay.ClientEventMsg)
	case "ClientReqMsg":
		return new(mocrelay.ClientReqMsg)
	case "ClientCloseMsg":
		return new(mocrelay.ClientCloseMsg)
	case "ClientAuthMsg":
		return new(mocrelay.ClientAuthMsg)
	case "ClientCountMsg":
		return new(mocrelay.ClientCountMsg)
	case "ServerEOSEMsg":
		return new(mocrelay.ServerEOSEMsg)
	case "ServerEventMsg":
		return new(mocrelay.ServerEventMsg)
	case "ServerNoticeMsg":
		return new(mocrelay.ServerNoticeMsg)
	case "ServerOKMsg":
		return new(mocrelay.ServerOKMsg)
	case "ServerAuthMsg":
		return new(mocrelay.ServerAuthMsg)
	case "ServerCountMsg":
		return new(mocrelay.ServerCountMsg)
	case "ServerClosedMsg":
		return new(mocrelay.ServerClosedMsg)
	}
	panic(typ)
}

// canonical JSON of a decoded value; ok=false when it is not "completely filled"
func valJ(v any) (any, bool) {
	switch x := v.(type) {
	case *mocrelay.Event:
		return evJ(x), x.Tags != nil
	case *mocrelay.ReqFilter:
		return filterJ(x), true
	case *mocrelay.ClientEventMsg:
		if x.Event == nil || x.Event.Tags == nil {
			return cmsgJ(&mocrelay.ClientCloseMsg{}), false
		}
		return cmsgJ(x), true
	case *mocrelay.ClientAuthMsg:
		if x.Event == nil || x.Event.Tags == nil {
			return cmsgJ(&mocrelay.ClientCloseMsg{}), false
		}
		return cmsgJ(x), true
	case *mocrelay.ClientReqMsg:
		for _, f := range x.ReqFilters {
			if f == nil {
				return cmsgJ(&mocrelay.ClientCloseMsg{}), false
			}
		}
		return cmsgJ(x), true
	case *mocrelay.ClientCountMsg:
		for _, f := range x.ReqFilters {
			if f == nil {
				return cmsgJ(&mocrelay.ClientCloseMsg{}), false
			}
		}
		return cmsgJ(x), true
	case *mocrelay.ServerEventMsg:
		if x.Event == nil || x.Event.Tags == nil {
			return cmsgJ(&mocrelay.ClientCloseMsg{}), false
		}
		return smsgJ(x), true
	case mocrelay.ClientMsg:
		return cmsgJ(x), true
	case mocrelay.ServerMsg:
		return smsgJ(x), true
	}
	return nil, false
}

func execDecode(typ string, text []byte) {
	if !utf8.Valid(text) {
		execRaw(typ, text)
		return
	}
	o := M{}
	v := newOf(typ)
	var err error
	if p := recoverStr(func() { err = json.Unmarshal(text, v) }); p != "" {
		o["res"] = "panic"
	} else if err != nil {
		o["res"] = "error"
	} else {
		j, filled := valJ(v)
		o["res"] = "ok"
		o["val"] = j
		o["filled"] = filled
		// decode -> encode -> decode
		if b2, err := json.Marshal(v); err == nil {
			v2 := newOf(typ)
			if json.Unmarshal(b2, v2) == nil {
				aj, _ := valJ(v2)
				o["again"] = aj
				// compared here as well, on the Go values: the JSON written for the driver cannot carry a string
				// that is not valid UTF-8 (it would arrive as U+FFFD and hide the difference)
				if !reflect.DeepEqual(j, aj) {
					o["againRawDiffers"] = true
				}
			}
		}
	}
	line := M{"op": "decode", "type": typ, "text": string(text), "out": o}
	if tree, terr := treeOf(text); terr == nil {
		line["tree"] = tree
	}
	emit(line)
}

// execDecodeRaw: a text that is NOT valid UTF-8 (an invalid byte inside a JSON string).  encoding/json accepts such
// texts and decodes the bad bytes as U+FFFD; whatever is accepted must still satisfy decode-encode-decode = decode,
// compared on the Go values (the line written for the driver carries the text in hex).
func execDecodeRaw(typ string, text []byte) {
	o := M{}
	var v any
	var err error
	p := recoverStr(func() {
		if typ == "ParseClientMsg" {
			var m mocrelay.ClientMsg
			m, err = mocrelay.ParseClientMsg(text)
			v = m
		} else {
			v = newOf(typ)
			err = json.Unmarshal(text, v)
		}
	})
	switch {
	case p != "":
		o["res"] = "panic"
	case err != nil:
		o["res"] = "error"
	default:
		o["res"] = "ok"
		j, _ := valJ(v)
		o["val"] = j
		if b2, err := json.Marshal(v); err == nil {
			v2 := newOf(typeOf(v))
			if json.Unmarshal(b2, v2) == nil {
				aj, _ := valJ(v2)
				o["again"] = aj
				if !reflect.DeepEqual(j, aj) {
					o["againRawDiffers"] = true
				}
			} else {
				o["againFails"] = true
			}
		}
	}
	emit(M{"op": "rawdec", "type": typ, "hex": fmt.Sprintf("%x", text), "out": o})
}

// badByteInString replaces one byte inside a JSON string of a well-formed text by a byte that is not valid UTF-8
func badByteInString(r *Rng, b []byte) []byte {
	var pos []int
	in := false
	for i := 0; i < len(b); i++ {
		switch {
		case b[i] == '\\' && in:
			i++
		case b[i] == '"':
			in = !in
		case in && b[i] < 0x80 && b[i] >= 0x20:
			pos = append(pos, i)
		}
	}
	if len(pos) == 0 {
		return nil
	}
	c := append([]byte{}, b...)
	c[pick(r, pos)] = pick(r, []byte{0xff, 0xc3, 0x80, 0xfe})
	return c
}

func execRaw(typ string, b []byte) {
	res := "error"
	p := recoverStr(func() {
		if typ == "ParseClientMsg" {
			if _, err := mocrelay.ParseClientMsg(b); err == nil {
				res = "ok"
			}
		} else if json.Unmarshal(b, newOf(typ)) == nil {
			res = "ok"
		}
	})
	if p != "" {
		res = "panic"
	}
	emit(M{"op": "raw", "type": typ, "hex": fmt.Sprintf("%x", b), "out": M{"res": res}})
}

func typeOf(v any) string {
	switch v.(type) {
	case *mocrelay.Event:
		return "Event"
	case *mocrelay.ReqFilter:
		return "ReqFilter"
	case *mocrelay.ClientEventMsg:
		return "ClientEventMsg"
	case *mocrelay.ClientReqMsg:
		return "ClientReqMsg"
	case *mocrelay.ClientCloseMsg:
		return "ClientCloseMsg"
	case *mocrelay.ClientAuthMsg:
		return "ClientAuthMsg"
	case *mocrelay.ClientCountMsg:
		return "ClientCountMsg"
	case *mocrelay.ServerEOSEMsg:
		return "ServerEOSEMsg"
	case *mocrelay.ServerEventMsg:
		return "ServerEventMsg"
	case *mocrelay.ServerNoticeMsg:
		return "ServerNoticeMsg"
	case *mocrelay.ServerOKMsg:
		return "ServerOKMsg"
	case *mocrelay.ServerAuthMsg:
		return "ServerAuthMsg"
	case *mocrelay.ServerCountMsg:
		return "ServerCountMsg"
	case *mocrelay.ServerClosedMsg:
		return "ServerClosedMsg"
	}
	return "?"
}

func execRoundtrip(v any) {
	typ := typeOf(v)
	j, _ := valJ(v)
	o := M{}
	b, err := json.Marshal(v)
	if err != nil {
		return
	}
	o["tree"], _ = treeOf(b)
	v2 := newOf(typ)
	if json.Unmarshal(b, v2) == nil {
		o["back"], _ = valJ(v2)
	}
	emit(M{"op": "roundtrip", "type": typ, "val": j, "text": string(b), "out": o})
}

// prefix normal form: an empty MsgPrefix means the text does not start with a known prefix
func normalPrefix(prefix, msg string) bool {
	if prefix != "" {
		return true
	}
	for _, p := range prefixes[1:] {
		if strings.HasPrefix(msg, p) {
			return false
		}
	}
	return true
}

func codecGen(r *Rng, n int, tier string) {
	for i := 0; i < n; i++ {
		switch r.Intn(11) {
		case 0, 1, 2:
			// well-formed client message with white space: must parse and be valid
			m := wfClientMsg(r)
			b, _ := json.Marshal(m)
			b = addSpace(r, b, true)
			execParse(b, true, "")
			execDecode(typeOf(m), bytes.TrimLeft(b, " \n\t\r"))
		case 3, 4, 5:
			m := wfClientMsg(r)
			b, _ := json.Marshal(m)
			var mut string
			if r.P(75) {
				b, mut = mutateText(r, b)
			} else {
				b, mut = textMutate(r, b)
			}
			execParse(b, false, mut)
			execDecode(typeOf(m), b)
			if r.P(30) {
				execDecode(pick(r, allTypes), b)
			}
		case 6:
			m := wfServerMsg(r)
			b, _ := json.Marshal(m)
			if r.P(50) {
				b, _ = mutateText(r, b)
			} else if r.P(30) {
				b, _ = textMutate(r, b)
			}
			execDecode(typeOf(m), addSpace(r, b, false))
			if r.P(30) {
				execDecode(pick(r, allTypes), b)
			}
		case 7:
			// server COUNT payload variants
			texts := []string{`["COUNT","s",{"count":5}]`, `["COUNT","s",{"Count":5,"APPROXIMATE":true}]`, `["COUNT","s",{"count":5,"x":1}]`,
				`["COUNT","s",{"count":-1}]`, `["COUNT","s",{"count":1.0}]`, `["COUNT","s",{"count":18446744073709551615}]`, `["COUNT","s",{"count":18446744073709551616}]`,
				`["COUNT","s",null]`, `["COUNT","s",{}]`, `["COUNT","s",{"count":null,"approximate":null}]`, `["COUNT","s",{"count":1,"count":2}]`, `["COUNT","s",[]]`,
				`["COUNT",null,{"count":"5"}]`, `["OK","id",null,null]`, `["OK",null,true,"duplicate: x"]`, `["OK","id",true,"error: duplicate: x"]`, `["CLOSED","s",null]`,
				`["CLOSED","s","blocked: "]`, `["NOTICE",null]`, `["EOSE"]`, `["EVENT","s",null]`, `["AUTH","c","d"]`, `null`, ` null`, `[]`, `{}`, `""`}
			t := pick(r, texts)
			for _, typ := range []string{"ServerCountMsg", "ServerOKMsg", "ServerClosedMsg", "ServerNoticeMsg", "ServerEOSEMsg", "ServerEventMsg", "ServerAuthMsg", "ClientCloseMsg", "Event", "ReqFilter"} {
				if r.P(35) {
					execDecode(typ, []byte(t))
				}
			}
		case 10:
			// an invalid byte inside a string of a well-formed message (subscription id, event id, content, tag, text)
			var b []byte
			var typ string
			if r.Bool() {
				m := wfClientMsg(r)
				b, _ = json.Marshal(m)
				typ = pick(r, []string{typeOf(m), "ParseClientMsg"})
			} else {
				m := wfServerMsg(r)
				b, _ = json.Marshal(m)
				typ = typeOf(m)
			}
			if c := badByteInString(r, b); c != nil {
				execDecodeRaw(typ, c)
			}
		case 8:
			// round trips of (not necessarily valid) values
			switch r.Intn(5) {
			case 4:
				// two different values with the SAME event id, one after the other (an encoder that remembers by id)
				e := wfEvent(r)
				sub := pick(r, []string{"s", "", "sub"})
				execRoundtrip(&mocrelay.ServerEventMsg{SubscriptionID: sub, Event: e})
				e2 := cloneEv(e)
				switch r.Intn(4) {
				case 0:
					e2.Content += "!"
				case 1:
					e2.Sig = hexN(r, 128)
				case 2:
					e2.Tags = append(e2.Tags, mocrelay.Tag{"t", "x"})
				default:
					e2.CreatedAt++
				}
				execRoundtrip(&mocrelay.ServerEventMsg{SubscriptionID: sub, Event: e2})
				execRoundtrip(&mocrelay.ClientEventMsg{Event: e2})
				execRoundtrip(e2)
			case 0:
				execRoundtrip(wfEvent(r))
			case 1:
				execRoundtrip(wfFilter(r))
			case 2:
				execRoundtrip(wfClientMsg(r))
			default:
				m := wfServerMsg(r)
				if ok, isOK := m.(*mocrelay.ServerOKMsg); isOK && !normalPrefix(ok.MsgPrefix, ok.Msg) {
					continue
				}
				if c, isC := m.(*mocrelay.ServerClosedMsg); isC && !normalPrefix(c.MsgPrefix, c.Msg) {
					continue
				}
				execRoundtrip(m)
			}
		default:
			// raw bytes
			b := make([]byte, r.Intn(40))
			for k := range b {
				b[k] = pick(r, []byte(`[]{}",:0123456789.eE-+ntfalsrue\/ `+"\x00\xff\xc3\x28EVENTREQ"))
			}
			if r.P(50) {
				b = append([]byte(`["`+pick(r, []string{"EVENT", "REQ", "CLOSE", "AUTH", "COUNT"})+`"`), b...)
			}
			execParse(b, false, "raw")
			execDecode(pick(r, allTypes), b)
		}
	}
}

func init() {
	props["codec"] = propRunner{
		gen: codecGen,
		replay: func(lines []replayLine) {
			for _, l := range lines {
				switch l["op"] {
				case "parse":
					wf, _ := l["wf"].(bool)
					execParse([]byte(str(l["text"])), wf, str(l["mut"]))
				case "decode":
					execDecode(str(l["type"]), []byte(str(l["text"])))
				case "rawdec":
					if hb, err := hexDecodeStr(str(l["hex"])); err == nil {
						execDecodeRaw(str(l["type"]), hb)
					}
				case "roundtrip":
					v := newOf(str(l["type"]))
					if json.Unmarshal([]byte(str(l["text"])), v) == nil {
						execRoundtrip(v)
					}
				case "raw":
					var b []byte
					fmt.Sscanf(str(l["hex"]), "%x", &b)
					execRaw(str(l["type"]), b)
				}
			}
		},
	}
}

func hexDecodeStr(h string) ([]byte, error) {
	b := make([]byte, len(h)/2)
	_, err := fmt.Sscanf(h, "%x", &b)
	return b, err
}
