package main

import (
	"context"
	"fmt"
	"runtime"
	"sync"
	"sync/atomic"
	"time"

	"github.com/high-moctane/mocrelay"
)

// C07, concurrent histories: every connection runs its own script (REQ / CLOSE / COUNT / EVENT) in its own
// goroutine against ONE real RouterHandler while a reader goroutine per connection receives everything.  Every send is
// stamped with a global logical clock BEFORE it is attempted and every receive AFTER it happened, so
// "stamp(recv x) < stamp(send y)" implies that x really was received before y was sent.  The recorded history is
// judged by the Lean monitor with the statement's real-time rule (must / must not / may).

type concEntry struct {
	C   int
	T   int64
	Dir string // send | recv
	CM  mocrelay.ClientMsg
	SM  mocrelay.ServerMsg
}

func runRouterConc(r *Rng, n int, scripts [][]routerStep, buflen int) {
	router := mocrelay.NewRouterHandler(buflen)
	var clock atomic.Int64
	var mu sync.Mutex
	var hist []concEntry
	rec := func(e concEntry) {
		mu.Lock()
		hist = append(hist, e)
		mu.Unlock()
	}
	type cc struct {
		cancel context.CancelFunc
		send   chan mocrelay.ServerMsg
		recv   chan mocrelay.ClientMsg
		done   chan error
		rdone  chan struct{}
		quiet  atomic.Int64
	}
	conns := make([]*cc, n)
	for i := 0; i < n; i++ {
		ctx, cancel := context.WithCancel(context.Background())
		c := &cc{cancel: cancel, send: make(chan mocrelay.ServerMsg), recv: make(chan mocrelay.ClientMsg), done: make(chan error, 1), rdone: make(chan struct{})}
		conns[i] = c
		go func() { c.done <- router.ServeNostr(ctx, c.send, c.recv) }()
		go func(i int) {
			defer close(c.rdone)
			for {
				select {
				case m := <-c.send:
					t := clock.Add(1)
					rec(concEntry{C: i, T: t, Dir: "recv", SM: m})
					c.quiet.Store(time.Now().UnixNano())
				case <-ctx.Done():
					return
				}
			}
		}(i)
	}
	var wg sync.WaitGroup
	blocked := atomic.Bool{}
	for i := 0; i < n; i++ {
		wg.Add(1)
		seed := r.U64()
		go func(i int, seed uint64) {
			defer wg.Done()
			lr := &Rng{s: seed}
			for _, st := range scripts[i] {
				var m mocrelay.ClientMsg
				switch st.K {
				case "req":
					m = &mocrelay.ClientReqMsg{SubscriptionID: st.Sub, ReqFilters: st.Fs}
				case "close":
					m = &mocrelay.ClientCloseMsg{SubscriptionID: st.Sub}
				case "count":
					m = &mocrelay.ClientCountMsg{SubscriptionID: st.Sub, ReqFilters: []*mocrelay.ReqFilter{{}}}
				case "event":
					m = &mocrelay.ClientEventMsg{Event: st.Ev}
				}
				t := clock.Add(1)
				rec(concEntry{C: i, T: t, Dir: "send", CM: m})
				select {
				case conns[i].recv <- m:
				case <-time.After(10 * time.Second):
					blocked.Store(true)
					return
				}
				for k := lr.Intn(4); k > 0; k-- {
					runtime.Gosched()
				}
				if lr.P(10) {
					time.Sleep(time.Duration(lr.Intn(200)) * time.Microsecond)
				}
			}
		}(i, seed)
	}
	wg.Wait()
	// let everything in flight arrive: wait until every reader has been quiet for a while
	deadline := time.Now().Add(5 * time.Second)
	for time.Now().Before(deadline) {
		quiet := true
		now := time.Now().UnixNano()
		for _, c := range conns {
			if q := c.quiet.Load(); q != 0 && now-q < int64(20*time.Millisecond) {
				quiet = false
			}
		}
		if quiet {
			break
		}
		time.Sleep(2 * time.Millisecond)
	}
	time.Sleep(20 * time.Millisecond)
	for _, c := range conns {
		c.cancel()
	}
	for _, c := range conns {
		select {
		case <-c.done:
		case <-time.After(5 * time.Second):
			blocked.Store(true)
		}
		<-c.rdone
	}
	mu.Lock()
	defer mu.Unlock()
	out := make([]any, len(hist))
	for i, e := range hist {
		m := M{"c": e.C, "t": e.T, "dir": e.Dir}
		if e.Dir == "send" {
			m["msg"] = cmsgJ(e.CM)
		} else {
			m["msg"] = smsgJ(e.SM)
		}
		out[i] = m
	}
	line := M{"op": "routerconc", "n": n, "buflen": buflen, "hist": out}
	if blocked.Load() {
		line["blocked"] = true
	}
	emit(line)
}

func genRouterConc(r *Rng) (int, [][]routerStep) {
	n := r.Range(2, 4)
	authors := []string{fmt.Sprintf("a1%062d", 0), fmt.Sprintf("a2%062d", 0)}
	subs := []string{"a", "b"}
	nev := 0
	scripts := make([][]routerStep, n)
	for i := range scripts {
		for k := r.Range(4, 14); k > 0; k-- {
			switch r.Intn(10) {
			case 0, 1, 2:
				var fs []*mocrelay.ReqFilter
				switch r.Intn(3) {
				case 0:
					fs = []*mocrelay.ReqFilter{{Kinds: []int64{1, 2}}}
				case 1:
					fs = []*mocrelay.ReqFilter{{Kinds: []int64{int64(r.Range(1, 2))}}}
				default:
					fs = []*mocrelay.ReqFilter{{Authors: []string{pick(r, authors)}}}
				}
				scripts[i] = append(scripts[i], routerStep{K: "req", C: i, Sub: pick(r, subs), Fs: fs})
			case 3:
				scripts[i] = append(scripts[i], routerStep{K: "close", C: i, Sub: pick(r, subs)})
			case 4:
				scripts[i] = append(scripts[i], routerStep{K: "count", C: i, Sub: "k"})
			default:
				nev++
				ev := &mocrelay.Event{ID: fmt.Sprintf("e8%02d%060d", i, nev), Pubkey: pick(r, authors), CreatedAt: int64(nev), Kind: int64(r.Range(1, 2)),
					Tags: []mocrelay.Tag{}, Content: "x", Sig: ""}
				scripts[i] = append(scripts[i], routerStep{K: "event", C: i, Ev: ev})
			}
		}
	}
	return n, scripts
}

func init() {
	props["routerconc"] = propRunner{
		gen: func(r *Rng, n int, tier string) {
			for i := 0; i < n; i++ {
				k, scripts := genRouterConc(r)
				runRouterConc(r, k, scripts, 256)
			}
		},
		replay: func(lines []replayLine) {
			// a concurrent history cannot be replayed step by step: the scripts are re-run (a different interleaving
			// may result) and the new history is judged
			for _, l := range lines {
				if l["op"] != "routerconc" {
					continue
				}
				n := int(jnum(l["n"]))
				scripts := make([][]routerStep, n)
				arr, _ := l["hist"].([]any)
				for _, x := range arr {
					m := x.(map[string]any)
					if str(m["dir"]) != "send" {
						continue
					}
					c := int(jnum(m["c"]))
					cm := cmsgFromJ(m["msg"])
					switch v := cm.(type) {
					case *mocrelay.ClientReqMsg:
						scripts[c] = append(scripts[c], routerStep{K: "req", C: c, Sub: v.SubscriptionID, Fs: v.ReqFilters})
					case *mocrelay.ClientCloseMsg:
						scripts[c] = append(scripts[c], routerStep{K: "close", C: c, Sub: v.SubscriptionID})
					case *mocrelay.ClientCountMsg:
						scripts[c] = append(scripts[c], routerStep{K: "count", C: c, Sub: v.SubscriptionID})
					case *mocrelay.ClientEventMsg:
						scripts[c] = append(scripts[c], routerStep{K: "event", C: c, Ev: v.Event})
					}
				}
				runRouterConc(&Rng{s: 1}, n, scripts, int(jnum(l["buflen"])))
			}
		},
	}
}
