package main

import (
	"crypto/sha256"
	"encoding/hex"
	"fmt"
	"strconv"
	"strings"
	"unicode/utf8"

	"github.com/btcsuite/btcd/btcec/v2"
	"github.com/btcsuite/btcd/btcec/v2/schnorr"
	"github.com/high-moctane/mocrelay"
)

// C01: Event.Serialize / Event.Verify on freshly signed events whose content and tag values are drawn per
// character class, and on every single-field / single-digit alteration of them.  Signing uses an
// independent NIP-01 serializer (below) and btcec directly; the signature oracle handed to the model
// is obtained from btcec on the raw bytes, not through Event.Verify.

func nip01Quote(b *strings.Builder, s string) {
	b.WriteByte('"')
	for _, r := range s {
		switch r {
		case '"':
			b.WriteString(`\"`)
		case '\\':
			b.WriteString(`\\`)
		case '\n':
			b.WriteString(`\n`)
		case '\r':
			b.WriteString(`\r`)
		case '\t':
			b.WriteString(`\t`)
		case '\b':
			b.WriteString(`\b`)
		case '\f':
			b.WriteString(`\f`)
		default:
			if r < 0x20 {
				fmt.Fprintf(b, `\u%04x`, r)
			} else {
				b.WriteRune(r)
			}
		}
	}
	b.WriteByte('"')
}

func nip01Canonical(e *mocrelay.Event) string {
	var b strings.Builder
	b.WriteString("[0,")
	nip01Quote(&b, e.Pubkey)
	b.WriteByte(',')
	b.WriteString(strconv.FormatInt(e.CreatedAt, 10))
	b.WriteByte(',')
	b.WriteString(strconv.FormatInt(e.Kind, 10))
	b.WriteString(",[")
	for i, t := range e.Tags {
		if i > 0 {
			b.WriteByte(',')
		}
		b.WriteByte('[')
		for j, s := range t {
			if j > 0 {
				b.WriteByte(',')
			}
			nip01Quote(&b, s)
		}
		b.WriteByte(']')
	}
	b.WriteString("],")
	nip01Quote(&b, e.Content)
	b.WriteByte(']')
	return b.String()
}

func privKey(n int) *btcec.PrivateKey {
	seed := sha256.Sum256([]byte(fmt.Sprintf("verif-key-%d", n)))
	k, _ := btcec.PrivKeyFromBytes(seed[:])
	return k
}

func signEvent(e *mocrelay.Event, key *btcec.PrivateKey) {
	e.Pubkey = hex.EncodeToString(schnorr.SerializePubKey(key.PubKey()))
	h := sha256.Sum256([]byte(nip01Canonical(e)))
	e.ID = hex.EncodeToString(h[:])
	sig, err := schnorr.Sign(key, h[:])
	if err != nil {
		panic(err)
	}
	e.Sig = hex.EncodeToString(sig.Serialize())
}

func sigOracle(e *mocrelay.Event) any {
	o := M{"pubkeyParses": false, "sigParses": false, "verifies": false}
	idBin, err := hex.DecodeString(e.ID)
	if err != nil {
		return o
	}
	pkBin, err := hex.DecodeString(e.Pubkey)
	if err != nil {
		return o
	}
	pk, err := schnorr.ParsePubKey(pkBin)
	if err != nil {
		return o
	}
	o["pubkeyParses"] = true
	sigBin, err := hex.DecodeString(e.Sig)
	if err != nil {
		return o
	}
	sig, err := schnorr.ParseSignature(sigBin)
	if err != nil {
		return o
	}
	o["sigParses"] = true
	o["verifies"] = sig.Verify(idBin, pk)
	return o
}

var charClasses = map[string][]rune{
	"ascii":    []rune("abc XYZ 019 ~!@#$%^*()_+-=[]{}|;:',./?"),
	"mandated": {'"', '\\', '\n', '\r', '\t', '\b', '\f'},
	"c0":       {0x00, 0x01, 0x02, 0x07, 0x0b, 0x0e, 0x1b, 0x1f},
	"html":     {'<', '>', '&'},
	"linesep":  {0x2028, 0x2029},
	"del":      {0x7f, 0x80, 0x9f, 0xa0},
	"bmp":      {0xe9, 0x3042, 0x65e5, 0xfffd, 0xfeff, 0xd7ff, 0xe000, 0xffff},
	"astral":   {0x1f600, 0x10000, 0x10ffff, 0x2f800},
	"combining": {0x0301, 0x200d, 0x202e},
}

var classNames = []string{"ascii", "mandated", "c0", "html", "linesep", "del", "bmp", "astral", "combining"}

// texts that spell a JSON escape sequence literally (backslash, u, 2, 0, 2, 8 …): an encoder that post-processes its
// own output, or un-escapes twice, confuses them with the character itself
var escapeLookalikes = []string{`\u2028`, `\u2029`, `\ufffd`, `\u0000`, `\u003c`, `\ud800`, `\n`, `\"`, `\\`, `\/`, `\u00e9`, `&amp;`, `\x41`}

func genStr(r *Rng, cls string) string {
	if r.P(4) {
		return pick(r, []string{"", "a", "abc "}) + pick(r, escapeLookalikes) + pick(r, []string{"", "z"})
	}
	var sb strings.Builder
	for i := r.Range(0, 6); i > 0; i-- {
		if r.P(70) {
			sb.WriteRune(pick(r, charClasses[cls]))
		} else {
			sb.WriteRune(pick(r, charClasses["ascii"]))
		}
	}
	return sb.String()
}

// alignedStr: a run of k plain ASCII characters, then one character of the class, then a short tail — every
// alignment of the first special character relative to 2/4/8/16-byte words (bulk-copy / word-at-a-time fast paths)
func alignedStr(r *Rng, cls string) string {
	var sb strings.Builder
	plain := []rune("abcdefghijklmnopqrstuvwxyz0123456789 ")
	for k := r.Intn(41); k > 0; k-- {
		sb.WriteRune(pick(r, plain))
	}
	switch r.Intn(4) {
	case 0, 1:
		sb.WriteRune(pick(r, []rune{'\\', '"'})) // the two characters every JSON writer must escape
	case 2:
		sb.WriteRune(pick(r, append(append([]rune{}, charClasses["mandated"]...), charClasses["c0"]...)))
	default:
		sb.WriteRune(pick(r, charClasses[cls]))
	}
	if r.P(50) {
		sb.WriteString(genStr(r, cls))
	}
	return sb.String()
}

func genC01Event(r *Rng) (*mocrelay.Event, string) {
	cls := pick(r, classNames)
	if r.P(30) {
		e := &mocrelay.Event{Kind: 1, CreatedAt: 1700000000, Content: alignedStr(r, cls), Tags: []mocrelay.Tag{}}
		if r.P(50) {
			e.Tags = append(e.Tags, mocrelay.Tag{"t", alignedStr(r, pick(r, classNames))})
		}
		return e, cls
	}
	e := &mocrelay.Event{Kind: int64(pick(r, []int{0, 1, 5, 30023, 65535, 20001})), CreatedAt: pick(r, []int64{0, 1, 1700000000, -1, 9223372036854775807, -9223372036854775808}),
		Content: genStr(r, cls), Tags: []mocrelay.Tag{}}
	if r.P(10) {
		e.Content = strings.Repeat(genStr(r, cls), 50)
	}
	for i := r.Intn(3); i > 0; i-- {
		t := mocrelay.Tag{pick(r, []string{"e", "p", "t", "d"})}
		for j := r.Intn(3); j > 0; j-- {
			t = append(t, genStr(r, pick(r, classNames)))
		}
		e.Tags = append(e.Tags, t)
	}
	return e, cls
}

func execSer(e *mocrelay.Event, cls string) {
	b, err := e.Serialize()
	if err != nil || !utf8.Valid(b) {
		return
	}
	h := sha256.Sum256(b)
	emit(M{"op": "ser", "cls": cls, "e": evJ(e), "out": M{"ser": string(b), "sha": hex.EncodeToString(h[:])}})
}

func execVerify(e *mocrelay.Event, signed bool, tamper string) {
	res := "error"
	p := recoverStr(func() {
		ok, err := e.Verify()
		if err == nil {
			res = strconv.FormatBool(ok)
		}
	})
	if p != "" {
		res = "panic"
	}
	emit(M{"op": "verify", "e": evJ(e), "oracle": sigOracle(e), "signed": signed, "tamper": tamper, "out": M{"res": res}})
}

func flipHex(r *Rng, s string) string {
	if len(s) == 0 {
		return s
	}
	i := r.Intn(len(s))
	c := s[i]
	v, err := strconv.ParseUint(string(c), 16, 8)
	if err != nil {
		return s
	}
	v ^= 1 << uint(r.Intn(4)) // single-bit flip of one hex digit
	return s[:i] + strconv.FormatUint(v, 16) + s[i+1:]
}

func tamperings(r *Rng, e *mocrelay.Event) map[string]*mocrelay.Event {
	m := map[string]*mocrelay.Event{}
	c := cloneEv(e)
	c.Content += pick(r, []string{"x", "<", " ", " "})
	m["content"] = c
	c = cloneEv(e)
	c.CreatedAt++
	m["created_at"] = c
	c = cloneEv(e)
	c.Kind++
	m["kind"] = c
	c = cloneEv(e)
	c.Tags = append(c.Tags, mocrelay.Tag{"t", "x"})
	m["tags-add"] = c
	if len(e.Tags) > 0 && len(e.Tags[0]) > 1 {
		c = cloneEv(e)
		c.Tags[0][1] += "y"
		m["tags-value"] = c
	}
	c = cloneEv(e)
	c.Pubkey = hex.EncodeToString(schnorr.SerializePubKey(privKey(999).PubKey()))
	m["pubkey"] = c
	c = cloneEv(e)
	c.ID = flipHex(r, c.ID)
	m["id-bit"] = c
	c = cloneEv(e)
	c.Sig = flipHex(r, c.Sig)
	m["sig-bit"] = c
	c = cloneEv(e)
	c.Pubkey = flipHex(r, c.Pubkey)
	m["pubkey-bit"] = c
	// forgeries that keep the id consistent, so that the signature check itself is reached
	rehash := func(c *mocrelay.Event) {
		h := sha256.Sum256([]byte(nip01Canonical(c)))
		c.ID = hex.EncodeToString(h[:])
	}
	c = cloneEv(e)
	c.Content += "!"
	rehash(c)
	m["rehash-content"] = c
	c = cloneEv(e)
	c.Pubkey = hex.EncodeToString(schnorr.SerializePubKey(privKey(999).PubKey()))
	rehash(c)
	m["rehash-pubkey"] = c
	c = cloneEv(e)
	c.Pubkey = flipHex(r, c.Pubkey)
	rehash(c)
	m["rehash-pubkey-bit"] = c
	c = cloneEv(e)
	c.Pubkey = pick(r, []string{strings.Repeat("f", 64), "fffffffffffffffffffffffffffffffffffffffffffffffffffffffefffffc2f", "fffffffffffffffffffffffffffffffffffffffffffffffffffffffefffffc30",
		strings.Repeat("0", 64), strings.Repeat("0", 63) + "5", c.Pubkey[:62], c.Pubkey + "00"})
	rehash(c)
	m["rehash-pubkey-edge"] = c
	// signature edge cases on the untouched event
	const pHex = "fffffffffffffffffffffffffffffffffffffffffffffffffffffffefffffc2f"
	const nHex = "fffffffffffffffffffffffffffffffebaaedce6af48a03bbfd25e8cd0364141"
	c = cloneEv(e)
	c.Sig = pick(r, []string{pHex, strings.Repeat("f", 64), strings.Repeat("0", 64)}) + c.Sig[64:]
	m["sig-r-edge"] = c
	c = cloneEv(e)
	c.Sig = c.Sig[:64] + pick(r, []string{nHex, strings.Repeat("f", 64), strings.Repeat("0", 64)})
	m["sig-s-edge"] = c
	c = cloneEv(e)
	if sb, err := hex.DecodeString(c.Sig[64:]); err == nil { // (r, n - s): the "negated" signature
		var sv btcec.ModNScalar
		sv.SetByteSlice(sb)
		sv.Negate()
		nb := sv.Bytes()
		c.Sig = c.Sig[:64] + hex.EncodeToString(nb[:])
		m["sig-s-negated"] = c
	}
	c = cloneEv(e)
	{ // a valid signature by the same key, over another message
		other := sha256.Sum256([]byte(c.ID))
		for k := 0; k < 5; k++ {
			if hex.EncodeToString(schnorr.SerializePubKey(privKey(k).PubKey())) == c.Pubkey {
				if sg, err := schnorr.Sign(privKey(k), other[:]); err == nil {
					c.Sig = hex.EncodeToString(sg.Serialize())
					m["sig-other-message"] = c
				}
			}
		}
	}
	c = cloneEv(e)
	if idb, err := hex.DecodeString(c.ID); err == nil { // a valid signature of this id, by another key
		if sg, err := schnorr.Sign(privKey(998), idb); err == nil {
			c.Sig = hex.EncodeToString(sg.Serialize())
			m["sig-other-key"] = c
		}
	}
	c = cloneEv(e)
	c.Sig = pick(r, []string{c.Sig[:126], c.Sig + "00", ""})
	m["sig-length"] = c
	return m
}

func init() {
	props["C01"] = propRunner{
		gen: func(r *Rng, n int, tier string) {
			if tier == "thorough" {
				// exhaustive: every Unicode scalar value as one-character content and tag value
				for cp := rune(0); cp <= 0x10ffff; cp++ {
					if cp >= 0xd800 && cp <= 0xdfff {
						continue
					}
					e := &mocrelay.Event{Pubkey: authors[0], Kind: 1, CreatedAt: 1, Content: string(cp), Tags: []mocrelay.Tag{{"t", string(cp)}}}
					execSer(e, "exhaustive")
				}
			}
			for i := 0; i < n; i++ {
				e, cls := genC01Event(r)
				signEvent(e, privKey(r.Intn(5)))
				execSer(e, cls)
				execVerify(e, true, "none")
				ts := tamperings(r, e)
				keys := []string{"content", "created_at", "kind", "tags-add", "tags-value", "pubkey", "id-bit", "sig-bit", "pubkey-bit",
					"rehash-content", "rehash-pubkey", "rehash-pubkey-bit", "rehash-pubkey-edge", "sig-r-edge", "sig-s-edge", "sig-s-negated", "sig-other-message", "sig-other-key", "sig-length"}
				for k := 0; k < 4; k++ {
					name := pick(r, keys)
					if t, ok := ts[name]; ok {
						execVerify(t, false, name)
					}
				}
				if r.P(4) {
					// fields whose last byte is zero, with that byte cut off (a decoder that pads short input with
					// zeros would accept them): grind created_at until the id — or the signature — ends in "00"
					g := cloneEv(e)
					key := privKey(r.Intn(5))
					wantSig := r.P(40)
					for try := 0; try < 4000; try++ {
						g.CreatedAt = int64(1600000000 + r.Intn(100000000))
						signEvent(g, key)
						if (!wantSig && strings.HasSuffix(g.ID, "00")) || (wantSig && strings.HasSuffix(g.Sig, "00")) {
							c := cloneEv(g)
							if wantSig {
								c.Sig = c.Sig[:len(c.Sig)-2]
								execVerify(c, false, "sig-zero-byte-cut")
							} else {
								c.ID = c.ID[:len(c.ID)-2]
								execVerify(c, false, "id-zero-byte-cut")
							}
							break
						}
					}
				}
				if r.P(10) {
					// malformed hex / upper-case variants: model comparison only
					c := cloneEv(e)
					switch r.Intn(4) {
					case 0:
						c.ID = strings.ToUpper(c.ID)
					case 1:
						c.Sig = c.Sig[1:]
					case 2:
						c.Pubkey = "zz" + c.Pubkey[2:]
					default:
						c.ID = ""
					}
					execVerify(c, false, "malformed")
				}
				i += 4
			}
		},
		replay: func(lines []replayLine) {
			for _, l := range lines {
				switch l["op"] {
				case "ser":
					execSer(evFromJ(l["e"]), str(l["cls"]))
				case "verify":
					signed, _ := l["signed"].(bool)
					execVerify(evFromJ(l["e"]), signed, str(l["tamper"]))
				}
			}
		},
	}
}
