package main

import (
	"bufio"
	"encoding/json"
	"fmt"
	"os"
	"sort"

	"github.com/high-moctane/mocrelay"
)

// ---------------------------------------------------------------- PRNG (splitmix64)

type Rng struct{ s uint64 }

func NewRng(seed uint64) *Rng { return &Rng{s: seed*0x9E3779B97F4A7C15 + 0x1234567} }

func (r *Rng) U64() uint64 {
	r.s += 0x9E3779B97F4A7C15
	z := r.s
	z = (z ^ (z >> 30)) * 0xBF58476D1CE4E5B9
	z = (z ^ (z >> 27)) * 0x94D049BB133111EB
	return z ^ (z >> 31)
}
func (r *Rng) Intn(n int) int {
	if n <= 0 {
		return 0
	}
	return int(r.U64() % uint64(n))
}
func (r *Rng) Bool() bool          { return r.U64()&1 == 1 }
func (r *Rng) P(pct int) bool      { return r.Intn(100) < pct }
func (r *Rng) Range(a, b int) int  { return a + r.Intn(b-a+1) }
func pick[T any](r *Rng, xs []T) T { return xs[r.Intn(len(xs))] }

// ---------------------------------------------------------------- output

var out = bufio.NewWriterSize(os.Stdout, 1<<20)

func emit(v any) {
	b, err := json.Marshal(v)
	if err != nil {
		panic(err)
	}
	out.Write(b)
	out.WriteByte('\n')
}

type M = map[string]any

// ---------------------------------------------------------------- canonical encodings

func evJ(e *mocrelay.Event) any {
	if e == nil {
		return nil
	}
	tags := make([][]string, len(e.Tags))
	for i, t := range e.Tags {
		tags[i] = append([]string{}, t...)
	}
	return M{"id": e.ID, "pubkey": e.Pubkey, "created_at": e.CreatedAt, "kind": e.Kind,
		"tags": tags, "content": e.Content, "sig": e.Sig}
}

func evsJ(es []*mocrelay.Event) []any {
	r := make([]any, len(es))
	for i, e := range es {
		r[i] = evJ(e)
	}
	return r
}

func strsJ(s []string) any {
	if s == nil {
		return nil
	}
	return append([]string{}, s...)
}

func filterJ(f *mocrelay.ReqFilter) any {
	m := M{"ids": strsJ(f.IDs), "authors": strsJ(f.Authors)}
	if f.Kinds != nil {
		m["kinds"] = append([]int64{}, f.Kinds...)
	} else {
		m["kinds"] = nil
	}
	if f.Tags != nil {
		keys := make([]string, 0, len(f.Tags))
		for k := range f.Tags {
			keys = append(keys, k)
		}
		sort.Strings(keys)
		tl := make([]any, 0, len(keys))
		for _, k := range keys {
			vs := f.Tags[k]
			if vs == nil {
				vs = []string{}
			}
			tl = append(tl, []any{k, vs})
		}
		m["tags"] = tl
	} else {
		m["tags"] = nil
	}
	ip := func(p *int64) any {
		if p == nil {
			return nil
		}
		return *p
	}
	m["since"], m["until"], m["limit"] = ip(f.Since), ip(f.Until), ip(f.Limit)
	return m
}

func filtersJ(fs []*mocrelay.ReqFilter) []any {
	r := make([]any, len(fs))
	for i, f := range fs {
		r[i] = filterJ(f)
	}
	return r
}

// decode back (replay)

func evFromJ(v any) *mocrelay.Event {
	b, _ := json.Marshal(v)
	var raw struct {
		ID        string     `json:"id"`
		Pubkey    string     `json:"pubkey"`
		CreatedAt int64      `json:"created_at"`
		Kind      int64      `json:"kind"`
		Tags      [][]string `json:"tags"`
		Content   string     `json:"content"`
		Sig       string     `json:"sig"`
	}
	if err := json.Unmarshal(b, &raw); err != nil {
		panic(err)
	}
	e := &mocrelay.Event{ID: raw.ID, Pubkey: raw.Pubkey, CreatedAt: raw.CreatedAt, Kind: raw.Kind, Content: raw.Content, Sig: raw.Sig}
	e.Tags = make([]mocrelay.Tag, len(raw.Tags))
	for i, t := range raw.Tags {
		e.Tags[i] = mocrelay.Tag(t)
		if e.Tags[i] == nil {
			e.Tags[i] = mocrelay.Tag{}
		}
	}
	return e
}

func filterFromJ(v any) *mocrelay.ReqFilter {
	b, _ := json.Marshal(v)
	var raw struct {
		IDs     *[]string          `json:"ids"`
		Authors *[]string          `json:"authors"`
		Kinds   *[]int64           `json:"kinds"`
		Tags    *[]json.RawMessage `json:"tags"`
		Since   *int64             `json:"since"`
		Until   *int64             `json:"until"`
		Limit   *int64             `json:"limit"`
	}
	if err := json.Unmarshal(b, &raw); err != nil {
		panic(err)
	}
	f := &mocrelay.ReqFilter{Since: raw.Since, Until: raw.Until, Limit: raw.Limit}
	if raw.IDs != nil {
		f.IDs = append([]string{}, (*raw.IDs)...)
	}
	if raw.Authors != nil {
		f.Authors = append([]string{}, (*raw.Authors)...)
	}
	if raw.Kinds != nil {
		f.Kinds = append([]int64{}, (*raw.Kinds)...)
	}
	if raw.Tags != nil {
		f.Tags = map[string][]string{}
		for _, rm := range *raw.Tags {
			var pair []json.RawMessage
			json.Unmarshal(rm, &pair)
			var k string
			var vs []string
			json.Unmarshal(pair[0], &k)
			json.Unmarshal(pair[1], &vs)
			if vs == nil {
				vs = []string{}
			}
			f.Tags[k] = vs
		}
	}
	return f
}

func filtersFromJ(v any) []*mocrelay.ReqFilter {
	arr, _ := v.([]any)
	r := make([]*mocrelay.ReqFilter, len(arr))
	for i, x := range arr {
		r[i] = filterFromJ(x)
	}
	return r
}

func evsFromJ(v any) []*mocrelay.Event {
	arr, _ := v.([]any)
	r := make([]*mocrelay.Event, len(arr))
	for i, x := range arr {
		r[i] = evFromJ(x)
	}
	return r
}

// recoverStr runs f and reports a panic as a string ("" = no panic)
func recoverStr(f func()) (p string) {
	defer func() {
		if r := recover(); r != nil {
			p = fmt.Sprint(r)
		}
	}()
	f()
	return ""
}

// ---------------------------------------------------------------- universes

func hex64(prefix byte, n int) string {
	// 64 lower-case hex characters, deterministic, distinct per (prefix, n)
	s := fmt.Sprintf("%c%063x", prefix, n)
	return s
}

var authors = []string{hex64('a', 1), hex64('b', 2), hex64('c', 3), hex64('d', 4)}

func eventID(n int) string { return hex64('e', n) }
func sig128(n int) string  { return fmt.Sprintf("%0128x", n) }

// the usual kinds (three times each) and the two sides of every class boundary of NIP-01 (once each)
var kindsAll = []int64{1, 1, 7, 4, 0, 3, 10002, 20001, 30023, 30023, 30024, 5,
	1, 1, 7, 4, 0, 3, 10002, 20001, 30023, 30023, 30024, 5,
	1, 1, 7, 4, 0, 3, 10002, 20001, 30023, 30023, 30024, 5,
	2, 9999, 10000, 19999, 20000, 29999, 30000, 39999, 40000, 65535}
// replaceable or addressable per NIP-01 (the harness's own reading of the ranges, not the repo's EventType)
func isVersionedKind(k int64) bool {
	return k == 0 || k == 3 || (10000 <= k && k < 20000) || (30000 <= k && k < 40000)
}

// an earlier event to make a new version of: mostly one of a replaceable / addressable kind, and among those the
// kinds at a class boundary as often as the usual ones
func pickVersioned(r *Rng, made []*mocrelay.Event) *mocrelay.Event {
	if r.P(25) {
		return pick(r, made)
	}
	var edge, usual []*mocrelay.Event
	for _, e := range made {
		if !isVersionedKind(e.Kind) {
			continue
		}
		switch e.Kind {
		case 10000, 19999, 30000, 39999:
			edge = append(edge, e)
		default:
			usual = append(usual, e)
		}
	}
	if len(edge) > 0 && (len(usual) == 0 || r.P(40)) {
		return pick(r, edge)
	}
	if len(usual) > 0 {
		return pick(r, usual)
	}
	return pick(r, made)
}

var dvals = []string{"", "x", "y", "x:y"}
var tagVals = []string{"v1", "v2", "v3", ""}
var tagNames = []string{"e", "p", "t", "a", "d", "E", "zz"}

type replayLine = map[string]any

func readReplay(path string) []replayLine {
	f, err := os.Open(path)
	if err != nil {
		fmt.Fprintln(os.Stderr, "cannot open replay:", err)
		os.Exit(3)
	}
	defer f.Close()
	var lines []replayLine
	sc := bufio.NewScanner(f)
	sc.Buffer(make([]byte, 1<<20), 1<<26)
	for sc.Scan() {
		if len(sc.Bytes()) == 0 || sc.Bytes()[0] != '{' {
			continue
		}
		var m replayLine
		dec := json.NewDecoder(bytesReader(sc.Bytes()))
		dec.UseNumber()
		if err := dec.Decode(&m); err != nil {
			continue
		}
		lines = append(lines, m)
	}
	return lines
}
