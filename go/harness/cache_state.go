//go:build !verif_nostate

package main

import (
	"github.com/high-moctane/mocrelay"
)

func strsNN(l []string) []string { return append([]string{}, l...) }

// the implementation's internal tables (hook EventCache.VerifState), compared with the concrete model's
func cacheStateJ(c *mocrelay.EventCache) any {
	st := c.VerifState()
	evs := []any{}
	for _, e := range st.Evs {
		evs = append(evs, []any{e[0], e[1]})
	}
	tree := []any{}
	for _, e := range st.Tree {
		tree = append(tree, []any{e[0], e[1], e[2]})
	}
	index := []any{}
	for _, e := range st.Index {
		index = append(index, M{"w": e.What, "v": strsNN(e.Value), "ids": strsNN(e.IDs)})
	}
	deleted := []any{}
	for _, e := range st.Deleted {
		deleted = append(deleted, M{"key": e.EventKey, "pubkey": e.Pubkey, "ids": strsNN(e.IDs)})
	}
	return M{"evs": evs, "tree": tree, "index": index, "deleted": deleted}
}
