package main

import (
	"context"
	"fmt"
	"time"

	"github.com/high-moctane/mocrelay"
)

// C17 / C18: the real middlewares (through the real NewSimpleMiddleware plumbing) around a
// recording downstream handler.  Deterministic without timeouts: after every client message a
// barrier CLOSE is sent; the downstream handler answers it with a barrier NOTICE; everything the
// handler saw before the barrier CLOSE / the client saw before the barrier NOTICE belongs to the step.

type mwSpec struct {
	K        string
	N        int64
	From, To int64
	Fs       []*mocrelay.ReqFilter
}

func (s mwSpec) J() any {
	switch s.K {
	case "eventCreatedAt":
		return M{"k": s.K, "from": s.From, "to": s.To}
	case "allow", "deny":
		return M{"k": s.K, "fs": filtersJ(s.Fs)}
	}
	return M{"k": s.K, "n": s.N}
}

func mwSpecFromJ(v any) mwSpec {
	m := v.(map[string]any)
	s := mwSpec{K: str(m["k"])}
	s.N = jnum(m["n"])
	s.From, s.To = jnum(m["from"]), jnum(m["to"])
	if fs, ok := m["fs"]; ok {
		s.Fs = filtersFromJ(fs)
	}
	return s
}

func (s mwSpec) build() mocrelay.Middleware {
	switch s.K {
	case "maxSubs":
		return mocrelay.Middleware(mocrelay.NewMaxSubscriptionsMiddleware(int(s.N)))
	case "maxFilters":
		return mocrelay.Middleware(mocrelay.NewMaxReqFiltersMiddleware(int(s.N)))
	case "maxLimit":
		return mocrelay.Middleware(mocrelay.NewMaxLimitMiddleware(int(s.N)))
	case "maxSubIDLen":
		return mocrelay.Middleware(mocrelay.NewMaxSubIDLengthMiddleware(int(s.N)))
	case "maxEventTags":
		return mocrelay.Middleware(mocrelay.NewMaxEventTagsMiddleware(int(s.N)))
	case "maxContentLen":
		return mocrelay.Middleware(mocrelay.NewMaxContentLengthMiddleware(int(s.N)))
	case "createdAtLower":
		return mocrelay.Middleware(mocrelay.NewCreatedAtLowerLimitMiddleware(s.N))
	case "createdAtUpper":
		return mocrelay.Middleware(mocrelay.NewCreatedAtUpperLimitMiddleware(s.N))
	case "eventCreatedAt":
		return mocrelay.Middleware(mocrelay.NewEventCreatedAtMiddleware(time.Duration(s.From), time.Duration(s.To)))
	case "allow":
		return mocrelay.Middleware(mocrelay.NewRecvEventAllowFilterMiddleware(mocrelay.NewReqFiltersEventLimitMatcher(s.Fs)))
	case "deny":
		return mocrelay.Middleware(mocrelay.NewRecvEventDenyFilterMiddleware(mocrelay.NewReqFiltersEventLimitMatcher(s.Fs)))
	case "recvUnique":
		return mocrelay.Middleware(mocrelay.NewRecvEventUniqueFilterMiddleware(int(s.N)))
	case "sendUnique":
		return mocrelay.Middleware(mocrelay.NewSendEventUniqueFilterMiddleware(int(s.N)))
	}
	panic("unknown middleware " + s.K)
}

type mwStep struct {
	Dir string // "c" | "s"
	C   mocrelay.ClientMsg
	S   mocrelay.ServerMsg
}

// recording downstream handler
type recHandler struct {
	got  chan []mocrelay.ClientMsg // batch seen before a barrier CLOSE
	emit chan mocrelay.ServerMsg
}

func (h *recHandler) ServeNostr(ctx context.Context, send chan<- mocrelay.ServerMsg, recv <-chan mocrelay.ClientMsg) error {
	var batch []mocrelay.ClientMsg
	for {
		select {
		case <-ctx.Done():
			return ctx.Err()
		case m, ok := <-recv:
			if !ok {
				return mocrelay.ErrRecvClosed
			}
			if id, isB := isBarrierClose(m); isB {
				select {
				case h.got <- batch:
				case <-ctx.Done():
					return ctx.Err()
				}
				batch = nil
				select {
				case send <- mocrelay.NewServerNoticeMsg(id):
				case <-ctx.Done():
					return ctx.Err()
				}
			} else {
				batch = append(batch, m)
			}
		case m := <-h.emit:
			select {
			case send <- m:
			case <-ctx.Done():
				return ctx.Err()
			}
		}
	}
}

// session: one ServeNostr call of a composed handler
type mwSession struct {
	cancel context.CancelFunc
	send   chan mocrelay.ServerMsg
	recv   chan mocrelay.ClientMsg
	rec    *recHandler
	done   chan error
	nb     int
}

func startSession(h func(mocrelay.Handler) mocrelay.Handler) *mwSession {
	rec := &recHandler{got: make(chan []mocrelay.ClientMsg), emit: make(chan mocrelay.ServerMsg)}
	ctx, cancel := context.WithCancel(context.Background())
	s := &mwSession{cancel: cancel, send: make(chan mocrelay.ServerMsg), recv: make(chan mocrelay.ClientMsg), rec: rec, done: make(chan error, 1)}
	handler := h(rec)
	go func() { s.done <- handler.ServeNostr(ctx, s.send, s.recv) }()
	return s
}

func (s *mwSession) stop() {
	s.cancel()
	select {
	case <-s.done:
	case <-time.After(5 * time.Second):
	}
}

var errStall = fmt.Errorf("stalled")

// steps of this run that ran into their 10 s limit: after a few the sweeps stop (every further one would wait again)
var mwStalls int

// collect server messages on the client side until the barrier NOTICE `id`
func (s *mwSession) untilBarrier(id string) ([]mocrelay.ServerMsg, error) {
	var got []mocrelay.ServerMsg
	to := time.After(10 * time.Second)
	for {
		select {
		case m := <-s.send:
			if b, ok := isBarrierNotice(m); ok && b == id {
				return got, nil
			}
			got = append(got, m)
		case <-to:
			return got, errStall
		}
	}
}

func (s *mwSession) clientStep(m mocrelay.ClientMsg) (now int64, fwd []mocrelay.ClientMsg, reply []mocrelay.ServerMsg, err error) {
	s.nb++
	id := fmt.Sprintf("%s%d", barrierPrefix, s.nb)
	now = time.Now().UnixNano()
	to := time.After(10 * time.Second)
	// the client side must keep draining `send` while it pushes into `recv`
	var early []mocrelay.ServerMsg
	push := func(cm mocrelay.ClientMsg) error {
		for {
			select {
			case s.recv <- cm:
				return nil
			case sm := <-s.send:
				early = append(early, sm)
			case <-to:
				return errStall
			}
		}
	}
	if err = push(m); err != nil {
		return
	}
	if err = push(&mocrelay.ClientCloseMsg{SubscriptionID: id}); err != nil {
		return
	}
	// downstream reports what it saw before the barrier
	gotBatch := false
	for !gotBatch {
		select {
		case fwd = <-s.rec.got:
			gotBatch = true
		case sm := <-s.send:
			early = append(early, sm)
		case <-to:
			err = errStall
			return
		}
	}
	rest, e := s.untilBarrier(id)
	reply = append(early, rest...)
	err = e
	return
}

func (s *mwSession) serverStep(m mocrelay.ServerMsg) (got []mocrelay.ServerMsg, err error) {
	s.nb++
	id := fmt.Sprintf("%s%d", barrierPrefix, s.nb)
	to := time.After(10 * time.Second)
	var early []mocrelay.ServerMsg
	push := func(sm mocrelay.ServerMsg) error {
		for {
			select {
			case s.rec.emit <- sm:
				return nil
			case x := <-s.send:
				early = append(early, x)
			case <-to:
				return errStall
			}
		}
	}
	if err = push(m); err != nil {
		return
	}
	if err = push(mocrelay.NewServerNoticeMsg(id)); err != nil {
		return
	}
	for _, x := range early {
		if b, ok := isBarrierNotice(x); ok && b == id {
			return early[:len(early)-1], nil
		}
	}
	rest, e := s.untilBarrier(id)
	return append(early, rest...), e
}

func one[T any](xs []T, j func(T) any) any {
	if len(xs) == 0 {
		return nil
	}
	if len(xs) == 1 {
		return j(xs[0])
	}
	all := make([]any, len(xs))
	for i, x := range xs {
		all[i] = j(x)
	}
	return M{"t": "MULTIPLE", "all": all}
}

func runMwSteps(s *mwSession, steps []mwStep) []any {
	var outs []any
	for _, st := range steps {
		if st.Dir == "c" {
			now, fwd, reply, err := s.clientStep(st.C)
			o := M{"dir": "c", "now": now, "msg": cmsgJ(st.C), "out": M{"fwd": one(fwd, func(m mocrelay.ClientMsg) any { return cmsgJ(m) }), "reply": one(reply, func(m mocrelay.ServerMsg) any { return smsgJ(m) })}}
			if err != nil {
				o["stalled"] = true
				mwStalls++
			}
			outs = append(outs, o)
			if err != nil {
				break // the session is stuck: its remaining steps would only wait
			}
		} else {
			got, err := s.serverStep(st.S)
			o := M{"dir": "s", "msg": smsgJ(st.S), "out": M{"got": one(got, func(m mocrelay.ServerMsg) any { return smsgJ(m) })}}
			if err != nil {
				o["stalled"] = true
				mwStalls++
			}
			outs = append(outs, o)
			if err != nil {
				break
			}
		}
	}
	return outs
}

func composeStack(stack []mwSpec) func(mocrelay.Handler) mocrelay.Handler {
	mws := make([]mocrelay.Middleware, len(stack))
	for i, s := range stack {
		mws[i] = s.build()
	}
	return func(h mocrelay.Handler) mocrelay.Handler {
		for i := len(mws) - 1; i >= 0; i-- { // stack is outermost first: wrap innermost first
			h = mws[i](h)
		}
		return h
	}
}

// ---- generators

func genMwMsg(r *Rng, g *EvGen, stack []mwSpec, nowSec int64) mocrelay.ClientMsg {
	subs := []string{"s", "t", "uu", "vvvv", "wwwwwwww", ""} // the empty id is legal on the wire
	switch r.Intn(10) {
	case 0, 1, 2, 3:
		e := g.Event()
		// created_at relative to now, with a 5 s safety margin around every boundary in the stack
		offs := []int64{-100000, -3600, -600, -60, -30, 0, 30, 60, 600, 3600}
		e.CreatedAt = nowSec + pick(r, offs)
		for _, s := range stack {
			switch s.K {
			case "createdAtLower":
				if r.P(50) {
					e.CreatedAt = nowSec - s.N + pick(r, []int64{-6, 6, 60, -60})
				}
			case "createdAtUpper":
				if r.P(50) {
					e.CreatedAt = nowSec + s.N + pick(r, []int64{-6, 6, 60, -60})
				}
			case "eventCreatedAt":
				if r.P(50) {
					e.CreatedAt = nowSec + pick(r, []int64{s.From / 1e9, s.To / 1e9}) + pick(r, []int64{-6, 6})
				}
			case "maxEventTags":
				if r.P(60) {
					n := int(s.N) + r.Range(-1, 1)
					e.Tags = []mocrelay.Tag{}
					for i := 0; i < n && mwStalls < 4; i++ {
						e.Tags = append(e.Tags, mocrelay.Tag{"t", fmt.Sprint(i)})
					}
				}
			case "maxContentLen":
				if r.P(60) {
					n := int(s.N) + r.Range(-1, 1)
					c := ""
					for len(c) < n {
						if r.P(20) && len(c)+3 <= n {
							c += "あ" // 3 bytes: len() counts bytes
						} else {
							c += "x"
						}
					}
					e.Content = c
				}
			}
		}
		if r.P(15) && len(g.made) > 1 {
			prev := g.made[r.Intn(len(g.made)-1)]
			e.ID = prev.ID // repeated id (unique filters)
		}
		return &mocrelay.ClientEventMsg{Event: e}
	case 4, 5, 6:
		fs := g.Filters()
		for _, s := range stack {
			switch s.K {
			case "maxFilters":
				if r.P(60) {
					n := int(s.N) + r.Range(-1, 1)
					if n < 1 {
						n = 1
					}
					fs = nil
					for i := 0; i < n && mwStalls < 4; i++ {
						fs = append(fs, g.Filter())
					}
				}
			case "maxLimit":
				if r.P(60) {
					f := pick(r, fs)
					f.Limit = ptr(s.N + int64(r.Range(-1, 1)))
				}
			}
		}
		sub := pick(r, subs)
		if r.P(12) {
			sub = "" // the empty id is an id like any other: it takes a slot, it is closed by CLOSE ""
		}
		if r.P(30) {
			return &mocrelay.ClientCountMsg{SubscriptionID: sub, ReqFilters: fs}
		}
		return &mocrelay.ClientReqMsg{SubscriptionID: sub, ReqFilters: fs}
	case 7, 8:
		return &mocrelay.ClientCloseMsg{SubscriptionID: pick(r, subs)}
	default:
		return &mocrelay.ClientAuthMsg{Event: g.Event()}
	}
}

func genServerMsg(r *Rng, g *EvGen) mocrelay.ServerMsg {
	switch r.Intn(8) {
	case 0, 1, 2:
		var e *mocrelay.Event
		if len(g.made) > 0 && r.P(50) {
			e = pick(r, g.made)
		} else {
			e = g.Event()
		}
		return mocrelay.NewServerEventMsg(pick(r, []string{"s", "t"}), e)
	case 3:
		return mocrelay.NewServerEOSEMsg("s")
	case 4:
		return mocrelay.NewServerOKMsg(eventID(r.Intn(5)), r.Bool(), pick(r, []string{"", "duplicate: ", "blocked: "}), "m")
	case 5:
		return mocrelay.NewServerClosedMsg("s", "", "bye")
	case 6:
		return mocrelay.NewServerCountMsg("t", uint64(r.Intn(9)), nil)
	default:
		return mocrelay.NewServerNoticeMsg("hello")
	}
}

var statelessKinds = []string{"maxFilters", "maxLimit", "maxSubIDLen", "maxEventTags", "maxContentLen", "createdAtLower", "createdAtUpper", "eventCreatedAt", "allow", "deny"}

func genMwSpec(r *Rng, g *EvGen, kinds []string) mwSpec {
	k := pick(r, kinds)
	s := mwSpec{K: k}
	switch k {
	case "maxFilters", "maxSubs", "recvUnique", "sendUnique":
		s.N = int64(r.Range(1, 4))
	case "maxLimit":
		s.N = int64(pick(r, []int{1, 2, 5, 100}))
	case "maxSubIDLen":
		s.N = int64(pick(r, []int{1, 2, 4, 8}))
	case "maxEventTags":
		s.N = int64(r.Range(1, 4))
	case "maxContentLen":
		s.N = int64(pick(r, []int{1, 3, 4, 8}))
	case "createdAtLower", "createdAtUpper":
		s.N = int64(pick(r, []int{30, 60, 600, 3600}))
	case "eventCreatedAt":
		s.From = -int64(pick(r, []int{30, 600, 3600})) * 1e9
		s.To = int64(pick(r, []int{30, 600, 3600})) * 1e9
	case "allow", "deny":
		s.Fs = g.Filters()
	}
	return s
}

func genSteps(r *Rng, g *EvGen, stack []mwSpec, n int) []mwStep {
	var steps []mwStep
	nowSec := time.Now().Unix()
	for i := 0; i < n && mwStalls < 4; i++ {
		if r.P(75) {
			steps = append(steps, mwStep{Dir: "c", C: genMwMsg(r, g, stack, nowSec)})
		} else {
			steps = append(steps, mwStep{Dir: "s", S: genServerMsg(r, g)})
		}
	}
	return steps
}

func stackJ(stack []mwSpec) []any {
	r := make([]any, len(stack))
	for i, s := range stack {
		r[i] = s.J()
	}
	return r
}

func stepsInJ(steps []mwStep) []any {
	r := make([]any, len(steps))
	for i, s := range steps {
		if s.Dir == "c" {
			r[i] = M{"dir": "c", "msg": cmsgJ(s.C)}
		} else {
			r[i] = M{"dir": "s", "msg": smsgJ(s.S)}
		}
	}
	return r
}

func stepsFromJ(v any) []mwStep {
	arr, _ := v.([]any)
	var r []mwStep
	for _, x := range arr {
		m := x.(map[string]any)
		if str(m["dir"]) == "c" {
			r = append(r, mwStep{Dir: "c", C: cmsgFromJ(m["msg"])})
		} else {
			r = append(r, mwStep{Dir: "s", S: smsgFromJ(m["msg"])})
		}
	}
	return r
}

func execMwCase(stack []mwSpec, steps []mwStep) {
	var outs []any
	// the constructors validate their parameters by panicking: every generated parameter is a legal one
	p := recoverStr(func() {
		s := startSession(composeStack(stack))
		outs = runMwSteps(s, steps)
		s.stop()
	})
	line := M{"op": "mw", "stack": stackJ(stack), "steps": outs}
	if p != "" {
		line["buildPanic"] = true
		line["panicText"] = p
		line["steps"] = []any{}
	}
	emit(line)
}

type nip11In struct {
	Nil bool
	Lim *mocrelay.NIP11Limitation
}

func (d nip11In) J() any {
	m := M{"nil": d.Nil, "limitation": nil}
	if d.Lim != nil {
		l := d.Lim
		m["limitation"] = M{"max_subscriptions": l.MaxSubscriptions, "max_filters": l.MaxFilters, "max_limit": l.MaxLimit,
			"max_event_tags": l.MaxEventTags, "max_content_length": l.MaxContentLength,
			"created_at_lower_limit": l.CreatedAtLowerLimit, "created_at_upper_limit": l.CreatedAtUpperLimit}
	}
	return m
}

func nip11FromJ(v any) nip11In {
	m := v.(map[string]any)
	d := nip11In{}
	d.Nil, _ = m["nil"].(bool)
	if l, ok := m["limitation"].(map[string]any); ok {
		d.Lim = &mocrelay.NIP11Limitation{MaxSubscriptions: int(jnum(l["max_subscriptions"])), MaxFilters: int(jnum(l["max_filters"])),
			MaxLimit: int(jnum(l["max_limit"])), MaxEventTags: int(jnum(l["max_event_tags"])), MaxContentLength: int(jnum(l["max_content_length"])),
			CreatedAtLowerLimit: jnum(l["created_at_lower_limit"]), CreatedAtUpperLimit: jnum(l["created_at_upper_limit"])}
	}
	return d
}

func (d nip11In) stackForGen() []mwSpec {
	// only used to steer the message generator towards the boundaries
	var st []mwSpec
	if d.Lim == nil {
		return st
	}
	l := d.Lim
	add := func(k string, n int64) {
		if n != 0 {
			st = append(st, mwSpec{K: k, N: n})
		}
	}
	add("createdAtUpper", l.CreatedAtUpperLimit)
	add("createdAtLower", l.CreatedAtLowerLimit)
	add("maxContentLen", int64(l.MaxContentLength))
	add("maxEventTags", int64(l.MaxEventTags))
	add("maxLimit", int64(l.MaxLimit))
	add("maxFilters", int64(l.MaxFilters))
	add("maxSubs", int64(l.MaxSubscriptions))
	return st
}

func execNip11Case(d nip11In, steps []mwStep) {
	var doc *mocrelay.NIP11
	if !d.Nil {
		doc = &mocrelay.NIP11{Name: "x", Limitation: d.Lim}
	}
	var outs []any
	p := recoverStr(func() {
		mw := mocrelay.BuildMiddlewareFromNIP11(doc)
		// applying the middleware is where a missing limitation block is dereferenced
		probe := mw(&recHandler{})
		_ = probe
		s := startSession(func(h mocrelay.Handler) mocrelay.Handler { return mw(h) })
		outs = runMwSteps(s, steps)
		s.stop()
	})
	line := M{"op": "mw", "nip11": d.J(), "steps": outs, "stepsIn": stepsInJ(steps)}
	if p != "" {
		line["buildPanic"] = true
		line["steps"] = []any{}
	}
	emit(line)
}

func genNip11(r *Rng) nip11In {
	switch r.Intn(10) {
	case 0:
		return nip11In{Nil: true}
	case 1, 2:
		return nip11In{} // document without a limitation block
	}
	l := &mocrelay.NIP11Limitation{}
	if r.P(50) {
		l.MaxSubscriptions = r.Range(1, 3)
	}
	if r.P(50) {
		l.MaxFilters = r.Range(1, 3)
	}
	if r.P(50) {
		l.MaxLimit = pick(r, []int{1, 5, 100})
	}
	if r.P(50) {
		l.MaxEventTags = r.Range(1, 3)
	}
	if r.P(50) {
		l.MaxContentLength = pick(r, []int{3, 8})
	}
	if r.P(50) {
		l.CreatedAtLowerLimit = int64(pick(r, []int{60, 3600}))
	}
	if r.P(50) {
		l.CreatedAtUpperLimit = int64(pick(r, []int{60, 3600}))
	}
	// fields the builder must ignore
	l.MaxSubIDLength = r.Intn(3)
	l.MaxMessageLength = r.Intn(100)
	return nip11In{Lim: l}
}

func init() {
	props["C17"] = propRunner{
		gen: func(r *Rng, n int, tier string) {
			g := &EvGen{r: r}
			for i := 0; i < n && mwStalls < 4; i++ {
				if r.P(35) {
					d := genNip11(r)
					execNip11Case(d, genSteps(r, g, d.stackForGen(), r.Range(4, 14)))
				} else {
					var stack []mwSpec
					for k := r.Range(1, 3); k > 0; k-- {
						stack = append(stack, genMwSpec(r, g, statelessKinds))
					}
					execMwCase(stack, genSteps(r, g, stack, r.Range(3, 10)))
				}
				if len(g.made) > 30 {
					g.made = g.made[15:]
				}
			}
		},
		replay: mwReplay,
	}
}

func mwReplay(lines []replayLine) {
	for _, l := range lines {
		if l["op"] != "mw" {
			continue
		}
		if d, ok := l["nip11"]; ok && d != nil {
			in := l["stepsIn"]
			if in == nil {
				in = l["steps"]
			}
			execNip11Case(nip11FromJ(d), stepsFromJ(in))
			continue
		}
		arr, _ := l["stack"].([]any)
		var stack []mwSpec
		for _, x := range arr {
			stack = append(stack, mwSpecFromJ(x))
		}
		execMwCase(stack, stepsFromJ(l["steps"]))
	}
}
