//go:build verif_nostate

package main

import (
	"github.com/high-moctane/mocrelay"
)

// the hook EventCache.VerifState does not compile against this tree: the internal tables are not compared
func cacheStateJ(c *mocrelay.EventCache) any { return nil }
