package main

import (
	"strings"

	"github.com/high-moctane/mocrelay"
)

// canonical encodings of client/server messages (match MocModel/Wire.lean)

func cmsgJ(m mocrelay.ClientMsg) any {
	switch m := m.(type) {
	case *mocrelay.ClientEventMsg:
		return M{"t": "EVENT", "event": evJ(m.Event)}
	case *mocrelay.ClientReqMsg:
		return M{"t": "REQ", "sub": m.SubscriptionID, "filters": filtersJ(m.ReqFilters)}
	case *mocrelay.ClientCloseMsg:
		return M{"t": "CLOSE", "sub": m.SubscriptionID}
	case *mocrelay.ClientAuthMsg:
		return M{"t": "AUTH", "event": evJ(m.Event)}
	case *mocrelay.ClientCountMsg:
		return M{"t": "COUNT", "sub": m.SubscriptionID, "filters": filtersJ(m.ReqFilters)}
	}
	return nil
}

func smsgJ(m mocrelay.ServerMsg) any {
	switch m := m.(type) {
	case *mocrelay.ServerEOSEMsg:
		return M{"t": "EOSE", "sub": m.SubscriptionID}
	case *mocrelay.ServerEventMsg:
		return M{"t": "EVENT", "sub": m.SubscriptionID, "event": evJ(m.Event)}
	case *mocrelay.ServerNoticeMsg:
		return M{"t": "NOTICE", "msg": m.Message}
	case *mocrelay.ServerOKMsg:
		return M{"t": "OK", "id": m.EventID, "accepted": m.Accepted, "prefix": m.MsgPrefix, "msg": m.Msg}
	case *mocrelay.ServerAuthMsg:
		return M{"t": "AUTH", "challenge": m.Challenge}
	case *mocrelay.ServerCountMsg:
		var ap any
		if m.Approximate != nil {
			ap = *m.Approximate
		}
		return M{"t": "COUNT", "sub": m.SubscriptionID, "count": m.Count, "approx": ap}
	case *mocrelay.ServerClosedMsg:
		return M{"t": "CLOSED", "sub": m.SubscriptionID, "prefix": m.MsgPrefix, "msg": m.Msg}
	}
	return nil
}

func str(v any) string { s, _ := v.(string); return s }

func cmsgFromJ(v any) mocrelay.ClientMsg {
	m, _ := v.(map[string]any)
	switch str(m["t"]) {
	case "EVENT":
		return &mocrelay.ClientEventMsg{Event: evFromJ(m["event"])}
	case "REQ":
		return &mocrelay.ClientReqMsg{SubscriptionID: str(m["sub"]), ReqFilters: filtersFromJ(m["filters"])}
	case "CLOSE":
		return &mocrelay.ClientCloseMsg{SubscriptionID: str(m["sub"])}
	case "AUTH":
		return &mocrelay.ClientAuthMsg{Event: evFromJ(m["event"])}
	case "COUNT":
		return &mocrelay.ClientCountMsg{SubscriptionID: str(m["sub"]), ReqFilters: filtersFromJ(m["filters"])}
	}
	panic("bad client msg json")
}

func jnum(v any) int64 {
	switch x := v.(type) {
	case float64:
		return int64(x)
	case interface{ Int64() (int64, error) }:
		n, _ := x.Int64()
		return n
	}
	return 0
}

func smsgFromJ(v any) mocrelay.ServerMsg {
	m, _ := v.(map[string]any)
	switch str(m["t"]) {
	case "EOSE":
		return mocrelay.NewServerEOSEMsg(str(m["sub"]))
	case "EVENT":
		return mocrelay.NewServerEventMsg(str(m["sub"]), evFromJ(m["event"]))
	case "NOTICE":
		return mocrelay.NewServerNoticeMsg(str(m["msg"]))
	case "OK":
		acc, _ := m["accepted"].(bool)
		return mocrelay.NewServerOKMsg(str(m["id"]), acc, str(m["prefix"]), str(m["msg"]))
	case "AUTH":
		return &mocrelay.ServerAuthMsg{Challenge: str(m["challenge"])}
	case "COUNT":
		var ap *bool
		if b, ok := m["approx"].(bool); ok {
			ap = &b
		}
		return mocrelay.NewServerCountMsg(str(m["sub"]), uint64(jnum(m["count"])), ap)
	case "CLOSED":
		return mocrelay.NewServerClosedMsg(str(m["sub"]), str(m["prefix"]), str(m["msg"]))
	}
	panic("bad server msg json")
}

const barrierPrefix = "__barrier__"

func isBarrierClose(m mocrelay.ClientMsg) (string, bool) {
	if c, ok := m.(*mocrelay.ClientCloseMsg); ok && strings.HasPrefix(c.SubscriptionID, barrierPrefix) {
		return c.SubscriptionID, true
	}
	return "", false
}

func isBarrierNotice(m mocrelay.ServerMsg) (string, bool) {
	if n, ok := m.(*mocrelay.ServerNoticeMsg); ok && strings.HasPrefix(n.Message, barrierPrefix) {
		return n.Message, true
	}
	return "", false
}
