package main

import (
	"bytes"
	"context"
	"database/sql"
	"encoding/hex"
	"fmt"
	"strings"
	"time"

	"github.com/high-moctane/mocrelay"
	"github.com/high-moctane/mocrelay/handler/sqlite"
	_ "github.com/mattn/go-sqlite3"
)

// C16: reply streams of the real CacheHandler / SQLiteHandler, in order, message by message; Dump/Restore.
// Step delimiting without timeouts: every client message is followed by a barrier COUNT whose reply
// (one COUNT with the barrier id) closes the step, because a SimpleHandler serves messages one at a time.

type plainSession struct {
	cancel context.CancelFunc
	send   chan mocrelay.ServerMsg
	recv   chan mocrelay.ClientMsg
	done   chan error
	nb     int
}

func startPlain(h mocrelay.Handler) *plainSession {
	ctx, cancel := context.WithCancel(context.Background())
	s := &plainSession{cancel: cancel, send: make(chan mocrelay.ServerMsg), recv: make(chan mocrelay.ClientMsg), done: make(chan error, 1)}
	go func() { s.done <- h.ServeNostr(ctx, s.send, s.recv) }()
	return s
}

func (s *plainSession) stop() {
	s.cancel()
	select {
	case <-s.done:
	case <-time.After(5 * time.Second):
	}
}

// steps that ran into the 20 s limit in this run: after a few nothing is waited for any more (the sweep ends)
var c16Stalls int

func (s *plainSession) step(m mocrelay.ClientMsg) (replies []mocrelay.ServerMsg, stalled bool) {
	if c16Stalls >= 3 {
		return nil, true
	}
	defer func() {
		if stalled {
			c16Stalls++
		}
	}()
	s.nb++
	id := fmt.Sprintf("%s%d", barrierPrefix, s.nb)
	to := time.After(20 * time.Second)
	push := func(cm mocrelay.ClientMsg) bool {
		for {
			select {
			case s.recv <- cm:
				return true
			case sm := <-s.send:
				replies = append(replies, sm)
			case <-to:
				return false
			}
		}
	}
	if !push(m) || !push(&mocrelay.ClientCountMsg{SubscriptionID: id, ReqFilters: []*mocrelay.ReqFilter{{}}}) {
		return replies, true
	}
	for {
		select {
		case sm := <-s.send:
			if c, ok := sm.(*mocrelay.ServerCountMsg); ok && c.SubscriptionID == id {
				return replies, false
			}
			replies = append(replies, sm)
		case <-to:
			return replies, true
		}
	}
}

func smsgsJ(ms []mocrelay.ServerMsg) []any {
	r := make([]any, len(ms))
	for i, m := range ms {
		r[i] = smsgJ(m)
	}
	return r
}

func genC16Msg(r *Rng, g *EvGen, offered *[]*mocrelay.Event, shown []*mocrelay.Event) mocrelay.ClientMsg {
	switch r.Intn(12) {
	case 0, 1, 2, 3, 4, 5:
		var e *mocrelay.Event
		switch {
		case len(*offered) > 0 && r.P(15):
			e = cloneEv(pick(r, *offered))
		case len(*offered) > 0 && r.P(20):
			base := pick(r, *offered)
			e = g.Event()
			e.Pubkey, e.Kind, e.CreatedAt = base.Pubkey, base.Kind, base.CreatedAt+int64(r.Range(-1, 1))
			e.Tags = cloneEv(base).Tags
		case r.P(20):
			e = g.Deletion()
		default:
			e = g.Event()
		}
		*offered = append(*offered, e)
		return &mocrelay.ClientEventMsg{Event: e}
	case 6, 7, 8:
		var fs []*mocrelay.ReqFilter
		for n := pick(r, []int{1, 1, 2}); n > 0; n-- {
			fs = append(fs, g.aimedFilter(shown))
		}
		if r.P(12) {
			// several filters WITHOUT ids / authors / kinds / tags: windows and limits only (each filter has its own
			// limit and its own window; one being exhausted must not open the door for the others' leftovers)
			fs = nil
			for n := r.Range(2, 3); n > 0; n-- {
				f := &mocrelay.ReqFilter{Limit: ptr(int64(r.Range(1, 2)))}
				switch r.Intn(3) {
				case 0:
					f.Until = ptr(int64(r.Range(1, 12)))
				case 1:
					f.Since = ptr(int64(r.Range(1, 12)))
				}
				fs = append(fs, f)
			}
		}
		return &mocrelay.ClientReqMsg{SubscriptionID: pick(r, []string{"s", "t", "s", "t", ""}), ReqFilters: fs}
	case 9:
		return &mocrelay.ClientCountMsg{SubscriptionID: pick(r, []string{"c", "c", "s", ""}), ReqFilters: g.Filters()}
	case 10:
		return &mocrelay.ClientCloseMsg{SubscriptionID: pick(r, []string{"s", "s", "t", "", "c"})}
	default:
		return &mocrelay.ClientAuthMsg{Event: g.Event()}
	}
}

func reqAll(s *plainSession) []*mocrelay.Event {
	rs, _ := s.step(&mocrelay.ClientReqMsg{SubscriptionID: "all", ReqFilters: []*mocrelay.ReqFilter{{}}})
	var evs []*mocrelay.Event
	for _, m := range rs {
		if e, ok := m.(*mocrelay.ServerEventMsg); ok {
			evs = append(evs, e.Event)
		}
	}
	return evs
}

func eventsOf(rs []mocrelay.ServerMsg) []*mocrelay.Event {
	evs := []*mocrelay.Event{}
	for _, m := range rs {
		if e, ok := m.(*mocrelay.ServerEventMsg); ok {
			evs = append(evs, e.Event)
		}
	}
	return evs
}

func c16CacheHistory(r *Rng, g *EvGen, msgs []mocrelay.ClientMsg, cap int, queries [][]*mocrelay.ReqFilter, gen bool, n int) {
	h := mocrelay.NewCacheHandler(cap)
	s := startPlain(h)
	emit(M{"op": "reset", "cap": cap})
	var offered []*mocrelay.Event
	var shown []*mocrelay.Event
	if gen {
		g.made = nil
	}
	for i := 0; (gen && i < n) || (!gen && i < len(msgs)); i++ {
		var m mocrelay.ClientMsg
		if gen {
			m = genC16Msg(r, g, &offered, shown)
		} else {
			m = msgs[i]
		}
		rs, stalled := s.step(m)
		emit(M{"op": "msg", "msg": cmsgJ(m), "out": smsgsJ(rs), "stalled": stalled})
		if gen {
			if _, ok := m.(*mocrelay.ClientEventMsg); ok {
				shown = reqAll(s)
			}
		}
	}
	// dump / restore
	var buf bytes.Buffer
	if err := h.Dump(&buf); err != nil {
		panic(err)
	}
	dumped := reqAll(s)
	h2 := mocrelay.NewCacheHandler(cap)
	if err := h2.Restore(bytes.NewReader(buf.Bytes())); err != nil {
		panic(err)
	}
	s2 := startPlain(h2)
	if gen {
		queries = [][]*mocrelay.ReqFilter{{{}}}
		for k := 0; k < 6; k++ {
			var fs []*mocrelay.ReqFilter
			for n := pick(r, []int{1, 1, 2}); n > 0; n-- {
				fs = append(fs, g.aimedFilter(dumped))
			}
			queries = append(queries, fs)
		}
	}
	var qs []any
	for _, fs := range queries {
		a, _ := s.step(&mocrelay.ClientReqMsg{SubscriptionID: "q", ReqFilters: fs})
		b, _ := s2.step(&mocrelay.ClientReqMsg{SubscriptionID: "q", ReqFilters: fs})
		qs = append(qs, M{"fs": filtersJ(fs), "orig": evsJ(eventsOf(a)), "restored": evsJ(eventsOf(b))})
	}
	if dumped == nil {
		dumped = []*mocrelay.Event{}
	}
	emit(M{"op": "dumprestore", "out": M{"dump": evsJ(dumped), "queries": qs}})
	s.stop()
	s2.stop()
}

// barrier waits that ran into their 5 s limit in this run
var c16SyncTimeouts int

// batching of the SQLite handler's insert worker: (events per batch, flush interval in ms)
var c16Bulk = [][2]int{{1, 3600000}, {1, 3600000}, {3, 15}, {50, 8}, {2, 5}}

func c16SqliteHistory(r *Rng, g *EvGen, msgs []mocrelay.ClientMsg, gen bool, n int, bulk [2]int) {
	db, err := sql.Open("sqlite3", ":memory:")
	if err != nil {
		panic(err)
	}
	db.SetMaxOpenConns(1)
	defer db.Close()
	ctx, cancel := context.WithCancel(context.Background())
	defer cancel()
	if bulk[0] == 0 {
		bulk = c16Bulk[0]
	}
	h, err := sqlite.NewSQLiteHandler(ctx, db, &sqlite.SQLiteHandlerOption{EventBulkInsertNum: bulk[0], EventBulkInsertDur: time.Duration(bulk[1]) * time.Millisecond, MaxLimit: sqlite.NoLimit})
	if err != nil {
		panic(err)
	}
	s := startPlain(h)
	var offered []*mocrelay.Event
	emit(M{"op": "reset", "cap": 0, "bulk": []int{bulk[0], bulk[1]}})
	// The handler stores events through an asynchronous worker (one goroutine, in arrival order, one event per
	// batch with this option).  Before every REQ a barrier EVENT (unique regular event of a private author) is
	// sent and the harness waits until its row is in the table: every earlier EVENT has then been processed, so
	// the REQ's answer can be judged against the history.
	nbar := 0
	lastBarrier := ""
	waitStored := func(id string) bool {
		if c16SyncTimeouts >= 3 {
			return false // the worker of this tree is too slow to wait for: REQ contents are no longer judged
		}
		raw, _ := hex.DecodeString(id)
		deadline := time.Now().Add(5 * time.Second)
		for t := 0; time.Now().Before(deadline); t++ {
			var k int
			if err := db.QueryRow("select count(*) from events where id = ?", raw).Scan(&k); err == nil && k > 0 {
				return true
			}
			time.Sleep(time.Duration(1+t/50) * time.Millisecond)
		}
		c16SyncTimeouts++
		return false
	}
	send := func(m mocrelay.ClientMsg, barrier bool) {
		rs, stalled := s.step(m)
		emit(M{"op": "sqlmsg", "msg": cmsgJ(m), "out": smsgsJ(rs), "stalled": stalled, "barrier": barrier})
	}
	for i := 0; (gen && i < n) || (!gen && i < len(msgs)); i++ {
		var m mocrelay.ClientMsg
		if gen {
			m = genC16Msg(r, g, &offered, offered)
		} else {
			m = msgs[i]
		}
		if ev, ok := m.(*mocrelay.ClientEventMsg); ok && strings.HasPrefix(ev.Event.ID, "ba55") {
			lastBarrier = ev.Event.ID
		}
		if _, ok := m.(*mocrelay.ClientReqMsg); ok {
			if gen {
				nbar++
				b := &mocrelay.Event{ID: fmt.Sprintf("ba55%060x", nbar), Pubkey: "ba55" + strings.Repeat("0", 60), CreatedAt: 1, Kind: 1,
					Tags: []mocrelay.Tag{}, Content: "barrier", Sig: strings.Repeat("0", 128)}
				send(&mocrelay.ClientEventMsg{Event: b}, true)
				lastBarrier = b.ID
			}
			synced := true
			if lastBarrier != "" {
				synced = waitStored(lastBarrier)
			}
			rs, stalled := s.step(m)
			emit(M{"op": "sqlmsg", "msg": cmsgJ(m), "out": smsgsJ(rs), "stalled": stalled, "synced": synced && lastBarrier != ""})
			continue
		}
		send(m, false)
	}
	s.stop()
}

func init() {
	props["C16"] = propRunner{
		gen: func(r *Rng, n int, tier string) {
			g := &EvGen{r: r}
			lines := 0
			// one large store per run: many created_at ties, more events than any page / batch size in the code
			{
				var msgs []mocrelay.ClientMsg
				for i, k := 0, 1200+r.Intn(700); i < k; i++ {
					e := g.Event()
					if e.EventType() == mocrelay.EventTypeEphemeral || r.P(70) {
						e.Kind = 1
					}
					msgs = append(msgs, &mocrelay.ClientEventMsg{Event: e})
				}
				qs := [][]*mocrelay.ReqFilter{{{}}, {{Limit: ptr(int64(1100))}}, {{Kinds: []int64{1}}}, {{Authors: []string{authors[0]}, Limit: ptr(int64(300))}}, {{Since: ptr(int64(3)), Until: ptr(int64(9))}}}
				c16CacheHistory(nil, nil, msgs, 3000, qs, false, 0)
				lines += len(msgs)
				g.made = nil
			}
			for lines < n && c16Stalls < 3 {
				k := r.Range(5, 30)
				if r.P(80) {
					c16CacheHistory(r, g, nil, pick(r, []int{1, 2, 3, 5, 8, 50}), nil, true, k)
				} else {
					c16SqliteHistory(r, g, nil, true, k, pick(r, c16Bulk))
				}
				lines += k + 2
			}
		},
		replay: func(lines []replayLine) {
			var msgs []mocrelay.ClientMsg
			var sqlMsgs []mocrelay.ClientMsg
			cap := 0
			var queries [][]*mocrelay.ReqFilter
			var bulk [2]int
			flush := func() {
				if len(sqlMsgs) > 0 {
					c16SqliteHistory(nil, nil, sqlMsgs, false, 0, bulk)
				} else if len(msgs) > 0 || queries != nil {
					c16CacheHistory(nil, nil, msgs, cap, queries, false, 0)
				}
				msgs, sqlMsgs, queries = nil, nil, nil
			}
			for _, l := range lines {
				switch l["op"] {
				case "reset":
					flush()
					cap = int(jnum(l["cap"]))
					bulk = [2]int{}
					if b, ok := l["bulk"].([]any); ok && len(b) == 2 {
						bulk = [2]int{int(jnum(b[0])), int(jnum(b[1]))}
					}
				case "msg":
					msgs = append(msgs, cmsgFromJ(l["msg"]))
				case "sqlmsg":
					sqlMsgs = append(sqlMsgs, cmsgFromJ(l["msg"]))
				case "dumprestore":
					o, _ := l["out"].(map[string]any)
					qs, _ := o["queries"].([]any)
					queries = [][]*mocrelay.ReqFilter{}
					for _, q := range qs {
						queries = append(queries, filtersFromJ(q.(map[string]any)["fs"]))
					}
				}
			}
			flush()
		},
	}
}
