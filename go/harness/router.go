package main

import (
	"context"
	"fmt"
	"sync"
	"time"

	"github.com/high-moctane/mocrelay"
)

// C07: the real RouterHandler with several concurrent sessions, driven one operation at a time.  Every
// operation is complete (its direct reply received) before the next starts, and after every publish each reading
// connection is flushed with a private barrier subscription + barrier event (FIFO through its queue), so what
// each connection received for that publish is known without timeouts.  A connection can stop reading (stall)
// and resume: what it kept is compared with the buffer rule.

type rconn struct {
	idx      int
	cancel   context.CancelFunc
	send     chan mocrelay.ServerMsg
	recv     chan mocrelay.ClientMsg
	done     chan error
	mu       sync.Mutex
	log      []mocrelay.ServerMsg
	notify   chan struct{}
	pause    chan struct{}
	resume   chan struct{}
	stalled  bool
	finished bool
	// a REQ was sent while stalled: the receive loop is blocked handing over its EOSE
	pendingReq bool
}

func (c *rconn) reader(stop <-chan struct{}) {
	for {
		select {
		case <-stop:
			return
		case <-c.pause:
			select {
			case <-c.resume:
			case <-stop:
				return
			}
		case m := <-c.send:
			c.mu.Lock()
			c.log = append(c.log, m)
			c.mu.Unlock()
			select {
			case c.notify <- struct{}{}:
			default:
			}
		}
	}
}

// take removes and returns the first logged message satisfying pred, waiting up to d
func (c *rconn) take(pred func(mocrelay.ServerMsg) bool, d time.Duration) (mocrelay.ServerMsg, bool) {
	deadline := time.Now().Add(d)
	for {
		c.mu.Lock()
		for i, m := range c.log {
			if pred(m) {
				c.log = append(c.log[:i:i], c.log[i+1:]...)
				c.mu.Unlock()
				return m, true
			}
		}
		c.mu.Unlock()
		rem := time.Until(deadline)
		if rem <= 0 {
			return nil, false
		}
		select {
		case <-c.notify:
		case <-time.After(rem):
		}
	}
}

func (c *rconn) drain() []mocrelay.ServerMsg {
	c.mu.Lock()
	defer c.mu.Unlock()
	r := c.log
	c.log = nil
	return r
}

func (c *rconn) sendMsg(m mocrelay.ClientMsg, d time.Duration) bool {
	select {
	case c.recv <- m:
		return true
	case <-time.After(d):
		return false
	}
}

type routerStep struct {
	K   string
	C   int
	Sub string
	Fs  []*mocrelay.ReqFilter
	Ev  *mocrelay.Event
}

const routerWait = 10 * time.Second

type routerRun struct {
	conns   []*rconn
	nb      int
	blocked bool
}

func isEOSE(sub string) func(mocrelay.ServerMsg) bool {
	return func(m mocrelay.ServerMsg) bool {
		x, ok := m.(*mocrelay.ServerEOSEMsg)
		return ok && x.SubscriptionID == sub
	}
}
func isOKFor(id string) func(mocrelay.ServerMsg) bool {
	return func(m mocrelay.ServerMsg) bool { x, ok := m.(*mocrelay.ServerOKMsg); return ok && x.EventID == id }
}
func isCountFor(sub string) func(mocrelay.ServerMsg) bool {
	return func(m mocrelay.ServerMsg) bool {
		x, ok := m.(*mocrelay.ServerCountMsg)
		return ok && x.SubscriptionID == sub
	}
}

// flush: everything enqueued for c before this call has been received when it returns
func (rr *routerRun) flush(c *rconn) {
	pk := fmt.Sprintf("bb%062d", c.idx)
	const bsub = "_barrier"
	if !c.sendMsg(&mocrelay.ClientReqMsg{SubscriptionID: bsub, ReqFilters: []*mocrelay.ReqFilter{{Authors: []string{pk}, Kinds: []int64{29999}}}}, routerWait) {
		rr.blocked = true
		return
	}
	if _, ok := c.take(isEOSE(bsub), routerWait); !ok {
		rr.blocked = true
		return
	}
	deadline := time.Now().Add(routerWait)
	arrived := false
	for attempt := 0; !arrived && time.Now().Before(deadline); attempt++ {
		rr.nb++
		id := fmt.Sprintf("ba%062d", rr.nb)
		ev := &mocrelay.Event{ID: id, Pubkey: pk, CreatedAt: 1, Kind: 29999, Tags: []mocrelay.Tag{}, Content: "", Sig: ""}
		if !c.sendMsg(&mocrelay.ClientEventMsg{Event: ev}, routerWait) {
			break
		}
		if _, ok := c.take(isOKFor(id), routerWait); !ok {
			break
		}
		wait := time.Duration(1+attempt) * 2 * time.Millisecond
		_, arrived = c.take(func(m mocrelay.ServerMsg) bool {
			x, ok := m.(*mocrelay.ServerEventMsg)
			return ok && x.SubscriptionID == bsub && x.Event.ID == id
		}, wait)
	}
	if !arrived {
		rr.blocked = true
		return
	}
	// earlier barrier events that were enqueued late are dropped from the log
	c.sendMsg(&mocrelay.ClientCloseMsg{SubscriptionID: bsub}, routerWait)
	c.sendMsg(&mocrelay.ClientCountMsg{SubscriptionID: "_bc", ReqFilters: []*mocrelay.ReqFilter{{}}}, routerWait)
	if _, ok := c.take(isCountFor("_bc"), routerWait); !ok {
		rr.blocked = true
	}
}

func (c *rconn) collect() []mocrelay.ServerMsg {
	var out []mocrelay.ServerMsg
	for _, m := range c.drain() {
		if x, ok := m.(*mocrelay.ServerEventMsg); ok && x.SubscriptionID == "_barrier" {
			continue
		}
		out = append(out, m)
	}
	return out
}

// number of registered subscriptions, read through the hook; false if the registry's locks are not released within 2 s
func registrySubs(router *mocrelay.RouterHandler) (int, bool) {
	res := make(chan int, 1)
	go func() { _, n := registrySize(router); res <- n }()
	select {
	case n := <-res:
		return n, true
	case <-time.After(2 * time.Second):
		return 0, false
	}
}

// cases of this run in which a step did not complete: after a few the sweep stops (each one waits ten seconds)
var routerBlockedCases int

func runRouterCase(n, buflen int, steps []routerStep) {
	router := mocrelay.NewRouterHandler(buflen)
	stop := make(chan struct{})
	rr := &routerRun{}
	for i := 0; i < n; i++ {
		ctx, cancel := context.WithCancel(context.Background())
		c := &rconn{idx: i, cancel: cancel, send: make(chan mocrelay.ServerMsg), recv: make(chan mocrelay.ClientMsg),
			done: make(chan error, 1), notify: make(chan struct{}, 1), pause: make(chan struct{}), resume: make(chan struct{})}
		rr.conns = append(rr.conns, c)
		go c.reader(stop)
		go func() { c.done <- router.ServeNostr(ctx, c.send, c.recv) }()
	}
	var outs []any
	for _, st := range steps {
		c := rr.conns[st.C]
		o := M{"k": st.K, "c": st.C}
		if c.finished || (c.stalled && st.K != "resume" && st.K != "disconnect" && st.K != "reqstalled") {
			continue
		}
		switch st.K {
		case "req":
			o["sub"], o["filters"] = st.Sub, filtersJ(st.Fs)
			if !c.sendMsg(&mocrelay.ClientReqMsg{SubscriptionID: st.Sub, ReqFilters: st.Fs}, routerWait) {
				rr.blocked = true
				break
			}
			if m, ok := c.take(isEOSE(st.Sub), routerWait); ok {
				o["reply"] = smsgsJ([]mocrelay.ServerMsg{m})
			} else {
				rr.blocked = true
			}
		case "reqstalled":
			// a REQ from a connection that is not reading: its EOSE cannot be delivered, so its receive loop stays
			// blocked until the connection resumes - and nobody else may be held up by that
			if !c.stalled || c.pendingReq {
				continue
			}
			o["sub"], o["filters"] = st.Sub, filtersJ(st.Fs)
			before, ok := registrySubs(router)
			if !ok {
				rr.blocked = true
				break
			}
			if !c.sendMsg(&mocrelay.ClientReqMsg{SubscriptionID: st.Sub, ReqFilters: st.Fs}, routerWait) {
				rr.blocked = true
				break
			}
			c.pendingReq = true
			// the subscription id is a fresh one: wait until the registry holds it (no reply can be waited for)
			for t := 0; t < 2000; t++ {
				now, ok := registrySubs(router)
				if !ok {
					rr.blocked = true // the registry is locked for good: every publisher will wait as well
					break
				}
				if now == before+1 {
					break
				}
				time.Sleep(time.Duration(1+t/100) * time.Millisecond)
			}
		case "close":
			o["sub"] = st.Sub
			if !c.sendMsg(&mocrelay.ClientCloseMsg{SubscriptionID: st.Sub}, routerWait) {
				rr.blocked = true
				break
			}
			// the receive loop is serial: once a COUNT is answered the CLOSE has been processed
			c.sendMsg(&mocrelay.ClientCountMsg{SubscriptionID: "_cc", ReqFilters: []*mocrelay.ReqFilter{{}}}, routerWait)
			if _, ok := c.take(isCountFor("_cc"), routerWait); !ok {
				rr.blocked = true
			}
		case "count":
			o["sub"] = st.Sub
			if !c.sendMsg(&mocrelay.ClientCountMsg{SubscriptionID: st.Sub, ReqFilters: []*mocrelay.ReqFilter{{}}}, routerWait) {
				rr.blocked = true
				break
			}
			if m, ok := c.take(isCountFor(st.Sub), routerWait); ok {
				o["reply"] = smsgsJ([]mocrelay.ServerMsg{m})
			} else {
				rr.blocked = true
			}
		case "event":
			o["event"] = evJ(st.Ev)
			if !c.sendMsg(&mocrelay.ClientEventMsg{Event: st.Ev}, routerWait) {
				rr.blocked = true
				break
			}
			if m, ok := c.take(isOKFor(st.Ev.ID), routerWait); ok {
				o["reply"] = smsgsJ([]mocrelay.ServerMsg{m})
			} else {
				rr.blocked = true
				break
			}
			got := M{}
			for _, c2 := range rr.conns {
				if c2.finished || c2.stalled {
					continue
				}
				rr.flush(c2)
				got[fmt.Sprint(c2.idx)] = smsgsJ(c2.collect())
			}
			o["got"] = got
		case "disconnect":
			c.cancel()
			select {
			case <-c.done:
			case <-time.After(routerWait):
				rr.blocked = true
			}
			c.finished = true
		case "stall":
			rr.flush(c)
			c.collect()
			select {
			case c.pause <- struct{}{}:
				c.stalled = true
			case <-time.After(routerWait):
				rr.blocked = true
			}
		case "resume":
			if !c.stalled {
				continue
			}
			c.resume <- struct{}{}
			c.stalled = false
			c.pendingReq = false
			rr.flush(c)
			o["got"] = M{fmt.Sprint(c.idx): smsgsJ(c.collect())}
		}
		if rr.blocked {
			o["blocked"] = true
			outs = append(outs, o)
			break
		}
		outs = append(outs, o)
	}
	for _, c := range rr.conns {
		c.cancel()
	}
	close(stop)
	if rr.blocked {
		routerBlockedCases++
	}
	emit(M{"op": "router", "n": n, "buflen": buflen, "steps": outs})
}

func genRouterCase(r *Rng) (int, int, []routerStep) {
	n := r.Range(2, 4)
	buflen := pick(r, []int{1, 2, 3, 5})
	authors := []string{fmt.Sprintf("a1%062d", 0), fmt.Sprintf("a2%062d", 0), fmt.Sprintf("a3%062d", 0)}
	// every filter names kinds or authors, so the harness's barrier events (kind 29999, private author) match
	// no generated subscription
	allKinds := []int64{1, 2, 3}
	mkFilter := func() *mocrelay.ReqFilter {
		f := &mocrelay.ReqFilter{}
		switch r.Intn(5) {
		case 0:
			f.Kinds = allKinds
		case 1:
			f.Kinds = []int64{int64(r.Range(1, 3))}
		case 2:
			f.Authors = []string{pick(r, authors)}
		case 3:
			f.Kinds = []int64{int64(r.Range(1, 3))}
			f.Authors = []string{pick(r, authors), pick(r, authors)}
		default:
			f.Kinds = []int64{int64(r.Range(1, 3)), int64(r.Range(1, 3))}
		}
		if r.P(15) {
			f.Since = ptr(int64(r.Range(1, 50)))
		}
		if r.P(15) {
			f.Until = ptr(int64(r.Range(1, 50)))
		}
		if r.P(10) {
			f.Limit = ptr(int64(r.Range(0, 2)))
		}
		if r.P(25) {
			// tag conditions (keys are the bare tag names): on t and / or p, values incl. the empty one
			f.Tags = map[string][]string{pick(r, []string{"t", "p"}): {pick(r, []string{"x", "y", ""})}}
			if r.P(25) {
				f.Tags[pick(r, []string{"t", "p"})] = []string{pick(r, []string{"x", "y", "z"}), pick(r, []string{"x", ""})}
			}
		}
		return f
	}
	mkFilters := func() []*mocrelay.ReqFilter {
		k := pick(r, []int{1, 1, 1, 2, 3})
		var fs []*mocrelay.ReqFilter
		for i := 0; i < k; i++ {
			fs = append(fs, mkFilter())
		}
		return fs
	}
	nev := 0
	mkEvent := func() *mocrelay.Event {
		nev++
		tags := []mocrelay.Tag{}
		for k := pick(r, []int{0, 0, 1, 1, 2, 3}); k > 0; k-- {
			// tags with a value, without one (value ""), and with extra elements, in any order
			name := pick(r, []string{"t", "p", "t", "p", "e"})
			switch r.Intn(5) {
			case 0:
				tags = append(tags, mocrelay.Tag{name})
			case 1:
				tags = append(tags, mocrelay.Tag{name, pick(r, []string{"x", "y", "z"}), "extra"})
			default:
				tags = append(tags, mocrelay.Tag{name, pick(r, []string{"x", "y", "z", ""})})
			}
		}
		return &mocrelay.Event{ID: fmt.Sprintf("e7%062d", nev+1000*r.Intn(1000)), Pubkey: pick(r, authors), CreatedAt: int64(r.Range(1, 50)), Kind: int64(r.Range(1, 3)),
			Tags: tags, Content: "x", Sig: ""}
	}
	subs := []string{"a", "b", "c", "d", ""}
	var steps []routerStep
	stalled := map[int]bool{}
	finished := map[int]bool{}
	pendingReq := map[int]bool{}
	nfresh := 0
	running := func() []int {
		var x []int
		for i := 0; i < n; i++ {
			if !stalled[i] && !finished[i] {
				x = append(x, i)
			}
		}
		return x
	}
	total := r.Range(10, 32)
	for len(steps) < total {
		run := running()
		if len(run) == 0 {
			break
		}
		c := pick(r, run)
		switch r.Intn(14) {
		case 0, 1, 2, 3:
			steps = append(steps, routerStep{K: "req", C: c, Sub: pick(r, subs), Fs: mkFilters()})
		case 4:
			steps = append(steps, routerStep{K: "close", C: c, Sub: pick(r, subs)})
		case 5, 6, 7, 8, 9:
			steps = append(steps, routerStep{K: "event", C: c, Ev: mkEvent()})
		case 10:
			steps = append(steps, routerStep{K: "count", C: c, Sub: pick(r, subs)})
		case 11:
			if len(run) > 1 && r.P(40) {
				finished[c] = true
				steps = append(steps, routerStep{K: "disconnect", C: c})
			}
		case 12:
			if len(run) > 1 {
				stalled[c] = true
				steps = append(steps, routerStep{K: "stall", C: c})
				if r.P(45) {
					pendingReq[c] = true
					nfresh++
					steps = append(steps, routerStep{K: "reqstalled", C: c, Sub: fmt.Sprintf("w%d", nfresh), Fs: mkFilters()})
				}
			}
		default:
			for i := 0; i < n; i++ {
				if stalled[i] && !finished[i] && r.P(50) {
					stalled[i] = false
					steps = append(steps, routerStep{K: "resume", C: i})
					break
				}
			}
		}
	}
	for i := 0; i < n; i++ {
		if stalled[i] && !finished[i] {
			steps = append(steps, routerStep{K: "resume", C: i})
		}
	}
	return n, buflen, steps
}

// runRouterPublisherGone: one connection S holds a match-all subscription and keeps reading; many publisher
// connections each hand over ONE event and are gone at once (their context is already cancelled when the router looks
// at them).  The router may or may not take such an event; when the publisher was told OK, the event was published,
// and S — open and matching at that moment, with room in its queue — must receive it.
func runRouterPublisherGone(trials int) {
	router := mocrelay.NewRouterHandler(64)
	sctx, scancel := context.WithCancel(context.Background())
	ssend := make(chan mocrelay.ServerMsg, 4096)
	srecv := make(chan mocrelay.ClientMsg)
	sdone := make(chan error, 1)
	go func() { sdone <- router.ServeNostr(sctx, ssend, srecv) }()
	srecv <- &mocrelay.ClientReqMsg{SubscriptionID: "s", ReqFilters: []*mocrelay.ReqFilter{{}}}
	select { // its EOSE: the subscription is registered
	case <-ssend:
	case <-time.After(5 * time.Second):
	}
	g := &EvGen{r: NewRng(uint64(trials))}
	var told []string // events whose publisher got an accepting OK
	for i := 0; i < trials; i++ {
		e := g.Event()
		e.Kind, e.Tags = 1, nil
		pctx, pcancel := context.WithCancel(context.Background())
		psend := make(chan mocrelay.ServerMsg, 4)
		precv := make(chan mocrelay.ClientMsg, 1)
		precv <- &mocrelay.ClientEventMsg{Event: e}
		pcancel()
		router.ServeNostr(pctx, psend, precv)
		for len(psend) > 0 {
			if ok, isOK := (<-psend).(*mocrelay.ServerOKMsg); isOK && ok.Accepted && ok.EventID == e.ID {
				told = append(told, e.ID)
			}
		}
	}
	got := map[string]bool{}
	deadline := time.After(2 * time.Second)
	allIn := func() bool {
		for _, id := range told {
			if !got[id] {
				return false
			}
		}
		return true
	}
collect:
	for !allIn() {
		select {
		case m := <-ssend:
			if em, ok := m.(*mocrelay.ServerEventMsg); ok {
				got[em.Event.ID] = true
			}
		case <-deadline:
			break collect
		}
	}
	missing := []any{}
	for _, id := range told {
		if !got[id] {
			missing = append(missing, id)
		}
	}
	scancel()
	select {
	case <-sdone:
	case <-time.After(5 * time.Second):
	}
	emit(M{"op": "routergone", "trials": trials, "out": M{"told": len(told), "missing": missing}})
}

func init() {
	props["router"] = propRunner{
		gen: func(r *Rng, n int, tier string) {
			runRouterPublisherGone(400)
			for i := 0; i < n && routerBlockedCases < 4; i++ {
				k, b, steps := genRouterCase(r)
				runRouterCase(k, b, steps)
			}
		},
		replay: func(lines []replayLine) {
			for _, l := range lines {
				if l["op"] == "routergone" {
					for k := 0; k < 4; k++ { // scheduling-dependent: the replay repeats the scenario
						runRouterPublisherGone(int(jnum(l["trials"])))
					}
					continue
				}
				if l["op"] != "router" {
					continue
				}
				var steps []routerStep
				arr, _ := l["steps"].([]any)
				for _, x := range arr {
					m := x.(map[string]any)
					st := routerStep{K: str(m["k"]), C: int(jnum(m["c"])), Sub: str(m["sub"])}
					if m["filters"] != nil {
						st.Fs = filtersFromJ(m["filters"])
					}
					if m["event"] != nil {
						st.Ev = evFromJ(m["event"])
					}
					steps = append(steps, st)
				}
				runRouterCase(int(jnum(l["n"])), int(jnum(l["buflen"])), steps)
			}
		},
	}
}
