package main

import (
	"sync"

	"github.com/high-moctane/mocrelay"
)

// C18: stateful middlewares on tiny id alphabets, several concurrent sessions on ONE middleware
// instance; every session is compared with its own model instance (one output line per session).

func genC18Steps(r *Rng, stack []mwSpec, n int) []mwStep {
	long := "pppppppppppppppppppppppppppppppppppppppppppppppppppppppppppppppp"
	subs := []string{"a", "b", "c", "d", ""} // the empty id is an id like any other
	if r.P(20) {
		subs = []string{"a", long + "-x", long + "-y", "é"}
	}
	ids := []string{eventID(1), eventID(2), eventID(3), eventID(4), eventID(5)}
	mk := func(id string) *mocrelay.Event {
		return &mocrelay.Event{ID: id, Pubkey: authors[0], CreatedAt: 5, Kind: 1, Tags: []mocrelay.Tag{}, Content: "c", Sig: sig128(1)}
	}
	var steps []mwStep
	if r.P(20) {
		// the window pattern of both unique filters, for the window size of the stack: an id, w-1 others, the id again
		// (inside the window: suppressed, and it must count as seen again), one new id (evicts the oldest), the id a
		// third time (still inside the window: suppressed) — on the receive side, the send side, or both interleaved
		w := 2
		for _, sp := range stack {
			if sp.K == "recvUnique" || sp.K == "sendUnique" {
				w = int(sp.N)
			}
		}
		if w > 4 {
			w = 4
		}
		seq := []string{ids[0]}
		for k := 1; k < w; k++ {
			seq = append(seq, ids[k])
		}
		seq = append(seq, ids[0], ids[w%len(ids)], ids[0])
		side := r.Intn(3)
		for _, id := range seq {
			if side == 0 || (side == 2 && r.Bool()) {
				steps = append(steps, mwStep{Dir: "c", C: &mocrelay.ClientEventMsg{Event: mk(id)}})
			} else {
				steps = append(steps, mwStep{Dir: "s", S: mocrelay.NewServerEventMsg(pick(r, subs), mk(id))})
			}
		}
	}
	for i := 0; i < n; i++ {
		switch r.Intn(11) {
		case 10:
			steps = append(steps, mwStep{Dir: "s", S: mocrelay.NewServerEventMsg(pick(r, subs), mk(pick(r, ids)))})
		case 0, 1, 2:
			steps = append(steps, mwStep{Dir: "c", C: &mocrelay.ClientReqMsg{SubscriptionID: pick(r, subs), ReqFilters: []*mocrelay.ReqFilter{{}}}})
		case 3, 4:
			steps = append(steps, mwStep{Dir: "c", C: &mocrelay.ClientCloseMsg{SubscriptionID: pick(r, subs)}})
		case 5, 6, 7:
			steps = append(steps, mwStep{Dir: "c", C: &mocrelay.ClientEventMsg{Event: mk(pick(r, ids))}})
		case 8:
			if r.P(50) {
				// the downstream handler's verdict on an event id of the alphabet: accepted, or refused with or without
				// a machine-readable prefix — the server-to-client direction must leave the windows alone
				steps = append(steps, mwStep{Dir: "s", S: mocrelay.NewServerOKMsg(pick(r, ids), r.P(40),
					pick(r, []string{"", "error: ", "blocked: ", "duplicate: ", "rate-limited: "}), pick(r, []string{"", "x"}))})
			} else {
				steps = append(steps, mwStep{Dir: "s", S: mocrelay.NewServerEventMsg(pick(r, subs), mk(pick(r, ids)))})
			}
		default:
			if r.Bool() {
				steps = append(steps, mwStep{Dir: "c", C: &mocrelay.ClientCountMsg{SubscriptionID: pick(r, subs), ReqFilters: []*mocrelay.ReqFilter{{}}}})
			} else {
				switch r.Intn(4) {
				case 0:
					steps = append(steps, mwStep{Dir: "s", S: mocrelay.NewServerEOSEMsg(pick(r, subs))})
				case 1:
					steps = append(steps, mwStep{Dir: "s", S: mocrelay.NewServerCountMsg(pick(r, subs), 3, nil)})
				default:
					steps = append(steps, mwStep{Dir: "s", S: mocrelay.NewServerClosedMsg(pick(r, subs), "", "x")})
				}
			}
		}
	}
	return steps
}

func execC18Case(stack []mwSpec, sessions [][]mwStep) {
	h := composeStack(stack) // ONE instance of every middleware, shared by all sessions
	outs := make([][]any, len(sessions))
	var wg sync.WaitGroup
	for i := range sessions {
		wg.Add(1)
		go func(i int) {
			defer wg.Done()
			s := startSession(h)
			outs[i] = runMwSteps(s, sessions[i])
			s.stop()
		}(i)
	}
	wg.Wait()
	for i := range sessions {
		emit(M{"op": "mw", "stack": stackJ(stack), "steps": outs[i], "sess": i, "of": len(sessions)})
	}
}

func init() {
	props["C18"] = propRunner{
		gen: func(r *Rng, n int, tier string) {
			g := &EvGen{r: r}
			kinds := []string{"maxSubs", "recvUnique", "sendUnique"}
			for i := 0; i < n; i++ {
				var stack []mwSpec
				for k := r.Range(1, 3); k > 0; k-- {
					if r.P(15) {
						stack = append(stack, genMwSpec(r, g, []string{"maxFilters", "maxSubIDLen"}))
					} else {
						stack = append(stack, genMwSpec(r, g, kinds))
					}
				}
				nsess := pick(r, []int{1, 1, 2, 3})
				sessions := make([][]mwStep, nsess)
				for s := range sessions {
					sessions[s] = genC18Steps(r, stack, r.Range(4, 16))
				}
				execC18Case(stack, sessions)
				i += nsess - 1
			}
		},
		replay: mwReplay,
	}
}
