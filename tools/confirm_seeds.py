#!/usr/bin/env python3
"""Confirm sub-agent produced seeded changes in a scratch worktree and file them under /verif/seeded/.
usage: confirm_seeds.py <outdir-root (/tmp/mut)> [--variants=A,B] [Cxx ...]"""
import json, os, re, shutil, subprocess, sys
ROOT = sys.argv[1]
rest = sys.argv[2:]
VARIANTS = ("A", "B")
if rest and rest[0].startswith("--variants="):
    VARIANTS = tuple(rest.pop(0).split("=", 1)[1].split(","))
ids = rest or sorted(d[:-4] for d in os.listdir(ROOT) if d.endswith(".out"))
WT = "/tmp/confirm_wt"
ENV = dict(os.environ, GOFLAGS="-mod=mod", GOPROXY="off", GOSUMDB="off", GOTOOLCHAIN="local")
def sh(cmd, cwd=WT):
    p = subprocess.run(cmd, cwd=cwd, env=ENV, shell=True, stdout=subprocess.PIPE, stderr=subprocess.STDOUT)
    return p.returncode, p.stdout.decode("utf-8", "replace")
if not os.path.isdir(WT):
    subprocess.check_call("git -C /repo worktree add -q --detach %s HEAD" % WT, shell=True)
def clean():
    sh("git checkout -q -- . && git clean -fdq")
for pid in ids:
    od = os.path.join(ROOT, pid + ".out")
    for var in VARIANTS:
        patch = os.path.join(od, var + ".patch.diff")
        demo = os.path.join(od, var + ".demo_test.go")
        if not (os.path.exists(patch) and os.path.exists(demo)):
            print(pid, var, "MISSING files"); continue
        src = open(demo).read()
        m = re.search(r"^package\s+(\w+)", src, re.M)
        pkg = m.group(1)
        sub = {"sqlite": "handler/sqlite", "sqlite_test": "handler/sqlite", "prometheus": "middleware/prometheus", "prometheus_test": "middleware/prometheus"}.get(pkg, ".")
        dest = os.path.join(sub, "zz_demo_%s_%s_test.go" % (pid, var))
        clean()
        shutil.copyfile(demo, os.path.join(WT, dest))
        rc0, o0 = sh("go test -vet=off -count=1 -run '(?i)demo' ./%s" % sub)
        os.remove(os.path.join(WT, dest))
        rca, oa = sh("git apply %s" % patch)
        rcb, ob = sh("go build ./...")
        rct, ot = sh("go test -vet=off -count=1 ./...")
        shutil.copyfile(demo, os.path.join(WT, dest))
        rc1, o1 = sh("go test -vet=off -count=1 -run '(?i)demo' ./%s" % sub)
        clean()
        ok = rc0 == 0 and rca == 0 and rcb == 0 and rct == 0 and rc1 != 0
        print("%s-%s: demo-on-original=%s apply=%s build=%s suite=%s demo-with-change=%s => %s" % (
            pid, var, "pass" if rc0 == 0 else "FAIL", rca, rcb, "pass" if rct == 0 else "FAIL", "fails" if rc1 != 0 else "PASSES", "CONFIRMED" if ok else "REJECTED"))
        if not ok:
            print((o0 if rc0 else "") + oa + ob + (ot if rct else "")[-1500:])
            continue
        sd = "/verif/seeded/%s-%s" % (pid, var)
        os.makedirs(sd, exist_ok=True)
        shutil.copyfile(patch, os.path.join(sd, "patch.diff"))
        shutil.copyfile(demo, os.path.join(sd, "demo_test.go"))
        notes = open(os.path.join(od, "NOTES.md")).read() if os.path.exists(os.path.join(od, "NOTES.md")) else ""
        open(os.path.join(sd, "NOTES.md"), "w").write(notes)
        meta = {"property": pid, "variant": var, "demo_placement": dest,
                "demo_cmd": "go test -vet=off -count=1 -run '(?i)demo' ./%s" % sub,
                "confirmed": {"demo_on_original": "pass", "patch_applies": True, "go_build": "ok",
                              "full_suite_with_change": "pass", "demo_with_change": "fails",
                              "demo_failure_excerpt": o1[-1200:]},
                "needs_to_manifest": "see NOTES.md (variant %s)" % var,
                "produced_by": "independent sub-agent given only the property text and a scratch worktree"}
        json.dump(meta, open(os.path.join(sd, "meta.json"), "w"), indent=1)
subprocess.call("git -C /repo worktree remove --force %s" % WT, shell=True)
