#!/usr/bin/env python3
"""Regenerate /verif/MANIFEST.json from checkcfg.py (keeps the manifest in sync with what ./check implements)."""
import json, os, sys
sys.path.insert(0, "/verif")
from checkcfg import PROPS
allids = [json.loads(l)["id"] for l in open("/verif/properties.jsonl")]
checks = []
for pid in allids:
    if pid not in PROPS:
        continue
    c = PROPS[pid]
    checks.append({
        "property_id": pid,
        "quick_cmd": "./check %s quick" % pid,
        "thorough_cmd": "./check %s thorough" % pid,
        "evidence_file": "/verif/evidence/%s.json" % pid,
        "replay_cmd_template": "./check %s --replay {path}" % pid,
        "engine": "lean4-model+correspondence",
        "level_claimed": {"category": "proof", "text": c["level_text"], "design_ref": c.get("design_ref", "DESIGN.md §5 " + pid)},
        "level_note": c["level_note"],
        "technique": c.get("technique", "Lean 4 theorems over an executable model; model tied to /repo by regenerated definitions (go2lean) and a differential correspondence run"),
    })
na = [{"property_id": pid, "reason": "check not built yet in this revision of /verif (planned, see DESIGN.md §11 staging); nothing is claimed for it"}
      for pid in allids if pid not in PROPS]
m = {
    "version": 1,
    "setup_cmd": "./check setup",
    "hooks": {
        "guard": "verif",
        "enable": "go build -tags verif (harness module /verif/go with `replace github.com/high-moctane/mocrelay => /repo`)",
        "baseline_off_cmd": "cd /repo && go test -mod=mod -json -vet=off -count=1 -timeout 25m ./...",
        "source_commits": [l.strip() for l in open("/verif/hooks_commits.txt")] if os.path.exists("/verif/hooks_commits.txt") else [],
        "add_only": True,
    },
    "engines": [
        {"name": "lean4-model+correspondence", "path": "/verif/lean, /verif/go, /verif/check",
         "serves_properties": [c["property_id"] for c in checks],
         "kind_free_text": "Lean 4 (core + single Batteries/Mathlib modules in proof files) theorems about an executable model of the Go code; go2lean regenerates the model's decision expressions from /repo on every run; a Go harness runs the real code in-process and a compiled Lean driver runs the model and the spec monitors on the same operations"},
    ],
    "checks": checks,
    "not_applicable": na,
    "notes": "Exit codes of ./check: 0 held, 1 violation (VIOLATION line), 2 infrastructure failure of the machinery (never a VIOLATION line). Known findings: /verif/known-findings.json. Seeded changes used to test detection: /verif/seeded/.",
}
json.dump(m, open("/verif/MANIFEST.json", "w"), indent=1)
print("MANIFEST.json: %d checks, %d not claimed" % (len(checks), len(na)))
