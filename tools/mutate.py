#!/usr/bin/env python3
"""Mechanical mutation sweep: small operator-level changes of /repo's source, each applied in a scratch worktree;
mutants that still build and pass the repository's own tests are run against the checks of the properties the mutated
function belongs to (a private copy of /verif per worker, VERIF_REPO pointing at the worktree).

usage: mutate.py [--workers N] [--limit N] [--seed S] [--only REGEX] [--out FILE]
Outcomes per mutant: nocompile | killed-by-tests | detected(<check>, with-replay|no-failing-input) | MISSED
Nothing is ever changed in /repo or /verif themselves (results file apart)."""
import argparse, json, os, random, re, shutil, subprocess, sys, threading, time

V = os.path.dirname(os.path.dirname(os.path.abspath(__file__)))
REPO = "/repo"
SCR = "/tmp/mutsweep"
GOENV = dict(os.environ, GOFLAGS="-mod=mod", GOPROXY="off", GOSUMDB="off", GOTOOLCHAIN="local")

FILES = ["event_cache.go", "event_matcher.go", "data_structure.go", "handler.go", "message.go", "relay.go", "server.go",
         "nip11.go", "utils.go", "handler/sqlite/insert.go", "handler/sqlite/query.go", "handler/sqlite/handler.go",
         "middleware/prometheus/prometheus.go"]

def checks_for(path, fn):
    f = fn or ""
    if path == "event_cache.go": return ["C04", "C15"]
    if path == "event_matcher.go": return ["C02", "C04", "C07"]
    if path == "data_structure.go": return ["C07", "C15"]
    if path == "handler.go":
        if re.search(r"^(RouterHandler|subscribers|subscriber|newSubscriber|NewRouterHandler|newSubscribers)", f): return ["C07", "C13"]
        if re.search(r"^(CacheHandler|simpleCacheHandler|NewCacheHandler|newSimpleCacheHandler)", f): return ["C16", "C13"]
        if re.search(r"^(MergeHandler|mergeHandlerSession|joinServerOKMsgs|newMergeHandlerSession|NewMergeHandler)", f): return ["C08", "C09", "C13"]
        if re.search(r"^(NewSimpleMiddleware|simpleMiddlewareHandle|SimpleHandler|NewSimpleHandler)", f): return ["C17", "C18", "C16", "C13"]
        if re.search(r"Logging", f): return []
        if re.search(r"(Unique|MaxSubscriptions)", f): return ["C18", "C17"]
        if re.search(r"(BuildMiddlewareFromNIP11|Max|CreatedAt|Allow|Deny)", f): return ["C17", "C18"]
        return ["C13"]
    if path == "message.go":
        if re.search(r"(Serialize|appendNIP01String|Verify)", f): return ["C01", "C12"]
        if re.search(r"(^valid|Valid)", f): return ["C11", "C12"]
        if re.search(r"(UnmarshalJSON|MarshalJSON|ParseClientMsg|parseMachineReadablePrefixMsg|Message$)", f): return ["C10", "C11", "C12"]
        if re.search(r"(Address|EventType|Tag\.)", f): return ["C04", "C06", "C05"]
        return ["C10"]
    if path == "relay.go": return ["C12", "C13"]
    if path in ("server.go", "nip11.go"): return ["C20", "C17"]
    if path == "utils.go": return ["C13", "C07", "C12", "C10"]
    if path in ("handler/sqlite/insert.go", "handler/sqlite/query.go"): return ["C06", "C14"]
    if path == "handler/sqlite/handler.go": return ["C16", "C14", "C13"]
    if path == "middleware/prometheus/prometheus.go": return ["C19"]
    return []

OPS2 = False

SWAPS = [(" == ", " != "), (" != ", " == "), (" < ", " <= "), (" <= ", " < "), (" > ", " >= "), (" >= ", " > "),
         (" && ", " || "), (" || ", " && ")]

def strip_strings(line):
    # blank out string / rune literals and trailing comments so that operators inside them are not mutated
    out, i, n = [], 0, len(line)
    while i < n:
        c = line[i]
        if c in "\"`'":
            q = c; j = i + 1
            while j < n and line[j] != q:
                if line[j] == "\\" and q != "`": j += 1
                j += 1
            out.append(" " * (min(j, n - 1) - i + 1)); i = j + 1; continue
        if line.startswith("//", i):
            out.append(" " * (n - i)); break
        out.append(c); i += 1
    return "".join(out)

def enumerate_mutants():
    muts = []
    for path in FILES:
        p = os.path.join(REPO, path)
        if not os.path.exists(p): continue
        lines = open(p).read().split("\n")
        fn = None
        in_block_comment = False
        for ln, line in enumerate(lines):
            m = re.match(r"^func (?:\((?:\w+ )?\*?(\w+)(?:\[[^\]]*\])?\) )?(\w+)", line)
            if m: fn = (m.group(1) + "." if m.group(1) else "") + m.group(2)
            if line.startswith("}"): pass
            s = strip_strings(line)
            if s.strip().startswith("//") or not s.strip(): continue
            if not line.startswith((" ", "\t")) and not m: continue   # top-level declarations other than funcs
            if fn is None: continue
            cks = checks_for(path, fn)
            if not cks: continue
            for a, b in SWAPS:
                k = 0
                while True:
                    k = s.find(a, k)
                    if k < 0: break
                    muts.append(dict(file=path, line=ln + 1, fn=fn, op="swap" + a.strip() + "to" + b.strip(),
                                     new=line[:k] + b + line[k + len(a):], checks=cks))
                    k += len(a)
            st = s.strip()
            if st == "return true": muts.append(dict(file=path, line=ln + 1, fn=fn, op="ret-true-false", new=line.replace("return true", "return false"), checks=cks))
            if st == "return false": muts.append(dict(file=path, line=ln + 1, fn=fn, op="ret-false-true", new=line.replace("return false", "return true"), checks=cks))
            if st in ("continue", "break"): muts.append(dict(file=path, line=ln + 1, fn=fn, op="drop-" + st, new="", checks=cks))
            if re.match(r"^(delete\(.*\)|[\w\.\[\]]+\.(Add|Delete|Del|Set|Store|Inc|Dec|Sub)\(.*\)|[\w\.\[\]]+(\+\+|--)|[\w\.\[\]]+ = (true|false|nil))$", st):
                muts.append(dict(file=path, line=ln + 1, fn=fn, op="drop-stmt", new="", checks=cks))
            if OPS2:
                # second operator set: statements whose absence still compiles
                if re.match(r"^defer .*$", st) and "Unlock" not in st:
                    muts.append(dict(file=path, line=ln + 1, fn=fn, op="drop-defer", new="", checks=cks))
                if re.match(r"^defer [\w\.]+\.(R?)Unlock\(\)$", st):
                    muts.append(dict(file=path, line=ln + 1, fn=fn, op="undefer-unlock", new=line.replace("defer ", "", 1), checks=cks))
                if re.match(r"^[\w\.\[\]]+\([^=]*\)$", st) and not st.startswith(("return", "go ", "defer ", "panic", "delete(")) and not re.match(r"^[\w\.\[\]]+\.(Add|Delete|Del|Set|Store|Inc|Dec|Sub)\(", st):
                    muts.append(dict(file=path, line=ln + 1, fn=fn, op="drop-call", new="", checks=cks))
                mm2 = re.search(r"make\(chan [^,\)]+, (\w+(\.\w+)*)\)", st)
                if mm2:
                    muts.append(dict(file=path, line=ln + 1, fn=fn, op="unbuffer-chan", new=line.replace(", " + mm2.group(1) + ")", ")", 1), checks=cks))
                if re.search(r"make\(chan [^,\)]+\)", st):
                    muts.append(dict(file=path, line=ln + 1, fn=fn, op="buffer-chan", new=re.sub(r"(make\(chan [^,\)]+)\)", r"\1, 1)", line, count=1), checks=cks))
                if ".mu.Lock()" in st:
                    muts.append(dict(file=path, line=ln + 1, fn=fn, op="lock-to-rlock", new=line.replace(".mu.Lock()", ".mu.RLock()"), checks=cks))
                if "<-ctx.Done()" in st and st.startswith("case"):
                    muts.append(dict(file=path, line=ln + 1, fn=fn, op="ctxdone-never", new=line.replace("<-ctx.Done()", "<-(chan struct{})(nil)"), checks=cks))
                continue
            for mm in re.finditer(r"(?<=[<>=] )(\d+)\b", s):
                v = int(mm.group(1))
                muts.append(dict(file=path, line=ln + 1, fn=fn, op="const+1", new=line[:mm.start()] + str(v + 1) + line[mm.end():], checks=cks))
    for i, m in enumerate(muts): m["id"] = "M%04d" % i
    return muts

def sh(cmd, cwd=None, env=None, timeout=None):
    try:
        p = subprocess.run(cmd, cwd=cwd, env=env, shell=isinstance(cmd, str), capture_output=True, timeout=timeout)
        return p.returncode, p.stdout.decode("utf-8", "replace") + p.stderr.decode("utf-8", "replace")
    except subprocess.TimeoutExpired:
        return 124, "timeout"

def worker(i, queue, results, lock, outf):
    w = os.path.join(SCR, "w%d" % i); v = os.path.join(SCR, "v%d" % i)
    env = dict(GOENV, VERIF_REPO=w, GOCACHE=os.path.join(SCR, "gocache%d" % i))
    while True:
        with lock:
            if not queue: return
            m = queue.pop(0)
        sh("git checkout -q -- . && git clean -fdq", cwd=w)
        p = os.path.join(w, m["file"])
        lines = open(p).read().split("\n")
        m["old"] = lines[m["line"] - 1]
        lines[m["line"] - 1] = m["new"]
        open(p, "w").write("\n".join(lines))
        t0 = time.time()
        rc, o = sh("go build ./... && go vet -tags verif ./... >/dev/null 2>&1; go build -tags verif ./...", cwd=w, env=env, timeout=600)
        if rc != 0:
            m["outcome"] = "nocompile"
        else:
            pk = "./handler/sqlite/" if m["file"].startswith("handler/sqlite") else ("./middleware/prometheus/" if m["file"].startswith("middleware") else ".")
            ok = False
            for attempt in range(2):   # the repo has one timing-flaky test
                rc, o = sh("go test -vet=off -count=1 -timeout 100s %s" % pk, cwd=w, env=env, timeout=150)
                if rc == 0: ok = True; break
            if not ok:
                m["outcome"] = "killed-by-tests"
            else:
                m["outcome"] = "MISSED"; m["runs"] = []
                for c in m["checks"]:
                    rc, o = sh(["./check", c, "quick"], cwd=v, env=env, timeout=900)
                    vio = [l for l in o.split("\n") if l.startswith("VIOLATION")]
                    head = [l for l in o.split("\n") if l.startswith("#")][:2]
                    m["runs"].append(dict(check=c, rc=rc, head=head))
                    if rc == 1 and vio:
                        m["outcome"] = "detected"
                        m["by"] = c
                        m["how"] = "no-failing-input" if vio[0].endswith("no-failing-input-found") else "with-replay"
                        break
                    if rc not in (0, 1):
                        m["outcome"] = "check-error"; m["by"] = c; m["err"] = o[-600:]
                        break
        m["wall_s"] = round(time.time() - t0, 1)
        with lock:
            results.append(m)
            json.dump(results, open(outf, "w"), indent=1)
            print(m["id"], m["file"], m["line"], m["fn"], m["op"], "=>", m["outcome"], m.get("by", ""), m.get("how", ""), "%.0fs" % m["wall_s"], flush=True)
    sh("git checkout -q -- . && git clean -fdq", cwd=w)

def main():
    ap = argparse.ArgumentParser()
    ap.add_argument("--workers", type=int, default=4)
    ap.add_argument("--limit", type=int, default=200)
    ap.add_argument("--seed", type=int, default=1)
    ap.add_argument("--only", default="")
    ap.add_argument("--out", default=os.path.join(V, "mutation", "RESULTS.json"))
    ap.add_argument("--list", action="store_true")
    ap.add_argument("--ops2", action="store_true", help="second operator set: dropped defers / calls, channel buffering, lock kinds, cancellation cases")
    ap.add_argument("--resume", action="store_true", help="keep the results already in --out and skip those mutants")
    a = ap.parse_args()
    global OPS2
    OPS2 = a.ops2
    muts = enumerate_mutants()
    if a.only: muts = [m for m in muts if re.search(a.only, m["file"] + ":" + m["fn"] + ":" + m["op"])]
    if a.list:
        from collections import Counter
        print(len(muts), Counter(m["file"] for m in muts)); return
    random.Random(a.seed).shuffle(muts)
    prior = []
    if a.resume and os.path.exists(a.out):
        prior = json.load(open(a.out))
        done = {(m["file"], m["line"], m["op"], m["new"]) for m in prior}
        muts = [m for m in muts if (m["file"], m["line"], m["op"], m["new"]) not in done]
    muts = muts[:a.limit]
    os.makedirs(os.path.dirname(a.out), exist_ok=True)
    os.makedirs(SCR, exist_ok=True)
    assert sh("git -C %s status --porcelain" % REPO)[1].strip() == "", "/repo not clean"
    for i in range(a.workers):
        w = os.path.join(SCR, "w%d" % i); v = os.path.join(SCR, "v%d" % i)
        if not os.path.exists(w):
            rc, o = sh("git -C %s worktree add --detach %s HEAD" % (REPO, w)); assert rc == 0, o
        else:
            sh("git checkout -q --detach %s && git checkout -q -- . && git clean -fdq" % sh("git -C %s rev-parse HEAD" % REPO)[1].strip(), cwd=w)
        rc, o = sh("rsync -a --delete --exclude .git --exclude violations --exclude seeded --exclude mutation --exclude evidence %s/ %s/" % (V, v)); assert rc == 0, o
        os.makedirs(os.path.join(v, "evidence"), exist_ok=True)
    results, lock = list(prior), threading.Lock()
    ths = [threading.Thread(target=worker, args=(i, muts, results, lock, a.out)) for i in range(a.workers)]
    for t in ths: t.start()
    for t in ths: t.join()
    from collections import Counter
    print(Counter(r["outcome"] for r in results))

if __name__ == "__main__":
    main()
