#!/bin/sh
# run every claimed check (quick by default) on the current tree; prints one line per property
cd "$(dirname "$0")/.." || exit 2
[ -n "$VP_RUN_REPO" ] && export VERIF_REPO="$VP_RUN_REPO"
tier=${1:-quick}
for p in $(python3 -c "import json;print(' '.join(c['property_id'] for c in json.load(open('MANIFEST.json'))['checks']))"); do
  ./check $p $tier 2>&1 | grep -E "^(OK|VIOLATION|KNOWN-FINDING|INFRA)" | cut -c1-200
done
