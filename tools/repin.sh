#!/bin/sh
# rewrite go2lean's pinned fallback definitions from the current /repo tree (run after a fix: commit)
cd /verif/go && GOFLAGS=-mod=mod GOPROXY=off GOSUMDB=off GOTOOLCHAIN=local go build -o bin/go2lean ./go2lean && \
./bin/go2lean -repo /repo -out /verif/lean/MocModel/Gen -pin /verif/go/go2lean/pinned.json -writepin -report /tmp/genrep.json && jq .failed /tmp/genrep.json
