#!/usr/bin/env python3
"""Apply each seeded change to /repo, run the property's check, undo it, tabulate the outcome.
usage: run_seeded.py [tier] [Cxx-V ...]    (writes /verif/seeded/RESULTS.json)"""
import json, os, subprocess, sys, time
tier = "quick"
args = sys.argv[1:]
if args and args[0] in ("quick", "thorough"):
    tier = args.pop(0)
V = os.path.dirname(os.path.dirname(os.path.abspath(__file__)))
REPO = os.environ.get("VERIF_REPO") or os.environ.get("VP_RUN_REPO") or "/repo"
os.environ["VERIF_REPO"] = REPO
S = os.path.join(V, "seeded")
ids = args or sorted(d for d in os.listdir(S) if os.path.isdir(os.path.join(S, d)))
manifest = json.load(open(os.path.join(V, "MANIFEST.json")))
claimed = {c["property_id"] for c in manifest["checks"]}
resf = os.path.join(S, "RESULTS.json")
results = json.load(open(resf)) if os.path.exists(resf) else {}
assert subprocess.run("git -C %s status --porcelain" % REPO, shell=True, capture_output=True).stdout.strip() == b"", REPO + " not clean"
for sid in ids:
    prop = sid.split("-")[0]
    if prop not in claimed:
        print(sid, "property not claimed yet"); continue
    patch = os.path.join(S, sid, "patch.diff")
    rc = subprocess.run("git -C %s apply %s" % (REPO, patch), shell=True).returncode
    if rc != 0:
        print(sid, "PATCH DOES NOT APPLY"); results[sid] = {"outcome": "patch does not apply on current /repo"}; continue
    t0 = time.time()
    evf = os.path.join(V, "evidence", "%s.json" % prop)
    saved = open(evf).read() if os.path.exists(evf) else None
    try:
        p = subprocess.run(["./check", prop, tier], cwd=V, capture_output=True, timeout=3600)
        out = p.stdout.decode("utf-8", "replace")
        rcc = p.returncode
        if rcc not in (0, 1) or (rcc == 1 and "VIOLATION" not in out):
            print(p.stderr.decode("utf-8", "replace")[-3000:])
    finally:
        subprocess.run("git -C %s checkout -- . && git -C %s clean -fdq" % (REPO, REPO), shell=True)
        # evidence files must only ever come from runs on the unchanged tree
        if saved is not None:
            open(evf, "w").write(saved)
        elif os.path.exists(evf):
            os.remove(evf)
    vio = [l for l in out.split("\n") if l.startswith("VIOLATION")]
    if rcc == 1 and vio:
        outcome = "detected-without-failing-input" if vio[0].endswith("no-failing-input-found") else "detected-with-replay"
    elif rcc == 0:
        outcome = "MISSED"
    else:
        outcome = "check-error rc=%d" % rcc
    head = [l for l in out.split("\n") if l.startswith("#")][:3]
    results[sid] = {"outcome": outcome, "tier": tier, "wall_s": round(time.time() - t0, 1), "report": head}
    print(sid, outcome, "%.0fs" % (time.time() - t0), head[:2])
    json.dump(results, open(resf, "w"), indent=1, sort_keys=True)

# regen after restore: the Gen files and the driver must describe the unchanged tree again
subprocess.call("%s/go/bin/go2lean -repo %s -out %s/lean/MocModel/Gen -pin %s/go/go2lean/pinned.json -report /tmp/genrep.json >/dev/null 2>&1" % (V, REPO, V, V), shell=True)

# go.mod back to the default tree (./check rewrites the replace directive on every run; do not leave a scratch path behind)
gm = os.path.join(V, "go", "go.mod")
t = open(gm).read()
import re
t2 = re.sub(r"(replace github.com/high-moctane/mocrelay => )\S+", r"\1/repo", t)
if t2 != t:
    open(gm, "w").write(t2)
