#!/usr/bin/env python3
"""Function-level coverage of /repo by the machinery: which functions have regenerated conditions / pinned text /
are listed by the `sites` or `locks` extractors, and how the others are classified (by name pattern).
Prints a markdown table (pasted into DESIGN.md §7.1).  Needs a fresh go2lean report at /tmp/genrep.json."""
import json, re, subprocess, collections
rep = json.load(open('/tmp/genrep.json'))
byfn = collections.defaultdict(set)
filelevel = collections.defaultdict(set)
for it in rep['items']:
    k = it['Sel'].split(':')[0]
    kind = 'pin' if k in ('bodytext', 'iftext', 'casetext', 'calltext') else ('sites' if k == 'sites' else ('locks' if k in ('locks', 'fielduses') else 'regen'))
    if it.get('Func'):
        byfn[(it['File'], it['Func'])].add(kind)
    else:
        filelevel[it['File']].add(kind)
files = [f for f in subprocess.check_output("git -C /repo ls-files '*.go'", shell=True, text=True).split()
         if not f.endswith('_test.go') and 'verif' not in f]
CLASS = [
    (r'(^|\.)(New|new)[A-Z]\w*$', 'constructor (field initialisation only)'),
    (r'\.ServeNostr(Start|End)$', 'session hook without logic (or covered by the session model of its middleware)'),
    (r'\.(Client|Server)MsgLabel$', 'label constant (the constants are regenerated)'),
    (r'\.MarshalJSON$', 'hand-modelled encoder (Codec.lean `encode*`), tied by the round-trip correspondence'),
    (r'^(mergeHandlerSession|MergeHandler)', 'hand-modelled (Merge.lean trace model), tied by the trace correspondence; channel ops listed by `sites`'),
    (r'Logging|logInfo|logWarn|infoLog|warnLog|errorLog|\.Error$', 'logging / error text: not modelled'),
    (r'^(simpleMiddlewareHandle|NewSimpleMiddleware|SimpleHandler|HandlerFunc|DefaultSimpleHandlerBase)', 'plumbing: modelled as message-at-a-time step functions (Middleware.lean, Handlers.lean); channel ops listed by `sites`'),
    (r'ServeNostr(Client|Server)Msg$', 'pass-through or hand-modelled step (Middleware.lean / Prom.lean), tied by correspondence'),
    (r'^(EventCache|eventCacheEvsIndex)\.', 'hand-modelled (Cache.lean, CacheC.lean); listed by `locks`; tables compared via hook VerifState'),
    (r'^(EventLimitMatchers|ReqFilterEventLimitMatcher)', 'hand-modelled folds (Matcher.lean), tied by correspondence'),
    (r'^(CacheHandler|simpleCacheHandler|simpleSQLiteHandler)', 'hand-modelled reply shapes (Handlers.lean), tied by correspondence; channel ops listed by `sites`'),
]
rows = []
tot = cov = 0
rest = collections.Counter()
for f in files:
    src = open('/repo/' + f).read()
    fns = []
    for m in re.finditer(r'^func (?:\((?:\w+ )?\*?(\w+)(?:\[[^\]]*\])?\) )?(\w+)', src, re.M):
        fns.append((m.group(1) + '.' if m.group(1) else '') + m.group(2))
    n = len(fns)
    reg = [x for x in fns if 'regen' in byfn.get((f, x), ())]
    pin = [x for x in fns if 'pin' in byfn.get((f, x), ()) and x not in reg]
    other = [x for x in fns if x not in reg and x not in pin]
    tot += n; cov += len(reg) + len(pin)
    for x in other:
        for pat, cl in CLASS:
            if re.search(pat, x):
                rest[cl] += 1; break
        else:
            rest['other: ' + f + ':' + x] += 1
    rows.append('| `%s` | %d | %d | %d | %s |' % (f, n, len(reg), len(pin), ', '.join(sorted(filelevel.get(f, []))) or '–'))
print('| file | functions | with regenerated conditions/constants | with pinned source text only | whole-file extractors |')
print('|---|---|---|---|---|')
print('\n'.join(rows))
print()
print('%d of %d functions carry a regenerated definition or a pin.  The other %d:' % (cov, tot, tot - cov))
print()
for cl, n in sorted(rest.items(), key=lambda x: -x[1]):
    print('* %d × %s' % (n, cl))
