import MocModel.Basic
import MocModel.Wire
import MocModel.Matcher
import MocModel.Spec.Nip01
import MocModel.Middleware
import MocModel.Spec.Mw
import MocModel.Prom
import MocModel.Spec.Prom
