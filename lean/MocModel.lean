import MocModel.Basic
import MocModel.Wire
import MocModel.Matcher
import MocModel.Spec.Nip01
