import MocModel.Drv.C02
import MocModel.Drv.Mw
import MocModel.Drv.Prom
import MocModel.Drv.Http
import MocModel.Drv.Cache
import MocModel.Drv.Handlers
import MocModel.Drv.Conc
import MocModel.Drv.Codec
import MocModel.Drv.Auth
import MocModel.Drv.Gate
import MocModel.Drv.Merge
import MocModel.Drv.Router
import MocModel.Drv.RouterConc
import MocModel.Drv.Sqlite
import MocModel.Drv.Term
open Moc.Drv

def handlers : List (String × Handler) := [
  ("C02", C02.handler),
  ("C17", MwD.handler),
  ("C18", MwD.handler),
  ("C19", PromD.handler),
  ("C20", HttpD.handler),
  ("cache", CacheD.handler),
  ("C16", HandlersD.handler),
  ("C15", ConcD.handler),
  ("codec", CodecD.handler),
  ("C01", AuthD.handler),
  ("ws", GateD.handler),
  ("merge", MergeD.handler),
  ("router", RouterD.handler),
  ("routerconc", RouterConcD.handler),
  ("sqlite", SqliteD.handler),
  ("c13", TermD.handler)
]

def main (args : List String) : IO UInt32 := do
  match args with
  | [p] =>
    match handlers.lookup p with
    | some h => run h
    | none => IO.eprintln s!"unknown property {p}"; return 3
  | _ => IO.eprintln "usage: mocdriver <property>"; return 3
