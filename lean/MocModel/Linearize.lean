/-
  C15: linearizability check of a recorded concurrent history of EventCache operations against the
  sequential cache model (Wing–Gong search).  A history is linearizable iff the operations can be
  totally ordered, respecting real time (an operation that returned before another was invoked comes
  first), such that the model produces exactly the recorded results.
-/
import MocModel.Cache

namespace Moc

inductive COp where
  | add (e : Event)
  | find (fs : List Filter)
  | len
deriving Repr, DecidableEq

inductive COut where
  | added (b : Bool)
  | found (es : List Event)
  | len (n : Int)
  | panic
deriving Repr, DecidableEq

structure CCall where
  op : COp
  inv : Nat      -- logical time of invocation
  res : Nat      -- logical time of response
  out : COut
deriving Repr

def applyOp (c : Cache) : COp → Cache × COut
  | .add e => let (c', b) := c.add e; (c', .added b)
  | .find fs => match c.find id fs with | .ok es => (c, .found es) | .panic => (c, .panic)
  | .len => (c, .len c.len)

/-- call `j` did not return before call `ci` was invoked (so `j` may come after `ci`) -/
def notBefore (calls : List CCall) (ci : CCall) (j : Nat) : Bool :=
  match calls[j]? with
  | some cj => !(decide (cj.res < ci.inv))
  | none => false

/-- may call `i` be linearized next?  (no pending call returned before `i` was invoked) -/
def minimal (calls : List CCall) (pending : List Nat) (i : Nat) : Bool :=
  match calls[i]? with
  | none => false
  | some ci => pending.all fun j => j == i || (match calls[j]? with | some cj => !(decide (cj.res < ci.inv)) | none => true)

/-- depth-first search for a linearization; `fuel` bounds the recursion (= number of calls) -/
def linearize (calls : List CCall) : Nat → List Nat → Cache → Option (List Nat)
  | 0, pending, _ => if pending.isEmpty then some [] else none
  | fuel + 1, pending, c =>
    if pending.isEmpty then some []
    else
      pending.firstM fun i =>
        if minimal calls pending i then
          match calls[i]? with
          | none => none
          | some ci =>
            let (c', out) := applyOp c ci.op
            if out == ci.out then
              match linearize calls fuel (pending.erase i) c' with
              | some rest => some (i :: rest)
              | none => none
            else none
        else none

/-- re-validation of a witness order: replays it on the model and checks every recorded output and the
    real-time constraint (so the search itself need not be trusted) -/
def witnessValid (calls : List CCall) (order : List Nat) (c : Cache) : Bool :=
  let rec go (order : List Nat) (c : Cache) (doneRes : List Nat) : Bool :=
    match order with
    | [] => true
    | i :: rest =>
      match calls[i]? with
      | none => false
      | some ci =>
        let (c', out) := applyOp c ci.op
        -- every call still to come must not have returned before this one was invoked
        out == ci.out && rest.all (notBefore calls ci) &&
          go rest c' (ci.res :: doneRes)
  order.length == calls.length && order.eraseDups.length == order.length && go order c []

end Moc
