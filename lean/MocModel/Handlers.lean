/-
  Model of the storage-backed handlers (C16): `SimpleHandler`'s request/reply loop, the cache
  handler's replies, `Dump` / `Restore`, and the reply shapes of the SQLite handler.
  The constructors used for each reply are pinned against regenerated source text.
-/
import MocModel.Cache
import MocModel.Gen.Handlers

namespace Moc

/-- `simpleCacheHandler.ServeNostrClientMsg`: new cache state and the replies, in order -/
def cacheReply (c : Cache) (m : ClientMsg) : Cache × Res (List ServerMsg) :=
  match m with
  | .event e =>
    let (c', added) := c.add e
    if Gen.cacheAcceptIf added then (c', .ok [.ok e.id true "" ""])
    else (c', .ok [.ok e.id false Gen.cacheRejectPrefix Gen.cacheRejectMsg])
  | .req sub fs =>
    match c.find id fs with
    | .panic => (c, .panic)
    | .ok evs => (c, .ok (evs.map (fun e => ServerMsg.event sub e) ++ [.eose sub]))
  | .count sub _ => (c, .ok [.count sub 0 none])
  | .close _ => (c, .ok [])
  | .auth _ => (c, .ok [])

/-- `SimpleHandler.ServeNostr`: messages are served one at a time; all replies of a message are written
    before the next message is read -/
def serveCache (c : Cache) : List ClientMsg → Cache × Res (List (List ServerMsg))
  | [] => (c, .ok [])
  | m :: ms =>
    match cacheReply c m with
    | (c', .panic) => (c', .panic)
    | (c', .ok r) =>
      match serveCache c' ms with
      | (c'', .panic) => (c'', .panic)
      | (c'', .ok rs) => (c'', .ok (r :: rs))

/-- `Dump`: the match-everything listing; `Restore`: `Add` each dumped event in dump order -/
def dump (c : Cache) : Res (List Event) := c.find id [{}]
def restore (c : Cache) (evs : List Event) : Cache := evs.foldl (fun c e => (c.add e).1) c

def handlersActualSource : List String :=
  [Gen.cacheOkAccepted, Gen.cacheOkRejected, Gen.cacheReqEvent, Gen.cacheReqEose, Gen.cacheCount,
   Gen.cacheCase0, Gen.cacheCase1, Gen.cacheCase2, Gen.dumpFind, Gen.restoreAdd,
   Gen.sqliteOk, Gen.sqliteReqEvent, Gen.sqliteReqEose, Gen.defaultCount]

def handlersExpectedSource : List String :=
  ["NewServerOKMsg(msg.Event.ID, true, \"\", \"\")",
   "NewServerOKMsg(msg.Event.ID, false, MachineReadablePrefixDuplicate, \"already have this event\")",
   "NewServerEventMsg(msg.SubscriptionID, ev)", "NewServerEOSEMsg(msg.SubscriptionID)",
   "NewServerCountMsg(msg.SubscriptionID, 0, nil)",
   "*ClientEventMsg", "*ClientReqMsg", "*ClientCountMsg", "h.c.Find([]*ReqFilter{{}})", "h.c.Add(e)",
   "mocrelay.NewServerOKMsg(msg.Event.ID, true, \"\", \"\")",
   "mocrelay.NewServerEventMsg(msg.SubscriptionID, event)", "mocrelay.NewServerEOSEMsg(msg.SubscriptionID)",
   "NewServerCountMsg(msg.SubscriptionID, 0, nil)"]

end Moc
