/-
  Model of the validators of message.go / utils.go (C11): `validID`, `validPubkey`, `validSig`,
  `validKind`, `validTag`, `validNaddr`, `validHexString`, `Event.Valid`, `ReqFilter.Valid`,
  `ValidClientMsg`.  Every condition is regenerated (`Gen/Valid.lean`).
  Go `len(s)` = number of bytes = `byteLen s.toList`.
-/
import MocModel.Basic
import MocModel.Gen.Valid

namespace Moc

def byteLen (cs : List Char) : Nat := (cs.map Char.utf8Size).sum

/-- `validHexString` on the characters of the string (`range s` yields runes) -/
def validHexChars (cs : List Char) : Bool :=
  !Gen.hexEmpty (byteLen cs) && cs.all fun c => !Gen.hexCharReject c.toNat

def validIDChars (cs : List Char) : Bool := Gen.validIDCond (byteLen cs) (validHexChars cs)
def validPubkeyChars (cs : List Char) : Bool := Gen.validPubkeyCond (byteLen cs) (validHexChars cs)
def validSigChars (cs : List Char) : Bool := Gen.validSigCond (byteLen cs) (validHexChars cs)

def validID (s : String) : Bool := validIDChars s.toList
def validPubkey (s : String) : Bool := validPubkeyChars s.toList
def validSig (s : String) : Bool := validSigChars s.toList
def validKind (k : Int) : Bool := Gen.validKindCond k

def validTag (t : List String) : Bool :=
  Gen.validTagCond t.length (match t with | k :: _ => k != "" | [] => false)

/-- `strconv.ParseInt(s, 10, 64)`: optional sign, at least one decimal digit, nothing else, in range -/
def digitsVal : List Char → Option Nat
  | [] => none
  | cs => cs.foldl (fun acc c => match acc with
      | none => none
      | some n => if c.isDigit then some (n * 10 + (c.toNat - '0'.toNat)) else none) (some 0)

def parseInt64Chars (cs : List Char) : Option Int :=
  let (neg, ds) := match cs with
    | '-' :: r => (true, r)
    | '+' :: r => (false, r)
    | r => (false, r)
  match digitsVal ds with
  | none => none
  | some n =>
    let v : Int := if neg then -(n : Int) else n
    if -9223372036854775808 ≤ v && v ≤ 9223372036854775807 then some v else none

/-- `strings.SplitN(s, ":", 3)`: at most three parts, the last one takes the rest -/
def splitColon3 (cs : List Char) : List (List Char) :=
  let a := cs.takeWhile (· != ':')
  match cs.dropWhile (· != ':') with
  | [] => [a]
  | _ :: r1 =>
    let b := r1.takeWhile (· != ':')
    match r1.dropWhile (· != ':') with
    | [] => [a, b]
    | _ :: r2 => [a, b, r2]

/-- `validNaddr` -/
def validNaddrChars (cs : List Char) : Bool :=
  let elems := splitColon3 cs
  if Gen.naddrArityBad elems.length then false
  else
    match parseInt64Chars (elems.getD 0 []) with
    | none => false
    | some kind =>
      if Gen.naddrKindBad (validKind kind) then false
      else if Gen.naddrPubkeyBad (validPubkeyChars (elems.getD 1 [])) then false
      else true

def validNaddr (s : String) : Bool := validNaddrChars s.toList

/-- `Event.Valid` (the event pointer and its tag slice are non-nil in the model) -/
def validEvent (e : Event) : Bool :=
  Gen.eventValidCond true (validID e.id) (validPubkey e.pubkey) (validKind e.kind) true (e.tags.all validTag) (validSig e.sig)

/-- the tag loop of `ReqFilter.Valid` for one `#x` entry -/
def validTagCond (c : String × List String) : Bool :=
  if Gen.filterTagNameBad (byteLen c.1.toList) (((c.1.toUTF8.toList.getD 0 0).toNat : Nat) : Int) then false
  else if c.1 == Gen.filterTagE then !Gen.filterTagEBad (c.2.all validID)
  else if c.1 == Gen.filterTagP then !Gen.filterTagPBad (c.2.all validPubkey)
  else if c.1 == Gen.filterTagA then !Gen.filterTagABad (c.2.all validNaddr)
  else true

/-- `ReqFilter.Valid` -/
def validFilter (f : Filter) : Bool :=
  (match f.ids with | some l => !Gen.filterIdsBad (l.all validID) | none => true) &&
  (match f.authors with | some l => !Gen.filterAuthorsBad (l.all validPubkey) | none => true) &&
  (match f.kinds with | some l => !Gen.filterKindsBad (l.all validKind) | none => true) &&
  (match f.tags with | some l => l.all validTagCond | none => true) &&
  (match f.since with | some s => !Gen.filterSinceBad s | none => true) &&
  (match f.until_ with | some u => !Gen.filterUntilBad u | none => true) &&
  (match f.since, f.until_ with | some s, some u => !Gen.filterSinceUntilBad s u | _, _ => true) &&
  (match f.limit with | some l => !Gen.filterLimitBad l | none => true)

/-- `ValidClientMsg`: the dispatch on the message type (pinned: `validDispatchExpected`) to the `Valid` method of
    each type; a parsed message is never nil -/
def validClientMsg : ClientMsg → Bool
  | .event e => Gen.clientEventValid true (validEvent e)
  | .req _ fs => !Gen.reqNoFilters fs.length && fs.all validFilter
  | .close _ => Gen.clientCloseValid true
  | .auth e => Gen.clientAuthValid true (validEvent e)
  | .count _ fs => !Gen.countNoFilters fs.length && fs.all validFilter

def validDispatchActual : List String := [Gen.validClientMsgBody, Gen.clientReqValidBody, Gen.clientCountValidBody]

/-- the source text of the dispatcher and of the two list-carrying `Valid` methods the model follows -/
def validDispatchExpected : List String :=
  ["{ if msg == nil { return false } switch msg := msg.(type) { case *ClientEventMsg: return msg.Valid() case *ClientReqMsg: return msg.Valid() case *ClientCloseMsg: return msg.Valid() case *ClientAuthMsg: return msg.Valid() case *ClientCountMsg: return msg.Valid() default: return false } }",
   "{ if msg == nil { return } if len(msg.ReqFilters) == 0 { return } if !sliceAllFunc(msg.ReqFilters, func(f *ReqFilter) bool { return f.Valid() }) { return } ok = true return }",
   "{ if msg == nil { return } if len(msg.ReqFilters) == 0 { return } if !sliceAllFunc(msg.ReqFilters, func(f *ReqFilter) bool { return f.Valid() }) { return } ok = true return }"]

end Moc
