import MocModel.Sqlite

/-!
  `insertEvents` (handler/sqlite/insert.go) at the level of single driver calls: BeginTx, the five Prepare calls,
  then per event the upsert, and — when it affected a row — the payload insert, one insert per tag row and per
  tombstone row, and finally Commit; the deferred function rolls back when any call returned an error.

  `fails k` says whether the k-th driver call (1-based, in the order the function issues them) returns an error:
  the fault-injecting driver of the correspondence harness implements exactly this, and reports how many driver
  calls it saw (`points`), which the driver compares with `calls` below.

  Assumed (SQLite, named in the trusted base): Rollback and a failed Commit leave the database as it was at
  BeginTx; a successful Commit makes the working state the database.  Everything else — which statements are issued,
  in which order, when the function stops, what it reports — is the Go function's own logic and is modelled here.
-/

namespace Moc

/-! ### the five statements, one at a time -/

/-- `insertEventsQuery` (upsert) together with the two `after update` triggers that clear the displaced version's
    payload and tag rows; the flag is `affected != 0` -/
def Db.upsert (db : Db) (p : Params) : Db × Bool :=
  match db.events.find? (fun r => r.key == p.row.key) with
  | some old =>
    if upsertReplaces old p.row then
      ({ db with events := db.events.map (fun r => if r.key == p.row.key then p.row else r),
                 payloads := db.payloads.filter (fun q => q.1 != p.row.key),
                 tags := db.tags.filter (fun q => q.2.2 != p.row.key) }, true)
    else (db, false)
  | none => ({ db with events := db.events ++ [p.row] }, true)

def Db.addPayload (db : Db) (p : Params) : Db := { db with payloads := db.payloads ++ [(p.row.key, p.payload)] }
def Db.addTag (db : Db) (t : String × Int × SKey) : Db := { db with tags := db.tags ++ [t] }
def Db.addDelKey (db : Db) (d : SKey × String) : Db := { db with delKeys := insertSet db.delKeys d }
def Db.addDelId (db : Db) (d : String × String) : Db := { db with delIds := insertSet db.delIds d }

/-! ### the transaction -/

/-- working state of an open transaction and the number of driver calls issued so far -/
structure Tx where
  work : Db
  k : Nat
deriving Repr

/-- one driver call that changes the working state by `f`; `none` = it returned an error -/
def Tx.exec (fails : Nat → Bool) (t : Tx) (f : Db → Db) : Option Tx :=
  if fails (t.k + 1) then none else some { work := f t.work, k := t.k + 1 }

/-- `for _, row := range rows { if _, err := stmt.ExecContext(...); err != nil { return err } }` -/
def Tx.execRows {α} (fails : Nat → Bool) (f : Db → α → Db) : Tx → List α → Option Tx
  | t, [] => some t
  | t, x :: xs => match t.exec fails (fun d => f d x) with
    | none => none
    | some t' => Tx.execRows fails f t' xs

/-- the loop body for one event -/
def Tx.execEvent (fails : Nat → Bool) (t : Tx) (p : Params) : Option Tx :=
  if fails (t.k + 1) then none
  else
    let r := t.work.upsert p
    let t1 : Tx := { work := r.1, k := t.k + 1 }
    if !r.2 then some t1                                   -- `affected == 0`: continue
    else match t1.exec fails (fun db => db.addPayload p) with
      | none => none
      | some t2 => match Tx.execRows fails Db.addTag t2 p.tagRows with
        | none => none
        | some t3 => match Tx.execRows fails Db.addDelKey t3 p.delKeys with
          | none => none
          | some t4 => Tx.execRows fails Db.addDelId t4 p.delIds

def Tx.execBatch (fails : Nat → Bool) : Tx → List Params → Option Tx
  | t, [] => some t
  | t, p :: ps => match t.execEvent fails p with
    | none => none
    | some t' => Tx.execBatch fails t' ps

/-- number of the calls 1..n that do not fail before the first failing one, i.e. how far the prologue gets -/
def prologueOk (fails : Nat → Bool) : Bool := !(fails 1 || fails 2 || fails 3 || fails 4 || fails 5 || fails 6)

/-- result of `insertEvents`: the database afterwards and whether `nil` was returned -/
structure TxResult where
  db : Db
  ok : Bool
deriving Repr

/-- `insertEvents(ctx, db, seed, events)` under the fault plan `fails` -/
def Db.insertEventsTx (db : Db) (fails : Nat → Bool) (events : List Event) : TxResult :=
  let ps := events.filterMap buildParams
  if ps.isEmpty then { db := db, ok := true }                          -- `len(params) == 0`: nothing is begun
  else if !prologueOk fails then { db := db, ok := false }             -- BeginTx or a Prepare failed (rolled back)
  else match Tx.execBatch fails { work := db, k := 6 } ps with
    | none => { db := db, ok := false }                                -- deferred: err ≠ nil → Rollback
    | some t => if fails (t.k + 1) then { db := db, ok := false }      -- Commit failed
                else { db := t.work, ok := true }

/-- how many driver calls `insertEvents` issues when nothing fails (Begin, 5 × Prepare, the statements, Commit) -/
def Db.calls (db : Db) (events : List Event) : Nat :=
  let ps := events.filterMap buildParams
  if ps.isEmpty then 0
  else match Tx.execBatch (fun _ => false) { work := db, k := 6 } ps with
    | none => 0
    | some t => t.k + 1

/-- `bulkInsertWithRetry`: up to three attempts, each with its own fault plan; stops at the first success -/
def Db.insertWithRetry (db : Db) (plans : List (Nat → Bool)) (events : List Event) : TxResult :=
  match plans with
  | [] => { db := db, ok := false }
  | f :: rest =>
    let r := db.insertEventsTx f events
    if r.ok then r else r.db.insertWithRetry rest events

end Moc
