/-
  Model of RouterHandler's subscription registry and delivery (handler.go `subscribers`, `subscriber.SendIfMatch`,
  `RouterHandler.recv`; data_structure.go `safeMap`; utils.go `trySendCtx`) — C07.

  A labelled transition system at the granularity of the critical sections of `safeMap`:
    subscribe c s fs   `Subscribe`: the inner `Add` (plus the outer `Add` when the connection has no entry yet —
                        the outer write lock cannot be taken while a `Publish` holds the outer read lock)
    unsubscribe c s    `Unsubscribe`: the inner `Delete`
    unsubAll c         `UnsubscribeAll` (deferred by `ServeNostr`): the outer `Delete`, again excluded by publishes
    pubBegin p e       `Publish` takes the outer read lock: the set of connections it will visit is fixed
    visit p c          the inner `Loop` over connection c's subscriptions, under c's inner read lock:
                        `SendIfMatch` on each = `Match`, then the NON-BLOCKING `trySendCtx` into c's queue
    pubEnd p           the outer read lock is released
    deq c              c's forwarding goroutine takes the oldest message out of c's queue
  Several publishes may be in progress at once (read locks are shared); subscriptions of a connection that
  already has an entry may change between two visits of a publish.  Go's map iteration order is unspecified:
  the model visits in list order and the statements that depend on it are about sets.
-/
import MocModel.Matcher
import MocModel.Merge
import MocModel.Gen.Router

namespace Moc

abbrev Conn := Nat

/-- association lists keyed by connection number -/
def nGet {β} (l : List (Conn × β)) (k : Conn) : Option β := l.lookup k
def nSet {β} (l : List (Conn × β)) (k : Conn) (v : β) : List (Conn × β) := (k, v) :: l.filter (fun p => p.1 != k)
def nErase {β} (l : List (Conn × β)) (k : Conn) : List (Conn × β) := l.filter (fun p => p.1 != k)

structure Pub where
  e : Event
  todo : List Conn          -- connections of the outer map not yet visited
deriving Repr

structure RSt where
  buflen : Nat
  reg : List (Conn × List (String × List Filter)) := []   -- registry: connection ↦ subscription id ↦ filters
  q : List (Conn × List ServerMsg) := []                  -- outbound queue (`subCh`) of each connection
  pubs : List (Conn × Pub) := []                          -- publishes in progress, by publishing connection
deriving Repr

inductive RStep where
  | subscribe (c : Conn) (s : String) (fs : List Filter)
  | unsubscribe (c : Conn) (s : String)
  | unsubAll (c : Conn)
  | pubBegin (p : Conn) (e : Event)
  | visit (p : Conn) (c : Conn)
  | pubEnd (p : Conn)
  | deq (c : Conn)
deriving Repr

/-- `SendIfMatch` for every subscription of one connection, in order: the messages that `Match` selects -/
def matched (subs : List (String × List Filter)) (e : Event) : Res (List ServerMsg) :=
  match subs with
  | [] => .ok []
  | (s, fs) :: rest =>
    match matchAny fs e with
    | .panic => .panic
    | .ok b =>
      match matched rest e with
      | .panic => .panic
      | .ok ms => .ok (if Gen.routerSends b then .event s e :: ms else ms)

/-- `trySendCtx` on a channel of capacity `buflen`, one message after the other: those that found room -/
def enqueue (buflen : Nat) (q : List ServerMsg) : List ServerMsg → List ServerMsg
  | [] => q
  | m :: ms => if q.length < buflen then enqueue buflen (q ++ [m]) ms else enqueue buflen q ms

/-- is the step enabled (not blocked on a lock)?  Queue contents never matter. -/
def RSt.enabled (st : RSt) : RStep → Bool
  | .subscribe c _ _ => (nGet st.reg c).isSome || st.pubs.isEmpty      -- outer `Add` needs the write lock
  | .unsubAll _ => st.pubs.isEmpty
  | .pubBegin p _ => (nGet st.pubs p).isNone                            -- a connection's receive loop is serial
  | .visit p c => match nGet st.pubs p with
      | some pb => pb.todo.contains c
      | none => false
  | .pubEnd p => match nGet st.pubs p with
      | some pb => pb.todo.isEmpty
      | none => false
  | _ => true

/-- one step; the messages a `deq` hands to the connection's writer are returned -/
def RSt.step (st : RSt) : RStep → RSt × Res (List ServerMsg)
  | .subscribe c s fs => ({ st with reg := nSet st.reg c (alSet ((nGet st.reg c).getD []) s fs) }, .ok [])
  | .unsubscribe c s =>
    match nGet st.reg c with
    | none => (st, .ok [])
    | some subs => ({ st with reg := nSet st.reg c (alErase subs s) }, .ok [])
  | .unsubAll c => ({ st with reg := nErase st.reg c }, .ok [])
  | .pubBegin p e => ({ st with pubs := nSet st.pubs p { e := e, todo := st.reg.map (·.1) } }, .ok [])
  | .visit p c =>
    match nGet st.pubs p with
    | none => (st, .ok [])
    | some pb =>
      match matched ((nGet st.reg c).getD []) pb.e with
      | .panic => (st, .panic)
      | .ok ms =>
        ({ st with q := nSet st.q c (enqueue st.buflen ((nGet st.q c).getD []) ms),
                   pubs := nSet st.pubs p { pb with todo := pb.todo.filter (· != c) } }, .ok [])
  | .pubEnd p => ({ st with pubs := nErase st.pubs p }, .ok [])
  | .deq c =>
    match (nGet st.q c).getD [] with
    | [] => (st, .ok [])
    | m :: rest => ({ st with q := nSet st.q c rest }, .ok [m])

/-! ### the sequential operations of a client, as the harness drives them (each completes before the next) -/

/-- a whole `Publish`: begin, visit every connection of the registry, end -/
def RSt.publish (st : RSt) (p : Conn) (e : Event) : RSt × Res Unit :=
  let st1 := (st.step (.pubBegin p e)).1
  let rec go (st : RSt) : List Conn → RSt × Res Unit
    | [] => (st, .ok ())
    | c :: cs =>
      match st.step (.visit p c) with
      | (st', .panic) => (st', .panic)
      | (st', .ok _) => go st' cs
  match go st1 (st.reg.map (·.1)) with
  | (st2, .panic) => (st2, .panic)
  | (st2, .ok _) => ((st2.step (.pubEnd p)).1, .ok ())

/-- `RouterHandler.recv`: the direct reply of the session's receive loop -/
def routerReply : ClientMsg → Option ServerMsg
  | .req sub _ => some (.eose sub)
  | .event e => some (.ok e.id true "" "")
  | .close _ => none
  | .count sub _ => some (.count sub 0 none)
  | .auth _ => none

def routerActualSource : List String :=
  [Gen.routerSendIfMatch, Gen.routerReqReply, Gen.routerEventReply, Gen.routerCountReply, Gen.routerRecvBody, Gen.routerServeBody, Gen.routerSubscribeBody, Gen.routerUnsubscribeBody, Gen.routerUnsubAllBody, Gen.routerPublishBody, Gen.routerNewSubscriberBody, Gen.routerTrySendBody, Gen.safeMapTryGetBody, Gen.safeMapAddBody, Gen.safeMapDeleteBody, Gen.safeMapLoopBody]

/-- the source text the model was written against (lock discipline of safeMap, the three registry operations,
    the non-blocking send, the session loop): any edit of these functions breaks `router_source_pinned` -/
def routerExpectedSource : List String :=
  ["trySendCtx(context.TODO(), sub.Ch, ServerMsg(NewServerEventMsg(sub.SubscriptionID, event)))",
   "NewServerEOSEMsg(msg.SubscriptionID)",
   "NewServerOKMsg(msg.Event.ID, true, \"\", \"\")",
   "NewServerCountMsg(msg.SubscriptionID, 0, nil)",
   "{ switch msg := msg.(type) { case *ClientReqMsg: sub := newSubscriber(reqID, msg, subCh) router.subs.Subscribe(sub) return NewServerEOSEMsg(msg.SubscriptionID) case *ClientEventMsg: router.subs.Publish(msg.Event) return NewServerOKMsg(msg.Event.ID, true, \"\", \"\") case *ClientCloseMsg: router.subs.Unsubscribe(reqID, msg.SubscriptionID) return nil case *ClientCountMsg: return NewServerCountMsg(msg.SubscriptionID, 0, nil) default: return nil } }",
   "{ ctx, cancel := context.WithCancel(ctx) defer cancel() reqID := uuid.NewString() defer router.subs.UnsubscribeAll(reqID) subCh := make(chan ServerMsg, router.buflen) go func() { defer cancel() for { select { case <-ctx.Done(): return case msg := <-subCh: sendCtx(ctx, send, msg) } } }() defer cancel() for { select { case <-ctx.Done(): return ctx.Err() case msg, ok := <-recv: if !ok { return ErrRecvClosed } m := router.recv(ctx, reqID, msg, subCh) sendServerMsgCtx(ctx, send, m) } } }",
   "{ m, ok := subs.subs.TryGet(sub.ReqID) if !ok { m = newSafeMap[string, *subscriber]() subs.subs.Add(sub.ReqID, m) } m.Add(sub.SubscriptionID, sub) }",
   "{ m, ok := subs.subs.TryGet(reqID) if !ok { return } m.Delete(subID) }",
   "{ subs.subs.Delete(reqID) }",
   "{ subs.subs.Loop(func(_ string, m *safeMap[string, *subscriber]) { m.Loop(func(_ string, mm *subscriber) { mm.SendIfMatch(event) }) }) }",
   "{ return &subscriber{ ReqID: reqID, SubscriptionID: msg.SubscriptionID, Matcher: NewReqFiltersEventLimitMatcher(msg.ReqFilters), Ch: ch, } }",
   "{ select { case <-ctx.Done(): return false case ch <- v: return true default: return false } }",
   "{ m.mu.RLock() defer m.mu.RUnlock() v, ok := m.m[k] return v, ok }",
   "{ m.mu.Lock() defer m.mu.Unlock() m.m[k] = v }",
   "{ m.mu.Lock() defer m.mu.Unlock() delete(m.m, k) }",
   "{ m.mu.RLock() defer m.mu.RUnlock() for key, val := range m.m { f(key, val) } }"]

end Moc
