/-
  Driver framework: per input line a handler returns differences between model and
  implementation (`diffs`), monitor failures on the implementation's output (`mons`),
  histogram keys (`tags`) and whether the case is non-trivial.
-/
import MocModel.Wire
import Std.Data.HashMap
import Std.Data.HashSet
open Lean

namespace Moc.Drv

structure MonFail where
  monitor : String
  cls : String      -- short class identifying the failing clause (used for known findings)
  msg : String

structure Out where
  diffs : Array String := #[]
  mons : Array MonFail := #[]
  tags : Array String := #[]
  nontrivial : Bool := false
  key : String := ""    -- identity of the case for distinct counting ("" = use the raw line)

def Out.diff (o : Out) (s : String) : Out := { o with diffs := o.diffs.push s }
def Out.mon (o : Out) (m c s : String) : Out := { o with mons := o.mons.push ⟨m, c, s⟩ }
def Out.tag (o : Out) (s : String) : Out := { o with tags := o.tags.push s }

/-- a property handler with its own state type -/
structure Handler where
  σ : Type
  init : σ
  step : σ → Json → Except String (σ × Out)

structure Stats where
  lines : Nat := 0
  diffs : Nat := 0
  monfails : Nat := 0
  errors : Nat := 0
  nontrivial : Nat := 0
  seen : Std.HashSet UInt64 := {}
  hist : Std.HashMap String Nat := {}

partial def loop (h : Handler) (inp : IO.FS.Stream) (st : h.σ) (s : Stats) : IO Stats := do
  let line ← inp.getLine
  if line.isEmpty then return s
  if line.trimAscii.isEmpty then return (← loop h inp st s)
  let n := s.lines + 1
  match Json.parse line with
  | .error e =>
    IO.println s!"ERROR {n} bad json: {e}"
    loop h inp st { s with lines := n, errors := s.errors + 1 }
  | .ok j =>
    match h.step st j with
    | .error e =>
      IO.println s!"ERROR {n} {e}"
      loop h inp st { s with lines := n, errors := s.errors + 1 }
    | .ok (st', o) =>
      for d in o.diffs do IO.println s!"DIFF {n} {d}"
      for m in o.mons do IO.println s!"MONFAIL {n} {m.monitor} {m.cls} {m.msg}"
      let hist := o.tags.foldl (fun hm t => hm.insert t (hm.getD t 0 + 1)) s.hist
      let k := hash (if o.key.isEmpty then line else o.key)
      let isNew := o.nontrivial && !s.seen.contains k
      loop h inp st' { s with lines := n, diffs := s.diffs + o.diffs.size, monfails := s.monfails + o.mons.size,
                              nontrivial := s.nontrivial + (if isNew then 1 else 0),
                              seen := if isNew then s.seen.insert k else s.seen, hist := hist }

def run (h : Handler) : IO UInt32 := do
  let s ← loop h (← IO.getStdin) h.init {}
  let hist := Json.mkObj (s.hist.toList.map fun (k, v) => (k, Json.num (JsonNumber.fromNat v)))
  let summary := Json.mkObj [("evaluations", Json.num (JsonNumber.fromNat s.lines)),
    ("distinct_nontrivial", Json.num (JsonNumber.fromNat s.nontrivial)),
    ("diffs", Json.num (JsonNumber.fromNat s.diffs)), ("monfails", Json.num (JsonNumber.fromNat s.monfails)),
    ("errors", Json.num (JsonNumber.fromNat s.errors)), ("hist", hist)]
  IO.println s!"SUMMARY {summary.compress}"
  return 0

def resBoolStr : Res Bool → String
  | .ok true => "true"
  | .ok false => "false"
  | .panic => "panic"

end Moc.Drv
