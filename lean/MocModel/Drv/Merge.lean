import MocModel.Drv.Core
import MocModel.Spec.Merge
open Lean Moc.Wire

namespace Moc.Drv.MergeD

def step (_ : Unit) (j : Json) : Except String (Unit × Drv.Out) := do
  let op ← strF j "op"
  if op != "merge" then throw s!"unknown op {op}"
  let n ← natF j "n"
  let steps ← asArr (← fld j "steps")
  let mut st : MergeSt := { n := n }
  let mut mo : MergeSpec.Mon := { n := n }
  let mut o : Drv.Out := { nontrivial := true }
  o := o.tag s!"children.{n}"
  let mut idx := 0
  for s in steps do
    idx := idx + 1
    let k ← strF s "k"
    if k == "client" then
      let m ← clientMsg (← fld s "msg")
      st := st.client m
      mo := MergeSpec.stepClient mo m
      o := o.tag "step.client"
    else
      let i ← natF s "i"
      let m ← serverMsg (← fld s "msg")
      let out ← asList serverMsg (← fld s "out")
      let (st', r) := st.child i m
      st := st'
      let mout : List ServerMsg := match r with | .ok (some x) => [x] | _ => []
      o := o.tag (if out.isEmpty then "step.child.dropped" else "step.child.forwarded")
      if mout != out then
        o := o.diff s!"step {idx}: child {i} emits {(serverMsgJ m).compress}: client got {(jList serverMsgJ out).compress}, model {(jList serverMsgJ mout).compress}"
      let (mo', fails) := MergeSpec.stepChild mo i m out
      mo := mo'
      for f in fails do
        o := o.mon f.mon f.cls s!"step {idx}: {f.msg}"
  -- the harness gave up on a step after ten seconds: the merged session no longer takes input or hands over output
  if fldD j "stalled" == Json.bool true then
    o := o.diff s!"the session stalled after step {idx}: a message could not be handed to / taken from the merged handler within 10 s"
    for mon in ["stream", "eose", "ok", "count"] do
      o := o.mon mon "stalled" s!"the merged session stopped responding after step {idx} of this trace (no progress within 10 s): pending requests are never answered"
  pure ((), o)

def handler : Drv.Handler := { σ := Unit, init := (), step := step }

end Moc.Drv.MergeD
