import MocModel.Drv.Core
import MocModel.Sites
open Lean Moc.Wire

namespace Moc.Drv.TermD

def intF (j : Json) (k : String) : Except String Int := do
  match (← fld j k) with
  | .num n => pure n.mantissa
  | _ => throw s!"{k}: not a number"

def numI (j : Json) : Int :=
  match j with
  | .num n => if n.exponent == 0 then n.mantissa else n.mantissa / (10 ^ n.exponent)
  | _ => 0

def step (_ : Unit) (j : Json) : Except String (Unit × Drv.Out) := do
  let op ← strF j "op"
  let out ← fld j "out"
  let mut o : Drv.Out := { nontrivial := true }
  if op == "c13" then
    let ending ← strF j "ending"
    let peer ← strF j "peer"
    let spec ← fld j "spec"
    let bases := match spec.getObjValD "bases" with | .arr a => a.toList.filterMap (fun (x : Json) => x.getStr?.toOption) | _ => []
    o := o.tag s!"end.{ending}.{peer}"
    o := o.tag s!"bases.{bases.length}"
    for b in bases.eraseDups do o := o.tag s!"base.{b}"
    let nm := match spec.getObjValD "mws" with | .arr a => a.size | _ => 0
    o := o.tag s!"middlewares.{nm}"
    if spec.getObjValD "prom" == Json.bool true then o := o.tag "prometheus"
    let hist := match j.getObjValD "hist" with | .arr a => a.size | _ => 0
    let cut := numI (j.getObjValD "cut")
    o := o.tag (if cut == 0 then "cut.start" else if cut.toNat ≥ hist then "cut.end" else "cut.middle")
    if hist > 30 then o := o.tag "history.long"
    let got : TermOut := {
      returned := out.getObjValD "returned" == Json.bool true,
      leftover := numI (out.getObjValD "leftover"), registry := numI (out.getObjValD "registry"),
      conn := numI (out.getObjValD "conn"), req := numI (out.getObjValD "req") }
    if got != sessionEnd then
      o := o.diff s!"session of {spec.compress} cut at {cut}/{hist} by {ending} with a {peer}ing peer: returned={got.returned} leftover goroutines={got.leftover} registry={got.registry} connection gauge={got.conn} subscription gauge={got.req}; the model predicts a clean end"
    if !got.returned then
      o := o.mon "termination" "not-returned" s!"ServeNostr of {spec.compress} did not return within 5 s after {ending} at message {cut}/{hist} ({peer}ing peer)"
    if got.leftover > 0 then
      o := o.mon "termination" "leaked-goroutine" s!"{got.leftover} goroutine(s) of the session of {spec.compress} still exist 3 s after it ended ({ending} at {cut}/{hist}, {peer}ing peer): {((out.getObjValD "sample").getStr?.toOption.getD "").take 300}"
    if got.registry != 0 then
      o := o.mon "termination" "registry-left" s!"the router registry still holds {got.registry} entries after the only session ended ({ending} at {cut}/{hist}, {peer}ing peer)"
    if got.conn != 0 || got.req != 0 then
      o := o.mon "termination" "gauge-left" s!"gauges after the session ended: connections {got.conn}, subscriptions {got.req}"
    pure ((), o)
  else if op == "c13ws" then
    let st := numI (j.getObjValD "send_timeout_ms")
    let ping := numI (j.getObjValD "ping_ms")
    o := o.tag s!"ws.sendTimeout.{st}.ping.{ping}"
    let ended := out.getObjValD "ended" == Json.bool true
    if out.getObjValD "dial_error" != Json.null then throw "websocket dial failed"
    if ended != writeBounded ping st then
      o := o.diff s!"non-reading WebSocket peer, SendTimeout {st} ms, PingDuration {ping} ms: session ended={ended}, the model (sendMsgWithTimeout's guard) says {writeBounded ping st}"
    if st > 0 && !ended then
      o := o.mon "termination" "ws-not-dropped" s!"a WebSocket peer that stopped reading was not dropped within SendTimeout {st} ms + 3 s (PingDuration {ping} ms)"
    let left := numI (out.getObjValD "leftover")
    if left > 0 then
      o := o.diff s!"WebSocket session (SendTimeout {st} ms, PingDuration {ping} ms): {left} goroutine(s) of the relay are left after the session and the server were closed"
      o := o.mon "termination" "ws-goroutine-left" s!"{left} goroutine(s) of the relay outlive the WebSocket session (SendTimeout {st} ms, PingDuration {ping} ms): {(out.getObjValD "sample").compress.take 400}"
    pure ((), o)
  else if op == "c13wsidle" then
    let ping := numI (j.getObjValD "ping_ms")
    o := o.tag s!"ws.idle.ping.{ping}"
    if out.getObjValD "dial_error" != Json.null then throw "websocket dial failed"
    if out.getObjValD "ended" != Json.bool true then
      o := o.diff s!"idle WebSocket session (PingDuration {ping} ms): the handler's context was not cancelled within 4 s of the peer going away"
      o := o.mon "termination" "ws-idle-not-ended" s!"an idle WebSocket session whose peer went away (ping every {ping} ms waiting for its pong) did not end within 4 s"
    let left := numI (out.getObjValD "leftover")
    if left > 0 then
      o := o.diff s!"idle WebSocket session (PingDuration {ping} ms): {left} goroutine(s) of the relay are left after the peer went away"
      o := o.mon "termination" "ws-goroutine-left" s!"{left} goroutine(s) of the relay outlive an idle WebSocket session that ended while a ping waited for its pong (PingDuration {ping} ms): {(out.getObjValD "sample").compress.take 400}"
    pure ((), o)
  else if op == "c13busy" then
    let n := numI (j.getObjValD "events")
    o := o.tag s!"sqlite.busy-store.events.{n}"
    if out.getObjValD "returned" != Json.bool true then
      o := o.diff s!"SQLite handler with a busy store ({n} EVENTs, insert queue of 2): ServeNostr did not return within 3 s of the cancellation"
      o := o.mon "termination" "busy-store-not-returned" s!"a session on the SQLite handler whose store is busy (insert queue full after {numI (out.getObjValD "handed")} EVENTs) did not end within 3 s of its context being cancelled"
    let left := numI (out.getObjValD "leftover")
    if left > 0 then
      o := o.diff s!"SQLite handler with a busy store: {left} goroutine(s) left after the session and the handler ended"
      o := o.mon "termination" "leaked-goroutine" s!"{left} goroutine(s) outlive a session on the SQLite handler whose store was busy: {(out.getObjValD "sample").compress.take 400}"
    pure ((), o)
  else throw s!"unknown op {op}"

def handler : Drv.Handler := { σ := Unit, init := (), step := step }

end Moc.Drv.TermD
