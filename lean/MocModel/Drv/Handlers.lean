import MocModel.Drv.Core
import MocModel.Spec.Handlers
import MocModel.Drv.Cache
import MocModel.Spec.Sqlite
open Lean Moc.Wire

namespace Moc.Drv.HandlersD

structure St where
  c : Cache := { cap := 0 }
  shown : List Event := []   -- what a match-everything REQ would list (tracked from the model)
  db : Db := {}              -- SQLite handler: the model's tables (every EVENT is a batch of one)
  hist : List Event := []    -- SQLite handler: the EVENTs sent so far

def listing (c : Cache) : List Event := match c.find id [{}] with | .ok l => l | .panic => []

def step (st : St) (j : Json) : Except String (St × Drv.Out) := do
  let op ← strF j "op"
  match op with
  | "reset" => pure ({ c := { cap := ← intF j "cap" }, db := {}, hist := [] }, { nontrivial := false })
  | "msg" =>
    let m ← clientMsg (← fld j "msg")
    let impl ← asList serverMsg (← fld j "out")
    if fldD j "stalled" == Json.bool true then
      return (st, ({ nontrivial := true } : Drv.Out).mon "replies" "cache.stalled" s!"the cache handler did not finish serving {(clientMsgJ m).compress} within 20 s")
    let before := st.c.evs   -- the retained set (order is irrelevant to the monitors)
    let (c', r) := cacheReply st.c m
    let mut o : Drv.Out := { nontrivial := true }
    o := o.tag s!"cache.{match m with | .event _ => "EVENT" | .req _ _ => "REQ" | .count _ _ => "COUNT" | .close _ => "CLOSE" | .auth _ => "AUTH"}"
    match r with
    | .panic => o := o.diff "model panics"
    | .ok mr => if mr != impl then o := o.diff s!"cache handler replies to {(clientMsgJ m).compress}: impl={(jList serverMsgJ impl).compress} model={(jList serverMsgJ mr).compress}"
    -- property monitor (shape, verdict, content)
    let accept : Option Bool := match m with
      | .event e =>
        if CacheSpec.classOf e.kind == .ephemeral then none
        else
          -- accepting iff newly stored: judged on the store's listing before/after in the model-independent spec
          let dup := before.any (·.id == e.id)
          let older := before.any fun x => CacheSpec.sameSlot x e && x.createdAt > e.createdAt
          let tie := before.any fun x => CacheSpec.sameSlot x e && x.createdAt == e.createdAt && x.id != e.id
          let sup := before.any fun k5 => CacheSpec.mustDelete k5 e
          let maySup := before.any fun k5 => CacheSpec.mayDelete k5 e
          if dup || older || sup then some false else if tie || maySup then none else some true
      | _ => none
    match HandlerSpec.replyShapeOk m impl accept with
    | some err => o := o.mon "replies" "cache.shape" s!"{(clientMsgJ m).compress} -> {(jList serverMsgJ impl).compress}: {err}"
    | none => pure ()
    match m, impl with
    | .event e, [.ok _ false pfx _] =>
      if before.any (· == e) && pfx != "duplicate: " then
        o := o.mon "replies" "cache.dup-prefix" s!"re-submitted stored event {e.id} rejected without the duplicate: prefix"
    | .req _ fs, _ =>
      let evs := impl.filterMap fun r => match r with | .event _ e => some e | _ => none
      if fs.all (fun f => decide f.WF) && before.all (fun e => e.tags.all (· != [])) then
        let v := CacheSpec.findAllowed before fs evs
        if !v.ok then o := o.mon "replies" s!"cache.req-{v.cls}" s!"REQ {(jList filterJ fs).compress} over {CacheD.evIds before} = {CacheD.evIds evs}: {v.msg}"
    | _, _ => pure ()
    pure ({ st with c := c' }, o)
  | "dumprestore" =>
    let out ← fld j "out"
    let dumped ← asList event (← fld out "dump")
    let qs ← asArr (← fld out "queries")
    let mut o : Drv.Out := { nontrivial := true }
    o := o.tag s!"dump.n{min dumped.length 6}"
    -- model: dump, restore into an empty cache of the same capacity
    let md := match dump st.c with | .ok l => l | .panic => []
    if md != dumped then o := o.diff s!"Dump: impl={CacheD.evIds dumped} model={CacheD.evIds md}"
    let rc := restore { cap := st.c.cap } md
    for q in qs do
      let fs ← asList filter (← fld q "fs")
      let orig ← asList event (← fld q "orig")
      let rest ← asList event (← fld q "restored")
      if orig != rest then
        o := o.mon "dumprestore" "answers-differ" s!"after Dump/Restore REQ {(jList filterJ fs).compress}: original={CacheD.evIds orig} restored={CacheD.evIds rest}"
      -- both answers are REQ answers: judged like any other, over the store's own listing (the dump)
      if fs.all (fun f => decide f.WF) && dumped.all (fun e => e.tags.all (· != [])) then
        let v := CacheSpec.findAllowed dumped fs orig
        if !v.ok then o := o.mon "replies" s!"cache.req-{v.cls}" s!"REQ {(jList filterJ fs).compress} over {CacheD.evIds dumped} = {CacheD.evIds orig}: {v.msg}"
        let w := CacheSpec.findAllowed dumped fs rest
        if !w.ok then o := o.mon "dumprestore" s!"restored-{w.cls}" s!"restored store: REQ {(jList filterJ fs).compress} over {CacheD.evIds dumped} = {CacheD.evIds rest}: {w.msg}"
      match st.c.find id fs, rc.find id fs with
      | .ok a, .ok b =>
        if a != orig then o := o.diff s!"query on original: impl={CacheD.evIds orig} model={CacheD.evIds a}"
        if b != rest then o := o.diff s!"query on restored: impl={CacheD.evIds rest} model={CacheD.evIds b}"
      | _, _ => o := o.diff "model panics on dump/restore query"
    pure (st, o)
  | "sqlmsg" =>
    let m ← clientMsg (← fld j "msg")
    let impl ← asList serverMsg (← fld j "out")
    let mut o : Drv.Out := { nontrivial := true }
    o := o.tag "sqlite.msg"
    if fldD j "stalled" == Json.bool true then
      return (st, o.mon "replies" "sqlite.stalled" s!"the SQLite handler did not finish serving {(clientMsgJ m).compress} within 20 s")
    let accept := match m with | .event _ => some true | _ => none
    match HandlerSpec.replyShapeOk m impl accept with
    | some err => o := o.mon "replies" "sqlite.shape" s!"{(clientMsgJ m).compress} -> {(jList serverMsgJ impl).compress}: {err}"
    | none => pure ()
    let mut st := st
    match m with
    | .count _ _ => if impl != [ServerMsg.count (match m with | .count s _ => s | _ => "") 0 none] then o := o.diff "sqlite COUNT reply differs from COUNT 0"
    | .event e => st := { st with db := st.db.insertBatch [e], hist := st.hist ++ [e] }
    | .req _ fs =>
      -- content: judged only when the harness saw its barrier event stored (all earlier EVENTs processed)
      if (fldD j "synced") == Json.bool true then
        o := o.tag "sqlite.req-synced"
        let got := impl.filterMap fun r => match r with | .event _ e => some e | _ => none
        match st.db.candidates fs with
        | none => o := o.tag "sqlite.req-unbuildable"
        | some cands =>
          let bad := SqliteSpec.judgeAnswer cands got
          if !bad.isEmpty then
            o := o.diff s!"sqlite handler REQ {(jList filterJ fs).compress}: answer {got.map (·.id)} is not an answer of the model's tables: {bad.map (·.2)}"
          for (cls, msg) in SqliteSpec.judgeAnswer (SqliteSpec.owed st.hist fs got) got do
            o := o.mon "replies" s!"sqlite.req-{cls}" s!"REQ {(jList filterJ fs).compress}: {msg}"
      else o := o.tag "sqlite.req-unsynced"
    | _ => pure ()
    pure (st, o)
  | _ => throw s!"unknown op {op}"

def handler : Drv.Handler := { σ := St, init := {}, step := step }

end Moc.Drv.HandlersD
