import MocModel.Drv.Core
import MocModel.Cache
import MocModel.CacheC
import MocModel.Spec.Cache
open Lean Moc.Wire

namespace Moc.Drv.CacheD

structure St where
  c : Cache := { cap := 0 }
  cc : CCache := CCache.init 0   -- the concrete model (tree and index as maintained state)
  shown : List Event := []      -- the implementation's last match-everything listing
  started : Bool := false

def short (s : String) : String := (s.takeEnd 4).toString

def evIds (es : List Event) : String := toString (es.map fun e => short e.id)

def resEvents : Res (List Event) → Option (List Event)
  | .ok l => some l
  | .panic => none

def inClaimF (f : Filter) : Bool := decide f.WF
def inClaimE (e : Event) : Bool := e.tags.all (· != [])

def sameSet (a b : List String) : Bool := a.length == b.length && a.all b.contains && b.all a.contains

def idxKeyOf (w : String) (v : List String) : Option IdxKey :=
  match w, v with
  | "id", [x] => some (.id x)
  | "author", [x] => some (.author x)
  | "kind", [x] => x.toInt?.map IdxKey.kind
  | "tag", [n, x] => some (.tag n x)
  | _, _ => none

/-- differences between the concrete model's tables and the implementation's (hook `VerifState`) -/
def stateDiffs (cc : CCache) (st : Json) : Except String (List String) := do
  let strs := asList asStr
  let evs ← asList strs (← fld st "evs")
  let tree ← asList strs (← fld st "tree")
  let index ← asList (fun j => do pure ((← strF j "w"), (← strs (← fld j "v")), (← strs (← fld j "ids")))) (← fld st "index")
  let deleted ← asList (fun j => do pure ((← strF j "key"), (← strF j "pubkey"), (← strs (← fld j "ids")))) (← fld st "deleted")
  let mut d : List String := []
  -- c.evs
  let mEvs := cc.a.evs.map fun e => s!"{eventKey e}|{e.id}"
  let iEvs := evs.map fun p => s!"{p.getD 0 ""}|{p.getD 1 ""}"
  if !sameSet mEvs iEvs then d := d ++ [s!"evs map: impl={iEvs} model={mEvs}"]
  -- evsCreatedAt, in iteration order
  let mTree := cc.tree.map fun e => [toString e.createdAt, e.id, e.id]
  if mTree != tree then d := d ++ [s!"tree: impl={tree} model={mTree}"]
  -- evsIndex.idx
  if index.length != cc.idx.length then d := d ++ [s!"index: impl has {index.length} keys, model {cc.idx.length}"]
  for (w, v, ids) in index do
    match idxKeyOf w v with
    | none => d := d ++ [s!"index: unknown key {w} {v}"]
    | some k =>
      let m := (ixGet cc.idx k).map (·.id)
      if !sameSet m ids then d := d ++ [s!"index[{w} {v}]: impl={ids} model={m}"]
  -- deleted
  let mDel := cc.a.deleted.map fun t => s!"{t.1}|{t.2.1}|{t.2.2}"
  let iDel := deleted.flatMap fun (k, p, ids) => ids.map fun i => s!"{k}|{p}|{i}"
  if !sameSet mDel iDel then d := d ++ [s!"deleted registry: impl={iDel} model={mDel}"]
  if deleted.any (fun (_, _, ids) => ids.isEmpty) then d := d ++ ["deleted registry: impl keeps an empty set"]
  pure d

/-- registrations (key, author, request id) of the implementation's registry whose request is not in its own map -/
def registryOrphans (st : Json) : Except String (List (String × String × String)) := do
  let strs := asList asStr
  let evs ← asList strs (← fld st "evs")
  let deleted ← asList (fun j => do pure ((← strF j "key"), (← strF j "pubkey"), (← strs (← fld j "ids")))) (← fld st "deleted")
  let ids := evs.map fun p => p.getD 1 ""
  pure (deleted.flatMap fun (k, p, rs) => (rs.filter fun r => !ids.contains r).map fun r => (k, p, r))

def monOf (cls : String) : String :=
  if cls.startsWith "isolation" || cls == "not-deleted" || cls == "flag-suppressed" then "deletion" else "retention"

def step (st : St) (j : Json) : Except String (St × Drv.Out) := do
  let op ← strF j "op"
  match op with
  | "reset" =>
    let cap ← intF j "cap"
    pure ({ c := { cap := cap }, cc := CCache.init cap, shown := [], started := true }, { nontrivial := false, tags := #[s!"cap.{cap}"] })
  | "add" =>
    let e ← event (← fld j "e")
    let out ← fld j "out"
    let added ← boolF out "added"
    let len ← intF out "len"
    let all ← asList event (← fld out "all")
    let (c', mAdded) := st.c.add e
    let mAll := resEvents (c'.find id [{}])
    let mut o : Drv.Out := { nontrivial := true }
    o := o.tag s!"add.{if added then "new" else "old"}"
    o := o.tag s!"class.{repr (CacheSpec.classOf e.kind)}"
    if mAdded != added then o := o.diff s!"Add({short e.id}) flag: impl={added} model={mAdded}"
    if c'.len != len then o := o.diff s!"Len: impl={len} model={c'.len}"
    if mAll != some all then o := o.diff s!"listing after Add({short e.id}): impl={evIds all} model={(mAll.map evIds)}"
    -- the concrete model: same flag, and the same tables as the implementation's own
    let (cc', cAdded) := st.cc.add e
    if cAdded != added then o := o.diff s!"Add({short e.id}) flag: impl={added} concrete model={cAdded}"
    match fldD out "state" with
    | Json.null => pure ()
    | sj =>
      o := o.tag "state.compared"
      for m in (← stateDiffs cc' sj) do o := o.diff s!"internal tables after Add({short e.id}): {m}"
      -- judged on the implementation's own tables: a registration whose request is not retained blocks its
      -- target although no retained deletion request stands behind it (the block can never lift)
      for (k, p, r) in (← registryOrphans sj) do
        o := o.mon "deletion" "registry-orphan" s!"after Add({short e.id}) the registry still blocks key {k} for author {short p} on behalf of request {short r}, which is not retained"
    if (all.length : Int) == st.c.cap then o := o.tag "full"
    -- property monitors on the implementation's own successive listings
    if inClaimE e then
      let v := CacheSpec.stepAllowed st.c.cap st.shown e all added
      if !v.ok then
        o := o.mon (monOf v.cls) v.cls s!"Add({(eventJ e).compress}) -> {added}; before={evIds st.shown} after={evIds all}: {v.msg}"
      if len != all.length then
        o := o.mon "retention" "len" s!"Len()={len} but the listing has {all.length} events"
    pure ({ st with c := c', cc := cc', shown := all }, o)
  | "find" =>
    let fs ← asList filter (← fld j "fs")
    let out ← fld j "out"
    let pan := (fldD out "panic") == Json.bool true
    let res ← (if pan then pure [] else do asList event (← fld out "res"))
    let m := st.c.find id fs
    let mut o : Drv.Out := { nontrivial := !fs.isEmpty }
    o := o.tag (if fs.any isFullScanFilter then "find.scan" else "find.index")
    o := o.tag s!"find.n{min res.length 5}"
    match m, pan with
    | .panic, true => pure ()
    | .panic, false => o := o.diff "Find: model panics, impl does not"
    | .ok _, true => o := o.diff "Find: impl panics, model does not"
    | .ok r, false => if r != res then o := o.diff s!"Find({(jList filterJ fs).compress}): impl={evIds res} model={evIds r}"
    match st.cc.find id fs, pan with
    | .ok r, false => if r != res then o := o.diff s!"Find({(jList filterJ fs).compress}): impl={evIds res} concrete model={evIds r}"
    | .panic, false => o := o.diff "Find: concrete model panics, impl does not"
    | .ok _, true => o := o.diff "Find: impl panics, concrete model does not"
    | .panic, true => pure ()
    if fs.all inClaimF && st.shown.all inClaimE then
      if pan then o := o.mon "query" "panic" s!"Find panicked on {(jList filterJ fs).compress}"
      else
        let v := CacheSpec.findAllowed st.shown fs res
        if !v.ok then
          o := o.mon "query" v.cls s!"Find({(jList filterJ fs).compress}) over {evIds st.shown} = {evIds res}: {v.msg}"
    else o := o.tag "outside-claim"
    pure (st, o)
  | _ => throw s!"unknown op {op}"

def handler : Drv.Handler := { σ := St, init := {}, step := step }

end Moc.Drv.CacheD
