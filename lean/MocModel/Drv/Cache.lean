import MocModel.Drv.Core
import MocModel.Cache
import MocModel.Spec.Cache
open Lean Moc.Wire

namespace Moc.Drv.CacheD

structure St where
  c : Cache := { cap := 0 }
  shown : List Event := []      -- the implementation's last match-everything listing
  started : Bool := false

def short (s : String) : String := (s.takeEnd 4).toString

def evIds (es : List Event) : String := toString (es.map fun e => short e.id)

def resEvents : Res (List Event) → Option (List Event)
  | .ok l => some l
  | .panic => none

def inClaimF (f : Filter) : Bool := decide f.WF
def inClaimE (e : Event) : Bool := e.tags.all (· != [])

def monOf (cls : String) : String :=
  if cls.startsWith "isolation" || cls == "not-deleted" || cls == "flag-suppressed" then "deletion" else "retention"

def step (st : St) (j : Json) : Except String (St × Drv.Out) := do
  let op ← strF j "op"
  match op with
  | "reset" =>
    let cap ← intF j "cap"
    pure ({ c := { cap := cap }, shown := [], started := true }, { nontrivial := false, tags := #[s!"cap.{cap}"] })
  | "add" =>
    let e ← event (← fld j "e")
    let out ← fld j "out"
    let added ← boolF out "added"
    let len ← intF out "len"
    let all ← asList event (← fld out "all")
    let (c', mAdded) := st.c.add e
    let mAll := resEvents (c'.find id [{}])
    let mut o : Drv.Out := { nontrivial := true }
    o := o.tag s!"add.{if added then "new" else "old"}"
    o := o.tag s!"class.{repr (CacheSpec.classOf e.kind)}"
    if mAdded != added then o := o.diff s!"Add({short e.id}) flag: impl={added} model={mAdded}"
    if c'.len != len then o := o.diff s!"Len: impl={len} model={c'.len}"
    if mAll != some all then o := o.diff s!"listing after Add({short e.id}): impl={evIds all} model={(mAll.map evIds)}"
    if (all.length : Int) == st.c.cap then o := o.tag "full"
    -- property monitors on the implementation's own successive listings
    if inClaimE e then
      let v := CacheSpec.stepAllowed st.c.cap st.shown e all added
      if !v.ok then
        o := o.mon (monOf v.cls) v.cls s!"Add({(eventJ e).compress}) -> {added}; before={evIds st.shown} after={evIds all}: {v.msg}"
      if len != all.length then
        o := o.mon "retention" "len" s!"Len()={len} but the listing has {all.length} events"
    pure ({ st with c := c', shown := all }, o)
  | "find" =>
    let fs ← asList filter (← fld j "fs")
    let out ← fld j "out"
    let pan := (fldD out "panic") == Json.bool true
    let res ← (if pan then pure [] else do asList event (← fld out "res"))
    let m := st.c.find id fs
    let mut o : Drv.Out := { nontrivial := !fs.isEmpty }
    o := o.tag (if fs.any isFullScanFilter then "find.scan" else "find.index")
    o := o.tag s!"find.n{min res.length 5}"
    match m, pan with
    | .panic, true => pure ()
    | .panic, false => o := o.diff "Find: model panics, impl does not"
    | .ok _, true => o := o.diff "Find: impl panics, model does not"
    | .ok r, false => if r != res then o := o.diff s!"Find({(jList filterJ fs).compress}): impl={evIds res} model={evIds r}"
    if fs.all inClaimF && st.shown.all inClaimE then
      if pan then o := o.mon "query" "panic" s!"Find panicked on {(jList filterJ fs).compress}"
      else
        let v := CacheSpec.findAllowed st.shown fs res
        if !v.ok then
          o := o.mon "query" v.cls s!"Find({(jList filterJ fs).compress}) over {evIds st.shown} = {evIds res}: {v.msg}"
    else o := o.tag "outside-claim"
    pure (st, o)
  | _ => throw s!"unknown op {op}"

def handler : Drv.Handler := { σ := St, init := {}, step := step }

end Moc.Drv.CacheD
