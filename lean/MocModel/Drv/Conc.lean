import MocModel.Drv.Core
import MocModel.Linearize
import MocModel.Spec.Cache
import MocModel.Drv.Cache
open Lean Moc.Wire

namespace Moc.Drv.ConcD

def callOf (j : Json) : Except String CCall := do
  let k ← strF j "k"
  let inv ← natF j "inv"
  let res ← natF j "res"
  let out ← fld j "out"
  match k with
  | "add" => pure { op := .add (← event (← fld j "e")), inv, res, out := .added (← boolF out "added") }
  | "find" =>
    let o : COut ← (if fldD out "panic" == .bool true then pure COut.panic else do pure (COut.found (← asList event (← fld out "res"))))
    pure { op := .find (← asList filter (← fld j "fs")), inv, res, out := o }
  | "len" => pure { op := .len, inv, res, out := .len (← intF out "len") }
  | _ => throw s!"unknown call {k}"

/-- the three "in particular" clauses of C15 on one listing -/
def listingBad (cap : Int) (l : List Event) : Option (String × String) :=
  if (l.length : Int) > cap then some ("capacity", s!"a query shows {l.length} events, capacity {cap}")
  else if l.any (fun a => l.any fun b => a != b && (CacheSpec.addrOf a).isSome && CacheSpec.addrOf a == CacheSpec.addrOf b) then
    some ("two-versions", "a query shows two versions of one address")
  else match l.find? (fun x => l.any fun k5 => CacheSpec.mustDelete k5 x) with
    | some x => some ("deleted-shown", s!"a query shows {x.id} together with a retained deletion request of its author that references it")
    | none => none

def step (_ : Unit) (j : Json) : Except String (Unit × Drv.Out) := do
  let op ← strF j "op"
  if op != "conc" && op != "concbig" then throw s!"unknown op {op}"
  let cap ← intF j "cap"
  let pre ← (if op == "conc" then do asList event (← fld j "pre") else pure [])
  let calls ← asList callOf (← fld j "ops")
  let c0 := pre.foldl (fun c e => (c.add e).1) ({ cap := cap } : Cache)
  let mut o : Drv.Out := { nontrivial := calls.length ≥ 2 }
  o := o.tag s!"conc.calls{min calls.length 12}"
  if fldD j "race" == .bool true then
    o := o.mon "concurrency" "data-race" "the Go race detector reported a data race in this run"
  -- property clauses on every listing shown
  for c in calls do
    match c.op, c.out with
    | .find fs, .found es =>
      if fs.any (· == {}) then   -- an unconstrained filter among them: the answer is a listing of the whole store
        match listingBad cap es with
        | some (cls, msg) => o := o.mon "concurrency" cls msg
        | none => pure ()
    | _, .panic => o := o.mon "concurrency" "panic" "a query panicked under concurrency"
    | _, _ => pure ()
  if op == "concbig" then
    o := o.tag "big"
    return ((), o)
  if calls.any (fun a => calls.any fun b => a.inv < b.inv && b.inv < a.res) then o := o.tag "overlapping"
  -- linearizability against the sequential model
  let pending := List.range calls.length
  match linearize calls calls.length pending c0 with
  | some order =>
    if !witnessValid calls order c0 then o := o.diff "linearization witness does not validate (checker error)"
    o := o.tag "linearizable"
  | none =>
    o := o.diff "no linearization of the recorded history reproduces the results on the model"
    o := o.mon "concurrency" "not-linearizable" s!"no sequential order consistent with real time explains the {calls.length} recorded results"
  pure ((), o)

def handler : Drv.Handler := { σ := Unit, init := (), step := step }

end Moc.Drv.ConcD
