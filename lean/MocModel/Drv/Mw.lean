import MocModel.Drv.Core
import MocModel.Spec.Mw
open Lean Moc.Wire

namespace Moc.Drv.MwD

def mwOf (j : Json) : Except String Mw := do
  match ← strF j "k" with
  | "maxSubs" => pure (.maxSubs (← intF j "n"))
  | "maxFilters" => pure (.maxFilters (← intF j "n"))
  | "maxLimit" => pure (.maxLimit (← intF j "n"))
  | "maxSubIDLen" => pure (.maxSubIDLen (← intF j "n"))
  | "maxEventTags" => pure (.maxEventTags (← intF j "n"))
  | "maxContentLen" => pure (.maxContentLen (← intF j "n"))
  | "createdAtLower" => pure (.createdAtLower (← intF j "n"))
  | "createdAtUpper" => pure (.createdAtUpper (← intF j "n"))
  | "eventCreatedAt" => pure (.eventCreatedAt (← intF j "from") (← intF j "to"))
  | "allow" => pure (.allow (← asList filter (← fld j "fs")))
  | "deny" => pure (.deny (← asList filter (← fld j "fs")))
  | "recvUnique" => pure (.recvUnique (← natF j "n"))
  | "sendUnique" => pure (.sendUnique (← natF j "n"))
  | k => throw s!"unknown middleware {k}"

def limOf (j : Json) : Except String Limitation := do
  pure { maxSubscriptions := ← intF j "max_subscriptions", maxFilters := ← intF j "max_filters",
         maxLimit := ← intF j "max_limit", maxEventTags := ← intF j "max_event_tags",
         maxContentLength := ← intF j "max_content_length",
         createdAtLowerLimit := ← intF j "created_at_lower_limit",
         createdAtUpperLimit := ← intF j "created_at_upper_limit" }

def mwName : Mw → String
  | .maxSubs _ => "maxSubs" | .maxFilters _ => "maxFilters" | .maxLimit _ => "maxLimit"
  | .maxSubIDLen _ => "maxSubIDLen" | .maxEventTags _ => "maxEventTags" | .maxContentLen _ => "maxContentLen"
  | .createdAtLower _ => "createdAtLower" | .createdAtUpper _ => "createdAtUpper"
  | .eventCreatedAt _ _ => "eventCreatedAt" | .allow _ => "allow" | .deny _ => "deny"
  | .recvUnique _ => "recvUnique" | .sendUnique _ => "sendUnique"

def step (_ : Unit) (j : Json) : Except String (Unit × Drv.Out) := do
  let op ← strF j "op"
  if op != "mw" then throw s!"unknown op {op}"
  -- the stack: explicit, or derived from a NIP-11 document
  let docJ := fldD j "nip11"
  let mut o : Drv.Out := { nontrivial := true }
  let stack : List Mw ← (do
    match docJ with
    | .null => asList mwOf (← fld j "stack")
    | d =>
      let isNil ← boolF d "nil"
      let doc : Nip11Doc ← (if isNil then pure none else do
        match fldD d "limitation" with
        | .null => pure (some none)
        | l => pure (some (some (← limOf l))))
      pure (buildFromNip11 doc))
  if docJ != .null then
    o := o.tag s!"nip11.layers{stack.length}"
    if fldD j "buildPanic" == .bool true then
      o := o.diff "BuildMiddlewareFromNIP11: implementation panicked, model builds a chain"
      o := o.mon "nip11Chain" "nip11.panic" s!"BuildMiddlewareFromNIP11 panicked on document {docJ.compress}"
      return ((), o)
  if docJ == .null && fldD j "buildPanic" == .bool true then
    o := o.diff s!"building the middleware stack {repr stack} panicked: {(fldD j "panicText").compress}"
    o := o.mon "limitMw" "mw.build-panic" s!"constructing the stack {repr stack} (all parameters legal) panicked: {(fldD j "panicText").compress}"
    return ((), o)
  let steps ← asArr (← fld j "steps")
  let mut mst := freshStack stack
  let mut sst : List (Mw × SpecSt) := stack.map fun mw => (mw, {})
  for mw in stack do o := o.tag s!"mw.{mwName mw}"
  let mut idx := 0
  for s in steps do
    idx := idx + 1
    let dir ← strF s "dir"
    let out ← fld s "out"
    if fldD s "stalled" == Json.bool true then
      o := o.diff s!"step {idx}: the session did not complete the step within 10 s"
      o := o.mon "limitMw" "mw.stalled" s!"step {idx} ({dir}): the middleware session stopped responding (no progress within 10 s)"
      if docJ != .null then
        o := o.mon "nip11Chain" "nip11.stalled" s!"step {idx} ({dir}): the session built from the NIP-11 document stopped responding"
    if dir == "c" then
      let m ← clientMsg (← fld s "msg")
      let now ← intF s "now"
      let implFwd ← asOpt clientMsg (fldD out "fwd")
      let implReply ← asOpt serverMsg (fldD out "reply")
      -- model
      let (mst', mo) := chainClient mst now m
      mst := mst'
      let (mFwd, mReply) : Option ClientMsg × Option ServerMsg := match mo with
        | .fwd m' => (some m', none)
        | .reply r => (none, r)
      if mFwd != implFwd || mReply != implReply then
        o := o.diff s!"step {idx}: client {(clientMsgJ m).compress}: impl fwd={(jOpt clientMsgJ implFwd).compress} reply={(jOpt serverMsgJ implReply).compress}; model fwd={(jOpt clientMsgJ mFwd).compress} reply={(jOpt serverMsgJ mReply).compress}"
      -- spec monitor on the implementation's behaviour
      let (sst', must) := specChainClient sst now m
      sst := sst'
      if must then
        o := o.tag "c.forward"
        if implFwd != some m then
          o := o.mon "limitMw" "mw.should-forward" s!"step {idx}: {(clientMsgJ m).compress} respects every limit of {repr stack} but was not forwarded unchanged (fwd={(jOpt clientMsgJ implFwd).compress} reply={(jOpt serverMsgJ implReply).compress})"
        else if implReply.isSome then
          o := o.mon "limitMw" "mw.spurious-reply" s!"step {idx}: forwarded message also answered with {(jOpt serverMsgJ implReply).compress}"
      else
        o := o.tag "c.reject"
        if implFwd.isSome then
          o := o.mon "limitMw" "mw.should-reject" s!"step {idx}: {(clientMsgJ m).compress} breaks a limit of {repr stack} but was forwarded"
        else match implReply with
          | none => o := o.mon "limitMw" "mw.no-rejection" s!"step {idx}: offending message {(clientMsgJ m).compress} got no rejection"
          | some r =>
            if !isRejectionFor m r then
              o := o.mon "limitMw" "mw.wrong-rejection" s!"step {idx}: rejection {(serverMsgJ r).compress} has the wrong type/id for {(clientMsgJ m).compress}"
    else
      let m ← serverMsg (← fld s "msg")
      let implGot ← asOpt serverMsg (fldD out "got")
      let (mst', mo) := chainServer mst m
      mst := mst'
      if mo != implGot then
        o := o.diff s!"step {idx}: server {(serverMsgJ m).compress}: impl={(jOpt serverMsgJ implGot).compress} model={(jOpt serverMsgJ mo).compress}"
      let (sst', must) := specChainServer sst m
      sst := sst'
      if must then
        o := o.tag "s.pass"
        if implGot != some m then
          o := o.mon "limitMw" "mw.server-altered" s!"step {idx}: server message {(serverMsgJ m).compress} arrived as {(jOpt serverMsgJ implGot).compress}"
      else
        o := o.tag "s.drop"
        if implGot.isSome then
          o := o.mon "limitMw" "mw.dup-delivered" s!"step {idx}: event delivered again inside the window: {(serverMsgJ m).compress}"
  pure ((), o)

def handler : Drv.Handler := { σ := Unit, init := (), step := step }

end Moc.Drv.MwD
