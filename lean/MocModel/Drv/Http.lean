import MocModel.Drv.Core
import MocModel.Spec.Http
open Lean Moc.Wire

namespace Moc.Drv.HttpD

def targetStr : Target → String
  | .relay => "relay" | .nip11Doc => "nip11" | .emptyDoc => "empty" | .dflt => "default" | .greeting => "greeting"

def kindRes : Except String Kind → String
  | .ok k => s!"ok:{k.from_}:{k.to}"
  | .error _ => "error"

def step (_ : Unit) (j : Json) : Except String (Unit × Drv.Out) := do
  let op ← strF j "op"
  let out ← fld j "out"
  match op with
  | "route" =>
    let upgrade ← strF j "upgrade"
    let accept ← strF j "accept"
    let hasNip11 ← boolF j "hasNip11"
    let hasDefault ← boolF j "hasDefault"
    let impl ← strF out "target"
    let model := targetStr (route upgrade accept hasNip11 hasDefault)
    let spec := targetStr (routeSpec (upgrade != "") (accept == "application/nostr+json") hasNip11 hasDefault)
    let mut o : Drv.Out := { nontrivial := true }
    o := o.tag s!"route.{impl}"
    match fldD j "acceptMore" with
    | .arr a => if a.size > 0 then o := o.tag "route.several-accept-lines"   -- the header's value is its first line
    | _ => pure ()
    if impl != model then o := o.diff s!"route: impl={impl} model={model}"
    if impl != spec then o := o.mon "httpRoute" s!"route.{spec}" s!"upgrade={upgrade.quote} accept={accept.quote} nip11={hasNip11} default={hasDefault}: routed to {impl}, must be {spec}"
    if impl == "nip11" then
      let ct ← strF out "contentType"
      let cors ← strF out "cors"
      let bodyOk ← boolF out "bodyEqualsConfig"
      if ct != "application/nostr+json" || cors != "*" then
        o := o.mon "httpRoute" "nip11.headers" s!"NIP-11 answer has Content-Type={ct.quote} Access-Control-Allow-Origin={cors.quote}"
      if nip11Headers != [("Content-Type", ct), ("Access-Control-Allow-Origin", cors)] then
        o := o.diff s!"nip11 headers: impl=({ct},{cors}) model={nip11Headers}"
      if !bodyOk then
        o := o.mon "httpRoute" "nip11.body" s!"NIP-11 answer is not valid JSON equal to the configuration (request headers besides Accept: {(fldD j "extra").compress})"
      match fldD out "status" with
      | .num n => if n.mantissa != 200 || n.exponent != 0 then
          o := o.mon "httpRoute" "nip11.status" s!"NIP-11 answer has status {n.mantissa} (request headers besides Accept: {(fldD j "extra").compress})"
      | _ => pure ()
    match fldD j "extra" with
    | .arr a => if a.size > 0 then o := o.tag "route.conditional-or-range-headers"
    | _ => pure ()
    pure ((), o)
  | "kind" =>
    let k : Kind := ⟨← intF j "from", ← intF j "to"⟩
    let implTree ← JT.ofJson (← fld out "tree")
    let implBack ← strF out "back"
    let mut o : Drv.Out := { nontrivial := true }
    o := o.tag (if k.from_ == k.to then "kind.single" else "kind.pair")
    let mt := marshalKind k
    if mt.toJson != implTree.toJson then o := o.diff s!"marshalKind: impl={implTree.toJson.compress} model={mt.toJson.compress}"
    let mb := kindRes (unmarshalKind implTree)
    if mb != implBack then o := o.diff s!"unmarshalKind: impl={implBack} model={mb}"
    if implBack != s!"ok:{k.from_}:{k.to}" then
      o := o.mon "kindRoundTrip" "kind.roundtrip" s!"kind ({k.from_},{k.to}) came back as {implBack} through {implTree.toJson.compress}"
    let single := match implTree with | .int _ => true | _ => false
    if single != (k.from_ == k.to) then
      o := o.mon "kindRoundTrip" "kind.shape" s!"kind ({k.from_},{k.to}) written as {implTree.toJson.compress}"
    pure ((), o)
  | "kindparse" =>
    let t ← JT.ofJson (← fld j "tree")
    let impl ← strF out "res"
    let model := kindRes (unmarshalKind t)
    let mut o : Drv.Out := { nontrivial := true }
    o := o.tag s!"kindparse.{(impl.splitOn ":").head!}"
    if impl != model then o := o.diff s!"unmarshalKind {t.toJson.compress}: impl={impl} model={model}"
    pure ((), o)
  | "doc" =>
    let eq ← boolF out "roundtrip"
    let served ← boolF out "served"
    let mut o : Drv.Out := { nontrivial := true }
    o := o.tag "doc"
    if !eq then o := o.mon "docRoundTrip" "doc.roundtrip" s!"NIP-11 document does not round-trip through JSON: {(fldD j "doc").compress} -> {(fldD out "back").compress}"
    if !served then o := o.mon "docRoundTrip" "doc.served" s!"served NIP-11 document differs from the configuration: {(fldD j "doc").compress}"
    if fldD out "servedAfterChange" == .bool false then
      o := o.mon "docRoundTrip" "doc.served-stale" s!"after the configured document was changed (name, description) the answer is not the document as configured now: {(fldD j "doc").compress}"
    pure ((), o)
  | _ => throw s!"unknown op {op}"

def handler : Drv.Handler := { σ := Unit, init := (), step := step }

end Moc.Drv.HttpD
