import MocModel.SqlTx
import MocModel.Drv.Core
import MocModel.Spec.Sqlite
open Lean Moc.Wire

namespace Moc.Drv.SqliteD

structure St where
  db : Db := {}
  hist : List Event := []
  reopened : Bool := false   -- the database was closed and reopened in this history
  clean : Bool := true       -- every answer so far agreed with the model's tables

def errOf (j : Json) : Bool := (j.getObjValD "out").getObjValD "err" == Json.bool true

def step (st : St) (j : Json) : Except String (St × Drv.Out) := do
  let op ← strF j "op"
  let mut o : Drv.Out := {}
  if op == "reset" then
    return ({}, o)
  else if op == "reopen" then
    o := { o with nontrivial := true }
    o := o.tag "op.reopen"
    return ({ st with reopened := st.clean }, o)
  else if op == "batch" then
    let evs ← asList event (← fld j "events")
    o := { o with nontrivial := !evs.isEmpty }
    let failed := errOf j
    let fault := (j.getObjValD "fault") != Json.null
    o := o.tag (if failed then "op.batch.failed" else if fault then "op.batch.fault-not-reached" else "op.batch")
    if failed && !fault then
      o := o.diff s!"a batch of {evs.length} events failed without an injected fault: {((j.getObjValD "out").getObjValD "msg").compress}"
    -- the statement-level model (SqlTx.lean): the same fault plan, call by call
    let natOf (x : Json) : Option Nat := match x with | .num n => if n.exponent == 0 && n.mantissa ≥ 0 then some n.mantissa.toNat else none | _ => none
    let failAt := (natOf (j.getObjValD "fault")).getD 0
    match natOf ((j.getObjValD "out").getObjValD "points") with
    | none => pure ()
    | some points =>
      let calls := st.db.calls evs
      let r := st.db.insertEventsTx (fun k => failAt != 0 && k == failAt) evs
      let expPoints := if failAt != 0 && failAt ≤ calls then failAt else calls
      if r.ok == failed then
        o := o.diff s!"insertEvents with the driver call #{failAt} failing (of {calls}): implementation reports {if failed then "an error" else "success"}, the statement-level model {if r.ok then "success" else "an error"}"
      if points != expPoints then
        o := o.diff s!"insertEvents issued {points} driver calls, the statement-level model issues {expPoints} (fault at #{failAt}, {calls} calls without fault)"
      if failAt != 0 && failAt ≤ calls then o := o.tag (if failAt ≤ 6 then "fault.prologue" else if failAt == calls then "fault.commit" else "fault.statement")
    if failed then
      return ({ st with db := st.db.insertBatchFailing evs }, o)
    for e in evs do
      o := o.tag (match SqliteSpec.cls e.kind with
        | .regular => if e.kind == 5 then "event.deletion" else "event.regular"
        | .replaceable => "event.replaceable" | .ephemeral => "event.ephemeral" | .addressable => "event.addressable")
    return ({ st with db := st.db.insertBatch evs, hist := st.hist ++ evs, clean := st.clean && o.diffs.isEmpty }, o)
  else if op == "query" then
    let fs ← asList filter (← fld j "filters")
    let out ← fld j "out"
    let failed := errOf j
    let got ← (match out.getObjVal? "events" with | .ok a => asList event a | .error _ => pure [])
    o := { o with nontrivial := true }
    o := o.tag s!"query.filters.{fs.length}"
    if fs.any (·.limit == some 0) then o := o.tag "query.limit0"
    match st.db.candidates fs with
    | none =>
      o := o.tag "query.unbuildable"
      if !failed then o := o.diff s!"the query for {(jList filterJ fs).compress} was answered although the model cannot build it"
    | some cands =>
      if failed then
        o := o.diff s!"the query for {(jList filterJ fs).compress} failed: {(out.getObjValD "msg").compress}"
        o := o.mon "answer" "query-error" s!"a query for a valid filter list failed: {(out.getObjValD "msg").compress}"
      else
        o := o.tag (if got.isEmpty then "answer.empty" else "answer.nonempty")
        if cands.any (fun c => match c.limit with | some l => c.ms.length > l | none => false) then o := o.tag "answer.limit-cuts"
        let bad := SqliteSpec.judgeAnswer cands got
        if !bad.isEmpty then
          o := o.diff s!"query {(jList filterJ fs).compress}: answer {got.map (·.id)} is not an answer of the model's tables: {bad.map (·.2)}"
          -- closing and reopening is the identity for every answer (C14): model and database agreed on everything up
          -- to the reopen, the model did nothing at the reopen, and now they differ
          if st.reopened then
            o := o.mon "answer" "differs-after-reopen" s!"query {(jList filterJ fs).compress}: after a close/reopen the answer {got.map (·.id)} is not what the tables held before the reopen give ({bad.map (·.2)}); before the reopen every answer agreed"
        for (cls, msg) in SqliteSpec.judgeAnswer (SqliteSpec.owed st.hist fs got) got do
          o := o.mon "answer" cls s!"query {(jList filterJ fs).compress}: {msg}"
    return ({ st with clean := st.clean && o.diffs.isEmpty }, o)
  else throw s!"unknown op {op}"

def handler : Drv.Handler := { σ := St, init := {}, step := step }

end Moc.Drv.SqliteD
