import MocModel.Drv.Core
import MocModel.Codec
import MocModel.Valid
import MocModel.Spec.Valid
open Lean Moc.Wire

namespace Moc.Drv.CodecD

def sortTags (f : Filter) : Filter :=
  { f with tags := f.tags.map fun l => (l.toArray.qsort (fun a b => a.1 < b.1)).toList }

def canonC : ClientMsg → ClientMsg
  | .req s fs => .req s (fs.map sortTags)
  | .count s fs => .count s (fs.map sortTags)
  | m => m

inductive Val where
  | client (m : ClientMsg) | server (m : ServerMsg) | event (e : Event) | filter (f : Filter)
deriving DecidableEq

def valJ : Val → Json
  | .client m => clientMsgJ (canonC m)
  | .server m => serverMsgJ m
  | .event e => eventJ e
  | .filter f => filterJ (sortTags f)

def canonV : Val → Val
  | .client m => .client (canonC m)
  | .filter f => .filter (sortTags f)
  | v => v

/-- Go type name → decoder on trees -/
def decodeAs (typ : String) (t : JT) : DecE Val :=
  match typ with
  | "Event" => (decodeEvent t).map .event
  | "ReqFilter" => (decodeFilter t).map .filter
  | "ClientEventMsg" => (decodeClientEvent t).map .client
  | "ClientReqMsg" => (decodeClientReq t).map .client
  | "ClientCloseMsg" => (decodeClientClose t).map .client
  | "ClientAuthMsg" => (decodeClientAuth t).map .client
  | "ClientCountMsg" => (decodeClientCount t).map .client
  | "ServerEOSEMsg" => (decodeServerEOSE t).map .server
  | "ServerEventMsg" => (decodeServerEvent t).map .server
  | "ServerNoticeMsg" => (decodeServerNotice t).map .server
  | "ServerOKMsg" => (decodeServerOK t).map .server
  | "ServerAuthMsg" => (decodeServerAuth t).map .server
  | "ServerCountMsg" => (decodeServerCount t).map .server
  | "ServerClosedMsg" => (decodeServerClosed t).map .server
  | _ => .error "unknown type"

def valOf (typ : String) (j : Json) : Except String Val := do
  if typ == "Event" then pure (.event (← event j))
  else if typ == "ReqFilter" then pure (.filter (← filter j))
  else if typ.startsWith "Client" then pure (.client (← clientMsg j))
  else pure (.server (← serverMsg j))

def encodeVal : Val → JT
  | .client m => encodeClientMsg m
  | .server m => encodeServerMsg m
  | .event e => encodeEvent e
  | .filter f => encodeFilter f

/-- object members sorted by key (Go marshals maps sorted; structs in field order — compared as sets) -/
partial def normTree : JT → JT
  | .arr a => .arr (a.map normTree)
  | .obj kv => .obj ((kv.map fun (k, v) => (k, normTree v)).toArray.qsort (fun a b => a.1 < b.1)).toList
  | t => t

def step (_ : Unit) (j : Json) : Except String (Unit × Drv.Out) := do
  let op ← strF j "op"
  let out ← fld j "out"
  match op with
  | "parse" =>
    let text ← strF j "text"
    let treeJ := fldD j "tree"
    let res ← strF out "res"
    let mut o : Drv.Out := { nontrivial := true }
    o := o.tag s!"parse.{res}"
    if res == "panic" then
      o := o.mon "nopanic" "parse.panic" s!"ParseClientMsg panicked on {text.quote}"
      return ((), o)
    if res == "unfilled" then
      o := o.mon "filled" "parse.unfilled" s!"ParseClientMsg accepted {text.quote} but the message is not completely filled (a nil filter or a nil tag list)"
      return ((), o)
    let model : DecE ClientMsg ← (match treeJ with
      | .null => pure (match labelOf text with | none => Except.error "not a client msg" | some _ => Except.error "invalid json")
      | tj => do pure (parseClientMsg text (← JT.ofJson tj)))
    let isNullTree := (match treeJ with | .null => true | _ => false)
    match model, res with
    | .error _, "error" => pure ()
    | .ok m, "ok" =>
      let im ← clientMsg (← fld out "msg")
      if canonC m != canonC im then o := o.diff s!"ParseClientMsg({text.quote}): impl={(clientMsgJ im).compress} model={(clientMsgJ (canonC m)).compress}"
      let iv ← boolF out "valid"
      if validClientMsg m != iv then o := o.diff s!"ValidClientMsg({(clientMsgJ (canonC m)).compress}): impl={iv} model={validClientMsg m}"
    | .ok m, _ => o := o.diff s!"ParseClientMsg({text.quote}): impl={res} model=ok {(clientMsgJ (canonC m)).compress}"
    | .error e, _ => o := o.diff s!"ParseClientMsg({text.quote}): impl={res} model=error({e}){if isNullTree then " [text is not valid JSON]" else ""}"
    -- C11 monitors on the implementation's verdicts
    let wf := fldD j "wf" == .bool true
    if res == "ok" then
      let im ← clientMsg (← fld out "msg")
      let iv ← boolF out "valid"
      o := o.tag (if iv then "valid" else "invalid")
      match fldD out "valid_panic" with
      | .str p => o := o.mon "admission" "valid-panic" s!"ValidClientMsg panicked ({p.take 80}) on the parsed message {text.quote}"
      | _ => pure ()
      if iv && !ValidSpec.msgOkB im then
        o := o.mon "admission" "unsound" s!"judged valid but breaks the NIP-01 constraints: {(clientMsgJ im).compress}"
      if wf && !iv then
        o := o.mon "admission" "incomplete-valid" s!"well-formed message judged invalid: {text.quote}"
    else if wf then
      o := o.mon "admission" "incomplete-parse" s!"well-formed message not parsed: {text.quote}"
    if wf then o := o.tag "wellformed" else o := o.tag s!"corrupt.{match fldD j "mut" with | .str s => s | _ => "?"}"
    pure ((), o)
  | "decode" =>
    let typ ← strF j "type"
    let text ← strF j "text"
    let treeJ := fldD j "tree"
    let res ← strF out "res"
    let mut o : Drv.Out := { nontrivial := true }
    o := o.tag s!"decode.{typ}.{res}"
    if res == "panic" then
      o := o.mon "nopanic" "decode.panic" s!"json.Unmarshal into {typ} panicked on {text.quote}"
      return ((), o)
    if text.trimAscii.toString == "null" && typ != "Event" then
      o := o.tag "toplevel-null"   -- unclaimed: a bare null is a no-op for Go's Unmarshaler convention
      return ((), o)
    if res == "ok" && fldD out "filled" == .bool false then
      o := o.mon "filled" "decode.unfilled" s!"json.Unmarshal into {typ} accepted {text.quote} but the value is not completely filled (a nil filter or a nil tag list)"
      return ((), o)
    match treeJ with
    | .null => if res != "error" then o := o.diff s!"{typ}: impl={res} on text that is not valid JSON"
    | tj =>
      let t ← JT.ofJson tj
      match decodeAs typ t, res with
      | .error _, "error" => pure ()
      | .ok v, "ok" =>
        let iv ← valOf typ (← fld out "val")
        if canonV v != canonV iv then o := o.diff s!"{typ} decode({text.quote}): impl={(valJ iv).compress} model={(valJ v).compress}"
      | .ok v, _ => o := o.diff s!"{typ} decode({text.quote}): impl={res} model=ok {(valJ v).compress}"
      | .error e, _ => o := o.diff s!"{typ} decode({text.quote}): impl={res} model=error({e})"
      -- decode-encode-decode, judged on the implementation's own results whatever the model says of the text
      if res == "ok" && fldD out "againRawDiffers" == .bool true then
        o := o.mon "roundtrip" "dec-enc-dec" s!"{typ}: decode-encode-decode of {text.quote} differs from decode in the raw bytes of a string (one of them is not valid UTF-8)"
      if res == "ok" then
        match fldD out "again" with
        | .null => o := o.mon "roundtrip" "dec-enc-dec.fail" s!"{typ}: re-encoding the decoded value of {text.quote} does not decode"
        | aj =>
          match valOf typ (← fld out "val"), valOf typ aj with
          | .ok iv, .ok av =>
            if canonV av != canonV iv then
              o := o.mon "roundtrip" "dec-enc-dec" s!"{typ}: decode-encode-decode of {text.quote} gives {(valJ av).compress}, decode gave {(valJ iv).compress}"
          | _, _ => pure ()
    pure ((), o)
  | "roundtrip" =>
    let typ ← strF j "type"
    let v ← valOf typ (← fld j "val")
    let mut o : Drv.Out := { nontrivial := true }
    o := o.tag s!"roundtrip.{typ}"
    let implTree ← JT.ofJson (← fld out "tree")
    let mt := encodeVal v
    if (normTree mt).toJson != (normTree implTree).toJson then
      o := o.diff s!"{typ} encode: impl={implTree.toJson.compress} model={mt.toJson.compress}"
    match fldD out "back" with
    | .null => o := o.mon "roundtrip" "enc-dec.fail" s!"{typ}: the encoding of {(valJ v).compress} does not decode"
    | bj =>
      let bv ← valOf typ bj
      if canonV bv != canonV v then
        o := o.mon "roundtrip" "enc-dec" s!"{typ}: {(valJ v).compress} came back as {(valJ bv).compress}"
    match decodeAs typ mt with
    | .ok mv => if canonV mv != canonV v then o := o.diff s!"{typ}: model round trip differs: {(valJ mv).compress}"
    | .error e => o := o.diff s!"{typ}: model cannot decode its own encoding ({e})"
    pure ((), o)
  | "rawdec" =>
    let typ ← strF j "type"
    let res ← strF out "res"
    let mut o : Drv.Out := { nontrivial := true }
    o := o.tag s!"rawdec.{res}"
    if res == "panic" then
      o := o.mon "nopanic" "decode.panic" s!"decoding bytes {(fldD j "hex").compress} as {typ} panicked"
    if res == "ok" then
      if fldD out "againFails" == .bool true then
        o := o.mon "roundtrip" "dec-enc-dec.fail" s!"{typ}: re-encoding the decoded value of the bytes {(fldD j "hex").compress} does not decode"
      if fldD out "againRawDiffers" == .bool true then
        o := o.mon "roundtrip" "dec-enc-dec" s!"{typ}: decode-encode-decode of the bytes {(fldD j "hex").compress} (a text with an invalid UTF-8 byte inside a string) differs from decode: decode keeps the raw byte, the second decode has U+FFFD"
    pure ((), o)
  | "raw" =>
    let res ← strF out "res"
    let mut o : Drv.Out := { nontrivial := true }
    o := o.tag s!"raw.{res}"
    if res == "panic" then
      o := o.mon "nopanic" "raw.panic" s!"decoding bytes {(fldD j "hex").compress} as {(fldD j "type").compress} panicked"
    pure ((), o)
  | _ => throw s!"unknown op {op}"

def handler : Drv.Handler := { σ := Unit, init := (), step := step }

end Moc.Drv.CodecD
