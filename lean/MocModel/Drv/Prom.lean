import MocModel.Drv.Core
import MocModel.Spec.Prom
open Lean Moc.Wire

namespace Moc.Drv.PromD

structure Metrics where
  conn : Int
  req : Int
  recv : List (String × Nat)
  kinds : List (String × Nat)
  sent : List (String × Nat)
deriving BEq, Repr

def sortKV (l : List (String × Nat)) : List (String × Nat) :=
  (l.toArray.qsort (fun a b => a.1 < b.1)).toList

def kvOf (j : Json) : Except String (List (String × Nat)) :=
  match j with
  | .obj kvs => do
    let l ← kvs.toList.mapM (fun (k, v) => do pure (k, ← asNat v))
    pure (sortKV (l.filter (·.2 != 0)))
  | _ => throw "metrics: not an object"

def metricsOf (j : Json) : Except String Metrics := do
  pure { conn := ← intF j "conn", req := ← intF j "req", recv := ← kvOf (← fld j "recv"),
         kinds := ← kvOf (← fld j "kinds"), sent := ← kvOf (← fld j "sent") }

def modelMetrics (p : Prom) : Metrics :=
  { conn := p.conn, req := p.req, recv := sortKV (p.recv.filter (·.2 != 0)),
    kinds := sortKV ((p.kinds.map fun (k, n) => (toString k, n)).filter (·.2 != 0)),
    sent := sortKV (p.sent.filter (·.2 != 0)) }

/-- reality, from the history alone (the property's words) -/
def specMetrics (hist : List PStep) : Metrics :=
  let live := liveSessions hist
  let labelsC := ["EVENT", "REQ", "CLOSE", "AUTH", "COUNT"]
  let labelsS := ["EOSE", "EVENT", "NOTICE", "OK", "AUTH", "COUNT", "CLOSED"]
  let kinds := (hist.filterMap fun st => match st with | .client _ (.event e) => some e.kind | _ => none).eraseDups
  { conn := live.length,
    req := (live.map fun s => (openSubsOf s hist).length).sum,
    recv := sortKV ((labelsC.map fun l => (l, countRecv l hist)).filter (·.2 != 0)),
    kinds := sortKV ((kinds.map fun k => (toString k, countKind k hist)).filter (·.2 != 0)),
    sent := sortKV ((labelsS.map fun l => (l, countSent l hist)).filter (·.2 != 0)) }

def step (_ : Unit) (j : Json) : Except String (Unit × Drv.Out) := do
  let op ← strF j "op"
  if op == "promrace" then
    -- REQ x, then CLOSE x and CLOSED x at the same moment, many times within one session: the model closes the
    -- subscription once whichever comes first (`Prom.step` for CLOSE / CLOSED of an id that is not open is a no-op),
    -- so at the quiescent point after the trials the gauges read 1 connection, 0 subscriptions, and 0 / 0 at the end
    let out ← fld j "out"
    let num (x : Json) : Int := match x with | .num n => n.mantissa / (10 : Int) ^ n.exponent | _ => 0
    let mut o : Drv.Out := { nontrivial := true }
    o := o.tag "mode.close-closed-race"
    if fldD j "race" == .bool true then
      o := o.mon "promReality" "data-race" "the Go race detector reported a data race on the middleware's shared state in this run"
    if fldD out "stalled" == .bool true then
      o := o.mon "promReality" "prom.stalled" "the middleware stopped passing messages during the CLOSE / CLOSED scenario"
    let midReq := num (fldD (fldD out "mid") "req")
    let midConn := num (fldD (fldD out "mid") "conn")
    let endReq := num (fldD (fldD out "end") "req")
    let endConn := num (fldD (fldD out "end") "conn")
    if midReq != 0 || midConn != 1 then
      o := o.diff s!"CLOSE x and CLOSED x at the same moment ({(fldD j "trials").compress} trials): gauges connection={midConn} subscriptions={midReq}, model 1 / 0"
    if midReq != 0 then
      o := o.mon "promReality" "prom.req" s!"after {(fldD j "trials").compress} subscriptions each closed by a client CLOSE and a server CLOSED at the same moment, the subscription gauge reads {midReq} with no subscription open"
    if endReq != 0 || endConn != 0 then
      o := o.mon "promReality" (if endReq != 0 then "prom.req" else "prom.conn") s!"after the session ended the gauges read connection={endConn} subscriptions={endReq}"
    return ((), o)
  if op != "prom" then throw s!"unknown op {op}"
  let mode ← strF j "mode"
  let evs ← asArr (← fld j "events")
  let mut o : Drv.Out := { nontrivial := true }
  o := o.tag s!"mode.{mode}"
  if fldD j "race" == .bool true then
    o := o.mon "promReality" "data-race" "the Go race detector reported a data race on the middleware's shared state in this run"
  let mut p : Prom := {}
  let mut hist : List PStep := []
  let mut idx := 0
  for e in evs do
    idx := idx + 1
    let k ← strF e "k"
    let sidI ← intF e "sid"
    let sid := sidI.toNat
    if k == "stalled" then
      o := o.mon "promReality" "prom.stalled" s!"event {idx}: session {sid} did not complete a step within 10 s: the middleware stopped passing messages"
    let stOpt : Option PStep ← (do
      match k with
      | "start" => pure (some (PStep.start sid))
      | "stop" => pure (some (PStep.stop sid))
      | "c" => pure (some (PStep.client sid (← clientMsg (← fld e "msg"))))
      | "s" => pure (some (PStep.server sid (← serverMsg (← fld e "msg"))))
      | _ => pure none)
    match stOpt with
    | some st =>
      p := p.step st
      hist := hist ++ [st]
      o := o.tag s!"step.{k}"
      -- transparency
      match st, fldD e "out" with
      | _, .null => pure ()
      | .client _ m, out =>
        let fwd ← asOpt clientMsg (fldD out "fwd")
        let reply ← asOpt serverMsg (fldD out "reply")
        if fwd != some m || reply.isSome then
          o := o.diff s!"event {idx}: client message not passed as is"
          o := o.mon "promTransparent" "prom.client-altered" s!"event {idx}: {(clientMsgJ m).compress} came out as fwd={(jOpt clientMsgJ fwd).compress} reply={(jOpt serverMsgJ reply).compress}"
      | .server _ m, out =>
        let got ← asOpt serverMsg (fldD out "got")
        if got != some m then
          o := o.diff s!"event {idx}: server message not passed as is"
          o := o.mon "promTransparent" "prom.server-altered" s!"event {idx}: {(serverMsgJ m).compress} came out as {(jOpt serverMsgJ got).compress}"
      | _, _ => pure ()
    | none => pure ()
    match fldD e "metrics" with
    | .null => pure ()
    | mj =>
      let impl ← metricsOf mj
      let model := modelMetrics p
      let spec := specMetrics hist
      o := o.tag "checkpoint"
      if impl != model then
        o := o.diff s!"event {idx}: metrics impl={repr impl} model={repr model}"
      if impl.conn != spec.conn then
        o := o.mon "promReality" "prom.conn" s!"event {idx}: connection gauge {impl.conn}, live sessions {spec.conn}"
      if impl.req != spec.req then
        o := o.mon "promReality" "prom.req" s!"event {idx}: subscription gauge {impl.req}, open subscriptions {spec.req}"
      if impl.recv != spec.recv then
        o := o.mon "promReality" "prom.recv" s!"event {idx}: recv counters {impl.recv}, messages crossed {spec.recv}"
      if impl.kinds != spec.kinds then
        o := o.mon "promReality" "prom.kinds" s!"event {idx}: kind counters {impl.kinds}, events crossed {spec.kinds}"
      if impl.sent != spec.sent then
        o := o.mon "promReality" "prom.sent" s!"event {idx}: send counters {impl.sent}, messages crossed {spec.sent}"
  pure ((), o)

def handler : Drv.Handler := { σ := Unit, init := (), step := step }

end Moc.Drv.PromD
