import MocModel.Drv.Core
import MocModel.Drv.Auth
import MocModel.Drv.Codec
import MocModel.Spec.Valid
open Lean Moc.Wire

namespace Moc.Drv.GateD

def gateOutJ : GateOut → Json
  | .forward m => Json.mkObj [("fwd", clientMsgJ (CodecD.canonC m))]
  | .notice s => Json.mkObj [("notice", .str s)]

def isRejection : ServerMsg → Bool
  | .notice _ => true
  | .ok _ false _ _ => true
  | .closed _ _ _ => true
  | _ => false

def step (_ : Unit) (j : Json) : Except String (Unit × Drv.Out) := do
  let op ← strF j "op"
  if op != "ws" then throw s!"unknown op {op}"
  let frames ← asArr (← fld j "frames")
  let mut o : Drv.Out := { nontrivial := true }
  let posNum : Json → Bool := fun x => match x with
    | .num n => decide (n.mantissa > 0)
    | _ => false
  if posNum (fldD j "ping_ms") then o := o.tag "session.ping-every-15ms"
  if posNum (fldD j "burst") then o := o.tag "session.small-rate-burst"
  let mut idx := 0
  let mut expectedInbound : List ClientMsg := []
  for f in frames do
    idx := idx + 1
    let isText := (← strF f "type") == "text"
    let utf8ok ← boolF f "utf8"
    let jsonok ← boolF f "json"
    let text := match fldD f "text" with | .str s => s | _ => ""
    let out ← fld f "out"
    let implFwd ← asList clientMsg (← fld out "fwd")
    let implReplies ← asList serverMsg (← fld out "replies")
    -- model
    let parsed : DecE ClientMsg ← (if isText && utf8ok && jsonok then do
        match fldD f "tree" with
        | .null => pure (Except.error "no tree")
        | tj => pure (parseClientMsg text (← JT.ofJson tj))
      else pure (Except.error "not parsed"))
    let orc : SigOracle ← (match fldD f "oracle" with
      | .null => pure { pubkeyParses := false, sigParses := false, verifies := false }
      | oj => AuthD.oracleOf oj)
    -- `Event.Verify` by the model alone (Lean SHA-256, Lean model of the signature library); the library's own
    -- answers (asked by the harness on the raw bytes) are compared where the signature check is reached
    let ver : VerifyRes := match parsed with
      | .ok (.event e) => verifyFull e
      | _ => .error
    match parsed with
    | .ok (.event e) =>
      if e.id == Sha256.hexHash (serialize e) && (hexDecode e.pubkey.toList).isSome && (hexDecode e.sig.toList).isSome
          && sigOracleOf e != orc then
        o := o.diff s!"frame {idx}: BIP-340: btcec says pubkeyParses={orc.pubkeyParses} sigParses={orc.sigParses} verifies={orc.verifies}, the Lean model of btcec differs: {(eventJ e).compress}"
    | _ => pure ()
    let g := gate isText utf8ok jsonok text parsed ver
    o := o.tag (match g with | .forward _ => "frame.forward" | .notice n => s!"frame.reject.{(n.splitOn ":").head!}")
    match g with
    | .forward m =>
      if implFwd.map CodecD.canonC != [CodecD.canonC m] || !implReplies.isEmpty then
        o := o.diff s!"frame {idx} {text.quote}: impl fwd={(jList clientMsgJ implFwd).compress} replies={(jList serverMsgJ implReplies).compress}; model forwards {(clientMsgJ (CodecD.canonC m)).compress}"
    | .notice n =>
      if !implFwd.isEmpty || implReplies != [ServerMsg.notice n] then
        o := o.diff s!"frame {idx} {text.quote}: impl fwd={(jList clientMsgJ implFwd).compress} replies={(jList serverMsgJ implReplies).compress}; model rejects with NOTICE {n.quote}"
    -- property monitor: acceptable = text frame, valid JSON, well-formed valid client message, authentic if EVENT
    let acceptable : Option ClientMsg := match parsed with
      | .ok m =>
        if ValidSpec.msgOkB m then
          match m with
          | .event e => if AuthD.authenticSpec orc e then some m else none
          | _ => some m
        else none
      | .error _ => none
    match acceptable with
    | some m =>
      expectedInbound := expectedInbound ++ [m]
      if implFwd.map CodecD.canonC != [CodecD.canonC m] then
        o := o.mon "gate" "valid-not-forwarded" s!"frame {idx}: valid (authentic) message {text.quote} reached the handler as {(jList clientMsgJ implFwd).compress}"
      else if !implReplies.isEmpty then
        o := o.mon "gate" "valid-also-rejected" s!"frame {idx}: forwarded message was also answered with {(jList serverMsgJ implReplies).compress}"
    | none =>
      if !implFwd.isEmpty then
        o := o.mon "gate" "invalid-forwarded" s!"frame {idx}: unacceptable frame {(if isText then text.quote else "<binary>")} reached the handler as {(jList clientMsgJ implFwd).compress}"
      else if implReplies.length != 1 then
        o := o.mon "gate" "rejection-count" s!"frame {idx}: unacceptable frame answered with {implReplies.length} messages instead of exactly one rejection"
      else if !implReplies.all isRejection then
        o := o.mon "gate" "rejection-type" s!"frame {idx}: unacceptable frame answered with {(jList serverMsgJ implReplies).compress}"
  -- outbound: every message the handler emits arrives as one text frame decoding to the same message, in order
  match fldD j "outbound" with
  | .null => pure ()
  | ob =>
    let sent ← asList serverMsg (← fld ob "sent")
    let got ← asList serverMsg (← fld ob "got")
    let allText ← boolF ob "allText"
    o := o.tag s!"outbound.n{min sent.length 5}"
    if sent != got || !allText then
      o := o.diff s!"outbound: handler sent {(jList serverMsgJ sent).compress}, client decoded {(jList serverMsgJ got).compress}"
      o := o.mon "gate" "outbound" s!"handler output {(jList serverMsgJ sent).compress} arrived as {(jList serverMsgJ got).compress} (all text frames: {allText})"
  pure ((), o)

def handler : Drv.Handler := { σ := Unit, init := (), step := step }

end Moc.Drv.GateD
