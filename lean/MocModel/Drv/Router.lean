import MocModel.Drv.Core
import MocModel.Spec.Router
open Lean Moc.Wire

namespace Moc.Drv.RouterD

def gotOf (s : Json) (c : Nat) : Except String (List ServerMsg) :=
  match (s.getObjVal? "got") with
  | .ok g => match g.getObjVal? (toString c) with
    | .ok arr => asList serverMsg arr
    | .error _ => pure []
  | .error _ => pure []

def step (_ : Unit) (j : Json) : Except String (Unit × Drv.Out) := do
  let op ← strF j "op"
  if op == "routergone" then
    -- publishers that hand over one event and are gone at once: an event whose publisher was told OK was published
    -- (`recv`: Publish, then the OK), so the open matching subscription of the reading connection is owed it
    let out ← fld j "out"
    let missing ← asArr (← fld out "missing")
    let mut o : Drv.Out := { nontrivial := true }
    o := o.tag "publisher-gone"
    if missing.length > 0 then
      o := o.diff s!"publishers that disconnect at once: {missing.length} event(s) answered by OK never reached the open match-all subscription"
      o := o.mon "delivery" "missing-delivery" s!"{missing.length} of {(fldD out "told").compress} events whose publisher was told OK (and had gone away at once) never reached the open match-all subscription \"s\" of a connection that reads everything: {(fldD out "missing").compress.take 300}"
    return ((), o)
  if op != "router" then throw s!"unknown op {op}"
  let n ← natF j "n"
  let buflen ← natF j "buflen"
  let steps ← asArr (← fld j "steps")
  let mut st : RSt := { buflen := buflen }
  let mut mo : RouterSpec.Mon := { buflen := buflen }
  let mut mpend : List (Conn × List (List ServerMsg)) := []     -- the model's owed groups for stalled connections
  let mut heldReply : List (Conn × List ServerMsg) := []        -- direct replies a stalled connection has not taken yet
  let mut o : Drv.Out := { nontrivial := true }
  o := o.tag s!"conns.{n}"
  o := o.tag s!"buflen.{buflen}"
  let mut idx := 0
  for s in steps do
    idx := idx + 1
    let k ← strF s "k"
    o := o.tag s!"step.{k}"
    if (s.getObjValD "blocked") == Json.bool true then
      o := o.mon "delivery" "blocked" s!"step {idx} ({k}) did not complete: a publisher or subscriber was blocked"
    let c ← natF s "c"
    let reply ← (match s.getObjVal? "reply" with | .ok r => asList serverMsg r | .error _ => pure [])
    let mut cm : Option ClientMsg := none
    if k == "req" then
      let sub ← strF s "sub"
      let fs ← asList filter (← fld s "filters")
      cm := some (.req sub fs)
      st := (st.step (.subscribe c sub fs)).1
      mo := RouterSpec.stepReq mo c sub fs
    else if k == "reqstalled" then
      -- a REQ by a connection that is not reading: registered at once, its EOSE waits for the reader
      let sub ← strF s "sub"
      let fs ← asList filter (← fld s "filters")
      st := (st.step (.subscribe c sub fs)).1
      mo := RouterSpec.stepReq mo c sub fs
      heldReply := nSet heldReply c ((nGet heldReply c).getD [] ++ [ServerMsg.eose sub])
      o := o.tag "req.while-stalled"
    else if k == "close" then
      let sub ← strF s "sub"
      cm := some (.close sub)
      st := (st.step (.unsubscribe c sub)).1
      mo := RouterSpec.stepClose mo c sub
    else if k == "count" then
      let sub ← strF s "sub"
      cm := some (.count sub [])
    else if k == "disconnect" then
      st := (st.step (.unsubAll c)).1
      mo := RouterSpec.stepDisconnect mo c
      mpend := nErase mpend c
      heldReply := nErase heldReply c
    else if k == "stall" then
      mo := { mo with stalled := c :: mo.stalled, pend := nSet mo.pend c [] }
      mpend := nSet mpend c []
    else if k == "resume" then
      let got0 ← gotOf s c
      -- the held direct replies arrive now (their position among the queued deliveries is not constrained)
      let held := (nGet heldReply c).getD []
      let mut got := got0
      for h in held do
        if got.contains h then got := got.erase h
        else
          o := o.diff s!"step {idx}: resume of connection {c}: the reply {RouterSpec.descr h} to the REQ sent while stalled did not arrive"
          o := o.mon "reply" "reply" s!"step {idx}: the REQ connection {c} sent while not reading was never answered by {RouterSpec.descr h}"
      heldReply := nErase heldReply c
      let groups := (nGet mo.pend c).getD []
      let mgroups := (nGet mpend c).getD []
      for (cls, msg) in RouterSpec.judgeResume buflen c groups got do
        o := o.mon "delivery" cls s!"step {idx}: {msg}"
      let bad := RouterSpec.judgeResume buflen c mgroups got
      if !bad.isEmpty then
        o := o.diff s!"step {idx}: resume of connection {c}: received {got.map RouterSpec.descr}, the model owes {mgroups.map (·.map RouterSpec.descr)} (buffer {buflen})"
      o := o.tag (if (groups.map List.length).sum > buflen then "resume.overflowed" else "resume.within-buffer")
      mo := { mo with stalled := mo.stalled.filter (· != c), pend := nErase mo.pend c }
      mpend := nErase mpend c
      st := { st with q := nErase st.q c }
    else if k == "event" then
      let e ← event (← fld s "event")
      cm := some (.event e)
      -- the model's registry decides what each connection is owed; running connections are drained at once
      for c2 in List.range n do
        let owedSpec := RouterSpec.owed mo c2 e
        let owedModel : List ServerMsg := match matched ((nGet st.reg c2).getD []) e with
          | .ok ms => ms
          | .panic => []
        if mo.stalled.contains c2 then
          if !owedSpec.isEmpty then mo := { mo with pend := nSet mo.pend c2 ((nGet mo.pend c2).getD [] ++ [owedSpec]) }
          if !owedModel.isEmpty then mpend := nSet mpend c2 ((nGet mpend c2).getD [] ++ [owedModel])
          let got ← gotOf s c2
          if !got.isEmpty then
            o := o.mon "delivery" "stalled-received" s!"step {idx}: connection {c2} is not reading but {got.length} messages were recorded for it"
        else
          let got ← gotOf s c2
          for (cls, msg) in RouterSpec.judgeRunning buflen c2 owedSpec got do
            o := o.mon "delivery" cls s!"step {idx}: {msg}"
          if !(RouterSpec.judgeRunning buflen c2 owedModel got).isEmpty then
            o := o.diff s!"step {idx}: EVENT {e.id} by connection {c}: connection {c2} received {got.map RouterSpec.descr}, the model owes {owedModel.map RouterSpec.descr} (buffer {buflen})"
          if !owedSpec.isEmpty then o := o.tag "delivery.owed"
          if owedSpec.length > buflen then o := o.tag "delivery.beyond-buffer"
      -- keep the model's LTS state in step (queues of running connections are drained by their writers)
      st := (st.publish c e).1
      st := { st with q := st.q.filter fun p => mo.stalled.contains p.1 }
    else throw s!"unknown step {k}"
    -- the direct reply of the receive loop
    match cm with
    | some m =>
      let want : List ServerMsg := match routerReply m with | some r => [r] | none => []
      if reply != want then
        o := o.diff s!"step {idx}: direct reply to {k} on connection {c}: got {reply.map RouterSpec.descr}, model {want.map RouterSpec.descr}"
        o := o.mon "reply" "reply" s!"step {idx}: {k} on connection {c} was answered by {reply.map RouterSpec.descr}"
    | none => pure ()
  pure ((), o)

def handler : Drv.Handler := { σ := Unit, init := (), step := step }

end Moc.Drv.RouterD
