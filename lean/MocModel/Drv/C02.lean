import MocModel.Drv.Core
import MocModel.Matcher
import MocModel.Spec.Nip01
open Lean Moc.Wire

namespace Moc.Drv.C02

/-- which conjunct of the spec fails first (histogram key) -/
def firstFail (f : Filter) (e : Event) : String :=
  if !listedOr true f.ids e.id then "ids"
  else if !listedOr true f.authors e.pubkey then "authors"
  else if !listedOr true f.kinds e.kind then "kinds"
  else if !tagsOkB f.tags e then "tags"
  else if !sinceOkB f.since e.createdAt then "since"
  else if !untilOkB f.until_ e.createdAt then "until"
  else "match"

def inClaim (f : Filter) (e : Event) : Bool :=
  decide f.WF && e.tags.all (· != [])

/-- model run of the limit-counting sequence: per event (Match, LimitMatch, Done after) -/
def seqModel : List LMatcher → List Event → Option (List (Bool × Bool × Bool))
  | _, [] => some []
  | ms, e :: es =>
    match matchAny (ms.map (·.f)) e, limitMatchAll ms e with
    | .ok m, .ok (lm, ms') =>
      match seqModel ms' es with
      | some rest => some ((m, lm, doneAll ms') :: rest)
      | none => none
    | _, _ => none

/-- spec of the same sequence, straight from the property statement -/
def seqSpec (fs : List Filter) : List Event → List Event → List (Bool × Bool × Bool)
  | _, [] => []
  | fed, e :: es =>
    let fed' := fed ++ [e]
    let m := nip01MatchAnyB fs e
    let done := fs.all fun f => match f.limit with
      | some n => decide (n ≤ (fed'.countP (nip01MatchB f ·) : Int))
      | none => false
    (m, m, done) :: seqSpec fs fed' es

def step (_ : Unit) (j : Json) : Except String (Unit × Drv.Out) := do
  let op ← strF j "op"
  let out ← fld j "out"
  match op with
  | "match" =>
    let f ← filter (← fld j "f")
    let e ← event (← fld j "e")
    let impl ← strF out "res"
    let model := resBoolStr (matchOne f e)
    let mut o : Drv.Out := { nontrivial := f != {} }
    o := o.tag s!"match.{impl}"
    if model != impl then o := o.diff s!"Match: impl={impl} model={model}"
    if inClaim f e then
      let spec := if nip01MatchB f e then "true" else "false"
      o := o.tag s!"first.{firstFail f e}"
      if impl != spec then
        o := o.mon "nip01Match" s!"match.{firstFail f e}" s!"impl={impl} spec={spec} f={(filterJ f).compress} e={(eventJ e).compress}"
    else o := o.tag "outside-claim"
    pure ((), o)
  | "seq" =>
    let fs ← asList filter (← fld j "fs")
    let es ← asList event (← fld j "es")
    let done0 ← boolF out "done0"
    let pan ← boolF out "panic"
    let steps ← asList (fun s => do pure ((← boolF s "m"), (← boolF s "lm"), (← boolF s "done"))) (← fld out "steps")
    let mut o : Drv.Out := { nontrivial := !fs.isEmpty && !es.isEmpty }
    o := o.tag s!"seq.len{es.length}"
    let model := seqModel (newMatchers fs) es
    let modelDone0 := doneAll (newMatchers fs)
    match model with
    | none => if !pan then o := o.diff "seq: model panics, impl does not"
    | some ms =>
      if pan then o := o.diff "seq: impl panics, model does not"
      else if ms != steps || modelDone0 != done0 then
        o := o.diff s!"seq: impl={steps} done0={done0} model={ms} done0={modelDone0}"
    if fs.all (fun f => decide f.WF) && es.all (fun e => e.tags.all (· != [])) then
      let spec := seqSpec fs [] es
      let specDone0 := fs.all fun f => match f.limit with | some n => decide (n ≤ 0) | none => false
      if pan then o := o.mon "limitSeq" "seq.panic" "implementation panicked inside the claimed domain"
      else if spec != steps then
        o := o.mon "limitSeq" "seq.steps" s!"impl={steps} spec={spec}"
      else if specDone0 != done0 then
        o := o.mon "limitSeq" "seq.done0" s!"impl={done0} spec={specDone0}"
      if steps.any (fun s => s.2.2) then o := o.tag "seq.exhausted"
    else o := o.tag "outside-claim"
    pure ((), o)
  | _ => throw s!"unknown op {op}"

def handler : Drv.Handler := { σ := Unit, init := (), step := step }

end Moc.Drv.C02
