import MocModel.Drv.Core
import MocModel.Spec.RouterConc
open Lean Moc.Wire

namespace Moc.Drv.RouterConcD
open Moc.RouterConcSpec

def step (_ : Unit) (j : Json) : Except String (Unit × Drv.Out) := do
  let op ← strF j "op"
  if op != "routerconc" then throw s!"unknown op {op}"
  let n ← natF j "n"
  let arr ← asArr (← fld j "hist")
  let mut h : List Entry := []
  for x in arr do
    let c ← natF x "c"
    let t ← natF x "t"
    let dir ← strF x "dir"
    if dir == "send" then
      h := h ++ [{ conn := c, t := t, send := true, msg := .c (← clientMsg (← fld x "msg")) }]
    else
      h := h ++ [{ conn := c, t := t, send := false, msg := .s (← serverMsg (← fld x "msg")) }]
  let mut o : Drv.Out := { nontrivial := true }
  o := o.tag s!"conc.conns.{n}"
  if (j.getObjValD "blocked") == Json.bool true then
    o := o.mon "delivery" "blocked" "a connection's script or shutdown did not complete"
  let insts := instances h n
  o := o.tag s!"conc.instances.{min insts.length 9}"
  let dels := (h.filter fun e => !e.send && (match e.msg with | .s (.event _ _) => true | _ => false)).length
  o := o.tag (if dels == 0 then "conc.no-delivery" else "conc.deliveries")
  for f in judge n h do
    o := o.mon "delivery" f.cls f.msg
  pure ((), o)

def handler : Drv.Handler := { σ := Unit, init := (), step := step }

end Moc.Drv.RouterConcD
