import MocModel.Drv.Core
import MocModel.Spec.Serialize
import MocModel.Sha256
open Lean Moc.Wire

namespace Moc.Drv.AuthD

def oracleOf (j : Json) : Except String SigOracle := do
  pure { pubkeyParses := ← boolF j "pubkeyParses", sigParses := ← boolF j "sigParses", verifies := ← boolF j "verifies" }

def resStr : VerifyRes → String
  | .ok true => "true" | .ok false => "false" | .error => "error"

def isLowerHexStr (s : String) : Bool := s.toList.all fun c => ('0' ≤ c && c ≤ '9') || ('a' ≤ c && c ≤ 'f')

/-- the property's notion of authenticity, computed from the spec serialization and the Lean SHA-256 -/
def authenticSpec (o : SigOracle) (e : Event) : Bool :=
  e.id == Sha256.hexHash (String.ofList (SerSpec.nip01Canonical e)) && o.pubkeyParses && o.sigParses && o.verifies

def step (_ : Unit) (j : Json) : Except String (Unit × Drv.Out) := do
  let op ← strF j "op"
  let out ← fld j "out"
  match op with
  | "ser" =>
    let e ← event (← fld j "e")
    let implSer ← strF out "ser"
    let implSha ← strF out "sha"
    let m := serialize e
    let spec := String.ofList (SerSpec.nip01Canonical e)
    let mut o : Drv.Out := { nontrivial := true }
    o := o.tag s!"ser.{match fldD j "cls" with | .str s => s | _ => "?"}"
    if m != implSer then o := o.diff s!"Serialize: impl={implSer.quote} model={m.quote}"
    if Sha256.hexHash implSer != implSha then o := o.diff s!"sha256: crypto/sha256={implSha} lean={Sha256.hexHash implSer}"
    if implSer != spec then
      o := o.mon "canonical" "serialization" s!"Serialize() = {implSer.quote}, NIP-01 canonical form = {spec.quote}"
    pure ((), o)
  | "verify" =>
    let e ← event (← fld j "e")
    let orc ← oracleOf (← fld j "oracle")
    let impl ← strF out "res"
    let signed := fldD j "signed" == .bool true
    let tamper := match fldD j "tamper" with | .str s => s | _ => "none"
    let mut o : Drv.Out := { nontrivial := true }
    o := o.tag s!"verify.{impl}"
    o := o.tag s!"tamper.{tamper}"
    let model := resStr (verify (Sha256.hexHash (serialize e)) orc e)
    if model != impl then o := o.diff s!"Verify({(eventJ e).compress}): impl={impl} model={model}"
    -- property monitors (ids written in lower-case hex, as the gate requires)
    if isLowerHexStr e.id && isLowerHexStr e.pubkey && isLowerHexStr e.sig then
      let want := authenticSpec orc e
      if (impl == "true") != want then
        o := o.mon "authentic" (if want then "authentic-rejected" else "inauthentic-accepted")
          s!"event reported {impl}, but id = sha256(canonical) is {e.id == Sha256.hexHash (String.ofList (SerSpec.nip01Canonical e))} and the signature check says {orc.verifies}: {(eventJ e).compress}"
      if signed && tamper == "none" && impl != "true" then
        o := o.mon "authentic" "signed-rejected" s!"correctly signed event is not reported authentic: {(eventJ e).compress}"
      if tamper != "none" && impl == "true" then
        o := o.mon "authentic" "tampered-accepted" s!"altered ({tamper}) copy of a signed event is reported authentic: {(eventJ e).compress}"
    pure ((), o)
  | _ => throw s!"unknown op {op}"

def handler : Drv.Handler := { σ := Unit, init := (), step := step }

end Moc.Drv.AuthD
