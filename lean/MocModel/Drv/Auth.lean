import MocModel.Drv.Core
import MocModel.Spec.Serialize
import MocModel.Sha256
open Lean Moc.Wire

namespace Moc.Drv.AuthD

def oracleOf (j : Json) : Except String SigOracle := do
  pure { pubkeyParses := ← boolF j "pubkeyParses", sigParses := ← boolF j "sigParses", verifies := ← boolF j "verifies" }

def resStr : VerifyRes → String
  | .ok true => "true" | .ok false => "false" | .error => "error"

def isLowerHexStr (s : String) : Bool := s.toList.all fun c => ('0' ≤ c && c ≤ '9') || ('a' ≤ c && c ≤ 'f')

/-- the property's notion of authenticity, computed from the spec serialization, the Lean SHA-256 and the Lean
    BIP-340 (`o` is `sigOracleOf e`: nothing is taken from the implementation's library) -/
def authenticSpec (o : SigOracle) (e : Event) : Bool :=
  e.id == Sha256.hexHash (String.ofList (SerSpec.nip01Canonical e)) && o.pubkeyParses && o.sigParses && o.verifies

def oracleStr (o : SigOracle) : String := s!"pubkeyParses={o.pubkeyParses} sigParses={o.sigParses} verifies={o.verifies}"

def oracleBy (f : List Nat → List Nat → List Nat → Bip340.Verdict) (e : Event) : SigOracle :=
  match hexDecode e.pubkey.toList, hexDecode e.id.toList with
  | some pk, some idBin =>
    let v := f pk idBin ((hexDecode e.sig.toList).getD [])
    { pubkeyParses := v.pubkeyParses, sigParses := v.sigParses, verifies := v.verifies }
  | _, _ => { pubkeyParses := false, sigParses := false, verifies := false }

/-- the BIP itself (strict: `s ≥ n` fails), fast and reference versions -/
def bipOracleOf := oracleBy Bip340.verifyFast
def refOracleOf := oracleBy Bip340.verifyRef

def step (_ : Unit) (j : Json) : Except String (Unit × Drv.Out) := do
  let op ← strF j "op"
  let out ← fld j "out"
  match op with
  | "ser" =>
    let e ← event (← fld j "e")
    let implSer ← strF out "ser"
    let implSha ← strF out "sha"
    let m := serialize e
    let spec := String.ofList (SerSpec.nip01Canonical e)
    let mut o : Drv.Out := { nontrivial := true }
    o := o.tag s!"ser.{match fldD j "cls" with | .str s => s | _ => "?"}"
    if m != implSer then o := o.diff s!"Serialize: impl={implSer.quote} model={m.quote}"
    if Sha256.hexHash implSer != implSha then o := o.diff s!"sha256: crypto/sha256={implSha} lean={Sha256.hexHash implSer}"
    if implSer != spec then
      o := o.mon "canonical" "serialization" s!"Serialize() = {implSer.quote}, NIP-01 canonical form = {spec.quote}"
    pure ((), o)
  | "verify" =>
    let e ← event (← fld j "e")
    let orc ← oracleOf (← fld j "oracle")
    let impl ← strF out "res"
    let signed := fldD j "signed" == .bool true
    let tamper := match fldD j "tamper" with | .str s => s | _ => "none"
    let mut o : Drv.Out := { nontrivial := true }
    o := o.tag s!"verify.{impl}"
    o := o.tag s!"tamper.{tamper}"
    -- the signature verdict is the Lean BIP-340's; the library's (btcec, asked by the harness on the raw bytes)
    -- is compared with it whenever the signature check is reached
    let idOk := e.id == Sha256.hexHash (serialize e)
    let lib := if idOk then sigOracleOf e else orc      -- the model of the library (btcec: s taken mod n)
    let bip := if idOk then bipOracleOf e else orc      -- the BIP itself: what the property asks for
    if idOk then
      o := o.tag s!"bip340.{if bip.verifies then "valid" else if !bip.pubkeyParses then "pubkey-unparsable" else if !bip.sigParses then "sig-unparsable" else "invalid"}"
      if lib != bip then o := o.tag "bip340.library-deviates(s>=n)"
      let hexOk := (hexDecode e.pubkey.toList).isSome && (hexDecode e.sig.toList).isSome
      if hexOk && lib != orc then
        o := o.diff s!"BIP-340: btcec says {oracleStr orc}, the Lean model of btcec says {oracleStr lib}: {(eventJ e).compress}"
      if (e.id.toList.head?.getD '0') == '0' then   -- one in sixteen: the BIP's reference algorithm as well
        o := o.tag "bip340.reference-crosscheck"
        let r := refOracleOf e
        if r != bip then o := o.diff s!"BIP-340: reference algorithm {oracleStr r}, fast algorithm {oracleStr bip}: {(eventJ e).compress}"
    let model := resStr (verify (Sha256.hexHash (serialize e)) lib e)
    if model != impl then o := o.diff s!"Verify({(eventJ e).compress}): impl={impl} model={model}"
    -- property monitors (ids written in lower-case hex, as the gate requires)
    if isLowerHexStr e.id && isLowerHexStr e.pubkey && isLowerHexStr e.sig then
      let want := authenticSpec bip e
      if (impl == "true") != want then
        o := o.mon "authentic" (if want then "authentic-rejected" else "inauthentic-accepted")
          s!"event reported {impl}, but id = sha256(canonical) is {e.id == Sha256.hexHash (String.ofList (SerSpec.nip01Canonical e))} and BIP-340 says {bip.verifies}: {(eventJ e).compress}"
      if signed && tamper == "none" && impl != "true" then
        o := o.mon "authentic" "signed-rejected" s!"correctly signed event is not reported authentic: {(eventJ e).compress}"
      if tamper != "none" && impl == "true" then
        o := o.mon "authentic" "tampered-accepted" s!"altered ({tamper}) copy of a signed event is reported authentic: {(eventJ e).compress}"
    pure ((), o)
  | _ => throw s!"unknown op {op}"

def handler : Drv.Handler := { σ := Unit, init := (), step := step }

end Moc.Drv.AuthD
