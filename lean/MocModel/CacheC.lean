/-
  CONCRETE model of event_cache.go: the same operations as `MocModel/Cache.lean`, but with the creation-time tree
  (`evsCreatedAt`) and the secondary index (`evsIndex.idx`) as STATE that every operation maintains the way the Go
  code does (`treemap.Set/Del`, `eventCacheEvsIndex.Add/Delete`), and with every read going through them where the Go
  code reads them (eviction victim = last tree entry; by-id deletion = the id index; scan = the tree; indexable
  filters = unions / intersection of index sets).

  `MocProps/C04Refine.lean` proves that this model refines the abstract one (`Cache`, whose tree and index are
  derived views): same flags, same maps, same answers, for every history.  The correspondence check compares this
  model's tree, index and registry with the implementation's own tables (hook `EventCache.VerifState`) after every
  insertion.
-/
import MocModel.Cache

namespace Moc

inductive IdxKey where
  | id (v : String)
  | author (v : String)
  | kind (k : Int)
  | tag (n v : String)
deriving DecidableEq, Repr

abbrev Idx := List (IdxKey × List Event)

/-- `eventCacheEvsIndex.keysFromEvent` -/
def idxKeys (e : Event) : List IdxKey :=
  [.id e.id, .author e.pubkey, .kind e.kind] ++ (idxTagPairs e).map (fun p => .tag p.1 p.2)

/-- `c.idx[key]` (a missing key reads as the nil map) -/
def ixGet (idx : Idx) (k : IdxKey) : List Event := (idx.lookup k).getD []

def ixSet (idx : Idx) (k : IdxKey) (s : List Event) : Idx := (k, s) :: idx.filter (fun p => p.1 != k)

def ixErase (idx : Idx) (k : IdxKey) : Idx := idx.filter (fun p => p.1 != k)

/-- one round of `eventCacheEvsIndex.Add`: `m[event] = true` in the set of `key` (created when missing) -/
def ixAdd1 (idx : Idx) (e : Event) (k : IdxKey) : Idx :=
  let s := ixGet idx k
  ixSet idx k (if s.contains e then s else e :: s)

/-- one round of `eventCacheEvsIndex.Delete`: a missing key is skipped; an emptied set is removed -/
def ixDel1 (idx : Idx) (e : Event) (k : IdxKey) : Idx :=
  match idx.lookup k with
  | none => idx
  | some s =>
    let s' := s.filter (fun x => x != e)
    if s'.isEmpty then ixErase idx k else ixSet idx k s'

def ixAdd (idx : Idx) (e : Event) : Idx := (idxKeys e).foldl (fun i k => ixAdd1 i e k) idx
def ixDelete (idx : Idx) (e : Event) : Idx := (idxKeys e).foldl (fun i k => ixDel1 i e k) idx

/-- the tree's key equality: neither key is less than the other -/
def sameKey (x y : Event) : Bool := !before x y && !before y x

/-- `evsCreatedAt.Del(key of cand)` -/
def tDel (cand : Event) (tree : List Event) : List Event := tree.filter (fun x => !sameKey x cand)

structure CCache where
  a : Cache                     -- the maps `c.evs` and `c.deleted`
  tree : List Event := []       -- `evsCreatedAt`, in iteration order
  idx : Idx := []               -- `evsIndex.idx`
deriving Repr

/-- `delete(delEvKey)` -/
def CCache.delete (c : CCache) (key pubkey : String) : CCache :=
  match c.a.lookup key with
  | none => c
  | some cand =>
    if Gen.deleteForeign cand.pubkey pubkey then c
    else { a := c.a.delete key pubkey, tree := tDel cand c.tree, idx := ixDelete c.idx cand }

/-- the tail of `add`: the three tables receive the event -/
def CCache.put (c : CCache) (e : Event) : CCache :=
  { a := { c.a with evs := e :: c.a.evs }, tree := insertOrd e c.tree, idx := ixAdd c.idx e }

/-- `add(eventKey, event)` -/
def CCache.addEv (c : CCache) (key : String) (e : Event) : CCache × Bool :=
  match c.a.lookup key with
  | some old =>
    if Gen.addKeepsOld old.createdAt e.createdAt then (c, false)
    else ((c.delete key old.pubkey).put e, true)
  | none => (c.put e, true)

def CCache.addKind5 (c : CCache) (e : Event) : CCache := { c with a := c.a.addKind5 e }

/-- the by-id loop of `deleteByKind5`: `for ev := range c.evsIndex.idx[{ID, key}] { c.delete(key of ev, pubkey) }` -/
def CCache.deleteById (c : CCache) (k pubkey : String) : CCache :=
  (ixGet c.idx (.id k)).foldl (fun c x => c.delete (eventKey x) pubkey) c

/-- `deleteByKind5` -/
def CCache.deleteByKind5 (c : CCache) (e : Event) : CCache :=
  (k5Refs e).foldl (fun c k => (c.delete k e.pubkey).deleteById k e.pubkey) c

/-- the eviction step of `Add`: `getOldestEvent` = the tree's last entry -/
def CCache.evict (c : CCache) : CCache :=
  if Gen.addOverCap c.a.evs.length c.a.cap then
    match c.tree.getLast? with
    | some o => c.delete (eventKey o) o.pubkey
    | none => c
  else c

/-- what `Add` does after a successful `add` -/
def CCache.afterAdd (c : CCache) (e : Event) : CCache :=
  (if Gen.addIsKind5 e.kind then (c.addKind5 e).deleteByKind5 e else c).evict

/-- `EventCache.Add` -/
def CCache.add (c : CCache) (e : Event) : CCache × Bool :=
  if eventType e.kind == .ephemeral then (c, true)
  else
    let key := eventKey e
    if Gen.addBlocked (c.a.isDeleted key e.pubkey) (c.a.isDeleted e.id e.pubkey) then (c, false)
    else
      let r := c.addEv key e
      if r.2 then (r.1.afterAdd e, true) else (c, false)

/-! ### queries -/

/-- `keysFromReqFilter`: one key list per present condition -/
def filterKeys (f : Filter) : List (List IdxKey) :=
  (match f.ids with | some l => [l.map IdxKey.id] | none => []) ++
  (match f.authors with | some l => [l.map IdxKey.author] | none => []) ++
  (match f.kinds with | some l => [l.map IdxKey.kind] | none => []) ++
  (match f.tags with | some conds => conds.map (fun c => c.2.map (fun v => IdxKey.tag c.1 v)) | none => [])

/-- set union into a list without repetitions (`m[ev] = true` for every member of every listed set) -/
def unionInto (acc : List Event) (s : List Event) : List Event :=
  s.foldl (fun a e => if a.contains e then a else e :: a) acc

/-- the map built for one condition: the union of the index sets of its keys -/
def condSet (idx : Idx) (ks : List IdxKey) : List Event := ks.foldl (fun a k => unionInto a (ixGet idx k)) []

/-- insertion of a set into a list ordered by size (`slices.SortFunc` by `len`; which of two equal sizes comes first
    is unspecified in Go and irrelevant: only the intersection is used) -/
def insertBySize (s : List Event) : List (List Event) → List (List Event)
  | [] => [s]
  | x :: xs => if s.length ≤ x.length then s :: x :: xs else x :: insertBySize s xs

def sortBySize (ss : List (List Event)) : List (List Event) := ss.foldr insertBySize []

/-- the `for len(idMaps) > 1` loop: the smallest set keeps the members found in every other set -/
def intersectAll : List (List Event) → List Event
  | [] => []
  | m :: rest => m.filter (fun e => rest.all (fun s => s.contains e))

/-- `eventCacheEvsIndex.Find` for one indexable filter -/
def CCache.findIdx (c : CCache) (perm : List Event → List Event) (f : Filter) : Res (List Event) :=
  let cands := intersectAll (sortBySize ((filterKeys f).map (condSet c.idx)))
  let limit : Int := match f.limit with
    | some l => min (cands.length : Int) l
    | none => cands.length
  topkLoop f limit (perm cands) [] 0

def CCache.findStep (c : CCache) (perm : List Event → List Event) (acc : Res (List Event)) (f : Filter) : Res (List Event) :=
  match acc with
  | .panic => .panic
  | .ok tree =>
    match (if isFullScanFilter f then scanLoop { f := f } c.tree else c.findIdx perm f) with
    | .panic => .panic
    | .ok es => .ok (es.foldl (fun t e => insertOrd e t) tree)

/-- `findNeedLock` + `Find` -/
def CCache.find (c : CCache) (perm : List Event → List Event) (fs : List Filter) : Res (List Event) :=
  if Gen.findEmpty c.a.evs.length then .ok []
  else fs.foldl (c.findStep perm) (.ok [])

def CCache.init (cap : Int) : CCache := { a := { cap := cap } }

end Moc
