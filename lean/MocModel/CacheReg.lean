/-
  The deletion registry as the Go code keeps it (event_cache.go `deleted`: a map from (event key, author) to the SET of
  ids of the retained deletion requests naming that key; `isDeleted` = the entry exists; an emptied set is removed), next
  to the flat set of triples the models `Cache` / `CCache` use.  `MocProps/C05Reg.lean` proves that every registry
  operation of the code implements the corresponding operation on triples.
-/
import MocModel.Cache

namespace Moc

abbrev Reg := List ((String × String) × List String)

def rGet (r : Reg) (k : String × String) : List String := (r.lookup k).getD []
def rSet (r : Reg) (k : String × String) (s : List String) : Reg := (k, s) :: r.filter (fun p => p.1 != k)
def rErase (r : Reg) (k : String × String) : Reg := r.filter (fun p => p.1 != k)

/-- one round of `addKind5`: `c.deleted[k][event.ID] = true` (the inner map is created when missing) -/
def regAdd (r : Reg) (key pubkey id : String) : Reg :=
  let s := rGet r (key, pubkey)
  rSet r (key, pubkey) (if s.contains id then s else id :: s)

/-- one round of the clean-up in `delete`: `delete(c.deleted[k], cand.ID)`, then the entry goes when it is empty -/
def regDel (r : Reg) (key pubkey id : String) : Reg :=
  match r.lookup (key, pubkey) with
  | none => r
  | some s =>
    let s' := s.filter (fun x => x != id)
    if s'.isEmpty then rErase r (key, pubkey) else rSet r (key, pubkey) s'

/-- `isDeleted`: `c.deleted[k] != nil` -/
def regIsDeleted (r : Reg) (key pubkey : String) : Bool := (r.lookup (key, pubkey)).isSome

/-- the triples the registry stands for -/
def triples (r : Reg) : List (String × String × String) := r.flatMap fun p => p.2.map fun i => (p.1.1, p.1.2, i)

end Moc
