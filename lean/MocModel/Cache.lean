/-
  Model of event_cache.go (C03, C04, C05, C15, C16).

  State: `evs` (the Go map `c.evs`, as the list of its values; keys = `eventKey`, distinct) and
  `deleted` (the registry `c.deleted`, as a set of triples).  The creation-time tree and the
  secondary index are modelled as DERIVED views of `evs` (their maintenance code is covered by the
  step-by-step correspondence, which compares every query answer after every insertion).
  Every comparison / kind range / format string comes from `Gen/Cache.lean` (regenerated).
-/
import MocModel.Matcher
import MocModel.Gen.Cache

namespace Moc

structure Cache where
  cap : Int
  evs : List Event := []
  /-- (referenced key, author, id of the retained deletion request that references it) -/
  deleted : List (String × String × String) := []
deriving Repr, DecidableEq

/-- `Event.EventType` -/
def eventType (kind : Int) : EventType :=
  if Gen.isReplaceableKind kind then .replaceable
  else if Gen.isEphemeralKind kind then .ephemeral
  else if Gen.isAddressableKind kind then .addressable
  else .regular

/-- `slices.IndexFunc(event.Tags, isDTag)` and the value read from the tag found -/
def dValue (tags : List (List String)) : String :=
  match tags.find? (fun t => Gen.isDTag t.length (t.headD "")) with
  | some t => if Gen.dTagHasValue true t.length then t.getD 1 "" else ""
  | none => if Gen.dTagHasValue false 0 then "" else ""

/-- `EventCache.getEventKey` -/
def eventKey (e : Event) : String :=
  match eventType e.kind with
  | .regular => e.id
  | .replaceable => toString e.kind ++ ":" ++ e.pubkey
  | .addressable => toString e.kind ++ ":" ++ e.pubkey ++ ":" ++ dValue e.tags
  | .ephemeral => ""

/-- `getEventKeyFromKind5Tags` -/
def k5Refs (e : Event) : List String :=
  e.tags.filterMap fun t =>
    if Gen.k5TagTooShort t.length then none
    else if Gen.k5TagIsRef (t.headD "") then some (t.getD 1 "") else none

def Cache.lookup (c : Cache) (key : String) : Option Event := c.evs.find? (fun x => eventKey x == key)

/-- `isDeleted` -/
def Cache.isDeleted (c : Cache) (key pubkey : String) : Bool :=
  c.deleted.any fun t => t.1 == key && t.2.1 == pubkey

/-- `delete(delEvKey)`: removes the event stored under `key` if its author is `pubkey`; if it is a
    deletion request, its registry entries go with it -/
def Cache.delete (c : Cache) (key pubkey : String) : Cache :=
  match c.lookup key with
  | none => c
  | some cand =>
    if Gen.deleteForeign cand.pubkey pubkey then c
    else
      let deleted' :=
        if Gen.deleteIsKind5 cand.kind then
          c.deleted.filter fun t => !((k5Refs cand).contains t.1 && t.2.1 == cand.pubkey && t.2.2 == cand.id)
        else c.deleted
      { c with evs := c.evs.filter (fun x => eventKey x != key), deleted := deleted' }

/-- `add(eventKey, event)` -/
def Cache.addEv (c : Cache) (key : String) (e : Event) : Cache × Bool :=
  match c.lookup key with
  | some old =>
    if Gen.addKeepsOld old.createdAt e.createdAt then (c, false)
    else
      let c' := c.delete key old.pubkey
      ({ c' with evs := e :: c'.evs }, true)
  | none => ({ c with evs := e :: c.evs }, true)

/-- `addKind5` -/
def Cache.addKind5 (c : Cache) (e : Event) : Cache :=
  { c with deleted := (k5Refs e).foldl (fun d k => if d.contains (k, e.pubkey, e.id) then d else (k, e.pubkey, e.id) :: d) c.deleted }

/-- `deleteByKind5`: every referenced key of the author is deleted; a reference may also be the id of a
    replaceable / addressable event, which is stored under its address (looked up through the id index) -/
def Cache.deleteByKind5 (c : Cache) (e : Event) : Cache :=
  (k5Refs e).foldl (fun c k =>
    let c1 := c.delete k e.pubkey
    (c1.evs.filter (fun x => x.id == k)).foldl (fun c x => c.delete (eventKey x) e.pubkey) c1) c

/-- expected text of the second `c.delete` call in `deleteByKind5` (the by-id loop body) -/
def k5ByIDLoopExpected : String := "c.delete(eventCacheDeletedEventKey{c.getEventKey(ev), event.Pubkey})"

/-- the generated tree order: `a` comes before `b` (newest first; ties by larger id first) -/
def before (a b : Event) : Bool := Gen.treeLess a.createdAt a.id b.createdAt b.id

/-- `getOldestEvent`: the last element in tree order -/
def oldestOf : List Event → Option Event
  | [] => none
  | e :: es =>
    match oldestOf es with
    | none => some e
    | some o => if before o e then some e else some o

/-- the expected text of the ephemeral guard that `Cache.add` translates -/
def addSkipsEphemeralExpected : String := "if event.EventType() == EventTypeEphemeral { return true }"

/-- `EventCache.Add` -/
def Cache.add (c : Cache) (e : Event) : Cache × Bool :=
  if eventType e.kind == .ephemeral then (c, true)
  else
    let key := eventKey e
    if Gen.addBlocked (c.isDeleted key e.pubkey) (c.isDeleted e.id e.pubkey) then (c, false)
    else
      match c.addEv key e with
      | (_, false) => (c, false)
      | (c1, true) =>
        let c2 := if Gen.addIsKind5 e.kind then (c1.addKind5 e).deleteByKind5 e else c1
        let c3 :=
          if Gen.addOverCap c2.evs.length c2.cap then
            match oldestOf c2.evs with
            | some o => c2.delete (eventKey o) o.pubkey
            | none => c2
          else c2
        (c3, true)

/-! ### queries -/

/-- insertion into a list kept in tree order (`treemap.Set`, keyed by (created_at, id)) -/
def insertOrd (e : Event) : List Event → List Event
  | [] => [e]
  | x :: xs =>
    if before e x then e :: x :: xs
    else if before x e then x :: insertOrd e xs
    else e :: xs   -- same (created_at, id): the tree replaces the value

def sortOrd (es : List Event) : List Event := es.foldl (fun acc e => insertOrd e acc) []

/-- the creation-time tree as a view of `evs` -/
def Cache.byTime (c : Cache) : List Event := sortOrd c.evs

/-- the ordered-scan path of `findNeedLock`: walk the tree, stop when `Done`, keep `LimitMatch` hits -/
def scanLoop : LMatcher → List Event → Res (List Event)
  | _, [] => .ok []
  | m, e :: es =>
    if m.done then .ok []
    else match m.limitMatch e with
      | .panic => .panic
      | .ok (true, m') =>
        match scanLoop m' es with
        | .panic => .panic
        | .ok r => .ok (e :: r)
      | .ok (false, m') => scanLoop m' es

/-- index keys of an event: the tag part (`keysFromEvent`) decides which (name, value) pairs are indexed -/
def idxTagPairs (e : Event) : List (String × String) :=
  e.tags.filterMap fun t =>
    if Gen.idxSkipsEmptyTag t.length then none
    else if Gen.idxSkipsLongName (t.headD "").utf8ByteSize then none
    else some (t.headD "", if Gen.idxTagHasValue t.length then t.getD 1 "" else "")

/-- membership in the intersection of the per-condition unions computed from the index -/
def idxCandidate (f : Filter) (e : Event) : Bool :=
  listedOr true f.ids e.id && listedOr true f.authors e.pubkey && listedOr true f.kinds e.kind &&
  (match f.tags with
   | some conds => conds.all fun c => c.2.any fun v => (idxTagPairs e).contains (c.1, v)
   | none => true)

/-- the top-k loop of `eventCacheEvsIndex.Find`: candidates arrive in ARBITRARY (Go map) order `cands`;
    each since/until match is inserted into the result tree and, when the tree exceeds `limit`, its last
    (oldest) element is dropped -/
def topkLoop (f : Filter) (limit : Int) : List Event → List Event → Int → Res (List Event)
  | [], acc, _ => .ok acc
  | e :: es, acc, cnt =>
    match matchOne { since := f.since, until_ := f.until_ } e with
    | .panic => .panic
    | .ok false => topkLoop f limit es acc cnt
    | .ok true =>
      let acc' := insertOrd e acc
      if Gen.topkOverLimit (cnt + 1) limit then topkLoop f limit es acc'.dropLast cnt
      else topkLoop f limit es acc' (cnt + 1)

def isFullScanFilter (f : Filter) : Bool :=
  Gen.isFullScan f.ids.isNone f.authors.isNone f.kinds.isNone ((f.tags.getD []).length)

/-- `eventCacheEvsIndex.Find` for one indexable filter; `perm` fixes the iteration order of the candidate set -/
def Cache.findIdx (c : Cache) (perm : List Event → List Event) (f : Filter) : Res (List Event) :=
  let cands := c.evs.filter (idxCandidate f)
  let limit : Int := match f.limit with
    | some l => min (cands.length : Int) l
    | none => cands.length
  topkLoop f limit (perm cands) [] 0

/-- one filter of `findNeedLock`: the index path or the scan path, its result merged into the tree -/
def Cache.findStep (c : Cache) (perm : List Event → List Event) (acc : Res (List Event)) (f : Filter) : Res (List Event) :=
  match acc with
  | .panic => .panic
  | .ok tree =>
    match (if isFullScanFilter f then scanLoop { f := f } c.byTime else c.findIdx perm f) with
    | .panic => .panic
    | .ok es => .ok (es.foldl (fun t e => insertOrd e t) tree)

/-- `findNeedLock` + `Find`: per filter the index path or the scan path, results merged into one tree -/
def Cache.find (c : Cache) (perm : List Event → List Event) (fs : List Filter) : Res (List Event) :=
  if Gen.findEmpty c.evs.length then .ok []
  else fs.foldl (c.findStep perm) (.ok [])

def Cache.len (c : Cache) : Int := c.evs.length

end Moc
