/-
  JSON values as Go's encoding/json hands them to the repo's decoders.
  Numbers are kept as: an integer literal (`int i`, any size — range checks are explicit in the
  decoders, mirroring `json.Number.Int64()` / uint64 decoding) or any other numeric literal
  (`numBad`: fraction / exponent).  Objects keep duplicate keys and their order.
  The bytes→tree step (tokenizer, string unescaping, UTF-8 repair) is encoding/json's and is
  trusted; the harness produces the tree with Go's own decoder.
-/
import MocModel.Wire
open Lean

namespace Moc

inductive JT where
  | null
  | bool (b : Bool)
  | int (i : Int)
  | numBad (lit : String)
  | str (s : String)
  | arr (a : List JT)
  | obj (kv : List (String × JT))
deriving Repr, Inhabited

/-- harness encoding: null | true/false | {"i":n} | {"n":"lit"} | "str" | [..] | {"o":[[k,v],..]} -/
partial def JT.ofJson (j : Json) : Except String JT :=
  match j with
  | .null => pure .null
  | .bool b => pure (.bool b)
  | .str s => pure (.str s)
  | .arr a => do pure (.arr (← a.toList.mapM JT.ofJson))
  | .num _ => throw "bare number in tree encoding"
  | .obj _ =>
    match j.getObjVal? "i", j.getObjVal? "n", j.getObjVal? "o" with
    | .ok i, _, _ => do pure (.int (← Wire.asInt i))
    | _, .ok n, _ => do pure (.numBad (← Wire.asStr n))
    | _, _, .ok (.arr kvs) => do
      let l ← kvs.toList.mapM fun p => do
        match p with
        | .arr #[.str k, v] => pure (k, ← JT.ofJson v)
        | _ => throw "bad object member in tree encoding"
      pure (.obj l)
    | _, _, _ => throw "bad tree encoding"

partial def JT.toJson : JT → Json
  | .null => .null
  | .bool b => .bool b
  | .int i => Json.mkObj [("i", Wire.jInt i)]
  | .numBad l => Json.mkObj [("n", .str l)]
  | .str s => .str s
  | .arr a => .arr (a.map JT.toJson).toArray
  | .obj kv => Json.mkObj [("o", .arr (kv.map fun (k, v) => Json.arr #[.str k, v.toJson]).toArray)]

def int64Min : Int := -9223372036854775808
def int64Max : Int := 9223372036854775807
def uint64Max : Int := 18446744073709551615

def inInt64 (i : Int) : Bool := decide (int64Min ≤ i) && decide (i ≤ int64Max)

end Moc
