/-
  Model of MergeHandler's per-session state machines (handler.go): `mergeHandlerSessionOKState`,
  `…ReqState`, `…CountState` and the `handleRecv*` / `handleSend*` steps (C08, C09).

  A session is two serial processes sharing the three states through 1-slot channels, so every
  `handleRecvMsg` / `handleSendMsg` runs atomically: a trace is a sequence of atomic steps
      client m        — the state update for a client message (the message is then broadcast unchanged)
      child i msg     — child i's server message reaches `handleSend`
  All tests come from `Gen/Merge.lean` (regenerated).
-/
import MocModel.Matcher
import MocModel.Gen.Merge

namespace Moc

/-! association lists as Go maps -/
def alGet {β} (l : List (String × β)) (k : String) : Option β := l.lookup k
def alSet {β} (l : List (String × β)) (k : String) (v : β) : List (String × β) :=
  (k, v) :: l.filter (fun p => p.1 != k)
def alErase {β} (l : List (String × β)) (k : String) : List (String × β) := l.filter (fun p => p.1 != k)

structure OKMsg where
  id : String
  accepted : Bool
  text : String          -- `Message()` = prefix ++ msg
deriving DecidableEq, Repr

structure ReqSub where
  eose : List Bool
  last : Option Event
  seen : List String
  matchers : List LMatcher
deriving DecidableEq, Repr

structure MergeSt where
  n : Nat
  ok : List (String × List (List (Option OKMsg))) := []    -- pending OK table: event id ↦ rows (one per EVENT in flight, oldest first) of one slot per child
  req : List (String × ReqSub) := []                       -- per-subscription merge state
  cnt : List (String × List (List (Option (String × Nat × Option Bool)))) := []   -- pending COUNT table, same shape
deriving Repr

/-! ### client side: `handleRecvMsg` -/

/-- `append(stat.s[id], make([]…, size))` -/
def addRow {α} (rows : List (List (Option α))) (n : Nat) : List (List (Option α)) := rows ++ [List.replicate n none]

/-- slot `i` of the row exists and is still nil -/
def slotFree {α} (row : List (Option α)) (i : Nat) : Bool :=
  match row[i]? with
  | some none => true
  | _ => false

/-- `SetMsg` / `SetCountMsg`: the reply goes to the oldest row whose slot `i` is still free; dropped when none is -/
def fillFirst {α} (free : Bool → Bool) : List (List (Option α)) → Nat → α → List (List (Option α))
  | [], _, _ => []
  | row :: rest, i, v => if free (slotFree row i) then row.set i (some v) :: rest else row :: fillFirst free rest i v

/-- `ClearEventID` / `ClearSubID`: drop the oldest row; delete the key with the last one -/
def popRow {α} (keep : Int → Bool) (tbl : List (String × List (List (Option α)))) (k : String) (rows : List (List (Option α))) :
    List (String × List (List (Option α))) :=
  if keep rows.length then alSet tbl k rows.tail else alErase tbl k

def MergeSt.client (st : MergeSt) : ClientMsg → MergeSt
  | .event e => { st with ok := alSet st.ok e.id (addRow ((alGet st.ok e.id).getD []) st.n) }
  | .req sub fs =>
    { st with req := alSet st.req sub { eose := List.replicate st.n false, last := none, seen := [], matchers := newMatchers fs } }
  | .close sub => { st with req := alErase st.req sub }
  | .count sub _ => { st with cnt := alSet st.cnt sub (addRow ((alGet st.cnt sub).getD []) st.n) }
  | .auth _ => st

/-! ### server side: `handleSendMsg` -/

/-- `AllEOSE(subID)`: true when no state exists; when every flag is set the state is deleted -/
def allEose (st : MergeSt) (sub : String) : MergeSt × Bool :=
  if Gen.reqAllEoseAbsent (alGet st.req sub).isSome then (st, true)
  else
    match alGet st.req sub with
    | none => (st, true)
    | some r => if !r.eose.contains false then ({ st with req := alErase st.req sub }, true) else (st, false)

def setEose (st : MergeSt) (sub : String) (i : Nat) : MergeSt :=
  match alGet st.req sub with
  | none => st
  | some r => if Gen.reqSetEoseSkip r.eose.length then st else { st with req := alSet st.req sub { r with eose := r.eose.set i true } }

/-- `handleSendEOSEMsg` -/
def sendEose (st : MergeSt) (i : Nat) (sub : String) : MergeSt × Option ServerMsg :=
  if Gen.eoseAlready (allEose st sub).2 then ((allEose st sub).1, none)
  else if Gen.eoseNotYet (allEose (setEose (allEose st sub).1 sub i) sub).2
    then ((allEose (setEose (allEose st sub).1 sub i) sub).1, none)
    else ((allEose (setEose (allEose st sub).1 sub i) sub).1, some (.eose sub))

def cmpInt (a b : Int) : Int := if a < b then -1 else if a > b then 1 else 0

/-- the order test of `IsSendableEventMsg` against the last event looked at: `none` = newer than the last one
    (refused); an older one starts a new timestamp, so the ids seen are forgotten -/
def ordStep (r : ReqSub) (e : Event) : Option ReqSub :=
  match r.last with
  | none => some r
  | some l =>
    if Gen.evNewer (cmpInt l.createdAt e.createdAt) then none
    else if Gen.evOlder (cmpInt l.createdAt e.createdAt) then some { r with seen := [] }
    else some r

/-- `IsSendableEventMsg` after its two EOSE tests: the new state of the subscription and the verdict -/
def subStep (r : ReqSub) (e : Event) : ReqSub × Res Bool :=
  match ordStep r e with
  | none => (r, .ok false)
  | some r1 =>
    if Gen.evSeen false (r1.seen.contains e.id) then ({ r1 with last := some e }, .ok false)
    else if Gen.evDone (doneAll r1.matchers) then ({ r1 with last := some e, seen := e.id :: r1.seen }, .ok false)
    else
      match limitMatchAll r1.matchers e with
      | .panic => (r, .panic)
      | .ok (m, ms') => ({ r1 with last := some e, seen := e.id :: r1.seen, matchers := ms' }, .ok (!Gen.evNoMatch m))

/-- `IsSendableEventMsg` -/
def sendableEvent (st : MergeSt) (i : Nat) (sub : String) (e : Event) : MergeSt × Res Bool :=
  if Gen.evAllEose (allEose st sub).2 then ((allEose st sub).1, .ok true)
  else
    match alGet (allEose st sub).1.req sub with
    | none => ((allEose st sub).1, .ok false)          -- unreachable: allEose returned false, so the state exists
    | some r =>
      if Gen.evChildEose (Gen.reqIsEose r.eose.length (r.eose.getD i false)) then ((allEose st sub).1, .ok false)
      else ({ (allEose st sub).1 with req := alSet (allEose st sub).1.req sub (subStep r e).1 }, (subStep r e).2)

/-- `Msg(eventID)` + `joinServerOKMsgs`: the rejecting replies if any, else the accepting ones, joined in
    child order; id and verdict of the first of them -/
def joinPick (slots : List OKMsg) : List OKMsg :=
  if Gen.okMsgRejected (slots.filter fun m => !Gen.okMsgAccepted m.accepted).length
  then slots.filter fun m => !Gen.okMsgAccepted m.accepted
  else slots.filter fun m => Gen.okMsgAccepted m.accepted

/-- `joinServerOKMsgs` -/
def joinOf : List OKMsg → Option ServerMsg
  | [] => none
  | m :: ms => some (.ok m.id m.accepted "" (String.join ((m :: ms).map (·.text))))

def joinOK (slots : List OKMsg) : Option ServerMsg := joinOf (joinPick slots)

/-- `handleSendOKMsg` -/
def sendOK (st : MergeSt) (i : Nat) (m : OKMsg) : MergeSt × Option ServerMsg :=
  let rows := (alGet st.ok m.id).getD []
  let rows1 := fillFirst Gen.okSetMsgFree rows i m
  let tbl1 := if rows.isEmpty then st.ok else alSet st.ok m.id rows1
  let ready := if Gen.okReadyNone rows1.length then false else Gen.okReadyExpr ((rows1.headD []).contains none)
  if Gen.okSendNotReady ready then ({ st with ok := tbl1 }, none)
  else ({ st with ok := popRow Gen.okClearKeep tbl1 m.id rows1 }, joinOK ((rows1.headD []).filterMap id))

/-- `slices.MaxFunc`: the first maximal element -/
def maxCount : List (String × Nat × Option Bool) → Option (String × Nat × Option Bool)
  | [] => none
  | x :: xs =>
    match maxCount xs with
    | none => some x
    | some y => if x.2.1 < y.2.1 then some y else some x

/-- `handleSendCountMsg` -/
def sendCount (st : MergeSt) (i : Nat) (sub : String) (n : Nat) (a : Option Bool) : MergeSt × Option ServerMsg :=
  let rows := (alGet st.cnt sub).getD []
  let rows1 := fillFirst Gen.cntSetFree rows i (sub, n, a)
  let tbl1 := if rows.isEmpty then st.cnt else alSet st.cnt sub rows1
  let ready := if Gen.cntReadyNone rows1.length then false else Gen.cntReadyExpr ((rows1.headD []).contains none)
  if Gen.cntSendNotReady ready then ({ st with cnt := tbl1 }, none)
  else
    ({ st with cnt := popRow Gen.cntClearKeep tbl1 sub rows1 },
      (maxCount ((rows1.headD []).filterMap id)).map fun x => .count x.1 x.2.1 x.2.2)

/-- `handleSendMsg`: one child message, the resulting state, what is written to the client -/
def MergeSt.child (st : MergeSt) (i : Nat) : ServerMsg → MergeSt × Res (Option ServerMsg)
  | .eose sub => ((sendEose st i sub).1, .ok (sendEose st i sub).2)
  | .event sub e =>
    ((sendableEvent st i sub e).1,
      match (sendableEvent st i sub e).2 with
      | .panic => .panic
      | .ok b => .ok (if b then some (.event sub e) else none))
  | .ok id acc pfx msg =>
    ((sendOK st i { id := id, accepted := acc, text := pfx ++ msg }).1, .ok (sendOK st i { id := id, accepted := acc, text := pfx ++ msg }).2)
  | .count sub n a => ((sendCount st i sub n a).1, .ok (sendCount st i sub n a).2)
  | m => (st, .ok (some m))

inductive MStep where
  | client (m : ClientMsg)
  | child (i : Nat) (m : ServerMsg)
deriving Repr

def outOf : Res (Option ServerMsg) → List ServerMsg
  | .ok (some o) => [o]
  | _ => []

/-- run a trace; the outputs written to the client, in order -/
def runMerge (st : MergeSt) : List MStep → MergeSt × List ServerMsg
  | [] => (st, [])
  | .client m :: rest => runMerge (st.client m) rest
  | .child i m :: rest =>
    ((runMerge (st.child i m).1 rest).1, outOf (st.child i m).2 ++ (runMerge (st.child i m).1 rest).2)

/-- the four client-side bookkeeping steps: each touches ONE table (an EVENT the OK table, a REQ and a CLOSE the
    subscription table, a COUNT the count table) — in particular a CLOSE never touches a pending COUNT -/
def mergeRecvActual : List String := [Gen.recvEventBody, Gen.recvReqBody, Gen.recvCloseBody, Gen.recvCountBody]
def mergeRecvExpected : List String :=
  ["{ s := <-ss.okStat defer func() { ss.okStat <- s }() s.TrySetEventID(msg.Event.ID) return msg }",
   "{ s := <-ss.reqStat defer func() { ss.reqStat <- s }() s.SetSubID(msg.SubscriptionID, msg.ReqFilters) return msg }",
   "{ s := <-ss.reqStat defer func() { ss.reqStat <- s }() s.ClearSubID(msg.SubscriptionID) return msg }",
   "{ s := <-ss.countStat defer func() { ss.countStat <- s }() s.SetSubID(msg.SubscriptionID) return msg }"]

def mergeActualSource : List String := [Gen.okJoin, Gen.okJoinEach, Gen.reqAllEoseExpr, Gen.evCmp, Gen.cntMax, Gen.okAppend, Gen.cntAppend, Gen.cntMaxOf]
def mergeExpectedSource : List String :=
  ["NewServerOKMsg(msgs[0].EventID, msgs[0].Accepted, \"\", b.String())", "b.WriteString(msg.Message())",
   "slices.Contains(eoses, false)",
   "if res := cmp.Compare(last.Event.CreatedAt, msg.Event.CreatedAt); res < 0 { return false }",
   "cmp.Compare(a.Count, b.Count)",
   "append(stat.s[eventID], make([]*ServerOKMsg, stat.size))",
   "append(stat.counts[subID], make([]*ServerCountMsg, stat.size))",
   "slices.MaxFunc( stat.counts[subID][0], func(a, b *ServerCountMsg) int { return cmp.Compare(a.Count, b.Count) }, )"]

end Moc
