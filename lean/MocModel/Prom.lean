/-
  Model of middleware/prometheus (C19): the bookkeeping of the gauges and counters, as an
  explicit state machine over Start / End / client message / server message steps of any
  number of sessions.  Label tables are built from the regenerated `case` types and
  `WithLabelValues("…")` calls; the guarded gauge operations are pinned against the regenerated
  source text (`promExpectedSource`).
-/
import MocModel.Basic
import MocModel.Gen.Prom

namespace Moc

/-- the Go dynamic type of a message, as written in the `switch msg.(type)` cases -/
def ClientMsg.goType : ClientMsg → String
  | .event _ => "*mocrelay.ClientEventMsg"
  | .req _ _ => "*mocrelay.ClientReqMsg"
  | .close _ => "*mocrelay.ClientCloseMsg"
  | .auth _ => "*mocrelay.ClientAuthMsg"
  | .count _ _ => "*mocrelay.ClientCountMsg"

def ServerMsg.goType : ServerMsg → String
  | .eose _ => "*mocrelay.ServerEOSEMsg"
  | .event _ _ => "*mocrelay.ServerEventMsg"
  | .notice _ => "*mocrelay.ServerNoticeMsg"
  | .ok _ _ _ _ => "*mocrelay.ServerOKMsg"
  | .auth _ => "*mocrelay.ServerAuthMsg"
  | .count _ _ _ => "*mocrelay.ServerCountMsg"
  | .closed _ _ _ => "*mocrelay.ServerClosedMsg"

def recvTable : List (String × String) :=
  [(Gen.recvCase0, Gen.recvLabel0), (Gen.recvCase1, Gen.recvLabel1), (Gen.recvCase2, Gen.recvLabel2),
   (Gen.recvCase3, Gen.recvLabel3), (Gen.recvCase4, Gen.recvLabel4)]

def sendTable : List (String × String) :=
  [(Gen.sendCase0, Gen.sendLabel0), (Gen.sendCase1, Gen.sendLabel1), (Gen.sendCase2, Gen.sendLabel2),
   (Gen.sendCase3, Gen.sendLabel3), (Gen.sendCase4, Gen.sendLabel4), (Gen.sendCase5, Gen.sendLabel5),
   (Gen.sendCase6, Gen.sendLabel6)]

def recvLabel (m : ClientMsg) : String := (recvTable.lookup m.goType).getD Gen.recvLabelDefault
def sendLabel (m : ServerMsg) : String := (sendTable.lookup m.goType).getD Gen.sendLabelDefault

/-- counter vectors as association lists -/
def bump {α} [BEq α] (k : α) : List (α × Nat) → List (α × Nat)
  | [] => [(k, 1)]
  | (k', n) :: rest => if k' == k then (k', n + 1) :: rest else (k', n) :: bump k rest

def getCnt {α} [BEq α] (k : α) (l : List (α × Nat)) : Nat := (l.lookup k).getD 0

structure Prom where
  conn  : Int := 0                                   -- mocrelay_connection_count
  req   : Int := 0                                   -- mocrelay_req_count
  subs  : List (Nat × List String) := []             -- reqCounter.m : session ↦ open subscription ids
  recv  : List (String × Nat) := []                  -- mocrelay_recv_msg_total{type}
  kinds : List (Int × Nat) := []                     -- mocrelay_recv_event_total{kind}
  sent  : List (String × Nat) := []                  -- mocrelay_send_msg_total{type}
deriving Repr, DecidableEq

inductive PStep where
  | start (sid : Nat)
  | stop (sid : Nat)
  | client (sid : Nat) (m : ClientMsg)
  | server (sid : Nat) (m : ServerMsg)
deriving Repr, DecidableEq

def getSubs (p : Prom) (sid : Nat) : List String := (p.subs.lookup sid).getD []

def setSubs (subs : List (Nat × List String)) (sid : Nat) (l : List String) : List (Nat × List String) :=
  (sid, l) :: subs.filter (fun q => q.1 != sid)

def dropSubs (subs : List (Nat × List String)) (sid : Nat) : List (Nat × List String) :=
  subs.filter (fun q => q.1 != sid)

/-- one step of the middleware's bookkeeping (messages themselves pass unchanged) -/
def Prom.step (p : Prom) : PStep → Prom
  | .start sid => { p with conn := p.conn + 1, subs := setSubs p.subs sid [] }
  | .stop sid =>
    { p with conn := p.conn - 1, req := p.req - (getSubs p sid).length, subs := dropSubs p.subs sid }
  | .client sid m =>
    let p1 := { p with recv := bump (recvLabel m) p.recv }
    let p2 := match m with
      | .event e => { p1 with kinds := bump e.kind p1.kinds }
      | _ => p1
    match m with
    | .req sub _ =>
      if !(getSubs p2 sid).contains sub then
        { p2 with req := p2.req + 1, subs := setSubs p2.subs sid (sub :: getSubs p2 sid) }
      else p2
    | .close sub =>
      if (getSubs p2 sid).contains sub then
        { p2 with req := p2.req - 1, subs := setSubs p2.subs sid ((getSubs p2 sid).erase sub) }
      else p2
    | _ => p2
  | .server sid m =>
    let p1 := { p with sent := bump (sendLabel m) p.sent }
    match m with
    | .closed sub _ _ =>
      if (getSubs p1 sid).contains sub then
        { p1 with req := p1.req - 1, subs := setSubs p1.subs sid ((getSubs p1 sid).erase sub) }
      else p1
    | _ => p1

def Prom.run (p : Prom) (steps : List PStep) : Prom := steps.foldl Prom.step p

/-- the hand-translated bookkeeping statements, as regenerated source text -/
def promActualSource : List String :=
  [Gen.kindIf, Gen.connStart, Gen.connEnd, Gen.reqCase0, Gen.reqCase1, Gen.reqOpenIf, Gen.reqCloseIf,
   Gen.reqSrvCase0, Gen.reqClosedIf, Gen.reqStart, Gen.reqEndLen, Gen.reqEndSub, Gen.reqEndDelete]

def promExpectedSource : List String :=
  ["if msg, ok := msg.(*mocrelay.ClientEventMsg); ok { k := strconv.FormatInt(msg.Event.Kind, 10) c.c.WithLabelValues(k).Inc() }",
   "c.c.Inc()", "c.c.Dec()", "*mocrelay.ClientReqMsg", "*mocrelay.ClientCloseMsg",
   "if _, ok := c.m[reqID][msg.SubscriptionID]; !ok { c.m[reqID][msg.SubscriptionID] = true c.c.Inc() }",
   "if _, ok := c.m[reqID][msg.SubscriptionID]; ok { delete(c.m[reqID], msg.SubscriptionID) c.c.Dec() }",
   "*mocrelay.ServerClosedMsg",
   "if _, ok := c.m[reqID][msg.SubscriptionID]; ok { delete(c.m[reqID], msg.SubscriptionID) c.c.Dec() }",
   "make(map[string]bool)", "len(c.m[reqID])", "c.c.Sub(float64(cnt))", "delete(c.m, reqID)"]

end Moc
