/-
  Model of the SQLite event store (handler/sqlite/insert.go, query.go, migrate.go) — C06, C14.

  The five tables are lists; a statement is a function on them.  What is MODELLED BY HAND (and tied to SQLite's,
  goqu's and database/sql's actual behaviour only by the correspondence on a real database):
    * the DDL of `Migrate` (primary keys, the two `after update` triggers), the upsert's `on conflict … where`
      clause, `on conflict do nothing`, the query that `buildEventQuery` renders (per-filter sub-select with the two
      `not exists` tombstone tests, since/until, the joins for ids/authors/kinds/#x, `order by created_at desc
      limit`, the outer `in (…) or in (…)`, the payload join) — their source text is pinned (`sqliteExpectedSource`);
    * the 64-bit event keys: `SKey` is an abstract injective key; the xxHash32 / MD5 images are assumed
      collision-free;
    * a transaction: a batch either runs all its statements or leaves the tables as they were.
  The row-building tests of insert.go are regenerated (`Gen/Sqlite.lean`).
  SQL leaves the order of rows with equal `created_at` unspecified, also at a `limit` boundary: `candidates`
  gives, per filter, the matching live rows newest first and its limit; `Spec/Sqlite.lean` judges an answer
  against that description.
-/
import MocModel.Cache
import MocModel.Serialize
import MocModel.Gen.Sqlite

namespace Moc

/-- the event key: `reg` = (uint32(created_at), hash(id)); `addr` = (hash(pubkey), hash(address string)) -/
inductive SKey where
  | reg (ts : Nat) (id : String)
  | addr (pk : String) (a : String)
deriving DecidableEq, Repr

structure ERow where
  key : SKey
  id : String            -- blob: the decoded id, written here as lower-case hex
  pubkey : String
  createdAt : Int
  kind : Int
deriving DecidableEq, Repr

structure Db where
  events : List ERow := []                       -- primary key `key`
  payloads : List (SKey × Event) := []           -- primary key `key`; tags / content / sig of the stored version
  tags : List (String × Int × SKey) := []        -- (tag name ++ value [its MD5], created_at, key), a set
  delKeys : List (SKey × String) := []           -- tombstones by address key, a set
  delIds : List (String × String) := []          -- tombstones by id, a set
deriving DecidableEq, Repr

/-- `hex.DecodeString` followed by `hex.EncodeToString`: lower-case, `none` when it fails -/
def hexNorm (s : String) : Option String :=
  match hexDecode s.toList with
  | some _ => some (String.ofList (s.toList.map Char.toLower))
  | none => none

/-- `getEventKey` -/
def sqlKey (e : Event) : Option SKey :=
  match eventType e.kind with
  | .regular => some (.reg (e.createdAt % 4294967296).toNat e.id)
  | .replaceable => some (.addr e.pubkey (toString e.kind ++ ":" ++ e.pubkey))
  | .addressable =>
    match e.tags.find? (fun t => decide (t.length ≥ 1) && t.headD "" == "d") with
    | none => none
    | some t => some (.addr e.pubkey (toString e.kind ++ ":" ++ e.pubkey ++ ":" ++ (if t.length > 1 then t.getD 1 "" else "")))
  | .ephemeral => none

def isAsciiLetter (s : String) : Bool :=
  match s.toList with
  | [c] => ('a' ≤ c && c ≤ 'z') || ('A' ≤ c && c ≤ 'Z')
  | _ => false

/-- `buildInsertEventsParamsTags`: one row per distinct (one-letter name, value) of the event -/
def tagRows (e : Event) (key : SKey) : List (String × Int × SKey) :=
  (e.tags.filterMap fun t =>
    if Gen.sqlTagEmpty t.length then none
    else if Gen.sqlTagNameLen (t.headD "").utf8ByteSize then none
    else if !isAsciiLetter (t.headD "") then none
    else some (t.headD "" ++ (if Gen.sqlTagHasValue t.length then t.getD 1 "" else ""), e.createdAt, key)).eraseDups

/-- `strings.Split(s, ":")` -/
def splitColon (s : String) : List String := s.splitOn ":"

/-- `buildInsertEventsParamsDeletedEventKeys` -/
def delKeyRows (e : Event) (pk : String) : List (SKey × String) :=
  if Gen.sqlDelKeysNotK5 e.kind then []
  else e.tags.filterMap fun t =>
    if Gen.sqlDelKeysArity t.length then none
    else if Gen.sqlDelKeysName (t.headD "") then none
    else if Gen.sqlDelKeysElems (splitColon (t.getD 1 "")).length then none
    else some (.addr ((splitColon (t.getD 1 "")).getD 1 "") (t.getD 1 ""), pk)

/-- `buildInsertEventsParamsDeletedEventIDs` -/
def delIdRows (e : Event) (pk : String) : List (String × String) :=
  if Gen.sqlDelIdsNotK5 e.kind then []
  else e.tags.filterMap fun t =>
    if Gen.sqlDelIdsArity t.length then none
    else if Gen.sqlDelIdsName (t.headD "") then none
    else (hexNorm (t.getD 1 "")).map fun id => (id, pk)

structure Params where
  row : ERow
  payload : Event
  tagRows : List (String × Int × SKey)
  delKeys : List (SKey × String)
  delIds : List (String × String)
deriving Repr

/-- `buildInsertEventsParams` for one event: `none` = skipped (`continue`) -/
def buildParams (e : Event) : Option Params :=
  match sqlKey e, hexNorm e.id, hexNorm e.pubkey, hexNorm e.sig with
  | some key, some id, some pk, some sig =>
    some { row := { key := key, id := id, pubkey := pk, createdAt := e.createdAt, kind := e.kind },
           payload := { e with id := id, pubkey := pk, sig := sig },
           tagRows := tagRows e key, delKeys := delKeyRows e pk, delIds := delIdRows e pk }
  | _, _, _, _ => none

/-- the `where` clause of the upsert's `do update`: the stored row is replaced only by a different, strictly
    newer event, and only if the stored row's kind is replaceable or addressable -/
def upsertReplaces (old new : ERow) : Bool :=
  old.id != new.id &&
  (old.kind == 0 || old.kind == 3 || (10000 ≤ old.kind && old.kind < 20000) || (30000 ≤ old.kind && old.kind < 40000)) &&
  decide (old.createdAt < new.createdAt)

def insertSet {α} [BEq α] (l : List α) (x : α) : List α := if l.contains x then l else l ++ [x]

/-- the statements executed for one event of a batch -/
def Db.insertOne (db : Db) (p : Params) : Db :=
  match db.events.find? (fun r => r.key == p.row.key) with
  | some old =>
    if upsertReplaces old p.row then
      -- `do update` + the two `after update` triggers, then payload, tags, tombstones
      { events := db.events.map (fun r => if r.key == p.row.key then p.row else r),
        payloads := db.payloads.filter (fun q => q.1 != p.row.key) ++ [(p.row.key, p.payload)],
        tags := db.tags.filter (fun q => q.2.2 != p.row.key) ++ p.tagRows,
        delKeys := p.delKeys.foldl insertSet db.delKeys,
        delIds := p.delIds.foldl insertSet db.delIds }
    else db                                        -- `affected == 0`: nothing else is executed for this event
  | none =>
    { events := db.events ++ [p.row],
      payloads := db.payloads ++ [(p.row.key, p.payload)],
      tags := db.tags ++ p.tagRows,
      delKeys := p.delKeys.foldl insertSet db.delKeys,
      delIds := p.delIds.foldl insertSet db.delIds }

/-- `insertEvents`: one transaction per batch -/
def Db.insertBatch (db : Db) (events : List Event) : Db :=
  (events.filterMap buildParams).foldl Db.insertOne db

/-- a batch whose transaction fails at any statement is rolled back -/
def Db.insertBatchFailing (db : Db) (_events : List Event) : Db := db

/-! ### query -/

def Db.hidden (db : Db) (r : ERow) : Bool :=
  db.delKeys.contains (r.key, r.pubkey) || db.delIds.contains (r.id, r.pubkey)

/-- `hex.DecodeString` on every member of an ids / authors list: `none` = the query cannot be built -/
def normList : Option (List String) → Option (Option (List String))
  | some l => (l.mapM hexNorm).map some
  | none => some none

def sinceTest (o : Option Int) (c : Int) : Bool :=
  match o with
  | some s => decide (c ≥ s)
  | none => true

def untilTest (o : Option Int) (c : Int) : Bool :=
  match o with
  | some u => decide (c ≤ u)
  | none => true

/-- the joins against `event_tags`: for every `#k` condition some listed value has a tag row of this version -/
def Db.tagsTest (db : Db) (o : Option (List (String × List String))) (r : ERow) : Bool :=
  match o with
  | some conds => conds.all fun c => c.2.any fun v => db.tags.contains (c.1 ++ v, r.createdAt, r.key)
  | none => true

/-- the `where` / `join` conditions of one filter's sub-select, the ids and authors already decoded -/
def Db.rowTest (db : Db) (f : Filter) (ids authors : Option (List String)) (r : ERow) : Bool :=
  !db.hidden r && sinceTest f.since r.createdAt && untilTest f.until_ r.createdAt &&
  listedOr true ids r.id && listedOr true authors r.pubkey && listedOr true f.kinds r.kind && db.tagsTest f.tags r

/-- `none` = the query cannot be built (non-hex id) -/
def Db.rowMatches (db : Db) (f : Filter) (r : ERow) : Option Bool :=
  match normList f.ids, normList f.authors with
  | some ids, some authors => some (db.rowTest f ids authors r)
  | _, _ => none

/-- row ⋈ payload → event (`toEvent`) -/
def Db.eventOf (db : Db) (r : ERow) : Option Event :=
  (db.payloads.lookup r.key).map fun p =>
    { id := r.id, pubkey := r.pubkey, createdAt := r.createdAt, kind := r.kind, tags := p.tags, content := p.content, sig := p.sig }

structure Cand where
  ms : List Event       -- every live stored event matching the filter
  limit : Option Nat         -- `none` = no limit
deriving Repr

/-- `appendLimitQuery` for a filter (`maxLimit = NoLimit`): a filter with `limit` 0 contributes nothing -/
def filterLimit (f : Filter) : Option Nat := f.limit.map Int.toNat

/-- per filter: the live matching events and the limit.  `none`: the query fails. -/
def Db.candidates (db : Db) (fs : List Filter) : Option (List Cand) :=
  fs.mapM fun f => do
    let rows ← db.events.mapM fun r => (db.rowMatches f r).map fun b => (r, b)
    pure { ms := (rows.filter (·.2)).filterMap (fun p => db.eventOf p.1), limit := filterLimit f }

def sqliteActualSource : List String :=
  [Gen.sqlTagNameAlpha, Gen.sqlInsertEventsBody, Gen.sqlBuildParamsBody, Gen.sqlBuildEventBody, Gen.sqlBuildPayloadsBody, Gen.sqlBuildTagsBody, Gen.sqlBuildDelKeysBody, Gen.sqlBuildDelIdsBody, Gen.sqlGetEventKeyBody, Gen.sqlUpsertQuery, Gen.sqlPayloadsQuery, Gen.sqlTagsQuery, Gen.sqlDelKeysQuery, Gen.sqlDelIdsQuery, Gen.sqlQueryEventBody, Gen.sqlBuildQueryBody, Gen.sqlDeletedQueryBody, Gen.sqlSinceBody, Gen.sqlUntilBody, Gen.sqlLimitBody, Gen.sqlFetchRawBody, Gen.sqlToEventBody, Gen.sqlMigrateBody, Gen.sqlSeedBody, Gen.sqlRetryBody]

/-- the source text the hand model was written against: the five SQL statements, the builders, the query builder,
    the DDL, the seed and retry code.  Any edit breaks `sqlite_source_pinned`. -/
def sqliteExpectedSource : List String :=
  ["if !('a' <= tag[0][0] && tag[0][0] <= 'z' || 'A' <= tag[0][0] && tag[0][0] <= 'Z') { continue }",
   "{ params := buildInsertEventsParams(seed, events) if len(params) == 0 { return } tx, err := db.BeginTx(ctx, nil) if err != nil { return fmt.Errorf(\"failed to begin transaction: %w\", err) } defer func() { if err != nil { err = errors.Join(err, tx.Rollback()) return } err = tx.Commit() }() eventsStmt, err := tx.PrepareContext(ctx, insertEventsQuery) if err != nil { return fmt.Errorf(\"failed to prepare events statement: %w\", err) } defer eventsStmt.Close() eventPayloadsStmt, err := tx.PrepareContext(ctx, insertEventPayloadsQuery) if err != nil { return fmt.Errorf(\"failed to prepare event payloads statement: %w\", err) } defer eventPayloadsStmt.Close() tagsStmt, err := tx.PrepareContext(ctx, insertTagsQuery) if err != nil { return fmt.Errorf(\"failed to prepare tags statement: %w\", err) } defer tagsStmt.Close() deletedEventKeysStmt, err := tx.PrepareContext(ctx, insertDeletedEventKeysQuery) if err != nil { return fmt.Errorf(\"failed to prepare deleted events statement: %w\", err) } defer deletedEventKeysStmt.Close() deletedEventIDsStmt, err := tx.PrepareContext(ctx, insertDeletedEventIDsQuery) if err != nil { return fmt.Errorf(\"failed to prepare deleted event ids statement: %w\", err) } defer deletedEventIDsStmt.Close() for _, p := range params { res, err := eventsStmt.ExecContext(ctx, p.Events...) if err != nil { return fmt.Errorf(\"failed to insert events: %w\", err) } affected, err := res.RowsAffected() if err != nil { return fmt.Errorf(\"failed to get affected rows: %w\", err) } if affected == 0 { continue } if _, err := eventPayloadsStmt.ExecContext(ctx, p.EventPayloads...); err != nil { return fmt.Errorf(\"failed to insert event payloads: %w\", err) } for _, tag := range p.Tags { if _, err := tagsStmt.ExecContext(ctx, tag...); err != nil { return fmt.Errorf(\"failed to insert tags: %w\", err) } } for _, deletedEvent := range p.DeletedEventKeys { if _, err := deletedEventKeysStmt.ExecContext(ctx, deletedEvent...); err != nil { return fmt.Errorf(\"failed to insert deleted events: %w\", err) } } for _, deletedEvent := range p.DeletedEventIDs { if _, err := deletedEventIDsStmt.ExecContext(ctx, deletedEvent...); err != nil { return fmt.Errorf(\"failed to insert deleted event ids: %w\", err) } } } return }",
   "{ ret := make([]insertEventsParams, 0, len(events)) for _, event := range events { eventKey, ok := getEventKey(seed, event) if !ok { continue } events, err := buildInsertEventsParamsEvent(seed, event, eventKey) if err != nil { continue } eventPayloads, err := buildInsertEventsParamsEventPayloads(seed, event, eventKey) if err != nil { continue } deletedEventKeys, err := buildInsertEventsParamsDeletedEventKeys(seed, event) if err != nil { continue } deleteEventIDs, err := buildInsertEventsParamsDeletedEventIDs(seed, event) if err != nil { continue } ret = append(ret, insertEventsParams{ Events: events, EventPayloads: eventPayloads, Tags: buildInsertEventsParamsTags(seed, event, eventKey), DeletedEventKeys: deletedEventKeys, DeletedEventIDs: deleteEventIDs, }) } return ret }",
   "{ idBin, err := hex.DecodeString(event.ID) if err != nil { return nil, fmt.Errorf(\"failed to decode id: %w\", err) } pubkeyBin, err := hex.DecodeString(event.Pubkey) if err != nil { return nil, fmt.Errorf(\"failed to decode pubkey: %w\", err) } return []any{ eventKey, idBin, pubkeyBin, event.CreatedAt, event.Kind, }, nil }",
   "{ var tagsBytes []byte if event.Tags == nil { tagsBytes = emptyTagsBytes } else { var err error tagsBytes, err = json.Marshal(event.Tags) if err != nil { return nil, fmt.Errorf(\"failed to marshal tags: %w\", err) } } sigBin, err := hex.DecodeString(event.Sig) if err != nil { return nil, fmt.Errorf(\"failed to decode sig: %w\", err) } return []any{ eventKey, tagsBytes, event.Content, sigBin, }, nil }",
   "{ type entry struct { tagHash [16]byte createdAt int64 eventKey int64 } seen := make(map[entry]bool) var ret [][]any for _, tag := range event.Tags { if len(tag) == 0 { continue } if len(tag[0]) != 1 { continue } if !('a' <= tag[0][0] && tag[0][0] <= 'z' || 'A' <= tag[0][0] && tag[0][0] <= 'Z') { continue } var value string if len(tag) > 1 { value = tag[1] } tagHash := md5.Sum([]byte(tag[0] + value)) entry := entry{ tagHash: tagHash, createdAt: event.CreatedAt, eventKey: eventKey, } if seen[entry] { continue } seen[entry] = true ret = append(ret, []any{ tagHash[:], event.CreatedAt, eventKey, }) } return ret }",
   "{ if event.Kind != 5 { return nil, nil } var ret [][]any pubkeyBin, err := hex.DecodeString(event.Pubkey) if err != nil { return nil, fmt.Errorf(\"failed to decode pubkey: %w\", err) } for _, tag := range event.Tags { if len(tag) < 2 { continue } if tag[0] != \"a\" { continue } elems := strings.Split(tag[1], \":\") if len(elems) < 2 { continue } x := xxHash32.New(seed) io.WriteString(x, elems[1]) pubkeyHash := x.Sum32() x.Reset() io.WriteString(x, tag[1]) aHash := x.Sum32() eventKey := int64(pubkeyHash)<<32 | int64(aHash) ret = append(ret, []any{ eventKey, pubkeyBin, }) } return ret, nil }",
   "{ if event.Kind != 5 { return nil, nil } var ret [][]any pubkeyBin, err := hex.DecodeString(event.Pubkey) if err != nil { return nil, fmt.Errorf(\"failed to decode pubkey: %w\", err) } for _, tag := range event.Tags { if len(tag) < 2 { continue } if tag[0] != \"e\" { continue } idBin, err := hex.DecodeString(tag[1]) if err != nil { continue } ret = append(ret, []any{ idBin, pubkeyBin, }) } return ret, nil }",
   "{ switch event.EventType() { case mocrelay.EventTypeRegular: ts := uint64(uint32(event.CreatedAt)) x := xxHash32.New(seed) io.WriteString(x, event.ID) idHash := x.Sum32() return int64(ts<<32 | uint64(idHash)), true case mocrelay.EventTypeReplaceable: x := xxHash32.New(seed) io.WriteString(x, event.Pubkey) pubkeyHash := x.Sum32() a := fmt.Sprintf(\"%d:%s\", event.Kind, event.Pubkey) x.Reset() io.WriteString(x, a) aHash := x.Sum32() return int64(pubkeyHash)<<32 | int64(aHash), true case mocrelay.EventTypeParamReplaceable: idx := slices.IndexFunc(event.Tags, func(t mocrelay.Tag) bool { return len(t) >= 1 && t[0] == \"d\" }) if idx < 0 { return 0, false } d := \"\" if len(event.Tags[idx]) > 1 { d = event.Tags[idx][1] } x := xxHash32.New(seed) io.WriteString(x, event.Pubkey) pubkeyHash := x.Sum32() a := fmt.Sprintf(\"%d:%s:%s\", event.Kind, event.Pubkey, d) x.Reset() io.WriteString(x, a) aHash := x.Sum32() return int64(pubkeyHash)<<32 | int64(aHash), true default: return 0, false } }",
   "\ninsert into events (\n\tevent_key,\n\tid,\n\tpubkey,\n\tcreated_at,\n\tkind\n) values\n\t(?, ?, ?, ?, ?)\non conflict(event_key) do update set\n \tid              = excluded.id,\n \tpubkey          = excluded.pubkey,\n \tcreated_at      = excluded.created_at,\n \tkind            = excluded.kind\n where\n \tevents.id <> excluded.id\n \tand\n \t(\n \t\tevents.kind = 0\n \t\tor\n \t\tevents.kind = 3\n \t\tor\n \t\t(10000 <= events.kind and events.kind < 20000)\n \t\tor\n \t\t(30000 <= events.kind and events.kind < 40000)\n \t)\n \tand\n \tevents.created_at < excluded.created_at\n",
   "\ninsert into event_payloads (\n\tevent_key,\n\ttags,\n\tcontent,\n\tsig\n) values\n\t(?, ?, ?, ?)\n",
   "\ninsert into event_tags (\n\ttag_hash,\n\tcreated_at,\n\tevent_key\n) values\n\t(?, ?, ?)\n",
   "\ninsert into deleted_event_keys (\n\tevent_key,\n\tpubkey\n)\nvalues\n\t(?, ?)\non conflict(event_key, pubkey) do nothing\n",
   "\ninsert into deleted_event_ids (\n\tid,\n\tpubkey\n)\nvalues\n\t(?, ?)\non conflict(id, pubkey) do nothing\n",
   "{ fs = slices.DeleteFunc(slices.Clone(fs), func(f *mocrelay.ReqFilter) bool { return f.Limit != nil && *f.Limit == 0 }) if len(fs) == 0 { return nil, nil } q, param, err := buildEventQuery(fs, seed, maxLimit) if err != nil { return nil, fmt.Errorf(\"failed to build query: %w\", err) } events, err = fetchEventQuery(ctx, db, q, param) if err != nil { return nil, fmt.Errorf(\"failed to fetch events with (%s, %v): %w\", q, param, err) } return }",
   "{ sqlite3 := goqu.Dialect(\"sqlite3\") e := goqu.T(\"events\") eEventKey := e.Col(\"event_key\") eID := e.Col(\"id\") ePubkey := e.Col(\"pubkey\") eCreatedAt := e.Col(\"created_at\") eKind := e.Col(\"kind\") p := goqu.T(\"event_payloads\") pEventKey := p.Col(\"event_key\") pTags := p.Col(\"tags\") pContent := p.Col(\"content\") pSig := p.Col(\"sig\") t := goqu.T(\"event_tags\") builder := sqlite3. Select( eID, ePubkey, eCreatedAt, eKind, pTags, pContent, pSig, ). From(e). Join(p, goqu.On(eEventKey.Eq(pEventKey))). Order(eCreatedAt.Desc()) builder = appendLimitQuery(builder, toPtr(int64(maxLimit)), maxLimit) var subs []exp.Expression for i, f := range fs { esub := e.As(fmt.Sprintf(\"esub%d\", i)) sub := sqlite3. Select( esub.Col(\"event_key\"), ). From(esub). Order(esub.Col(\"created_at\").Desc()) sub = appendDeletedEventsQuery( sub, esub.Col(\"event_key\"), esub.Col(\"id\"), esub.Col(\"pubkey\"), ) sub = appendSinceQuery(sub, esub.Col(\"created_at\"), f.Since) sub = appendUntilQuery(sub, esub.Col(\"created_at\"), f.Until) sub = appendLimitQuery(sub, f.Limit, maxLimit) if f.IDs != nil { idBins := make([][]byte, len(f.IDs)) for i, id := range f.IDs { var err error idBins[i], err = hex.DecodeString(id) if err != nil { return \"\", nil, fmt.Errorf(\"failed to decode id: %w\", err) } } eid := goqu.T(\"events\").As(\"eid\") sub = sub. Join(eid, goqu.On( esub.Col(\"event_key\").Eq(eid.Col(\"event_key\")), esub.Col(\"created_at\").Eq(eid.Col(\"created_at\")), )). Where(eid.Col(\"id\").In(idBins)) } if f.Authors != nil { authorBins := make([][]byte, len(f.Authors)) for i, pubkey := range f.Authors { var err error authorBins[i], err = hex.DecodeString(pubkey) if err != nil { return \"\", nil, fmt.Errorf(\"failed to decode pubkey: %w\", err) } } epubkey := goqu.T(\"events\").As(\"epubkey\") sub = sub. Join(epubkey, goqu.On( esub.Col(\"event_key\").Eq(epubkey.Col(\"event_key\")), esub.Col(\"created_at\").Eq(epubkey.Col(\"created_at\")), )). Where(epubkey.Col(\"pubkey\").In(authorBins)) } if f.Kinds != nil { ekind := goqu.T(\"events\").As(\"ekind\") sub = sub. Join(ekind, goqu.On( esub.Col(\"event_key\").Eq(ekind.Col(\"event_key\")), esub.Col(\"created_at\").Eq(ekind.Col(\"created_at\")), )). Where(ekind.Col(\"kind\").In(f.Kinds)) } if f.Tags != nil { sub = sub.Distinct() n := 0 for key, values := range f.Tags { tagHashes := make([][]byte, len(values)) for i, value := range values { b := md5.Sum([]byte(key + value)) tagHashes[i] = b[:] } etag := t.As(fmt.Sprintf(\"etag%d\", n)) n++ sub = sub. Join(etag, goqu.On( esub.Col(\"event_key\").Eq(etag.Col(\"event_key\")), esub.Col(\"created_at\").Eq(etag.Col(\"created_at\")), )). Where(etag.Col(\"tag_hash\").In(tagHashes)) } } subs = append(subs, sub) } var ors []exp.Expression for _, sub := range subs { or := eEventKey.In(sub) ors = append(ors, or) } builder = builder.Where(goqu.Or(ors...)) return builder.Prepared(true).ToSQL() }",
   "{ dKey := goqu.T(\"deleted_event_keys\") dKeyEventKey := dKey.Col(\"event_key\") dKeyPubkey := dKey.Col(\"pubkey\") dID := goqu.T(\"deleted_event_ids\") dIDID := dID.Col(\"id\") dIDPubkey := dID.Col(\"pubkey\") return b. Where(goqu.L(\"not exists ?\", goqu. Select(goqu.L(\"1\")). From(dKey). Where(dKeyEventKey.Eq(eventKeyCol)). Where(dKeyPubkey.Eq(pubkeyCol)), )). Where(goqu.L(\"not exists ?\", goqu. Select(goqu.L(\"1\")). From(dID). Where(dIDID.Eq(eventIDCol)). Where(dIDPubkey.Eq(pubkeyCol)), )) }",
   "{ if since != nil { b = b.Where(createdAtCol.Gte(*since)) } return b }",
   "{ if until != nil { b = b.Where(createdAtCol.Lte(*until)) } return b }",
   "{ l := maxLimit if limit != nil { l = min(l, uint(*limit)) } if l != NoLimit { b = b.Limit(l) } return b }",
   "{ rows, err := db.QueryContext(ctx, query, param...) if err != nil { return nil, fmt.Errorf(\"failed to query raw events: %w\", err) } defer rows.Close() for rows.Next() { var ( raw rawEvent ) if err := rows.Scan( &raw.ID, &raw.Pubkey, &raw.CreatedAt, &raw.Kind, &raw.Tags, &raw.Content, &raw.Sig, ); err != nil { return nil, fmt.Errorf(\"failed to scan raw event: %w\", err) } raws = append(raws, &raw) } if err := rows.Err(); err != nil { return nil, fmt.Errorf(\"failed to iterate rows: %w\", err) } return }",
   "{ var tags []mocrelay.Tag if err := json.Unmarshal(r.Tags, &tags); err != nil { return nil, fmt.Errorf(\"failed to unmarshal tags: %w\", err) } return &mocrelay.Event{ ID: hex.EncodeToString(r.ID), Pubkey: hex.EncodeToString(r.Pubkey), CreatedAt: r.CreatedAt, Kind: r.Kind, Tags: tags, Content: r.Content, Sig: hex.EncodeToString(r.Sig), }, nil }",
   "{ ddls := []string{ `create table if not exists xxhash_seed ( seed integer not null primary key ) without rowid, strict;`, `create table if not exists events ( event_key integer not null primary key, id blob not null, pubkey blob not null, created_at integer not null, kind integer not null ) strict;`, `create index if not exists idx_events_created_at on events (created_at desc);`, `create index if not exists idx_events_id_created_at on events (id, created_at desc);`, `create index if not exists idx_events_pubkey_created_at on events (pubkey, created_at desc);`, `create index if not exists idx_events_kind_created_at on events (kind, created_at desc);`, `create table if not exists event_payloads ( event_key integer not null primary key, tags blob not null, content text not null, sig blob not null ) strict;`, `create trigger if not exists tr_event_payloads_update after update on events begin delete from event_payloads where event_key = old.event_key; end;`, `create table if not exists event_tags ( tag_hash blob not null, created_at integer not null, event_key integer not null, constraint pk_event_tags primary key (tag_hash, created_at desc, event_key) ) without rowid, strict;`, `create index if not exists idx_event_tags_event_key on event_tags (event_key);`, `create trigger if not exists tr_event_tags_update after update on events begin delete from event_tags where event_key = old.event_key; end;`, `create table if not exists deleted_event_keys ( event_key integer not null, pubkey blob not null, constraint pk_deleted_event_keys primary key (event_key, pubkey) ) without rowid, strict;`, `create table if not exists deleted_event_ids ( id blob not null, pubkey blob not null, constraint pk_deleted_event_ids primary key (id, pubkey) ) without rowid, strict;`, } for _, ddl := range ddls { if _, err := db.ExecContext(ctx, ddl); err != nil { return fmt.Errorf(\"failed to execute ddl: %w\", err) } } return nil }",
   "{ var seed uint32 if err := db.QueryRowContext(ctx, \"select seed from xxhash_seed\").Scan(&seed); err != nil { if err == sql.ErrNoRows { seed = rand.Uint32() if _, err := db.ExecContext(ctx, \"insert into xxhash_seed (seed) values (?)\", seed); err != nil { return 0, fmt.Errorf(\"failed to insert xxhash_seed: %w\", err) } } else { return 0, fmt.Errorf(\"failed to scan xxhash_seed: %w\", err) } } return seed, nil }",
   "{ for i := 0; i < 3; i++ { if err := insertEvents(ctx, h.db, h.seed, events); err != nil { errorLog(ctx, h.opt.Logger, \"failed to insert events\", \"err\", err, \"retry\", i+1) select { case <-ctx.Done(): return ctx.Err() case <-time.After(time.Second << uint(i)): } } else { return nil } } return fmt.Errorf(\"failed to insert events\") }"]

end Moc
