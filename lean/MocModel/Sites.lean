/-
  Blocking sites of the session code (C13).  `Gen/Sites.lean` lists EVERY channel operation of handler.go,
  relay.go, utils.go, handler/sqlite/handler.go and middleware/prometheus/prometheus.go, regenerated from the
  source: (function, kind, guard, text) with guard = `ctxDone` (a select with a `<-ctx.Done()` alternative, or the
  wait for the cancellation itself), `default` (non-blocking) or `none`.

  A goroutine parked at a `ctxDone` site leaves it once the session's context is cancelled; at a `default` site it
  never parks.  Every site with guard `none` must be one of the `justified` ones, each of which cannot park for a
  reason recorded here (read off the code, and validated by the cut-point sweeps):
    buffered  a send into a channel made in the same function with room for everything sent into it
    token     take / put back of a 1-slot state channel that holds exactly one token between critical sections
    join      a wait for the result of a child goroutine all of whose own sites are guarded (buffered result)
    closed    a range over a channel after it was closed
-/
import MocModel.Gen.Sites

namespace Moc

abbrev Site := String × String × String × String

def allSites : List Site :=
  Gen.sitesHandler ++ Gen.sitesRelay ++ Gen.sitesUtils ++ Gen.sitesSqlite ++ Gen.sitesPrometheus

def Site.guarded (s : Site) : Bool := s.2.2.1 == "ctxDone" || s.2.2.1 == "default"

def unguardedSites : List Site := allSites.filter (fun s => !s.guarded)

/-- (function, text, why it cannot park) -/
def justified : List (String × String × String) := [
  ("simpleCacheHandler.ServeNostrClientMsg", "smsgCh <- NewServerEventMsg(msg.SubscriptionID, ev)", "buffered"),
  ("simpleCacheHandler.ServeNostrClientMsg", "smsgCh <- NewServerEOSEMsg(msg.SubscriptionID)", "buffered"),
  ("newMergeHandlerSession", "ss.okStat <- newMergeHandlerSessionOKState(size)", "token"),
  ("newMergeHandlerSession", "ss.reqStat <- newMergeHandlerSessionReqState(size)", "token"),
  ("newMergeHandlerSession", "ss.countStat <- newMergeHandlerSessionCountState(size)", "token"),
  ("mergeHandlerSession.runHandlers", "<-errCh", "join"),
  ("mergeHandlerSession.runHandlers", "errCh <- ss.runHandlers(ctx, handlers[:l-1])", "buffered"),
  ("mergeHandlerSession.handleRecvEventMsg", "<-ss.okStat", "token"),
  ("mergeHandlerSession.handleRecvEventMsg", "ss.okStat <- s", "token"),
  ("mergeHandlerSession.handleRecvReqMsg", "<-ss.reqStat", "token"),
  ("mergeHandlerSession.handleRecvReqMsg", "ss.reqStat <- s", "token"),
  ("mergeHandlerSession.handleRecvCloseMsg", "<-ss.reqStat", "token"),
  ("mergeHandlerSession.handleRecvCloseMsg", "ss.reqStat <- s", "token"),
  ("mergeHandlerSession.handleRecvCountMsg", "<-ss.countStat", "token"),
  ("mergeHandlerSession.handleRecvCountMsg", "ss.countStat <- s", "token"),
  ("mergeHandlerSession.handleSendEOSEMsg", "<-ss.reqStat", "token"),
  ("mergeHandlerSession.handleSendEOSEMsg", "ss.reqStat <- s", "token"),
  ("mergeHandlerSession.handleSendEventMsg", "<-ss.reqStat", "token"),
  ("mergeHandlerSession.handleSendEventMsg", "ss.reqStat <- s", "token"),
  ("mergeHandlerSession.handleSendOKMsg", "<-ss.okStat", "token"),
  ("mergeHandlerSession.handleSendOKMsg", "ss.okStat <- s", "token"),
  ("mergeHandlerSession.handleSendCountMsg", "<-ss.countStat", "token"),
  ("mergeHandlerSession.handleSendCountMsg", "ss.countStat <- s", "token"),
  ("NewSimpleMiddleware", "<-errs", "join"),
  ("NewSimpleMiddleware", "<-errs", "join"),
  ("NewSimpleMiddleware", "errs <- simpleMiddlewareHandleRecv(ctx, base, recv, send, rCh)", "buffered"),
  ("NewSimpleMiddleware", "errs <- simpleMiddlewareHandleSend(ctx, base, send, sCh)", "buffered"),
  ("Relay.ServeHTTP", "errs <- fmt.Errorf(\"serveReadLoop terminated: %w\", err)", "buffered"),
  ("Relay.ServeHTTP", "errs <- fmt.Errorf(\"serveWriteLoop terminated: %w\", err)", "buffered"),
  ("Relay.ServeHTTP", "errs <- fmt.Errorf(\"handler terminated: %w\", err)", "buffered"),
  ("Relay.ServeHTTP", "for range errs", "closed"),
  ("Relay.serveWriteLoop", "done <- relay.sendPingWithTimeout(ctx, conn)", "buffered"),
  ("newBufCh", "ret <- item", "buffered"),
  ("simpleSQLiteHandler.serveClientReqMsg", "smsgCh <- mocrelay.NewServerEOSEMsg(msg.SubscriptionID)", "buffered"),
  ("simpleSQLiteHandler.serveClientReqMsg", "smsgCh <- mocrelay.NewServerEventMsg(msg.SubscriptionID, event)", "buffered"),
  ("simpleSQLiteHandler.serveClientReqMsg", "smsgCh <- mocrelay.NewServerEOSEMsg(msg.SubscriptionID)", "buffered"),
  ("simpleSQLiteHandler.serveClientEventMsg", "smsgCh <- mocrelay.NewServerOKMsg(msg.Event.ID, true, \"\", \"\")", "buffered"),
  ("simplePrometheusMiddlewareBase.ServeNostrClientMsg", "ret <- msg", "buffered"),
  ("simplePrometheusMiddlewareBase.ServeNostrServerMsg", "res <- msg", "buffered")]

/-- what is observed when a session ends -/
structure TermOut where
  returned : Bool
  leftover : Int
  registry : Int
  conn : Int
  req : Int
deriving DecidableEq, Repr

/-- the model's prediction for every composition, history, cut point, way of ending and peer behaviour -/
def sessionEnd : TermOut := { returned := true, leftover := 0, registry := 0, conn := 0, req := 0 }

/-- `sendMsgWithTimeout`: is a write bounded by the send timeout under these options? -/
def writeBounded (pingDuration sendTimeout : Int) : Bool := Gen.relaySendMsgGuard pingDuration sendTimeout

def termActualSource : List String := [Gen.relaySendMsgBody, Gen.relayServeHTTPBody]

end Moc
