import MocModel.Sha256

/-!
  BIP-340 Schnorr signature verification over secp256k1, executable, in plain `Nat` arithmetic.

  Two versions:
  * `verifyRef` — a literal transcription of the reference algorithm of the BIP (affine points, `lift_x`,
    tagged hash, `R = s·G − e·P`, fail when `R` is infinite, has odd `y`, or `x(R) ≠ r`);
  * `verifyFast` — the same computation in Jacobian coordinates with a simultaneous double-and-add,
    used on the bulk of the correspondence stream.

  The correspondence check compares both with the implementation's library (btcec) on every event whose
  id passes, and with each other on the BIP's test vectors and a sample of the stream; the model's
  `verify` (Serialize.lean) takes its signature verdict from here rather than from the harness.
  What is NOT proved: that `verifyFast = verifyRef` (field algebra over a 256-bit prime) — that part is
  validated by execution only and is named in the trusted base.
-/

namespace Moc.Bip340

def p : Nat := 0xFFFFFFFFFFFFFFFFFFFFFFFFFFFFFFFFFFFFFFFFFFFFFFFFFFFFFFFEFFFFFC2F
def n : Nat := 0xFFFFFFFFFFFFFFFFFFFFFFFFFFFFFFFEBAAEDCE6AF48A03BBFD25E8CD0364141
def gx : Nat := 0x79BE667EF9DCBBAC55A06295CE870B07029BFCDB2DCE28D959F2815B16F81798
def gy : Nat := 0x483ADA7726A3C4655DA4FBFC0E1108A8FD17B448A68554199C47D08FFB10D4B8

/-- `b ^ e mod m` by repeated squaring (fuel = number of bits that may remain) -/
def powModF : Nat → Nat → Nat → Nat → Nat → Nat
  | 0, _, _, _, acc => acc
  | fuel + 1, b, e, m, acc =>
    if e = 0 then acc
    else powModF fuel (b * b % m) (e / 2) m (if e % 2 = 1 then acc * b % m else acc)

def powMod (b e m : Nat) : Nat := powModF (e.log2 + 1) (b % m) e m (1 % m)

def inv (a : Nat) : Nat := powMod a (p - 2) p

def subP (a b : Nat) : Nat := (a + p - b % p) % p

/-! ### affine arithmetic (the BIP's reference) -/

/-- an affine point; `none` is the point at infinity -/
abbrev Pt := Option (Nat × Nat)

def G : Pt := some (gx, gy)

def padd (a b : Pt) : Pt :=
  match a, b with
  | none, q => q
  | q, none => q
  | some (x1, y1), some (x2, y2) =>
    if x1 = x2 ∧ y1 ≠ y2 then none
    else
      let lam := if x1 = x2 ∧ y1 = y2 then 3 * x1 % p * x1 % p * inv (2 * y1 % p) % p
                 else subP y2 y1 * inv (subP x2 x1) % p
      let x3 := subP (subP (lam * lam % p) x1) x2
      some (x3, subP (lam * subP x1 x3 % p) y1)

/-- double-and-add, least significant bit first, exactly as the reference `point_mul` -/
def pmulF : Nat → Pt → Nat → Pt → Pt
  | 0, _, _, r => r
  | fuel + 1, q, k, r =>
    if k = 0 then r
    else pmulF fuel (padd q q) (k / 2) (if k % 2 = 1 then padd r q else r)

def pmul (q : Pt) (k : Nat) : Pt := pmulF 256 q k none

/-- `lift_x`: the point with this x coordinate and even y, if there is one -/
def liftX (x : Nat) : Pt :=
  if x ≥ p then none
  else
    let c := (x * x % p * x + 7) % p
    let y := powMod c ((p + 1) / 4) p
    if y * y % p ≠ c then none
    else some (x, if y % 2 = 0 then y else p - y)

/-! ### bytes -/

def natOfBytes (b : List Nat) : Nat := b.foldl (fun a x => a * 256 + x) 0

def bytesOfNatF : Nat → Nat → List Nat → List Nat
  | 0, _, acc => acc
  | k + 1, v, acc => bytesOfNatF k (v / 256) ((v % 256) :: acc)

/-- 32-byte big-endian encoding -/
def bytes32 (v : Nat) : List Nat := bytesOfNatF 32 v []

def toByteArray (l : List Nat) : ByteArray := ⟨(l.map fun x => x.toUInt8).toArray⟩

def ofByteArray (b : ByteArray) : List Nat := b.data.toList.map fun x => x.toNat

def sha (l : List Nat) : List Nat := ofByteArray (Sha256.hash (toByteArray l))

def taggedHash (tag : String) (msg : List Nat) : List Nat :=
  let t := sha (ofByteArray tag.toUTF8)
  sha (t ++ t ++ msg)

/-- the challenge `e = int(hash_{BIP0340/challenge}(bytes(r) ‖ bytes(P) ‖ m)) mod n` -/
def challenge (r px : Nat) (msg : List Nat) : Nat :=
  natOfBytes (taggedHash "BIP0340/challenge" (bytes32 r ++ bytes32 px ++ msg)) % n

/-- the three facts the relay's `Verify` distinguishes -/
structure Verdict where
  pubkeyParses : Bool
  sigParses : Bool
  verifies : Bool
deriving DecidableEq, Repr

def negPt : Pt → Pt
  | none => none
  | some (x, y) => some (x, (p - y) % p)

/-- steps 5–7 of the reference: `R = s·G − e·P`, fail when infinite, odd `y`, or `x(R) ≠ r` -/
def finalRef (px py r s : Nat) (msg : List Nat) : Bool :=
  match padd (pmul G s) (pmul (some (px, py)) (n - challenge r px msg)) with
  | none => false
  | some (rx, ry) => ry % 2 = 0 ∧ rx = r

/-- the reference verification: `pk` 32 bytes, `msg` any bytes (the relay passes the 32 id bytes), `sig` 64 bytes -/
def verifyRef (pk msg sig : List Nat) : Verdict :=
  if pk.length ≠ 32 then ⟨false, false, false⟩
  else
    match liftX (natOfBytes pk) with
    | none => ⟨false, false, false⟩
    | some (px, py) =>
      if sig.length ≠ 64 then ⟨true, false, false⟩
      else if natOfBytes (sig.take 32) ≥ p ∨ natOfBytes (sig.drop 32) ≥ n then ⟨true, false, false⟩
      else ⟨true, true, finalRef px py (natOfBytes (sig.take 32)) (natOfBytes (sig.drop 32)) msg⟩

/-! ### Jacobian arithmetic (fast path) -/

/-- `(X, Y, Z)` stands for `(X/Z², Y/Z³)`; `Z = 0` is the point at infinity -/
abbrev JPt := Nat × Nat × Nat

def jdbl : JPt → JPt
  | (x, y, z) =>
    if z = 0 ∨ y = 0 then (0, 1, 0)
    else
      let yy := y * y % p
      let s := 4 * x % p * yy % p
      let m := 3 * x % p * x % p
      let x3 := subP (m * m % p) (2 * s % p)
      let y3 := subP (m * subP s x3 % p) (8 * yy % p * yy % p)
      (x3, y3, 2 * y % p * z % p)

def jadd : JPt → JPt → JPt
  | (x1, y1, z1), (x2, y2, z2) =>
    if z1 = 0 then (x2, y2, z2)
    else if z2 = 0 then (x1, y1, z1)
    else
      let z1z1 := z1 * z1 % p
      let z2z2 := z2 * z2 % p
      let u1 := x1 * z2z2 % p
      let u2 := x2 * z1z1 % p
      let s1 := y1 * z2 % p * z2z2 % p
      let s2 := y2 * z1 % p * z1z1 % p
      if u1 = u2 then
        if s1 = s2 then jdbl (x1, y1, z1) else (0, 1, 0)
      else
        let h := subP u2 u1
        let r := subP s2 s1
        let hh := h * h % p
        let hhh := hh * h % p
        let v := u1 * hh % p
        let x3 := subP (subP (r * r % p) hhh) (2 * v % p)
        let y3 := subP (r * subP v x3 % p) (s1 * hhh % p)
        (x3, y3, h * z1 % p * z2 % p)

def toAffine : JPt → Pt
  | (x, y, z) =>
    if z = 0 then none
    else
      let zi := inv z
      let zi2 := zi * zi % p
      some (x * zi2 % p, y * zi2 % p * zi % p)

/-- `a·A + b·B`, most significant bit first, one doubling per bit for both scalars -/
def jmul2F : Nat → JPt → JPt → JPt → Nat → Nat → JPt → JPt
  | 0, _, _, _, _, _, acc => acc
  | i + 1, A, B, AB, a, b, acc =>
    let acc := jdbl acc
    let ba := a.testBit i
    let bb := b.testBit i
    let acc := if ba && bb then jadd acc AB else if ba then jadd acc A else if bb then jadd acc B else acc
    jmul2F i A B AB a b acc

def jmul2 (A B : JPt) (a b : Nat) : JPt := jmul2F 256 A B (jadd A B) a b (0, 1, 0)

def finalFast (px py r s : Nat) (msg : List Nat) : Bool :=
  match toAffine (jmul2 (gx, gy, 1) (px, (p - py) % p, 1) s (challenge r px msg)) with
  | none => false
  | some (rx, ry) => ry % 2 = 0 ∧ rx = r

def verifyFast (pk msg sig : List Nat) : Verdict :=
  if pk.length ≠ 32 then ⟨false, false, false⟩
  else
    match liftX (natOfBytes pk) with
    | none => ⟨false, false, false⟩
    | some (px, py) =>
      if sig.length ≠ 64 then ⟨true, false, false⟩
      else if natOfBytes (sig.take 32) ≥ p ∨ natOfBytes (sig.drop 32) ≥ n then ⟨true, false, false⟩
      else ⟨true, true, finalFast px py (natOfBytes (sig.take 32)) (natOfBytes (sig.drop 32)) msg⟩

/-- what the relay's library (btcec v2.3.4 `schnorr.ParsePubKey` / `ParseSignature` / `Signature.Verify`) computes.
    It differs from the BIP in one place, found by this correspondence check: `ParseSignature` rejects `r ≥ p`
    but does NOT reject `s ≥ n` (`s.SetByteSlice` drops the overflow flag), so `s` is silently reduced mod `n`. -/
def verifyLib (pk msg sig : List Nat) : Verdict :=
  if pk.length ≠ 32 then ⟨false, false, false⟩
  else
    match liftX (natOfBytes pk) with
    | none => ⟨false, false, false⟩
    | some (px, py) =>
      if sig.length ≠ 64 then ⟨true, false, false⟩
      else if natOfBytes (sig.take 32) ≥ p then ⟨true, false, false⟩
      else ⟨true, true, finalFast px py (natOfBytes (sig.take 32)) (natOfBytes (sig.drop 32) % n) msg⟩

/-! ### the BIP's test vectors -/

def hexNib (c : Char) : Nat :=
  if '0' ≤ c && c ≤ '9' then c.toNat - 48 else if 'a' ≤ c && c ≤ 'f' then c.toNat - 87 else 0

def unhex : List Char → List Nat
  | a :: b :: r => (hexNib a * 16 + hexNib b) :: unhex r
  | _ => []

def vectors : List (String × String × String × Bool) := [
  ("f9308a019258c31049344f85f89d5229b531c845836f99b08601f113bce036f9", "0000000000000000000000000000000000000000000000000000000000000000",
   "e907831f80848d1069a5371b402410364bdf1c5f8307b0084c55f1ce2dca821525f66a4a85ea8b71e482a74f382d2ce5ebeee8fdb2172f477df4900d310536c0", true),
  ("dff1d77f2a671c5f36183726db2341be58feae1da2deced843240f7b502ba659", "243f6a8885a308d313198a2e03707344a4093822299f31d0082efa98ec4e6c89",
   "6896bd60eeae296db48a229ff71dfe071bde413e6d43f917dc8dcf8c78de33418906d11ac976abccb20b091292bff4ea897efcb639ea871cfa95f6de339e4b0a", true),
  ("dd308afec5777e13121fa72b9cc1b7cc0139715309b086c960e18fd969774eb8", "7e2d58d8b3bcdf1abadec7829054f90dda9805aab56c77333024b9d0a508b75c",
   "5831aaeed7b44bb74e5eab94ba9d4294c49bcf2a60728d8b4c200f50dd313c1bab745879a5ad954a72c45a91c3a51d3c7adea98d82f8481e0e1e03674a6f3fb7", true),
  ("25d1dff95105f5253c4022f628a996ad3a0d95fbf21d468a1b33f8c160d8f517", "ffffffffffffffffffffffffffffffffffffffffffffffffffffffffffffffff",
   "7eb0509757e246f19449885651611cb965ecc1a187dd51b64fda1edc9637d5ec97582b9cb13db3933705b32ba982af5af25fd78881ebb32771fc5922efc66ea3", true),
  ("d69c3509bb99e412e68b0fe8544e72837dfa30746d8be2aa65975f29d22dc7b9", "4df3c3f68fcc83b27e9d42c90431a72499f17875c81a599b566c9889b9696703",
   "00000000000000000000003b78ce563f89a0ed9414f5aa28ad0d96d6795f9c6376afb1548af603b3eb45c9f8207dee1060cb71c04e80f593060b07d28308d7f4", true),
  ("eefdea4cdb677750a420fee807eacf21eb9898ae79b9768766e4faa04a2d4a34", "243f6a8885a308d313198a2e03707344a4093822299f31d0082efa98ec4e6c89",
   "6cff5c3ba86c69ea4b7376f31a9bcb4f74c1976089b2d9963da2e5543e17776969e89b4c5564d00349106b8497785dd7d1d713a8ae82b32fa79d5f7fc407d39b", false),
  ("dff1d77f2a671c5f36183726db2341be58feae1da2deced843240f7b502ba659", "243f6a8885a308d313198a2e03707344a4093822299f31d0082efa98ec4e6c89",
   "fff97bd5755eeea420453a14355235d382f6472f8568a18b2f057a14602975563cc27944640ac607cd107ae10923d9ef7a73c643e166be5ebeafa34b1ac553e2", false),
  ("dff1d77f2a671c5f36183726db2341be58feae1da2deced843240f7b502ba659", "243f6a8885a308d313198a2e03707344a4093822299f31d0082efa98ec4e6c89",
   "1fa62e331edbc21c394792d2ab1100a7b432b013df3f6ff4f99fcb33e0e1515f28890b3edb6e7189b630448b515ce4f8622a954cfe545735aaea5134fccdb2bd", false),
  ("dff1d77f2a671c5f36183726db2341be58feae1da2deced843240f7b502ba659", "243f6a8885a308d313198a2e03707344a4093822299f31d0082efa98ec4e6c89",
   "6cff5c3ba86c69ea4b7376f31a9bcb4f74c1976089b2d9963da2e5543e177769961764b3aa9b2ffcb6ef947b6887a226e8d7c93e00c5ed0c1834ff0d0c2e6da6", false),
  ("dff1d77f2a671c5f36183726db2341be58feae1da2deced843240f7b502ba659", "243f6a8885a308d313198a2e03707344a4093822299f31d0082efa98ec4e6c89",
   "0000000000000000000000000000000000000000000000000000000000000000123dda8328af9c23a94c1feecfd123ba4fb73476f0d594dcb65c6425bd186051", false),
  ("dff1d77f2a671c5f36183726db2341be58feae1da2deced843240f7b502ba659", "243f6a8885a308d313198a2e03707344a4093822299f31d0082efa98ec4e6c89",
   "00000000000000000000000000000000000000000000000000000000000000017615fbaf5ae28864013c099742deadb4dba87f11ac6754f93780d5a1837cf197", false),
  ("dff1d77f2a671c5f36183726db2341be58feae1da2deced843240f7b502ba659", "243f6a8885a308d313198a2e03707344a4093822299f31d0082efa98ec4e6c89",
   "4a298dacae57395a15d0795ddbfd1dcb564da82b0f269bc70a74f8220429ba1d69e89b4c5564d00349106b8497785dd7d1d713a8ae82b32fa79d5f7fc407d39b", false),
  ("dff1d77f2a671c5f36183726db2341be58feae1da2deced843240f7b502ba659", "243f6a8885a308d313198a2e03707344a4093822299f31d0082efa98ec4e6c89",
   "6cff5c3ba86c69ea4b7376f31a9bcb4f74c1976089b2d9963da2e5543e177769fffffffffffffffffffffffffffffffebaaedce6af48a03bbfd25e8cd0364141", false),
  ("fffffffffffffffffffffffffffffffffffffffffffffffffffffffefffffc30", "243f6a8885a308d313198a2e03707344a4093822299f31d0082efa98ec4e6c89",
   "6cff5c3ba86c69ea4b7376f31a9bcb4f74c1976089b2d9963da2e5543e17776969e89b4c5564d00349106b8497785dd7d1d713a8ae82b32fa79d5f7fc407d39b", false)]

/-- `none` when both algorithms give every vector its expected result, else the index of the first that fails -/
def selfTest : Option Nat :=
  let rec go (i : Nat) : List (String × String × String × Bool) → Option Nat
    | [] => none
    | (pk, m, sg, want) :: rest =>
      let a := verifyRef (unhex pk.toList) (unhex m.toList) (unhex sg.toList)
      let b := verifyFast (unhex pk.toList) (unhex m.toList) (unhex sg.toList)
      if a.verifies == want && a == b then go (i + 1) rest else some i
  go 0 vectors

end Moc.Bip340
