/-
  C07 spec: what each connection may receive for one published event, written from the statement.
  Sequentialised histories (every operation completes before the next starts), so "open at that moment" is exact.
-/
import MocModel.Router
import MocModel.Spec.Nip01

namespace Moc.RouterSpec
open Moc

structure Mon where
  buflen : Nat
  subs : List (Conn × List (String × List Filter)) := []   -- open subscriptions, from the client's own REQ/CLOSE history
  finished : List Conn := []
  stalled : List Conn := []
  pend : List (Conn × List (List ServerMsg)) := []          -- per stalled connection: one group of owed deliveries per publish
deriving Repr

def stepReq (mo : Mon) (c : Conn) (s : String) (fs : List Filter) : Mon :=
  { mo with subs := nSet mo.subs c (alSet ((nGet mo.subs c).getD []) s fs) }
def stepClose (mo : Mon) (c : Conn) (s : String) : Mon :=
  { mo with subs := nSet mo.subs c (alErase ((nGet mo.subs c).getD []) s) }
def stepDisconnect (mo : Mon) (c : Conn) : Mon :=
  { mo with subs := nErase mo.subs c, finished := c :: mo.finished, stalled := mo.stalled.filter (· != c), pend := nErase mo.pend c }

/-- the deliveries the statement demands for connection `c` when `e` is published -/
def owed (mo : Mon) (c : Conn) (e : Event) : List ServerMsg :=
  if mo.finished.contains c then []
  else ((nGet mo.subs c).getD []).filterMap fun (s, fs) => if nip01MatchAnyB fs e then some (.event s e) else none

/-- remove one occurrence -/
def removeOne (x : ServerMsg) : List ServerMsg → Option (List ServerMsg)
  | [] => none
  | y :: ys => if x == y then some ys else (removeOne x ys).map (y :: ·)

/-- `r` is a sub-multiset of `e`; returns the first offending message -/
def subMultiset : List ServerMsg → List ServerMsg → Option ServerMsg
  | [], _ => none
  | x :: xs, e => match removeOne x e with
    | none => some x
    | some e' => subMultiset xs e'

def descr : ServerMsg → String
  | .event s e => s!"EVENT {s} {e.id}"
  | .eose s => s!"EOSE {s}"
  | .ok id a _ _ => s!"OK {id} {a}"
  | .count s n _ => s!"COUNT {s} {n}"
  | .notice m => s!"NOTICE {m}"
  | .closed s _ _ => s!"CLOSED {s}"
  | .auth _ => "AUTH"

/-- a reading connection: it must receive each owed delivery exactly once and nothing else; deliveries may be
    missing only beyond the configured buffer -/
def judgeRunning (buflen : Nat) (c : Conn) (owedMsgs got : List ServerMsg) : List (String × String) :=
  (match subMultiset got owedMsgs with
   | some x => [("unexpected-delivery", s!"connection {c} received {descr x}, which no open matching subscription of it is owed (or received it twice)")]
   | none => []) ++
  (if got.length < min owedMsgs.length buflen then
     [("missing-delivery", s!"connection {c} is owed {owedMsgs.length} deliveries (buffer {buflen}) but received only {got.length}")]
   else [])

/-- a connection that stopped reading and resumes: what it then receives is the owed deliveries in publication
    order, cut off where the buffer (plus the one message its writer already holds) was full -/
def judgeResume (buflen : Nat) (c : Conn) (groups : List (List ServerMsg)) (got : List ServerMsg) : List (String × String) :=
  let total := (groups.map List.length).sum
  let rec walk (gs : List (List ServerMsg)) (r : List ServerMsg) : Option String :=
    match gs with
    | [] => if r.isEmpty then none else some s!"received {r.length} deliveries beyond those owed"
    | g :: rest =>
      if r.length ≤ g.length then
        match subMultiset r g with
        | some x => some s!"received {descr x} out of publication order or not owed"
        | none => none
      else
        match subMultiset (r.take g.length) g with
        | some x => some s!"received {descr x} out of publication order or not owed"
        | none => walk rest (r.drop g.length)
  (match walk groups got with
   | some m => [("stall-order", s!"connection {c} after resuming: {m}")]
   | none => []) ++
  (if got.length < min total buflen then
     [("stall-lost", s!"connection {c} stopped reading with {total} deliveries owed and buffer {buflen}, but only {got.length} were kept")]
   else []) ++
  (if got.length > min total (buflen + 1) then
     [("stall-extra", s!"connection {c} received {got.length} deliveries after resuming; at most {min total (buflen + 1)} can have been buffered")]
   else [])

end Moc.RouterSpec
