/-
  C06 / C14 spec, written from the statement: which events are stored and live after a history of successfully
  inserted batches, and when a query answer is acceptable.  Independent of the table model.
-/
import MocModel.Sqlite
import MocModel.Spec.Nip01

namespace Moc.SqliteSpec
open Moc

inductive Cls where | regular | replaceable | ephemeral | addressable
deriving DecidableEq

/-- NIP-01 kind classes -/
def cls (k : Int) : Cls :=
  if k == 0 || k == 3 || (10000 ≤ k && k < 20000) then .replaceable
  else if 20000 ≤ k && k < 30000 then .ephemeral
  else if 30000 ≤ k && k < 40000 then .addressable
  else .regular

def dOf (e : Event) : Option String :=
  (e.tags.find? fun t => t.headD "" == "d" && t.length ≥ 1).map fun t => t.getD 1 ""

/-- the address under which an event is stored; `none` = never stored (ephemeral; addressable without d tag) -/
def address (e : Event) : Option String :=
  match cls e.kind with
  | .regular => some ("id:" ++ e.id)
  | .replaceable => some (toString e.kind ++ ":" ++ e.pubkey)
  | .addressable => (dOf e).map fun d => toString e.kind ++ ":" ++ e.pubkey ++ ":" ++ d
  | .ephemeral => none

/-- a deletion request `d` references `e` (by id, or by address for an addressable event), same author -/
def deletes (d e : Event) : Bool :=
  d.kind == 5 && d.pubkey == e.pubkey &&
  d.tags.any fun t =>
    t.length ≥ 2 &&
    ((t.headD "" == "e" && t.getD 1 "" == e.id) ||
     (t.headD "" == "a" && cls e.kind == .addressable && some (t.getD 1 "") == address e))

/-- stored: the newest version per address; among versions with the same newest created_at the statement does
    not choose, so the one the answer shows (if any) is taken, else the first arrived -/
def stored (hist : List Event) (got : List Event) : List Event :=
  let addrs := (hist.filterMap address).eraseDups
  addrs.filterMap fun a =>
    let vs := hist.filter fun e => address e == some a
    match vs with
    | [] => none
    | v :: rest =>
      let top := rest.foldl (fun m e => if e.createdAt > m then e.createdAt else m) v.createdAt
      let tied := vs.filter (·.createdAt == top)
      match tied.find? (fun e => got.any (·.id == e.id)) with
      | some e => some e
      | none => tied.head?

/-- a deletion request naming a REPLACEABLE event's `kind:pubkey` in an `a` tag: the statement claims address
    references for addressable events only, so such an event may be served or not -/
def unclaimedRef (d e : Event) : Bool :=
  d.kind == 5 && d.pubkey == e.pubkey && cls e.kind == .replaceable &&
  d.tags.any fun t => t.length ≥ 2 && t.headD "" == "a" && some (t.getD 1 "") == address e

def live (hist got : List Event) : List Event :=
  (stored hist got).filter fun e =>
    !hist.any (deletes · e) && (!hist.any (unclaimedRef · e) || got.any (·.id == e.id))

/-- what the statement owes for one filter list -/
def owed (hist : List Event) (fs : List Filter) (got : List Event) : List Cand :=
  fs.map fun f => { ms := (live hist got).filter (nip01MatchB f), limit := f.limit.map Int.toNat }

/-! ### judging an answer against per-filter candidates -/

structure Slot where
  sure : List Event        -- must be in the answer
  boundary : List Event    -- tied at the limit: `need` of them must be in the answer
  need : Nat

def insertDesc (e : Event) : List Event → List Event
  | [] => [e]
  | x :: xs => if e.createdAt > x.createdAt then e :: x :: xs else x :: insertDesc e xs
def sortDesc (l : List Event) : List Event := l.foldr insertDesc []

def slotOf (c : Cand) : Slot :=
  match c.limit with
  | none => { sure := c.ms, boundary := [], need := 0 }
  | some l =>
    if c.ms.length ≤ l then { sure := c.ms, boundary := [], need := 0 }
    else if l == 0 then { sure := [], boundary := [], need := 0 }
    else
      let t := ((sortDesc c.ms).getD (l - 1) default).createdAt
      let sure := c.ms.filter (·.createdAt > t)
      { sure := sure, boundary := c.ms.filter (·.createdAt == t), need := l - sure.length }

def nonIncreasing : List Event → Bool
  | a :: b :: rest => decide (a.createdAt ≥ b.createdAt) && nonIncreasing (b :: rest)
  | _ => true

/-- (class, message) for everything wrong with `got` -/
def judgeAnswer (cands : List Cand) (got : List Event) : List (String × String) :=
  let slots := cands.map slotOf
  let allSure := slots.flatMap (·.sure)
  let allowed := allSure ++ slots.flatMap (·.boundary)
  let everything := cands.flatMap (·.ms)
  (if nonIncreasing got then [] else [("order", "the answer is not in non-increasing created_at order")]) ++
  (if (got.map (·.id)).eraseDups.length == got.length then [] else [("duplicate", "an event appears twice in the answer")]) ++
  (got.filterMap fun x =>
    if allowed.contains x then none
    else if everything.contains x then some ("beyond-limit", s!"event {x.id} is in the answer although its filter's limit newest matches do not include it")
    else if everything.any (·.id == x.id) then some ("fields", s!"event {x.id} came back with fields different from those inserted")
    else some ("not-owed", s!"event {x.id} (kind {x.kind}, created_at {x.createdAt}) is in the answer but is not a stored, live, matching event")) ++
  (allSure.eraseDups.filterMap fun x =>
    if got.contains x then none
    else some ("missing", s!"event {x.id} (kind {x.kind}, created_at {x.createdAt}) is stored, live, matches and is within the limit, but is not in the answer")) ++
  (slots.filterMap fun s =>
    if (got.filter s.boundary.contains).length < s.need then
      some ("missing-at-limit", s!"a filter's limit requires {s.need} of {s.boundary.length} events tied at the boundary, the answer has fewer")
    else none) ++
  (let extra := (got.filter fun x => !allSure.contains x).length
   let room := (slots.map (·.need)).sum
   if extra > room then [("too-many", s!"{extra} events beyond the certain ones, the limits leave room for {room}")] else [])

end Moc.SqliteSpec
