import MocModel.Http
namespace Moc

/-- C20 routing, in the statement's words -/
def routeSpec (upgradePresent : Bool) (acceptIsNostrJson : Bool) (hasNip11 hasDefault : Bool) : Target :=
  if upgradePresent then .relay
  else if acceptIsNostrJson then (if hasNip11 then .nip11Doc else .emptyDoc)
  else (if hasDefault then .dflt else .greeting)

end Moc
