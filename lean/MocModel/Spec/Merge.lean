/-
  C08 / C09 spec: monitors over a trace of a merged session and what the client received at each step,
  written from the statements.
-/
import MocModel.Merge
import MocModel.Spec.Nip01

namespace Moc.MergeSpec
open Moc

structure SubMon where
  filters : List Filter
  eosed : List Nat := []        -- children that have sent EOSE for this REQ
  merged : Bool := false        -- the merged EOSE has been forwarded
  closed : Bool := false
  pre : List Event := []        -- events forwarded before the merged EOSE
  open_ : Bool := true          -- false: re-issued before its EOSE (outside the quantifier)
deriving Repr

structure Mon where
  n : Nat
  subs : List (String × SubMon) := []
  -- pending EVENTs per id, oldest first: the k-th reply of a child for an id answers the k-th EVENT with that id
  oks : List (String × List (List (Option OKMsg))) := []
  cnts : List (String × List (List (Option Nat))) := []
deriving Repr

structure Fail where
  mon : String
  cls : String
  msg : String

/-- child `i`'s reply answers its oldest unanswered request: `none` when it has none -/
def assign {α} : List (List (Option α)) → Nat → α → Option (List (List (Option α)))
  | [], _, _ => none
  | row :: rest, i, v =>
    if slotFree row i then some (row.set i (some v) :: rest)
    else (assign rest i v).map (row :: ·)

def stepClient (mo : Mon) : ClientMsg → Mon
  | .req sub fs =>
    let reissue := match alGet mo.subs sub with
      | some s => !s.merged && !s.closed
      | none => false
    { mo with subs := alSet mo.subs sub { filters := fs, open_ := !reissue } }
  | .close sub =>
    match alGet mo.subs sub with
    | some s => { mo with subs := alSet mo.subs sub { s with closed := true } }
    | none => mo
  | .event e => { mo with oks := alSet mo.oks e.id ((alGet mo.oks e.id).getD [] ++ [List.replicate mo.n none]) }
  | .count sub _ => { mo with cnts := alSet mo.cnts sub ((alGet mo.cnts sub).getD [] ++ [List.replicate mo.n none]) }
  | .auth _ => mo

/-- judge what the client received (`out`) when child `i` emitted `m` -/
def stepChild (mo : Mon) (i : Nat) (m : ServerMsg) (out : List ServerMsg) : Mon × List Fail :=
  match m with
  | .eose sub =>
    match alGet mo.subs sub with
    | none => (mo, if out.isEmpty then [] else [⟨"eose", "eose-unknown-sub", s!"EOSE forwarded for a subscription that was never requested: {sub}"⟩])
    | some s =>
      if !s.open_ then (mo, [])
      else if s.closed then
        (mo, if out.isEmpty then [] else [⟨"eose", "eose-after-close", s!"EOSE for {sub} forwarded although the client closed the subscription"⟩])
      else if s.merged then
        (mo, if out.isEmpty then [] else [⟨"eose", "eose-twice", s!"a second EOSE for {sub} was forwarded"⟩])
      else
        let eosed := if s.eosed.contains i then s.eosed else i :: s.eosed
        let all := (List.range mo.n).all eosed.contains
        let s' := { s with eosed := eosed, merged := all }
        let mo' := { mo with subs := alSet mo.subs sub s' }
        if all then
          (mo', if out == [ServerMsg.eose sub] then [] else [⟨"eose", "eose-missing", s!"every child has sent EOSE for {sub} but the client received {out.length} messages instead of one EOSE"⟩])
        else
          (mo', if out.isEmpty then [] else [⟨"eose", "eose-early", s!"EOSE for {sub} forwarded after {eosed.length} of {mo.n} children"⟩])
  | .event sub e =>
    match alGet mo.subs sub with
    | none => (mo, [])
    | some s =>
      if !s.open_ || s.closed then (mo, [])
      else if s.merged then
        (mo, if out == [ServerMsg.event sub e] then [] else [⟨"stream", "post-eose-dropped", s!"after EOSE an event of child {i} for {sub} was not forwarded unchanged ({out.length} messages)"⟩])
      else
        match out with
        | [] => (mo, [])
        | [.event sub' e'] =>
          let fails : List Fail :=
            (if sub' != sub then [⟨"stream", "subid-changed", s!"forwarded event carries subscription id {sub'} instead of {sub}"⟩] else []) ++
            (if e' != e then [⟨"stream", "event-changed", "forwarded event differs from the one the child emitted"⟩] else []) ++
            (if !nip01MatchAnyB s.filters e then [⟨"stream", "pre-nonmatching", s!"event {e.id} forwarded before EOSE does not match the filters of {sub}"⟩] else []) ++
            (if s.pre.any (·.id == e.id) then [⟨"stream", "pre-duplicate", s!"event {e.id} forwarded twice before EOSE of {sub}"⟩] else []) ++
            (match s.pre.getLast? with
             | some l => if l.createdAt < e.createdAt then [⟨"stream", "pre-order", s!"event {e.id} (created_at {e.createdAt}) forwarded after one with created_at {l.createdAt} before EOSE of {sub}"⟩] else []
             | none => []) ++
            (match s.filters with
             | [f] => match f.limit with
               | some n => if (s.pre.length + 1 : Int) > n then [⟨"stream", "pre-limit", s!"more than limit={n} events forwarded before EOSE of {sub}"⟩] else []
               | none => []
             | _ => [])
          ({ mo with subs := alSet mo.subs sub { s with pre := s.pre ++ [e] } }, fails)
        | _ => (mo, [⟨"stream", "pre-shape", s!"one child event produced {out.length} client messages"⟩])
  | .ok id acc pfx msg =>
    match assign ((alGet mo.oks id).getD []) i { id := id, accepted := acc, text := pfx ++ msg } with
    | none => (mo, if out.isEmpty then [] else [⟨"ok", "ok-unrequested", s!"an OK for {id} was forwarded although child {i} has no unanswered EVENT with that id"⟩])
    | some [] => (mo, [])
    | some (row :: rest) =>
      if row.contains none then
        ({ mo with oks := alSet mo.oks id (row :: rest) },
          if out.isEmpty then [] else [⟨"ok", "ok-early", s!"an OK for {id} reached the client before every child had answered"⟩])
      else
        let all := row.filterMap (fun x => x)
        let accept := all.all (·.accepted)
        let firstRej := (all.find? (fun x => !x.accepted)).map (·.text)
        let mo' := { mo with oks := if rest.isEmpty then alErase mo.oks id else alSet mo.oks id rest }
        match out with
        | [.ok id' acc' p' m'] =>
          let text := p' ++ m'
          (mo', (if id' != id then [⟨"ok", "ok-id", s!"aggregated OK carries id {id'} instead of {id}"⟩] else []) ++
                (if acc' != accept then [⟨"ok", "ok-verdict", s!"aggregated OK for {id} is {acc'}; children accepted: {all.map (·.accepted)}"⟩] else []) ++
                (match firstRej with
                 | some r => if !accept && !(r.toList.isPrefixOf text.toList) then [⟨"ok", "ok-reason", s!"rejection text {text.quote} does not begin with the first rejecting child's reason {r.quote}"⟩] else []
                 | none => []))
        | _ => (mo', [⟨"ok", "ok-count", s!"EVENT {id}: every child has answered but the client received {out.length} messages instead of exactly one OK"⟩])
  | .count sub c _ =>
    match assign ((alGet mo.cnts sub).getD []) i c with
    | none => (mo, if out.isEmpty then [] else [⟨"count", "count-unrequested", s!"a COUNT reply for {sub} was forwarded although child {i} has no unanswered COUNT for it"⟩])
    | some [] => (mo, [])
    | some (row :: rest) =>
      if row.contains none then
        ({ mo with cnts := alSet mo.cnts sub (row :: rest) },
          if out.isEmpty then [] else [⟨"count", "count-early", s!"a COUNT reply for {sub} reached the client before every child had answered"⟩])
      else
        let all := row.filterMap (fun x => x)
        let mx := all.foldl max 0
        let mo' := { mo with cnts := if rest.isEmpty then alErase mo.cnts sub else alSet mo.cnts sub rest }
        match out with
        | [.count sub' c' _] =>
          (mo', (if sub' != sub then [⟨"count", "count-sub", s!"COUNT reply carries {sub'} instead of {sub}"⟩] else []) ++
                (if c' != mx then [⟨"count", "count-max", s!"COUNT reply for {sub} carries {c'}, the children's maximum is {mx}"⟩] else []))
        | _ => (mo', [⟨"count", "count-count", s!"COUNT {sub}: every child has answered but the client received {out.length} messages instead of exactly one COUNT"⟩])
  | other =>
    (mo, if out == [other] then [] else [⟨"stream", "passthrough", s!"a NOTICE/AUTH/CLOSED message of child {i} did not pass unchanged"⟩])

end Moc.MergeSpec
