/-
  Specification of the in-memory store as C03 / C04 / C05 state it, as executable monitors over
  what the implementation shows: the match-everything listing before and after an insertion, the
  returned flag, and query answers.  Written from the statements, independent of the model's
  data structures.  Where a statement leaves a case open (equal created_at), every behaviour
  compatible with the words is accepted.
-/
import MocModel.Basic
import MocModel.Spec.Nip01

namespace Moc.CacheSpec
open Moc

inductive Class where | regular | replaceable | ephemeral | addressable
deriving DecidableEq, Repr

def classOf (kind : Int) : Class :=
  if kind == 0 || kind == 3 || (10000 ≤ kind && kind < 20000) then .replaceable
  else if 20000 ≤ kind && kind < 30000 then .ephemeral
  else if 30000 ≤ kind && kind < 40000 then .addressable
  else .regular

/-- the d value of an addressable event (first d tag; absent or valueless = "") -/
def dOf (e : Event) : String :=
  match e.tags.find? (fun t => tagName? t == some "d") with
  | some t => tagValue t
  | none => ""

/-- the address of a replaceable / addressable event -/
def addrOf (e : Event) : Option (Int × String × String) :=
  match classOf e.kind with
  | .replaceable => some (e.kind, e.pubkey, "")
  | .addressable => some (e.kind, e.pubkey, dOf e)
  | _ => none

def tagRefs (name : String) (k5 : Event) : List String :=
  k5.tags.filterMap fun t =>
    match t with
    | n :: v :: _ => if n == name then some v else none
    | _ => none

/-- the address string `kind:pubkey:d` of an addressable event -/
def addrString (x : Event) : String := toString x.kind ++ ":" ++ x.pubkey ++ ":" ++ dOf x

/-- `k5` is a deletion request by the author of `x` that references `x` by id (e tag) or, for an
    addressable event, by its address `kind:pubkey:d` (a tag) — the references the statement claims -/
def mustDelete (k5 x : Event) : Bool :=
  k5.kind == 5 && k5.pubkey == x.pubkey &&
    ((tagRefs "e" k5).contains x.id ||
     (classOf x.kind == .addressable && (tagRefs "a" k5).contains (addrString x)))

/-- references whose effect the statement leaves open: the address of a replaceable event (written
    `kind:pubkey` or `kind:pubkey:`), and an id / address carried by the other tag name -/
def mayDelete (k5 x : Event) : Bool :=
  k5.kind == 5 && k5.pubkey == x.pubkey &&
    let refs := tagRefs "e" k5 ++ tagRefs "a" k5
    let names := [x.id, toString x.kind ++ ":" ++ x.pubkey, toString x.kind ++ ":" ++ x.pubkey ++ ":", addrString x]
    names.any refs.contains

def sameSlot (a b : Event) : Bool :=
  match addrOf a, addrOf b with
  | some x, some y => x == y
  | none, none => a.id == b.id
  | _, _ => false

structure StepVerdict where
  ok : Bool
  cls : String := ""
  msg : String := ""

def bad (cls msg : String) : StepVerdict := { ok := false, cls := cls, msg := msg }

def minCreatedAt (es : List Event) : Option Int :=
  es.foldl (fun m e => match m with | none => some e.createdAt | some v => some (min v e.createdAt)) none

/-- **C04 / C05 step relation**: is the observed transition `before --Add(e)=added--> after` one the
    statements allow? -/
def stepAllowed (cap : Int) (before : List Event) (e : Event) (after : List Event) (added : Bool) : StepVerdict :=
  let ids := after.map (·.id)
  let leaving := before.filter fun x => !(after.any (· == x))
  let entered := after.filter fun x => !(before.any (· == x))
  if (after.length : Int) > cap then bad "capacity" s!"store holds {after.length} events, capacity {cap}"
  else if ids.eraseDups.length != ids.length then bad "dup-id" "an id is held twice"
  else if after.any (fun a => after.any fun b => a != b && (addrOf a).isSome && addrOf a == addrOf b) then
    bad "dup-address" "two versions of one address are held"
  else if after.any (fun a => classOf a.kind == .ephemeral) then bad "ephemeral-served" "an ephemeral event is served from storage"
  else if entered.any (· != e) then bad "foreign-enter" "an event other than the offered one entered the store"
  else if !added && (leaving != [] || entered != []) then bad "changed-without-new" "insertion reported as not new but the store changed"
  else
    -- the flag
    let dup := before.any (·.id == e.id)
    let older := before.any fun x => sameSlot x e && x.createdAt > e.createdAt
    let tie := before.any fun x => sameSlot x e && x.createdAt == e.createdAt && x.id != e.id
    let suppressed := before.any fun k5 => mustDelete k5 e
    let maySuppressed := before.any fun k5 => mayDelete k5 e
    let eph := classOf e.kind == .ephemeral
    let flagBad :=
      if eph then false
      else if dup || older || suppressed then added
      else if tie || maySuppressed then false   -- equal created_at / reference form left open: either outcome
      else !added
    if flagBad then
      bad (if dup then "flag-dup" else if older then "flag-older" else if suppressed then "flag-suppressed" else "flag-new")
        s!"insertion reported as {if added then "new" else "not new"} (duplicate={dup} older={older} suppressed={suppressed})"
    else
      -- every leaving event needs a reason
      let explained (x : Event) : Bool :=
        (sameSlot x e && x.createdAt ≤ e.createdAt && added) ||          -- replaced by a not-older version of its address
        (added && mayDelete e x)                                        -- removed by this deletion request of its own author
      let unexplained := leaving.filter (fun x => !explained x)
      let selfGone := added && !eph && !(after.any (· == e)) && !(mayDelete e e)  -- the offered event did not stay
      -- capacity eviction: at most one event, the one with the smallest created_at, only when capacity is exceeded
      let evicted := unexplained ++ (if selfGone then [e] else [])
      let undeleted := if added then before.filter (fun x => mustDelete e x && after.any (· == x)) else []
      match undeleted with
      | x :: _ => bad "not-deleted" s!"deletion request {e.id} references {x.id} of its own author, which is still served"
      | [] =>
      match evicted with
      | [] => { ok := true }
      | [x] =>
        let present := after ++ [x]
        if (present.length : Int) ≤ cap then
          bad (if x.pubkey != e.pubkey then "isolation" else "lost") s!"event {x.id} left the store without a replacement, an own-author deletion request or a capacity overflow"
        else if (minCreatedAt present) != some x.createdAt then
          bad (if x.pubkey != e.pubkey then "isolation-evict" else "evict-not-oldest") s!"evicted event {x.id} does not have the smallest created_at"
        else { ok := true }
      | x :: _ =>
        bad (if x.pubkey != e.pubkey then "isolation" else "lost") s!"{evicted.length} events left the store without a replacement or an own-author deletion request (first {x.id})"

/-- non-increasing created_at -/
def sortedDesc : List Event → Bool
  | a :: b :: rest => decide (a.createdAt ≥ b.createdAt) && sortedDesc (b :: rest)
  | _ => true

/-- **C03 query relation**: is `res` a valid answer to `fs` over the retained set `all`? -/
def findAllowed (all : List Event) (fs : List Filter) (res : List Event) : StepVerdict :=
  let okF (f : Filter) (e : Event) := f.WF && e.tags.all (· != []) && nip01MatchB f e
  if !sortedDesc res then bad "order" "answer is not in non-increasing created_at order"
  else if (res.map (·.id)).eraseDups.length != res.length then bad "dup" "answer contains an event twice"
  else match res.find? (fun e => !(all.any (· == e))) with
  | some e => bad "not-retained" s!"answer contains {e.id}, which the match-everything query does not list"
  | none =>
    -- every answered event could belong to the `limit` newest matches of some filter
    let couldBeIn (e : Event) (f : Filter) : Bool :=
      okF f e && (match f.limit with
        | some n => decide (((all.filter fun x => okF f x && x.createdAt > e.createdAt).length : Int) < n)
        | none => true)
    match res.find? (fun e => !(fs.any (couldBeIn e))) with
    | some e => bad "extra" s!"answer contains {e.id}, which is not among the limit newest matches of any filter"
    | none =>
      -- every event that is surely among the `limit` newest matches of some filter must be answered
      let mustBeIn (e : Event) (f : Filter) : Bool :=
        okF f e && (match f.limit with
          | some n => decide (((all.filter fun x => okF f x && x.createdAt ≥ e.createdAt && x != e).length : Int) < n)
          | none => true)
      match all.find? (fun e => fs.any (mustBeIn e) && !(res.any (· == e))) with
      | some e => bad "missing" s!"answer lacks {e.id}, which is among the limit newest matches of a filter"
      | none =>
        match fs with
        | [f] =>
          let m := (all.filter (okF f)).length
          let want : Int := match f.limit with | some n => min (max n 0) m | none => m
          if (res.length : Int) != want then bad "count" s!"single filter: {res.length} events answered, {want} expected"
          else { ok := true }
        | _ => { ok := true }

end Moc.CacheSpec
