/-
  C16 spec: the reply shape each client message must get from a storage-backed handler.
-/
import MocModel.Handlers
import MocModel.Spec.Cache

namespace Moc.HandlerSpec
open Moc

inductive Store where | cache | sqlite
deriving DecidableEq, Repr

/-- shape check of the replies to one message; `stored` = events the store could legitimately return
    (`none` = unknown), `accept` = expected OK verdict (`none` = not constrained) -/
def replyShapeOk (m : ClientMsg) (replies : List ServerMsg) (accept : Option Bool) : Option String :=
  match m with
  | .event e =>
    match replies with
    | [.ok id acc _ _] =>
      if id != e.id then some "OK carries another id"
      else match accept with
        | some a => if acc != a then some s!"OK verdict {acc}, expected {a}" else none
        | none => none
    | _ => some s!"EVENT answered by {replies.length} messages instead of exactly one OK"
  | .req sub _ =>
    match replies.reverse with
    | .eose s :: evs =>
      if s != sub then some "EOSE carries another subscription id"
      else if evs.all (fun r => match r with | .event s' _ => s' == sub | _ => false) then none
      else some "a REQ reply before EOSE is not an EVENT labelled with the subscription id"
    | _ => some "REQ replies do not end with exactly one EOSE"
  | .count sub _ =>
    match replies with
    | [.count s _ _] => if s == sub then none else some "COUNT reply carries another subscription id"
    | _ => some s!"COUNT answered by {replies.length} messages instead of one COUNT"
  | .close _ => if replies.isEmpty then none else some "CLOSE was answered"
  | .auth _ => if replies.isEmpty then none else some "AUTH was answered"

end Moc.HandlerSpec
