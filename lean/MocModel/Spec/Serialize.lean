/-
  C01 spec: the NIP-01 canonical serialization, written from the NIP (and the property's reading of it):
  [0,pubkey,created_at,kind,tags,content] as compact JSON; in strings only the seven mandated escapes,
  the remaining C0 controls as \u00xx, every other character verbatim.
-/
import MocModel.Serialize

namespace Moc.SerSpec
open Moc

def mandatedEscape (c : Char) : Option (List Char) :=
  if c = '"' then some ['\\', '"']
  else if c = '\\' then some ['\\', '\\']
  else if c = '\n' then some ['\\', 'n']
  else if c = '\r' then some ['\\', 'r']
  else if c = '\t' then some ['\\', 't']
  else if c = '\x08' then some ['\\', 'b']
  else if c = '\x0c' then some ['\\', 'f']
  else none

def canonChar (c : Char) : List Char :=
  match mandatedEscape c with
  | some e => e
  | none =>
    if c.toNat < 0x20 then ['\\', 'u', '0', '0', hexDigit (c.toNat / 16), hexDigit (c.toNat % 16)]
    else [c]

def canonString (s : String) : List Char := '"' :: s.toList.flatMap canonChar ++ ['"']

def canonTags (tags : List (List String)) : List Char :=
  '[' :: joinComma (tags.map fun t => '[' :: joinComma (t.map canonString) ++ [']']) ++ [']']

def nip01Canonical (e : Event) : List Char :=
  "[0,".toList ++ canonString e.pubkey ++ [','] ++ (toString e.createdAt).toList ++ [','] ++
  (toString e.kind).toList ++ [','] ++ canonTags e.tags ++ [','] ++ canonString e.content ++ [']']

end Moc.SerSpec
