/-
  C11 spec: the NIP-01 constraints, stated on values independently of the validators' control flow.
-/
import MocModel.Valid

namespace Moc.ValidSpec
open Moc

def hexDigits : List Char := "0123456789abcdef".toList

/-- `n` bytes, every character a lower-case hexadecimal digit -/
def IsLowerHex (n : Nat) (s : String) : Prop := byteLen s.toList = n ∧ ∀ c ∈ s.toList, c ∈ hexDigits

def KindOk (k : Int) : Prop := 0 ≤ k ∧ k ≤ 65535

def TagOk (t : List String) : Prop := ∃ k rest, t = k :: rest ∧ k ≠ ""

def EventOk (e : Event) : Prop :=
  IsLowerHex 64 e.id ∧ IsLowerHex 64 e.pubkey ∧ KindOk e.kind ∧ (∀ t ∈ e.tags, TagOk t) ∧ IsLowerHex 128 e.sig

/-- an address `kind:pubkey:d` — any `d`, including one that contains `:` -/
def NaddrOk (s : String) : Prop :=
  ∃ (k pk d : List Char) (kind : Int), s.toList = k ++ ':' :: pk ++ ':' :: d ∧ ':' ∉ k ∧ ':' ∉ pk ∧
    parseInt64Chars k = some kind ∧ KindOk kind ∧ byteLen pk = 64 ∧ ∀ c ∈ pk, c ∈ hexDigits

def isLetterByte (n : Nat) : Prop := (65 ≤ n ∧ n ≤ 90) ∨ (97 ≤ n ∧ n ≤ 122)

def TagCondOk (c : String × List String) : Prop :=
  (byteLen c.1.toList = 1 ∧ isLetterByte (c.1.toUTF8.toList.getD 0 0).toNat) ∧
  (c.1 = "e" → ∀ v ∈ c.2, IsLowerHex 64 v) ∧
  (c.1 = "p" → ∀ v ∈ c.2, IsLowerHex 64 v) ∧
  (c.1 = "a" → ∀ v ∈ c.2, NaddrOk v)

def FilterOk (f : Filter) : Prop :=
  (∀ l, f.ids = some l → ∀ x ∈ l, IsLowerHex 64 x) ∧
  (∀ l, f.authors = some l → ∀ x ∈ l, IsLowerHex 64 x) ∧
  (∀ l, f.kinds = some l → ∀ k ∈ l, KindOk k) ∧
  (∀ l, f.tags = some l → ∀ c ∈ l, TagCondOk c) ∧
  (∀ s, f.since = some s → 0 ≤ s) ∧ (∀ u, f.until_ = some u → 0 ≤ u) ∧
  (∀ s u, f.since = some s → f.until_ = some u → s ≤ u) ∧
  (∀ l, f.limit = some l → 0 ≤ l)

def MsgOk : ClientMsg → Prop
  | .event e => EventOk e
  | .req _ fs => fs ≠ [] ∧ ∀ f ∈ fs, FilterOk f
  | .close _ => True
  | .auth e => EventOk e
  | .count _ fs => fs ≠ [] ∧ ∀ f ∈ fs, FilterOk f

/-! executable forms (monitors) -/

def isLowerHexB (n : Nat) (s : String) : Bool := byteLen s.toList == n && s.toList.all hexDigits.contains
def kindOkB (k : Int) : Bool := decide (0 ≤ k) && decide (k ≤ 65535)
def tagOkB (t : List String) : Bool := match t with | k :: _ => k != "" | [] => false
def eventOkB (e : Event) : Bool :=
  isLowerHexB 64 e.id && isLowerHexB 64 e.pubkey && kindOkB e.kind && e.tags.all tagOkB && isLowerHexB 128 e.sig

/-- address check written independently: first two colons delimit kind and pubkey -/
def naddrOkB (s : String) : Bool :=
  let cs := s.toList
  let k := cs.takeWhile (· != ':')
  let r1 := (cs.dropWhile (· != ':')).drop 1
  let pk := r1.takeWhile (· != ':')
  let hasTwo := (cs.dropWhile (· != ':')).length > 0 && (r1.dropWhile (· != ':')).length > 0
  hasTwo && (match parseInt64Chars k with | some kind => kindOkB kind | none => false) &&
    byteLen pk == 64 && pk.all hexDigits.contains

def tagCondOkB (c : String × List String) : Bool :=
  let b := (c.1.toUTF8.toList.getD 0 0).toNat
  byteLen c.1.toList == 1 && ((65 ≤ b && b ≤ 90) || (97 ≤ b && b ≤ 122)) &&
  (c.1 != "e" || c.2.all (isLowerHexB 64)) && (c.1 != "p" || c.2.all (isLowerHexB 64)) && (c.1 != "a" || c.2.all naddrOkB)

def filterOkB (f : Filter) : Bool :=
  (match f.ids with | some l => l.all (isLowerHexB 64) | none => true) &&
  (match f.authors with | some l => l.all (isLowerHexB 64) | none => true) &&
  (match f.kinds with | some l => l.all kindOkB | none => true) &&
  (match f.tags with | some l => l.all tagCondOkB | none => true) &&
  (match f.since with | some s => decide (0 ≤ s) | none => true) &&
  (match f.until_ with | some u => decide (0 ≤ u) | none => true) &&
  (match f.since, f.until_ with | some s, some u => decide (s ≤ u) | _, _ => true) &&
  (match f.limit with | some l => decide (0 ≤ l) | none => true)

def msgOkB : ClientMsg → Bool
  | .event e => eventOkB e
  | .req _ fs => !fs.isEmpty && fs.all filterOkB
  | .close _ => true
  | .auth e => eventOkB e
  | .count _ fs => !fs.isEmpty && fs.all filterOkB

end Moc.ValidSpec
