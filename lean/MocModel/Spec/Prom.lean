/-
  C19 spec: what "reality" is for a history of steps — live sessions, open subscriptions,
  numbers of messages of each type — computed straight from the history.
-/
import MocModel.Prom

namespace Moc

def PStep.sid : PStep → Nat
  | .start s | .stop s | .client s _ | .server s _ => s

/-- sessions started and not yet ended -/
def liveStep (live : List Nat) : PStep → List Nat
  | .start s => s :: live
  | .stop s => live.erase s
  | _ => live

def liveSessions (steps : List PStep) : List Nat := steps.foldl liveStep []

/-- effect of one step on the subscriptions of session `sid` that were opened by REQ and are not yet
    ended by CLOSE or CLOSED -/
def openStep (sid : Nat) (acc : List String) : PStep → List String
  | .client s (.req sub _) => if s == sid then (if acc.contains sub then acc else sub :: acc) else acc
  | .client s (.close sub) => if s == sid then acc.erase sub else acc
  | .server s (.closed sub _ _) => if s == sid then acc.erase sub else acc
  | _ => acc

def openSubsOf (sid : Nat) (steps : List PStep) : List String := steps.foldl (openStep sid) []

def nip01Label : ClientMsg → String
  | .event _ => "EVENT" | .req _ _ => "REQ" | .close _ => "CLOSE" | .auth _ => "AUTH" | .count _ _ => "COUNT"

def nip01SLabel : ServerMsg → String
  | .eose _ => "EOSE" | .event _ _ => "EVENT" | .notice _ => "NOTICE" | .ok _ _ _ _ => "OK"
  | .auth _ => "AUTH" | .count _ _ _ => "COUNT" | .closed _ _ _ => "CLOSED"

def countRecv (label : String) (steps : List PStep) : Nat :=
  steps.countP fun st => match st with | .client _ m => nip01Label m == label | _ => false

def countSent (label : String) (steps : List PStep) : Nat :=
  steps.countP fun st => match st with | .server _ m => nip01SLabel m == label | _ => false

def countKind (k : Int) (steps : List PStep) : Nat :=
  steps.countP fun st => match st with | .client _ (.event e) => e.kind == k | _ => false

/-- a history in which every session's messages lie between its Start and its End, and session ids are
    not reused (they are fresh UUIDs) -/
def WellFormedHist : List PStep → List Nat → List Nat → Prop
  | [], _, _ => True
  | .start s :: rest, live, dead => s ∉ live ∧ s ∉ dead ∧ WellFormedHist rest (s :: live) dead
  | .stop s :: rest, live, dead => s ∈ live ∧ WellFormedHist rest (live.erase s) (s :: dead)
  | .client s _ :: rest, live, dead => s ∈ live ∧ WellFormedHist rest live dead
  | .server s _ :: rest, live, dead => s ∈ live ∧ WellFormedHist rest live dead

end Moc
