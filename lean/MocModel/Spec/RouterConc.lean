/-
  C07 spec for CONCURRENT histories, written from the statement's real-time rule.  A history is a list of stamped
  entries; a send is stamped before it is attempted, a receive after it happened, so `t(recv x) < t(send y)` means x
  really was received before y was sent.

  For a published event E (sent by p at `ts`, its OK received at `to`) and a subscription (c, s):
    an INSTANCE is one REQ(c, s, fs), alive from its send stamp until the send stamp of the next REQ/CLOSE(c, s) (∞);
    MUST     an instance whose EOSE was received before `ts`, still alive after `to`, with fs matching E: exactly one
             delivery of E labelled s to c;
    MUST NOT no instance of (c, s) is alive anywhere in [ts, to] with matching filters, where a CLOSE counts only
             once a later reply to c proves it was processed: no delivery;
    otherwise MAY: at most one delivery per possibly-alive matching instance.
  Also: every REQ is answered by EOSE, every EVENT by an accepting OK; deliveries of one publisher to one
  subscription arrive in publication order.
-/
import MocModel.Router
import MocModel.Spec.Nip01

namespace Moc.RouterConcSpec
open Moc

inductive Msg where
  | c (m : ClientMsg)
  | s (m : ServerMsg)
deriving Repr

structure Entry where
  conn : Nat
  t : Nat
  send : Bool
  msg : Msg
deriving Repr

structure Inst where
  conn : Nat
  sub : String
  fs : List Filter
  tReq : Nat                 -- REQ sent
  tEose : Option Nat         -- its EOSE received
  tEnd : Option Nat          -- next REQ / CLOSE for (conn, sub) sent
  tEndProven : Option Nat    -- a reply received by conn after that REQ/CLOSE was sent: it has been processed
deriving Repr

def sendsOf (h : List Entry) (c : Nat) : List (Nat × ClientMsg) :=
  h.filterMap fun e => if e.conn == c && e.send then (match e.msg with | .c m => some (e.t, m) | _ => none) else none

def recvsOf (h : List Entry) (c : Nat) : List (Nat × ServerMsg) :=
  h.filterMap fun e => if e.conn == c && !e.send then (match e.msg with | .s m => some (e.t, m) | _ => none) else none

/-- direct replies are FIFO per connection: the k-th REQ/EVENT/COUNT sent gets the k-th EOSE/OK/COUNT received -/
def isRequest : ClientMsg → Bool
  | .req _ _ | .event _ | .count _ _ => true
  | _ => false
def isReply : ServerMsg → Bool
  | .eose _ | .ok _ _ _ _ | .count _ _ _ => true
  | _ => false

def replyTimes (h : List Entry) (c : Nat) : List (Nat × ClientMsg × Option (Nat × ServerMsg)) :=
  let reqs := (sendsOf h c).filter (isRequest ·.2)
  let reps := (recvsOf h c).filter (isReply ·.2)
  reqs.zipIdx.map fun ((t, m), i) => (t, m, reps[i]?)

def instances (h : List Entry) (n : Nat) : List Inst :=
  (List.range n).flatMap fun c =>
    let sends := sendsOf h c
    let rts := replyTimes h c
    sends.filterMap fun (t, m) =>
      match m with
      | .req sub fs =>
        let tEose := (rts.find? (fun x => x.1 == t)).bind (fun x => x.2.2.map (·.1))
        let nxt := sends.find? (fun x => x.1 > t && (match x.2 with | .req s _ => s == sub | .close s => s == sub | _ => false))
        let tEnd := nxt.map (·.1)
        -- the end is proven once a reply to a request sent after it has been received
        let proven := tEnd.bind fun te =>
          ((rts.filter (fun x => x.1 > te)).filterMap (fun x => x.2.2.map (·.1))).head?
        some { conn := c, sub := sub, fs := fs, tReq := t, tEose := tEose, tEnd := tEnd, tEndProven := proven }
      | _ => none

structure Fail where
  cls : String
  msg : String

def judge (n : Nat) (h : List Entry) : List Fail :=
  let insts := instances h n
  let pubs : List (Nat × Nat × Option Nat × Event) :=
    (List.range n).flatMap fun p =>
      (replyTimes h p).filterMap fun (t, m, rep) =>
        match m with
        | .event e => some (p, t, rep.map (·.1), e)
        | _ => none
  -- replies
  let replyFails : List Fail :=
    (List.range n).flatMap fun c =>
      (replyTimes h c).filterMap fun (t, m, rep) =>
        match m, rep with
        | .req sub _, some (_, .eose s) => if s == sub then none else some ⟨"reply", s!"REQ {sub} of connection {c} answered by EOSE {s}"⟩
        | .event e, some (_, .ok id acc _ _) => if id == e.id && acc then none else some ⟨"reply", s!"EVENT {e.id} of connection {c} answered by OK {id} {acc}"⟩
        | .count sub _, some (_, .count s _ _) => if s == sub then none else some ⟨"reply", s!"COUNT {sub} answered for {s}"⟩
        | _, none => some ⟨"reply", s!"a request of connection {c} sent at {t} was never answered"⟩
        | _, _ => some ⟨"reply", s!"a request of connection {c} sent at {t} was answered by a reply of another type"⟩
  -- deliveries
  let deliveryFails : List Fail :=
    pubs.flatMap fun (p, ts, to?, e) =>
      (List.range n).flatMap fun c =>
        let got := (recvsOf h c).filterMap fun (t, m) => match m with
          | .event s e' => if e'.id == e.id then some (t, s, e') else none
          | _ => none
        let subsHere := ((insts.filter (·.conn == c)).map (·.sub)).eraseDups
        (got.filterMap fun (_, s, e') =>
          if e' != e then some ⟨"conc-changed", s!"connection {c} received event {e.id} with changed fields"⟩
          else if !(insts.any fun i => i.conn == c && i.sub == s) then some ⟨"conc-label", s!"connection {c} received {e.id} labelled {s}, a subscription id it never requested"⟩
          else none) ++
        subsHere.flatMap fun s =>
          let k := (got.filter (·.2.1 == s)).length
          let mine := insts.filter fun i => i.conn == c && i.sub == s && nip01MatchAnyB i.fs e
          match to? with
          | none => []
          | some to =>
            -- possibly alive somewhere in [ts, to]: requested before `to`, and not provenly ended before `ts`
            let may := mine.filter fun i => i.tReq < to && (match i.tEndProven with | some tp => !(tp < ts) | none => true)
            -- surely alive throughout: EOSE received before ts, not ended before `to`
            let must := mine.filter fun i => (match i.tEose with | some te => te < ts | none => false) &&
              (match i.tEnd with | some te => to < te | none => true)
            (if k > may.length then [⟨"conc-extra", s!"event {e.id} (sent {ts}, OK {to}) was delivered {k} times to ({c}, {s}); at most {may.length} matching instance(s) could be open"⟩] else []) ++
            (if !must.isEmpty && k == 0 then [⟨"conc-missing", s!"event {e.id} (sent {ts}, OK {to}) was not delivered to ({c}, {s}) although its REQ was answered before and not closed until after"⟩] else [])
  -- per-publisher order on every (connection, subscription)
  let orderFails : List Fail :=
    (List.range n).flatMap fun c =>
      let evs := (recvsOf h c).filterMap fun (_, m) => match m with | .event s e => some (s, e.id) | _ => none
      (List.range n).flatMap fun p =>
        let myPubs := (pubs.filter (·.1 == p)).map fun x => x.2.2.2.id
        let subsHere := (evs.map (·.1)).eraseDups
        subsHere.filterMap fun s =>
          let seq := (evs.filter (·.1 == s)).map (·.2) |>.filter myPubs.contains
          -- positions in publication order must be non-decreasing
          let pos := seq.map fun id => (myPubs.idxOf id)
          let rec mono : List Nat → Bool
            | a :: b :: r => a ≤ b && mono (b :: r)
            | _ => true
          if mono pos then none else some ⟨"conc-order", s!"events of publisher {p} reached ({c}, {s}) out of publication order"⟩
  replyFails ++ deliveryFails ++ orderFails

end Moc.RouterConcSpec
