/-
  Specification of the middlewares as C17/C18 state them, written directly from the
  statements (independently of the model's control flow).
-/
import MocModel.Middleware
import MocModel.Spec.Nip01

namespace Moc

/-- a filter's limit is absent or at most `n` -/
def limitLe (o : Option Int) (n : Int) : Bool :=
  match o with
  | some l => decide (l ≤ n)
  | none => true

/-- the message respects the configured limit of a (stateless) limit middleware -/
def withinLimit (mw : Mw) (nowNs : Int) (m : ClientMsg) : Bool :=
  match mw, m with
  | .maxFilters n, .req _ fs => decide ((fs.length : Int) ≤ n)
  | .maxFilters n, .count _ fs => decide ((fs.length : Int) ≤ n)
  | .maxLimit n, .req _ fs => fs.all fun f => limitLe f.limit n
  | .maxLimit n, .count _ fs => fs.all fun f => limitLe f.limit n
  | .maxSubIDLen n, .req sub _ => decide (goLen sub ≤ n)
  | .maxSubIDLen n, .count sub _ => decide (goLen sub ≤ n)
  | .maxEventTags n, .event e => decide ((e.tags.length : Int) ≤ n)
  | .maxContentLen n, .event e => decide (goLen e.content ≤ n)
  | .createdAtLower l, .event e => decide (nowNs - e.createdAt * 1000000000 ≤ l * 1000000000)
  | .createdAtUpper u, .event e => decide (e.createdAt * 1000000000 - nowNs ≤ u * 1000000000)
  | .eventCreatedAt a b, .event e => decide (a ≤ e.createdAt * 1000000000 - nowNs) && decide (e.createdAt * 1000000000 - nowNs ≤ b)
  | .allow fs, .event e => nip01MatchAnyB fs e
  | .deny fs, .event e => !nip01MatchAnyB fs e
  | _, _ => true

def Mw.stateless : Mw → Bool
  | .maxSubs _ | .recvUnique _ | .sendUnique _ => false
  | _ => true

/-- "the protocol's rejection for its type": OK false with the event's id, CLOSED with the subscription id -/
def isRejectionFor (m : ClientMsg) (r : ServerMsg) : Bool :=
  match m, r with
  | .event e, .ok id false _ _ => id == e.id
  | .req s _, .closed s' _ _ => s == s'
  | .count s _, .closed s' _ _ => s == s'
  | _, _ => false

/-- the last `size` distinct ids of a history (oldest first), by most recent occurrence -/
def recentWindow (size : Nat) (hist : List String) : List String :=
  (hist.reverse.eraseDups).take size

/-- spec state of one middleware for one session -/
structure SpecSt where
  openSubs : List String := []   -- subscription ids open downstream (quota)
  hist : List String := []       -- event ids seen so far by a unique filter, oldest first
deriving DecidableEq, Repr

/-- should this middleware let the client message through? (and the new spec state) -/
def specClient (mw : Mw) (st : SpecSt) (nowNs : Int) (m : ClientMsg) : SpecSt × Bool :=
  match mw, m with
  | .maxSubs n, .req sub _ =>
    if st.openSubs.contains sub || decide ((st.openSubs.length : Int) < n) then
      ({ st with openSubs := if st.openSubs.contains sub then st.openSubs else sub :: st.openSubs }, true)
    else (st, false)
  | .maxSubs _, .close sub => ({ st with openSubs := st.openSubs.erase sub }, true)
  | .recvUnique size, .event e =>
    ({ st with hist := st.hist ++ [e.id] }, !(recentWindow size st.hist).contains e.id)
  | mw, m => (st, withinLimit mw nowNs m)

def specServer (mw : Mw) (st : SpecSt) (m : ServerMsg) : SpecSt × Bool :=
  match mw, m with
  | .sendUnique size, .event _ e =>
    ({ st with hist := st.hist ++ [e.id] }, !(recentWindow size st.hist).contains e.id)
  | _, _ => (st, true)

/-- outermost first; returns whether the message must reach the handler -/
def specChainClient : List (Mw × SpecSt) → Int → ClientMsg → List (Mw × SpecSt) × Bool
  | [], _, _ => ([], true)
  | (mw, st) :: rest, now, m =>
    match specClient mw st now m with
    | (st', false) => ((mw, st') :: rest, false)
    | (st', true) =>
      let (rest', ok) := specChainClient rest now m
      ((mw, st') :: rest', ok)

def specChainServer : List (Mw × SpecSt) → ServerMsg → List (Mw × SpecSt) × Bool
  | [], _ => ([], true)
  | (mw, st) :: rest, m =>
    match specChainServer rest m with
    | (rest', false) => ((mw, st) :: rest', false)
    | (rest', true) =>
      let (st', ok) := specServer mw st m
      ((mw, st') :: rest', ok)

end Moc
