/-
  The NIP-01 filter predicate, as the property C02 states it: every present condition
  must hold, absent conditions do not constrain, an empty list matches nothing, a filter
  list matches when any member matches.  Independent of the model's data structures.
-/
import MocModel.Basic

namespace Moc

/-- event `e` carries a tag named `k` whose value is listed in `vs` -/
def hasTag (e : Event) (k : String) (vs : List String) : Prop :=
  ∃ t ∈ e.tags, tagName? t = some k ∧ tagValue t ∈ vs

def nip01Match (f : Filter) (e : Event) : Prop :=
  (∀ l, f.ids = some l → e.id ∈ l) ∧
  (∀ l, f.authors = some l → e.pubkey ∈ l) ∧
  (∀ l, f.kinds = some l → e.kind ∈ l) ∧
  (∀ l, f.tags = some l → ∀ c ∈ l, hasTag e c.1 c.2) ∧
  (∀ s, f.since = some s → s ≤ e.createdAt) ∧
  (∀ u, f.until_ = some u → e.createdAt ≤ u)

/-- executable form (the monitor) -/
def hasTagB (e : Event) (k : String) (vs : List String) : Bool :=
  e.tags.any fun t => tagName? t == some k && vs.contains (tagValue t)

def tagsOkB (o : Option (List (String × List String))) (e : Event) : Bool :=
  match o with
  | some l => l.all (fun c => hasTagB e c.1 c.2)
  | none => true

def sinceOkB (o : Option Int) (c : Int) : Bool :=
  match o with
  | some s => decide (s ≤ c)
  | none => true

def untilOkB (o : Option Int) (c : Int) : Bool :=
  match o with
  | some u => decide (c ≤ u)
  | none => true

def nip01MatchB (f : Filter) (e : Event) : Bool :=
  listedOr true f.ids e.id && listedOr true f.authors e.pubkey && listedOr true f.kinds e.kind &&
  tagsOkB f.tags e && sinceOkB f.since e.createdAt && untilOkB f.until_ e.createdAt

def nip01MatchAny (fs : List Filter) (e : Event) : Prop := ∃ f ∈ fs, nip01Match f e
def nip01MatchAnyB (fs : List Filter) (e : Event) : Bool := fs.any (nip01MatchB · e)

end Moc
