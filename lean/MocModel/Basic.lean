/-
  Shared types of the mocrelay model (core-only: no Mathlib, so that the
  driver can be linked as a `lean_exe`).

  Go `int64`  ↦ `Int`   (width matters nowhere in the modelled decision logic;
                         the places where it does are modelled explicitly)
  Go `nil` slice / map / pointer ↦ `none`
  Go `map[string][]string` ↦ association list; "keys are distinct" is the explicit
                         predicate `Filter.WF`.
-/
import Lean.Data.Json

namespace Moc

structure Event where
  id        : String
  pubkey    : String
  createdAt : Int
  kind      : Int
  tags      : List (List String)
  content   : String
  sig       : String
deriving DecidableEq, Repr, Inhabited

structure Filter where
  ids     : Option (List String) := none
  authors : Option (List String) := none
  kinds   : Option (List Int) := none
  tags    : Option (List (String × List String)) := none
  since   : Option Int := none
  until_  : Option Int := none
  limit   : Option Int := none
deriving DecidableEq, Repr, Inhabited

/-- Go map semantics: every key occurs once. -/
def Filter.WF (f : Filter) : Prop :=
  ∀ l, f.tags = some l → (l.map Prod.fst).Nodup

instance (f : Filter) : Decidable f.WF := by
  unfold Filter.WF
  cases h : f.tags with
  | none => exact isTrue (by intro l hl; cases hl)
  | some l =>
    by_cases hn : (l.map Prod.fst).Nodup
    · exact isTrue (by intro l' hl'; cases hl'; exact hn)
    · exact isFalse (by intro hc; exact hn (hc l rfl))

/-- second element of a tag, `""` when absent (`Tag.Value`, and the inline idiom
    `if len(tag) >= 2 { v = tag[1] }` used all over the code base). -/
def tagValue : List String → String
  | _ :: v :: _ => v
  | _ => ""

def tagName? : List String → Option String
  | k :: _ => some k
  | [] => none

/-- membership test against an optional list (`dflt` when the list is absent/nil).
    Named (rather than an inline `match`) so that model, spec and lemmas share one constant. -/
def listedOr {α} [BEq α] (dflt : Bool) (o : Option (List α)) (x : α) : Bool :=
  match o with
  | some l => l.contains x
  | none => dflt

/-- outcome of a Go function that may panic -/
inductive Res (α : Type) where
  | ok (a : α)
  | panic
deriving DecidableEq, Repr

inductive EventType where
  | regular | replaceable | ephemeral | addressable
deriving DecidableEq, Repr

inductive ClientMsg where
  | event (e : Event)
  | req (sub : String) (fs : List Filter)
  | close (sub : String)
  | auth (e : Event)
  | count (sub : String) (fs : List Filter)
deriving DecidableEq, Repr, Inhabited

inductive ServerMsg where
  | eose (sub : String)
  | event (sub : String) (e : Event)
  | notice (msg : String)
  | ok (id : String) (accepted : Bool) (pfx : String) (msg : String)
  | auth (challenge : String)
  | count (sub : String) (n : Nat) (approx : Option Bool)
  | closed (sub : String) (pfx : String) (msg : String)
deriving DecidableEq, Repr, Inhabited

end Moc
