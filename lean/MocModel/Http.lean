/-
  Model of server.go (`ServeMux.ServeHTTP`), nip11.go (`NIP11.ServeHTTP`, `Nip11Kind` (un)marshal) — C20.
-/
import MocModel.JTree
import MocModel.Gen.Http

namespace Moc

inductive Target where
  | relay | nip11Doc | emptyDoc | dflt | greeting
deriving DecidableEq, Repr

/-- `ServeMux.ServeHTTP`; `Header.Get` of an absent header is `""` -/
def route (upgrade accept : String) (hasNip11 hasDefault : Bool) : Target :=
  if Gen.muxToRelay upgrade then .relay
  else if Gen.muxToNip11 accept then (if Gen.muxNoNip11 (!hasNip11) then .emptyDoc else .nip11Doc)
  else (if Gen.muxNoDefault (!hasDefault) then .greeting else .dflt)

/-- `NIP11.ServeHTTP` answers the document (with the two headers) unless the Accept header is wrong -/
def nip11Answers (accept : String) : Bool := !Gen.nip11BadAccept accept

def nip11Headers : List (String × String) :=
  [(Gen.nip11Header0Key, Gen.nip11Header0Val), (Gen.nip11Header1Key, Gen.nip11Header1Val)]

structure Kind where
  from_ : Int
  to : Int
deriving DecidableEq, Repr

/-- `Nip11Kind.MarshalJSON` -/
def marshalKind (k : Kind) : JT :=
  if Gen.kindSingle k.from_ k.to then .int k.from_ else .arr [.int k.from_, .int k.to]

/-- `Nip11Kind.UnmarshalJSON` (numbers through `json.Number.Int64()`: integer literal in int64 range) -/
def unmarshalKind (j : JT) : Except String Kind :=
  match j with
  | .int i => if inInt64 i then .ok ⟨i, i⟩ else .error "out of range"
  | .numBad _ => .error "not an integer"
  | .arr a =>
    if Gen.kindPairLenBad a.length then .error "expected 2 elements"
    else match a with
      | [.int f, .int t] => if inInt64 f && inInt64 t then .ok ⟨f, t⟩ else .error "out of range"
      | _ => .error "expected number"
  | _ => .ok ⟨0, 0⟩   -- the type switch has no default: any other JSON value yields the zero kind

end Moc
