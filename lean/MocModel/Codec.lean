/-
  Model of the wire codec of message.go on JSON trees (C10, and the parsing half of C11, C12):
  `Event.UnmarshalJSON`, `ReqFilter.UnmarshalJSON`, the 5 client and 7 server message decoders,
  `parseMachineReadablePrefixMsg`, `ParseClientMsg`'s label regexp, and the encoders.

  Go's typed decoding rules the code relies on are modelled where they matter:
    * a `string` target accepts a JSON string, and `null` as a no-op (zero value "");
    * a `[]string` target accepts an array of strings/nulls (null ↦ ""), `null` ↦ nil slice;
    * a `bool` target accepts a boolean, `null` as a no-op;
    * a `map[string]any` target keeps the LAST value of a repeated key;
    * struct targets match keys case-insensitively; `DisallowUnknownFields` rejects the rest.
  Arities, labels, key tests and prefix constants are regenerated (`Gen/Codec.lean`, `Gen/Consts.lean`).
-/
import MocModel.JTree
import MocModel.Gen.Codec

namespace Moc

abbrev DecE := Except String

/-! ### primitive targets -/

def decStr : JT → DecE String
  | .str s => .ok s
  | .null => .ok ""
  | _ => .error "not a string"

def decBool : JT → DecE Bool
  | .bool b => .ok b
  | .null => .ok false
  | _ => .error "not a boolean"

/-- elements of a `[]string` target -/
def decStrsLoose : List JT → DecE (List String)
  | [] => .ok []
  | .str s :: r => (decStrsLoose r).map (s :: ·)
  | .null :: r => (decStrsLoose r).map ("" :: ·)
  | _ => .error "not a string array"

/-- `json.Unmarshal(b, &elems)` with `elems []string` -/
def decStrArray : JT → DecE (List String)
  | .arr a => decStrsLoose a
  | .null => .ok []
  | _ => .error "not a json array"

/-- `json.Unmarshal(b, &elems)` with `elems []json.RawMessage` -/
def decRawArray : JT → DecE (List JT)
  | .arr a => .ok a
  | .null => .ok []
  | _ => .error "not a json array"

/-- strict: `anySliceAs[string]` — every element must be a JSON string -/
def decStrsStrict : List JT → DecE (List String)
  | [] => .ok []
  | .str s :: r => (decStrsStrict r).map (s :: ·)
  | _ => .error "not a string json array"

def decStrLists : List JT → DecE (List (List String))
  | [] => .ok []
  | .arr a :: r => do
    let t ← decStrsStrict a
    let ts ← decStrLists r
    pure (t :: ts)
  | _ => .error "not an array of json arrays"

/-- `json.Number.Int64()` -/
def decInt64 : JT → DecE Int
  | .int i => if inInt64 i then .ok i else .error "integer out of range"
  | .numBad _ => .error "not an integer"
  | _ => .error "not a json number"

def decInts : List JT → DecE (List Int)
  | [] => .ok []
  | j :: r => do
    let i ← decInt64 j
    let is ← decInts r
    pure (i :: is)

/-- value of key `k` in a Go `map[string]any` decoded from an object: the last occurrence wins -/
def objGet (kvs : List (String × JT)) (k : String) : Option JT := kvs.reverse.lookup k

def objKeys (kvs : List (String × JT)) : List String := (kvs.map Prod.fst).eraseDups

/-! ### Event -/

def decodeEvent : JT → DecE Event
  | .obj kvs =>
    if Gen.eventFieldCountBad (objKeys kvs).length then .error "missing or extra fields"
    else
      match objGet kvs "id", objGet kvs "pubkey", objGet kvs "created_at", objGet kvs "kind",
            objGet kvs "tags", objGet kvs "content", objGet kvs "sig" with
      | some (.str id), some (.str pk), some ca, some kd, some (.arr tags), some (.str content), some (.str sig) => do
        let createdAt ← decInt64 ca
        let kind ← decInt64 kd
        let tags ← decStrLists tags
        pure { id := id, pubkey := pk, createdAt := createdAt, kind := kind, tags := tags, content := content, sig := sig }
      | _, _, _, _, _, _, _ => .error "field missing or of the wrong type"
  | .null => .error "missing fields"
  | _ => .error "not a json object"

def encodeEvent (e : Event) : JT :=
  .obj [("id", .str e.id), ("pubkey", .str e.pubkey), ("created_at", .int e.createdAt), ("kind", .int e.kind),
        ("tags", .arr (e.tags.map fun t => .arr (t.map .str))), ("content", .str e.content), ("sig", .str e.sig)]

/-! ### ReqFilter -/

/-- the `i`-th byte of the UTF-8 encoding of `s` (0 beyond the end) -/
def strByte (s : String) (i : Nat) : Int := ((((s.toList.flatMap String.utf8EncodeChar).getD i 0).toNat : Nat) : Int)

def isTagKey (k : String) : Bool := Gen.filterKeyTag k.utf8ByteSize (strByte k 0) (strByte k 1)

def knownFilterKey (k : String) : Bool :=
  Gen.filterKeyIds k || Gen.filterKeyAuthors k || Gen.filterKeyKinds k || isTagKey k ||
  Gen.filterKeySince k || Gen.filterKeyUntil k || Gen.filterKeyLimit k

def decOptStrs (kvs : List (String × JT)) (k : String) : DecE (Option (List String)) :=
  match objGet kvs k with
  | none => .ok none
  | some (.arr a) => (decStrsStrict a).map some
  | some _ => .error s!"{k} is not a json array"

def decOptInts (kvs : List (String × JT)) (k : String) : DecE (Option (List Int)) :=
  match objGet kvs k with
  | none => .ok none
  | some (.arr a) => (decInts a).map some
  | some _ => .error s!"{k} is not a json array"

def decOptInt (kvs : List (String × JT)) (k : String) : DecE (Option Int) :=
  match objGet kvs k with
  | none => .ok none
  | some j => (decInt64 j).map some

def decTagConds (kvs : List (String × JT)) : List String → DecE (List (String × List String))
  | [] => .ok []
  | k :: ks =>
    match objGet kvs k with
    | some (.arr a) => do
      let vs ← decStrsStrict a
      let rest ← decTagConds kvs ks
      pure ((String.ofList (k.toList.drop 1), vs) :: rest)
    | _ => .error s!"{k} is not a json array"

def decodeFilter : JT → DecE Filter
  | .null => .ok {}                       -- `bytes.Equal(b, nullJSON)`: no-op
  | .obj kvs =>
    if !(objKeys kvs).all knownFilterKey then .error "contains invalid member"
    else do
      let ids ← decOptStrs kvs "ids"
      let authors ← decOptStrs kvs "authors"
      let kinds ← decOptInts kvs "kinds"
      let tagKeys := (objKeys kvs).filter isTagKey
      let tags ← decTagConds kvs tagKeys
      let since ← decOptInt kvs "since"
      let until_ ← decOptInt kvs "until"
      let limit ← decOptInt kvs "limit"
      pure { ids := ids, authors := authors, kinds := kinds,
             tags := if tagKeys.isEmpty then none else some tags,
             since := since, until_ := until_, limit := limit }
  | _ => .error "not a json object"

/-- `ReqFilter.MarshalJSON` (members in the order Go's map encoder emits them: sorted by key) -/
def encodeFilter (f : Filter) : JT :=
  .obj (
    (match f.tags with | some l => l.map (fun c => ("#" ++ c.1, JT.arr (c.2.map .str))) | none => []) ++
    (match f.authors with | some l => [("authors", JT.arr (l.map .str))] | none => []) ++
    (match f.ids with | some l => [("ids", JT.arr (l.map .str))] | none => []) ++
    (match f.kinds with | some l => [("kinds", JT.arr (l.map .int))] | none => []) ++
    (match f.limit with | some i => [("limit", JT.int i)] | none => []) ++
    (match f.since with | some i => [("since", JT.int i)] | none => []) ++
    (match f.until_ with | some i => [("until", JT.int i)] | none => []))

def decFilters : List JT → DecE (List Filter)
  | [] => .ok []
  | j :: r => do
    let f ← decodeFilter j
    let fs ← decFilters r
    pure (f :: fs)

/-! ### machine-readable prefixes -/

def knownPrefixes : List String :=
  [Gen.prefixPoW, Gen.prefixDuplicate, Gen.prefixBlocked, Gen.prefixRateLimited, Gen.prefixInvalid, Gen.prefixError]

/-- `parseMachineReadablePrefixMsg`: the first known prefix (in the order of the switch) that the text starts with -/
def parsePrefix (msg : String) : String × String :=
  match knownPrefixes.find? (fun p => p.toList.isPrefixOf msg.toList) with
  | some p => (p, String.ofList (msg.toList.drop p.toList.length))
  | none => ("", msg)

/-- the order of the `switch` cases, as regenerated text -/
def prefixOrderActual : List String :=
  [Gen.prefixOrder, Gen.prefixOrder1, Gen.prefixOrder2, Gen.prefixOrder3, Gen.prefixOrder4, Gen.prefixOrder5]
def prefixOrderExpected : List String :=
  ["strings.HasPrefix(msg, MachineReadablePrefixPoW)", "strings.HasPrefix(msg, MachineReadablePrefixDuplicate)",
   "strings.HasPrefix(msg, MachineReadablePrefixBlocked)", "strings.HasPrefix(msg, MachineReadablePrefixRateLimited)",
   "strings.HasPrefix(msg, MachineReadablePrefixInvalid)", "strings.HasPrefix(msg, MachineReadablePrefixError)"]

/-! ### client messages -/

def decodeClientEvent (j : JT) : DecE ClientMsg := do
  let elems ← decRawArray j
  if Gen.arityClientEvent elems.length then throw "client event msg length must be 2"
  let label ← decStr (elems.getD 0 .null)
  if Gen.labelBadClientEvent label then throw "bad label"
  let e ← decodeEvent (elems.getD 1 .null)
  pure (.event e)

def decodeClientAuth (j : JT) : DecE ClientMsg := do
  let elems ← decRawArray j
  if Gen.arityClientAuth elems.length then throw "auth msg length must be 2"
  let label ← decStr (elems.getD 0 .null)
  if Gen.labelBadClientAuth label then throw "bad label"
  let e ← decodeEvent (elems.getD 1 .null)
  pure (.auth e)

def decodeClientReq (j : JT) : DecE ClientMsg := do
  let elems ← decRawArray j
  if Gen.arityClientReq elems.length then throw "client req msg length must be 3 or more"
  let label ← decStr (elems.getD 0 .null)
  if Gen.labelBadClientReq label then throw "bad label"
  let sub ← decStr (elems.getD 1 .null)
  let fs ← decFilters (elems.drop 2)
  pure (.req sub fs)

def decodeClientCount (j : JT) : DecE ClientMsg := do
  let elems ← decRawArray j
  if Gen.arityClientCount elems.length then throw "client count msg length must be 3 or more"
  let label ← decStr (elems.getD 0 .null)
  if Gen.labelBadClientCount label then throw "bad label"
  let sub ← decStr (elems.getD 1 .null)
  let fs ← decFilters (elems.drop 2)
  pure (.count sub fs)

def decodeClientClose (j : JT) : DecE ClientMsg := do
  let elems ← decStrArray j
  if Gen.arityClientClose elems.length then throw "client close msg length must be 2"
  if Gen.labelBadClientClose (elems.getD 0 "") then throw "bad label"
  pure (.close (elems.getD 1 ""))

/-- the regexp `^\s*\[\s*"(\w*)"` on the raw text: optional white space, `[`, optional white space, a quoted
    run of word characters.  (`\s` = [\t\n\f\r ], `\w` = [0-9A-Za-z_], Go RE2 syntax.) -/
def isReSpace (c : Char) : Bool := c == '\t' || c == '\n' || c == '\x0c' || c == '\r' || c == ' '
def isReWord (c : Char) : Bool := c.isAlphanum || c == '_'

def labelOfChars (cs : List Char) : Option (List Char) :=
  match cs.dropWhile isReSpace with
  | '[' :: r =>
    match r.dropWhile isReSpace with
    | '"' :: r' =>
      let w := r'.takeWhile isReWord
      match r'.dropWhile isReWord with
      | '"' :: _ => some w
      | _ => none
    | _ => none
  | _ => none

def labelOf (text : String) : Option String := (labelOfChars text.toList).map String.ofList

/-- the pattern the hand-written `labelOfChars` implements -/
def clientMsgRegexpExpected : String := "^\\s*\\[\\s*\"(\\w*)\""

/-- `ParseClientMsg`: dispatch on the label found by the regexp in the raw text, then decode the tree -/
def parseClientMsg (text : String) (tree : JT) : DecE ClientMsg :=
  match labelOf text with
  | none => .error "not a client msg"
  | some l =>
    if l == Gen.labelEvent then decodeClientEvent tree
    else if l == Gen.labelReq then decodeClientReq tree
    else if l == Gen.labelClose then decodeClientClose tree
    else if l == Gen.labelAuth then decodeClientAuth tree
    else if l == Gen.labelCount then decodeClientCount tree
    else .error "unknown client msg"

/-- the source text of `ParseClientMsg` (regexp match, dispatch on the label to the `UnmarshalJSON` of each type) that
    `parseClientMsg` follows -/
def parseClientMsgExpected : String := "{ match := clientMsgRegexp.FindSubmatch(b) if len(match) == 0 { return nil, errors.New(\"not a client msg\") } switch string(match[1]) { case MsgLabelEvent: var ret ClientEventMsg if err := ret.UnmarshalJSON(b); err != nil { return nil, fmt.Errorf(\"failed to parse client msg: %w\", err) } return &ret, nil case MsgLabelReq: var ret ClientReqMsg if err := ret.UnmarshalJSON(b); err != nil { return nil, fmt.Errorf(\"failed to parse client msg: %w\", err) } return &ret, nil case MsgLabelClose: var ret ClientCloseMsg if err := ret.UnmarshalJSON(b); err != nil { return nil, fmt.Errorf(\"failed to parse client msg: %w\", err) } return &ret, nil case MsgLabelAuth: var ret ClientAuthMsg if err := ret.UnmarshalJSON(b); err != nil { return nil, fmt.Errorf(\"failed to parse client msg: %w\", err) } return &ret, nil case MsgLabelCount: var ret ClientCountMsg if err := ret.UnmarshalJSON(b); err != nil { return nil, fmt.Errorf(\"failed to parse client msg: %w\", err) } return &ret, nil default: return nil, errors.New(\"unknown client msg\") } }"

def encodeClientMsg : ClientMsg → JT
  | .event e => .arr [.str Gen.labelEvent, encodeEvent e]
  | .req sub fs => .arr (.str Gen.labelReq :: .str sub :: fs.map encodeFilter)
  | .close sub => .arr [.str Gen.labelClose, .str sub]
  | .auth e => .arr [.str Gen.labelAuth, encodeEvent e]
  | .count sub fs => .arr (.str Gen.labelCount :: .str sub :: fs.map encodeFilter)

/-! ### server messages -/

def decodeServerEOSE (j : JT) : DecE ServerMsg := do
  let elems ← decStrArray j
  if Gen.arityServerEOSE elems.length then throw "length"
  if Gen.labelBadServerEOSE (elems.getD 0 "") then throw "bad label"
  pure (.eose (elems.getD 1 ""))

def decodeServerNotice (j : JT) : DecE ServerMsg := do
  let elems ← decStrArray j
  if Gen.arityServerNotice elems.length then throw "length"
  if Gen.labelBadServerNotice (elems.getD 0 "") then throw "bad label"
  pure (.notice (elems.getD 1 ""))

def decodeServerAuth (j : JT) : DecE ServerMsg := do
  let elems ← decStrArray j
  if Gen.arityServerAuth elems.length then throw "length"
  if Gen.labelBadServerAuth (elems.getD 0 "") then throw "bad label"
  pure (.auth (elems.getD 1 ""))

def decodeServerClosed (j : JT) : DecE ServerMsg := do
  let elems ← decStrArray j
  if Gen.arityServerClosed elems.length then throw "length"
  if Gen.labelBadServerClosed (elems.getD 0 "") then throw "bad label"
  let (p, m) := parsePrefix (elems.getD 2 "")
  pure (.closed (elems.getD 1 "") p m)

def decodeServerEvent (j : JT) : DecE ServerMsg := do
  let elems ← decRawArray j
  if Gen.arityServerEvent elems.length then throw "length"
  let label ← decStr (elems.getD 0 .null)
  if Gen.labelBadServerEvent label then throw "bad label"
  let sub ← decStr (elems.getD 1 .null)
  let e ← decodeEvent (elems.getD 2 .null)
  pure (.event sub e)

def decodeServerOK (j : JT) : DecE ServerMsg := do
  let elems ← decRawArray j
  if Gen.arityServerOK elems.length then throw "length"
  let label ← decStr (elems.getD 0 .null)
  if Gen.labelBadServerOK label then throw "bad label"
  let id ← decStr (elems.getD 1 .null)
  let acc ← decBool (elems.getD 2 .null)
  let raw ← decStr (elems.getD 3 .null)
  let (p, m) := parsePrefix raw
  pure (.ok id acc p m)

/-- the payload struct `{Count uint64 "count"; Approximate *bool "approximate,omitempty"}` decoded with
    `DisallowUnknownFields`: members are applied in order (a later one overwrites), keys match
    case-insensitively, `null` is a no-op for `count` and sets `approximate` to nil -/
def lowerStr (s : String) : String := String.ofList (s.toList.map Char.toLower)

def decCountVal : JT → Nat → DecE Nat
  | .int i, _ => if 0 ≤ i && i ≤ uint64Max then .ok i.toNat else .error "count out of range"
  | .null, n => .ok n
  | _, _ => .error "count is not an unsigned integer"

def decApproxVal : JT → DecE (Option Bool)
  | .bool b => .ok (some b)
  | .null => .ok none
  | _ => .error "approximate is not a boolean"

def decCountPayload : List (String × JT) → Nat × Option Bool → DecE (Nat × Option Bool)
  | [], acc => .ok acc
  | (k, v) :: r, (n, a) =>
    if lowerStr k == "count" then (decCountVal v n).bind fun n' => decCountPayload r (n', a)
    else if lowerStr k == "approximate" then (decApproxVal v).bind fun a' => decCountPayload r (n, a')
    else .error "unknown field"

def decodeServerCount (j : JT) : DecE ServerMsg := do
  let elems ← decRawArray j
  if Gen.arityServerCount elems.length then throw "length"
  let label ← decStr (elems.getD 0 .null)
  if Gen.labelBadServerCount label then throw "bad label"
  let sub ← decStr (elems.getD 1 .null)
  let (n, a) ← (match elems.getD 2 .null with
    | .obj kvs => decCountPayload kvs (0, none)
    | .null => .ok (0, none)
    | _ => .error "payload is not an object")
  pure (.count sub n a)

def encodeServerMsg : ServerMsg → JT
  | .eose sub => .arr [.str Gen.labelEOSE, .str sub]
  | .event sub e => .arr [.str Gen.labelEvent, .str sub, encodeEvent e]
  | .notice m => .arr [.str Gen.labelNotice, .str m]
  | .ok id acc p m => .arr [.str Gen.labelOK, .str id, .bool acc, .str (p ++ m)]
  | .auth c => .arr [.str Gen.labelAuth, .str c]
  | .count sub n a =>
    .arr [.str Gen.labelCount, .str sub,
      .obj (("count", .int n) :: (match a with | some b => [("approximate", JT.bool b)] | none => []))]
  | .closed sub p m => .arr [.str Gen.labelClosed, .str sub, .str (p ++ m)]

/-- decoder by the Go type the text is unmarshalled into -/
def decodeServerAs (t : String) (j : JT) : DecE ServerMsg :=
  match t with
  | "EOSE" => decodeServerEOSE j
  | "EVENT" => decodeServerEvent j
  | "NOTICE" => decodeServerNotice j
  | "OK" => decodeServerOK j
  | "AUTH" => decodeServerAuth j
  | "COUNT" => decodeServerCount j
  | "CLOSED" => decodeServerClosed j
  | _ => .error "unknown type"

def decodeClientAs (t : String) (j : JT) : DecE ClientMsg :=
  match t with
  | "EVENT" => decodeClientEvent j
  | "REQ" => decodeClientReq j
  | "CLOSE" => decodeClientClose j
  | "AUTH" => decodeClientAuth j
  | "COUNT" => decodeClientCount j
  | _ => .error "unknown type"

end Moc
