/-
  Model of the middlewares of handler.go (C17, C18): one decision function per middleware,
  built from the conditions and message texts regenerated into `Gen/Mw.lean`; the
  `NewSimpleMiddleware` plumbing as a chain; `BuildMiddlewareFromNIP11`.
-/
import MocModel.Matcher
import MocModel.Gen.Mw

namespace Moc

inductive Mw where
  | maxSubs (n : Int)
  | maxFilters (n : Int)
  | maxLimit (n : Int)
  | maxSubIDLen (n : Int)
  | maxEventTags (n : Int)
  | maxContentLen (n : Int)
  | createdAtLower (sec : Int)
  | createdAtUpper (sec : Int)
  | eventCreatedAt (fromNs toNs : Int)
  | allow (fs : List Filter)
  | deny (fs : List Filter)
  | recvUnique (size : Nat)
  | sendUnique (size : Nat)
deriving DecidableEq, Repr

/-- per-session state of one middleware -/
structure MwSt where
  subs : List String := []   -- MaxSubscriptions: the Go map `v.subs` (distinct ids)
  lru  : List String := []   -- unique filters: hashicorp LRU, most recent first
deriving DecidableEq, Repr

inductive Dec where
  | fwd (m : ClientMsg)
  | reject (r : ServerMsg)
deriving DecidableEq, Repr

/-- `fmt.Sprintf` with a single `%d` -/
def fmtD (fmt : String) (n : Int) : String := fmt.replace "%d" (toString n)

/-- Go `len(s)` of a string: bytes -/
def goLen (s : String) : Int := s.utf8ByteSize

def matchB (fs : List Filter) (e : Event) : Bool :=
  match matchAny fs e with
  | .ok b => b
  | .panic => false

/-! ### hashicorp/golang-lru (simple LRU), hand-modelled library contract:
    `Get` promotes a hit to most-recent; `Add` of a new key pushes it and evicts the least
    recent one beyond `size`; `Add` of a present key promotes it. -/

def lruGet (l : List String) (k : String) : List String × Bool :=
  if l.contains k then (k :: l.erase k, true) else (l, false)

def lruAdd (size : Nat) (l : List String) (k : String) : List String :=
  if l.contains k then k :: l.erase k else (k :: l).take size

/-- `ServeNostrClientMsg` of each middleware base -/
def Mw.client (mw : Mw) (st : MwSt) (nowNs : Int) (m : ClientMsg) : MwSt × Dec :=
  match mw, m with
  | .maxSubs n, .req sub _ =>
    let subs' := if st.subs.contains sub then st.subs else sub :: st.subs
    if Gen.maxSubsReject subs'.length n then
      ({ st with subs := subs'.erase sub }, .reject (.closed sub "" (fmtD Gen.maxSubsFmt n)))
    else ({ st with subs := subs' }, .fwd m)
  | .maxSubs _, .close sub => ({ st with subs := st.subs.erase sub }, .fwd m)
  | .maxFilters n, .req sub fs =>
    if Gen.maxFiltersReq fs.length n then (st, .reject (.closed sub "" (fmtD Gen.maxFiltersReqFmt n))) else (st, .fwd m)
  | .maxFilters n, .count sub fs =>
    if Gen.maxFiltersCount fs.length n then (st, .reject (.closed sub "" (fmtD Gen.maxFiltersCountFmt n))) else (st, .fwd m)
  | .maxLimit n, .req sub fs =>
    if fs.any (fun f => Gen.maxLimitReq f.limit.isSome (f.limit.getD 0) n) then
      (st, .reject (.closed sub "" (fmtD Gen.maxLimitReqFmt n))) else (st, .fwd m)
  | .maxLimit n, .count sub fs =>
    if fs.any (fun f => Gen.maxLimitCount f.limit.isSome (f.limit.getD 0) n) then
      (st, .reject (.closed sub "" (fmtD Gen.maxLimitCountFmt n))) else (st, .fwd m)
  | .maxSubIDLen n, .req sub _ =>
    if Gen.maxSubIDReq (goLen sub) n then (st, .reject (.closed sub "" (fmtD Gen.maxSubIDReqFmt n))) else (st, .fwd m)
  | .maxSubIDLen n, .count sub _ =>
    if Gen.maxSubIDCount (goLen sub) n then (st, .reject (.closed sub "" (fmtD Gen.maxSubIDCountFmt n))) else (st, .fwd m)
  | .maxEventTags n, .event e =>
    if Gen.maxEventTags e.tags.length n then (st, .reject (.ok e.id false "" (fmtD Gen.maxEventTagsFmt n))) else (st, .fwd m)
  | .maxContentLen n, .event e =>
    if Gen.maxContentLen (goLen e.content) n then (st, .reject (.ok e.id false "" (fmtD Gen.maxContentLenFmt n))) else (st, .fwd m)
  | .createdAtLower l, .event e =>
    if Gen.createdAtLower nowNs e.createdAt l then (st, .reject (.ok e.id false "" Gen.createdAtLowerMsg)) else (st, .fwd m)
  | .createdAtUpper u, .event e =>
    if Gen.createdAtUpper nowNs e.createdAt u then (st, .reject (.ok e.id false "" Gen.createdAtUpperMsg)) else (st, .fwd m)
  | .eventCreatedAt fromNs toNs, .event e =>
    if Gen.eventCreatedAtOld nowNs e.createdAt fromNs then (st, .reject (.ok e.id false "" Gen.eventCreatedAtOldMsg))
    else if Gen.eventCreatedAtFar nowNs e.createdAt toNs then (st, .reject (.ok e.id false "" Gen.eventCreatedAtFarMsg))
    else (st, .fwd m)
  | .allow fs, .event e =>
    if Gen.allowReject (matchB fs e) then (st, .reject (.ok e.id false Gen.allowPrefix Gen.allowMsg)) else (st, .fwd m)
  | .deny fs, .event e =>
    if Gen.denyReject (matchB fs e) then (st, .reject (.ok e.id false Gen.denyPrefix Gen.denyMsg)) else (st, .fwd m)
  | .recvUnique size, .event e =>
    let (l', found) := lruGet st.lru e.id
    if Gen.recvUniqueReject found then ({ st with lru := l' }, .reject (.ok e.id false Gen.recvUniquePrefix Gen.recvUniqueMsg))
    else ({ st with lru := lruAdd size l' e.id }, .fwd m)
  | _, _ => (st, .fwd m)

/-- `ServeNostrServerMsg` of each middleware base (`none` = the message is dropped) -/
def Mw.server (mw : Mw) (st : MwSt) (m : ServerMsg) : MwSt × Option ServerMsg :=
  match mw, m with
  | .sendUnique size, .event _ e =>
    let (l', found) := lruGet st.lru e.id
    if Gen.sendUniqueDrop found then ({ st with lru := l' }, none)
    else ({ st with lru := lruAdd size l' e.id }, some m)
  | _, _ => (st, some m)

/-- what reaches the next stage for one client message -/
inductive ChainOut where
  | fwd (m : ClientMsg)                 -- reaches the wrapped handler
  | reply (r : Option ServerMsg)        -- a rejection travelling back to the client (`none`: swallowed on the way)
deriving DecidableEq, Repr

/-- a stack of middlewares, OUTERMOST first, each with its per-session state.
    A client message is examined from the outside in; a rejection produced at depth `i` is written to
    that middleware's own `send`, i.e. it passes the server-side hooks of the middlewares outside it. -/
def chainClient : List (Mw × MwSt) → Int → ClientMsg → List (Mw × MwSt) × ChainOut
  | [], _, m => ([], .fwd m)
  | (mw, st) :: rest, now, m =>
    match mw.client st now m with
    | (st', .reject r) => ((mw, st') :: rest, .reply (some r))
    | (st', .fwd m') =>
      match chainClient rest now m' with
      | (rest', .fwd m'') => ((mw, st') :: rest', .fwd m'')
      | (rest', .reply none) => ((mw, st') :: rest', .reply none)
      | (rest', .reply (some r)) =>
        let (st'', r') := mw.server st' r
        ((mw, st'') :: rest', .reply r')

/-- a server message emitted by the wrapped handler travels from the inside out -/
def chainServer : List (Mw × MwSt) → ServerMsg → List (Mw × MwSt) × Option ServerMsg
  | [], m => ([], some m)
  | (mw, st) :: rest, m =>
    match chainServer rest m with
    | (rest', none) => ((mw, st) :: rest', none)
    | (rest', some m') =>
      let (st', r) := mw.server st m'
      ((mw, st') :: rest', r)

def freshStack (mws : List Mw) : List (Mw × MwSt) := mws.map fun mw => (mw, {})

/-! ### BuildMiddlewareFromNIP11 -/

structure Limitation where
  maxSubscriptions : Int := 0
  maxFilters : Int := 0
  maxLimit : Int := 0
  maxEventTags : Int := 0
  maxContentLength : Int := 0
  createdAtLowerLimit : Int := 0
  createdAtUpperLimit : Int := 0
deriving DecidableEq, Repr

/-- the NIP-11 document as far as the builder reads it: `none` = nil document,
    `some none` = a document without a limitation block -/
abbrev Nip11Doc := Option (Option Limitation)

/-- the chain built from a document, OUTERMOST first (each `h = New…(v)(h)` wraps what was built
    before, so the last `if` of the Go function is the outermost layer) -/
def buildFromNip11 : Nip11Doc → List Mw
  | none => []
  | some none => []
  | some (some l) =>
    (if l.createdAtUpperLimit != 0 then [Mw.createdAtUpper l.createdAtUpperLimit] else []) ++
    (if l.createdAtLowerLimit != 0 then [Mw.createdAtLower l.createdAtLowerLimit] else []) ++
    (if l.maxContentLength != 0 then [Mw.maxContentLen l.maxContentLength] else []) ++
    (if l.maxEventTags != 0 then [Mw.maxEventTags l.maxEventTags] else []) ++
    (if l.maxLimit != 0 then [Mw.maxLimit l.maxLimit] else []) ++
    (if l.maxFilters != 0 then [Mw.maxFilters l.maxFilters] else []) ++
    (if l.maxSubscriptions != 0 then [Mw.maxSubs l.maxSubscriptions] else [])

/-- the source text of `BuildMiddlewareFromNIP11` that `buildFromNip11` is a hand translation of;
    `MocProps.C17.nip11_source_pinned` proves the regenerated text equals it. -/
def nip11ExpectedSource : List String := [
  "if nip11 == nil || nip11.Limitation == nil { return func(h Handler) Handler { return h } }",
  "if v := nip11.Limitation.MaxSubscriptions; v != 0 { h = NewMaxSubscriptionsMiddleware(v)(h) }",
  "if v := nip11.Limitation.MaxFilters; v != 0 { h = NewMaxReqFiltersMiddleware(v)(h) }",
  "if v := nip11.Limitation.MaxLimit; v != 0 { h = NewMaxLimitMiddleware(v)(h) }",
  "if v := nip11.Limitation.MaxEventTags; v != 0 { h = NewMaxEventTagsMiddleware(v)(h) }",
  "if v := nip11.Limitation.MaxContentLength; v != 0 { h = NewMaxContentLengthMiddleware(v)(h) }",
  "if v := nip11.Limitation.CreatedAtLowerLimit; v != 0 { h = NewCreatedAtLowerLimitMiddleware(v)(h) }",
  "if v := nip11.Limitation.CreatedAtUpperLimit; v != 0 { h = NewCreatedAtUpperLimitMiddleware(v)(h) }"]

def nip11ActualSource : List String :=
  [Gen.nip11If0, Gen.nip11If1, Gen.nip11If2, Gen.nip11If3, Gen.nip11If4, Gen.nip11If5, Gen.nip11If6, Gen.nip11If7]


/-- the directions in which a middleware does nothing: the server-to-client side of every limit middleware and of
    the receive-side unique filter, the client-to-server side of the send-side unique filter — each body is the plain
    hand-over of the message (the model's `server_passthrough` / the unique filters' one-sided state rest on it) -/
def passThroughActual : List String :=
  [Gen.passEventCreatedAtServer, Gen.passMaxReqFiltersServer, Gen.passMaxLimitServer, Gen.passMaxSubIDLengthServer,
   Gen.passMaxEventTagsServer, Gen.passMaxContentLengthServer, Gen.passCreatedAtLowerServer, Gen.passCreatedAtUpperServer,
   Gen.passRecvUniqueServer, Gen.passRecvAllowServer, Gen.passRecvDenyServer, Gen.passSendUniqueClient]
def passThroughExpected : List String :=
  let a := "{ return newClosedBufCh[ServerMsg](msg), nil }"   -- with and without the explicit type argument
  let b := "{ return newClosedBufCh(msg), nil }"
  [a, b, b, b, b, b, a, a, a, a, a, "{ return newClosedBufCh[ClientMsg](msg), nil, nil }"]

end Moc
