/-
  Model of event_matcher.go: `ReqFilterEventLimitMatcher.Match / LimitMatch / Done`
  and `EventLimitMatchers.Match / LimitMatch / Done`.

  The structure (order of tests, the `found` loop, the counter, the non-short-circuit
  folds) is written by hand; every comparison comes from `Gen/Matcher.lean`, which is
  regenerated from event_matcher.go on every run.
-/
import MocModel.Basic
import MocModel.Gen.Matcher

namespace Moc

/-- `m.f.Tags[k][v]` on the matcher's map-of-maps: missing key ⇒ nil map ⇒ false -/
def condListed (conds : List (String × List String)) (k v : String) : Bool :=
  match conds.lookup k with
  | some vs => vs.contains v
  | none => false

/-- `var v string; if len(tag) >= 2 { v = tag[1] }` -/
def loopValue (t : List String) : String :=
  if Gen.tagHasValue t.length then t.getD 1 "" else ""

/-- the `for _, tag := range event.Tags` loop of `Match`.
    `found` is the Go map `found` (as a list of distinct names).
    An empty tag makes `tag[0]` panic. -/
def foundLoop (conds : List (String × List String)) : List (List String) → List String → Res (List String)
  | [], found => .ok found
  | [] :: _, _ => .panic
  | (k :: rest) :: ts, found =>
    if found.contains k then foundLoop conds ts found
    else if condListed conds k (loopValue (k :: rest)) then foundLoop conds ts (k :: found)
    else foundLoop conds ts found

/-- `ReqFilterEventLimitMatcher.Match` -/
def matchOne (f : Filter) (e : Event) : Res Bool :=
  if Gen.idsReject f.ids.isSome (listedOr false f.ids e.id) then .ok false
  else if Gen.kindsReject f.kinds.isSome (listedOr false f.kinds e.kind) then .ok false
  else if Gen.authorsReject f.authors.isSome (listedOr false f.authors e.pubkey) then .ok false
  else
    let tagReject : Res Bool :=
      if Gen.tagsChecked f.tags.isSome then
        match foundLoop (f.tags.getD []) e.tags [] with
        | .panic => .panic
        | .ok found => .ok (Gen.tagsReject found.length (f.tags.getD []).length)
      else .ok false
    match tagReject with
    | .panic => .panic
    | .ok true => .ok false
    | .ok false =>
      if Gen.sinceChecked f.since.isSome && Gen.sinceReject e.createdAt (f.since.getD 0) then .ok false
      else if Gen.untilChecked f.until_.isSome && Gen.untilReject e.createdAt (f.until_.getD 0) then .ok false
      else .ok Gen.matchFinal

/-- a limit-counting matcher: the filter and its `cnt` -/
structure LMatcher where
  f   : Filter
  cnt : Int := 0
deriving DecidableEq, Repr

/-- `LimitMatch`: returns the verdict and the matcher with the updated counter -/
def LMatcher.limitMatch (m : LMatcher) (e : Event) : Res (Bool × LMatcher) :=
  match matchOne m.f e with
  | .panic => .panic
  | .ok b => .ok (b, if Gen.limitMatchCounts b then { m with cnt := m.cnt + 1 } else m)

/-- `Done` -/
def LMatcher.done (m : LMatcher) : Bool :=
  Gen.limitDone m.f.limit.isSome (m.f.limit.getD 0) m.cnt

/-- `EventLimitMatchers.Match`: `match = mm.Match(event) || match` over all members
    (no short-circuit on the left: every member is evaluated, so any panic surfaces) -/
def matchAny : List Filter → Event → Res Bool
  | [], _ => .ok false
  | f :: fs, e =>
    match matchOne f e with
    | .panic => .panic
    | .ok b =>
      match matchAny fs e with
      | .panic => .panic
      | .ok r => .ok (b || r)

/-- `EventLimitMatchers.LimitMatch` -/
def limitMatchAll : List LMatcher → Event → Res (Bool × List LMatcher)
  | [], _ => .ok (false, [])
  | m :: ms, e =>
    match m.limitMatch e with
    | .panic => .panic
    | .ok (b, m') =>
      match limitMatchAll ms e with
      | .panic => .panic
      | .ok (r, ms') => .ok (b || r, m' :: ms')

/-- `EventLimitMatchers.Done` -/
def doneAll (ms : List LMatcher) : Bool := ms.all LMatcher.done

def newMatchers (fs : List Filter) : List LMatcher := fs.map fun f => { f := f }

/-- the folds over several matchers and the counting step, as regenerated source text -/
def matchersActualSource : List String :=
  [Gen.matchersMatchBody, Gen.matchersLimitMatchBody, Gen.matchersDoneBody, Gen.matcherLimitMatchBody]

/-- the text the hand-written folds follow: EVERY matcher is consulted (the method call is the left operand of `||`,
    so it is evaluated even when an earlier matcher matched — each matching filter counts the event against its own
    limit), `Done` is the conjunction, `LimitMatch` counts exactly the matches -/
def matchersExpectedSource : List String :=
  ["{ match := false for _, mm := range m { match = mm.Match(event) || match } return match }",
   "{ match := false for _, mm := range m { match = mm.LimitMatch(event) || match } return match }",
   "{ done := true for _, mm := range m { done = done && mm.Done() } return done }",
   "{ match := m.Match(event) if match { m.cnt++ } return match }"]

end Moc
