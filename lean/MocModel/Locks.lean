/-
  Lock discipline of the shared in-memory store (C15) and of `safeMap` (C07), as facts about tables that
  go2lean REGENERATES from event_cache.go / data_structure.go on every run (`Gen/Locks.lean`):

      (Type.method, lock, writes, touches, entry, callees)

  lock     "Lock" / "RLock": the body starts with `r.mu.(R)Lock()` `defer r.mu.(R)Unlock()` and mentions the mutex
           nowhere else; "none": the mutex is not mentioned; anything else: "irregular"
  writes   the body assigns through / deletes from / calls Set, Del on state rooted at the receiver (or an alias)
  touches  the body reads or writes a field of the receiver other than the mutex (or an alias of one)
  entry    type and method are both exported: callable from outside the package
  callees  the methods of types of the same file that it calls on the receiver or on one of its fields

  `lockOK` is the discipline under which every public operation is one critical section of the RWMutex, so that
  the sequential model of the store (`Cache.add`, `Cache.find`) describes each call atomically:
    * a method holding the write lock reaches, without passing another lock acquisition, only lock-free methods
      (an RWMutex is not re-entrant);
    * a method holding the read lock, and everything it reaches that way, writes nothing;
    * a public method that takes no lock touches nothing itself and reaches state only through methods that lock;
    * no method uses the mutex in any other shape;
  together with `Gen.cacheFieldsOutside = []`: no other file of the package names the private fields or methods.
-/
import MocModel.Gen.Locks

namespace Moc

abbrev LockRow := String × String × Bool × Bool × Bool × List String

def LockRow.name (r : LockRow) : String := r.1
def LockRow.lock (r : LockRow) : String := r.2.1
def LockRow.writes (r : LockRow) : Bool := r.2.2.1
def LockRow.touches (r : LockRow) : Bool := r.2.2.2.1
def LockRow.entry (r : LockRow) : Bool := r.2.2.2.2.1
def LockRow.callees (r : LockRow) : List String := r.2.2.2.2.2

def rowOf (t : List LockRow) (n : String) : Option LockRow := t.find? (fun r => r.name == n)

def lockOf (t : List LockRow) (n : String) : String :=
  match rowOf t n with
  | some r => r.lock
  | none => "unknown"

def calleesOf (t : List LockRow) (n : String) : List String :=
  match rowOf t n with
  | some r => r.callees
  | none => []

/-- one round of the closure: callees of the lock-free members are added (a locking callee opens its own section) -/
def dedup : List String → List String
  | [] => []
  | x :: xs => if xs.contains x then dedup xs else x :: dedup xs

def lockStep (t : List LockRow) (s : List String) : List String :=
  dedup (s ++ s.flatMap (fun n => if lockOf t n == "none" then calleesOf t n else []))

def iter {α} (f : α → α) : Nat → α → α
  | 0, a => a
  | n + 1, a => iter f n (f a)

/-- everything a method reaches without passing a lock acquisition -/
def reachOf (t : List LockRow) (n : String) : List String := iter (lockStep t) t.length (calleesOf t n)

def rowOK (t : List LockRow) (r : LockRow) : Bool :=
  let reach := reachOf t r.name
  let known := reach.all (fun m => (rowOf t m).isSome)
  if r.lock == "Lock" then
    known && reach.all (fun m => lockOf t m == "none")
  else if r.lock == "RLock" then
    known && !r.writes && reach.all (fun m => lockOf t m == "none" &&
      match rowOf t m with
      | some x => !x.writes
      | none => false)
  else if r.lock == "none" then
    if r.entry then
      known && !r.writes && !r.touches && reach.all (fun m =>
        match rowOf t m with
        | some x => x.lock == "Lock" || x.lock == "RLock" || (x.lock == "none" && !x.writes && !x.touches)
        | none => false)
    else true
  else false

def lockOK (t : List LockRow) : Bool := t.all (rowOK t)

/-- the methods under which the state is written -/
def writers (t : List LockRow) : List String := (t.filter LockRow.writes).map LockRow.name

/-- the lock-holding methods that reach a given method without another acquisition in between -/
def holdersOf (t : List LockRow) (m : String) : List (String × String) :=
  (t.filter fun r => r.lock != "none" && (r.name == m || (reachOf t r.name).contains m)).map fun r => (r.name, r.lock)

end Moc
