/-
  Model of the SQLite handler's insert worker (handler/sqlite/handler.go `serveBulkInsert`): events arrive one at a
  time on `eventCh`; ids remembered by an LRU of 2·EventBulkInsertNum entries are skipped (`seen.Get` promotes);
  the others are appended to the pending batch, which is inserted as ONE transaction when it reaches
  EventBulkInsertNum events, on every tick of EventBulkInsertDur, and when the handler's context ends.
  Insertions are assumed to succeed (failures and retries: C14).
-/
import MocModel.Sqlite
import MocModel.Gen.Worker

namespace Moc

structure Worker where
  num : Nat                       -- EventBulkInsertNum
  pending : List Event := []      -- `events`
  seen : List String := []        -- the LRU's keys, most recently used first
  db : Db := {}

inductive WStep where
  | recv (e : Event)   -- `case event := <-h.eventCh`
  | tick               -- `case <-tickCh`
deriving Repr

/-- `bulkInsertWithRetry(ctx, events)` followed by `events = events[:0]` -/
def Worker.flush (w : Worker) : Worker := { w with db := w.db.insertBatch w.pending, pending := [] }

def Worker.recv (w : Worker) (e : Event) : Worker :=
  if w.seen.contains e.id then { w with seen := e.id :: w.seen.erase e.id }
  else
    let w1 : Worker := { w with seen := (e.id :: w.seen).take (Gen.workerLruSize w.num).toNat, pending := w.pending ++ [e] }
    if Gen.workerFlushAt w1.pending.length w.num then w1.flush else w1

def Worker.tick (w : Worker) : Worker := if Gen.workerTickFlush w.pending.length then w.flush else w

def Worker.step (w : Worker) : WStep → Worker
  | .recv e => w.recv e
  | .tick => w.tick

def Worker.run (w : Worker) (steps : List WStep) : Worker := steps.foldl Worker.step w

/-- `case <-ctx.Done()`: what is still pending is inserted before the worker returns -/
def Worker.stop (w : Worker) : Worker := if Gen.workerStopFlush w.pending.length then w.flush else w

/-- the events handed to the worker, in order -/
def received : List WStep → List Event
  | [] => []
  | .recv e :: r => e :: received r
  | .tick :: r => received r

/-- the statements of the loop the model follows, as regenerated text -/
def workerActualSource : List String := [Gen.workerSeenTest, Gen.workerSeenAdd, Gen.workerAppend, Gen.workerEnqueue]

def workerExpectedSource : List String :=
  ["if _, ok := seen.Get(event.ID); ok { continue }", "seen.Add(event.ID, struct{}{})", "append(events, event)",
   "{ select { case <-ctx.Done(): return nil, ctx.Err() case h.eventCh <- msg.Event: smsgCh := make(chan mocrelay.ServerMsg, 1) defer close(smsgCh) smsgCh <- mocrelay.NewServerOKMsg(msg.Event.ID, true, \"\", \"\") return smsgCh, nil } }"]

end Moc
