/-
  Decoding of the harness line protocol (one JSON object per line) into model values,
  and rendering of model values back to canonical text for comparison.
  Pure plumbing: nothing here is part of a theorem statement.
-/
import MocModel.Basic
open Lean

namespace Moc.Wire

abbrev P := Except String

def fld (j : Json) (k : String) : P Json :=
  match j.getObjVal? k with
  | .ok v => pure v
  | .error _ => throw s!"missing field {k}"

def fldD (j : Json) (k : String) : Json :=
  match j.getObjVal? k with
  | .ok v => v
  | .error _ => Json.null

def asStr (j : Json) : P String :=
  match j with
  | .str s => pure s
  | _ => throw s!"not a string: {j.compress}"

def asInt (j : Json) : P Int :=
  match j.getInt? with
  | .ok v => pure v
  | .error _ => throw s!"not an int: {j.compress}"

def asNat (j : Json) : P Nat :=
  match j.getNat? with
  | .ok v => pure v
  | .error _ => throw s!"not a nat: {j.compress}"

def asBool (j : Json) : P Bool :=
  match j with
  | .bool b => pure b
  | _ => throw s!"not a bool: {j.compress}"

def asArr (j : Json) : P (List Json) :=
  match j with
  | .arr a => pure a.toList
  | _ => throw s!"not an array: {j.compress}"

def asList {α} (f : Json → P α) (j : Json) : P (List α) := do
  (← asArr j).mapM f

def asOpt {α} (f : Json → P α) (j : Json) : P (Option α) :=
  match j with
  | .null => pure none
  | _ => some <$> f j

def strF (j : Json) (k : String) : P String := do asStr (← fld j k)
def intF (j : Json) (k : String) : P Int := do asInt (← fld j k)
def natF (j : Json) (k : String) : P Nat := do asNat (← fld j k)
def boolF (j : Json) (k : String) : P Bool := do asBool (← fld j k)

def event (j : Json) : P Event := do
  pure { id := ← strF j "id", pubkey := ← strF j "pubkey", createdAt := ← intF j "created_at",
         kind := ← intF j "kind", tags := ← asList (asList asStr) (← fld j "tags"),
         content := ← strF j "content", sig := ← strF j "sig" }

def tagCond (j : Json) : P (String × List String) := do
  match ← asArr j with
  | [k, vs] => pure (← asStr k, ← asList asStr vs)
  | _ => throw "bad tag condition"

def filter (j : Json) : P Filter := do
  pure { ids := ← asOpt (asList asStr) (fldD j "ids"),
         authors := ← asOpt (asList asStr) (fldD j "authors"),
         kinds := ← asOpt (asList asInt) (fldD j "kinds"),
         tags := ← asOpt (asList tagCond) (fldD j "tags"),
         since := ← asOpt asInt (fldD j "since"),
         until_ := ← asOpt asInt (fldD j "until"),
         limit := ← asOpt asInt (fldD j "limit") }

def clientMsg (j : Json) : P ClientMsg := do
  match ← strF j "t" with
  | "EVENT" => pure (.event (← event (← fld j "event")))
  | "REQ" => pure (.req (← strF j "sub") (← asList filter (← fld j "filters")))
  | "CLOSE" => pure (.close (← strF j "sub"))
  | "AUTH" => pure (.auth (← event (← fld j "event")))
  | "COUNT" => pure (.count (← strF j "sub") (← asList filter (← fld j "filters")))
  | t => throw s!"unknown client msg type {t}"

def serverMsg (j : Json) : P ServerMsg := do
  match ← strF j "t" with
  | "EOSE" => pure (.eose (← strF j "sub"))
  | "EVENT" => pure (.event (← strF j "sub") (← event (← fld j "event")))
  | "NOTICE" => pure (.notice (← strF j "msg"))
  | "OK" => pure (.ok (← strF j "id") (← boolF j "accepted") (← strF j "prefix") (← strF j "msg"))
  | "AUTH" => pure (.auth (← strF j "challenge"))
  | "COUNT" => pure (.count (← strF j "sub") (← natF j "count") (← asOpt asBool (fldD j "approx")))
  | "CLOSED" => pure (.closed (← strF j "sub") (← strF j "prefix") (← strF j "msg"))
  | t => throw s!"unknown server msg type {t}"

/-! rendering (canonical, used in DIFF messages and comparisons) -/

def jStr (s : String) : Json := .str s
def jInt (i : Int) : Json := .num (JsonNumber.fromInt i)
def jOpt {α} (f : α → Json) : Option α → Json
  | none => .null
  | some a => f a
def jList {α} (f : α → Json) (l : List α) : Json := .arr (l.map f).toArray

def eventJ (e : Event) : Json :=
  Json.mkObj [("id", jStr e.id), ("pubkey", jStr e.pubkey), ("created_at", jInt e.createdAt),
    ("kind", jInt e.kind), ("tags", jList (jList jStr) e.tags), ("content", jStr e.content),
    ("sig", jStr e.sig)]

def filterJ (f : Filter) : Json :=
  Json.mkObj [("ids", jOpt (jList jStr) f.ids), ("authors", jOpt (jList jStr) f.authors),
    ("kinds", jOpt (jList jInt) f.kinds),
    ("tags", jOpt (jList fun (p : String × List String) => .arr #[jStr p.1, jList jStr p.2]) f.tags),
    ("since", jOpt jInt f.since), ("until", jOpt jInt f.until_), ("limit", jOpt jInt f.limit)]

def serverMsgJ : ServerMsg → Json
  | .eose s => Json.mkObj [("t", "EOSE"), ("sub", jStr s)]
  | .event s e => Json.mkObj [("t", "EVENT"), ("sub", jStr s), ("event", eventJ e)]
  | .notice m => Json.mkObj [("t", "NOTICE"), ("msg", jStr m)]
  | .ok i a p m => Json.mkObj [("t", "OK"), ("id", jStr i), ("accepted", .bool a), ("prefix", jStr p), ("msg", jStr m)]
  | .auth c => Json.mkObj [("t", "AUTH"), ("challenge", jStr c)]
  | .count s n a => Json.mkObj [("t", "COUNT"), ("sub", jStr s), ("count", jInt n), ("approx", jOpt Json.bool a)]
  | .closed s p m => Json.mkObj [("t", "CLOSED"), ("sub", jStr s), ("prefix", jStr p), ("msg", jStr m)]

def clientMsgJ : ClientMsg → Json
  | .event e => Json.mkObj [("t", "EVENT"), ("event", eventJ e)]
  | .req s fs => Json.mkObj [("t", "REQ"), ("sub", jStr s), ("filters", jList filterJ fs)]
  | .close s => Json.mkObj [("t", "CLOSE"), ("sub", jStr s)]
  | .auth e => Json.mkObj [("t", "AUTH"), ("event", eventJ e)]
  | .count s fs => Json.mkObj [("t", "COUNT"), ("sub", jStr s), ("filters", jList filterJ fs)]

end Moc.Wire
