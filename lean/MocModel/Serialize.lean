/-
  Model of `Event.Serialize`, `appendNIP01String`, `Event.Verify` (message.go) and the admission gate
  `Relay.serveRead` (relay.go) — C01, C12.
  The escape table (which characters, what is written) is regenerated from the switch of
  `appendNIP01String`; SHA-256 and BIP-340 are parameters (`H`, oracle verdicts).
-/
import MocModel.Codec
import MocModel.Valid
import MocModel.Gen.Serialize
import MocModel.Gen.Gate
import MocModel.Bip340

namespace Moc

/-- the `switch r` of `appendNIP01String`: case value ↦ what is appended -/
def escTable : List (Int × String) :=
  [(Gen.escCase0, Gen.escOut0), (Gen.escCase1, Gen.escOut1), (Gen.escCase2, Gen.escOut2), (Gen.escCase3, Gen.escOut3),
   (Gen.escCase4, Gen.escOut4), (Gen.escCase5, Gen.escOut5), (Gen.escCase6, Gen.escOut6)]

def hexDigit (n : Nat) : Char := "0123456789abcdef".toList.getD n '?'

/-- one rune of the loop -/
def escRune (c : Char) : List Char :=
  match escTable.lookup (c.toNat : Int) with
  | some out => out.toList
  | none =>
    if Gen.escControl c.toNat then ['\\', 'u', '0', '0', hexDigit (c.toNat / 16), hexDigit (c.toNat % 16)]
    else [c]

/-- `appendNIP01String` (on valid UTF-8: `range s` yields the characters) -/
def escString (s : String) : List Char :=
  Gen.quoteOpen.toList ++ s.toList.flatMap escRune ++ Gen.quoteClose.toList

def joinComma : List (List Char) → List Char
  | [] => []
  | [x] => x
  | x :: xs => x ++ ',' :: joinComma xs

/-- `Event.Serialize` for an event with a non-nil tag list whose tags are non-nil -/
def serializeChars (e : Event) : List Char :=
  Gen.serHead.toList ++ escString e.pubkey ++ [','] ++ (toString e.createdAt).toList ++ [','] ++
  (toString e.kind).toList ++ [','] ++
  ('[' :: joinComma (e.tags.map fun t => '[' :: joinComma (t.map escString) ++ [']']) ++ [']']) ++ [','] ++
  escString e.content ++ [']']

def serialize (e : Event) : String := String.ofList (serializeChars e)

/-- statements of `Event.Serialize` / `appendNIP01String` that the model translates by hand -/
def serializeActualSource : List String :=
  [Gen.escControlCall, Gen.escVerbatimCall, Gen.serCalls, Gen.serCalls1, Gen.serCalls2, Gen.serInt0, Gen.serInt1, Gen.verifyFinal]
def serializeExpectedSource : List String :=
  ["append(dst, '\\\\', 'u', '0', '0', hexDigits[r>>4], hexDigits[r&0xf])", "utf8.AppendRune(dst, r)",
   "appendNIP01String(ret, ev.Pubkey)", "appendNIP01String(ret, elem)", "appendNIP01String(ret, ev.Content)",
   "strconv.AppendInt(ret, ev.CreatedAt, 10)", "strconv.AppendInt(ret, ev.Kind, 10)", "sig.Verify(idBin, pubkey)"]

/-! ### Verify -/

def hexVal (c : Char) : Option Nat :=
  if '0' ≤ c && c ≤ '9' then some (c.toNat - '0'.toNat)
  else if 'a' ≤ c && c ≤ 'f' then some (c.toNat - 'a'.toNat + 10)
  else if 'A' ≤ c && c ≤ 'F' then some (c.toNat - 'A'.toNat + 10)
  else none

/-- `encoding/hex.DecodeString` (accepts upper case; fails on odd length or a non-hex character) -/
def hexDecode : List Char → Option (List Nat)
  | [] => some []
  | [_] => none
  | a :: b :: r =>
    match hexVal a, hexVal b, hexDecode r with
    | some x, some y, some rest => some ((x * 16 + y) :: rest)
    | _, _, _ => none

/-- what the signature library says about (pubkey bytes, signature bytes, message = id bytes) -/
structure SigOracle where
  pubkeyParses : Bool
  sigParses : Bool
  verifies : Bool
deriving DecidableEq, Repr

inductive VerifyRes where
  | ok (b : Bool)
  | error
deriving DecidableEq, Repr

/-- `Event.Verify`, with the hash of the serialization given as a hex string (lower case) -/
def verify (hashHex : String) (o : SigOracle) (e : Event) : VerifyRes :=
  match hexDecode e.id.toList with
  | none => .error
  | some idBin =>
    if Gen.verifyIdMismatch (some idBin == hexDecode hashHex.toList) then .ok false
    else
      match hexDecode e.pubkey.toList with
      | none => .error
      | some _ =>
        if !o.pubkeyParses then .error
        else match hexDecode e.sig.toList with
          | none => .error
          | some _ => if !o.sigParses then .error else .ok o.verifies

/-- the signature library's three answers, computed by the Lean model of the library (`Bip340.verifyLib`: BIP-340, with btcec's missing `s < n` check) from the
    event's own fields: what `schnorr.ParsePubKey`, `schnorr.ParseSignature` and `sig.Verify(idBin, pubkey)` say -/
def sigOracleOf (e : Event) : SigOracle :=
  match hexDecode e.pubkey.toList, hexDecode e.id.toList with
  | some pk, some idBin =>
    let v := Bip340.verifyLib pk idBin ((hexDecode e.sig.toList).getD [])
    { pubkeyParses := v.pubkeyParses, sigParses := v.sigParses, verifies := v.verifies }
  | _, _ => { pubkeyParses := false, sigParses := false, verifies := false }

/-- `Event.Verify` with nothing handed in: the hash by the Lean SHA-256, the signature by the Lean BIP-340 -/
def verifyFull (e : Event) : VerifyRes :=
  verify (Sha256.hexHash (String.ofList (serializeChars e))) (sigOracleOf e) e

/-! ### the gate -/

inductive GateOut where
  | forward (m : ClientMsg)
  | notice (msg : String)
deriving DecidableEq, Repr

def fmtS (fmt : String) (arg : String) : String := fmt.replace "%s" arg

/-- `serveRead`: the chain of tests on one frame.  `parsed` is `ParseClientMsg`'s result, `ver` the
    verdict of `Verify` when the message is an EVENT. -/
def gate (isText utf8Valid jsonValid : Bool) (payload : String) (parsed : DecE ClientMsg) (ver : VerifyRes) : GateOut :=
  if Gen.gateNotText isText then .notice Gen.noticeBinary
  else if Gen.gateNotJSON utf8Valid jsonValid then .notice Gen.noticeNotJSON
  else match parsed with
    | .error _ => .notice Gen.noticeParse
    | .ok m =>
      if Gen.gateInvalid (validClientMsg m) then .notice (fmtS Gen.noticeInvalidFmt payload)
      else match m with
        | .event e =>
          match ver with
          | .error => .notice Gen.noticeVerifyErr
          | .ok v => if Gen.gateBadSig v then .notice (fmtS Gen.noticeBadSigFmt e.id) else .forward m
        | _ => .forward m

def gateExpectedEventsOnly : String :=
  "if msg, ok := msg.(*ClientEventMsg); ok { valid, err := msg.Event.Verify() if err != nil { relay.logWarn(ctx, relay.opt.Logger, \"failed to verify event msg\", \"error\", err) notice := NewServerNoticeMsg(\"internal error\") sendServerMsgCtx(ctx, send, notice) return nil } if !valid { relay.logWarn(ctx, relay.opt.Logger, \"received invalid sig event\", \"clientMsg\", msg) notice := NewServerNoticeMsgf(\"invalid sig event: %s\", msg.Event.ID) sendServerMsgCtx(ctx, send, notice) return nil } }"

end Moc
