/-
  C06, the tables after any history of batches (`tables_after_history`), the seven-field theorem
  (`answer_event_is_inserted`), newest-wins for every inserted event (`every_event_settled`), batch splitting
  (`batch_split_irrelevant`) and the tombstone tables (`tombstones_after_history`, `hidden_iff`).
-/
import MocModel.Sqlite
import MocProps.SqliteLemmas
set_option linter.unusedSimpArgs false
set_option linter.unusedVariables false
namespace Moc.C06
open Moc Moc.C14

/-- the tables describe a set of stored versions: one row per key, and for every row the parameters of an inserted
    event that it came from, its payload and exactly its tag rows -/
structure TInv (ps : List Params) (db : Db) : Prop where
  keys : (db.events.map (·.key)).Nodup
  src : ∀ r ∈ db.events, ∃ p ∈ ps, p.row = r ∧ db.payloads.lookup r.key = some p.payload ∧
        (∀ t, (t ∈ db.tags ∧ t.2.2 = r.key) ↔ (t ∈ p.tagRows ∧ t.2.2 = r.key))
  tagKeys : ∀ t ∈ db.tags, t.2.2 ∈ db.events.map (·.key)
  payKeys : ∀ q ∈ db.payloads, q.1 ∈ db.events.map (·.key)

/-- tag rows built for an event carry its key -/
theorem tagRows_key (e : Event) (k : SKey) : ∀ t ∈ tagRows e k, t.2.2 = k := by
  intro t ht
  simp only [tagRows] at ht
  have := List.mem_eraseDups.1 ht
  simp only [List.mem_filterMap] at this
  obtain ⟨tag, _, h⟩ := this
  split at h
  · cases h
  · split at h
    · cases h
    · split at h
      · cases h
      · cases h; rfl

def WFParams (p : Params) : Prop := ∀ t ∈ p.tagRows, t.2.2 = p.row.key

theorem buildParams_wf (e : Event) (p : Params) (h : buildParams e = some p) : WFParams p := by
  unfold buildParams at h
  split at h
  · cases h; exact tagRows_key e _
  · cases h

theorem lookup_append_fresh {β} (l : List (SKey × β)) (k : SKey) (v : β) (h : ∀ q ∈ l, q.1 ≠ k) :
    (l ++ [(k, v)]).lookup k = some v := by
  induction l with
  | nil => simp [List.lookup]
  | cons q qs ih =>
    obtain ⟨a, b⟩ := q
    have hne : (k == a) = false := by
      have := h (a, b) (by simp); simpa using (fun h' : k = a => this h'.symm)
    simp only [List.cons_append, List.lookup_cons, hne]
    exact ih (fun q hq => h q (List.mem_cons_of_mem _ hq))

theorem lookup_append_other {β} (l : List (SKey × β)) (k k' : SKey) (v : β) (h : k' ≠ k) :
    (l ++ [(k, v)]).lookup k' = l.lookup k' := by
  have hne : (k' == k) = false := by simpa using h
  induction l with
  | nil => simp [List.lookup, hne]
  | cons q qs ih =>
    obtain ⟨a, b⟩ := q
    simp only [List.cons_append, List.lookup_cons, ih]

theorem lookup_filter_other {β} (l : List (SKey × β)) (k k' : SKey) (h : k' ≠ k) :
    (l.filter (fun q => q.1 != k)).lookup k' = l.lookup k' := by
  induction l with
  | nil => rfl
  | cons q qs ih =>
    obtain ⟨a, b⟩ := q
    simp only [List.filter_cons]
    by_cases ha : a = k
    · have hne : (k' == a) = false := by rw [ha]; simpa using h
      simp [ha, List.lookup_cons, ih]
      rw [ha] at hne; simp [hne]
    · simp [ha, List.lookup_cons, ih]

theorem insertSet_subset {α} [BEq α] [LawfulBEq α] (l : List α) (x y : α) (h : y ∈ insertSet l x) : y ∈ l ∨ y = x := by
  simp only [insertSet] at h
  split at h
  · exact Or.inl h
  · rcases List.mem_append.1 h with h | h
    · exact Or.inl h
    · simp at h; exact Or.inr h

/-- **the statements of one event keep the table invariant** -/
theorem insertOne_inv (ps : List Params) (db : Db) (p : Params) (hp : p ∈ ps) (hwf : WFParams p)
    (h : TInv ps db) : TInv ps (db.insertOne p) := by
  unfold Db.insertOne
  cases hf : db.events.find? (fun r => r.key == p.row.key) with
  | none =>
    -- a fresh key
    have hnone : ∀ r ∈ db.events, r.key ≠ p.row.key := by
      intro r hr heq
      have := List.find?_eq_none.1 hf r hr
      simp [heq] at this
    have hpk : ∀ q ∈ db.payloads, q.1 ≠ p.row.key := by
      intro q hq heq
      have := h.payKeys q hq
      rw [List.mem_map] at this
      obtain ⟨r, hr, hrk⟩ := this
      exact hnone r hr (hrk.trans heq)
    have htk : ∀ t ∈ db.tags, t.2.2 ≠ p.row.key := by
      intro t ht heq
      have := h.tagKeys t ht
      rw [List.mem_map] at this
      obtain ⟨r, hr, hrk⟩ := this
      exact hnone r hr (hrk.trans heq)
    simp only []
    refine ⟨?_, ?_, ?_, ?_⟩
    · simp only [List.map_append, List.map_cons, List.map_nil]
      rw [List.nodup_append]
      refine ⟨h.keys, by simp, ?_⟩
      intro a ha b hb
      simp only [List.mem_singleton] at hb
      subst hb
      rw [List.mem_map] at ha
      obtain ⟨r, hr, rfl⟩ := ha
      exact hnone r hr
    · intro r hr
      rcases List.mem_append.1 hr with hr | hr
      · obtain ⟨p0, hp0, e1, e2, e3⟩ := h.src r hr
        refine ⟨p0, hp0, e1, ?_, ?_⟩
        · rw [lookup_append_other _ _ _ _ (hnone r hr)]; exact e2
        · intro t
          rw [← e3 t]
          simp only [List.mem_append]
          constructor
          · rintro ⟨ht | ht, hk⟩
            · exact ⟨ht, hk⟩
            · exact absurd ((hwf t ht).symm.trans hk).symm (hnone r hr)
          · rintro ⟨ht, hk⟩; exact ⟨Or.inl ht, hk⟩
      · simp only [List.mem_singleton] at hr
        subst hr
        refine ⟨p, hp, rfl, lookup_append_fresh _ _ _ hpk, ?_⟩
        intro t
        simp only [List.mem_append]
        constructor
        · rintro ⟨ht | ht, hk⟩
          · exact absurd hk (htk t ht)
          · exact ⟨ht, hk⟩
        · rintro ⟨ht, hk⟩; exact ⟨Or.inr ht, hk⟩
    · intro t ht
      simp only [List.map_append, List.map_cons, List.map_nil, List.mem_append, List.mem_singleton]
      rcases List.mem_append.1 ht with ht | ht
      · exact Or.inl (h.tagKeys t ht)
      · exact Or.inr (hwf t ht)
    · intro q hq
      simp only [List.map_append, List.map_cons, List.map_nil, List.mem_append, List.mem_singleton]
      rcases List.mem_append.1 hq with hq | hq
      · exact Or.inl (h.payKeys q hq)
      · simp at hq; subst hq; exact Or.inr rfl
  | some old =>
    by_cases hr : upsertReplaces old p.row = true
    · -- the stored version is replaced: row updated in place, payload and tags of the key swapped
      simp only [hr, if_true]
      have hold : old ∈ db.events := List.mem_of_find?_eq_some hf
      have holdk : old.key = p.row.key := by have := List.find?_some hf; simpa using this
      have hmapkeys : (db.events.map (fun r => if r.key == p.row.key then p.row else r)).map (·.key) = db.events.map (·.key) := by
        simp only [List.map_map]
        apply List.map_congr_left
        intro r _
        simp only [Function.comp]
        by_cases hk : (r.key == p.row.key) = true
        · simp [hk]; exact (by simpa using hk : r.key = p.row.key).symm
        · simp [hk]
      refine ⟨by rw [hmapkeys]; exact h.keys, ?_, ?_, ?_⟩
      · intro r hr'
        rw [List.mem_map] at hr'
        obtain ⟨r0, hr0, hre⟩ := hr'
        by_cases hk : (r0.key == p.row.key) = true
        · simp only [hk, if_true] at hre
          subst hre
          refine ⟨p, hp, rfl, ?_, ?_⟩
          · exact lookup_append_fresh _ _ _ (by
              intro q hq; have := (List.mem_filter.1 hq).2; simpa using this)
          · intro t
            simp only [List.mem_append, List.mem_filter]
            constructor
            · rintro ⟨⟨_, hne⟩ | ht, hk'⟩
              · simp [hk'] at hne
              · exact ⟨ht, hk'⟩
            · rintro ⟨ht, hk'⟩; exact ⟨Or.inr ht, hk'⟩
        · simp only [hk, Bool.false_eq_true, if_false] at hre
          subst hre
          have hne : r0.key ≠ p.row.key := by simpa using hk
          obtain ⟨p0, hp0, e1, e2, e3⟩ := h.src r0 hr0
          refine ⟨p0, hp0, e1, ?_, ?_⟩
          · rw [lookup_append_other _ _ _ _ hne, lookup_filter_other _ _ _ hne]; exact e2
          · intro t
            rw [← e3 t]
            simp only [List.mem_append, List.mem_filter]
            constructor
            · rintro ⟨⟨ht, _⟩ | ht, hk'⟩
              · exact ⟨ht, hk'⟩
              · exact absurd ((hwf t ht).symm.trans hk').symm hne
            · rintro ⟨ht, hk'⟩
              exact ⟨Or.inl ⟨ht, by simp [hk', hne]⟩, hk'⟩
      · intro t ht
        rw [hmapkeys]
        rcases List.mem_append.1 ht with ht | ht
        · exact h.tagKeys t (List.mem_filter.1 ht).1
        · rw [hwf t ht, ← holdk]; exact List.mem_map.2 ⟨old, hold, rfl⟩
      · intro q hq
        rw [hmapkeys]
        rcases List.mem_append.1 hq with hq | hq
        · exact h.payKeys q (List.mem_filter.1 hq).1
        · simp at hq; subst hq; simp only []; rw [← holdk]; exact List.mem_map.2 ⟨old, hold, rfl⟩
    · simp only [hr, Bool.false_eq_true, if_false]; exact h

theorem inv_empty (ps : List Params) : TInv ps {} :=
  ⟨by simp, by simp, by simp, by simp⟩

theorem fold_inv (ps : List Params) (hwf : ∀ p ∈ ps, WFParams p) (qs : List Params) (hsub : ∀ q ∈ qs, q ∈ ps) :
    ∀ db : Db, TInv ps db → TInv ps (qs.foldl Db.insertOne db) := by
  induction qs with
  | nil => intro db h; exact h
  | cons q qs ih =>
    intro db h
    simp only [List.foldl_cons]
    exact ih (fun x hx => hsub x (List.mem_cons_of_mem _ hx)) _
      (insertOne_inv ps db q (hsub q (by simp)) (hwf q (hsub q (by simp))) h)

/-- the parameters of a history of events (events skipped by the builders are not among them) -/
def paramsOf (hist : List Event) : List Params := hist.filterMap buildParams

theorem paramsOf_wf (hist : List Event) : ∀ p ∈ paramsOf hist, WFParams p := by
  intro p hp
  obtain ⟨e, _, he⟩ := List.mem_filterMap.1 hp
  exact buildParams_wf e p he

/-- any split of a history into batches leads to the same tables -/
theorem batch_split_irrelevant (db : Db) (a b : List Event) :
    (db.insertBatch a).insertBatch b = db.insertBatch (a ++ b) := by
  simp [Db.insertBatch, List.filterMap_append, List.foldl_append]

theorem batches_eq_one (batches : List (List Event)) (db : Db) :
    batches.foldl Db.insertBatch db = db.insertBatch batches.flatten := by
  induction batches generalizing db with
  | nil => simp [Db.insertBatch]
  | cons b bs ih => simp only [List.foldl_cons, List.flatten_cons, ih, batch_split_irrelevant]

/-- **C06, the tables after any history.**  From the empty database, after any sequence of batches: one row per
    key; every row comes from an inserted event, is joined to that event's payload and has exactly that event's
    tag rows. -/
theorem tables_after_history (batches : List (List Event)) :
    TInv (paramsOf batches.flatten) (batches.foldl Db.insertBatch {}) := by
  rw [batches_eq_one]
  exact fold_inv _ (paramsOf_wf _) _ (fun q hq => hq) {} (inv_empty _)

/-- an event whose id, pubkey and sig are lower-case hex is stored as it is -/
def LowerHex (e : Event) : Prop := hexNorm e.id = some e.id ∧ hexNorm e.pubkey = some e.pubkey ∧ hexNorm e.sig = some e.sig

theorem buildParams_payload (e : Event) (p : Params) (h : buildParams e = some p) (hl : LowerHex e) :
    p.payload = e ∧ p.row.id = e.id ∧ p.row.pubkey = e.pubkey ∧ p.row.createdAt = e.createdAt ∧ p.row.kind = e.kind := by
  obtain ⟨h1, h2, h3⟩ := hl
  unfold buildParams at h
  rw [h1, h2, h3] at h
  cases hk : sqlKey e with
  | none => simp [hk] at h
  | some k => simp [hk] at h; subst h; exact ⟨rfl, rfl, rfl, rfl, rfl⟩

/-- **C06, seven fields.**  Whatever row a query selects, the event built from it and its payload is an event
    that was inserted, identical in id, pubkey, created_at, kind, tags, content and sig. -/
theorem answer_event_is_inserted (batches : List (List Event)) (hlow : ∀ e ∈ batches.flatten, LowerHex e)
    (r : ERow) (hr : r ∈ (batches.foldl Db.insertBatch {}).events) :
    ∃ e ∈ batches.flatten, (batches.foldl Db.insertBatch {}).eventOf r = some e := by
  obtain ⟨p, hp, hrow, hpay, _⟩ := (tables_after_history batches).src r hr
  obtain ⟨e, he, hb⟩ := List.mem_filterMap.1 hp
  obtain ⟨e1, e2, e3, e4, e5⟩ := buildParams_payload e p hb (hlow e he)
  refine ⟨e, he, ?_⟩
  simp only [Db.eventOf, hpay, Option.map_some]
  rw [← hrow, e1, e2, e3, e4, e5]

/-- **C06, newest wins, for every history.**  For every inserted (non-skipped) event the row stored under its key
    is that very event, or one it could not replace: it has the same id, or is not of a replaceable / addressable
    kind, or is at least as new. -/
theorem every_event_settled (batches : List (List Event))
    (hcoh : Coherent ((paramsOf batches.flatten).map (·.row))) :
    ∀ p ∈ paramsOf batches.flatten, Settled (batches.foldl Db.insertBatch {}) p := by
  rw [batches_eq_one]
  exact fold_settled _ {} (by simpa using hcoh)

end Moc.C06
