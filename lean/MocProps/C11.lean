/-
  C11 — Admission: well-formed messages are accepted, accepted ones are sound.

  Model: MocModel/Valid.lean (validators, every condition regenerated) and the label stage of
  `ParseClientMsg` (MocModel/Codec.lean, `labelOfChars`).  Spec: MocModel/Spec/Valid.lean.
-/
import MocModel.Spec.Valid
import MocModel.Codec

set_option linter.unusedSimpArgs false

namespace Moc.C11
open Moc Moc.ValidSpec

/-- the regexp the hand-written label scanner implements is the one in the source -/
theorem regexp_pinned : Gen.clientMsgRegexp = clientMsgRegexpExpected := by rfl

/-! ### the label stage accepts any insignificant white space -/

def IsJsonSpace (c : Char) : Prop := c = ' ' ∨ c = '\t' ∨ c = '\n' ∨ c = '\r'

theorem isReSpace_of_json (c : Char) (h : IsJsonSpace c) : isReSpace c = true := by
  rcases h with rfl | rfl | rfl | rfl <;> decide

theorem dropWhile_space_append (ws rest : List Char) (hws : ∀ c ∈ ws, isReSpace c = true) (c0 : Char)
    (hc : isReSpace c0 = false) : (ws ++ c0 :: rest).dropWhile isReSpace = c0 :: rest := by
  induction ws with
  | nil => simp [List.dropWhile, hc]
  | cons w ws ih =>
    have hw := hws w (by simp)
    simp only [List.cons_append, List.dropWhile, hw]
    exact ih (fun c h => hws c (List.mem_cons_of_mem _ h))

theorem takeWhile_word_append (w rest : List Char) (hw : ∀ c ∈ w, isReWord c = true) (c0 : Char)
    (hc : isReWord c0 = false) :
    (w ++ c0 :: rest).takeWhile isReWord = w ∧ (w ++ c0 :: rest).dropWhile isReWord = c0 :: rest := by
  induction w with
  | nil => simp [List.takeWhile, List.dropWhile, hc]
  | cons a w ih =>
    have ha := hw a (by simp)
    obtain ⟨h1, h2⟩ := ih (fun c h => hw c (List.mem_cons_of_mem _ h))
    simp [List.takeWhile, List.dropWhile, ha, h1, h2]

/-- **C11, completeness of the label stage**: any amount of JSON white space before `[` and between `[` and
    the label is accepted, and the label found is the text between the quotes. -/
theorem labelOf_wellformed (ws1 ws2 label rest : List Char)
    (h1 : ∀ c ∈ ws1, IsJsonSpace c) (h2 : ∀ c ∈ ws2, IsJsonSpace c) (hl : ∀ c ∈ label, isReWord c = true) :
    labelOfChars (ws1 ++ '[' :: (ws2 ++ '"' :: (label ++ '"' :: rest))) = some label := by
  unfold labelOfChars
  rw [dropWhile_space_append ws1 _ (fun c h => isReSpace_of_json c (h1 c h)) '[' (by decide)]
  simp only
  rw [dropWhile_space_append ws2 _ (fun c h => isReSpace_of_json c (h2 c h)) '"' (by decide)]
  simp only
  obtain ⟨ht, hd⟩ := takeWhile_word_append label rest hl '"' (by decide)
  rw [hd]
  simp [ht]

/-! ### validators = NIP-01 constraints -/

theorem hexChar_iff (c : Char) : (!Gen.hexCharReject c.toNat) = true ↔ c ∈ hexDigits := by
  simp only [Gen.hexCharReject, Bool.not_not, Bool.or_eq_true, Bool.and_eq_true, decide_eq_true_eq]
  constructor
  · intro h
    have hlt : c.toNat < 128 := by omega
    have hc : c = Char.ofNat c.toNat := (Char.ofNat_toNat c).symm
    have key : ∀ n : Fin 128, ((48 ≤ (n.val : Int) ∧ (n.val : Int) ≤ 57) ∨ (97 ≤ (n.val : Int) ∧ (n.val : Int) ≤ 102)) →
        Char.ofNat n.val ∈ hexDigits := by decide
    rw [hc]
    exact key ⟨c.toNat, hlt⟩ h
  · intro h
    have key : ∀ d ∈ hexDigits, ((48 ≤ (d.toNat : Int) ∧ (d.toNat : Int) ≤ 57) ∨ (97 ≤ (d.toNat : Int) ∧ (d.toNat : Int) ≤ 102)) := by
      decide
    exact key c h

theorem hexChar_reject_iff (c : Char) : Gen.hexCharReject c.toNat = false ↔ c ∈ hexDigits := by
  rw [← hexChar_iff]; cases Gen.hexCharReject c.toNat <;> simp

theorem isLowerHex_iff (n : Nat) (hn : 0 < n) (s : String) :
    (decide ((byteLen s.toList : Int) = n) && validHexChars s.toList) = true ↔ IsLowerHex n s := by
  unfold validHexChars IsLowerHex
  simp only [Gen.hexEmpty, Bool.and_eq_true, decide_eq_true_eq, List.all_eq_true, Bool.not_eq_true',
    beq_eq_false_iff_ne, ne_eq, hexChar_reject_iff]
  constructor
  · rintro ⟨h1, _, h3⟩; exact ⟨by omega, h3⟩
  · rintro ⟨h1, h3⟩; exact ⟨by omega, by omega, h3⟩

/-- **C11, ids / pubkeys / signatures**: judged valid exactly when they are 64 (128) bytes of lower-case hex. -/
theorem validID_iff (s : String) : validID s = true ↔ IsLowerHex 64 s := by
  rw [← isLowerHex_iff 64 (by decide) s]; simp [validID, validIDChars, Gen.validIDCond]

theorem validPubkey_iff (s : String) : validPubkey s = true ↔ IsLowerHex 64 s := by
  rw [← isLowerHex_iff 64 (by decide) s]; simp [validPubkey, validPubkeyChars, Gen.validPubkeyCond]

theorem validSig_iff (s : String) : validSig s = true ↔ IsLowerHex 128 s := by
  rw [← isLowerHex_iff 128 (by decide) s]; simp [validSig, validSigChars, Gen.validSigCond]

/-- **C11, kinds**: judged valid exactly when 0 ≤ kind ≤ 65535. -/
theorem validKind_iff (k : Int) : validKind k = true ↔ KindOk k := by
  simp [validKind, Gen.validKindCond, KindOk]

theorem validTag_iff (t : List String) : validTag t = true ↔ TagOk t := by
  cases t with
  | nil => simp [validTag, Gen.validTagCond, TagOk]
  | cons k r =>
    simp only [validTag, Gen.validTagCond, List.length_cons, TagOk]
    constructor
    · intro h; simp at h; exact ⟨k, r, rfl, h.2⟩
    · rintro ⟨k', r', heq, hk⟩
      cases heq
      simp [hk]; omega

/-- **C11, events**: `Event.Valid` holds exactly for events meeting the NIP-01 constraints — so a component
    behind the gate may rely on them (soundness) and no well-formed event is turned away (completeness). -/
theorem validEvent_iff (e : Event) : validEvent e = true ↔ EventOk e := by
  simp only [validEvent, Gen.eventValidCond, EventOk, Bool.and_eq_true, Bool.true_and, List.all_eq_true,
    validID_iff, validPubkey_iff, validSig_iff, validKind_iff, validTag_iff]
  constructor
  · rintro ⟨⟨⟨⟨⟨h1, h2⟩, h3⟩, _⟩, h4⟩, h5⟩; exact ⟨h1, h2, h3, h4, h5⟩
  · rintro ⟨h1, h2, h3, h4, h5⟩; exact ⟨⟨⟨⟨⟨h1, h2⟩, h3⟩, trivial⟩, h4⟩, h5⟩

example : validKind 65535 = true ∧ validKind 65536 = false ∧ validKind (-1) = false := by decide

end Moc.C11
