/-
  C11 — Admission: well-formed messages are accepted, accepted ones are sound.

  Model: MocModel/Valid.lean (validators, every condition regenerated) and the label stage of
  `ParseClientMsg` (MocModel/Codec.lean, `labelOfChars`).  Spec: MocModel/Spec/Valid.lean.
-/
import MocModel.Spec.Valid
import MocModel.Codec

set_option linter.unusedSimpArgs false

namespace Moc.C11
open Moc Moc.ValidSpec

/-- the regexp the hand-written label scanner implements is the one in the source -/
theorem regexp_pinned : Gen.clientMsgRegexp = clientMsgRegexpExpected := by rfl

/-! ### the label stage accepts any insignificant white space -/

def IsJsonSpace (c : Char) : Prop := c = ' ' ∨ c = '\t' ∨ c = '\n' ∨ c = '\r'

theorem isReSpace_of_json (c : Char) (h : IsJsonSpace c) : isReSpace c = true := by
  rcases h with rfl | rfl | rfl | rfl <;> decide

theorem dropWhile_space_append (ws rest : List Char) (hws : ∀ c ∈ ws, isReSpace c = true) (c0 : Char)
    (hc : isReSpace c0 = false) : (ws ++ c0 :: rest).dropWhile isReSpace = c0 :: rest := by
  induction ws with
  | nil => simp [List.dropWhile, hc]
  | cons w ws ih =>
    have hw := hws w (by simp)
    simp only [List.cons_append, List.dropWhile, hw]
    exact ih (fun c h => hws c (List.mem_cons_of_mem _ h))

theorem takeWhile_word_append (w rest : List Char) (hw : ∀ c ∈ w, isReWord c = true) (c0 : Char)
    (hc : isReWord c0 = false) :
    (w ++ c0 :: rest).takeWhile isReWord = w ∧ (w ++ c0 :: rest).dropWhile isReWord = c0 :: rest := by
  induction w with
  | nil => simp [List.takeWhile, List.dropWhile, hc]
  | cons a w ih =>
    have ha := hw a (by simp)
    obtain ⟨h1, h2⟩ := ih (fun c h => hw c (List.mem_cons_of_mem _ h))
    simp [List.takeWhile, List.dropWhile, ha, h1, h2]

/-- **C11, completeness of the label stage**: any amount of JSON white space before `[` and between `[` and
    the label is accepted, and the label found is the text between the quotes. -/
theorem labelOf_wellformed (ws1 ws2 label rest : List Char)
    (h1 : ∀ c ∈ ws1, IsJsonSpace c) (h2 : ∀ c ∈ ws2, IsJsonSpace c) (hl : ∀ c ∈ label, isReWord c = true) :
    labelOfChars (ws1 ++ '[' :: (ws2 ++ '"' :: (label ++ '"' :: rest))) = some label := by
  unfold labelOfChars
  rw [dropWhile_space_append ws1 _ (fun c h => isReSpace_of_json c (h1 c h)) '[' (by decide)]
  simp only
  rw [dropWhile_space_append ws2 _ (fun c h => isReSpace_of_json c (h2 c h)) '"' (by decide)]
  simp only
  obtain ⟨ht, hd⟩ := takeWhile_word_append label rest hl '"' (by decide)
  rw [hd]
  simp [ht]

/-! ### validators = NIP-01 constraints -/

theorem hexChar_iff (c : Char) : (!Gen.hexCharReject c.toNat) = true ↔ c ∈ hexDigits := by
  simp only [Gen.hexCharReject, Bool.not_not, Bool.or_eq_true, Bool.and_eq_true, decide_eq_true_eq]
  constructor
  · intro h
    have hlt : c.toNat < 128 := by omega
    have hc : c = Char.ofNat c.toNat := (Char.ofNat_toNat c).symm
    have key : ∀ n : Fin 128, ((48 ≤ (n.val : Int) ∧ (n.val : Int) ≤ 57) ∨ (97 ≤ (n.val : Int) ∧ (n.val : Int) ≤ 102)) →
        Char.ofNat n.val ∈ hexDigits := by decide
    rw [hc]
    exact key ⟨c.toNat, hlt⟩ h
  · intro h
    have key : ∀ d ∈ hexDigits, ((48 ≤ (d.toNat : Int) ∧ (d.toNat : Int) ≤ 57) ∨ (97 ≤ (d.toNat : Int) ∧ (d.toNat : Int) ≤ 102)) := by
      decide
    exact key c h

theorem hexChar_reject_iff (c : Char) : Gen.hexCharReject c.toNat = false ↔ c ∈ hexDigits := by
  rw [← hexChar_iff]; cases Gen.hexCharReject c.toNat <;> simp

theorem isLowerHex_iff (n : Nat) (hn : 0 < n) (s : String) :
    (decide ((byteLen s.toList : Int) = n) && validHexChars s.toList) = true ↔ IsLowerHex n s := by
  unfold validHexChars IsLowerHex
  simp only [Gen.hexEmpty, Bool.and_eq_true, decide_eq_true_eq, List.all_eq_true, Bool.not_eq_true',
    beq_eq_false_iff_ne, ne_eq, hexChar_reject_iff]
  constructor
  · rintro ⟨h1, _, h3⟩; exact ⟨by omega, h3⟩
  · rintro ⟨h1, h3⟩; exact ⟨by omega, by omega, h3⟩

/-- **C11, ids / pubkeys / signatures**: judged valid exactly when they are 64 (128) bytes of lower-case hex. -/
theorem validID_iff (s : String) : validID s = true ↔ IsLowerHex 64 s := by
  rw [← isLowerHex_iff 64 (by decide) s]; simp [validID, validIDChars, Gen.validIDCond]

theorem validPubkey_iff (s : String) : validPubkey s = true ↔ IsLowerHex 64 s := by
  rw [← isLowerHex_iff 64 (by decide) s]; simp [validPubkey, validPubkeyChars, Gen.validPubkeyCond]

theorem validSig_iff (s : String) : validSig s = true ↔ IsLowerHex 128 s := by
  rw [← isLowerHex_iff 128 (by decide) s]; simp [validSig, validSigChars, Gen.validSigCond]

/-- **C11, kinds**: judged valid exactly when 0 ≤ kind ≤ 65535. -/
theorem validKind_iff (k : Int) : validKind k = true ↔ KindOk k := by
  simp [validKind, Gen.validKindCond, KindOk]

theorem validTag_iff (t : List String) : validTag t = true ↔ TagOk t := by
  cases t with
  | nil => simp [validTag, Gen.validTagCond, TagOk]
  | cons k r =>
    simp only [validTag, Gen.validTagCond, List.length_cons, TagOk]
    constructor
    · intro h; simp at h; exact ⟨k, r, rfl, h.2⟩
    · rintro ⟨k', r', heq, hk⟩
      cases heq
      simp [hk]; omega

/-- **C11, events**: `Event.Valid` holds exactly for events meeting the NIP-01 constraints — so a component
    behind the gate may rely on them (soundness) and no well-formed event is turned away (completeness). -/
theorem validEvent_iff (e : Event) : validEvent e = true ↔ EventOk e := by
  simp only [validEvent, Gen.eventValidCond, EventOk, Bool.and_eq_true, Bool.true_and, List.all_eq_true,
    validID_iff, validPubkey_iff, validSig_iff, validKind_iff, validTag_iff]
  constructor
  · rintro ⟨⟨⟨⟨⟨h1, h2⟩, h3⟩, _⟩, h4⟩, h5⟩; exact ⟨h1, h2, h3, h4, h5⟩
  · rintro ⟨h1, h2, h3, h4, h5⟩; exact ⟨⟨⟨⟨⟨h1, h2⟩, h3⟩, trivial⟩, h4⟩, h5⟩

example : validKind 65535 = true ∧ validKind 65536 = false ∧ validKind (-1) = false := by decide

theorem pubkeyChars_iff (cs : List Char) : validPubkeyChars cs = true ↔ (byteLen cs = 64 ∧ ∀ c ∈ cs, c ∈ hexDigits) := by
  have := validPubkey_iff (String.ofList cs)
  simp only [validPubkey, String.toList_ofList, IsLowerHex] at this
  exact this

/-- the two cuts of `SplitN(s, ":", 3)` -/
theorem split_at_colon (cs : List Char) :
    cs = cs.takeWhile (· != ':') ++ cs.dropWhile (· != ':') ∧ ':' ∉ cs.takeWhile (· != ':') ∧
    (∀ c r, cs.dropWhile (· != ':') = c :: r → c = ':') := by
  refine ⟨(List.takeWhile_append_dropWhile).symm, ?_, ?_⟩
  · induction cs with
    | nil => simp
    | cons x xs ih =>
      by_cases hx : x = ':'
      · simp [List.takeWhile_cons, hx]
      · simp only [List.takeWhile_cons, bne_iff_ne, ne_eq, hx, not_false_eq_true, decide_true, if_true, List.mem_cons, not_or]
        exact ⟨fun h => hx h.symm, ih⟩
  · induction cs with
    | nil => intro c r h; simp at h
    | cons x xs ih =>
      intro c r h
      by_cases hx : x = ':'
      · simp [List.dropWhile_cons, hx] at h; exact h.1.symm
      · simp only [List.dropWhile_cons, bne_iff_ne, ne_eq, hx, not_false_eq_true, decide_true, if_true] at h
        exact ih c r h

theorem takeWhile_of_decomp (a r : List Char) (ha : ':' ∉ a) :
    (a ++ ':' :: r).takeWhile (· != ':') = a ∧ (a ++ ':' :: r).dropWhile (· != ':') = ':' :: r := by
  induction a with
  | nil => simp
  | cons x xs ih =>
    have hx : x ≠ ':' := fun h => ha (by simp [h])
    have hxs : ':' ∉ xs := fun h => ha (List.mem_cons_of_mem _ h)
    obtain ⟨i1, i2⟩ := ih hxs
    simp [List.takeWhile_cons, List.dropWhile_cons, hx, i1, i2]

/-- **C11, addresses**: `validNaddr` holds exactly for `kind:pubkey:d` with a decimal kind in 0..65535, a 64-byte
    lower-case hex pubkey and ANY `d` (also one containing `:`). -/
theorem validNaddr_iff (s : String) : validNaddr s = true ↔ NaddrOk s := by
  unfold validNaddr validNaddrChars NaddrOk
  obtain ⟨e1, n1, c1⟩ := split_at_colon s.toList
  constructor
  · intro h
    unfold splitColon3 at h
    cases hd1 : s.toList.dropWhile (· != ':') with
    | nil => simp [hd1, Gen.naddrArityBad] at h
    | cons x r1 =>
      have hx := c1 x r1 hd1
      subst hx
      obtain ⟨e2, n2, c2⟩ := split_at_colon r1
      cases hd2 : r1.dropWhile (· != ':') with
      | nil => simp [hd1, hd2, Gen.naddrArityBad] at h
      | cons y r2 =>
        have hy := c2 y r2 hd2
        subst hy
        simp only [hd1, hd2, List.length_cons, List.length_nil, Gen.naddrArityBad, List.getD_cons_zero,
          List.getD_cons_succ] at h
        cases hp : parseInt64Chars (s.toList.takeWhile (· != ':')) with
        | none => simp [hp] at h
        | some kind =>
          simp only [hp, Gen.naddrKindBad, Gen.naddrPubkeyBad] at h
          have hk : validKind kind = true := by
            cases hv : validKind kind with
            | true => rfl
            | false => simp [hv] at h
          have hpk : validPubkeyChars (r1.takeWhile (· != ':')) = true := by
            cases hv : validPubkeyChars (r1.takeWhile (· != ':')) with
            | true => rfl
            | false => simp [hk, hv] at h
          obtain ⟨l1, l2⟩ := (pubkeyChars_iff _).1 hpk
          refine ⟨s.toList.takeWhile (· != ':'), r1.takeWhile (· != ':'), r2, kind, ?_, n1, n2, hp,
            (validKind_iff kind).1 hk, l1, l2⟩
          conv => lhs; rw [e1, hd1, e2, hd2]
          simp
  · rintro ⟨k, pk, d, kind, hs, hk, hpk, hp, hko, hl, hh⟩
    have hs' : s.toList = k ++ ':' :: (pk ++ ':' :: d) := by rw [hs]; simp
    obtain ⟨t1, t2⟩ := takeWhile_of_decomp k (pk ++ ':' :: d) hk
    obtain ⟨t3, t4⟩ := takeWhile_of_decomp pk d hpk
    unfold splitColon3
    rw [hs']
    simp only [t1, t2, t3, t4, List.length_cons, List.length_nil, Gen.naddrArityBad, List.getD_cons_zero,
      List.getD_cons_succ, hp, Gen.naddrKindBad, Gen.naddrPubkeyBad, (validKind_iff kind).2 hko,
      (pubkeyChars_iff pk).2 ⟨hl, hh⟩]
    simp

/-- **C11, tag conditions**: `#x` entries are judged valid exactly when the name is one ASCII letter and, for
    `#e` / `#p` / `#a`, every value is an id / pubkey / address. -/
theorem validTagCond_iff (c : String × List String) : validTagCond c = true ↔ TagCondOk c := by
  unfold validTagCond TagCondOk isLetterByte
  simp only [Gen.filterTagNameBad, Gen.filterTagE, Gen.filterTagP, Gen.filterTagA, Gen.filterTagEBad, Gen.filterTagPBad,
    Gen.filterTagABad]
  by_cases hn : ((byteLen c.1.toList : Int) != 1 ||
      !(decide (65 ≤ (((c.1.toUTF8.toList.getD 0 0).toNat : Nat) : Int)) && decide ((((c.1.toUTF8.toList.getD 0 0).toNat : Nat) : Int) ≤ 90) ||
        decide (97 ≤ (((c.1.toUTF8.toList.getD 0 0).toNat : Nat) : Int)) && decide ((((c.1.toUTF8.toList.getD 0 0).toNat : Nat) : Int) ≤ 122))) = true
  · simp only [hn, if_true, Bool.false_eq_true, false_iff]
    rintro ⟨⟨h1, h2⟩, _⟩
    simp only [Bool.or_eq_true, bne_iff_ne, ne_eq, Bool.not_eq_true', Bool.or_eq_false_iff, Bool.and_eq_false_iff,
      decide_eq_false_iff_not] at hn
    rcases hn with hn | hn
    · exact hn (by omega)
    · omega
  · simp only [hn, Bool.false_eq_true, if_false]
    have hname : byteLen c.1.toList = 1 ∧ ((65 ≤ (c.1.toUTF8.toList.getD 0 0).toNat ∧ (c.1.toUTF8.toList.getD 0 0).toNat ≤ 90) ∨
        (97 ≤ (c.1.toUTF8.toList.getD 0 0).toNat ∧ (c.1.toUTF8.toList.getD 0 0).toNat ≤ 122)) := by
      simp only [Bool.or_eq_true, bne_iff_ne, ne_eq, Bool.not_eq_true', Bool.and_eq_true, decide_eq_true_eq, not_or,
        Bool.not_eq_false, Decidable.not_not] at hn
      obtain ⟨h1, h2⟩ := hn
      refine ⟨by omega, ?_⟩
      rcases h2 with h2 | h2
      · left; omega
      · right; omega
    obtain ⟨name, vals⟩ := c
    simp only [] at hname ⊢
    by_cases he : name = "e"
    · subst he
      simp (config := { decide := true }) only [beq_self_eq_true, if_true, Bool.not_not, List.all_eq_true, validID_iff,
        true_implies, false_implies, and_true, hname]
      simp (config := { decide := true })
    · have he' : (name == "e") = false := by simpa using he
      simp only [he', Bool.false_eq_true, if_false]
      by_cases hp : name = "p"
      · subst hp
        simp (config := { decide := true }) only [beq_self_eq_true, if_true, Bool.not_not, List.all_eq_true, validPubkey_iff,
          hname]
        simp (config := { decide := true })
      · have hp' : (name == "p") = false := by simpa using hp
        simp only [hp', Bool.false_eq_true, if_false]
        by_cases ha : name = "a"
        · subst ha
          simp (config := { decide := true }) only [beq_self_eq_true, if_true, Bool.not_not, List.all_eq_true, validNaddr_iff,
            hname]
          simp (config := { decide := true })
        · have ha' : (name == "a") = false := by simpa using ha
          simp only [ha', Bool.false_eq_true, if_false, true_iff]
          exact ⟨hname, fun h => absurd h he, fun h => absurd h hp, fun h => absurd h ha⟩

/-- **C11, filters**: `ReqFilter.Valid` holds exactly for filters meeting the constraints. -/
theorem validFilter_iff (f : Filter) : validFilter f = true ↔ FilterOk f := by
  obtain ⟨ids, authors, kinds, tags, since, until_, limit⟩ := f
  simp only [validFilter, FilterOk, Gen.filterIdsBad, Gen.filterAuthorsBad, Gen.filterKindsBad, Gen.filterSinceBad,
    Gen.filterUntilBad, Gen.filterSinceUntilBad, Gen.filterLimitBad, Bool.and_eq_true]
  cases ids <;> cases authors <;> cases kinds <;> cases tags <;> cases since <;> cases until_ <;> cases limit <;>
    simp [List.all_eq_true, validID_iff, validPubkey_iff, validKind_iff, validTagCond_iff, and_assoc]

/-- the dispatcher `ValidClientMsg` and the list-carrying `Valid` methods are the ones the model follows -/
theorem valid_dispatch_pinned : validDispatchActual = validDispatchExpected := by rfl

/-- **C11, admission = the constraints.**  `ValidClientMsg` judges a parsed client message valid exactly when it
    meets the NIP-01 constraints: no well-formed message is turned away, and every component behind the gate may
    rely on them. -/
theorem validClientMsg_iff (m : ClientMsg) : validClientMsg m = true ↔ MsgOk m := by
  cases m with
  | event e => simpa [validClientMsg, Gen.clientEventValid, MsgOk] using validEvent_iff e
  | auth e => simpa [validClientMsg, Gen.clientAuthValid, MsgOk] using validEvent_iff e
  | close s => simp [validClientMsg, MsgOk, Gen.clientCloseValid]
  | req s fs =>
    simp only [validClientMsg, MsgOk, Gen.reqNoFilters, Bool.and_eq_true, Bool.not_eq_true', List.all_eq_true,
      validFilter_iff]
    constructor
    · rintro ⟨h1, h2⟩
      refine ⟨fun hn => ?_, h2⟩
      subst hn; simp at h1
    · rintro ⟨h1, h2⟩
      refine ⟨?_, h2⟩
      cases fs with
      | nil => exact absurd rfl h1
      | cons f fs => simp; omega
  | count s fs =>
    simp only [validClientMsg, MsgOk, Gen.countNoFilters, Bool.and_eq_true, Bool.not_eq_true', List.all_eq_true,
      validFilter_iff]
    constructor
    · rintro ⟨h1, h2⟩
      refine ⟨fun hn => ?_, h2⟩
      subst hn; simp at h1
    · rintro ⟨h1, h2⟩
      refine ⟨?_, h2⟩
      cases fs with
      | nil => exact absurd rfl h1
      | cons f fs => simp; omega

/-! ### the executable monitor is the Prop spec -/

theorem isLowerHexB_iff (n : Nat) (s : String) : isLowerHexB n s = true ↔ IsLowerHex n s := by
  simp [isLowerHexB, IsLowerHex, List.all_eq_true]

theorem kindOkB_iff (k : Int) : kindOkB k = true ↔ KindOk k := by simp [kindOkB, KindOk]

theorem tagOkB_iff (t : List String) : tagOkB t = true ↔ TagOk t := by
  cases t with
  | nil => simp [tagOkB, TagOk]
  | cons k r =>
    simp only [tagOkB, TagOk, bne_iff_ne, ne_eq]
    constructor
    · intro h; exact ⟨k, r, rfl, h⟩
    · rintro ⟨k', r', heq, hk⟩; cases heq; exact hk

theorem eventOkB_iff (e : Event) : eventOkB e = true ↔ EventOk e := by
  simp only [eventOkB, EventOk, Bool.and_eq_true, isLowerHexB_iff, kindOkB_iff, List.all_eq_true, tagOkB_iff]
  constructor
  · rintro ⟨⟨⟨⟨a, b⟩, c⟩, d⟩, e'⟩; exact ⟨a, b, c, d, e'⟩
  · rintro ⟨a, b, c, d, e'⟩; exact ⟨⟨⟨⟨a, b⟩, c⟩, d⟩, e'⟩

theorem naddrOkB_iff (s : String) : naddrOkB s = true ↔ NaddrOk s := by
  unfold naddrOkB NaddrOk
  obtain ⟨e1, n1, c1⟩ := split_at_colon s.toList
  simp only []
  constructor
  · intro h
    simp only [Bool.and_eq_true, decide_eq_true_eq, beq_iff_eq, List.all_eq_true, List.contains_iff_mem] at h
    obtain ⟨⟨⟨⟨hl1, hl2⟩, hk⟩, hlen⟩, hhex⟩ := h
    cases hd1 : s.toList.dropWhile (· != ':') with
    | nil => simp [hd1] at hl1
    | cons x r1 =>
      have hx := c1 x r1 hd1
      subst hx
      obtain ⟨e2, n2, c2⟩ := split_at_colon r1
      simp only [hd1, List.drop_succ_cons, List.drop_zero] at hl2 hlen hhex
      cases hd2 : r1.dropWhile (· != ':') with
      | nil => simp [hd2] at hl2
      | cons y r2 =>
        have hy := c2 y r2 hd2
        subst hy
        cases hp : parseInt64Chars (s.toList.takeWhile (· != ':')) with
        | none => simp [hp] at hk
        | some kind =>
          simp only [hp] at hk
          refine ⟨s.toList.takeWhile (· != ':'), r1.takeWhile (· != ':'), r2, kind, ?_, n1, n2, hp,
            (kindOkB_iff kind).1 hk, hlen, hhex⟩
          conv => lhs; rw [e1, hd1, e2, hd2]
          simp
  · rintro ⟨k, pk, d, kind, hs, hk, hpk, hp, hko, hl, hh⟩
    have hs' : s.toList = k ++ ':' :: (pk ++ ':' :: d) := by rw [hs]; simp
    obtain ⟨t1, t2⟩ := takeWhile_of_decomp k (pk ++ ':' :: d) hk
    obtain ⟨t3, t4⟩ := takeWhile_of_decomp pk d hpk
    rw [hs']
    simp only [t1, t2, t3, t4, List.drop_succ_cons, List.drop_zero, hp, (kindOkB_iff kind).2 hko, List.length_cons,
      Bool.and_eq_true, decide_eq_true_eq, beq_iff_eq, List.all_eq_true, List.contains_iff_mem]
    exact ⟨⟨⟨⟨by omega, by omega⟩, trivial⟩, hl⟩, hh⟩

theorem tagCondOkB_iff (c : String × List String) : tagCondOkB c = true ↔ TagCondOk c := by
  obtain ⟨name, vals⟩ := c
  simp only [tagCondOkB, TagCondOk, isLetterByte, Bool.and_eq_true, Bool.or_eq_true, beq_iff_eq, decide_eq_true_eq,
    bne_iff_ne, ne_eq, List.all_eq_true, isLowerHexB_iff, naddrOkB_iff]
  constructor
  · rintro ⟨⟨⟨⟨h1, h2⟩, h3⟩, h4⟩, h5⟩
    refine ⟨⟨h1, h2⟩, ?_, ?_, ?_⟩
    · intro he; rcases h3 with h | h
      · exact absurd he h
      · exact h
    · intro hp; rcases h4 with h | h
      · exact absurd hp h
      · exact h
    · intro ha; rcases h5 with h | h
      · exact absurd ha h
      · exact h
  · rintro ⟨⟨h1, h2⟩, h3, h4, h5⟩
    refine ⟨⟨⟨⟨h1, h2⟩, ?_⟩, ?_⟩, ?_⟩
    · by_cases he : name = "e"
      · exact Or.inr (h3 he)
      · exact Or.inl he
    · by_cases hp : name = "p"
      · exact Or.inr (h4 hp)
      · exact Or.inl hp
    · by_cases ha : name = "a"
      · exact Or.inr (h5 ha)
      · exact Or.inl ha

theorem filterOkB_iff (f : Filter) : filterOkB f = true ↔ FilterOk f := by
  obtain ⟨ids, authors, kinds, tags, since, until_, limit⟩ := f
  simp only [filterOkB, FilterOk, Bool.and_eq_true]
  cases ids <;> cases authors <;> cases kinds <;> cases tags <;> cases since <;> cases until_ <;> cases limit <;>
    simp [List.all_eq_true, isLowerHexB_iff, kindOkB_iff, tagCondOkB_iff, and_assoc]

/-- **the monitor evaluated on the implementation's verdicts is the constraint set of the theorems** -/
theorem msgOkB_iff (m : ClientMsg) : msgOkB m = true ↔ MsgOk m := by
  cases m with
  | event e => exact eventOkB_iff e
  | auth e => exact eventOkB_iff e
  | close s => simp [msgOkB, MsgOk]
  | req s fs =>
    simp only [msgOkB, MsgOk, Bool.and_eq_true, Bool.not_eq_true', List.all_eq_true, filterOkB_iff, List.isEmpty_eq_false_iff]
  | count s fs =>
    simp only [msgOkB, MsgOk, Bool.and_eq_true, Bool.not_eq_true', List.all_eq_true, filterOkB_iff, List.isEmpty_eq_false_iff]

/-- hence: the validators agree with the monitor on every message -/
theorem validClientMsg_eq_monitor (m : ClientMsg) : validClientMsg m = msgOkB m := by
  rw [Bool.eq_iff_iff, validClientMsg_iff, msgOkB_iff]

end Moc.C11
