/- helper lemmas for C14: a batch's events are settled after the batch, so a second run is a no-op -/
import MocModel.Sqlite
set_option linter.unusedSimpArgs false
set_option linter.unusedVariables false
namespace Moc.C14
open Moc

/-- executing the statements of `p` again changes nothing -/
def Settled (db : Db) (p : Params) : Prop :=
  ∃ old, db.events.find? (fun r => r.key == p.row.key) = some old ∧ upsertReplaces old p.row = false

theorem settled_noop (db : Db) (p : Params) (h : Settled db p) : db.insertOne p = db := by
  obtain ⟨old, hf, hn⟩ := h
  simp [Db.insertOne, hf, hn]

def Coherent (rows : List ERow) : Prop := ∀ r ∈ rows, ∀ r' ∈ rows, r.id = r'.id → r.createdAt = r'.createdAt

theorem find_map_same (l : List ERow) (new : ERow) (old : ERow)
    (h : l.find? (fun r => r.key == new.key) = some old) :
    (l.map (fun r => if r.key == new.key then new else r)).find? (fun r => r.key == new.key) = some new := by
  induction l with
  | nil => simp at h
  | cons x xs ih =>
    simp only [List.map_cons, List.find?_cons] at h ⊢
    by_cases hx : (x.key == new.key) = true
    · simp [hx]
    · simp only [hx] at h ⊢
      simp only [Bool.false_eq_true, if_false, hx]
      exact ih h

theorem find_map_other (l : List ERow) (new : ERow) (k : SKey) (hk : k ≠ new.key) :
    (l.map (fun r => if r.key == new.key then new else r)).find? (fun r => r.key == k) =
      l.find? (fun r => r.key == k) := by
  induction l with
  | nil => rfl
  | cons x xs ih =>
    simp only [List.map_cons, List.find?_cons]
    by_cases hx : (x.key == new.key) = true
    · have hxk : x.key = new.key := by simpa using hx
      have h1 : (new.key == k) = false := by simpa using (fun h : new.key = k => hk h.symm)
      have h2 : (x.key == k) = false := by rw [hxk]; exact h1
      simp only [hx, if_true, h1, h2, Bool.false_eq_true, if_false]
      exact ih
    · simp only [hx, Bool.false_eq_true, if_false, ih]

theorem mem_events_insertOne (db : Db) (q : Params) (r : ERow) (h : r ∈ (db.insertOne q).events) :
    r ∈ db.events ∨ r = q.row := by
  unfold Db.insertOne at h
  cases hf : db.events.find? (fun r => r.key == q.row.key) with
  | none => simp [hf] at h; exact h
  | some old =>
    simp only [hf] at h
    by_cases hr : upsertReplaces old q.row = true
    · simp only [hr, if_true, List.mem_map] at h
      obtain ⟨x, hx, hxe⟩ := h
      by_cases hk : (x.key == q.row.key) = true
      · simp [hk] at hxe; exact Or.inr hxe.symm
      · simp [hk] at hxe; exact Or.inl (hxe ▸ hx)
    · simp [hr] at h; exact Or.inl h

theorem settled_after (db : Db) (p : Params) : Settled (db.insertOne p) p := by
  unfold Db.insertOne
  cases hf : db.events.find? (fun r => r.key == p.row.key) with
  | none =>
    refine ⟨p.row, ?_, by simp [upsertReplaces]⟩
    simp [List.find?_append, hf]
  | some old =>
    by_cases hr : upsertReplaces old p.row = true
    · simp only [hr, if_true]
      exact ⟨p.row, find_map_same _ _ _ hf, by simp [upsertReplaces]⟩
    · simp only [hr, Bool.false_eq_true, if_false]
      exact ⟨old, hf, by simpa using hr⟩

theorem settled_preserved (db : Db) (p q : Params) (hs : Settled db p)
    (hcoh : ∀ r ∈ db.events, r.id = p.row.id → r.createdAt = p.row.createdAt) :
    Settled (db.insertOne q) p := by
  obtain ⟨old, hfo, hno⟩ := hs
  unfold Db.insertOne
  cases hf : db.events.find? (fun r => r.key == q.row.key) with
  | none =>
    exact ⟨old, by simp [List.find?_append, hfo], hno⟩
  | some oq =>
    by_cases hr : upsertReplaces oq q.row = true
    · simp only [hr, if_true]
      by_cases hk : p.row.key = q.row.key
      · -- the row under p's key is replaced by q's: q is strictly newer than what p could not replace
        rw [hk] at hfo
        rw [hfo] at hf
        cases hf
        refine ⟨q.row, by rw [hk]; exact find_map_same _ _ _ hfo, ?_⟩
        have hmem : old ∈ db.events := List.mem_of_find?_eq_some hfo
        have hc := hcoh old hmem
        simp only [upsertReplaces, Bool.and_eq_true, Bool.or_eq_true, bne_iff_ne, ne_eq, decide_eq_true_eq,
          beq_iff_eq] at hr
        obtain ⟨⟨h1, h2⟩, h3⟩ := hr
        have hle : p.row.createdAt ≤ old.createdAt := by
          by_cases hid : old.id = p.row.id
          · have := hc hid; omega
          · simp only [upsertReplaces, Bool.and_eq_false_iff, Bool.or_eq_false_iff, bne_eq_false_iff_eq,
              decide_eq_false_iff_not] at hno
            rcases hno with (h | h) | h
            · exact absurd h hid
            · exfalso
              simp only [Bool.and_eq_false_iff, beq_eq_false_iff_ne, ne_eq, decide_eq_false_iff_not] at h
              omega
            · omega
        simp only [upsertReplaces, Bool.and_eq_false_iff, decide_eq_false_iff_not]
        right; omega
      · exact ⟨old, by rw [find_map_other _ _ _ hk]; exact hfo, hno⟩
    · simp only [hr, Bool.false_eq_true, if_false]
      exact ⟨old, hfo, hno⟩

theorem fold_noop (ps : List Params) : ∀ db : Db, (∀ p ∈ ps, Settled db p) → ps.foldl Db.insertOne db = db := by
  induction ps with
  | nil => intro db _; rfl
  | cons q qs ih =>
    intro db h
    simp only [List.foldl_cons]
    rw [settled_noop db q (h q (by simp))]
    exact ih db (fun p hp => h p (List.mem_cons_of_mem _ hp))

theorem coherent_step (db : Db) (q : Params) (rows : List ERow)
    (h : Coherent (db.events ++ q.row :: rows)) : Coherent ((db.insertOne q).events ++ rows) := by
  intro r hr r' hr' hid
  have sub : ∀ x, x ∈ (db.insertOne q).events ++ rows → x ∈ db.events ++ q.row :: rows := by
    intro x hx
    rcases List.mem_append.1 hx with hx | hx
    · rcases mem_events_insertOne db q x hx with h1 | h1
      · exact List.mem_append.2 (Or.inl h1)
      · exact List.mem_append.2 (Or.inr (by simp [h1]))
    · exact List.mem_append.2 (Or.inr (List.mem_cons_of_mem _ hx))
  exact h r (sub r hr) r' (sub r' hr') hid

theorem settled_through (qs : List Params) (p : Params) :
    ∀ db : Db, Settled db p → Coherent (db.events ++ p.row :: qs.map (·.row)) →
      Settled (qs.foldl Db.insertOne db) p := by
  induction qs with
  | nil => intro db h _; exact h
  | cons q qs ih =>
    intro db hs hcoh
    simp only [List.foldl_cons]
    apply ih
    · apply settled_preserved db p q hs
      intro r hr hid
      exact hcoh r (List.mem_append.2 (Or.inl hr)) p.row (by simp) hid
    · -- rows of the next state are rows of this one or q's
      intro r hr r' hr' hid
      have sub : ∀ x, x ∈ (db.insertOne q).events ++ p.row :: qs.map (·.row) →
          x ∈ db.events ++ p.row :: (q :: qs).map (·.row) := by
        intro x hx
        rcases List.mem_append.1 hx with hx | hx
        · rcases mem_events_insertOne db q x hx with h1 | h1
          · exact List.mem_append.2 (Or.inl h1)
          · exact List.mem_append.2 (Or.inr (by simp [h1]))
        · rcases List.mem_cons.1 hx with h1 | h1
          · exact List.mem_append.2 (Or.inr (by simp [h1]))
          · exact List.mem_append.2 (Or.inr (by simp only [List.map_cons, List.mem_cons]; exact Or.inr (Or.inr h1)))
      exact hcoh r (sub r hr) r' (sub r' hr') hid

theorem fold_settled (ps : List Params) :
    ∀ db : Db, Coherent (db.events ++ ps.map (·.row)) → ∀ p ∈ ps, Settled (ps.foldl Db.insertOne db) p := by
  induction ps with
  | nil => intro db _ p hp; cases hp
  | cons q qs ih =>
    intro db hcoh p hp
    simp only [List.foldl_cons]
    have hcoh1 : Coherent ((db.insertOne q).events ++ qs.map (·.row)) := coherent_step db q _ hcoh
    rcases List.mem_cons.1 hp with rfl | hp
    · apply settled_through qs p _ (settled_after db p)
      intro r hr r' hr' hid
      have sub : ∀ x, x ∈ (db.insertOne p).events ++ p.row :: qs.map (·.row) → x ∈ db.events ++ (p :: qs).map (·.row) := by
        intro x hx
        rcases List.mem_append.1 hx with hx | hx
        · rcases mem_events_insertOne db p x hx with h1 | h1
          · exact List.mem_append.2 (Or.inl h1)
          · exact List.mem_append.2 (Or.inr (by simp [h1]))
        · exact List.mem_append.2 (Or.inr (by simpa using hx))
      exact hcoh r (sub r hr) r' (sub r' hr') hid
    · exact ih _ hcoh1 p hp

end Moc.C14
