/-
  C05 — Deletion requests touch only the author's own events; authors are isolated.
  Model: `Cache.add`, `Cache.delete`, `Cache.deleteByKind5` (MocModel/Cache.lean).
-/
import MocProps.C04

set_option linter.unusedSimpArgs false

namespace Moc.C05
open Moc Moc.CacheL Moc.C04

/-- the eviction victim has the smallest created_at of the store -/
theorem oldestOf_min : ∀ (l : List Event) (o : Event), oldestOf l = some o → ∀ y ∈ l, o.createdAt ≤ y.createdAt := by
  intro l
  induction l with
  | nil => intro o h; cases h
  | cons e es ih =>
    intro o h y hy
    unfold oldestOf at h
    cases hr : oldestOf es with
    | none =>
      simp only [hr] at h
      cases h
      have := oldestOf_none es hr
      subst this
      simp only [List.mem_singleton] at hy
      subst hy; exact Int.le_refl _
    | some o' =>
      simp only [hr] at h
      have ih' := ih o' hr
      by_cases hb : before o' e = true
      · simp only [hb, if_true] at h
        cases h
        have hle : e.createdAt ≤ o'.createdAt := by
          simp only [before, Gen.treeLess, Bool.or_eq_true, Bool.and_eq_true, decide_eq_true_eq, beq_iff_eq] at hb
          rcases hb with hb | ⟨hb, _⟩ <;> omega
        simp only [List.mem_cons] at hy
        rcases hy with rfl | hy
        · exact Int.le_refl _
        · exact Int.le_trans hle (ih' y hy)
      · have hb' : before o' e = false := by simpa using hb
        simp only [hb', Bool.false_eq_true, if_false] at h
        cases h
        have hle : o.createdAt ≤ e.createdAt := by
          simp only [before, Gen.treeLess, Bool.or_eq_false_iff, decide_eq_false_iff_not] at hb'
          omega
        simp only [List.mem_cons] at hy
        rcases hy with rfl | hy
        · exact hle
        · exact ih' y hy

/-- **C05, blocking**: while a deletion request of the author that references an event (by its key, or by
    its id) is registered, offering that event changes nothing and is reported as not new. -/
theorem blocked_while_deletion_retained (c : Cache) (e : Event) (hne : eventType e.kind ≠ .ephemeral)
    (h : c.isDeleted (eventKey e) e.pubkey = true ∨ c.isDeleted e.id e.pubkey = true) :
    c.add e = (c, false) := by
  have heph' : (eventType e.kind == EventType.ephemeral) = false := by simpa using hne
  unfold Cache.add
  simp only [heph', Bool.false_eq_true, if_false, Gen.addBlocked]
  rcases h with h | h <;> simp [h]

/-- one `delete` issued on behalf of author `p` never removes an event of another author -/
theorem delete_isolated (c : Cache) (k p : String) (x : Event) (hx : x ∈ c.evs)
    (hnd : (c.evs.map eventKey).Nodup) (hp : x.pubkey ≠ p) : x ∈ (c.delete k p).evs :=
  delete_keeps_other_author c k p x hx hnd hp

/-- **C05, a deletion request only removes events of its own author**: whatever it references. -/
theorem deleteByKind5_isolated (c : Cache) (e x : Event) (hx : x ∈ c.evs)
    (hnd : (c.evs.map eventKey).Nodup) (hp : x.pubkey ≠ e.pubkey) : x ∈ (c.deleteByKind5 e).evs := by
  have := deleteByKind5_props (fun c' => (c'.evs.map eventKey).Nodup ∧ x ∈ c'.evs) c e
    (fun c' k h => ⟨keys_nodup_delete c' k _ h.1, delete_keeps_other_author c' k _ x h.2 h.1 hp⟩) ⟨hnd, hx⟩
  exact this.2

/-- **C05, author isolation**: an insertion by one author never removes an event of a different author,
    except as the capacity-eviction victim — and that victim has the smallest created_at of the store.
    (`hkey`: an event of another author is never stored under the key of the offered event — keys of
    replaceable / addressable events contain the author, ids are hashes.) -/
theorem author_isolation (c : Cache) (e x : Event) (hinv : Inv1 c) (hx : x ∈ c.evs)
    (hp : x.pubkey ≠ e.pubkey) (hkey : eventKey x ≠ eventKey e) :
    x ∈ (c.add e).1.evs ∨
      ((c.evs.length : Int) + 1 > c.cap ∧ ∀ y ∈ (c.add e).1.evs, x.createdAt ≤ y.createdAt) := by
  unfold Cache.add
  by_cases heph : (eventType e.kind == EventType.ephemeral) = true
  · simp only [heph, if_true]; exact Or.inl hx
  · simp only [heph, Bool.false_eq_true, if_false]
    by_cases hb : Gen.addBlocked (c.isDeleted (eventKey e) e.pubkey) (c.isDeleted e.id e.pubkey) = true
    · simp only [hb, if_true]; exact Or.inl hx
    · simp only [hb, Bool.false_eq_true, if_false]
      -- after addEv: x still there, keys distinct, at most one more event
      have hA : ∀ c1 b, c.addEv (eventKey e) e = (c1, b) →
          x ∈ c1.evs ∧ (c1.evs.map eventKey).Nodup ∧ c1.evs.length ≤ c.evs.length + 1 ∧ c1.cap = c.cap := by
        intro c1 b hadd
        unfold Cache.addEv at hadd
        cases hl : c.lookup (eventKey e) with
        | none =>
          simp only [hl] at hadd; cases hadd
          refine ⟨List.mem_cons_of_mem _ hx, ?_, by simp, rfl⟩
          simp only [List.map_cons, List.nodup_cons]
          refine ⟨?_, hinv.keys⟩
          intro hm
          obtain ⟨y, hy, hyk⟩ := List.mem_map.1 hm
          exact lookup_none c _ hl y hy hyk
        | some old =>
          simp only [hl] at hadd
          split at hadd
          · cases hadd; exact ⟨hx, hinv.keys, by omega, rfl⟩
          · cases hadd
            have hown := delete_own c (eventKey e) old hl
            refine ⟨List.mem_cons_of_mem _ (delete_keeps_other_key c _ _ x hx hkey), ?_, ?_, by simp [delete_cap]⟩
            · simp only [List.map_cons, List.nodup_cons]
              refine ⟨?_, keys_nodup_delete c _ _ hinv.keys⟩
              intro hm
              obtain ⟨y, hy, hyk⟩ := List.mem_map.1 hm
              rw [hown] at hy
              have := (List.mem_filter.1 hy).2
              simp [hyk] at this
            · simp only [List.length_cons]
              have := length_delete_le c (eventKey e) old.pubkey
              omega
      cases hadd : c.addEv (eventKey e) e with
      | mk c1 b =>
        cases b with
        | false => exact Or.inl hx
        | true =>
          obtain ⟨hx1, hnd1, hlen1, hcap1⟩ := hA c1 true hadd
          simp only []
          have h2 : (fun c' => x ∈ c'.evs ∧ (c'.evs.map eventKey).Nodup ∧ c'.evs.length ≤ c.evs.length + 1 ∧ c'.cap = c.cap)
              (if Gen.addIsKind5 e.kind = true then (c1.addKind5 e).deleteByKind5 e else c1) := by
            split
            · exact deleteByKind5_props
                (fun c' => x ∈ c'.evs ∧ (c'.evs.map eventKey).Nodup ∧ c'.evs.length ≤ c.evs.length + 1 ∧ c'.cap = c.cap) _ e
                (fun c' k h => ⟨delete_keeps_other_author c' k _ x h.1 h.2.1 hp, keys_nodup_delete c' k _ h.2.1,
                  Nat.le_trans (length_delete_le c' k _) h.2.2.1, by rw [delete_cap]; exact h.2.2.2⟩)
                ⟨hx1, hnd1, hlen1, hcap1⟩
            · exact ⟨hx1, hnd1, hlen1, hcap1⟩
          generalize (if Gen.addIsKind5 e.kind = true then (c1.addKind5 e).deleteByKind5 e else c1) = c2 at h2
          obtain ⟨hx2, hnd2, hlen2, hcap2⟩ := h2
          by_cases hov : Gen.addOverCap c2.evs.length c2.cap = true
          · simp only [hov, if_true]
            have hgt : (c2.evs.length : Int) > c2.cap := by simpa [Gen.addOverCap] using hov
            cases ho : oldestOf c2.evs with
            | none => exact Or.inl hx2
            | some o =>
              simp only []
              by_cases hxo : eventKey x = eventKey o
              · -- x is the eviction victim
                have hom := oldestOf_mem _ _ ho
                have : x = o := by
                  have h1 := lookup_own_key c2 x hx2 hnd2
                  have h2 := lookup_own_key c2 o hom hnd2
                  rw [hxo] at h1
                  rw [h1] at h2
                  exact Option.some.inj h2
                subst this
                right
                refine ⟨by rw [hcap2] at hgt; omega, ?_⟩
                intro y hy
                exact oldestOf_min _ _ ho y (delete_mem c2 _ _ y hy)
              · exact Or.inl (delete_keeps_other_key c2 _ _ x hx2 hxo)
          · have hov' : Gen.addOverCap c2.evs.length c2.cap = false := by simpa using hov
            simp only [hov', Bool.false_eq_true, if_false]
            exact Or.inl hx2

/-- **C05, registration**: every reference of an accepted deletion request is registered under its author,
    so (by `blocked_while_deletion_retained`) the referenced events of that author cannot be inserted again. -/
theorem k5_refs_registered (c : Cache) (e : Event) :
    ∀ k ∈ k5Refs e, (c.addKind5 e).isDeleted k e.pubkey = true := by
  intro k hk
  unfold Cache.addKind5 Cache.isDeleted
  simp only
  -- the fold only ever adds triples; the triple of `k` is added when `k` is reached
  have hgen : ∀ (refs : List String) (d : List (String × String × String)),
      (∀ t ∈ d, t ∈ refs.foldl (fun d k => if d.contains (k, e.pubkey, e.id) then d else (k, e.pubkey, e.id) :: d) d) ∧
      (∀ k ∈ refs, (k, e.pubkey, e.id) ∈ refs.foldl (fun d k => if d.contains (k, e.pubkey, e.id) then d else (k, e.pubkey, e.id) :: d) d) := by
    intro refs
    induction refs with
    | nil => intro d; exact ⟨fun t ht => ht, fun k hk => by cases hk⟩
    | cons r rs ih =>
      intro d
      simp only [List.foldl_cons]
      obtain ⟨ih1, ih2⟩ := ih (if d.contains (r, e.pubkey, e.id) then d else (r, e.pubkey, e.id) :: d)
      constructor
      · intro t ht
        apply ih1
        split
        · exact ht
        · exact List.mem_cons_of_mem _ ht
      · intro k hk
        simp only [List.mem_cons] at hk
        rcases hk with rfl | hk
        · apply ih1
          split
          · rename_i hc; simpa using hc
          · simp
        · exact ih2 k hk
  have := (hgen (k5Refs e) c.deleted).2 k hk
  simp only [List.any_eq_true]
  exact ⟨_, this, by simp⟩

/-- a `delete` of `x`'s own key on behalf of its own author removes it -/
theorem delete_removes_own (c : Cache) (x : Event) (hnd : (c.evs.map eventKey).Nodup) :
    x ∉ (c.delete (eventKey x) x.pubkey).evs := by
  by_cases hx : x ∈ c.evs
  · rw [delete_own c (eventKey x) x (lookup_own_key c x hx hnd)]
    intro hm
    have := (List.mem_filter.1 hm).2
    simp at this
  · exact fun hm => hx (delete_mem c _ _ x hm)

theorem foldl_delete_removes (x : Event) : ∀ (xs : List Event) (c : Cache), x ∈ xs →
    (c.evs.map eventKey).Nodup → x ∉ (xs.foldl (fun c y => c.delete (eventKey y) x.pubkey) c).evs := by
  intro xs
  induction xs with
  | nil => intro c h; cases h
  | cons y ys ih =>
    intro c hm hnd
    simp only [List.foldl_cons]
    by_cases hyx : y = x
    · subst hyx
      have h0 := delete_removes_own c y hnd
      exact foldl_delete_props (fun c' => y ∉ c'.evs) y.pubkey
        (fun c' k h hm' => h (delete_mem c' k _ y hm')) ys _ h0
    · simp only [List.mem_cons] at hm
      rcases hm with hm | hm
      · exact absurd hm.symm hyx
      · exact ih _ hm (keys_nodup_delete c _ _ hnd)

/-- one iteration of the loop of `deleteByKind5`: delete the key, then every event carrying it as id -/
def k5Step (p : String) (c : Cache) (k : String) : Cache :=
  ((c.delete k p).evs.filter (fun y => y.id == k)).foldl (fun c y => c.delete (eventKey y) p) (c.delete k p)

theorem deleteByKind5_eq (c : Cache) (e : Event) : c.deleteByKind5 e = (k5Refs e).foldl (k5Step e.pubkey) c := rfl

theorem k5Step_absent (p : String) (c : Cache) (k : String) (x : Event) (h : x ∉ c.evs) : x ∉ (k5Step p c k).evs :=
  foldl_delete_props (fun c'' => x ∉ c''.evs) p (fun c'' k' h' hm => h' (delete_mem c'' k' _ x hm)) _ _
    (fun hm => h (delete_mem c k _ x hm))

theorem k5Step_nodup (p : String) (c : Cache) (k : String) (h : (c.evs.map eventKey).Nodup) :
    ((k5Step p c k).evs.map eventKey).Nodup :=
  foldl_delete_props (fun c'' => (c''.evs.map eventKey).Nodup) p (fun c'' k' h' => keys_nodup_delete c'' k' _ h') _ _
    (keys_nodup_delete c k _ h)

theorem k5Steps_absent (p : String) (x : Event) : ∀ (rs : List String) (c : Cache), x ∉ c.evs →
    x ∉ (rs.foldl (k5Step p) c).evs := by
  intro rs
  induction rs with
  | nil => intro c h; exact h
  | cons r rs ih => intro c h; exact ih _ (k5Step_absent p c r x h)

/-- **C05, a deletion request removes the events of its own author that it references** — by the key they
    are stored under (id of a regular event, address of a replaceable / addressable one) or by their id. -/
theorem deleteByKind5_removes (c : Cache) (e x : Event) (hnd : (c.evs.map eventKey).Nodup)
    (hp : x.pubkey = e.pubkey) (href : eventKey x ∈ k5Refs e ∨ x.id ∈ k5Refs e) :
    x ∉ (c.deleteByKind5 e).evs := by
  rw [deleteByKind5_eq]
  generalize k5Refs e = refs at href
  induction refs generalizing c with
  | nil => rcases href with h | h <;> cases h
  | cons r rs ih =>
    simp only [List.foldl_cons]
    by_cases hit : r = eventKey x ∨ r = x.id
    · have hgone : x ∉ (k5Step e.pubkey c r).evs := by
        rcases hit with rfl | rfl
        · have h0 : x ∉ (c.delete (eventKey x) e.pubkey).evs := by rw [← hp]; exact delete_removes_own c x hnd
          exact foldl_delete_props (fun c'' => x ∉ c''.evs) e.pubkey (fun c'' k' h' hm => h' (delete_mem c'' k' _ x hm)) _ _ h0
        · by_cases hx1 : x ∈ (c.delete x.id e.pubkey).evs
          · have hmem : x ∈ (c.delete x.id e.pubkey).evs.filter (fun y => y.id == x.id) :=
              List.mem_filter.2 ⟨hx1, by simp⟩
            have := foldl_delete_removes x _ (c.delete x.id e.pubkey) hmem (keys_nodup_delete c _ _ hnd)
            rw [hp] at this
            exact this
          · exact foldl_delete_props (fun c'' => x ∉ c''.evs) e.pubkey (fun c'' k' h' hm => h' (delete_mem c'' k' _ x hm)) _ _ hx1
      exact k5Steps_absent e.pubkey x rs _ hgone
    · have href' : eventKey x ∈ rs ∨ x.id ∈ rs := by
        rcases href with h | h
        · simp only [List.mem_cons] at h
          rcases h with h | h
          · exact absurd (Or.inl h.symm) hit
          · exact Or.inl h
        · simp only [List.mem_cons] at h
          rcases h with h | h
          · exact absurd (Or.inr h.symm) hit
          · exact Or.inr h
      exact ih _ (k5Step_nodup e.pubkey c r hnd) href'

/-! ### non-vacuity: a deletion request removes its author's event, not the other author's -/

example :
    let a1 := C04.ev "1" "alice" 5 1 []
    let b1 := C04.ev "2" "bob" 5 1 []
    let k5 := C04.ev "3" "alice" 6 5 [["e", "1"], ["e", "2"]]
    ((C04.run { cap := 10 } [a1, b1, k5]).evs.map (·.id)) = ["3", "2"] := by decide

end Moc.C05
