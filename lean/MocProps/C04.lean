/-
  C04 — In-memory store retention: capacity, no duplicates, newest version wins.

  Model: `Cache.add` (MocModel/Cache.lean), comparisons regenerated from event_cache.go / message.go.
  The theorems hold for EVERY insertion history and every capacity ≥ 0.
-/
import MocProps.CacheLemmas
import MocModel.Spec.Cache

set_option linter.unusedSimpArgs false

namespace Moc.C04
open Moc Moc.CacheL

/-- retention invariant: one event per key, at most `cap` events, no ephemeral event -/
structure Inv1 (c : Cache) : Prop where
  keys : (c.evs.map eventKey).Nodup
  capOk : (c.evs.length : Int) ≤ c.cap
  noEph : ∀ x ∈ c.evs, eventType x.kind ≠ .ephemeral

theorem inv_empty (cap : Int) (h : 0 ≤ cap) : Inv1 { cap := cap } :=
  ⟨List.nodup_nil, by simpa using h, by intro x hx; cases hx⟩

theorem oldestOf_mem : ∀ (l : List Event) (o : Event), oldestOf l = some o → o ∈ l := by
  intro l
  induction l with
  | nil => intro o h; cases h
  | cons e es ih =>
    intro o h
    unfold oldestOf at h
    cases hr : oldestOf es with
    | none => simp [hr] at h; subst h; simp
    | some o' =>
      simp only [hr] at h
      split at h
      · cases h; simp
      · cases h; exact List.mem_cons_of_mem _ (ih _ hr)

theorem oldestOf_none : ∀ (l : List Event), oldestOf l = none → l = [] := by
  intro l h
  cases l with
  | nil => rfl
  | cons e es =>
    unfold oldestOf at h
    cases hr : oldestOf es <;> simp [hr] at h
    split at h <;> cases h

/-- the weaker shape kept through the middle of `Add`: distinct keys, no ephemeral event, same capacity,
    and at most `n` events -/
structure Mid (cap : Int) (n : Nat) (c : Cache) : Prop where
  keys : (c.evs.map eventKey).Nodup
  len : c.evs.length ≤ n
  noEph : ∀ x ∈ c.evs, eventType x.kind ≠ .ephemeral
  cap : c.cap = cap

theorem mid_delete (cap : Int) (n : Nat) (c : Cache) (k p : String) (h : Mid cap n c) : Mid cap n (c.delete k p) :=
  ⟨keys_nodup_delete c k p h.keys, Nat.le_trans (length_delete_le c k p) h.len,
   fun x hx => h.noEph x (delete_mem c k p x hx), by rw [delete_cap]; exact h.cap⟩

/-- **C04, one insertion preserves the invariant** (and never changes the capacity). -/
theorem add_inv (c : Cache) (e : Event) (h : Inv1 c) : Inv1 (c.add e).1 ∧ (c.add e).1.cap = c.cap := by
  obtain ⟨hk, hc, hn⟩ := h
  unfold Cache.add
  by_cases heph : eventType e.kind = .ephemeral
  · simp [heph]; exact ⟨hk, hc, hn⟩
  · have heph' : (eventType e.kind == EventType.ephemeral) = false := by simpa using heph
    simp only [heph', Bool.false_eq_true, if_false]
    split
    · exact ⟨⟨hk, hc, hn⟩, rfl⟩
    · -- addEv
      have hmid : ∀ c1 b, c.addEv (eventKey e) e = (c1, b) → b = true → Mid c.cap (c.evs.length + 1) c1 ∧
          (c1.evs.length : Int) ≤ c.cap + 1 := by
        intro c1 b hadd hb
        subst hb
        unfold Cache.addEv at hadd
        cases hl : c.lookup (eventKey e) with
        | none =>
          simp only [hl] at hadd
          cases hadd
          have hfresh := lookup_none c (eventKey e) hl
          refine ⟨⟨?_, by simp, ?_, rfl⟩, by simp; omega⟩
          · simp only [List.map_cons, List.nodup_cons]
            refine ⟨?_, hk⟩
            intro hm
            obtain ⟨x, hx, hxk⟩ := List.mem_map.1 hm
            exact hfresh x hx hxk
          · intro x hx
            simp only [List.mem_cons] at hx
            rcases hx with rfl | hx
            · exact heph
            · exact hn x hx
        | some old =>
          simp only [hl] at hadd
          split at hadd
          · cases hadd
          · cases hadd
            have hown := delete_own c (eventKey e) old hl
            have hold := lookup_mem c (eventKey e) old hl
            have hlen : (c.evs.filter fun y => eventKey y != eventKey e).length + 1 ≤ c.evs.length := by
              have hlt : (c.evs.filter fun y => eventKey y != eventKey e).length < c.evs.length := by
                apply List.length_filter_lt_length_iff_exists.2
                exact ⟨old, hold.1, by simp [hold.2]⟩
              omega
            refine ⟨⟨?_, ?_, ?_, by simp [delete_cap]⟩, ?_⟩
            · simp only [List.map_cons, List.nodup_cons]
              refine ⟨?_, keys_nodup_delete c _ _ hk⟩
              intro hm
              obtain ⟨x, hx, hxk⟩ := List.mem_map.1 hm
              rw [hown] at hx
              have := (List.mem_filter.1 hx).2
              simp [hxk] at this
            · simp only [List.length_cons, hown]; omega
            · intro x hx
              simp only [List.mem_cons] at hx
              rcases hx with rfl | hx
              · exact heph
              · exact hn x (delete_mem c _ _ x hx)
            · simp only [List.length_cons, hown]; omega
      cases hadd : c.addEv (eventKey e) e with
      | mk c1 b =>
        cases b with
        | false => exact ⟨⟨hk, hc, hn⟩, rfl⟩
        | true =>
          obtain ⟨hm1, hlen1⟩ := hmid c1 true hadd rfl
          simp only []
          -- kind-5 processing keeps the shape
          have hm2 : Mid c.cap (c.evs.length + 1) (if Gen.addIsKind5 e.kind = true then (c1.addKind5 e).deleteByKind5 e else c1) := by
            split
            · exact deleteByKind5_props (Mid c.cap (c.evs.length + 1)) _ e (fun c' k h => mid_delete c.cap _ c' k _ h)
                ⟨hm1.keys, hm1.len, hm1.noEph, hm1.cap⟩
            · exact hm1
          generalize (if Gen.addIsKind5 e.kind = true then (c1.addKind5 e).deleteByKind5 e else c1) = c2 at hm2
          -- eviction
          by_cases hov : Gen.addOverCap c2.evs.length c2.cap = true
          · simp only [hov, if_true]
            have hgt : (c2.evs.length : Int) > c2.cap := by simpa [Gen.addOverCap] using hov
            cases ho : oldestOf c2.evs with
            | none =>
              have := oldestOf_none _ ho
              rw [this] at hgt
              rw [hm2.cap] at hgt
              simp at hgt
              have : (0 : Int) ≤ c.evs.length := by omega
              omega
            | some o =>
              have hom := oldestOf_mem _ _ ho
              have hlo := lookup_own_key c2 o hom hm2.keys
              have hown := delete_own c2 (eventKey o) o hlo
              have hlt : (c2.evs.filter fun y => eventKey y != eventKey o).length < c2.evs.length := by
                apply List.length_filter_lt_length_iff_exists.2
                exact ⟨o, hom, by simp⟩
              have hm3 := mid_delete c.cap _ c2 (eventKey o) o.pubkey hm2
              refine ⟨⟨hm3.keys, ?_, hm3.noEph⟩, hm3.cap⟩
              rw [hm3.cap, hown]
              have := hm2.len
              omega
          · have hov' : Gen.addOverCap c2.evs.length c2.cap = false := by simpa using hov
            simp only [hov', Bool.false_eq_true, if_false]
            refine ⟨⟨hm2.keys, ?_, hm2.noEph⟩, hm2.cap⟩
            have : ¬ ((c2.evs.length : Int) > c2.cap) := by simpa [Gen.addOverCap] using hov'
            omega

/-- run an insertion history -/
def run (c : Cache) (es : List Event) : Cache := es.foldl (fun c e => (c.add e).1) c

/-- **C04, every history, every capacity**: after any sequence of insertions the store holds at most
    `capacity` events, at most one per key (id for regular events, address for replaceable and addressable
    ones), and no ephemeral event. -/
theorem retention_all_histories (cap : Int) (hcap : 0 ≤ cap) (es : List Event) :
    Inv1 (run { cap := cap } es) ∧ (run { cap := cap } es).cap = cap := by
  suffices h : ∀ c, Inv1 c → Inv1 (run c es) ∧ (run c es).cap = c.cap from h _ (inv_empty cap hcap)
  induction es with
  | nil => intro c h; exact ⟨h, rfl⟩
  | cons e es ih =>
    intro c h
    obtain ⟨h1, h2⟩ := add_inv c e h
    obtain ⟨h3, h4⟩ := ih _ h1
    exact ⟨h3, by rw [show run c (e :: es) = run (c.add e).1 es from rfl, h4, h2]⟩

/-- nothing but the offered event ever enters the store -/
theorem add_subset (c : Cache) (e : Event) : ∀ x ∈ (c.add e).1.evs, x ∈ c.evs ∨ x = e := by
  unfold Cache.add
  by_cases heph : (eventType e.kind == EventType.ephemeral) = true
  · simp only [heph, if_true]; intro x hx; exact Or.inl hx
  · simp only [heph, Bool.false_eq_true, if_false]
    by_cases hb : Gen.addBlocked (c.isDeleted (eventKey e) e.pubkey) (c.isDeleted e.id e.pubkey) = true
    · simp only [hb, if_true]; intro x hx; exact Or.inl hx
    · simp only [hb, Bool.false_eq_true, if_false]
      have hP : ∀ c1 b, c.addEv (eventKey e) e = (c1, b) → ∀ x ∈ c1.evs, x ∈ c.evs ∨ x = e := by
        intro c1 b hadd x hx
        unfold Cache.addEv at hadd
        cases hl : c.lookup (eventKey e) with
        | none =>
          simp only [hl] at hadd; cases hadd
          simp only [List.mem_cons] at hx
          rcases hx with rfl | hx
          · exact Or.inr rfl
          · exact Or.inl hx
        | some old =>
          simp only [hl] at hadd
          split at hadd
          · cases hadd; exact Or.inl hx
          · cases hadd
            simp only [List.mem_cons] at hx
            rcases hx with rfl | hx
            · exact Or.inr rfl
            · exact Or.inl (delete_mem c _ _ x hx)
      cases hadd : c.addEv (eventKey e) e with
      | mk c1 b =>
        cases b with
        | false => intro x hx; exact Or.inl hx
        | true =>
          simp only []
          let P : Cache → Prop := fun c' => ∀ x ∈ c'.evs, x ∈ c.evs ∨ x = e
          have hPd : ∀ c' k p, P c' → P (c'.delete k p) := fun c' k p h x hx => h x (delete_mem c' k p x hx)
          have h2 : P (if Gen.addIsKind5 e.kind = true then (c1.addKind5 e).deleteByKind5 e else c1) := by
            split
            · exact deleteByKind5_props P _ e (fun c' k h => hPd c' k _ h) (hP c1 true hadd)
            · exact hP c1 true hadd
          generalize (if Gen.addIsKind5 e.kind = true then (c1.addKind5 e).deleteByKind5 e else c1) = c2 at h2
          split
          · split
            · exact hPd _ _ _ h2
            · exact h2
          · exact h2

theorem run_subset (c : Cache) (es : List Event) : ∀ x ∈ (run c es).evs, x ∈ c.evs ∨ x ∈ es := by
  induction es generalizing c with
  | nil => intro x hx; exact Or.inl hx
  | cons e es ih =>
    intro x hx
    rcases ih (c.add e).1 x hx with h | h
    · rcases add_subset c e x h with h' | h'
      · exact Or.inl h'
      · exact Or.inr (by simp [h'])
    · exact Or.inr (List.mem_cons_of_mem _ h)

theorem nodup_of_nodup_map {α β} (f : α → β) : ∀ (l : List α), (l.map f).Nodup → l.Nodup := by
  intro l
  induction l with
  | nil => intro _; exact List.nodup_nil
  | cons a l ih =>
    intro h
    simp only [List.map_cons, List.nodup_cons] at h
    exact List.nodup_cons.2 ⟨fun hm => h.1 (List.mem_map_of_mem (f := f) hm), ih h.2⟩

theorem nodup_map_of_inj_on {α β} (f : α → β) : ∀ (l : List α), l.Nodup →
    (∀ x ∈ l, ∀ y ∈ l, f x = f y → x = y) → (l.map f).Nodup := by
  intro l
  induction l with
  | nil => intro _ _; exact List.nodup_nil
  | cons a l ih =>
    intro hnd hinj
    simp only [List.nodup_cons] at hnd
    simp only [List.map_cons, List.nodup_cons]
    refine ⟨?_, ih hnd.2 (fun x hx y hy => hinj x (List.mem_cons_of_mem _ hx) y (List.mem_cons_of_mem _ hy))⟩
    intro hm
    obtain ⟨y, hy, hfy⟩ := List.mem_map.1 hm
    have := hinj y (List.mem_cons_of_mem _ hy) a (by simp) hfy
    exact hnd.1 (this ▸ hy)

/-- **C04, no id twice**: for every history in which equal ids mean equal events (what authenticity of
    events provides), the retained ids are pairwise distinct. -/
theorem no_id_twice (cap : Int) (hcap : 0 ≤ cap) (es : List Event)
    (hid : ∀ x ∈ es, ∀ y ∈ es, x.id = y.id → x = y) :
    ((run { cap := cap } es).evs.map (·.id)).Nodup := by
  have hinv := (retention_all_histories cap hcap es).1
  have hsub := run_subset { cap := cap } es
  have hnd : (run { cap := cap } es).evs.Nodup := nodup_of_nodup_map eventKey _ hinv.keys
  apply nodup_map_of_inj_on _ _ hnd
  intro x hx y hy hxy
  have hx' : x ∈ es := by
    rcases hsub x hx with h | h
    · cases h
    · exact h
  have hy' : y ∈ es := by
    rcases hsub y hy with h | h
    · cases h
    · exact h
  exact hid x hx' y hy' hxy

/-- **C04, ephemeral events are never stored** (they are reported as new and relayed). -/
theorem ephemeral_never_retained (c : Cache) (e : Event) (h : eventType e.kind = .ephemeral) :
    c.add e = (c, true) := by
  unfold Cache.add
  simp [h]

/-- **C04, the flag**: a non-ephemeral insertion is reported as new iff it is not suppressed by a retained
    deletion request of its author and it is the first event of its key or strictly newer than the
    retained one (the regenerated comparison `old.CreatedAt >= event.CreatedAt` keeps the retained one). -/
theorem flag_iff (c : Cache) (e : Event) (h : eventType e.kind ≠ .ephemeral) :
    (c.add e).2 = true ↔
      (c.isDeleted (eventKey e) e.pubkey = false ∧ c.isDeleted e.id e.pubkey = false) ∧
      (∀ old, c.lookup (eventKey e) = some old → old.createdAt < e.createdAt) := by
  have heph' : (eventType e.kind == EventType.ephemeral) = false := by simpa using h
  unfold Cache.add
  simp only [heph', Bool.false_eq_true, if_false, Gen.addBlocked]
  by_cases hb : (c.isDeleted (eventKey e) e.pubkey || c.isDeleted e.id e.pubkey) = true
  · simp only [hb, if_true]
    constructor
    · intro h'; cases h'
    · rintro ⟨⟨h1, h2⟩, _⟩; simp [h1, h2] at hb
  · have hb' : (c.isDeleted (eventKey e) e.pubkey || c.isDeleted e.id e.pubkey) = false := by simpa using hb
    simp only [hb', Bool.false_eq_true, if_false]
    have hsplit : c.isDeleted (eventKey e) e.pubkey = false ∧ c.isDeleted e.id e.pubkey = false := by
      simpa using hb'
    unfold Cache.addEv
    cases hl : c.lookup (eventKey e) with
    | none => simp [hsplit]
    | some old =>
      simp only [Gen.addKeepsOld]
      by_cases hge : old.createdAt ≥ e.createdAt
      · simp only [hge, decide_true, if_true]
        constructor
        · intro h'; cases h'
        · rintro ⟨_, h2⟩; have := h2 old rfl; omega
      · simp only [hge, decide_false, Bool.false_eq_true, if_false]
        constructor
        · intro _; exact ⟨hsplit, by intro o ho; cases ho; omega⟩
        · intro _; trivial

/-- **C04, an insertion that is not reported as new changes nothing.** -/
theorem not_new_no_change (c : Cache) (e : Event) (h : (c.add e).2 = false) : (c.add e).1 = c := by
  unfold Cache.add at h ⊢
  by_cases heph : (eventType e.kind == EventType.ephemeral) = true
  · simp [heph] at h
  · simp only [heph, Bool.false_eq_true, if_false] at h ⊢
    by_cases hb : Gen.addBlocked (c.isDeleted (eventKey e) e.pubkey) (c.isDeleted e.id e.pubkey) = true
    · simp [hb]
    · simp only [hb, Bool.false_eq_true, if_false] at h ⊢
      cases hadd : c.addEv (eventKey e) e with
      | mk c1 b =>
        cases b with
        | false => simp
        | true => simp [hadd] at h

/-- **C04, older never displaces, newer displaces**: with a retained version `old` of the same key, the
    offered event replaces it exactly when it is strictly newer. -/
theorem newer_displaces (c : Cache) (e old : Event) (hl : c.lookup (eventKey e) = some old) :
    (old.createdAt ≥ e.createdAt → c.addEv (eventKey e) e = (c, false)) ∧
    (old.createdAt < e.createdAt → (c.addEv (eventKey e) e).2 = true ∧ e ∈ (c.addEv (eventKey e) e).1.evs ∧
      old ∉ (c.addEv (eventKey e) e).1.evs ∨ old = e) := by
  constructor
  · intro h; simp [Cache.addEv, hl, Gen.addKeepsOld, h]
  · intro h
    have hge : ¬ old.createdAt ≥ e.createdAt := by omega
    by_cases hoe : old = e
    · exact Or.inr hoe
    · left
      simp only [Cache.addEv, hl, Gen.addKeepsOld, hge, decide_false, Bool.false_eq_true, if_false]
      refine ⟨trivial, by simp, ?_⟩
      intro hm
      simp only [List.mem_cons] at hm
      rcases hm with hm | hm
      · exact hoe hm
      · rw [delete_own c (eventKey e) old hl] at hm
        have := (List.mem_filter.1 hm).2
        simp [(lookup_mem c _ old hl).2] at this

/-! ### non-vacuity -/

def ev (id pk : String) (t k : Int) (tags : List (List String)) : Event :=
  { id := id, pubkey := pk, createdAt := t, kind := k, tags := tags, content := "", sig := "" }

example : (run { cap := 2 } [ev "1" "a" 5 1 [], ev "2" "a" 6 0 [], ev "3" "a" 7 0 [], ev "4" "b" 1 20001 [], ev "5" "b" 9 30000 [["d", "x"]]]).evs.map (·.id)
    = ["5", "3"] := by decide


/-! ### the classification of kinds is the one of the statement -/

/-- **C04/C05/C06, kind classes.**  `Event.EventType` (regenerated) classifies every kind as the statement does:
    replaceable = 0, 3, 10000–19999; ephemeral = 20000–29999; addressable = 30000–39999; everything else regular. -/
theorem eventType_spec (k : Int) :
    eventType k =
      if k = 0 ∨ k = 3 ∨ (10000 ≤ k ∧ k < 20000) then .replaceable
      else if 20000 ≤ k ∧ k < 30000 then .ephemeral
      else if 30000 ≤ k ∧ k < 40000 then .addressable
      else .regular := by
  simp only [eventType, Gen.isReplaceableKind, Gen.isEphemeralKind, Gen.isAddressableKind, Bool.or_eq_true, Bool.and_eq_true,
    beq_iff_eq, decide_eq_true_eq, or_assoc]

def toClass : EventType → CacheSpec.Class
  | .regular => .regular
  | .replaceable => .replaceable
  | .ephemeral => .ephemeral
  | .addressable => .addressable

/-- the same, against the class function the runtime monitors of C03–C05 use -/
theorem eventType_eq_classOf (k : Int) : toClass (eventType k) = CacheSpec.classOf k := by
  rw [eventType_spec]
  simp only [CacheSpec.classOf, Bool.or_eq_true, Bool.and_eq_true, beq_iff_eq, decide_eq_true_eq, or_assoc]
  by_cases h1 : k = 0 ∨ k = 3 ∨ (10000 ≤ k ∧ k < 20000)
  · simp [h1, toClass]
  · by_cases h2 : 20000 ≤ k ∧ k < 30000
    · simp [h1, h2, toClass]
    · by_cases h3 : 30000 ≤ k ∧ k < 40000
      · simp [h1, h2, h3, toClass]
      · simp [h1, h2, h3, toClass]

example : eventType 39999 = .addressable ∧ eventType 40000 = .regular ∧ eventType 9999 = .regular ∧ eventType 10000 = .replaceable ∧
    eventType 19999 = .replaceable ∧ eventType 20000 = .ephemeral ∧ eventType 29999 = .ephemeral ∧ eventType 30000 = .addressable ∧
    eventType 0 = .replaceable ∧ eventType 3 = .replaceable ∧ eventType 1 = .regular ∧ eventType 2 = .regular ∧ eventType 4 = .regular := by decide

end Moc.C04
