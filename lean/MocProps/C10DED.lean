/-
  C10, third clause: for every accepted JSON tree, decode-encode-decode yields the same value as decode.
  Each theorem takes ANY tree the decoder accepts (no well-formedness hypothesis on the value: what the decoder
  lets through is shown to be within the range the round trip needs).
-/
import MocProps.C10
import MocProps.C10Filter
import MocProps.C10Bytes

namespace Moc.C10
open Moc

theorem bind_ok {ε α β} (x : Except ε α) (f : α → Except ε β) (b : β) :
    (x >>= f) = .ok b ↔ ∃ a, x = .ok a ∧ f a = .ok b := by
  cases x with
  | error e => simp [bind, Except.bind]
  | ok a => simp [bind, Except.bind]

theorem decInt64_range (j : JT) (i : Int) (h : decInt64 j = .ok i) : inInt64 i = true := by
  cases j with
  | int v =>
    simp only [decInt64] at h
    by_cases hv : inInt64 v = true
    · simp only [hv, if_true, Except.ok.injEq] at h; subst h; exact hv
    · simp [hv] at h
  | _ => simp [decInt64] at h

/-- the decoder only lets through integers that fit an int64 -/
theorem decodeEvent_range (j : JT) (e : Event) (h : decodeEvent j = .ok e) :
    inInt64 e.createdAt = true ∧ inInt64 e.kind = true := by
  cases j with
  | obj kvs =>
    simp only [decodeEvent] at h
    by_cases hc : Gen.eventFieldCountBad (objKeys kvs).length = true
    · simp [hc] at h
    · simp only [hc, Bool.false_eq_true, if_false] at h
      split at h
      · simp only [bind_ok, pure, Except.pure, Except.ok.injEq] at h
        obtain ⟨c, hc, k, hk, t, _, rfl⟩ := h
        exact ⟨decInt64_range _ _ hc, decInt64_range _ _ hk⟩
      · cases h
  | _ => simp [decodeEvent] at h

/-- **C10, decode-encode-decode = decode, events** -/
theorem event_dec_enc_dec (j : JT) (e : Event) (h : decodeEvent j = .ok e) : decodeEvent (encodeEvent e) = .ok e :=
  event_roundtrip e (decodeEvent_range j e h).1 (decodeEvent_range j e h).2

/-- a `throw` at the head of a `do` block never yields a value -/
theorem throw_bind_ne {α β} (e : String) (f : α → Except String β) (b : β) :
    ((throw e : Except String α) >>= f) ≠ .ok b := by
  simp [bind, Except.bind, throw, throwThe, MonadExceptOf.throw]

/-- **C10, decode-encode-decode = decode, client EVENT** -/
theorem clientEvent_dec_enc_dec (j : JT) (m : ClientMsg) (h : decodeClientEvent j = .ok m) :
    decodeClientEvent (encodeClientMsg m) = .ok m := by
  unfold decodeClientEvent at h
  simp only [bind_ok] at h
  obtain ⟨a, _, h⟩ := h
  by_cases c1 : Gen.arityClientEvent a.length = true
  · simp only [c1, if_true] at h; exact absurd h (throw_bind_ne _ _ _)
  · simp only [c1, Bool.false_eq_true, if_false, bind_ok] at h
    obtain ⟨label, _, h⟩ := h
    by_cases c2 : Gen.labelBadClientEvent label = true
    · simp only [c2, if_true] at h; exact absurd h (throw_bind_ne _ _ _)
    · simp only [c2, Bool.false_eq_true, if_false, bind_ok, pure, Except.pure, Except.ok.injEq] at h
      obtain ⟨e, he, rfl⟩ := h
      have r := decodeEvent_range _ e he
      exact (event_msgs_roundtrip e "" r.1 r.2).1

/-- **C10, decode-encode-decode = decode, client AUTH** -/
theorem clientAuth_dec_enc_dec (j : JT) (m : ClientMsg) (h : decodeClientAuth j = .ok m) :
    decodeClientAuth (encodeClientMsg m) = .ok m := by
  unfold decodeClientAuth at h
  simp only [bind_ok] at h
  obtain ⟨a, _, h⟩ := h
  by_cases c1 : Gen.arityClientAuth a.length = true
  · simp only [c1, if_true] at h; exact absurd h (throw_bind_ne _ _ _)
  · simp only [c1, Bool.false_eq_true, if_false, bind_ok] at h
    obtain ⟨label, _, h⟩ := h
    by_cases c2 : Gen.labelBadClientAuth label = true
    · simp only [c2, if_true] at h; exact absurd h (throw_bind_ne _ _ _)
    · simp only [c2, Bool.false_eq_true, if_false, bind_ok, pure, Except.pure, Except.ok.injEq] at h
      obtain ⟨e, he, rfl⟩ := h
      have r := decodeEvent_range _ e he
      exact (event_msgs_roundtrip e "" r.1 r.2).2.1

/-- **C10, decode-encode-decode = decode, server EVENT** -/
theorem serverEvent_dec_enc_dec (j : JT) (m : ServerMsg) (h : decodeServerEvent j = .ok m) :
    decodeServerEvent (encodeServerMsg m) = .ok m := by
  unfold decodeServerEvent at h
  simp only [bind_ok] at h
  obtain ⟨a, _, h⟩ := h
  by_cases c1 : Gen.arityServerEvent a.length = true
  · simp only [c1, if_true] at h; exact absurd h (throw_bind_ne _ _ _)
  · simp only [c1, Bool.false_eq_true, if_false, bind_ok] at h
    obtain ⟨label, _, h⟩ := h
    by_cases c2 : Gen.labelBadServerEvent label = true
    · simp only [c2, if_true] at h; exact absurd h (throw_bind_ne _ _ _)
    · simp only [c2, Bool.false_eq_true, if_false, bind_ok, pure, Except.pure, Except.ok.injEq] at h
      obtain ⟨sub, _, e, he, rfl⟩ := h
      have r := decodeEvent_range _ e he
      exact (event_msgs_roundtrip e sub r.1 r.2).2.2

/-- **C10, decode-encode-decode = decode, CLOSE / EOSE / NOTICE / AUTH challenge** -/
theorem simple_dec_enc_dec (j : JT) :
    (∀ m, decodeClientClose j = .ok m → decodeClientClose (encodeClientMsg m) = .ok m) ∧
    (∀ m, decodeServerEOSE j = .ok m → decodeServerEOSE (encodeServerMsg m) = .ok m) ∧
    (∀ m, decodeServerNotice j = .ok m → decodeServerNotice (encodeServerMsg m) = .ok m) ∧
    (∀ m, decodeServerAuth j = .ok m → decodeServerAuth (encodeServerMsg m) = .ok m) := by
  refine ⟨?_, ?_, ?_, ?_⟩
  · intro m h
    unfold decodeClientClose at h
    simp only [bind_ok] at h
    obtain ⟨a, _, h⟩ := h
    by_cases c1 : Gen.arityClientClose a.length = true
    · simp only [c1, if_true] at h; exact absurd h (throw_bind_ne _ _ _)
    · simp only [c1, Bool.false_eq_true, if_false] at h
      by_cases c2 : Gen.labelBadClientClose (a.getD 0 "") = true
      · simp only [c2, if_true] at h; exact absurd h (throw_bind_ne _ _ _)
      · simp only [c2, Bool.false_eq_true, if_false, pure, Except.pure, Except.ok.injEq, bind_ok] at h
        obtain ⟨_, _, _, _, rfl⟩ := h
        exact (simple_roundtrips _).2.2.2
  · intro m h
    unfold decodeServerEOSE at h
    simp only [bind_ok] at h
    obtain ⟨a, _, h⟩ := h
    by_cases c1 : Gen.arityServerEOSE a.length = true
    · simp only [c1, if_true] at h; exact absurd h (throw_bind_ne _ _ _)
    · simp only [c1, Bool.false_eq_true, if_false] at h
      by_cases c2 : Gen.labelBadServerEOSE (a.getD 0 "") = true
      · simp only [c2, if_true] at h; exact absurd h (throw_bind_ne _ _ _)
      · simp only [c2, Bool.false_eq_true, if_false, pure, Except.pure, Except.ok.injEq, bind_ok] at h
        obtain ⟨_, _, _, _, rfl⟩ := h
        exact (simple_roundtrips _).1
  · intro m h
    unfold decodeServerNotice at h
    simp only [bind_ok] at h
    obtain ⟨a, _, h⟩ := h
    by_cases c1 : Gen.arityServerNotice a.length = true
    · simp only [c1, if_true] at h; exact absurd h (throw_bind_ne _ _ _)
    · simp only [c1, Bool.false_eq_true, if_false] at h
      by_cases c2 : Gen.labelBadServerNotice (a.getD 0 "") = true
      · simp only [c2, if_true] at h; exact absurd h (throw_bind_ne _ _ _)
      · simp only [c2, Bool.false_eq_true, if_false, pure, Except.pure, Except.ok.injEq, bind_ok] at h
        obtain ⟨_, _, _, _, rfl⟩ := h
        exact (simple_roundtrips _).2.1
  · intro m h
    unfold decodeServerAuth at h
    simp only [bind_ok] at h
    obtain ⟨a, _, h⟩ := h
    by_cases c1 : Gen.arityServerAuth a.length = true
    · simp only [c1, if_true] at h; exact absurd h (throw_bind_ne _ _ _)
    · simp only [c1, Bool.false_eq_true, if_false] at h
      by_cases c2 : Gen.labelBadServerAuth (a.getD 0 "") = true
      · simp only [c2, if_true] at h; exact absurd h (throw_bind_ne _ _ _)
      · simp only [c2, Bool.false_eq_true, if_false, pure, Except.pure, Except.ok.injEq, bind_ok] at h
        obtain ⟨_, _, _, _, rfl⟩ := h
        exact (simple_roundtrips _).2.2.1

/-- **C10, decode-encode-decode = decode, CLOSED** -/
theorem closed_dec_enc_dec (j : JT) (msg : ServerMsg) (h : decodeServerClosed j = .ok msg) :
    decodeServerClosed (encodeServerMsg msg) = .ok msg := by
  unfold decodeServerClosed at h
  simp only [bind_ok] at h
  obtain ⟨a, _, h⟩ := h
  by_cases c1 : Gen.arityServerClosed a.length = true
  · simp only [c1, if_true] at h; exact absurd h (throw_bind_ne _ _ _)
  · simp only [c1, Bool.false_eq_true, if_false] at h
    by_cases c2 : Gen.labelBadServerClosed (a.getD 0 "") = true
    · simp only [c2, if_true] at h; exact absurd h (throw_bind_ne _ _ _)
    · simp only [c2, Bool.false_eq_true, if_false, pure, Except.pure, Except.ok.injEq, bind_ok] at h
      obtain ⟨_, _, _, _, rfl⟩ := h
      have hj := parsePrefix_join (a.getD 2 "")
      simp only [List.getD_eq_getElem?_getD] at hj
      simp [decodeServerClosed, encodeServerMsg, decStrArray, decStrsLoose, Except.map, Gen.arityServerClosed,
        Gen.labelBadServerClosed, Gen.labelClosed, hj, bind, Except.bind, pure, Except.pure, throw, throwThe,
        MonadExceptOf.throw]

/-- the COUNT payload decoder never lets a count above 2^64-1 through -/
theorem decCountPayload_range (kvs : List (String × JT)) :
    ∀ (n : Nat) (a : Option Bool) (n' : Nat) (a' : Option Bool), decCountPayload kvs (n, a) = .ok (n', a') →
      (n : Int) ≤ uint64Max → (n' : Int) ≤ uint64Max := by
  induction kvs with
  | nil => intro n a n' a' h hn; simp [decCountPayload] at h; rw [← h.1]; exact hn
  | cons kv rest ih =>
    obtain ⟨k, v⟩ := kv
    intro n a n' a' h hn
    simp only [decCountPayload] at h
    split at h
    · cases hv : decCountVal v n with
      | error e => simp [hv, Except.bind] at h
      | ok n1 =>
        simp only [hv, Except.bind] at h
        refine ih n1 a n' a' h ?_
        cases v with
        | int i =>
          simp only [decCountVal] at hv
          by_cases hi : (0 ≤ i && i ≤ uint64Max) = true
          · simp only [hi, if_true, Except.ok.injEq] at hv
            simp only [Bool.and_eq_true, decide_eq_true_eq] at hi
            rw [← hv, Int.toNat_of_nonneg hi.1]; exact hi.2
          · simp [hi] at hv
        | null => simp only [decCountVal, Except.ok.injEq] at hv; rw [← hv]; exact hn
        | _ => simp [decCountVal] at hv
    · split at h
      · cases hv : decApproxVal v with
        | error e => simp [hv, Except.bind] at h
        | ok a1 =>
          simp only [hv, Except.bind] at h
          exact ih n a1 n' a' h hn
      · cases h

/-- **C10, decode-encode-decode = decode, COUNT reply** -/
theorem count_dec_enc_dec (j : JT) (msg : ServerMsg) (h : decodeServerCount j = .ok msg) :
    decodeServerCount (encodeServerMsg msg) = .ok msg := by
  unfold decodeServerCount at h
  simp only [bind_ok] at h
  obtain ⟨a, _, h⟩ := h
  by_cases c1 : Gen.arityServerCount a.length = true
  · simp only [c1, if_true] at h; exact absurd h (throw_bind_ne _ _ _)
  · simp only [c1, Bool.false_eq_true, if_false, bind_ok] at h
    obtain ⟨label, _, h⟩ := h
    by_cases c2 : Gen.labelBadServerCount label = true
    · simp only [c2, if_true] at h; exact absurd h (throw_bind_ne _ _ _)
    · simp only [c2, Bool.false_eq_true, if_false, bind_ok, pure, Except.pure, Except.ok.injEq] at h
      obtain ⟨sub, _, ⟨n, ap⟩, hp, rfl⟩ := h
      apply count_roundtrip
      split at hp
      · exact decCountPayload_range _ 0 none n ap hp (by decide)
      · simp only [Except.ok.injEq, Prod.mk.injEq] at hp; rw [← hp.1]; simp [uint64Max]
      · cases hp

/-! ### filters -/

theorem decInts_range (l : List JT) : ∀ (is : List Int), decInts l = .ok is → ∀ i ∈ is, inInt64 i = true := by
  induction l with
  | nil => intro is h; simp [decInts] at h; subst h; simp
  | cons j r ih =>
    intro is h
    simp only [decInts, bind_ok, pure, Except.pure, Except.ok.injEq] at h
    obtain ⟨i, hi, is', hr, rfl⟩ := h
    intro x hx
    rcases List.mem_cons.1 hx with rfl | hx
    · exact decInt64_range _ _ hi
    · exact ih is' hr x hx

theorem decOptInt_range (kvs : List (String × JT)) (k : String) (i : Int) (h : decOptInt kvs k = .ok (some i)) :
    inInt64 i = true := by
  unfold decOptInt at h
  cases ho : objGet kvs k with
  | none => simp [ho] at h
  | some j =>
    simp only [ho] at h
    cases hd : decInt64 j with
    | error e => simp [hd, Except.map] at h
    | ok v =>
      simp only [hd, Except.map, Except.ok.injEq, Option.some.injEq] at h
      subst h
      exact decInt64_range _ _ hd

theorem decOptInts_range (kvs : List (String × JT)) (k : String) (l : List Int) (h : decOptInts kvs k = .ok (some l)) :
    ∀ i ∈ l, inInt64 i = true := by
  unfold decOptInts at h
  cases ho : objGet kvs k with
  | none => simp [ho] at h
  | some j =>
    simp only [ho] at h
    cases j with
    | arr a =>
      simp only [] at h
      cases hd : decInts a with
      | error e => simp [hd, Except.map] at h
      | ok v =>
        simp only [hd, Except.map, Except.ok.injEq, Option.some.injEq] at h
        subst h
        exact decInts_range a v hd
    | _ => simp at h

/-- the names of the decoded tag conditions are the tag keys without their `#` -/
theorem decTagConds_names (kvs : List (String × JT)) (ks : List String) :
    ∀ (l : List (String × List String)), decTagConds kvs ks = .ok l →
      l.map Prod.fst = ks.map (fun k => String.ofList (k.toList.drop 1)) := by
  induction ks with
  | nil => intro l h; simp [decTagConds] at h; subst h; rfl
  | cons k ks ih =>
    intro l h
    simp only [decTagConds] at h
    split at h
    · simp only [bind_ok, pure, Except.pure, Except.ok.injEq] at h
      obtain ⟨vs, _, rest, hr, rfl⟩ := h
      simp [ih rest hr]
    · cases h

theorem tagName_of_key (ch : Char) : String.ofList (("#" ++ String.ofList [ch]).toList.drop 1) = String.ofList [ch] := by
  simp [String.toList_append]

/-- **what the filter decoder lets through is within the range of the round trip** -/
theorem decodeFilter_rt (j : JT) (f : Filter) (h : decodeFilter j = .ok f) : FilterRT f := by
  cases j with
  | null =>
    simp only [decodeFilter, Except.ok.injEq] at h
    subst h
    refine ⟨by simp, ?_, ?_, ?_, ?_, ?_⟩
    · intro l hl; cases hl
    · intro l hl; cases hl
    · intro i hi; cases hi
    · intro i hi; cases hi
    · intro i hi; cases hi
  | obj kvs =>
    simp only [decodeFilter] at h
    split at h
    · cases h
    · simp only [bind_ok, pure, Except.pure, Except.ok.injEq] at h
      obtain ⟨ids, _, authors, _, kinds, hkinds, tags, htags, since, hsince, until_, huntil, limit, hlimit, rfl⟩ := h
      have hnames := decTagConds_names kvs _ tags htags
      have hkeys : ∀ k ∈ (objKeys kvs).filter isTagKey, ∃ ch, isLetterChar ch = true ∧ k = "#" ++ String.ofList [ch] :=
        fun k hk => isTagKey_inv k (List.mem_filter.1 hk).2
      refine ⟨?_, ?_, ?_, ?_, ?_, ?_⟩
      · simp only []
        split
        · simp
        · rename_i hne
          intro heq
          simp only [Option.some.injEq] at heq
          subst heq
          simp only [List.map_nil] at hnames
          have := (List.map_eq_nil_iff.1 hnames.symm)
          simp [this] at hne
      · intro l hl
        simp only [] at hl
        split at hl
        · cases hl
        · simp only [Option.some.injEq] at hl
          subst hl
          rw [hnames]
          constructor
          · -- distinct keys `#x` have distinct names `x`
            have hnd : ((objKeys kvs).filter isTagKey).Nodup := List.Pairwise.filter _ (nodup_eraseDups _)
            generalize (objKeys kvs).filter isTagKey = ks at hnd hkeys
            induction ks with
            | nil => simp
            | cons k ks ih =>
              simp only [List.map_cons, List.nodup_cons] at hnd ⊢
              refine ⟨?_, ih hnd.2 (fun k' hk' => hkeys k' (List.mem_cons_of_mem _ hk'))⟩
              intro hm
              obtain ⟨k', hk', he⟩ := List.mem_map.1 hm
              obtain ⟨c1, _, rfl⟩ := hkeys k (by simp)
              obtain ⟨c2, _, rfl⟩ := hkeys k' (List.mem_cons_of_mem _ hk')
              rw [tagName_of_key, tagName_of_key] at he
              have : c2 = c1 := by simpa using he
              subst this
              exact hnd.1 hk'
          · intro c hc
            have hc' : c.1 ∈ tags.map Prod.fst := List.mem_map.2 ⟨c, hc, rfl⟩
            rw [hnames] at hc'
            obtain ⟨k, hk, he⟩ := List.mem_map.1 hc'
            obtain ⟨ch, hch, rfl⟩ := hkeys k hk
            exact ⟨ch, by rw [← he, tagName_of_key], hch⟩
      · intro l hl; simp only [] at hl; exact decOptInts_range kvs "kinds" l (by rw [hkinds, hl])
      · intro i hi; simp only [] at hi; exact decOptInt_range kvs "since" i (by rw [hsince, hi])
      · intro i hi; simp only [] at hi; exact decOptInt_range kvs "until" i (by rw [huntil, hi])
      · intro i hi; simp only [] at hi; exact decOptInt_range kvs "limit" i (by rw [hlimit, hi])
  | _ => simp [decodeFilter] at h

/-- **C10, decode-encode-decode = decode, filters** -/
theorem filter_dec_enc_dec (j : JT) (f : Filter) (h : decodeFilter j = .ok f) :
    decodeFilter (encodeFilter f) = .ok f := filter_roundtrip f (decodeFilter_rt j f h)

theorem decFilters_rt (l : List JT) : ∀ (fs : List Filter), decFilters l = .ok fs →
    fs.length = l.length ∧ ∀ f ∈ fs, FilterRT f := by
  induction l with
  | nil => intro fs h; simp [decFilters] at h; subst h; simp
  | cons j r ih =>
    intro fs h
    simp only [decFilters, bind_ok, pure, Except.pure, Except.ok.injEq] at h
    obtain ⟨f, hf, fs', hr, rfl⟩ := h
    obtain ⟨hl, hall⟩ := ih fs' hr
    refine ⟨by simp [hl], ?_⟩
    intro x hx
    rcases List.mem_cons.1 hx with rfl | hx
    · exact decodeFilter_rt _ _ hf
    · exact hall x hx

/-- **C10, decode-encode-decode = decode, REQ and COUNT requests** -/
theorem req_count_dec_enc_dec (j : JT) :
    (∀ m, decodeClientReq j = .ok m → decodeClientReq (encodeClientMsg m) = .ok m) ∧
    (∀ m, decodeClientCount j = .ok m → decodeClientCount (encodeClientMsg m) = .ok m) := by
  constructor
  · intro m h
    unfold decodeClientReq at h
    simp only [bind_ok] at h
    obtain ⟨a, _, h⟩ := h
    by_cases c1 : Gen.arityClientReq a.length = true
    · simp only [c1, if_true] at h; exact absurd h (throw_bind_ne _ _ _)
    · simp only [c1, Bool.false_eq_true, if_false, bind_ok] at h
      obtain ⟨label, _, h⟩ := h
      by_cases c2 : Gen.labelBadClientReq label = true
      · simp only [c2, if_true] at h; exact absurd h (throw_bind_ne _ _ _)
      · simp only [c2, Bool.false_eq_true, if_false, bind_ok, pure, Except.pure, Except.ok.injEq] at h
        obtain ⟨sub, _, fs, hfs, rfl⟩ := h
        obtain ⟨hl, hall⟩ := decFilters_rt _ fs hfs
        have hne : fs ≠ [] := by
          intro he
          rw [he] at hl
          simp only [List.length_nil, List.length_drop] at hl
          simp only [Gen.arityClientReq, decide_eq_true_eq] at c1
          omega
        exact (req_count_roundtrip sub fs hne hall).1
  · intro m h
    unfold decodeClientCount at h
    simp only [bind_ok] at h
    obtain ⟨a, _, h⟩ := h
    by_cases c1 : Gen.arityClientCount a.length = true
    · simp only [c1, if_true] at h; exact absurd h (throw_bind_ne _ _ _)
    · simp only [c1, Bool.false_eq_true, if_false, bind_ok] at h
      obtain ⟨label, _, h⟩ := h
      by_cases c2 : Gen.labelBadClientCount label = true
      · simp only [c2, if_true] at h; exact absurd h (throw_bind_ne _ _ _)
      · simp only [c2, Bool.false_eq_true, if_false, bind_ok, pure, Except.pure, Except.ok.injEq] at h
        obtain ⟨sub, _, fs, hfs, rfl⟩ := h
        obtain ⟨hl, hall⟩ := decFilters_rt _ fs hfs
        have hne : fs ≠ [] := by
          intro he
          rw [he] at hl
          simp only [List.length_nil, List.length_drop] at hl
          simp only [Gen.arityClientCount, decide_eq_true_eq] at c1
          omega
        exact (req_count_roundtrip sub fs hne hall).2

end Moc.C10
