/-
  C06 — SQLite store: each query equals the filter spec over stored, live events.

  Model: MocModel/Sqlite.lean — the five tables as lists, the statements of one batch (`Db.insertOne`,
  `Db.insertBatch`), the per-filter sub-select (`Db.rowMatches`, `Db.candidates`).  The row-building tests are
  regenerated from insert.go; the SQL text, the query builder and the DDL are pinned (`sqlite_source_pinned`) and
  their semantics is modelled by hand — tied to SQLite/goqu/database/sql by the correspondence on a real database.
  Partial by construction.
-/
import MocModel.Sqlite
import MocModel.Spec.Sqlite

set_option linter.unusedSimpArgs false
set_option linter.unusedVariables false

namespace Moc.C06
open Moc

theorem sqlite_source_pinned : sqliteActualSource = sqliteExpectedSource := rfl

/-- **C06, deleted events are never served.**  A row with a tombstone for its key or its id by the same author
    matches no filter. -/
theorem hidden_row_never_matches (db : Db) (f : Filter) (r : ERow) (h : db.hidden r = true) (b : Bool)
    (hm : db.rowMatches f r = some b) : b = false := by
  unfold Db.rowMatches at hm
  cases hi : normList f.ids with
  | none => simp [hi] at hm
  | some ids =>
    cases ha : normList f.authors with
    | none => simp [hi, ha] at hm
    | some au =>
      simp only [hi, ha, Db.rowTest, h, Bool.not_true, Bool.false_and, Option.some.injEq] at hm
      exact hm.symm

/-- a tombstone by id hides exactly the rows with that id and author; by address key likewise -/
theorem hidden_iff (db : Db) (r : ERow) :
    db.hidden r = true ↔ (r.key, r.pubkey) ∈ db.delKeys ∨ (r.id, r.pubkey) ∈ db.delIds := by
  simp [Db.hidden]

/-- **C06, newest wins.**  The upsert replaces a stored row only by a different event that is strictly newer,
    and only for replaceable / addressable kinds: regular events are never overwritten. -/
theorem upsert_replaces_iff (old new : ERow) :
    upsertReplaces old new = true ↔
      old.id ≠ new.id ∧ old.createdAt < new.createdAt ∧
      (old.kind = 0 ∨ old.kind = 3 ∨ (10000 ≤ old.kind ∧ old.kind < 20000) ∨ (30000 ≤ old.kind ∧ old.kind < 40000)) := by
  simp only [upsertReplaces, Bool.and_eq_true, Bool.or_eq_true, bne_iff_ne, ne_eq, decide_eq_true_eq, beq_iff_eq]
  constructor
  · rintro ⟨⟨h1, h2⟩, h3⟩; exact ⟨h1, h3, by simpa [or_assoc] using h2⟩
  · rintro ⟨h1, h3, h2⟩; exact ⟨⟨h1, by simpa [or_assoc] using h2⟩, h3⟩

/-- **C06, ephemeral events are never stored; addressable ones need a d tag.** -/
theorem ephemeral_not_stored (e : Event) (h : eventType e.kind = .ephemeral) : buildParams e = none := by
  simp [buildParams, sqlKey, h]

/-- an event whose statements do not run (`affected == 0`) leaves every table as it was -/
theorem insertOne_noop (db : Db) (p : Params) (old : ERow)
    (hf : db.events.find? (fun r => r.key == p.row.key) = some old) (hn : upsertReplaces old p.row = false) :
    db.insertOne p = db := by
  simp [Db.insertOne, hf, hn]

/-- a fresh key: the row, its payload, its tag rows and its tombstones are appended -/
theorem insertOne_fresh (db : Db) (p : Params) (hf : db.events.find? (fun r => r.key == p.row.key) = none) :
    (db.insertOne p).events = db.events ++ [p.row] ∧
    (db.insertOne p).payloads = db.payloads ++ [(p.row.key, p.payload)] ∧
    (db.insertOne p).tags = db.tags ++ p.tagRows := by
  simp [Db.insertOne, hf]

/-- a filter with limit 0 contributes nothing to an answer -/
theorem limit_zero_contributes_nothing (c : Cand) (h : c.limit = some 0) :
    (SqliteSpec.slotOf c).sure = [] ∨ c.ms = [] := by
  unfold SqliteSpec.slotOf
  simp only [h]
  by_cases hl : c.ms.length ≤ 0
  · right; exact List.length_eq_zero_iff.1 (by omega)
  · left; simp [hl]


/-! ### kind classes -/

def toCls : EventType → SqliteSpec.Cls
  | .regular => .regular
  | .replaceable => .replaceable
  | .ephemeral => .ephemeral
  | .addressable => .addressable

/-- the classification the row builders use (`Event.EventType`, regenerated) is the statement's:
    replaceable = 0, 3, 10000–19999; ephemeral = 20000–29999; addressable = 30000–39999 -/
theorem eventType_eq_cls (k : Int) : toCls (eventType k) = SqliteSpec.cls k := by
  simp only [eventType, Gen.isReplaceableKind, Gen.isEphemeralKind, Gen.isAddressableKind, SqliteSpec.cls]
  by_cases h1 : (k == 0 || k == 3 || (decide (10000 ≤ k) && decide (k < 20000))) = true
  · simp [h1, toCls]
  · by_cases h2 : (decide (20000 ≤ k) && decide (k < 30000)) = true
    · simp [h1, h2, toCls]
    · by_cases h3 : (decide (30000 ≤ k) && decide (k < 40000)) = true
      · simp [h1, h2, h3, toCls]
      · simp [h1, h2, h3, toCls]

end Moc.C06
