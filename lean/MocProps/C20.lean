/-
  C20 — HTTP front door: request routing and the NIP-11 document.
  Model: MocModel/Http.lean (header tests regenerated from server.go / nip11.go).
  The NIP-11 struct (de)serialisation is encoding/json's reflection encoder: runtime-validated;
  the repo's own code in that path is `Nip11Kind`, proved here.
-/
import MocModel.Spec.Http

namespace Moc.C20
open Moc

/-- **C20 routing**: for all header values and mux configurations: Upgrade present ⇒ relay; otherwise
    Accept = application/nostr+json ⇒ the configured document (or `{}` without one); otherwise the
    default handler (or the greeting). -/
theorem route_spec (upgrade accept : String) (hasNip11 hasDefault : Bool) :
    route upgrade accept hasNip11 hasDefault =
      routeSpec (upgrade != "") (accept == "application/nostr+json") hasNip11 hasDefault := by
  unfold route routeSpec
  simp only [Gen.muxToRelay, Gen.muxToNip11, Gen.muxNoNip11, Gen.muxNoDefault]
  cases hasNip11 <;> cases hasDefault <;> simp

/-- a request routed to the document is always answered by it (the two Accept tests agree) -/
theorem routed_to_doc_is_answered (upgrade accept : String) (hasDefault : Bool)
    (h : route upgrade accept true hasDefault = .nip11Doc) : nip11Answers accept = true := by
  unfold route at h
  simp only [Gen.muxToRelay, Gen.muxToNip11, Gen.muxNoNip11, Gen.muxNoDefault] at h
  simp only [nip11Answers, Gen.nip11BadAccept]
  by_cases hu : (upgrade != "") = true
  · simp [hu] at h
  · by_cases ha : (accept == "application/nostr+json") = true
    · have : accept = "application/nostr+json" := by simpa using ha
      simp [this]
    · cases hasDefault <;> simp [hu, ha] at h

/-- **C20 headers** of the NIP-11 answer -/
theorem nip11_headers :
    nip11Headers = [("Content-Type", "application/nostr+json"), ("Access-Control-Allow-Origin", "*")] := by
  rfl

/-- **C20 kind ranges round-trip**: for every kind range within Go's int, written as a single number
    exactly when `From = To` and as a pair otherwise, decoding the encoding gives the range back. -/
theorem kind_roundtrip (k : Kind) (hf : inInt64 k.from_ = true) (ht : inInt64 k.to = true) :
    unmarshalKind (marshalKind k) = .ok k ∧
    ((∃ i, marshalKind k = .int i) ↔ k.from_ = k.to) := by
  obtain ⟨f, t⟩ := k
  simp only [marshalKind, Gen.kindSingle] at *
  by_cases h : f = t
  · subst h
    simp [unmarshalKind, hf]
  · have hb : (f == t) = false := by simpa using h
    simp [hb, unmarshalKind, Gen.kindPairLenBad, hf, ht, h]

/-- decoding is total: every JSON value yields a kind or an error, never a panic (by construction),
    and a pair of wrong length is rejected -/
theorem kind_pair_arity (a : List JT) (h : a.length ≠ 2) : ∃ e, unmarshalKind (.arr a) = .error e := by
  have : Gen.kindPairLenBad a.length = true := by simp [Gen.kindPairLenBad]; omega
  exact ⟨"expected 2 elements", by simp [unmarshalKind, this]⟩

example : inInt64 30000 = true ∧ inInt64 39999 = true ∧ (⟨30000, 39999⟩ : Kind).from_ ≠ (⟨30000, 39999⟩ : Kind).to := by
  decide

end Moc.C20
