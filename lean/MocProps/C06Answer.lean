/-
  C06, the last step of a query (ORDER BY created_at DESC LIMIT n per filter, union, ORDER BY created_at DESC):
  SQLite may break ties between equal timestamps any way it likes, so the statement admits several answers.

  `Answers cands got` is the relational reading of the statement over per-filter candidate lists: for every filter
  a selection of exactly min(limit, #candidates) candidates such that nothing left out is newer than anything taken;
  `got` lists the union of the selections once each, in non-increasing created_at order.

  `answers_accepted`: EVERY such answer passes the judge `SqliteSpec.judgeAnswer` with which the harness decides
  both the correspondence (model tables vs. SQLite's answer) and the property (statement vs. answer) — whatever the
  tie-breaking.  So on a tree where the property holds the C06 monitor cannot raise an alarm because of ties.
  (The converse — a passing answer is a union of legal selections — is not claimed: with several filters whose
  boundaries overlap the judge checks necessary conditions only.)
-/
import MocModel.Spec.Sqlite

set_option linter.unusedSimpArgs false
set_option linter.unusedVariables false

namespace Moc.C06A
open Moc Moc.SqliteSpec

/-! ### counting in duplicate-free lists -/

theorem nodup_subset_length {α} [DecidableEq α] : ∀ (s l : List α), s.Nodup → (∀ x ∈ s, x ∈ l) → s.length ≤ l.length := by
  intro s
  induction s with
  | nil => intro l _ _; simp
  | cons a t ih =>
    intro l hnd hsub
    obtain ⟨ha, ht⟩ := List.nodup_cons.1 hnd
    have hal : a ∈ l := hsub a (by simp)
    have := ih (l.erase a) ht (fun x hx => by
      have hxl := hsub x (List.mem_cons_of_mem _ hx)
      have hne : x ≠ a := fun h => ha (h ▸ hx)
      exact (List.mem_erase_of_ne hne).2 hxl)
    rw [List.length_erase_of_mem hal] at this
    have hpos : 0 < l.length := List.length_pos_of_mem hal
    simp only [List.length_cons]
    omega

theorem length_filter_partition {α} (p : α → Bool) (l : List α) :
    l.length = (l.filter p).length + (l.filter (fun x => !p x)).length := by
  induction l with
  | nil => rfl
  | cons a t ih =>
    simp only [List.filter_cons, List.length_cons]
    cases p a <;> simp <;> omega

/-! ### `sortDesc` -/

theorem insertDesc_perm (e : Event) (l : List Event) : (insertDesc e l).Perm (e :: l) := by
  induction l with
  | nil => exact List.Perm.refl _
  | cons x xs ih =>
    simp only [insertDesc]
    split
    · exact List.Perm.refl _
    · exact (List.Perm.cons x ih).trans (List.Perm.swap e x xs)

theorem sortDesc_perm (l : List Event) : (sortDesc l).Perm l := by
  induction l with
  | nil => exact List.Perm.refl _
  | cons x xs ih => exact (insertDesc_perm x _).trans (List.Perm.cons x ih)

def Desc (l : List Event) : Prop := l.Pairwise (fun a b => a.createdAt ≥ b.createdAt)

theorem insertDesc_desc (e : Event) (l : List Event) (h : Desc l) : Desc (insertDesc e l) := by
  induction l with
  | nil => simp [insertDesc, Desc]
  | cons x xs ih =>
    simp only [insertDesc]
    obtain ⟨hx, hxs⟩ := List.pairwise_cons.1 h
    split
    · rename_i hgt
      refine List.pairwise_cons.2 ⟨?_, h⟩
      intro y hy
      rcases List.mem_cons.1 hy with rfl | hy
      · omega
      · have := hx y hy; omega
    · rename_i hle
      refine List.pairwise_cons.2 ⟨?_, ih hxs⟩
      intro y hy
      rcases List.mem_cons.1 ((insertDesc_perm e xs).mem_iff.1 hy) with rfl | hy
      · omega
      · exact hx y hy

theorem sortDesc_desc (l : List Event) : Desc (sortDesc l) := by
  induction l with
  | nil => simp [sortDesc, Desc]
  | cons x xs ih => exact insertDesc_desc x _ ih

/-- the `k`-th largest timestamp splits the candidates: fewer than `k` are newer, at least `k` are not older -/
theorem kth_counts (ms : List Event) (k : Nat) (hk : 1 ≤ k) (hlen : k ≤ ms.length) :
    let t := ((sortDesc ms).getD (k - 1) default).createdAt
    (ms.filter (fun x => x.createdAt > t)).length ≤ k - 1 ∧ k ≤ (ms.filter (fun x => x.createdAt ≥ t)).length := by
  intro t
  have hp := sortDesc_perm ms
  have hd := sortDesc_desc ms
  have hl : (sortDesc ms).length = ms.length := hp.length_eq
  generalize hsd : sortDesc ms = sd at hp hd hl t
  have hidx : k - 1 < sd.length := by omega
  have hget : sd.getD (k - 1) default = sd[k - 1] := by simp [List.getD_eq_getElem?_getD, hidx]
  have ht : t = sd[k - 1].createdAt := by simp only [t, hsd, hget]
  -- split the sorted list at position k-1
  have hsplit : sd = sd.take (k - 1) ++ sd[k - 1] :: sd.drop k := by
    have := List.take_append_drop (k - 1) sd
    rw [List.drop_eq_getElem_cons hidx] at this
    rw [show k - 1 + 1 = k by omega] at this
    exact this.symm
  have hpw := hd
  unfold Desc at hpw
  rw [hsplit] at hpw
  obtain ⟨_, hright, hcross⟩ := List.pairwise_append.1 hpw
  obtain ⟨hpivot, _⟩ := List.pairwise_cons.1 hright
  constructor
  · -- newer ones all sit before position k-1
    rw [(hp.symm.filter _).length_eq, hsplit, List.filter_append, List.length_append]
    have h2 : ((sd[k - 1] :: sd.drop k).filter (fun x => decide (x.createdAt > t))).length = 0 := by
      rw [List.length_eq_zero_iff, List.filter_eq_nil_iff]
      intro y hy
      rcases List.mem_cons.1 hy with rfl | hy
      · simp [ht]
      · have := hpivot y hy; simp [ht]; omega
    have h1 : ((sd.take (k - 1)).filter (fun x => decide (x.createdAt > t))).length ≤ k - 1 :=
      Nat.le_trans (List.length_filter_le _ _) (by rw [List.length_take]; omega)
    omega
  · -- the first k positions are all at least as new
    rw [(hp.symm.filter _).length_eq, hsplit, List.filter_append, List.length_append]
    have h1 : ((sd.take (k - 1)).filter (fun x => decide (x.createdAt ≥ t))).length = k - 1 := by
      rw [List.filter_eq_self.2, List.length_take]
      · omega
      · intro y hy
        have := hcross y hy sd[k - 1] (by simp)
        simp [ht]; omega
    have h2 : 1 ≤ ((sd[k - 1] :: sd.drop k).filter (fun x => decide (x.createdAt ≥ t))).length := by
      simp [List.filter_cons, ht]
    omega

/-! ### one filter -/

/-- `ORDER BY created_at DESC LIMIT l` over the candidates `c.ms`, ties broken arbitrarily -/
structure Selects (c : Cand) (S : List Event) : Prop where
  sub : ∀ x ∈ S, x ∈ c.ms
  nodup : S.Nodup
  size : S.length = (match c.limit with
    | some l => min l c.ms.length
    | none => c.ms.length)
  top : ∀ x ∈ S, ∀ y ∈ c.ms, y ∉ S → y.createdAt ≤ x.createdAt

theorem full_of_length (S ms : List Event) (hnd : S.Nodup) (hsub : ∀ x ∈ S, x ∈ ms) (hlen : ms.length ≤ S.length) :
    ∀ x ∈ ms, x ∈ S := by
  intro x hx
  apply Classical.byContradiction
  intro hxs
  have := nodup_subset_length S (ms.erase x) hnd (fun y hy => by
    have hne : y ≠ x := fun h => hxs (h ▸ hy)
    exact (List.mem_erase_of_ne hne).2 (hsub y hy))
  rw [List.length_erase_of_mem hx] at this
  have := List.length_pos_of_mem hx
  omega

/-- what the judge's slot of a filter says about any legal selection for it -/
theorem slot_facts (c : Cand) (S : List Event) (hnd : c.ms.Nodup) (h : Selects c S) :
    (∀ x ∈ (slotOf c).sure, x ∈ S) ∧ (∀ x ∈ S, x ∈ (slotOf c).sure ∨ x ∈ (slotOf c).boundary) ∧
    (slotOf c).need ≤ (S.filter (slotOf c).boundary.contains).length ∧
    (S.filter (fun x => !(slotOf c).sure.contains x)).length ≤ (slotOf c).need := by
  obtain ⟨hsub, hsn, hsize, htop⟩ := h
  -- the selection is everything
  have hall : c.ms.length ≤ S.length →
      (∀ x ∈ c.ms, x ∈ S) ∧ (∀ x ∈ S, x ∈ c.ms ∨ x ∈ ([] : List Event)) ∧
      0 ≤ (S.filter ([] : List Event).contains).length ∧ (S.filter (fun x => !c.ms.contains x)).length ≤ 0 := by
    intro hl
    refine ⟨full_of_length S c.ms hsn hsub hl, fun x hx => Or.inl (hsub x hx), Nat.zero_le _, ?_⟩
    rw [Nat.le_zero, List.length_eq_zero_iff, List.filter_eq_nil_iff]
    intro x hx
    simp [hsub x hx]
  unfold slotOf
  cases hlim : c.limit with
  | none =>
    simp only [hlim] at hsize
    exact hall (by omega)
  | some l =>
    simp only [hlim] at hsize
    simp only []
    by_cases h1 : c.ms.length ≤ l
    · simp only [h1, if_true]
      exact hall (by rw [hsize]; omega)
    · simp only [h1, if_false]
      by_cases h0 : (l == 0) = true
      · simp only [h0, if_true]
        have hl0 : l = 0 := by simpa using h0
        have hS : S = [] := List.length_eq_zero_iff.1 (by rw [hsize, hl0]; simp)
        subst hS
        simp
      · simp only [h0, Bool.false_eq_true, if_false]
        have hl1 : 1 ≤ l := by
          have : l ≠ 0 := by simpa using h0
          omega
        have hlt : l < c.ms.length := by omega
        have hSl : S.length = l := by rw [hsize]; omega
        obtain ⟨hgt, hge⟩ := kth_counts c.ms l hl1 (by omega)
        generalize ((sortDesc c.ms).getD (l - 1) default).createdAt = t at hgt hge ⊢
        -- (1) every strictly newer candidate is selected
        have f1 : ∀ x ∈ c.ms.filter (fun x => x.createdAt > t), x ∈ S := by
          intro x hx
          apply Classical.byContradiction
          intro hxs
          obtain ⟨hxm, hxt⟩ := List.mem_filter.1 hx
          have hxt' : x.createdAt > t := by simpa using hxt
          have := nodup_subset_length S ((c.ms.filter (fun x => x.createdAt > t)).erase x) hsn (fun y hy => by
            have hne : y ≠ x := fun h => hxs (h ▸ hy)
            have hy' := htop y hy x hxm hxs
            refine (List.mem_erase_of_ne hne).2 (List.mem_filter.2 ⟨hsub y hy, ?_⟩)
            simp; omega)
          rw [List.length_erase_of_mem hx] at this
          have := List.length_pos_of_mem hx
          omega
        -- (2) nothing strictly older is selected
        have f2 : ∀ y ∈ S, y.createdAt ≥ t := by
          intro y hy
          apply Classical.byContradiction
          intro hyt
          have hyt' : y.createdAt < t := by omega
          have hgnd : (c.ms.filter (fun x => x.createdAt ≥ t)).Nodup := List.Pairwise.filter _ hnd
          have := nodup_subset_length (c.ms.filter (fun x => x.createdAt ≥ t)) (S.erase y) hgnd (fun z hz => by
            obtain ⟨hzm, hzt⟩ := List.mem_filter.1 hz
            have hzt' : z.createdAt ≥ t := by simpa using hzt
            have hne : z ≠ y := by rintro rfl; omega
            refine (List.mem_erase_of_ne hne).2 ?_
            apply Classical.byContradiction
            intro hzs
            have := htop y hy z hzm hzs
            omega)
          rw [List.length_erase_of_mem hy] at this
          have := List.length_pos_of_mem hy
          omega
        -- on the selection, "in sure" and "in boundary" are tests on the timestamp
        have csure : ∀ x ∈ S, (c.ms.filter (fun x => x.createdAt > t)).contains x = decide (x.createdAt > t) := by
          intro x hx
          rw [Bool.eq_iff_iff]
          simp only [List.contains_iff_mem, List.mem_filter, decide_eq_true_eq]
          exact ⟨fun h => h.2, fun h => ⟨hsub x hx, h⟩⟩
        have cbnd : ∀ x ∈ S, (c.ms.filter (fun x => x.createdAt == t)).contains x = !decide (x.createdAt > t) := by
          intro x hx
          rw [Bool.eq_iff_iff]
          simp only [List.contains_iff_mem, List.mem_filter, beq_iff_eq, Bool.not_eq_true', decide_eq_false_iff_not]
          have := f2 x hx
          constructor
          · intro h; omega
          · intro h; exact ⟨hsub x hx, by omega⟩
        -- the strictly newer part of the selection is `sure`, so the rest has exactly `need` members
        have hlenGt : (S.filter (fun x => decide (x.createdAt > t))).length = (c.ms.filter (fun x => x.createdAt > t)).length := by
          apply Nat.le_antisymm
          · exact nodup_subset_length _ _ (List.Pairwise.filter _ hsn) (fun x hx => by
              obtain ⟨a, b⟩ := List.mem_filter.1 hx
              exact List.mem_filter.2 ⟨hsub x a, b⟩)
          · exact nodup_subset_length _ _ (List.Pairwise.filter _ hnd) (fun x hx => by
              exact List.mem_filter.2 ⟨f1 x hx, (List.mem_filter.1 hx).2⟩)
        have hpart := length_filter_partition (fun x => decide (x.createdAt > t)) S
        refine ⟨f1, ?_, ?_, ?_⟩
        · intro x hx
          have := f2 x hx
          by_cases hxt : x.createdAt > t
          · exact Or.inl (List.mem_filter.2 ⟨hsub x hx, by simpa using hxt⟩)
          · exact Or.inr (List.mem_filter.2 ⟨hsub x hx, by simp; omega⟩)
        · rw [List.filter_congr cbnd]
          omega
        · rw [List.filter_congr (fun x hx => by rw [csure x hx])]
          omega

/-! ### the whole answer -/

/-- the relational reading of the statement: one legal selection per filter; the answer lists their union, each
    event once, in non-increasing created_at order -/
inductive SelAll : List Cand → List (List Event) → Prop
  | nil : SelAll [] []
  | cons {c : Cand} {S : List Event} {cs : List Cand} {ss : List (List Event)} :
      Selects c S → SelAll cs ss → SelAll (c :: cs) (S :: ss)

def Answers (cands : List Cand) (got : List Event) : Prop :=
  ∃ sels : List (List Event), SelAll cands sels ∧
    nonIncreasing got = true ∧ (got.map (·.id)).Nodup ∧ ∀ x, x ∈ got ↔ ∃ S ∈ sels, x ∈ S

theorem eraseDups_of_nodup (l : List String) (h : l.Nodup) : l.eraseDups = l := by
  induction l with
  | nil => simp
  | cons x xs ih =>
    obtain ⟨hx, hxs⟩ := List.nodup_cons.1 h
    rw [List.eraseDups_cons]
    have : xs.filter (fun b => !b == x) = xs := by
      rw [List.filter_eq_self]
      intro y hy
      have : y ≠ x := fun hyx => hx (hyx ▸ hy)
      simpa using this
    rw [this, ih hxs]

theorem nodup_of_map_nodup {α β} (f : α → β) (l : List α) (h : (l.map f).Nodup) : l.Nodup := by
  induction l with
  | nil => exact List.nodup_nil
  | cons x xs ih =>
    simp only [List.map_cons, List.nodup_cons] at h ⊢
    exact ⟨fun hx => h.1 (List.mem_map.2 ⟨x, hx, rfl⟩), ih h.2⟩

/-- per-filter facts along the two lists -/
theorem forall2_facts (cands : List Cand) (sels : List (List Event)) (hnd : ∀ c ∈ cands, c.ms.Nodup)
    (h : SelAll cands sels) :
    (∀ x, x ∈ (cands.map slotOf).flatMap (·.sure) → ∃ S ∈ sels, x ∈ S) ∧
    (∀ S ∈ sels, ∀ x ∈ S, x ∈ (cands.map slotOf).flatMap (·.sure) ∨ x ∈ (cands.map slotOf).flatMap (·.boundary)) ∧
    (∀ sl ∈ cands.map slotOf, ∃ S ∈ sels, S.Nodup ∧ sl.need ≤ (S.filter sl.boundary.contains).length) ∧
    (∃ rest : List (List Event), rest.length = sels.length ∧
      (∀ S ∈ sels, ∀ x ∈ S, x ∉ (cands.map slotOf).flatMap (·.sure) → ∃ R ∈ rest, x ∈ R) ∧
      (rest.map List.length).sum ≤ ((cands.map slotOf).map (·.need)).sum) := by
  induction h with
  | nil => exact ⟨by simp, by simp, by simp, [], rfl, by simp, by simp⟩
  | @cons c S cs ss hcS hrest ih =>
    obtain ⟨i1, i2, i3, rest, r1, r2, r3⟩ := ih (fun c' hc' => hnd c' (List.mem_cons_of_mem _ hc'))
    obtain ⟨f1, f2, f3, f4⟩ := slot_facts c S (hnd c (by simp)) hcS
    refine ⟨?_, ?_, ?_, (S.filter (fun x => !(slotOf c).sure.contains x)) :: rest, by simp [r1], ?_, ?_⟩
    · intro x hx
      simp only [List.map_cons, List.flatMap_cons, List.mem_append] at hx
      rcases hx with hx | hx
      · exact ⟨S, by simp, f1 x hx⟩
      · obtain ⟨S', hS', hx'⟩ := i1 x hx
        exact ⟨S', List.mem_cons_of_mem _ hS', hx'⟩
    · intro S' hS' x hx
      simp only [List.map_cons, List.flatMap_cons, List.mem_append]
      rcases List.mem_cons.1 hS' with rfl | hS'
      · rcases f2 x hx with h | h
        · exact Or.inl (Or.inl h)
        · exact Or.inr (Or.inl h)
      · rcases i2 S' hS' x hx with h | h
        · exact Or.inl (Or.inr h)
        · exact Or.inr (Or.inr h)
    · intro sl hsl
      simp only [List.map_cons, List.mem_cons] at hsl
      rcases hsl with rfl | hsl
      · exact ⟨S, by simp, hcS.nodup, f3⟩
      · obtain ⟨S', hS', h'⟩ := i3 sl hsl
        exact ⟨S', List.mem_cons_of_mem _ hS', h'⟩
    · intro S' hS' x hx hns
      simp only [List.map_cons, List.flatMap_cons, List.mem_append, not_or] at hns
      rcases List.mem_cons.1 hS' with rfl | hS'
      · exact ⟨S'.filter (fun x => !(slotOf c).sure.contains x), List.mem_cons_self, List.mem_filter.2 ⟨hx, by simpa using hns.1⟩⟩
      · obtain ⟨R, hR, hxR⟩ := r2 S' hS' x hx hns.2
        exact ⟨R, List.mem_cons_of_mem _ hR, hxR⟩
    · simp only [List.map_cons, List.sum_cons]
      omega

theorem nodup_cover_length {α} [DecidableEq α] (l : List α) (hnd : l.Nodup) :
    ∀ (parts : List (List α)), (∀ x ∈ l, ∃ R ∈ parts, x ∈ R) → l.length ≤ (parts.map List.length).sum := by
  intro parts hcov
  have : l.length ≤ parts.flatten.length :=
    nodup_subset_length l parts.flatten hnd (fun x hx => by
      obtain ⟨R, hR, hxR⟩ := hcov x hx
      exact List.mem_flatten.2 ⟨R, hR, hxR⟩)
  simpa [List.length_flatten] using this

/-- **C06, every legal answer passes the judge**, whatever the tie-breaking -/
theorem answers_accepted (cands : List Cand) (got : List Event) (hnd : ∀ c ∈ cands, c.ms.Nodup)
    (h : Answers cands got) : judgeAnswer cands got = [] := by
  obtain ⟨sels, hsel, hord, hids, hmem⟩ := h
  obtain ⟨g1, g2, g3, rest, _, g4, g5⟩ := forall2_facts cands sels hnd hsel
  have hgnd : got.Nodup := nodup_of_map_nodup (·.id) got hids
  unfold judgeAnswer
  simp only [List.append_eq_nil_iff]
  refine ⟨⟨⟨⟨⟨?_, ?_⟩, ?_⟩, ?_⟩, ?_⟩, ?_⟩
  · simp [hord]
  · simp [eraseDups_of_nodup _ hids]
  · rw [List.filterMap_eq_nil_iff]
    intro x hx
    obtain ⟨S, hS, hxS⟩ := (hmem x).1 hx
    have : ((cands.map slotOf).flatMap (·.sure) ++ (cands.map slotOf).flatMap (·.boundary)).contains x = true := by
      simp only [List.contains_iff_mem, List.mem_append]
      exact g2 S hS x hxS
    exact if_pos this
  · rw [List.filterMap_eq_nil_iff]
    intro x hx
    have hx' := List.mem_eraseDups.1 hx
    obtain ⟨S, hS, hxS⟩ := g1 x hx'
    have : got.contains x = true := by
      simp only [List.contains_iff_mem]
      exact (hmem x).2 ⟨S, hS, hxS⟩
    exact if_pos this
  · rw [List.filterMap_eq_nil_iff]
    intro sl hsl
    obtain ⟨S, hS, hSn, hneed⟩ := g3 sl hsl
    have hle : (S.filter sl.boundary.contains).length ≤ (got.filter sl.boundary.contains).length :=
      nodup_subset_length _ _ (List.Pairwise.filter _ hSn) (fun x hx => by
        obtain ⟨a, b⟩ := List.mem_filter.1 hx
        exact List.mem_filter.2 ⟨(hmem x).2 ⟨S, hS, a⟩, b⟩)
    have : ¬ (got.filter sl.boundary.contains).length < sl.need := by omega
    exact if_neg this
  · have hcov : ∀ x ∈ got.filter (fun x => !((cands.map slotOf).flatMap (·.sure)).contains x), ∃ R ∈ rest, x ∈ R := by
      intro x hx
      obtain ⟨a, b⟩ := List.mem_filter.1 hx
      obtain ⟨S, hS, hxS⟩ := (hmem x).1 a
      exact g4 S hS x hxS (by simpa using b)
    have := nodup_cover_length _ (List.Pairwise.filter _ hgnd) rest hcov
    have hle : ¬ ((got.filter (fun x => !((cands.map slotOf).flatMap (·.sure)).contains x)).length >
        ((cands.map slotOf).map (·.need)).sum) := by omega
    exact if_neg hle

/-! non-vacuity: two candidates tied at the limit — either may be returned, the older one may not -/
def exE (id : String) (t : Int) : Event := { id := id, pubkey := "p", createdAt := t, kind := 1, tags := [], content := "", sig := "" }
def exC : Cand := { ms := [exE "a" 5, exE "b" 5, exE "c" 3], limit := some 1 }

example : Answers [exC] [exE "b" 5] := by
  refine ⟨[[exE "b" 5]], .cons ⟨?_, ?_, ?_, ?_⟩ .nil, by decide, by decide, by simp⟩
  · intro x hx; simp only [List.mem_singleton] at hx; subst hx; decide
  · decide
  · decide
  · intro x hx y hy _
    simp only [List.mem_singleton] at hx; subst hx
    simp only [exC, List.mem_cons, List.not_mem_nil, or_false] at hy
    rcases hy with rfl | rfl | rfl <;> decide
example : judgeAnswer [exC] [exE "a" 5] = [] := by decide
example : judgeAnswer [exC] [exE "c" 3] ≠ [] := by decide

end Moc.C06A
