/-
  C05, the deletion registry: the map-of-sets the Go code maintains implements the set of triples
  (referenced key, author, id of the retained request) of the models — entry by entry:
    regIsDeleted  =  "some triple has this key and author"        (`isDeleted_refines`)
    regAdd        =  insertion of a triple                         (`regAdd_refines`)
    regDel        =  removal of a triple                           (`regDel_refines`)
  under the representation invariant that no empty set is kept (`RegOK`, preserved by both updates) — the reason why
  "the entry exists" may stand for "some request naming the key is retained".
  The abstract store uses its `deleted` component through exactly these three operations (`Cache.isDeleted`,
  `Cache.addKind5`, the filter in `Cache.delete`); at run time the implementation's registry (hook `VerifState`) is
  compared with the model's triples after every insertion, empty sets included.
-/
import MocModel.CacheReg

namespace Moc.C05R
open Moc

def RegOK (r : Reg) : Prop := ∀ p ∈ r, p.2 ≠ []

theorem lookup_filter_ne (r : Reg) (k k' : String × String) :
    List.lookup k' (r.filter (fun p => p.1 != k)) = if k' = k then none else List.lookup k' r := by
  induction r with
  | nil => simp
  | cons p ps ih =>
    obtain ⟨pk, pv⟩ := p
    by_cases hpk : pk = k
    · subst hpk
      simp only [List.filter_cons, bne_self_eq_false, Bool.false_eq_true, if_false, ih, List.lookup_cons]
      by_cases h : k' = pk
      · simp [h]
      · have : (k' == pk) = false := by simpa using h
        simp [h, this]
    · have hne : (pk != k) = true := by simpa using hpk
      simp only [List.filter_cons, hne, if_true, List.lookup_cons, ih]
      by_cases h : k' = pk
      · subst h; simp [hpk]
      · have : (k' == pk) = false := by simpa using h
        simp [this]

theorem rGet_rSet_same (r : Reg) (k : String × String) (s : List String) : rGet (rSet r k s) k = s := by
  simp [rGet, rSet, List.lookup_cons]

theorem rGet_rSet_other (r : Reg) (k k' : String × String) (s : List String) (h : k' ≠ k) :
    rGet (rSet r k s) k' = rGet r k' := by
  have : (k' == k) = false := by simpa using h
  simp [rGet, rSet, List.lookup_cons, this, lookup_filter_ne, h]

theorem rGet_rErase_same (r : Reg) (k : String × String) : rGet (rErase r k) k = [] := by
  simp [rGet, rErase, lookup_filter_ne]

theorem rGet_rErase_other (r : Reg) (k k' : String × String) (h : k' ≠ k) : rGet (rErase r k) k' = rGet r k' := by
  simp [rGet, rErase, lookup_filter_ne, h]

/-- membership in the triples, through the lookups: needs that a key occurs once (the first occurrence is the one
    `lookup` sees); `KeysNodup` is preserved by the updates because they filter the key out before re-inserting it -/
def KeysNodup (r : Reg) : Prop := (r.map (·.1)).Nodup

theorem mem_triples (r : Reg) (hk : KeysNodup r) (k p i : String) :
    (k, p, i) ∈ triples r ↔ i ∈ rGet r (k, p) := by
  induction r with
  | nil => simp [triples, rGet]
  | cons q qs ih =>
    obtain ⟨⟨qk, qp⟩, qs'⟩ := q
    have hk' : KeysNodup qs := (List.nodup_cons.1 hk).2
    have hnot : (qk, qp) ∉ qs.map (·.1) := (List.nodup_cons.1 hk).1
    simp only [triples, List.flatMap_cons, List.mem_append, List.mem_map, Prod.mk.injEq] at ih ⊢
    by_cases hq : (k, p) = (qk, qp)
    · cases hq
      have hnone : List.lookup (k, p) qs = none := by
        cases hl : List.lookup (k, p) qs with
        | none => rfl
        | some v =>
          exfalso
          apply hnot
          clear ih hk hk' hnot
          induction qs with
          | nil => simp at hl
          | cons a as iha =>
            obtain ⟨ak, av⟩ := a
            simp only [List.lookup_cons] at hl
            by_cases hak : (k, p) = ak
            · subst hak; simp
            · have : ((k, p) == ak) = false := by simpa using hak
              simp only [this] at hl
              exact List.mem_cons_of_mem _ (iha hl)
      constructor
      · rintro (⟨x, hx, _, _, rfl⟩ | h)
        · simpa [rGet, List.lookup_cons] using hx
        · have := (ih hk').1 h
          simp [rGet, hnone] at this
      · intro h
        left
        refine ⟨i, ?_, rfl, rfl, rfl⟩
        simpa [rGet, List.lookup_cons] using h
    · have hne : ((k, p) == (qk, qp)) = false := by simpa using hq
      constructor
      · rintro (⟨x, _, h1, h2, _⟩ | h)
        · exact absurd (by rw [h1, h2]) hq
        · have := (ih hk').1 h
          simpa [rGet, List.lookup_cons, hne] using this
      · intro h
        right
        apply (ih hk').2
        simpa [rGet, List.lookup_cons, hne] using h

/-- the registry represents the set of triples `d` -/
structure Rel (r : Reg) (d : List (String × String × String)) : Prop where
  keys : KeysNodup r
  ok : RegOK r
  mem : ∀ t, t ∈ triples r ↔ t ∈ d

theorem rel_empty : Rel [] [] := by
  refine ⟨List.nodup_nil, ?_, ?_⟩
  · intro p hp; cases hp
  · intro t; simp [triples]

theorem lookup_mem (r : Reg) (k : String × String) (s : List String) (h : r.lookup k = some s) : (k, s) ∈ r := by
  induction r with
  | nil => simp at h
  | cons a as ih =>
    obtain ⟨ak, av⟩ := a
    simp only [List.lookup_cons] at h
    by_cases hak : k = ak
    · subst hak; simp at h; subst h; simp
    · have : (k == ak) = false := by simpa using hak
      simp only [this] at h
      exact List.mem_cons_of_mem _ (ih h)

/-- **`isDeleted`**: "the entry exists" = "some retained request of that author names the key" -/
theorem isDeleted_refines (r : Reg) (d : List (String × String × String)) (h : Rel r d) (k p : String) :
    regIsDeleted r k p = d.any (fun t => t.1 == k && t.2.1 == p) := by
  rw [Bool.eq_iff_iff]
  simp only [regIsDeleted, List.any_eq_true, Bool.and_eq_true, beq_iff_eq]
  constructor
  · intro hs
    cases hl : r.lookup (k, p) with
    | none => simp [hl] at hs
    | some s =>
      have hne := h.ok _ (lookup_mem r _ s hl)
      cases s with
      | nil => exact absurd rfl hne
      | cons i rest =>
        refine ⟨(k, p, i), (h.mem _).1 ((mem_triples r h.keys k p i).2 (by simp [rGet, hl])), rfl, rfl⟩
  · rintro ⟨⟨k', p', i⟩, ht, rfl, rfl⟩
    have := (mem_triples r h.keys k' p' i).1 ((h.mem _).2 ht)
    cases hl : r.lookup (k', p') with
    | none => simp [rGet, hl] at this
    | some s => simp

theorem keys_rSet (r : Reg) (k : String × String) (s : List String) (h : KeysNodup r) : KeysNodup (rSet r k s) := by
  simp only [KeysNodup, rSet, List.map_cons, List.nodup_cons]
  refine ⟨?_, List.Pairwise.sublist (List.Sublist.map _ List.filter_sublist) h⟩
  intro hm
  obtain ⟨q, hq, hqk⟩ := List.mem_map.1 hm
  have := (List.mem_filter.1 hq).2
  simp [hqk] at this

theorem keys_rErase (r : Reg) (k : String × String) (h : KeysNodup r) : KeysNodup (rErase r k) :=
  List.Pairwise.sublist (List.Sublist.map _ List.filter_sublist) h

theorem ok_rSet (r : Reg) (k : String × String) (s : List String) (h : RegOK r) (hs : s ≠ []) : RegOK (rSet r k s) := by
  intro q hq
  rcases List.mem_cons.1 hq with rfl | hq
  · exact hs
  · exact h q (List.mem_filter.1 hq).1

theorem ok_rErase (r : Reg) (k : String × String) (h : RegOK r) : RegOK (rErase r k) :=
  fun q hq => h q (List.mem_filter.1 hq).1

/-- **`addKind5`, one reference** -/
theorem regAdd_refines (r : Reg) (d : List (String × String × String)) (h : Rel r d) (k p i : String) :
    Rel (regAdd r k p i) (if d.contains (k, p, i) then d else (k, p, i) :: d) := by
  have hk' : KeysNodup (regAdd r k p i) :=
    keys_rSet r (k, p) (if (rGet r (k, p)).contains i then rGet r (k, p) else i :: rGet r (k, p)) h.keys
  have hne : (if (rGet r (k, p)).contains i then rGet r (k, p) else i :: rGet r (k, p)) ≠ [] := by
    split
    · rename_i hc
      intro he; rw [he] at hc; simp at hc
    · exact List.cons_ne_nil _ _
  refine ⟨hk', ok_rSet r _ _ h.ok hne, ?_⟩
  rintro ⟨k2, p2, i2⟩
  rw [mem_triples _ hk']
  unfold regAdd
  simp only []
  by_cases hkey : (k2, p2) = (k, p)
  · have e1 : k2 = k := (Prod.mk.inj hkey).1
    have e2 : p2 = p := (Prod.mk.inj hkey).2
    subst e1 e2
    rw [rGet_rSet_same]
    have hold : i2 ∈ rGet r (k2, p2) ↔ (k2, p2, i2) ∈ d := by rw [← mem_triples r h.keys, h.mem]
    by_cases hc : (rGet r (k2, p2)).contains i = true
    · have hin : (k2, p2, i) ∈ d := by
        rw [← h.mem, mem_triples r h.keys]; simpa using hc
      have hdc : d.contains (k2, p2, i) = true := by simpa using hin
      simp only [hc, if_true, hdc, hold]
    · have hnin : (k2, p2, i) ∉ d := by
        rw [← h.mem, mem_triples r h.keys]; simpa using hc
      have hdc : d.contains (k2, p2, i) = false := by simpa using hnin
      simp only [hc, Bool.false_eq_true, if_false, hdc, List.mem_cons, hold, Prod.mk.injEq, true_and]
  · rw [rGet_rSet_other _ _ _ _ hkey]
    have hold : i2 ∈ rGet r (k2, p2) ↔ (k2, p2, i2) ∈ d := by rw [← mem_triples r h.keys, h.mem]
    rw [hold]
    have hne : (k2, p2, i2) ≠ (k, p, i) := by
      intro he; apply hkey; cases he; rfl
    split
    · rfl
    · simp [hne]

/-- **the clean-up of `delete`, one reference** -/
theorem regDel_refines (r : Reg) (d : List (String × String × String)) (h : Rel r d) (k p i : String) :
    Rel (regDel r k p i) (d.filter (fun t => !(t.1 == k && t.2.1 == p && t.2.2 == i))) := by
  have hold : ∀ k2 p2 i2, i2 ∈ rGet r (k2, p2) ↔ (k2, p2, i2) ∈ d := by
    intro k2 p2 i2; rw [← mem_triples r h.keys, h.mem]
  unfold regDel
  cases hl : r.lookup (k, p) with
  | none =>
    -- nothing recorded under this key: the filter removes nothing either
    refine ⟨h.keys, h.ok, ?_⟩
    rintro ⟨k2, p2, i2⟩
    rw [h.mem, List.mem_filter]
    constructor
    · intro ht
      refine ⟨ht, ?_⟩
      simp only [Bool.not_eq_true', Bool.and_eq_false_iff, beq_eq_false_iff_ne]
      by_cases hkp : k2 = k ∧ p2 = p
      · obtain ⟨e1, e2⟩ := hkp
        subst e1 e2
        have := (hold k2 p2 i2).2 ht
        simp [rGet, hl] at this
      · by_cases hk2 : k2 = k
        · exact Or.inl (Or.inr (fun hp => hkp ⟨hk2, hp⟩))
        · exact Or.inl (Or.inl hk2)
    · exact fun ht => ht.1
  | some s =>
    simp only []
    have hs : rGet r (k, p) = s := by simp [rGet, hl]
    have hmemNew : ∀ (r' : Reg), KeysNodup r' → (∀ k2 p2, rGet r' (k2, p2) = if (k2, p2) = (k, p) then s.filter (fun x => x != i) else rGet r (k2, p2)) →
        ∀ t, t ∈ triples r' ↔ t ∈ d.filter (fun t => !(t.1 == k && t.2.1 == p && t.2.2 == i)) := by
      intro r' hk' hget
      rintro ⟨k2, p2, i2⟩
      rw [mem_triples r' hk', hget, List.mem_filter]
      by_cases hkey : (k2, p2) = (k, p)
      · have e1 : k2 = k := (Prod.mk.inj hkey).1
        have e2 : p2 = p := (Prod.mk.inj hkey).2
        subst e1 e2
        simp only [if_true, List.mem_filter, ← hs, hold, bne_iff_ne, ne_eq, beq_self_eq_true, Bool.true_and,
          Bool.not_eq_true', beq_eq_false_iff_ne]
      · simp only [hkey, if_false, hold]
        constructor
        · intro ht
          refine ⟨ht, ?_⟩
          simp only [Bool.not_eq_true', Bool.and_eq_false_iff, beq_eq_false_iff_ne]
          by_cases hk2 : k2 = k
          · exact Or.inl (Or.inr (fun hp => hkey (by rw [hk2, hp])))
          · exact Or.inl (Or.inl hk2)
        · exact fun ht => ht.1
    split
    · rename_i hemp
      have hnil : s.filter (fun x => x != i) = [] := List.isEmpty_iff.1 hemp
      refine ⟨keys_rErase r _ h.keys, ok_rErase r _ h.ok, hmemNew _ (keys_rErase r _ h.keys) ?_⟩
      intro k2 p2
      by_cases hkey : (k2, p2) = (k, p)
      · rw [hkey]; simp [rGet_rErase_same, hnil]
      · simp [rGet_rErase_other _ _ _ hkey, hkey]
    · rename_i hne
      have hne' : s.filter (fun x => x != i) ≠ [] := fun he => hne (by simp [he])
      refine ⟨keys_rSet r _ _ h.keys, ok_rSet r _ _ h.ok hne', hmemNew _ (keys_rSet r _ _ h.keys) ?_⟩
      intro k2 p2
      by_cases hkey : (k2, p2) = (k, p)
      · rw [hkey]; simp [rGet_rSet_same]
      · simp [rGet_rSet_other _ _ _ _ hkey, hkey]

/-- **`addKind5`** as a whole: the loop over the request's references implements the abstract registration -/
theorem addKind5_refines (e : Event) (refs : List String) :
    ∀ (r : Reg) (d : List (String × String × String)), Rel r d →
      Rel (refs.foldl (fun r k => regAdd r k e.pubkey e.id) r)
          (refs.foldl (fun d k => if d.contains (k, e.pubkey, e.id) then d else (k, e.pubkey, e.id) :: d) d) := by
  induction refs with
  | nil => intro r d h; exact h
  | cons k ks ih => intro r d h; exact ih _ _ (regAdd_refines r d h k e.pubkey e.id)

/-- the registration `Cache.addKind5` performs is the abstract side of `addKind5_refines` -/
theorem addKind5_abstract (c : Cache) (e : Event) :
    (c.addKind5 e).deleted =
      (k5Refs e).foldl (fun d k => if d.contains (k, e.pubkey, e.id) then d else (k, e.pubkey, e.id) :: d) c.deleted := rfl

/-- **the clean-up in `delete`** as a whole: the loop over the leaving request's references removes exactly its
    own triples (what `Cache.delete` does with one filter) -/
theorem cleanup_refines (cand : Event) (refs : List String) :
    ∀ (r : Reg) (d : List (String × String × String)), Rel r d →
      ∃ d', Rel (refs.foldl (fun r k => regDel r k cand.pubkey cand.id) r) d' ∧
        ∀ t, t ∈ d' ↔ t ∈ d.filter (fun t => !(refs.contains t.1 && t.2.1 == cand.pubkey && t.2.2 == cand.id)) := by
  induction refs with
  | nil => intro r d h; exact ⟨d, h, by intro t; simp⟩
  | cons k ks ih =>
    intro r d h
    obtain ⟨d', h', hm⟩ := ih _ _ (regDel_refines r d h k cand.pubkey cand.id)
    refine ⟨d', h', ?_⟩
    intro t
    rw [hm, List.mem_filter, List.mem_filter, List.mem_filter]
    have hb : (!(t.1 == k && t.2.1 == cand.pubkey && t.2.2 == cand.id) &&
        !(ks.contains t.1 && t.2.1 == cand.pubkey && t.2.2 == cand.id))
        = !((k :: ks).contains t.1 && t.2.1 == cand.pubkey && t.2.2 == cand.id) := by
      rw [List.contains_cons]
      cases (t.1 == k) <;> cases (ks.contains t.1) <;> cases (t.2.1 == cand.pubkey) <;> cases (t.2.2 == cand.id) <;> rfl
    rw [← hb]
    simp only [Bool.and_eq_true, and_assoc]

/-! non-vacuity: two requests naming one key; the first leaves, the entry stays; the second leaves, the entry goes -/
example : regIsDeleted (regDel (regAdd (regAdd [] "x" "a" "k1") "x" "a" "k2") "x" "a" "k1") "x" "a" = true := by decide
example : regIsDeleted (regDel (regDel (regAdd (regAdd [] "x" "a" "k1") "x" "a" "k2") "x" "a" "k1") "x" "a" "k2") "x" "a" = false := by decide

end Moc.C05R
