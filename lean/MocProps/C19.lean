/-
  C19 — Metrics middleware: gauges and counters equal what happened.

  Model: MocModel/Prom.lean (`Prom.step`), Spec: MocModel/Spec/Prom.lean (`liveSessions`,
  `openSubsOf`, `countRecv` …).  Transparency (messages pass unaltered) is not a statement about
  the bookkeeping state; it is checked by the monitor on every message of the correspondence run.
-/
import MocModel.Spec.Prom

set_option linter.unusedSimpArgs false

namespace Moc.C19
open Moc

/-- the bookkeeping statements of prometheus.go that `Prom.step` translates by hand are still the
    regenerated source text -/
theorem prom_source_pinned : promActualSource = promExpectedSource := by rfl

/-- **C19 labels**: every message type is counted under its own NIP-01 label (tables regenerated from the
    `switch` cases and `WithLabelValues` calls). -/
theorem recv_label_correct (m : ClientMsg) : recvLabel m = nip01Label m := by
  cases m <;> rfl

theorem send_label_correct (m : ServerMsg) : sendLabel m = nip01SLabel m := by
  cases m <;> rfl

/-! ### counters -/

theorem getCnt_bump {α} [BEq α] [LawfulBEq α] (k k' : α) (l : List (α × Nat)) :
    getCnt k' (bump k l) = getCnt k' l + (if k == k' then 1 else 0) := by
  induction l with
  | nil =>
    by_cases h : k = k'
    · subst h; simp [bump, getCnt, List.lookup]
    · have h1 : (k == k') = false := by simpa using h
      have h2 : (k' == k) = false := by simpa using (Ne.symm h)
      simp [bump, getCnt, List.lookup, h1, h2]
  | cons q rest ih =>
    obtain ⟨a, n⟩ := q
    unfold bump
    by_cases hak : a = k
    · subst hak
      by_cases hk' : a = k'
      · subst hk'; simp [getCnt, List.lookup]
      · have h1 : (a == k') = false := by simpa using hk'
        have h2 : (k' == a) = false := by simpa using (Ne.symm hk')
        simp [getCnt, List.lookup, h1, h2]
    · have hak' : (a == k) = false := by simpa using hak
      simp only [hak', Bool.false_eq_true, if_false]
      by_cases hk' : k' = a
      · subst hk'
        have : (k == k') = false := by simpa using (Ne.symm hak)
        simp [getCnt, List.lookup, this]
      · have h2 : (k' == a) = false := by simpa using hk'
        simp only [getCnt, List.lookup, h2] at ih ⊢
        exact ih

/-- **C19 per-type receive counters** equal the number of client messages of that type that crossed,
    for every history whatsoever. -/
theorem recv_counters (steps : List PStep) (label : String) :
    ∀ p : Prom, getCnt label (p.run steps).recv = getCnt label p.recv + countRecv label steps := by
  induction steps with
  | nil => intro p; simp [Prom.run, countRecv]
  | cons st rest ih =>
    intro p
    have hrun : p.run (st :: rest) = (p.step st).run rest := rfl
    rw [hrun, ih]
    cases st with
    | start s => simp [Prom.step, countRecv]
    | stop s => simp [Prom.step, countRecv]
    | server s m =>
      have : (p.step (.server s m)).recv = p.recv := by
        cases m <;> simp only [Prom.step] <;> (try split) <;> rfl
      simp [this, countRecv]
    | client s m =>
      have : (p.step (.client s m)).recv = bump (recvLabel m) p.recv := by
        cases m <;> simp only [Prom.step] <;> (try split) <;> rfl
      rw [this, getCnt_bump, recv_label_correct]
      simp only [countRecv, List.countP_cons]
      by_cases h : nip01Label m = label
      · simp [h]; omega
      · have : (nip01Label m == label) = false := by simpa using h
        simp [this]

/-- **C19 per-type send counters.** -/
theorem sent_counters (steps : List PStep) (label : String) :
    ∀ p : Prom, getCnt label (p.run steps).sent = getCnt label p.sent + countSent label steps := by
  induction steps with
  | nil => intro p; simp [Prom.run, countSent]
  | cons st rest ih =>
    intro p
    have hrun : p.run (st :: rest) = (p.step st).run rest := rfl
    rw [hrun, ih]
    cases st with
    | start s => simp [Prom.step, countSent]
    | stop s => simp [Prom.step, countSent]
    | client s m =>
      have : (p.step (.client s m)).sent = p.sent := by
        cases m <;> simp only [Prom.step] <;> (try split) <;> rfl
      simp [this, countSent]
    | server s m =>
      have : (p.step (.server s m)).sent = bump (sendLabel m) p.sent := by
        cases m <;> simp only [Prom.step] <;> (try split) <;> rfl
      rw [this, getCnt_bump, send_label_correct]
      simp only [countSent, List.countP_cons]
      by_cases h : nip01SLabel m = label
      · simp [h]; omega
      · have : (nip01SLabel m == label) = false := by simpa using h
        simp [this]

/-- **C19 per-kind event counter.** -/
theorem kind_counters (steps : List PStep) (k : Int) :
    ∀ p : Prom, getCnt k (p.run steps).kinds = getCnt k p.kinds + countKind k steps := by
  induction steps with
  | nil => intro p; simp [Prom.run, countKind]
  | cons st rest ih =>
    intro p
    have hrun : p.run (st :: rest) = (p.step st).run rest := rfl
    rw [hrun, ih]
    cases st with
    | start s => simp [Prom.step, countKind]
    | stop s => simp [Prom.step, countKind]
    | server s m =>
      have : (p.step (.server s m)).kinds = p.kinds := by
        cases m <;> simp only [Prom.step] <;> (try split) <;> rfl
      simp [this, countKind]
    | client s m =>
      cases m with
      | event e =>
        have : (p.step (.client s (.event e))).kinds = bump e.kind p.kinds := rfl
        rw [this, getCnt_bump]
        simp only [countKind, List.countP_cons]
        by_cases h : e.kind = k
        · simp [h]; omega
        · have : (e.kind == k) = false := by simpa using h
          simp [this]
      | req sub fs =>
        have : (p.step (.client s (.req sub fs))).kinds = p.kinds := by
          simp only [Prom.step]; split <;> rfl
        simp [this, countKind]
      | close sub =>
        have : (p.step (.client s (.close sub))).kinds = p.kinds := by
          simp only [Prom.step]; split <;> rfl
        simp [this, countKind]
      | auth e => simp [Prom.step, countKind]
      | count sub fs => simp [Prom.step, countKind]

/-! ### gauges -/

theorem lookup_filter_ne (subs : List (Nat × List String)) (sid s : Nat) (h : s ≠ sid) :
    (subs.filter (fun q => q.1 != sid)).lookup s = subs.lookup s := by
  induction subs with
  | nil => rfl
  | cons q rest ih =>
    obtain ⟨a, l⟩ := q
    by_cases ha : a = sid
    · subst ha
      have h1 : (s == a) = false := by simpa using h
      simp [List.filter, List.lookup, h1, ih]
    · have h1 : (a != sid) = true := by simpa using ha
      simp only [List.filter, h1, List.lookup]
      split <;> simp_all

theorem lookup_filter_self (subs : List (Nat × List String)) (sid : Nat) :
    (subs.filter (fun q => q.1 != sid)).lookup sid = none := by
  induction subs with
  | nil => rfl
  | cons q rest ih =>
    obtain ⟨a, l⟩ := q
    by_cases ha : a = sid
    · subst ha; simp [List.filter, ih]
    · have h1 : (a != sid) = true := by simpa using ha
      have h2 : (sid == a) = false := by simpa using (Ne.symm ha)
      simp [List.filter, h1, List.lookup, h2, ih]

theorem getSubs_set (p : Prom) (sid s : Nat) (l : List String) (q : Prom)
    (hq : q.subs = setSubs p.subs sid l) : getSubs q s = if s = sid then l else getSubs p s := by
  unfold getSubs
  rw [hq]
  unfold setSubs
  by_cases h : s = sid
  · subst h; simp [List.lookup]
  · have h1 : (s == sid) = false := by simpa using h
    simp [List.lookup, h1, h, lookup_filter_ne p.subs sid s h]

theorem getSubs_drop (p : Prom) (sid s : Nat) (q : Prom)
    (hq : q.subs = dropSubs p.subs sid) : getSubs q s = if s = sid then [] else getSubs p s := by
  unfold getSubs
  rw [hq]
  unfold dropSubs
  by_cases h : s = sid
  · subst h; simp [lookup_filter_self]
  · simp [h, lookup_filter_ne p.subs sid s h]

theorem sum_congr_of_ne (live : List Nat) (sid : Nat) (hs : sid ∉ live) (f g : Nat → Int)
    (hfg : ∀ s, s ≠ sid → g s = f s) : (live.map g).sum = (live.map f).sum := by
  induction live with
  | nil => rfl
  | cons a rest ih =>
    simp only [List.mem_cons, not_or] at hs
    simp only [List.map_cons, List.sum_cons, ih hs.2, hfg a (Ne.symm hs.1)]

theorem sum_update (live : List Nat) (hnd : live.Nodup) (sid : Nat) (hs : sid ∈ live) (f g : Nat → Int)
    (hfg : ∀ s, s ≠ sid → g s = f s) : (live.map g).sum = (live.map f).sum - f sid + g sid := by
  induction live with
  | nil => cases hs
  | cons a rest ih =>
    simp only [List.nodup_cons] at hnd
    simp only [List.map_cons, List.sum_cons]
    by_cases ha : a = sid
    · subst ha
      rw [sum_congr_of_ne rest a hnd.1 f g hfg]; omega
    · have hs' : sid ∈ rest := by
        simp only [List.mem_cons] at hs
        rcases hs with h | h
        · exact absurd h.symm ha
        · exact h
      rw [ih hnd.2 hs', hfg a ha]; omega

theorem sum_erase (live : List Nat) (hnd : live.Nodup) (sid : Nat) (hs : sid ∈ live) (f g : Nat → Int)
    (hfg : ∀ s, s ≠ sid → g s = f s) : ((live.erase sid).map g).sum = (live.map f).sum - f sid := by
  induction live with
  | nil => cases hs
  | cons a rest ih =>
    simp only [List.nodup_cons] at hnd
    by_cases ha : a = sid
    · subst ha
      simp only [List.erase_cons_head, List.map_cons, List.sum_cons]
      rw [sum_congr_of_ne rest a hnd.1 f g hfg]; omega
    · have hs' : sid ∈ rest := by
        simp only [List.mem_cons] at hs
        rcases hs with h | h
        · exact absurd h.symm ha
        · exact h
      rw [List.erase_cons_tail (by simpa using ha)]
      simp only [List.map_cons, List.sum_cons, ih hnd.2 hs', hfg a ha]; omega

/-- invariant tying the model state to the set of live sessions -/
structure PInv (p : Prom) (live : List Nat) : Prop where
  nodup : live.Nodup
  conn : p.conn = live.length
  req : p.req = (live.map fun s => ((getSubs p s).length : Int)).sum

/-- one step: the invariant is preserved and each live session's set evolves as the statement says
    (opened by REQ, ended by CLOSE / CLOSED), for a step that respects session lifetimes -/
theorem step_inv (p : Prom) (live dead : List Nat) (st : PStep) (rest : List PStep)
    (hinv : PInv p live) (hwf : WellFormedHist (st :: rest) live dead) :
    PInv (p.step st) (liveStep live st) ∧
    (∀ s, s ∈ liveStep live st → s ∈ live → getSubs (p.step st) s = openStep s (getSubs p s) st) ∧
    (∀ s, s ∈ liveStep live st → s ∉ live → getSubs (p.step st) s = []) := by
  obtain ⟨hnd, hconn, hreq⟩ := hinv
  cases st with
  | start sid =>
    obtain ⟨hnl, _, _⟩ := hwf
    have hg : ∀ s, getSubs (p.step (.start sid)) s = if s = sid then [] else getSubs p s :=
      fun s => getSubs_set p sid s [] _ rfl
    refine ⟨⟨List.nodup_cons.2 ⟨hnl, hnd⟩, by simp [Prom.step, liveStep, hconn], ?_⟩, ?_, ?_⟩
    · simp only [liveStep, List.map_cons, List.sum_cons, hg, if_true, List.length_nil]
      have : (live.map fun s => (((if s = sid then [] else getSubs p s) : List String).length : Int)).sum
          = (live.map fun s => ((getSubs p s).length : Int)).sum := by
        apply sum_congr_of_ne live sid hnl
        intro s hs; simp [hs]
      simp [Prom.step, this, hreq]
    · intro s _ hl
      have : s ≠ sid := fun e => hnl (e ▸ hl)
      simp [hg, this, openStep]
    · intro s hs hl
      simp only [liveStep, List.mem_cons] at hs
      rcases hs with rfl | hs
      · simp [hg]
      · exact absurd hs hl
  | stop sid =>
    obtain ⟨hl, _⟩ := hwf
    have hg : ∀ s, getSubs (p.step (.stop sid)) s = if s = sid then [] else getSubs p s :=
      fun s => getSubs_drop p sid s _ rfl
    refine ⟨⟨hnd.erase _, ?_, ?_⟩, ?_, ?_⟩
    · have := List.length_erase_of_mem hl
      have hpos : 0 < live.length := List.length_pos_of_mem hl
      simp only [Prom.step, liveStep, hconn, this]; omega
    · simp only [liveStep]
      rw [sum_erase live hnd sid hl (fun s => ((getSubs p s).length : Int))
        (fun s => ((getSubs (p.step (.stop sid)) s).length : Int)) (by intro s hs; simp [hg, hs])]
      simp [Prom.step, hreq]
    · intro s hs _
      have : s ≠ sid := fun e => by
        subst e; exact ((List.Nodup.mem_erase_iff hnd).1 hs).1 rfl
      simp [hg, this, openStep]
    · intro s hs hl'
      exact absurd (List.mem_of_mem_erase hs) hl'
  | client sid m =>
    obtain ⟨hl, _⟩ := hwf
    have hlive : liveStep live (.client sid m) = live := rfl
    rw [hlive]
    have key : p.step (.client sid m) = p.step (.client sid m) := rfl
    -- describe the new subscription sets and the gauge
    have hdesc : (∀ s, getSubs (p.step (.client sid m)) s =
          if s = sid then openStep sid (getSubs p sid) (.client sid m) else getSubs p s) ∧
        (p.step (.client sid m)).req = p.req - (getSubs p sid).length
            + (openStep sid (getSubs p sid) (.client sid m)).length ∧
        (p.step (.client sid m)).conn = p.conn := by
      cases m with
      | req sub fs =>
        by_cases hc : (getSubs p sid).contains sub = true
        · have e : p.step (.client sid (.req sub fs)) = { p with recv := bump (recvLabel (.req sub fs)) p.recv } := by
            simp [Prom.step, getSubs, hc] ; simp [getSubs] at hc; simp [hc]
          refine ⟨?_, ?_, ?_⟩
          · intro s; rw [e]; by_cases h : s = sid
            · subst h; simp [getSubs, openStep] ; simp [getSubs] at hc; simp [hc]
            · simp [getSubs, h]
          · rw [e]; simp [openStep]; simp [getSubs] at hc ⊢; simp [hc]
          · rw [e]
        · have hc' : (getSubs p sid).contains sub = false := by simpa using hc
          have hm : sub ∉ getSubs p sid := by simpa using hc'
          have e : (p.step (.client sid (.req sub fs))).subs = setSubs p.subs sid (sub :: getSubs p sid) ∧
              (p.step (.client sid (.req sub fs))).req = p.req + 1 ∧
              (p.step (.client sid (.req sub fs))).conn = p.conn := by
            simp [Prom.step, getSubs] at hc' ⊢; simp [hc']
          refine ⟨?_, ?_, e.2.2⟩
          · intro s
            rw [getSubs_set p sid s _ _ e.1]
            by_cases h : s = sid
            · subst h; simp [openStep, hm]
            · simp [h]
          · rw [e.2.1]; simp [openStep, hm]; omega
      | close sub =>
        by_cases hc : (getSubs p sid).contains sub = true
        · have e : (p.step (.client sid (.close sub))).subs = setSubs p.subs sid ((getSubs p sid).erase sub) ∧
              (p.step (.client sid (.close sub))).req = p.req - 1 ∧
              (p.step (.client sid (.close sub))).conn = p.conn := by
            simp [Prom.step, getSubs] at hc ⊢; simp [hc]
          have hm : sub ∈ getSubs p sid := by simpa using hc
          refine ⟨?_, ?_, e.2.2⟩
          · intro s
            rw [getSubs_set p sid s _ _ e.1]
            by_cases h : s = sid
            · subst h; simp [openStep]
            · simp [h]
          · rw [e.2.1]
            have := List.length_erase_of_mem hm
            have hpos : 0 < (getSubs p sid).length := List.length_pos_of_mem hm
            simp [openStep, this]; omega
        · have hc' : (getSubs p sid).contains sub = false := by simpa using hc
          have hm : sub ∉ getSubs p sid := by simpa using hc'
          have e : p.step (.client sid (.close sub)) = { p with recv := bump (recvLabel (.close sub)) p.recv } := by
            simp [Prom.step, getSubs] at hc' ⊢; simp [hc']
          refine ⟨?_, ?_, ?_⟩
          · intro s; rw [e]; by_cases h : s = sid
            · subst h; simp [getSubs, openStep]
              have := List.erase_of_not_mem hm
              simpa [getSubs] using this.symm
            · simp [getSubs, h]
          · rw [e]; simp [openStep, List.erase_of_not_mem hm]
          · rw [e]
      | event e => exact ⟨by intro s; by_cases h : s = sid <;> simp [Prom.step, getSubs, openStep, h], by simp [Prom.step, openStep], rfl⟩
      | auth e => exact ⟨by intro s; by_cases h : s = sid <;> simp [Prom.step, getSubs, openStep, h], by simp [Prom.step, openStep], rfl⟩
      | count sub fs => exact ⟨by intro s; by_cases h : s = sid <;> simp [Prom.step, getSubs, openStep, h], by simp [Prom.step, openStep], rfl⟩
    obtain ⟨hg, hr, hc⟩ := hdesc
    refine ⟨⟨hnd, by rw [hc, hconn], ?_⟩, ?_, fun s hs hl' => absurd hs hl'⟩
    · rw [sum_update live hnd sid hl (fun s => ((getSubs p s).length : Int))
        (fun s => ((getSubs (p.step (.client sid m)) s).length : Int)) (by intro s hs; simp [hg, hs])]
      simp only [hg, if_true, hr, hreq]
    · intro s _ _
      rw [hg]
      by_cases h : s = sid
      · subst h; simp
      · have h' : (sid == s) = false := by simpa using (Ne.symm h)
        cases m <;> simp [h, openStep, h']
  | server sid m =>
    obtain ⟨hl, _⟩ := hwf
    have hlive : liveStep live (.server sid m) = live := rfl
    rw [hlive]
    have hdesc : (∀ s, getSubs (p.step (.server sid m)) s =
          if s = sid then openStep sid (getSubs p sid) (.server sid m) else getSubs p s) ∧
        (p.step (.server sid m)).req = p.req - (getSubs p sid).length
            + (openStep sid (getSubs p sid) (.server sid m)).length ∧
        (p.step (.server sid m)).conn = p.conn := by
      cases m with
      | closed sub pfx msg =>
        by_cases hc : (getSubs p sid).contains sub = true
        · have e : (p.step (.server sid (.closed sub pfx msg))).subs = setSubs p.subs sid ((getSubs p sid).erase sub) ∧
              (p.step (.server sid (.closed sub pfx msg))).req = p.req - 1 ∧
              (p.step (.server sid (.closed sub pfx msg))).conn = p.conn := by
            simp [Prom.step, getSubs] at hc ⊢; simp [hc]
          have hm : sub ∈ getSubs p sid := by simpa using hc
          refine ⟨?_, ?_, e.2.2⟩
          · intro s
            rw [getSubs_set p sid s _ _ e.1]
            by_cases h : s = sid
            · subst h; simp [openStep]
            · simp [h]
          · rw [e.2.1]
            have := List.length_erase_of_mem hm
            have hpos : 0 < (getSubs p sid).length := List.length_pos_of_mem hm
            simp [openStep, this]; omega
        · have hc' : (getSubs p sid).contains sub = false := by simpa using hc
          have hm : sub ∉ getSubs p sid := by simpa using hc'
          have e : p.step (.server sid (.closed sub pfx msg)) = { p with sent := bump (sendLabel (.closed sub pfx msg)) p.sent } := by
            simp [Prom.step, getSubs] at hc' ⊢; simp [hc']
          refine ⟨?_, ?_, ?_⟩
          · intro s; rw [e]; by_cases h : s = sid
            · subst h; simp [getSubs, openStep]
              have := List.erase_of_not_mem hm
              simpa [getSubs] using this.symm
            · simp [getSubs, h]
          · rw [e]; simp [openStep, List.erase_of_not_mem hm]
          · rw [e]
      | eose s' => exact ⟨by intro s; by_cases h : s = sid <;> simp [Prom.step, getSubs, openStep, h], by simp [Prom.step, openStep], rfl⟩
      | event s' e => exact ⟨by intro s; by_cases h : s = sid <;> simp [Prom.step, getSubs, openStep, h], by simp [Prom.step, openStep], rfl⟩
      | notice s' => exact ⟨by intro s; by_cases h : s = sid <;> simp [Prom.step, getSubs, openStep, h], by simp [Prom.step, openStep], rfl⟩
      | ok a b c d => exact ⟨by intro s; by_cases h : s = sid <;> simp [Prom.step, getSubs, openStep, h], by simp [Prom.step, openStep], rfl⟩
      | auth c => exact ⟨by intro s; by_cases h : s = sid <;> simp [Prom.step, getSubs, openStep, h], by simp [Prom.step, openStep], rfl⟩
      | count a b c => exact ⟨by intro s; by_cases h : s = sid <;> simp [Prom.step, getSubs, openStep, h], by simp [Prom.step, openStep], rfl⟩
    obtain ⟨hg, hr, hc⟩ := hdesc
    refine ⟨⟨hnd, by rw [hc, hconn], ?_⟩, ?_, fun s hs hl' => absurd hs hl'⟩
    · rw [sum_update live hnd sid hl (fun s => ((getSubs p s).length : Int))
        (fun s => ((getSubs (p.step (.server sid m)) s).length : Int)) (by intro s hs; simp [hg, hs])]
      simp only [hg, if_true, hr, hreq]
    · intro s _ _
      rw [hg]
      by_cases h : s = sid
      · subst h; simp
      · have h' : (sid == s) = false := by simpa using (Ne.symm h)
        cases m <;> simp [h, openStep, h']

theorem wf_tail (st : PStep) (rest : List PStep) (live dead : List Nat)
    (h : WellFormedHist (st :: rest) live dead) :
    ∃ dead', WellFormedHist rest (liveStep live st) dead' ∧
      (∀ s, s ∈ dead → s ∈ dead') ∧ (∀ s, s ∈ live → s ∉ liveStep live st → s ∈ dead') := by
  cases st with
  | start s => exact ⟨dead, h.2.2, fun _ h => h, fun x hx hn => absurd (List.mem_cons_of_mem _ hx) hn⟩
  | stop s =>
    refine ⟨s :: dead, h.2, fun _ h => List.mem_cons_of_mem _ h, ?_⟩
    intro x hx hn
    by_cases hxs : x = s
    · subst hxs; simp
    · exact absurd ((List.mem_erase_of_ne hxs).2 hx) hn
  | client s m => exact ⟨dead, h.2, fun _ h => h, fun x hx hn => absurd hx hn⟩
  | server s m => exact ⟨dead, h.2, fun _ h => h, fun x hx hn => absurd hx hn⟩

/-- sessions that are not live and never were (not dead either) are not touched by later steps
    until their own Start, so their folded set stays empty -/
theorem run_inv : ∀ (steps : List PStep) (p : Prom) (live dead : List Nat) (acc : Nat → List String),
    PInv p live → (∀ s ∈ live, getSubs p s = acc s) → (∀ s, s ∉ live → s ∉ dead → acc s = []) →
    WellFormedHist steps live dead →
    PInv (p.run steps) (steps.foldl liveStep live) ∧
    ∀ s ∈ steps.foldl liveStep live, getSubs (p.run steps) s = steps.foldl (openStep s) (acc s) := by
  intro steps
  induction steps with
  | nil => intro p live dead acc hinv hacc _ _; exact ⟨hinv, hacc⟩
  | cons st rest ih =>
    intro p live dead acc hinv hacc hfresh hwf
    obtain ⟨hinv', hopen, hnew⟩ := step_inv p live dead st rest hinv hwf
    obtain ⟨dead', hwf', hdd, hld⟩ := wf_tail st rest live dead hwf
    have hrun : p.run (st :: rest) = (p.step st).run rest := rfl
    simp only [List.foldl_cons, hrun]
    apply ih (p.step st) (liveStep live st) dead' (fun s => openStep s (acc s) st) hinv'
    · intro s hs
      by_cases hl : s ∈ live
      · rw [hopen s hs hl, hacc s hl]
      · rw [hnew s hs hl]
        -- a session that just started: nothing before its Start mentioned it
        have hnd : s ∉ dead := by
          cases st with
          | start sid =>
            simp only [liveStep, List.mem_cons] at hs
            rcases hs with rfl | hs
            · exact hwf.2.1
            · exact absurd hs hl
          | stop sid => exact absurd (List.mem_of_mem_erase hs) hl
          | client sid m => exact absurd hs hl
          | server sid m => exact absurd hs hl
        rw [hfresh s hl hnd]
        cases st with
        | start sid => rfl
        | stop sid => rfl
        | client sid m => exact absurd hs hl
        | server sid m => exact absurd hs hl
    · intro s hs hd
      have hl : s ∉ live := fun hl => hd (hld s hl hs)
      have hnd : s ∉ dead := fun h => hd (hdd s h)
      rw [hfresh s hl hnd]
      -- the step does not mention `s` (its session is live)
      cases st with
      | start sid => rfl
      | stop sid => rfl
      | client sid m =>
        have : sid ≠ s := fun e => hl (e ▸ hwf.1)
        have h' : (sid == s) = false := by simpa using this
        cases m <;> simp [openStep, h']
      | server sid m =>
        have : sid ≠ s := fun e => hl (e ▸ hwf.1)
        have h' : (sid == s) = false := by simpa using this
        cases m <;> simp [openStep, h']
    · exact hwf'

/-- **C19 gauges, every history of any number of sessions** (sessions' messages between their Start and End,
    fresh session ids): the connection gauge is the number of live sessions, the subscription gauge is
    the total number of subscriptions opened by REQ and not yet ended by CLOSE, CLOSED or the end of
    their session, and the bookkeeping set of every live session is exactly that set. -/
theorem gauges_equal_reality (steps : List PStep) (hwf : WellFormedHist steps [] []) :
    let p := (Prom.run {} steps)
    p.conn = (liveSessions steps).length ∧
    p.req = ((liveSessions steps).map fun s => ((openSubsOf s steps).length : Int)).sum ∧
    ∀ s ∈ liveSessions steps, getSubs p s = openSubsOf s steps := by
  have h := run_inv steps {} [] [] (fun _ => []) ⟨List.nodup_nil, rfl, rfl⟩
    (by intro s hs; cases hs) (by intro _ _ _; rfl) hwf
  obtain ⟨⟨_, hc, hr⟩, ho⟩ := h
  refine ⟨hc, ?_, ho⟩
  rw [hr]
  apply congrArg
  apply List.map_congr_left
  intro s hs
  rw [ho s hs]; rfl

/-- **C19, a session's End subtracts exactly its still-open subscriptions** (corollary of the step
    function; stated for any state). -/
theorem end_subtracts_exactly_open (p : Prom) (sid : Nat) :
    (p.step (.stop sid)).req = p.req - (getSubs p sid).length ∧ (p.step (.stop sid)).conn = p.conn - 1 := by
  exact ⟨rfl, rfl⟩

/-! ### non-vacuity -/

def exHist : List PStep :=
  [.start 1, .client 1 (.req "a" []), .start 2, .client 2 (.req "a" []), .client 1 (.req "b" []),
   .client 1 (.req "a" []), .server 2 (.closed "a" "" ""), .client 1 (.close "b"), .client 2 (.req "c" []), .stop 2]

example : WellFormedHist exHist [] [] := by
  unfold exHist
  repeat (first | exact trivial | (refine ⟨by decide, ?_⟩) | (refine ⟨by decide, by decide, ?_⟩))

example : (Prom.run {} exHist).req = 1 ∧ (Prom.run {} exHist).conn = 1 := by decide

end Moc.C19
