import MocProps.C05Inv

/-!
  C05, the other half of "as long as it is retained": the registry never blocks on behalf of a request that is
  not retained.  `RegSound`: every registration (key, author, request id) belongs to a retained kind-5 event of that
  author and id that names that key.  It is kept by every insertion (`add_rs`), hence in every reachable state a
  refused insertion has a retained deletion request of the same author behind it (`block_has_retained_request`),
  and once no retained request names an event it is insertable again (`no_request_no_block`) — the block lifts
  exactly when the last request naming the event leaves the store (deleted or evicted).

  Together with `Inv2.rc` (completeness) the registry is EXACTLY the set of references of the retained requests
  (`registry_exact`).  The correspondence judges the implementation's own registry by the same criterion
  (monitor class `registry-orphan`).
-/

set_option linter.unusedSimpArgs false
set_option linter.unusedVariables false

namespace Moc.C05
open Moc Moc.CacheL Moc.C04

/-- every registration has its retained deletion request -/
def RegSound (c : Cache) : Prop :=
  ∀ t ∈ c.deleted, ∃ d ∈ c.evs, d.kind = 5 ∧ d.pubkey = t.2.1 ∧ d.id = t.2.2 ∧ t.1 ∈ k5Refs d

theorem delete_rs (c : Cache) (k p : String) (hk : (c.evs.map eventKey).Nodup) (h : RegSound c) :
    RegSound (c.delete k p) := by
  unfold Cache.delete
  cases hl : c.lookup k with
  | none => exact h
  | some cand =>
    simp only
    by_cases hf : Gen.deleteForeign cand.pubkey p = true
    · rw [if_pos hf]; exact h
    · rw [if_neg hf]
      intro t ht
      simp only at ht
      -- `t` was registered before
      have ht0 : t ∈ c.deleted := by
        by_cases h5 : Gen.deleteIsKind5 cand.kind = true
        · rw [if_pos h5] at ht; exact (List.mem_filter.1 ht).1
        · rw [if_neg h5] at ht; exact ht
      obtain ⟨d, hd, hd5, hdp, hdi, hdr⟩ := h t ht0
      refine ⟨d, ?_, hd5, hdp, hdi, hdr⟩
      simp only
      apply List.mem_filter.2
      refine ⟨hd, ?_⟩
      -- `d` is not the event that leaves
      have hne : eventKey d ≠ k := by
        intro hkd
        have h1 : c.lookup (eventKey d) = some d := lookup_own_key c d hd hk
        rw [hkd, hl] at h1
        have hcd : cand = d := Option.some.inj h1
        subst hcd
        have h5 : Gen.deleteIsKind5 cand.kind = true := by simp [Gen.deleteIsKind5, hd5]
        rw [if_pos h5] at ht
        have := (List.mem_filter.1 ht).2
        simp [hdr, hdp, hdi] at this
      simpa using hne

theorem addKind5_rs (c : Cache) (e : Event) (he : e ∈ c.evs) (h5 : e.kind = 5) (h : RegSound c) :
    RegSound (c.addKind5 e) := by
  intro t ht
  rcases (addKind5_deleted_mem c e t).1 ht with h0 | ⟨hr, hp, hi⟩
  · obtain ⟨d, hd, r⟩ := h t h0
    exact ⟨d, by rw [addKind5_evs]; exact hd, r⟩
  · exact ⟨e, by rw [addKind5_evs]; exact he, h5, hp.symm, hi.symm, hr⟩

theorem addEv_rs (c : Cache) (e : Event) (c1 : Cache) (hk : (c.evs.map eventKey).Nodup) (hs : RegSound c)
    (hadd : c.addEv (eventKey e) e = (c1, true)) :
    (c1.evs.map eventKey).Nodup ∧ RegSound c1 ∧ e ∈ c1.evs := by
  unfold Cache.addEv at hadd
  have key : ∀ cb : Cache, (cb.evs.map eventKey).Nodup → RegSound cb → (∀ x ∈ cb.evs, eventKey x ≠ eventKey e) →
      c1 = { cb with evs := e :: cb.evs } →
      (c1.evs.map eventKey).Nodup ∧ RegSound c1 ∧ e ∈ c1.evs := by
    intro cb hkb hsb hfresh hc1
    subst hc1
    refine ⟨?_, ?_, List.mem_cons_self⟩
    · simp only [List.map_cons, List.nodup_cons]
      refine ⟨?_, hkb⟩
      intro hm
      obtain ⟨x, hx, hxk⟩ := List.mem_map.1 hm
      exact hfresh x hx hxk
    · intro t ht
      obtain ⟨d, hd, r⟩ := hsb t ht
      exact ⟨d, List.mem_cons_of_mem _ hd, r⟩
  cases hl : c.lookup (eventKey e) with
  | none =>
    simp only [hl] at hadd
    cases hadd
    exact key c hk hs (lookup_none c _ hl) rfl
  | some old =>
    simp only [hl] at hadd
    split at hadd
    · cases hadd
    · cases hadd
      have hown := delete_own c (eventKey e) old hl
      refine key (c.delete (eventKey e) old.pubkey) (keys_nodup_delete c _ _ hk) (delete_rs c _ _ hk hs) ?_ rfl
      intro x hx
      rw [hown] at hx
      have := (List.mem_filter.1 hx).2
      simpa using this

/-- **the invariant is kept by every insertion** -/
theorem add_rs (c : Cache) (e : Event) (hk : (c.evs.map eventKey).Nodup) (hs : RegSound c) :
    ((c.add e).1.evs.map eventKey).Nodup ∧ RegSound (c.add e).1 := by
  unfold Cache.add
  by_cases heph : (eventType e.kind == EventType.ephemeral) = true
  · simpa [heph] using ⟨hk, hs⟩
  · simp only [heph, Bool.false_eq_true, if_false]
    by_cases hb : Gen.addBlocked (c.isDeleted (eventKey e) e.pubkey) (c.isDeleted e.id e.pubkey) = true
    · simpa [hb] using ⟨hk, hs⟩
    · simp only [hb, Bool.false_eq_true, if_false]
      cases hadd : c.addEv (eventKey e) e with
      | mk c1 b =>
        cases b with
        | false => simpa using ⟨hk, hs⟩
        | true =>
          obtain ⟨hk1, hs1, he1⟩ := addEv_rs c e c1 hk hs hadd
          simp only []
          have hB : ((if Gen.addIsKind5 e.kind = true then (c1.addKind5 e).deleteByKind5 e else c1).evs.map eventKey).Nodup ∧
              RegSound (if Gen.addIsKind5 e.kind = true then (c1.addKind5 e).deleteByKind5 e else c1) := by
            by_cases h5 : Gen.addIsKind5 e.kind = true
            · simp only [h5, if_true]
              have hk5 : e.kind = 5 := by simpa [Gen.addIsKind5] using h5
              exact deleteByKind5_props (fun c' => (c'.evs.map eventKey).Nodup ∧ RegSound c') (c1.addKind5 e) e
                (fun c' k hc' => ⟨keys_nodup_delete c' k _ hc'.1, delete_rs c' k _ hc'.1 hc'.2⟩)
                ⟨hk1, addKind5_rs c1 e he1 hk5 hs1⟩
            · simp only [h5, Bool.false_eq_true, if_false]
              exact ⟨hk1, hs1⟩
          generalize (if Gen.addIsKind5 e.kind = true then (c1.addKind5 e).deleteByKind5 e else c1) = c2 at hB ⊢
          split
          · split
            · exact ⟨keys_nodup_delete _ _ _ hB.1, delete_rs _ _ _ hB.1 hB.2⟩
            · exact hB
          · exact hB

theorem run_rs (cap : Int) (es : List Event) :
    ((run { cap := cap } es).evs.map eventKey).Nodup ∧ RegSound (run { cap := cap } es) := by
  have : ∀ (c : Cache), (c.evs.map eventKey).Nodup → RegSound c →
      ((run c es).evs.map eventKey).Nodup ∧ RegSound (run c es) := by
    induction es with
    | nil => intro c hk hs; exact ⟨hk, hs⟩
    | cons e es ih =>
      intro c hk hs
      obtain ⟨h1, h2⟩ := add_rs c e hk hs
      exact ih _ h1 h2
  exact this _ List.nodup_nil (fun t ht => by cases ht)

/-- **C05, a block always has its retained request — for every history.**  In every state reachable by
    insertions, an event that the registry blocks is named (by the key it would be stored under, or by its id) by a
    deletion request of its own author that is retained at that moment. -/
theorem block_has_retained_request (cap : Int) (es : List Event) (x : Event)
    (hb : Blocked (run { cap := cap } es) x = true) :
    ∃ d ∈ (run { cap := cap } es).evs, d.kind = 5 ∧ d.pubkey = x.pubkey ∧
      (eventKey x ∈ k5Refs d ∨ x.id ∈ k5Refs d) := by
  obtain ⟨t, ht, href, hp⟩ := (blocked_iff _ x).1 hb
  obtain ⟨d, hd, hd5, hdp, _, hdr⟩ := (run_rs cap es).2 t ht
  refine ⟨d, hd, hd5, by rw [hdp, hp], ?_⟩
  rcases href with h | h
  · exact Or.inl (h ▸ hdr)
  · exact Or.inr (h ▸ hdr)

/-- hence the block lifts when the last request naming the event has left the store: with no retained request of
    its author naming it, the event is not blocked -/
theorem no_request_no_block (cap : Int) (es : List Event) (x : Event)
    (h : ∀ d ∈ (run { cap := cap } es).evs, d.kind = 5 → d.pubkey = x.pubkey →
      eventKey x ∉ k5Refs d ∧ x.id ∉ k5Refs d) :
    Blocked (run { cap := cap } es) x = false := by
  cases hb : Blocked (run { cap := cap } es) x with
  | false => rfl
  | true =>
    obtain ⟨d, hd, hd5, hdp, hr⟩ := block_has_retained_request cap es x hb
    have := h d hd hd5 hdp
    rcases hr with hr | hr
    · exact absurd hr this.1
    · exact absurd hr this.2

/-- the registry is exactly the set of references of the retained deletion requests -/
theorem registry_exact (cap : Int) (es : List Event) (t : String × String × String) :
    t ∈ (run { cap := cap } es).deleted ↔
      ∃ d ∈ (run { cap := cap } es).evs, d.kind = 5 ∧ d.pubkey = t.2.1 ∧ d.id = t.2.2 ∧ t.1 ∈ k5Refs d := by
  constructor
  · exact (run_rs cap es).2 t
  · rintro ⟨d, hd, hd5, hdp, hdi, hdr⟩
    have := (run_inv2 { cap := cap } es (inv2_empty cap)).rc d hd hd5 t.1 hdr
    rw [hdp, hdi] at this
    exact this

/-! non-vacuity: a request that names itself and a note leaves the store at once and leaves nothing registered, so
    the note can come back (the history of seed C05-F) -/
def note : Event := { id := "aa", pubkey := "p1", createdAt := 1, kind := 1, tags := [], content := "", sig := "" }
def selfDel : Event := { id := "dd", pubkey := "p1", createdAt := 2, kind := 5, tags := [["e", "dd"], ["e", "aa"]], content := "", sig := "" }
example : (run { cap := 10 } [note, selfDel]).evs = [] ∧ (run { cap := 10 } [note, selfDel]).deleted = [] := by decide
example : ((run { cap := 10 } [note, selfDel]).add note).2 = true := by decide

end Moc.C05
