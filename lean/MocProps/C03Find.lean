/-
  C03, the full theorem: each query equals the filter spec over the retained set (`find_eq_spec`), for every
  store content, every list of well-formed filters and every iteration order of Go's maps
  (`find_perm_irrelevant`).  Ingredients: the tree order is a strict total order on (created_at, id); `insertOrd`
  keeps a list sorted and adds exactly the new event; two sorted lists with the same members are equal; the top-k
  loop of the index path ends with the first `limit` of what passes since/until, whatever the arrival order
  (`topkLoop_eq`, via `take_insertOrd_take`); the scan path is `scanLoop_eq` of C03.lean.
-/
import MocModel.Cache
import MocProps.C02
import MocProps.C03
import MocProps.C04
set_option linter.unusedSimpArgs false
set_option linter.unusedVariables false
namespace Moc.C03
open Moc

/-! ### the tree order -/

theorem before_iff (a b : Event) :
    before a b = true ↔ b.createdAt < a.createdAt ∨ (b.createdAt = a.createdAt ∧ b.id < a.id) := by
  simp [before, Gen.treeLess]

theorem before_irrefl (a : Event) : before a a = false := by
  cases h : before a a with
  | false => rfl
  | true =>
    rcases (before_iff a a).1 h with h1 | ⟨_, h2⟩
    · omega
    · exact absurd h2 (String.lt_irrefl _)

theorem before_trans {a b c : Event} (h1 : before a b = true) (h2 : before b c = true) : before a c = true := by
  rw [before_iff] at *
  rcases h1 with h1 | ⟨e1, l1⟩ <;> rcases h2 with h2 | ⟨e2, l2⟩
  · left; omega
  · left; omega
  · left; omega
  · right; exact ⟨by omega, String.lt_trans l2 l1⟩

theorem before_asymm {a b : Event} (h : before a b = true) : before b a = false := by
  cases hb : before b a with
  | false => rfl
  | true => have := before_trans h hb; rw [before_irrefl] at this; cases this

/-- the order only looks at (created_at, id) -/
theorem before_congr_left {a a' : Event} (b : Event) (hc : a.createdAt = a'.createdAt) (hi : a.id = a'.id) :
    before a b = before a' b := by simp [before, hc, hi]

theorem before_total {a b : Event} (h1 : before a b = false) (h2 : before b a = false) :
    a.createdAt = b.createdAt ∧ a.id = b.id := by
  have n1 : ¬ (b.createdAt < a.createdAt ∨ (b.createdAt = a.createdAt ∧ b.id < a.id)) := by
    intro h; have := (before_iff a b).2 h; rw [h1] at this; cases this
  have n2 : ¬ (a.createdAt < b.createdAt ∨ (a.createdAt = b.createdAt ∧ a.id < b.id)) := by
    intro h; have := (before_iff b a).2 h; rw [h2] at this; cases this
  have hc : a.createdAt = b.createdAt := by
    by_cases h : b.createdAt < a.createdAt
    · exact absurd (Or.inl h) n1
    · by_cases h' : a.createdAt < b.createdAt
      · exact absurd (Or.inl h') n2
      · omega
  refine ⟨hc, ?_⟩
  have l1 : ¬ b.id < a.id := fun h => n1 (Or.inr ⟨hc.symm, h⟩)
  have l2 : ¬ a.id < b.id := fun h => n2 (Or.inr ⟨hc, h⟩)
  exact String.le_antisymm (String.not_lt.1 l1) (String.not_lt.1 l2)

/-- ids determine events (what authenticity provides): over such a universe the tree order is total -/
def IdInj (U : List Event) : Prop := ∀ a ∈ U, ∀ b ∈ U, a.id = b.id → a = b

def Sorted (l : List Event) : Prop := l.Pairwise (fun a b => before a b = true)

theorem mem_insertOrd (e : Event) (l : List Event) (y : Event) (h : y ∈ insertOrd e l) : y = e ∨ y ∈ l := by
  induction l with
  | nil => simp [insertOrd] at h; exact Or.inl h
  | cons x xs ih =>
    simp only [insertOrd] at h
    split at h
    · rcases List.mem_cons.1 h with h | h
      · exact Or.inl h
      · exact Or.inr h
    · split at h
      · rcases List.mem_cons.1 h with h | h
        · exact Or.inr (by simp [h])
        · rcases ih h with h | h
          · exact Or.inl h
          · exact Or.inr (List.mem_cons_of_mem _ h)
      · rcases List.mem_cons.1 h with h | h
        · exact Or.inl h
        · exact Or.inr (List.mem_cons_of_mem _ h)

theorem insertOrd_sorted (e : Event) (l : List Event) (h : Sorted l) : Sorted (insertOrd e l) := by
  induction l with
  | nil => simp [insertOrd, Sorted]
  | cons x xs ih =>
    obtain ⟨hx, hxs⟩ := List.pairwise_cons.1 h
    simp only [insertOrd]
    by_cases h1 : before e x = true
    · simp only [h1, if_true]
      refine List.pairwise_cons.2 ⟨?_, h⟩
      intro y hy
      rcases List.mem_cons.1 hy with rfl | hy
      · exact h1
      · exact before_trans h1 (hx y hy)
    · by_cases h2 : before x e = true
      · simp only [h1, h2, Bool.false_eq_true, if_false, if_true]
        refine List.pairwise_cons.2 ⟨?_, ih hxs⟩
        intro y hy
        rcases mem_insertOrd e xs y hy with rfl | hy
        · exact h2
        · exact hx y hy
      · simp only [h1, h2, Bool.false_eq_true, if_false]
        have hk := before_total (by simpa using h1) (by simpa using h2)
        refine List.pairwise_cons.2 ⟨?_, hxs⟩
        intro y hy
        rw [before_congr_left y hk.1 hk.2]
        exact hx y hy

/-- inserting a new event (no event with its id in the list): it is there, and so is everything else -/
theorem insertOrd_mem_iff (U : List Event) (hU : IdInj U) (e : Event) (l : List Event) (he : e ∈ U)
    (hl : ∀ x ∈ l, x ∈ U) (y : Event) : y ∈ insertOrd e l ↔ y = e ∨ y ∈ l := by
  constructor
  · exact mem_insertOrd e l y
  · induction l with
    | nil => intro h; simp [insertOrd] at h ⊢; exact h
    | cons x xs ih =>
      intro h
      simp only [insertOrd]
      by_cases h1 : before e x = true
      · simp only [h1, if_true]
        rcases h with rfl | h
        · simp
        · exact List.mem_cons_of_mem _ h
      · by_cases h2 : before x e = true
        · simp only [h1, h2, Bool.false_eq_true, if_false, if_true]
          rcases h with rfl | h
          · exact List.mem_cons_of_mem _ (ih (fun z hz => hl z (List.mem_cons_of_mem _ hz)) (Or.inl rfl))
          · rcases List.mem_cons.1 h with rfl | h
            · simp
            · exact List.mem_cons_of_mem _ (ih (fun z hz => hl z (List.mem_cons_of_mem _ hz)) (Or.inr h))
        · simp only [h1, h2, Bool.false_eq_true, if_false]
          have hk := before_total (by simpa using h1) (by simpa using h2)
          have hxe : e = x := hU e he x (hl x (by simp)) hk.2
          rcases h with rfl | h
          · simp
          · rcases List.mem_cons.1 h with rfl | h
            · simp [hxe]
            · exact List.mem_cons_of_mem _ h

/-- two sorted lists with the same members are equal -/
theorem sorted_ext (l1 l2 : List Event) (h1 : Sorted l1) (h2 : Sorted l2) (hm : ∀ x, x ∈ l1 ↔ x ∈ l2) : l1 = l2 := by
  induction l1 generalizing l2 with
  | nil =>
    cases l2 with
    | nil => rfl
    | cons y ys => exact absurd ((hm y).2 (by simp)) (by simp)
  | cons x xs ih =>
    cases l2 with
    | nil => exact absurd ((hm x).1 (by simp)) (by simp)
    | cons y ys =>
      obtain ⟨hx, hxs⟩ := List.pairwise_cons.1 h1
      obtain ⟨hy, hys⟩ := List.pairwise_cons.1 h2
      have hxy : x = y := by
        rcases List.mem_cons.1 ((hm x).1 (by simp)) with h | h
        · exact h
        · rcases List.mem_cons.1 ((hm y).2 (by simp)) with h' | h'
          · exact h'.symm
          · have a := hy x h
            have b := hx y h'
            rw [before_asymm a] at b; cases b
      subst hxy
      have hnx : x ∉ xs := fun h => by have := hx x h; rw [before_irrefl] at this; cases this
      have hny : x ∉ ys := fun h => by have := hy x h; rw [before_irrefl] at this; cases this
      congr 1
      apply ih ys hxs hys
      intro z
      constructor
      · intro hz
        rcases List.mem_cons.1 ((hm z).1 (List.mem_cons_of_mem _ hz)) with h | h
        · subst h; exact absurd hz hnx
        · exact h
      · intro hz
        rcases List.mem_cons.1 ((hm z).2 (List.mem_cons_of_mem _ hz)) with h | h
        · subst h; exact absurd hz hny
        · exact h

theorem foldl_insert_sorted (es tree : List Event) (h : Sorted tree) :
    Sorted (es.foldl (fun t e => insertOrd e t) tree) := by
  induction es generalizing tree with
  | nil => exact h
  | cons e es ih => exact ih _ (insertOrd_sorted e tree h)

theorem foldl_insert_mem (U : List Event) (hU : IdInj U) (es tree : List Event) (hes : ∀ x ∈ es, x ∈ U)
    (ht : ∀ x ∈ tree, x ∈ U) (y : Event) :
    y ∈ es.foldl (fun t e => insertOrd e t) tree ↔ y ∈ es ∨ y ∈ tree := by
  induction es generalizing tree with
  | nil => simp
  | cons e es ih =>
    simp only [List.foldl_cons]
    have ht' : ∀ x ∈ insertOrd e tree, x ∈ U := by
      intro x hx
      rcases mem_insertOrd e tree x hx with rfl | hx
      · exact hes _ (by simp)
      · exact ht x hx
    rw [ih _ (fun x hx => hes x (List.mem_cons_of_mem _ hx)) ht']
    rw [insertOrd_mem_iff U hU e tree (hes e (by simp)) ht]
    simp only [List.mem_cons]
    constructor
    · rintro (h | h | h)
      · exact Or.inl (Or.inr h)
      · exact Or.inl (Or.inl h)
      · exact Or.inr h
    · rintro ((h | h) | h)
      · exact Or.inr (Or.inl h)
      · exact Or.inl h
      · exact Or.inr (Or.inr h)

theorem sortOrd_sorted (es : List Event) : Sorted (sortOrd es) := foldl_insert_sorted es [] (by simp [Sorted])

theorem sortOrd_mem (U : List Event) (hU : IdInj U) (es : List Event) (hes : ∀ x ∈ es, x ∈ U) (y : Event) :
    y ∈ sortOrd es ↔ y ∈ es := by
  simp [sortOrd, foldl_insert_mem U hU es [] hes (by simp)]

/-! ### the top-k loop -/

abbrev insAll (ms acc : List Event) : List Event := ms.foldl (fun t e => insertOrd e t) acc

/-- the first `k` elements after an insertion depend only on the first `k` elements before it -/
theorem take_insertOrd_take (e : Event) (k : Nat) (l : List Event) :
    (insertOrd e (l.take k)).take k = (insertOrd e l).take k := by
  induction l generalizing k with
  | nil => simp
  | cons x xs ih =>
    cases k with
    | zero => simp
    | succ k =>
      simp only [List.take_succ_cons, insertOrd]
      by_cases h1 : before e x = true
      · simp only [h1, if_true, List.take_succ_cons]
        congr 1
        cases k with
        | zero => simp
        | succ k => simp [List.take_succ_cons, List.take_take]
      · by_cases h2 : before x e = true
        · simp only [h1, h2, Bool.false_eq_true, if_false, if_true, List.take_succ_cons, ih k]
        · simp only [h1, h2, Bool.false_eq_true, if_false, List.take_succ_cons, List.take_take, Nat.min_self]

theorem take_insAll_congr (ms : List Event) (k : Nat) (a b : List Event) (h : a.take k = b.take k) :
    (insAll ms a).take k = (insAll ms b).take k := by
  induction ms generalizing a b with
  | nil => exact h
  | cons m ms ih =>
    simp only [insAll, List.foldl_cons]
    apply ih
    rw [← take_insertOrd_take m k a, ← take_insertOrd_take m k b, h]

theorem length_insertOrd_new (U : List Event) (hU : IdInj U) (e : Event) (l : List Event) (he : e ∈ U)
    (hl : ∀ x ∈ l, x ∈ U) (hnew : e ∉ l) : (insertOrd e l).length = l.length + 1 := by
  induction l with
  | nil => simp [insertOrd]
  | cons x xs ih =>
    simp only [insertOrd]
    by_cases h1 : before e x = true
    · simp [h1]
    · by_cases h2 : before x e = true
      · simp only [h1, h2, Bool.false_eq_true, if_false, if_true, List.length_cons]
        rw [ih (fun z hz => hl z (List.mem_cons_of_mem _ hz)) (fun h => hnew (List.mem_cons_of_mem _ h))]
      · exfalso
        have hk := before_total (by simpa using h1) (by simpa using h2)
        exact hnew (by rw [hU e he x (hl x (by simp)) hk.2]; simp)

/-- the since/until test of the top-k loop -/
def suOk (f : Filter) (e : Event) : Bool := sinceOkB f.since e.createdAt && untilOkB f.until_ e.createdAt

theorem matchOne_su (f : Filter) (e : Event) (hne : C02.TagsNonEmpty e) :
    matchOne { since := f.since, until_ := f.until_ } e = .ok (suOk f e) := by
  rw [C02.matchOne_eq_spec _ e (by intro l h; cases h) hne]
  simp [nip01MatchB, suOk, listedOr, tagsOkB]

/-- **C03, the index path's top-k loop**: whatever order the candidates arrive in, the loop ends with the first
    `limit` (in tree order) of: what it held, plus the candidates that pass since/until. -/
theorem topkLoop_eq (U : List Event) (hU : IdInj U) (f : Filter) (limit : Int) (cs : List Event) :
    ∀ (acc : List Event) (cnt : Int), (∀ x ∈ cs, x ∈ U) → (∀ x ∈ cs, C02.TagsNonEmpty x) → cs.Nodup →
      (∀ x ∈ acc, x ∈ U) → (∀ x ∈ cs, x ∉ acc) → cnt = acc.length → acc.length ≤ limit.toNat →
      topkLoop f limit cs acc cnt = .ok ((insAll (cs.filter (suOk f)) acc).take limit.toNat) := by
  induction cs with
  | nil =>
    intro acc cnt _ _ _ _ _ _ hle
    simp [topkLoop, List.take_of_length_le hle]
  | cons e es ih =>
    intro acc cnt hU' hne hnd hacc hnew hcnt hle
    obtain ⟨hnd1, hnd2⟩ := List.nodup_cons.1 hnd
    have hes : ∀ x ∈ es, x ∈ U := fun x hx => hU' x (List.mem_cons_of_mem _ hx)
    have hnes : ∀ x ∈ es, C02.TagsNonEmpty x := fun x hx => hne x (List.mem_cons_of_mem _ hx)
    simp only [topkLoop, matchOne_su f e (hne e (by simp))]
    by_cases hm : suOk f e = true
    · simp only [hm, List.filter_cons, if_true, insAll, List.foldl_cons]
      have hlen := length_insertOrd_new U hU e acc (hU' e (by simp)) hacc (hnew e (by simp))
      have hacc' : ∀ x ∈ insertOrd e acc, x ∈ U := by
        intro x hx
        rcases mem_insertOrd e acc x hx with rfl | hx
        · exact hU' _ (by simp)
        · exact hacc x hx
      have hnew' : ∀ x ∈ es, x ∉ insertOrd e acc := by
        intro x hx hmem
        rcases mem_insertOrd e acc x hmem with rfl | hmem
        · exact hnd1 hx
        · exact hnew x (List.mem_cons_of_mem _ hx) hmem
      by_cases hov : Gen.topkOverLimit (cnt + 1) limit = true
      · -- over the limit: the last (oldest) element is dropped
        simp only [hov, if_true]
        have hov' : cnt + 1 > limit := by simpa [Gen.topkOverLimit] using hov
        have hk : (insertOrd e acc).length = limit.toNat + 1 := by omega
        have hdl : (insertOrd e acc).dropLast = (insertOrd e acc).take limit.toNat := by
          rw [List.dropLast_eq_take, hk]; simp
        rw [hdl]
        have hnew'' : ∀ x ∈ es, x ∉ (insertOrd e acc).take limit.toNat :=
          fun x hx hmem => hnew' x hx (List.mem_of_mem_take hmem)
        rw [ih _ cnt hes hnes hnd2 (fun x hx => hacc' x (List.mem_of_mem_take hx)) hnew''
          (by rw [List.length_take, hk]; omega) (by rw [List.length_take]; omega)]
        congr 1
        exact take_insAll_congr _ _ _ _ (by rw [List.take_take, Nat.min_self])
      · simp only [hov, Bool.false_eq_true, if_false]
        have hov' : ¬ cnt + 1 > limit := by simpa [Gen.topkOverLimit] using hov
        exact ih _ (cnt + 1) hes hnes hnd2 hacc' hnew' (by rw [hlen, hcnt]; push_cast; rfl) (by omega)
    · simp only [hm, Bool.false_eq_true, List.filter_cons, if_false]
      exact ih acc cnt hes hnes hnd2 hacc (fun x hx => hnew x (List.mem_cons_of_mem _ hx)) hcnt hle

/-! ### putting `find` together -/

/-- what one filter contributes: the `limit` first (newest; larger id first among equals) retained matches -/
def topOf (c : Cache) (f : Filter) : List Event :=
  takeOpt (f.limit.map Int.toNat) (sortOrd (c.evs.filter (nip01MatchB f ·)))

theorem sorted_filter (l : List Event) (p : Event → Bool) (h : Sorted l) : Sorted (l.filter p) :=
  List.Pairwise.sublist (List.filter_sublist) h

theorem length_insertOrd_le (e : Event) (l : List Event) : (insertOrd e l).length ≤ l.length + 1 := by
  induction l with
  | nil => simp [insertOrd]
  | cons x xs ih =>
    simp only [insertOrd]
    split
    · simp
    · split
      · simp; omega
      · simp

theorem length_insAll_le (ms acc : List Event) : (insAll ms acc).length ≤ acc.length + ms.length := by
  induction ms generalizing acc with
  | nil => simp
  | cons m ms ih =>
    simp only [insAll, List.foldl_cons, List.length_cons]
    have := ih (insertOrd m acc)
    have := length_insertOrd_le m acc
    simp only [insAll] at *
    omega

/-- the hypotheses under which the store is queried -/
structure StoreOK (c : Cache) : Prop where
  inj : IdInj c.evs
  nodup : c.evs.Nodup
  tags : ∀ e ∈ c.evs, C02.TagsNonEmpty e

structure FilterOK (f : Filter) : Prop where
  wf : f.WF
  names : ∀ l, f.tags = some l → ∀ c ∈ l, c.1.utf8ByteSize = 1

/-- **C03, the scan path** -/
theorem scan_eq_topOf (c : Cache) (hc : StoreOK c) (f : Filter) (hf : FilterOK f) :
    scanLoop { f := f } c.byTime = .ok (topOf c f) := by
  have hmem : ∀ e, e ∈ c.byTime ↔ e ∈ c.evs := sortOrd_mem c.evs hc.inj c.evs (fun _ h => h)
  rw [scanLoop_eq f hf.wf c.byTime (fun e he => hc.tags e ((hmem e).1 he)) 0]
  have hrem : remaining f 0 = f.limit.map Int.toNat := by
    cases hl : f.limit <;> simp [remaining, hl]
  rw [hrem, topOf]
  congr 2
  apply sorted_ext
  · exact sorted_filter _ _ (sortOrd_sorted c.evs)
  · exact sortOrd_sorted _
  · intro x
    rw [sortOrd_mem c.evs hc.inj _ (fun y hy => (List.mem_filter.1 hy).1)]
    simp only [List.mem_filter, Cache.byTime, hmem x]
    constructor
    · rintro ⟨h1, h2⟩; exact ⟨(hmem x).1 h1, h2⟩
    · rintro ⟨h1, h2⟩; exact ⟨(hmem x).2 h1, h2⟩

/-- the top-k loop over ANY duplicate-free list of exactly the index candidates yields the filter's contribution -/
theorem topk_eq_topOf (c : Cache) (hc : StoreOK c) (f : Filter) (hf : FilterOK f) (cs : List Event)
    (hnd : cs.Nodup) (hmem : ∀ x, x ∈ cs ↔ x ∈ c.evs ∧ idxCandidate f x = true) :
    topkLoop f (match f.limit with
      | some l => min (cs.length : Int) l
      | none => cs.length) cs [] 0 = .ok (topOf c f) := by
  have hcs : ∀ x ∈ cs, x ∈ c.evs := fun x hx => ((hmem x).1 hx).1
  rw [topkLoop_eq c.evs hc.inj f _ _ [] 0 hcs (fun x hx => hc.tags x (hcs x hx)) hnd (by simp) (by simp) (by simp) (by simp)]
  congr 1
  -- the sorted list of everything that passes
  have hS : insAll (cs.filter (suOk f)) [] = sortOrd (c.evs.filter (nip01MatchB f ·)) := by
    apply sorted_ext
    · exact sortOrd_sorted _
    · exact sortOrd_sorted _
    · intro x
      have h1 := sortOrd_mem c.evs hc.inj (cs.filter (suOk f)) (fun y hy => hcs y (List.mem_filter.1 hy).1) x
      have h2 := sortOrd_mem c.evs hc.inj (c.evs.filter (nip01MatchB f ·)) (fun y hy => (List.mem_filter.1 hy).1) x
      simp only [sortOrd] at h1 h2
      simp only [insAll, sortOrd]
      rw [h1, h2]
      simp only [List.mem_filter, hmem, idxCandidate_eq f x hf.names, nip01MatchB, suOk, Bool.and_eq_true]
      constructor
      · rintro ⟨⟨h, ⟨⟨⟨a, b⟩, c'⟩, d⟩⟩, e1, e2⟩; exact ⟨h, ⟨⟨⟨⟨⟨a, b⟩, c'⟩, d⟩, e1⟩, e2⟩⟩
      · rintro ⟨h, ⟨⟨⟨⟨⟨a, b⟩, c'⟩, d⟩, e1⟩, e2⟩⟩; exact ⟨⟨h, ⟨⟨⟨a, b⟩, c'⟩, d⟩⟩, e1, e2⟩
  rw [hS, topOf]
  have hlen : (sortOrd (c.evs.filter (nip01MatchB f ·))).length ≤ cs.length := by
    rw [← hS]
    have := length_insAll_le (cs.filter (suOk f)) []
    have h2 : (cs.filter (suOk f)).length ≤ cs.length := List.length_filter_le _ _
    simp only [List.length_nil] at this
    omega
  cases hl : f.limit with
  | none =>
    simp only [Option.map_none, takeOpt]
    exact List.take_of_length_le (by simpa using hlen)
  | some l =>
    simp only [Option.map_some, takeOpt]
    by_cases hle : (cs.length : Int) ≤ l
    · rw [Int.min_eq_left hle]
      rw [List.take_of_length_le (by simpa using hlen), List.take_of_length_le (by omega)]
    · rw [Int.min_eq_right (by omega)]

/-- **C03, the index path**: independent of the order in which Go's map hands out the candidates -/
theorem idx_eq_topOf (c : Cache) (hc : StoreOK c) (f : Filter) (hf : FilterOK f)
    (perm : List Event → List Event) (hperm : ∀ l, (perm l).Perm l) :
    c.findIdx perm f = .ok (topOf c f) := by
  unfold Cache.findIdx
  simp only []
  have hp := hperm (c.evs.filter (idxCandidate f))
  rw [← hp.length_eq]
  exact topk_eq_topOf c hc f hf _ (hp.nodup_iff.2 (hc.nodup.filter _))
    (fun x => by rw [hp.mem_iff, List.mem_filter])

theorem takeOpt_mem {α} (o : Option Nat) (l : List α) (x : α) (h : x ∈ takeOpt o l) : x ∈ l := by
  cases o with
  | none => exact h
  | some n => exact List.mem_of_mem_take h

theorem topOf_subset (c : Cache) (hc : StoreOK c) (f : Filter) (x : Event) (h : x ∈ topOf c f) : x ∈ c.evs := by
  have := takeOpt_mem _ _ x h
  rw [sortOrd_mem c.evs hc.inj _ (fun y hy => (List.mem_filter.1 hy).1)] at this
  exact (List.mem_filter.1 this).1

theorem find_fold (c : Cache) (hc : StoreOK c) (perm : List Event → List Event) (hperm : ∀ l, (perm l).Perm l)
    (fs : List Filter) (hfs : ∀ f ∈ fs, FilterOK f) :
    ∀ (tree : List Event) (done : List Filter), Sorted tree → (∀ x ∈ tree, x ∈ c.evs) →
      (∀ e, e ∈ tree ↔ ∃ f ∈ done, e ∈ topOf c f) →
      ∃ R, fs.foldl (c.findStep perm) (.ok tree) = .ok R ∧
        Sorted R ∧ ∀ e, e ∈ R ↔ ∃ f ∈ done ++ fs, e ∈ topOf c f := by
  induction fs with
  | nil => intro tree done hs _ hm; exact ⟨tree, rfl, hs, by simpa using hm⟩
  | cons f fs ih =>
    intro tree done hs hsub hm
    have hf := hfs f (by simp)
    have hr : (if isFullScanFilter f then scanLoop { f := f } c.byTime else c.findIdx perm f) = .ok (topOf c f) := by
      split
      · exact scan_eq_topOf c hc f hf
      · exact idx_eq_topOf c hc f hf perm hperm
    simp only [List.foldl_cons, Cache.findStep, hr]
    have hsub' : ∀ x ∈ (topOf c f).foldl (fun t e => insertOrd e t) tree, x ∈ c.evs := by
      intro x hx
      rcases (foldl_insert_mem c.evs hc.inj (topOf c f) tree (topOf_subset c hc f) hsub x).1 hx with h | h
      · exact topOf_subset c hc f x h
      · exact hsub x h
    obtain ⟨R, h1, h2, h3⟩ := ih (fun g hg => hfs g (List.mem_cons_of_mem _ hg)) _ (done ++ [f])
      (foldl_insert_sorted _ _ hs) hsub' (by
        intro e
        rw [foldl_insert_mem c.evs hc.inj (topOf c f) tree (topOf_subset c hc f) hsub e, hm e]
        simp only [List.mem_append, List.mem_singleton]
        constructor
        · rintro (h | ⟨g, hg, he⟩)
          · exact ⟨f, Or.inr rfl, h⟩
          · exact ⟨g, Or.inl hg, he⟩
        · rintro ⟨g, hg | rfl, he⟩
          · exact Or.inr ⟨g, hg, he⟩
          · exact Or.inl he)
    exact ⟨R, h1, h2, by simpa [List.append_assoc] using h3⟩

/-- **C03, each query equals the filter spec over the retained set.**  For every store content with injective
    ids and non-empty tags, every list of well-formed filters, and EVERY iteration order of Go's maps: `Find`
    returns, without panic, the list sorted newest first (larger id first among equal timestamps, hence without
    duplicates) whose members are exactly, for each filter, the `limit` first retained events matching it in the
    sense of NIP-01. -/
theorem find_eq_spec (c : Cache) (hc : StoreOK c) (perm : List Event → List Event) (hperm : ∀ l, (perm l).Perm l)
    (fs : List Filter) (hfs : ∀ f ∈ fs, FilterOK f) :
    ∃ R, c.find perm fs = .ok R ∧ Sorted R ∧ ∀ e, e ∈ R ↔ ∃ f ∈ fs, e ∈ topOf c f := by
  unfold Cache.find
  by_cases he : Gen.findEmpty c.evs.length = true
  · have hnil : c.evs = [] := by
      simp only [Gen.findEmpty, beq_iff_eq] at he
      exact List.length_eq_zero_iff.1 (by omega)
    refine ⟨[], by simp [he], by simp [Sorted], ?_⟩
    intro e
    simp only [List.not_mem_nil, false_iff]
    rintro ⟨f, _, h⟩
    have := takeOpt_mem _ _ e h
    simp [hnil, sortOrd] at this
  · simp only [he, Bool.false_eq_true, if_false]
    obtain ⟨R, h1, h2, h3⟩ := find_fold c hc perm hperm fs hfs [] [] (by simp [Sorted]) (by simp) (by simp)
    exact ⟨R, h1, h2, by simpa using h3⟩

/-- the answer does not depend on the iteration order of the maps -/
theorem find_perm_irrelevant (c : Cache) (hc : StoreOK c) (p1 p2 : List Event → List Event)
    (h1 : ∀ l, (p1 l).Perm l) (h2 : ∀ l, (p2 l).Perm l) (fs : List Filter) (hfs : ∀ f ∈ fs, FilterOK f) :
    c.find p1 fs = c.find p2 fs := by
  obtain ⟨R1, e1, s1, m1⟩ := find_eq_spec c hc p1 h1 fs hfs
  obtain ⟨R2, e2, s2, m2⟩ := find_eq_spec c hc p2 h2 fs hfs
  rw [e1, e2, sorted_ext R1 R2 s1 s2 (fun x => by rw [m1, m2])]

/-- sorted in tree order means non-increasing `created_at` and pairwise distinct -/
theorem sorted_desc (l : List Event) (h : Sorted l) :
    l.Pairwise (fun a b => a.createdAt ≥ b.createdAt) ∧ l.Nodup := by
  constructor
  · exact h.imp (fun hab => by rcases (before_iff _ _).1 hab with h | ⟨h, _⟩ <;> omega)
  · exact h.imp (fun hab heq => by subst heq; rw [before_irrefl] at hab; cases hab)

theorem nodup_of_map_nodup {α β} (f : α → β) (l : List α) (h : (l.map f).Nodup) : l.Nodup := by
  induction l with
  | nil => exact List.nodup_nil
  | cons x xs ih =>
    simp only [List.map_cons, List.nodup_cons] at h ⊢
    exact ⟨fun hx => h.1 (List.mem_map.2 ⟨x, hx, rfl⟩), ih h.2⟩

/-- the hypotheses hold in every state reachable by insertions of id-injective events with non-empty tags -/
theorem storeOK_reachable (cap : Int) (hcap : 0 ≤ cap) (es : List Event) (hinj : IdInj es)
    (hne : ∀ e ∈ es, C02.TagsNonEmpty e) : StoreOK (C04.run { cap := cap } es) := by
  have hinv := (C04.retention_all_histories cap hcap es).1
  have hsub : ∀ x ∈ (C04.run { cap := cap } es).evs, x ∈ es := by
    intro x hx
    rcases C04.run_subset { cap := cap } es x hx with h | h
    · cases h
    · exact h
  exact ⟨fun a ha b hb h => hinj a (hsub a ha) b (hsub b hb) h, nodup_of_map_nodup eventKey _ hinv.keys, fun e he => hne e (hsub e he)⟩

/-- hence, for every history: -/
theorem find_eq_spec_reachable (cap : Int) (hcap : 0 ≤ cap) (es : List Event) (hinj : IdInj es)
    (hne : ∀ e ∈ es, C02.TagsNonEmpty e) (perm : List Event → List Event) (hperm : ∀ l, (perm l).Perm l)
    (fs : List Filter) (hfs : ∀ f ∈ fs, FilterOK f) :
    ∃ R, (C04.run { cap := cap } es).find perm fs = .ok R ∧ Sorted R ∧
      ∀ e, e ∈ R ↔ ∃ f ∈ fs, e ∈ topOf (C04.run { cap := cap } es) f :=
  find_eq_spec _ (storeOK_reachable cap hcap es hinj hne) perm hperm fs hfs

/-! non-vacuity -/
def exE (id : String) (t : Int) (k : Int) : Event := { id := id, pubkey := "p", createdAt := t, kind := k, tags := [["t", "x"]], content := "", sig := "" }
def exC : Cache := { cap := 10, evs := [exE "a" 5 1, exE "b" 7 1, exE "c" 7 2, exE "d" 3 1] }
example : exC.find id [{ kinds := some [1], limit := some 2 }, { limit := some 1 }] = .ok [exE "c" 7 2, exE "b" 7 1, exE "a" 5 1] := by decide
example : topOf exC { kinds := some [1], limit := some 2 } = [exE "b" 7 1, exE "a" 5 1] := by decide

end Moc.C03
