/- C09 helper lemmas: the pending table of one key as a state machine; counting invariant -/
import MocModel.Merge
set_option linter.unusedSimpArgs false
set_option linter.unusedVariables false
namespace Moc.C09
open Moc

variable {α : Type}

/-- slot `j` of the row holds a reply -/
def filled (row : List (Option α)) (j : Nat) : Bool :=
  match row[j]? with
  | some (some _) => true
  | _ => false

def rowFull (row : List (Option α)) : Bool := row.all Option.isSome

theorem filled_set_self (row : List (Option α)) (i : Nat) (v : α) (h : i < row.length) :
    filled (row.set i (some v)) i = true := by
  simp [filled, List.getElem?_set, h]

theorem filled_set_ne (row : List (Option α)) (i j : Nat) (x : Option α) (h : j ≠ i) :
    filled (row.set i x) j = filled row j := by
  simp [filled, List.getElem?_set, Ne.symm h]

theorem filled_mono (row : List (Option α)) (i j : Nat) (v : α) (h : filled row j = true) :
    filled (row.set i (some v)) j = true := by
  by_cases hj : j = i
  · subst hj
    have : j < row.length := by
      simp only [filled] at h
      cases hg : row[j]? with
      | none => simp [hg] at h
      | some x => exact (List.getElem?_eq_some_iff.1 hg).1
    exact filled_set_self row j v this
  · rw [filled_set_ne row i j _ hj]; exact h

theorem free_not_filled (row : List (Option α)) (i : Nat) (h : slotFree row i = true) : filled row i = false := by
  simp only [slotFree] at h
  cases hg : row[i]? with
  | none => simp [hg] at h
  | some x => cases x <;> simp [hg, filled] at h ⊢

theorem not_free_filled (row : List (Option α)) (i : Nat) (hi : i < row.length) (h : slotFree row i = false) :
    filled row i = true := by
  simp only [slotFree] at h
  have hg : row[i]? = some row[i] := List.getElem?_eq_getElem hi
  cases hx : row[i] with
  | none => simp [hg, hx] at h
  | some x => simp [filled, hg, hx]

theorem rowFull_iff (row : List (Option α)) : rowFull row = true ↔ ∀ j, j < row.length → filled row j = true := by
  induction row with
  | nil => simp [rowFull]
  | cons x xs ih =>
    simp only [rowFull, List.all_cons, Bool.and_eq_true, List.length_cons] at ih ⊢
    constructor
    · rintro ⟨hx, hxs⟩ j hj
      cases j with
      | zero => cases x <;> simp [filled] at hx ⊢
      | succ j =>
        have := (ih.1 hxs) j (by omega)
        simpa [filled] using this
    · intro h
      refine ⟨?_, ih.2 ?_⟩
      · have := h 0 (by omega)
        cases x <;> simp [filled] at this ⊢
      · intro j hj
        have := h (j + 1) (by omega)
        simpa [filled] using this

/-- number of rows in which child `j` has answered -/
def cnt (j : Nat) (rows : List (List (Option α))) : Nat := rows.countP (filled · j)

abbrev fill (rows : List (List (Option α))) (i : Nat) (v : α) := fillFirst (fun b => b) rows i v

theorem fill_length (rows : List (List (Option α))) (i : Nat) (v : α) : (fill rows i v).length = rows.length := by
  induction rows with
  | nil => rfl
  | cons r rest ih =>
    simp only [fill, fillFirst] at ih ⊢
    split <;> simp [ih]

theorem fill_mem (rows : List (List (Option α))) (i : Nat) (v : α) (r' : List (Option α))
    (h : r' ∈ fill rows i v) : r' ∈ rows ∨ ∃ x ∈ rows, slotFree x i = true ∧ r' = x.set i (some v) := by
  induction rows with
  | nil => simp [fill, fillFirst] at h
  | cons r rest ih =>
    simp only [fill, fillFirst] at h ih
    by_cases hf : slotFree r i = true
    · simp only [hf, if_true, List.mem_cons] at h
      rcases h with rfl | h
      · exact Or.inr ⟨r, by simp, hf, rfl⟩
      · exact Or.inl (List.mem_cons_of_mem _ h)
    · simp only [hf, Bool.false_eq_true, if_false, List.mem_cons] at h
      rcases h with rfl | h
      · exact Or.inl (by simp)
      · rcases ih h with h1 | ⟨x, hx, hxf, rfl⟩
        · exact Or.inl (List.mem_cons_of_mem _ h1)
        · exact Or.inr ⟨x, List.mem_cons_of_mem _ hx, hxf, rfl⟩

theorem fill_lens (n : Nat) (rows : List (List (Option α))) (i : Nat) (v : α) (h : ∀ r ∈ rows, r.length = n) :
    ∀ r ∈ fill rows i v, r.length = n := by
  intro r hr
  rcases fill_mem rows i v r hr with h1 | ⟨x, hx, _, rfl⟩
  · exact h r h1
  · simp [h x hx]

theorem cnt_fill_other (rows : List (List (Option α))) (i j : Nat) (v : α) (hj : j ≠ i) :
    cnt j (fill rows i v) = cnt j rows := by
  induction rows with
  | nil => rfl
  | cons r rest ih =>
    simp only [fill, fillFirst, cnt] at ih ⊢
    split
    · simp [List.countP_cons, filled_set_ne r i j _ hj]
    · simp [List.countP_cons, ih]

theorem cnt_le (j : Nat) (rows : List (List (Option α))) : cnt j rows ≤ rows.length := List.countP_le_length

theorem cnt_fill_self (n : Nat) (rows : List (List (Option α))) (i : Nat) (v : α) (hi : i < n)
    (hl : ∀ r ∈ rows, r.length = n) :
    cnt i (fill rows i v) = if cnt i rows < rows.length then cnt i rows + 1 else cnt i rows := by
  induction rows with
  | nil => rfl
  | cons r rest ih =>
    have hr : r.length = n := hl r (by simp)
    have ih' := ih (fun x hx => hl x (List.mem_cons_of_mem _ hx))
    simp only [fill, fillFirst, cnt, List.length_cons] at ih' ⊢
    by_cases hf : slotFree r i = true
    · have h1 := free_not_filled r i hf
      have h2 := filled_set_self r i v (by omega)
      have hle := cnt_le i rest
      simp only [cnt] at hle
      simp only [hf, if_true, List.countP_cons, h1, h2, Bool.false_eq_true, if_false]
      split <;> omega
    · have h1 := not_free_filled r i (by omega) (by simpa using hf)
      simp only [hf, Bool.false_eq_true, if_false, List.countP_cons, h1, if_true, ih']
      by_cases hc : List.countP (fun x => filled x i) rest < rest.length
      · have hc' : List.countP (fun x => filled x i) rest + 1 < rest.length + 1 := by omega
        simp only [hc, hc', if_true]
      · have hc' : ¬ List.countP (fun x => filled x i) rest + 1 < rest.length + 1 := by omega
        simp only [hc, hc', if_false]

/-- later rows are answered only where earlier rows are: each child answers its requests oldest first -/
def Pre (rows : List (List (Option α))) : Prop :=
  rows.Pairwise (fun r r' => ∀ j, filled r' j = true → filled r j = true)

theorem fill_pre (n : Nat) (rows : List (List (Option α))) (i : Nat) (v : α) (hi : i < n)
    (hl : ∀ r ∈ rows, r.length = n) (hp : Pre rows) : Pre (fill rows i v) := by
  induction rows with
  | nil => simp [Pre, fill, fillFirst]
  | cons r rest ih =>
    have hr : r.length = n := hl r (by simp)
    obtain ⟨hhead, htail⟩ := List.pairwise_cons.1 hp
    simp only [Pre, fill, fillFirst] at ih ⊢
    by_cases hf : slotFree r i = true
    · simp only [hf, if_true]
      refine List.pairwise_cons.2 ⟨?_, htail⟩
      intro r' hr' j hj
      exact filled_mono r i j v (hhead r' hr' j hj)
    · simp only [hf, Bool.false_eq_true, if_false]
      refine List.pairwise_cons.2 ⟨?_, ih (fun x hx => hl x (List.mem_cons_of_mem _ hx)) htail⟩
      intro r' hr' j hj
      rcases fill_mem rest i v r' hr' with h1 | ⟨x, hx, _, rfl⟩
      · exact hhead r' h1 j hj
      · by_cases hji : j = i
        · subst hji; exact not_free_filled r j (by omega) (by simpa using hf)
        · rw [filled_set_ne x i j _ hji] at hj
          exact hhead x hx j hj

/-- the invariant of one key's pending table -/
structure Inv (n : Nat) (rows : List (List (Option α))) : Prop where
  len : ∀ r ∈ rows, r.length = n
  pre : Pre rows
  nfull : ∀ r ∈ rows, rowFull r = false

theorem inv_nil (n : Nat) : Inv n ([] : List (List (Option α))) :=
  ⟨by simp, by simp [Pre], by simp⟩

theorem inv_addRow (n : Nat) (hn : 0 < n) (rows : List (List (Option α))) (h : Inv n rows) : Inv n (addRow rows n) := by
  have hnf : ∀ j, filled (List.replicate n (none : Option α)) j = false := by
    intro j
    simp only [filled]
    cases hg : (List.replicate n (none : Option α))[j]? with
    | none => rfl
    | some x =>
      have := (List.getElem?_eq_some_iff.1 hg).2
      simp at this; subst this; rfl
  refine ⟨?_, ?_, ?_⟩
  · intro r hr
    simp only [addRow, List.mem_append, List.mem_singleton] at hr
    rcases hr with hr | rfl
    · exact h.len r hr
    · simp
  · simp only [Pre, addRow, List.pairwise_append, List.pairwise_cons, List.Pairwise.nil, and_true]
    refine ⟨h.pre, by simp, ?_⟩
    intro a _ b hb j hj
    simp only [List.mem_singleton] at hb; subst hb
    rw [hnf j] at hj; cases hj
  · intro r hr
    simp only [addRow, List.mem_append, List.mem_singleton] at hr
    rcases hr with hr | rfl
    · exact h.nfull r hr
    · cases n with
      | zero => omega
      | succ m => simp [rowFull, List.replicate_succ]

/-- one step of the table of one key: `none` output = the client receives nothing -/
inductive TOp (α : Type) where
  | req
  | reply (i : Nat) (v : α)

def tblStep (n : Nat) (rows : List (List (Option α))) : TOp α → List (List (Option α)) × Option (List α)
  | .req => (addRow rows n, none)
  | .reply i v =>
    match fill rows i v with
    | [] => ([], none)
    | r :: rest => if rowFull r then (rest, some (r.filterMap id)) else (r :: rest, none)

theorem cnt_full_head (r : List (Option α)) (rest : List (List (Option α))) (j : Nat) (hf : rowFull r = true)
    (hj : j < r.length) : cnt j (r :: rest) = cnt j rest + 1 := by
  have := (rowFull_iff r).1 hf j hj
  simp [cnt, List.countP_cons, this]

theorem inv_reply (n : Nat) (rows : List (List (Option α))) (i : Nat) (v : α) (hi : i < n) (h : Inv n rows) :
    Inv n (tblStep n rows (.reply i v)).1 := by
  have hlen := fill_lens n rows i v h.len
  have hpre := fill_pre n rows i v hi h.len h.pre
  simp only [tblStep]
  cases hfr : fill rows i v with
  | nil => exact inv_nil n
  | cons r rest =>
    rw [hfr] at hlen hpre
    -- which rows of the new table are new?
    have hold : ∀ x ∈ rest, rowFull x = true → rowFull r = true := by
      intro x hx hxf
      have hxl : x.length = n := hlen x (List.mem_cons_of_mem _ hx)
      have hrl : r.length = n := hlen r (by simp)
      apply (rowFull_iff r).2
      intro j hj
      have := (List.pairwise_cons.1 hpre).1 x hx j ((rowFull_iff x).1 hxf j (by omega))
      exact this
    -- rows other than the head: unchanged ones are not full; a changed one is full only if the head is
    by_cases hrf : rowFull r = true
    · simp only [hrf, if_true]
      refine ⟨fun x hx => hlen x (List.mem_cons_of_mem _ hx), (List.pairwise_cons.1 hpre).2, ?_⟩
      intro x hx
      -- the head became full, so the reply went into the head: the rest is as before
      cases rows with
      | nil => simp [fill, fillFirst] at hfr
      | cons r0 rest0 =>
        simp only [fill, fillFirst] at hfr
        by_cases hf0 : slotFree r0 i = true
        · simp only [hf0, if_true, List.cons.injEq] at hfr
          obtain ⟨_, rfl⟩ := hfr
          exact h.nfull x (List.mem_cons_of_mem _ hx)
        · simp only [hf0, Bool.false_eq_true, if_false, List.cons.injEq] at hfr
          obtain ⟨rfl, _⟩ := hfr
          have := h.nfull r0 (by simp)
          rw [this] at hrf; cases hrf
    · simp only [hrf, Bool.false_eq_true, if_false]
      refine ⟨hlen, hpre, ?_⟩
      intro x hx
      rcases List.mem_cons.1 hx with rfl | hx
      · simpa using hrf
      · cases hxf : rowFull x with
        | false => rfl
        | true => exact absurd (hold x hx hxf) hrf

/-! ### counting requests, answers and replies over a whole history -/

def runTbl (n : Nat) : List (List (Option α)) → List (TOp α) → List (List (Option α)) × List (List α)
  | rows, [] => (rows, [])
  | rows, op :: ops =>
    ((runTbl n (tblStep n rows op).1 ops).1, (tblStep n rows op).2.toList ++ (runTbl n (tblStep n rows op).1 ops).2)

def reqs : List (TOp α) → Nat
  | [] => 0
  | .req :: ops => reqs ops + 1
  | .reply _ _ :: ops => reqs ops

def replies (j : Nat) : List (TOp α) → Nat
  | [] => 0
  | .req :: ops => replies j ops
  | .reply i _ :: ops => replies j ops + (if i = j then 1 else 0)

/-- the children behave: a child index is below `n` and a child answers a request only after it was made
    (`R` requests, `A j` answers of child `j` so far) -/
def Causal (n : Nat) : Nat → (Nat → Nat) → List (TOp α) → Prop
  | _, _, [] => True
  | R, A, .req :: ops => Causal n (R + 1) A ops
  | R, A, .reply i _ :: ops => i < n ∧ A i < R ∧ Causal n R (fun j => if j = i then A j + 1 else A j) ops

/-- rows pending + replies sent = requests; answers of child j pending + replies sent = answers of child j -/
def Rel (n : Nat) (rows : List (List (Option α))) (R : Nat) (A : Nat → Nat) (E : Nat) : Prop :=
  Inv n rows ∧ rows.length + E = R ∧ ∀ j, j < n → cnt j rows + E = A j

theorem cnt_addRow (n j : Nat) (rows : List (List (Option α))) : cnt j (addRow rows n) = cnt j rows := by
  have hnf : filled (List.replicate n (none : Option α)) j = false := by
    simp only [filled]
    cases hg : (List.replicate n (none : Option α))[j]? with
    | none => rfl
    | some x =>
      have := (List.getElem?_eq_some_iff.1 hg).2
      simp at this; subst this; rfl
  simp [cnt, addRow, List.countP_append, hnf]

theorem rel_req (n : Nat) (hn : 0 < n) (rows : List (List (Option α))) (R : Nat) (A : Nat → Nat) (E : Nat)
    (h : Rel n rows R A E) : Rel n (tblStep n rows .req).1 (R + 1) A E ∧ (tblStep n rows (.req : TOp α)).2 = none := by
  obtain ⟨hi, hl, hc⟩ := h
  refine ⟨⟨inv_addRow n hn rows hi, by simp [tblStep, addRow]; omega, ?_⟩, rfl⟩
  intro j hj
  simp only [tblStep, cnt_addRow]
  exact hc j hj

theorem rel_reply (n : Nat) (rows : List (List (Option α))) (R : Nat) (A : Nat → Nat) (E : Nat) (i : Nat) (v : α)
    (hi : i < n) (hA : A i < R) (h : Rel n rows R A E) :
    Rel n (tblStep n rows (.reply i v)).1 R (fun j => if j = i then A j + 1 else A j)
      (E + (tblStep n rows (.reply i v)).2.toList.length) := by
  obtain ⟨hinv, hl, hc⟩ := h
  have hroom : cnt i rows < rows.length := by have := hc i hi; omega
  have hci : cnt i (fill rows i v) = cnt i rows + 1 := by
    rw [cnt_fill_self n rows i v hi hinv.len]; simp [hroom]
  have hflen := fill_length rows i v
  refine ⟨inv_reply n rows i v hi hinv, ?_, ?_⟩
  · simp only [tblStep]
    cases hfr : fill rows i v with
    | nil => rw [hfr] at hflen; simp at hflen; omega
    | cons r rest =>
      rw [hfr] at hflen
      simp only [List.length_cons] at hflen
      by_cases hrf : rowFull r = true
      · simp [hrf]; omega
      · simp [hrf]; omega
  · intro j hj
    have hcj : cnt j (fill rows i v) = if j = i then cnt j rows + 1 else cnt j rows := by
      by_cases hji : j = i
      · subst hji; simp [hci]
      · simp [hji, cnt_fill_other rows i j v hji]
    have hlens := fill_lens n rows i v hinv.len
    simp only [tblStep]
    cases hfr : fill rows i v with
    | nil => rw [hfr] at hflen; simp at hflen; omega
    | cons r rest =>
      rw [hfr] at hcj hlens
      have hrl : r.length = n := hlens r (by simp)
      have := hc j hj
      by_cases hrf : rowFull r = true
      · have hh := cnt_full_head r rest j hrf (by omega)
        simp only [hrf, if_true, Option.toList_some, List.length_singleton]
        by_cases hji : j = i
        · simp only [hji, if_true] at hcj ⊢; rw [hji] at this hh; omega
        · simp only [hji, if_false] at hcj ⊢; omega
      · simp only [hrf, Bool.false_eq_true, if_false, Option.toList_none, List.length_nil, Nat.add_zero]
        by_cases hji : j = i
        · simp only [hji, if_true] at hcj ⊢; rw [hji] at this; omega
        · simp only [hji, if_false] at hcj ⊢; omega

theorem rel_run (n : Nat) (hn : 0 < n) (ops : List (TOp α)) :
    ∀ (rows : List (List (Option α))) (R : Nat) (A : Nat → Nat) (E : Nat), Rel n rows R A E → Causal n R A ops →
      Rel n (runTbl n rows ops).1 (R + reqs ops) (fun j => A j + replies j ops) (E + (runTbl n rows ops).2.length) := by
  induction ops with
  | nil => intro rows R A E h _; simpa [runTbl, reqs, replies] using h
  | cons op ops ih =>
    intro rows R A E h hc
    cases op with
    | req =>
      obtain ⟨h1, h2⟩ := rel_req n hn rows R A E h
      have := ih _ _ _ _ h1 hc
      simp only [runTbl, h2, Option.toList_none, List.nil_append, reqs, replies]
      have e : R + 1 + reqs ops = R + (reqs ops + 1) := by omega
      rw [e] at this; exact this
    | reply i v =>
      obtain ⟨hi, hA, hc'⟩ := hc
      have h1 := rel_reply n rows R A E i v hi hA h
      have := ih _ _ _ _ h1 hc'
      simp only [runTbl, reqs, replies, List.length_append]
      have e1 : (fun j => (if j = i then A j + 1 else A j) + replies j ops) =
          (fun j => A j + (replies j ops + if i = j then 1 else 0)) := by
        funext j
        by_cases hji : j = i
        · subst hji; simp; omega
        · have : ¬ i = j := fun h => hji h.symm
          simp [hji, this]
      rw [e1] at this
      have e2 : E + (tblStep n rows (TOp.reply i v)).2.toList.length + (runTbl n (tblStep n rows (TOp.reply i v)).1 ops).2.length
          = E + ((tblStep n rows (TOp.reply i v)).2.toList.length + (runTbl n (tblStep n rows (TOp.reply i v)).1 ops).2.length) := by omega
      rw [e2] at this; exact this

/-- **C09, exactly one reply per request, for every interleaving.**  From an empty table, over any history in
    which the children answer only requests that were made: the client never has more replies than requests, nor
    more than any child has given answers; and once every child has answered every request, the client has
    received exactly one reply per request and nothing is pending. -/
theorem replies_exactly_once (n : Nat) (hn : 0 < n) (ops : List (TOp α)) (hc : Causal n 0 (fun _ => 0) ops) :
    (runTbl n [] ops).2.length ≤ reqs ops ∧
    (∀ j, j < n → (runTbl n [] ops).2.length ≤ replies j ops) ∧
    ((∀ j, j < n → replies j ops = reqs ops) → (runTbl n [] ops).2.length = reqs ops ∧ (runTbl n [] ops).1 = []) := by
  have h0 : Rel n ([] : List (List (Option α))) 0 (fun _ => 0) 0 := ⟨inv_nil n, rfl, fun j _ => by simp [cnt]⟩
  obtain ⟨hinv, hl, hcnt⟩ := rel_run n hn ops [] 0 (fun _ => 0) 0 h0 hc
  simp only [Nat.zero_add] at hl hcnt
  refine ⟨by omega, fun j hj => by have := hcnt j hj; omega, ?_⟩
  intro hall
  -- every column is as long as the table: every row is full; but no stored row is full
  cases hrows : (runTbl n [] ops).1 with
  | nil => rw [hrows] at hl; simp at hl; exact ⟨by omega, rfl⟩
  | cons r rest =>
    exfalso
    rw [hrows] at hinv hl hcnt
    have hfull : ∀ j, j < n → cnt j (r :: rest) = (r :: rest).length := by
      intro j hj; have := hcnt j hj; have := hall j hj; omega
    have hrl : r.length = n := hinv.len r (by simp)
    have : rowFull r = true := by
      apply (rowFull_iff r).2
      intro j hj
      have hcj := hfull j (by omega)
      -- countP = length means every row satisfies the predicate
      have := (List.countP_eq_length (p := fun x : List (Option α) => filled x j) (l := r :: rest)).1 (by simpa [cnt] using hcj)
      exact this r (by simp)
    rw [hinv.nfull r (by simp)] at this
    cases this

end Moc.C09
