/-
  C18 — Stateful middlewares: subscription quota and per-connection de-duplication.

  Model: `Mw.client/.server` for `.maxSubs`, `.recvUnique`, `.sendUnique` (MocModel/Middleware.lean);
  the hashicorp LRU is a hand-modelled library contract (`lruGet`, `lruAdd`), validated by the
  correspondence run on every check.
-/
import MocModel.Spec.Mw

set_option linter.unusedSimpArgs false

namespace Moc.C18
open Moc

/-! ## Subscription quota -/

/-- invariant of the quota state: the open ids are distinct and at most `n` -/
def QuotaInv (n : Int) (st : MwSt) : Prop := st.subs.Nodup ∧ (st.subs.length : Int) ≤ n

theorem quota_inv_init (n : Int) (hn : 1 ≤ n) : QuotaInv n {} := by
  constructor
  · exact List.nodup_nil
  · simp; omega

/-- closed form of the REQ branch of `handleClientReqMsg` (insert, test `len > max`, delete + reject) -/
theorem maxSubs_req (n : Int) (st : MwSt) (now : Int) (sub : String) (fs : List Filter) :
    (Mw.maxSubs n).client st now (.req sub fs) =
      if sub ∈ st.subs then
        (if (st.subs.length : Int) > n then
            ({ st with subs := st.subs.erase sub }, .reject (.closed sub "" (fmtD Gen.maxSubsFmt n)))
          else (st, .fwd (.req sub fs)))
      else
        (if (st.subs.length : Int) + 1 > n then (st, .reject (.closed sub "" (fmtD Gen.maxSubsFmt n)))
          else ({ st with subs := sub :: st.subs }, .fwd (.req sub fs))) := by
  obtain ⟨subs, lru⟩ := st
  simp only [Mw.client, Gen.maxSubsReject]
  by_cases hm : sub ∈ subs
  · have hc : subs.contains sub = true := by simpa using hm
    simp only [hc, if_true, hm]
    by_cases hg : (subs.length : Int) > n
    · simp [hg]
    · simp [hg]
  · have hc : subs.contains sub = false := by simpa using hm
    simp only [hc, Bool.false_eq_true, if_false, hm, List.length_cons, List.erase_cons_head]
    by_cases hg : (subs.length : Int) + 1 > n
    · simp [hg]
    · simp [hg]

/-- **C18 quota, REQ**: under the invariant a REQ is forwarded (unchanged) iff its id is already open or
    fewer than `n` are open, and then it is open afterwards; otherwise it is answered with CLOSED for that
    id, nothing is forwarded and the open set is unchanged. -/
theorem quota_req (n : Int) (st : MwSt) (now : Int) (sub : String) (fs : List Filter) (hinv : QuotaInv n st) :
    ((sub ∈ st.subs ∨ (st.subs.length : Int) < n) →
        (Mw.maxSubs n).client st now (.req sub fs) =
          ({ st with subs := if sub ∈ st.subs then st.subs else sub :: st.subs }, .fwd (.req sub fs))) ∧
    (¬ (sub ∈ st.subs ∨ (st.subs.length : Int) < n) →
        (Mw.maxSubs n).client st now (.req sub fs) = (st, .reject (.closed sub "" (fmtD Gen.maxSubsFmt n)))) := by
  obtain ⟨hnd, hlen⟩ := hinv
  rw [maxSubs_req]
  constructor
  · intro h
    by_cases hm : sub ∈ st.subs
    · have : ¬ (st.subs.length : Int) > n := by omega
      simp [hm, this]
    · have hl : (st.subs.length : Int) < n := by
        rcases h with h | h
        · exact absurd h hm
        · exact h
      have : ¬ (st.subs.length : Int) + 1 > n := by omega
      simp [hm, this]
  · intro h
    have hm : sub ∉ st.subs := fun hm => h (Or.inl hm)
    have hge : ¬ ((st.subs.length : Int) < n) := fun hl => h (Or.inr hl)
    have : (st.subs.length : Int) + 1 > n := by omega
    simp [hm, this]

/-- **C18 quota, CLOSE** frees the slot and is forwarded; every other message passes untouched. -/
theorem quota_close (n : Int) (st : MwSt) (now : Int) (sub : String) (hinv : QuotaInv n st) :
    (Mw.maxSubs n).client st now (.close sub) = ({ st with subs := st.subs.erase sub }, .fwd (.close sub)) ∧
    sub ∉ st.subs.erase sub := by
  refine ⟨rfl, ?_⟩
  exact fun h => ((List.Nodup.mem_erase_iff hinv.1).1 h).1 rfl

theorem quota_other (n : Int) (st : MwSt) (now : Int) (m : ClientMsg)
    (h1 : ∀ sub fs, m ≠ .req sub fs) (h2 : ∀ sub, m ≠ .close sub) :
    (Mw.maxSubs n).client st now m = (st, .fwd m) := by
  cases m with
  | req sub fs => exact absurd rfl (h1 sub fs)
  | close sub => exact absurd rfl (h2 sub)
  | event e => rfl
  | auth e => rfl
  | count s fs => rfl

/-- **C18 quota, the invariant is preserved by every client message.** -/
theorem quota_step_inv (n : Int) (st : MwSt) (now : Int) (m : ClientMsg) (hinv : QuotaInv n st) :
    QuotaInv n ((Mw.maxSubs n).client st now m).1 := by
  cases m with
  | req sub fs =>
    by_cases h : sub ∈ st.subs ∨ (st.subs.length : Int) < n
    · rw [(quota_req n st now sub fs hinv).1 h]
      obtain ⟨hnd, hlen⟩ := hinv
      by_cases hm : sub ∈ st.subs
      · simpa [hm, QuotaInv] using ⟨hnd, hlen⟩
      · have hl : (st.subs.length : Int) < n := by
          rcases h with h | h
          · exact absurd h hm
          · exact h
        simp only [hm, if_false, QuotaInv]
        exact ⟨List.nodup_cons.2 ⟨hm, hnd⟩, by simp; omega⟩
    · rw [(quota_req n st now sub fs hinv).2 h]; exact hinv
  | close sub =>
    rw [(quota_close n st now sub hinv).1]
    refine ⟨hinv.1.erase _, ?_⟩
    have := List.length_erase_le (a := sub) (l := st.subs)
    have := hinv.2
    simp only []
    omega
  | event e => exact hinv
  | auth e => exact hinv
  | count s fs => exact hinv

/-- run a client history through one quota middleware -/
def runQuota (n : Int) : MwSt → List ClientMsg → MwSt
  | st, [] => st
  | st, m :: ms => runQuota n ((Mw.maxSubs n).client st 0 m).1 ms

/-- **C18 quota, every history**: at every moment at most `n` distinct ids are open. -/
theorem quota_never_exceeded (n : Int) (hn : 1 ≤ n) (ms : List ClientMsg) :
    QuotaInv n (runQuota n {} ms) := by
  suffices h : ∀ st, QuotaInv n st → QuotaInv n (runQuota n st ms) from h {} (quota_inv_init n hn)
  induction ms with
  | nil => intro st h; exact h
  | cons m ms ih => intro st h; exact ih _ (quota_step_inv n st 0 m h)

/-- **C18 quota refines the statement's rule** (`specClient`): from equal open sets the model and the
    spec take the same decision and reach equal open sets — hence along every history. -/
theorem quota_refines_spec (n : Int) (st : MwSt) (ss : SpecSt) (now : Int) (m : ClientMsg)
    (hinv : QuotaInv n st) (heq : st.subs = ss.openSubs) :
    ((Mw.maxSubs n).client st now m).1.subs = (specClient (.maxSubs n) ss now m).1.openSubs ∧
    ((specClient (.maxSubs n) ss now m).2 = true ↔ ((Mw.maxSubs n).client st now m).2 = .fwd m) := by
  cases m with
  | req sub fs =>
    by_cases hc : sub ∈ st.subs ∨ (st.subs.length : Int) < n
    · rw [(quota_req n st now sub fs hinv).1 hc]
      simp [specClient, ← heq, hc]
    · rw [(quota_req n st now sub fs hinv).2 hc]
      simp [specClient, ← heq, hc]
  | close sub =>
    rw [(quota_close n st now sub hinv).1]
    simp [specClient, heq]
  | event e => simp [Mw.client, specClient, withinLimit, heq]
  | auth e => simp [Mw.client, specClient, withinLimit, heq]
  | count s fs => simp [Mw.client, specClient, withinLimit, heq]

/-! ## Recent-id windows (receive side and send side) -/

/-- distinct ids of a history by most recent occurrence (most recent first) -/
def recency (hist : List String) : List String := hist.foldl (fun l id => id :: l.erase id) []

/-- the last `size` distinct ids seen -/
def window (size : Nat) (hist : List String) : List String := (recency hist).take size

theorem take_erase_of_mem (id : String) : ∀ (D : List String) (k : Nat),
    id ∈ D.take k → (D.take k).erase id = (D.erase id).take (k - 1) := by
  intro D
  induction D with
  | nil => intro k h; simp at h
  | cons d D ih =>
    intro k h
    cases k with
    | zero => simp at h
    | succ k =>
      simp only [List.take_succ_cons] at h ⊢
      by_cases hd : d = id
      · subst hd; simp
      · have hmem : id ∈ D.take k := by
          simp only [List.mem_cons] at h
          rcases h with h | h
          · exact absurd h.symm hd
          · exact h
        have hk : 1 ≤ k := by
          cases k with
          | zero => simp at hmem
          | succ k => omega
        have hne : (d == id) = false := by simpa using hd
        rw [List.erase_cons_tail (by simpa using hd), List.erase_cons_tail (by simpa using hd), ih k hmem]
        obtain ⟨k', rfl⟩ : ∃ k', k = k' + 1 := ⟨k - 1, by omega⟩
        simp

theorem take_erase_of_not_mem (id : String) : ∀ (D : List String) (k : Nat),
    id ∉ D.take k → (D.erase id).take k = D.take k := by
  intro D
  induction D with
  | nil => intro k _; simp
  | cons d D ih =>
    intro k h
    cases k with
    | zero => simp
    | succ k =>
      simp only [List.take_succ_cons, List.mem_cons, not_or] at h
      have hd : ¬ d = id := fun e => h.1 e.symm
      rw [List.erase_cons_tail (by simpa using hd)]
      simp only [List.take_succ_cons, ih k h.2]

/-- the bounded LRU after "Get, and Add on a miss" on the window of the full recency list is the
    window of the updated recency list -/
theorem window_step (size : Nat) (hs : 1 ≤ size) (D : List String) (id : String) :
    (if (D.take size).contains id then id :: (D.take size).erase id else (id :: D.take size).take size)
      = (id :: D.erase id).take size := by
  obtain ⟨k, rfl⟩ : ∃ k, size = k + 1 := ⟨size - 1, by omega⟩
  by_cases h : id ∈ D.take (k + 1)
  · have : (D.take (k + 1)).contains id = true := by simpa using h
    rw [if_pos this, take_erase_of_mem id D (k + 1) h]
    simp
  · have : (D.take (k + 1)).contains id = false := by simpa using h
    rw [if_neg (by rw [this]; exact Bool.false_ne_true)]
    simp only [List.take_succ_cons, List.take_take]
    have hk : id ∉ D.take k := fun hm => h (List.take_subset_take_left D (by omega) hm)
    rw [take_erase_of_not_mem id D k hk]
    congr 1
    simp [Nat.min_def]

/-- the state of the model LRU after "Get, and Add on a miss" (both unique filters do exactly this) -/
def lruTouch (size : Nat) (l : List String) (id : String) : List String × Bool :=
  let (l', found) := lruGet l id
  if found then (l', true) else (lruAdd size l' id, false)

theorem lruTouch_eq (size : Nat) (l : List String) (id : String) :
    lruTouch size l id =
      (if l.contains id then id :: l.erase id else (id :: l).take size, l.contains id) := by
  unfold lruTouch lruGet lruAdd
  by_cases hm : id ∈ l
  · simp [hm]
  · simp [hm]

/-- feed a sequence of ids to a unique filter's LRU; collect the duplicate verdicts -/
def feedIds (size : Nat) : List String → List String → List String × List Bool
  | l, [] => (l, [])
  | l, id :: ids =>
    let (l', dup) := lruTouch size l id
    let (l'', ds) := feedIds size l' ids
    (l'', dup :: ds)

/-- **C18 window invariant, every history**: after any sequence of ids the LRU holds exactly the last
    `size` distinct ids seen (by most recent occurrence), and the next id is judged a duplicate iff it
    is in that window. -/
theorem lru_is_window (size : Nat) (hs : 1 ≤ size) (hist : List String) :
    ∀ (seen : List String) (l : List String), l = window size seen →
      (feedIds size l hist).1 = window size (seen ++ hist) ∧
      ∀ i (h : i < hist.length), (feedIds size l hist).2[i]? =
        some ((window size (seen ++ hist.take i)).contains hist[i]) := by
  induction hist with
  | nil => intro seen l hl; simp [feedIds, hl]
  | cons id ids ih =>
    intro seen l hl
    have hstep : (lruTouch size l id).1 = window size (seen ++ [id]) := by
      rw [lruTouch_eq, hl]
      simp only [window, recency, List.foldl_append, List.foldl_cons, List.foldl_nil]
      exact window_step size hs _ id
    obtain ⟨ih1, ih2⟩ := ih (seen ++ [id]) (lruTouch size l id).1 hstep
    simp only [feedIds]
    constructor
    · simpa [List.append_assoc] using ih1
    · intro i hi
      cases i with
      | zero => simp [lruTouch_eq, hl]
      | succ i =>
        have := ih2 i (by simpa using hi)
        simpa [List.append_assoc] using this

/-- **C18 receive side**: the decision of `.recvUnique` on an EVENT is "duplicate" exactly when its id is
    in the current window; a duplicate is answered with a rejecting OK carrying the id and the
    `duplicate:` prefix, and is not forwarded; other messages pass. -/
theorem recv_unique_step (size : Nat) (st : MwSt) (now : Int) (e : Event) :
    (st.lru.contains e.id = true →
      ∃ txt, (Mw.recvUnique size).client st now (.event e) =
        ({ st with lru := (lruTouch size st.lru e.id).1 }, .reject (.ok e.id false Gen.prefixDuplicate txt))) ∧
    (st.lru.contains e.id = false →
      (Mw.recvUnique size).client st now (.event e) =
        ({ st with lru := (lruTouch size st.lru e.id).1 }, .fwd (.event e))) := by
  constructor
  · intro h
    have hm : e.id ∈ st.lru := by simpa using h
    refine ⟨Gen.recvUniqueMsg, ?_⟩
    simp [Mw.client, lruTouch, lruGet, hm, Gen.recvUniqueReject, Gen.recvUniquePrefix]
  · intro h
    have hm : e.id ∉ st.lru := by simpa using h
    simp [Mw.client, lruTouch, lruGet, hm, Gen.recvUniqueReject]

/-- **C18 send side**: an EVENT whose id is in the window is dropped, any other is delivered; non-EVENT
    server messages always pass. -/
theorem send_unique_step (size : Nat) (st : MwSt) (sub : String) (e : Event) :
    (st.lru.contains e.id = true →
      (Mw.sendUnique size).server st (.event sub e) = ({ st with lru := (lruTouch size st.lru e.id).1 }, none)) ∧
    (st.lru.contains e.id = false →
      (Mw.sendUnique size).server st (.event sub e) =
        ({ st with lru := (lruTouch size st.lru e.id).1 }, some (.event sub e))) := by
  constructor
  · intro h
    have hm : e.id ∈ st.lru := by simpa using h
    simp [Mw.server, lruTouch, lruGet, hm, Gen.sendUniqueDrop]
  · intro h
    have hm : e.id ∉ st.lru := by simpa using h
    simp [Mw.server, lruTouch, lruGet, hm, Gen.sendUniqueDrop]

/-- **C18: never rejects an id it has not seen** — the window only contains seen ids. -/
theorem window_subset_seen (size : Nat) (hist : List String) : ∀ id ∈ window size hist, id ∈ hist := by
  have hrec : ∀ (hist acc : List String), ∀ id ∈ hist.foldl (fun l id => id :: l.erase id) acc, id ∈ acc ∨ id ∈ hist := by
    intro hist
    induction hist with
    | nil => intro acc id h; exact Or.inl h
    | cons x xs ih =>
      intro acc id h
      rcases ih (x :: acc.erase x) id h with h' | h'
      · simp only [List.mem_cons] at h'
        rcases h' with rfl | h'
        · exact Or.inr (by simp)
        · exact Or.inl (List.mem_of_mem_erase h')
      · exact Or.inr (List.mem_cons_of_mem _ h')
  intro id h
  rcases hrec hist [] id (List.mem_of_mem_take h) with h' | h'
  · cases h'
  · exact h'

/-- the window never holds more than `size` ids -/
theorem window_length_le (size : Nat) (hist : List String) : (window size hist).length ≤ size := by
  simp [window, List.length_take]; omega

/-! ## Per-connection state -/

/-- a middleware instance serving several sessions: one state per session id -/
abbrev Sys := List (Nat × List (Mw × MwSt))

def sysClient (sys : Sys) (sid : Nat) (now : Int) (m : ClientMsg) : Sys :=
  sys.map fun (s, stack) => if s = sid then (s, (chainClient stack now m).1) else (s, stack)

/-- **C18: state never leaks between connections** — a step of session `a` leaves every other session's
    state (hence all its future outputs) unchanged. -/
theorem sessions_independent (sys : Sys) (a b : Nat) (hab : a ≠ b) (now : Int) (m : ClientMsg)
    (stack : List (Mw × MwSt)) (hb : (b, stack) ∈ sys) : (b, stack) ∈ sysClient sys a now m := by
  unfold sysClient
  refine List.mem_map.2 ⟨(b, stack), hb, ?_⟩
  simp [Ne.symm hab]

/-! ## non-vacuity -/

example : QuotaInv 2 { subs := ["a", "b"] } := by
  constructor
  · decide
  · decide

example : window 2 ["a", "b", "a", "c"] = ["c", "a"] := by decide
example : (feedIds 2 [] ["a", "b", "a", "c", "a"]).2 = [false, false, true, false, true] := by decide

/-- the one-sided middlewares hand the other direction over untouched (source text, regenerated) -/
theorem pass_through_pinned : passThroughActual = passThroughExpected := by decide

/-- the receive-side window is client-side state: every server message passes and leaves it alone -/
theorem recvUnique_server_inert (size : Nat) (st : MwSt) (m : ServerMsg) :
    (Mw.recvUnique size).server st m = (st, some m) := by
  cases m <;> rfl

/-- so is the subscription quota -/
theorem maxSubs_server_inert (n : Int) (st : MwSt) (m : ServerMsg) :
    (Mw.maxSubs n).server st m = (st, some m) := by
  cases m <;> rfl

/-- a session history: client and server messages in any interleaving -/
def runMixed (mw : Mw) (now : Int) : MwSt → List (Sum ClientMsg ServerMsg) → MwSt
  | st, [] => st
  | st, .inl c :: rest => runMixed mw now (mw.client st now c).1 rest
  | st, .inr s :: rest => runMixed mw now (mw.server st s).1 rest

def clientsOf : List (Sum ClientMsg ServerMsg) → List ClientMsg
  | [] => []
  | .inl c :: rest => c :: clientsOf rest
  | .inr _ :: rest => clientsOf rest

/-- **whatever the downstream handler answers, and whenever, the receive-side filter and the quota decide every
    client message as if the server had been silent**: the state after a mixed history is the state after its client
    messages alone (what seed C18-I breaks) -/
theorem client_state_ignores_server (mw : Mw) (h : (∃ size, mw = .recvUnique size) ∨ (∃ n, mw = .maxSubs n))
    (now : Int) (st : MwSt) (hist : List (Sum ClientMsg ServerMsg)) :
    runMixed mw now st hist = runMixed mw now st ((clientsOf hist).map Sum.inl) := by
  induction hist generalizing st with
  | nil => rfl
  | cons x rest ih =>
    cases x with
    | inl c => simp only [runMixed, clientsOf, List.map_cons]; exact ih _
    | inr s =>
      simp only [runMixed, clientsOf]
      rcases h with ⟨size, rfl⟩ | ⟨n, rfl⟩
      · rw [recvUnique_server_inert]; exact ih _
      · rw [maxSubs_server_inert]; exact ih _

end Moc.C18
