/-
  C06, deletions: the tombstone tables after any history are exactly the tombstones of the inserted deletion
  requests (`tombstones_after_history`), so a stored row is hidden exactly when some inserted request of the same
  author names its id or its address key, whichever of the two arrived first (`hidden_iff_request`, `delIdRows_mem`).
-/
import MocModel.Sqlite
import MocProps.SqliteLemmas
import MocProps.C06Tables
set_option linter.unusedSimpArgs false
set_option linter.unusedVariables false
namespace Moc.C06
open Moc Moc.C14

theorem mem_insertSet {α} [BEq α] [LawfulBEq α] (l : List α) (x y : α) : y ∈ insertSet l x ↔ y ∈ l ∨ y = x := by
  simp only [insertSet]
  split
  · rename_i h
    constructor
    · exact Or.inl
    · rintro (h' | rfl)
      · exact h'
      · simpa using h
  · simp [List.mem_append]

theorem mem_foldl_insertSet {α} [BEq α] [LawfulBEq α] (xs l : List α) (y : α) :
    y ∈ xs.foldl insertSet l ↔ y ∈ l ∨ y ∈ xs := by
  induction xs generalizing l with
  | nil => simp
  | cons x xs ih =>
    simp only [List.foldl_cons, ih, mem_insertSet, List.mem_cons]
    constructor
    · rintro ((h | h) | h)
      · exact Or.inl h
      · exact Or.inr (Or.inl h)
      · exact Or.inr (Or.inr h)
    · rintro (h | h | h)
      · exact Or.inl (Or.inl h)
      · exact Or.inl (Or.inr h)
      · exact Or.inr h

/-- tombstone tables only grow, and only by tombstones of the event being inserted -/
theorem insertOne_tombstones (db : Db) (p : Params) :
    (∀ x, x ∈ db.delIds → x ∈ (db.insertOne p).delIds) ∧ (∀ x, x ∈ db.delKeys → x ∈ (db.insertOne p).delKeys) ∧
    (∀ x, x ∈ (db.insertOne p).delIds → x ∈ db.delIds ∨ x ∈ p.delIds) ∧
    (∀ x, x ∈ (db.insertOne p).delKeys → x ∈ db.delKeys ∨ x ∈ p.delKeys) := by
  unfold Db.insertOne
  split
  · split
    · simp only [mem_foldl_insertSet]
      exact ⟨fun x h => Or.inl h, fun x h => Or.inl h, fun x h => h, fun x h => h⟩
    · exact ⟨fun x h => h, fun x h => h, fun x h => Or.inl h, fun x h => Or.inl h⟩
  · simp only [mem_foldl_insertSet]
    exact ⟨fun x h => Or.inl h, fun x h => Or.inl h, fun x h => h, fun x h => h⟩

/-- when its statements run, all of an event's tombstones are in the tables afterwards -/
theorem insertOne_own_tombstones (db : Db) (p : Params)
    (h : db.events.find? (fun r => r.key == p.row.key) = none ∨
         ∃ old, db.events.find? (fun r => r.key == p.row.key) = some old ∧ upsertReplaces old p.row = true) :
    (∀ x ∈ p.delIds, x ∈ (db.insertOne p).delIds) ∧ (∀ x ∈ p.delKeys, x ∈ (db.insertOne p).delKeys) := by
  unfold Db.insertOne
  rcases h with h | ⟨old, h, hr⟩
  · simp only [h, mem_foldl_insertSet]
    exact ⟨fun x hx => Or.inr hx, fun x hx => Or.inr hx⟩
  · simp only [h, hr, if_true, mem_foldl_insertSet]
    exact ⟨fun x hx => Or.inr hx, fun x hx => Or.inr hx⟩

/-- what the builders guarantee about keys: a (timestamp, id) key carries the row's id; only deletion requests
    carry tombstones, and they are regular events, stored under such a key -/
structure KeyOK (p : Params) : Prop where
  regId : ∀ ts id, p.row.key = .reg ts id → p.row.id = id
  tombReg : (p.delIds = [] ∧ p.delKeys = []) ∨ ∃ ts, p.row.key = .reg ts p.row.id

theorem buildParams_keyOK (e : Event) (p : Params) (h : buildParams e = some p) (hl : LowerHex e) : KeyOK p := by
  obtain ⟨h1, h2, h3⟩ := hl
  unfold buildParams at h
  rw [h1, h2, h3] at h
  cases hk : sqlKey e with
  | none => simp [hk] at h
  | some k =>
    simp only [hk, Option.some.injEq] at h
    subst h
    constructor
    · intro ts id hkey
      simp only [sqlKey] at hk
      split at hk
      · cases hk; cases hkey; rfl
      · cases hk; cases hkey
      · split at hk
        · cases hk
        · cases hk; cases hkey
      · cases hk
    · by_cases h5 : e.kind = 5
      · right
        have : eventType e.kind = .regular := by rw [h5]; decide
        simp only [sqlKey, this] at hk
        cases hk
        exact ⟨_, rfl⟩
      · left
        simp [delIdRows, delKeyRows, Gen.sqlDelIdsNotK5, Gen.sqlDelKeysNotK5, h5]

/-- ids determine the parameters (equal id ⇒ equal event) -/
def IdInjP (ps : List Params) : Prop := ∀ p ∈ ps, ∀ q ∈ ps, p.row.id = q.row.id → p = q

/-- **every inserted event's tombstones are in the tables, and nothing else is** -/
theorem fold_tombstones (qs : List Params) :
    ∀ (done : List Params) (db : Db), IdInjP (done ++ qs) → (∀ p ∈ done ++ qs, KeyOK p) →
      (∀ p ∈ done ++ qs, WFParams p) → TInv done db →
      (∀ p ∈ done, (∀ x ∈ p.delIds, x ∈ db.delIds) ∧ (∀ x ∈ p.delKeys, x ∈ db.delKeys)) →
      (∀ x ∈ db.delIds, ∃ p ∈ done, x ∈ p.delIds) → (∀ x ∈ db.delKeys, ∃ p ∈ done, x ∈ p.delKeys) →
      let db' := qs.foldl Db.insertOne db
      (∀ p ∈ done ++ qs, (∀ x ∈ p.delIds, x ∈ db'.delIds) ∧ (∀ x ∈ p.delKeys, x ∈ db'.delKeys)) ∧
      (∀ x ∈ db'.delIds, ∃ p ∈ done ++ qs, x ∈ p.delIds) ∧ (∀ x ∈ db'.delKeys, ∃ p ∈ done ++ qs, x ∈ p.delKeys) := by
  induction qs with
  | nil =>
    intro done db _ _ _ _ hc hs1 hs2
    simp only [List.append_nil, List.foldl_nil]
    exact ⟨hc, hs1, hs2⟩
  | cons q qs ih =>
    intro done db hinj htomb hwf hinv hc hs1 hs2
    simp only [List.foldl_cons]
    have hassoc : done ++ q :: qs = (done ++ [q]) ++ qs := by simp
    obtain ⟨g1, g2, g3, g4⟩ := insertOne_tombstones db q
    have hq : q ∈ done ++ q :: qs := by simp
    -- the table invariant for the extended list of processed events
    have hinv' : TInv (done ++ [q]) (db.insertOne q) := by
      apply insertOne_inv (done ++ [q]) db q (by simp) (hwf q hq)
      exact ⟨hinv.keys, fun r hr => by
        obtain ⟨p, hp, rest⟩ := hinv.src r hr
        exact ⟨p, List.mem_append.2 (Or.inl hp), rest⟩, hinv.tagKeys, hinv.payKeys⟩
    have hcq : (∀ x ∈ q.delIds, x ∈ (db.insertOne q).delIds) ∧ (∀ x ∈ q.delKeys, x ∈ (db.insertOne q).delKeys) := by
      cases hf : db.events.find? (fun r => r.key == q.row.key) with
      | none => exact insertOne_own_tombstones db q (Or.inl hf)
      | some old =>
        by_cases hr : upsertReplaces old q.row = true
        · exact insertOne_own_tombstones db q (Or.inr ⟨old, hf, hr⟩)
        · -- not executed: the stored row has q's key
          rcases (htomb q hq).tombReg with ⟨e1, e2⟩ | ⟨ts, hk⟩
          · rw [e1, e2]; simp
          · -- q is stored under (ts, id): the row there carries q's id, so it is q itself, inserted earlier
            have holdk : old.key = q.row.key := by have := List.find?_some hf; simpa using this
            have hold : old ∈ db.events := List.mem_of_find?_eq_some hf
            obtain ⟨p0, hp0, hrow, _, _⟩ := hinv.src old hold
            have hp0' : p0 ∈ done ++ q :: qs := List.mem_append.2 (Or.inl hp0)
            have hsame : p0 = q := by
              apply hinj p0 hp0' q hq
              exact (htomb p0 hp0').regId ts q.row.id (by rw [hrow, holdk, hk])
            subst hsame
            obtain ⟨c1, c2⟩ := hc p0 hp0
            exact ⟨fun x hx => g1 x (c1 x hx), fun x hx => g2 x (c2 x hx)⟩
    have := ih (done ++ [q]) (db.insertOne q) (by rw [← hassoc]; exact hinj) (by rw [← hassoc]; exact htomb)
      (by rw [← hassoc]; exact hwf) hinv'
      (by
        intro p hp
        rcases List.mem_append.1 hp with hp | hp
        · obtain ⟨c1, c2⟩ := hc p hp
          exact ⟨fun x hx => g1 x (c1 x hx), fun x hx => g2 x (c2 x hx)⟩
        · simp at hp; subst hp; exact hcq)
      (by
        intro x hx
        rcases g3 x hx with h | h
        · obtain ⟨p, hp, hxp⟩ := hs1 x h; exact ⟨p, List.mem_append.2 (Or.inl hp), hxp⟩
        · exact ⟨q, by simp, h⟩)
      (by
        intro x hx
        rcases g4 x hx with h | h
        · obtain ⟨p, hp, hxp⟩ := hs2 x h; exact ⟨p, List.mem_append.2 (Or.inl hp), hxp⟩
        · exact ⟨q, by simp, h⟩)
    rw [hassoc]
    exact this

/-- **C06, the tombstone tables after any history**: exactly the tombstones of the inserted events -/
theorem tombstones_after_history (batches : List (List Event)) (hlow : ∀ e ∈ batches.flatten, LowerHex e)
    (hinj : IdInjP (paramsOf batches.flatten)) :
    (∀ x, x ∈ (batches.foldl Db.insertBatch {}).delIds ↔ ∃ p ∈ paramsOf batches.flatten, x ∈ p.delIds) ∧
    (∀ x, x ∈ (batches.foldl Db.insertBatch {}).delKeys ↔ ∃ p ∈ paramsOf batches.flatten, x ∈ p.delKeys) := by
  rw [batches_eq_one]
  have hkey : ∀ p ∈ paramsOf batches.flatten, KeyOK p := by
    intro p hp
    obtain ⟨e, he, hb⟩ := List.mem_filterMap.1 hp
    exact buildParams_keyOK e p hb (hlow e he)
  obtain ⟨c, s1, s2⟩ := fold_tombstones (paramsOf batches.flatten) [] {} (by simpa using hinj) (by simpa using hkey)
    (by simpa using paramsOf_wf batches.flatten) (inv_empty _) (by simp) (by simp) (by simp)
  simp only [List.nil_append] at c s1 s2
  exact ⟨fun x => ⟨s1 x, fun ⟨p, hp, hx⟩ => (c p hp).1 x hx⟩, fun x => ⟨s2 x, fun ⟨p, hp, hx⟩ => (c p hp).2 x hx⟩⟩

/-- which (id, author) pairs a deletion request names: every `e` tag with at least two elements whose value is hex -/
theorem delIdRows_mem (d : Event) (pk : String) (x : String × String) :
    x ∈ delIdRows d pk ↔ d.kind = 5 ∧ x.2 = pk ∧
      ∃ t ∈ d.tags, 2 ≤ t.length ∧ t.headD "" = "e" ∧ hexNorm (t.getD 1 "") = some x.1 := by
  obtain ⟨a, b⟩ := x
  unfold delIdRows
  by_cases h5 : d.kind = 5
  · have c5 : Gen.sqlDelIdsNotK5 d.kind = false := by simp [Gen.sqlDelIdsNotK5, h5]
    simp only [c5, Bool.false_eq_true, if_false, List.mem_filterMap]
    simp only [h5, true_and]
    constructor
    · rintro ⟨t, ht, h⟩
      by_cases h1 : ((t.length : Int) < 2)
      · have c1 : Gen.sqlDelIdsArity (t.length : Int) = true := by simp [Gen.sqlDelIdsArity, h1]
        simp only [c1, if_true] at h
        cases h
      · have c1 : Gen.sqlDelIdsArity (t.length : Int) = false := by simp [Gen.sqlDelIdsArity, h1]
        by_cases h2 : t.headD "" = "e"
        · have c2 : Gen.sqlDelIdsName (t.headD "") = false := by rw [h2]; rfl
          simp only [c1, c2, Bool.false_eq_true, if_false] at h
          cases hn : hexNorm (t.getD 1 "") with
          | none => rw [hn] at h; cases h
          | some id =>
            rw [hn] at h
            simp only [Option.map_some, Option.some.injEq, Prod.mk.injEq] at h
            exact ⟨h.2.symm, t, ht, by omega, h2, by rw [← h.1]; exact hn⟩
        · have c2 : Gen.sqlDelIdsName (t.headD "") = true := by
            simp only [Gen.sqlDelIdsName, bne_iff_ne, ne_eq]; exact h2
          simp only [c1, c2, Bool.false_eq_true, if_false, if_true] at h
          cases h
    · rintro ⟨hb, t, ht, hl, hn, hx⟩
      refine ⟨t, ht, ?_⟩
      have c1 : Gen.sqlDelIdsArity (t.length : Int) = false := by
        have : ¬ ((t.length : Int) < 2) := by omega
        simp [Gen.sqlDelIdsArity, this]
      have c2 : Gen.sqlDelIdsName (t.headD "") = false := by rw [hn]; rfl
      simp only [c1, c2, Bool.false_eq_true, if_false, hx, Option.map_some, hb]
  · have c5 : Gen.sqlDelIdsNotK5 d.kind = true := by simp [Gen.sqlDelIdsNotK5, h5]
    simp [c5, h5]

/-- **C06, when a row is hidden** — for every history, in either arrival order: a stored row is hidden from every
    query exactly when some inserted deletion request of the same author names its id in an `e` tag, or its address
    key in an `a` tag. -/
theorem hidden_iff_request (batches : List (List Event)) (hlow : ∀ e ∈ batches.flatten, LowerHex e)
    (hinj : IdInjP (paramsOf batches.flatten)) (r : ERow) :
    (batches.foldl Db.insertBatch {}).hidden r = true ↔
      ∃ p ∈ paramsOf batches.flatten, (r.key, r.pubkey) ∈ p.delKeys ∨ (r.id, r.pubkey) ∈ p.delIds := by
  obtain ⟨t1, t2⟩ := tombstones_after_history batches hlow hinj
  simp only [Db.hidden, Bool.or_eq_true, List.contains_iff_mem, t1, t2]
  constructor
  · rintro (⟨p, hp, h⟩ | ⟨p, hp, h⟩)
    · exact ⟨p, hp, Or.inl h⟩
    · exact ⟨p, hp, Or.inr h⟩
  · rintro ⟨p, hp, h | h⟩
    · exact Or.inl ⟨p, hp, h⟩
    · exact Or.inr ⟨p, hp, h⟩

end Moc.C06
