/-
  C01 — Event authenticity: id and signature checked exactly per NIP-01 / BIP-340.

  Model: `serializeChars`, `escString`, `verify` (MocModel/Serialize.lean; the escape table is regenerated
  from the switch of `appendNIP01String`).  Spec: `SerSpec.nip01Canonical` (MocModel/Spec/Serialize.lean).
  SHA-256 and the BIP-340 check are parameters: the cryptographic clauses ("every correctly signed event is
  authentic", "changing a signed field breaks it") rest on collision resistance / unforgeability and are
  validated on every generated signature, not proved.
-/
import MocModel.Spec.Serialize

set_option linter.unusedSimpArgs false

namespace Moc.C01
open Moc Moc.SerSpec

theorem serialize_source_pinned : serializeActualSource = serializeExpectedSource := by rfl

theorem char_of_toNat (c : Char) (n : Nat) (h : c.toNat = n) : c = Char.ofNat n := by
  rw [← h]; exact (Char.ofNat_toNat c).symm

/-- **C01, per character**: for EVERY character the serializer writes exactly what NIP-01 prescribes — one
    of the seven mandated escapes, `\u00xx` for the other C0 controls, the character itself otherwise
    (so `<`, `>`, `&`, U+2028, U+2029, DEL and all of the astral planes are verbatim). -/
theorem escRune_eq_canonChar (c : Char) : escRune c = canonChar c := by
  unfold escRune canonChar mandatedEscape escTable
  simp only [Gen.escCase0, Gen.escCase1, Gen.escCase2, Gen.escCase3, Gen.escCase4, Gen.escCase5, Gen.escCase6,
    Gen.escOut0, Gen.escOut1, Gen.escOut2, Gen.escOut3, Gen.escOut4, Gen.escOut5, Gen.escOut6, Gen.escControl, List.lookup]
  by_cases h0 : c.toNat = 34
  · have := char_of_toNat c 34 h0; subst this; decide
  by_cases h1 : c.toNat = 92
  · have := char_of_toNat c 92 h1; subst this; decide
  by_cases h2 : c.toNat = 10
  · have := char_of_toNat c 10 h2; subst this; decide
  by_cases h3 : c.toNat = 13
  · have := char_of_toNat c 13 h3; subst this; decide
  by_cases h4 : c.toNat = 9
  · have := char_of_toNat c 9 h4; subst this; decide
  by_cases h5 : c.toNat = 8
  · have := char_of_toNat c 8 h5; subst this; decide
  by_cases h6 : c.toNat = 12
  · have := char_of_toNat c 12 h6; subst this; decide
  -- no table entry and no mandated escape
  have n0 : ((c.toNat : Int) == 34) = false := by simp; omega
  have n1 : ((c.toNat : Int) == 92) = false := by simp; omega
  have n2 : ((c.toNat : Int) == 10) = false := by simp; omega
  have n3 : ((c.toNat : Int) == 13) = false := by simp; omega
  have n4 : ((c.toNat : Int) == 9) = false := by simp; omega
  have n5 : ((c.toNat : Int) == 8) = false := by simp; omega
  have n6 : ((c.toNat : Int) == 12) = false := by simp; omega
  have c0 : ¬ c = '"' := fun h => h0 (by rw [h]; rfl)
  have c1 : ¬ c = '\\' := fun h => h1 (by rw [h]; rfl)
  have c2 : ¬ c = '\n' := fun h => h2 (by rw [h]; rfl)
  have c3 : ¬ c = '\r' := fun h => h3 (by rw [h]; rfl)
  have c4 : ¬ c = '\t' := fun h => h4 (by rw [h]; rfl)
  have c5 : ¬ c = '\x08' := fun h => h5 (by rw [h]; rfl)
  have c6 : ¬ c = '\x0c' := fun h => h6 (by rw [h]; rfl)
  simp only [n0, n1, n2, n3, n4, n5, n6, c0, c1, c2, c3, c4, c5, c6, if_false]
  by_cases hlt : c.toNat < 32
  · have : ((c.toNat : Int) < 32) := by omega
    simp [hlt, this]
  · have : ¬ ((c.toNat : Int) < 32) := by omega
    simp [hlt, this]

theorem escString_eq (s : String) : escString s = canonString s := by
  unfold escString canonString
  have h1 : Gen.quoteOpen.toList = ['"'] := by decide
  have h2 : Gen.quoteClose.toList = ['"'] := by decide
  rw [h1, h2]
  have : s.toList.flatMap escRune = s.toList.flatMap canonChar := by
    congr 1; funext c; exact escRune_eq_canonChar c
  simp [this]

/-- **C01, canonical serialization**: for EVERY event (all Unicode scalar values in content and tag values,
    all kinds, timestamps and tag shapes) the serialized form that is hashed is the NIP-01 canonical form. -/
theorem serialize_eq_canonical (e : Event) : serializeChars e = nip01Canonical e := by
  unfold serializeChars nip01Canonical canonTags
  have h0 : Gen.serHead.toList = "[0,".toList := by decide
  have ht : (e.tags.map fun t => '[' :: joinComma (t.map escString) ++ [']']) =
      (e.tags.map fun t => '[' :: joinComma (t.map canonString) ++ [']']) := by
    apply List.map_congr_left
    intro t _
    have : t.map escString = t.map canonString := List.map_congr_left (fun s _ => escString_eq s)
    rw [this]
  rw [h0, ht, escString_eq, escString_eq]

/-- **C01, the verdict of `Verify`**: an event is reported authentic exactly when its id decodes to the hash
    of its serialization, its pubkey and signature decode and parse, and the BIP-340 check succeeds. -/
theorem verify_true_iff (hashHex : String) (o : SigOracle) (e : Event) :
    verify hashHex o e = .ok true ↔
      (∃ idBin, hexDecode e.id.toList = some idBin ∧ hexDecode hashHex.toList = some idBin) ∧
      (hexDecode e.pubkey.toList).isSome ∧ o.pubkeyParses = true ∧
      (hexDecode e.sig.toList).isSome ∧ o.sigParses = true ∧ o.verifies = true := by
  unfold verify
  simp only [Gen.verifyIdMismatch]
  cases hid : hexDecode e.id.toList with
  | none => simp
  | some idBin =>
    by_cases heq : (some idBin == hexDecode hashHex.toList) = true
    · have heq' : hexDecode hashHex.toList = some idBin := (eq_of_beq heq).symm
      simp only [heq, Bool.not_true, Bool.false_eq_true, if_false]
      cases hpk : hexDecode e.pubkey.toList with
      | none => simp
      | some pk =>
        cases hp : o.pubkeyParses with
        | false => simp
        | true =>
          simp only [Bool.not_true, Bool.false_eq_true, if_false]
          cases hsg : hexDecode e.sig.toList with
          | none => simp
          | some sg =>
            cases hs : o.sigParses with
            | false => simp
            | true =>
              simp only [Bool.not_true, Bool.false_eq_true, if_false]
              constructor
              · intro h; exact ⟨⟨idBin, rfl, heq'⟩, by simp, trivial, by simp, trivial, VerifyRes.ok.inj h⟩
              · rintro ⟨_, _, _, _, _, hv⟩; rw [hv]
    · have hne : (some idBin == hexDecode hashHex.toList) = false := by simpa using heq
      simp only [hne, Bool.not_false, if_true]
      constructor
      · intro h; cases h
      · rintro ⟨⟨idBin', h1, h2⟩, _⟩
        cases h1
        rw [h2] at hne
        simp at hne

/-- **C01, altering the id** (or any change that makes the id differ from the hash of the serialization)
    makes the event not authentic. -/
theorem id_mismatch_not_authentic (hashHex : String) (o : SigOracle) (e : Event)
    (h : hexDecode e.id.toList ≠ hexDecode hashHex.toList) : verify hashHex o e ≠ .ok true := by
  intro hv
  obtain ⟨⟨idBin, h1, h2⟩, _⟩ := (verify_true_iff hashHex o e).1 hv
  exact h (by rw [h1, h2])

/-- **C01, a failing signature check** (altered sig or pubkey, as judged by BIP-340) makes it not authentic. -/
theorem bad_signature_not_authentic (hashHex : String) (o : SigOracle) (e : Event) (h : o.verifies = false) :
    verify hashHex o e ≠ .ok true := by
  intro hv
  have := ((verify_true_iff hashHex o e).1 hv).2.2.2.2.2
  rw [h] at this; cases this

example : String.ofList (serializeChars { id := "", pubkey := "ab", createdAt := 1, kind := 1, tags := [["t", "<&>"]], content := "a\"b\n\x01  ", sig := "" })
    = "[0,\"ab\",1,1,[[\"t\",\"<&>\"]],\"a\\\"b\\n\\u0001  \"]" := by decide

end Moc.C01
