/-
  C12, last clause: "every message the handler emits reaches the client as one JSON text frame decoding to the same
  message".  On JSON trees (the byte level is encoding/json's, trusted and runtime-validated): for EVERY server
  message whose integers fit the wire types, the decoder of its type applied to its encoding yields a message
  with the same wire content — identical, except that OK / CLOSED carry their text as `prefix ++ message`, which
  is all the wire carries.
-/
import MocProps.C10

namespace Moc.C12
open Moc Moc.C10

/-- the wire tag of a server message (the type a client unmarshals it into) -/
def srvTag : ServerMsg → String
  | .eose _ => "EOSE"
  | .event _ _ => "EVENT"
  | .notice _ => "NOTICE"
  | .ok _ _ _ _ => "OK"
  | .auth _ => "AUTH"
  | .count _ _ _ => "COUNT"
  | .closed _ _ _ => "CLOSED"

/-- what the wire carries of a message: OK / CLOSED texts are one string -/
def wire : ServerMsg → ServerMsg
  | .ok id acc p m => .ok id acc "" (p ++ m)
  | .closed sub p m => .closed sub "" (p ++ m)
  | m => m

/-- the integers of the message fit the Go types they are written from -/
def WireOK : ServerMsg → Prop
  | .event _ e => inInt64 e.createdAt = true ∧ inInt64 e.kind = true
  | .count _ n _ => (n : Int) ≤ uint64Max
  | _ => True

/-- **C12, outbound messages decode to the same message** -/
theorem outbound_decodes_same (m : ServerMsg) (h : WireOK m) :
    ∃ m', decodeServerAs (srvTag m) (encodeServerMsg m) = .ok m' ∧ wire m' = wire m := by
  cases m with
  | eose s => exact ⟨_, (simple_roundtrips s).1, rfl⟩
  | notice s => exact ⟨_, (simple_roundtrips s).2.1, rfl⟩
  | auth s => exact ⟨_, (simple_roundtrips s).2.2.1, rfl⟩
  | event sub e => exact ⟨_, (event_msgs_roundtrip e sub h.1 h.2).2.2, rfl⟩
  | count sub n a => exact ⟨_, count_roundtrip sub n a h, rfl⟩
  | ok id acc p t =>
    obtain ⟨p', t', h1, h2⟩ := ok_roundtrip id acc p t
    exact ⟨_, h1, by simp [wire, h2]⟩
  | closed sub p t =>
    obtain ⟨p', t', h1, h2⟩ := closed_roundtrip sub p t
    exact ⟨_, h1, by simp [wire, h2]⟩

/-- and the decoder of any OTHER type rejects the frame: a client cannot mistake one reply for another -/
theorem outbound_not_confused (m : ServerMsg) (t : String) (ht : t ∈ ["EOSE", "EVENT", "NOTICE", "OK", "AUTH", "COUNT", "CLOSED"])
    (hne : t ≠ srvTag m) : ∃ err, decodeServerAs t (encodeServerMsg m) = .error err := by
  simp only [List.mem_cons, List.not_mem_nil, or_false] at ht
  cases m <;> rcases ht with rfl | rfl | rfl | rfl | rfl | rfl | rfl <;>
    first
    | exact absurd rfl hne
    | (simp [decodeServerAs, decodeServerEOSE, decodeServerEvent, decodeServerNotice, decodeServerOK, decodeServerAuth,
        decodeServerCount, decodeServerClosed, encodeServerMsg, decStrArray, decRawArray, decStrsLoose, decStr, decBool, Except.map,
        Gen.arityServerEOSE, Gen.arityServerEvent, Gen.arityServerNotice, Gen.arityServerOK, Gen.arityServerAuth, Gen.arityServerCount,
        Gen.arityServerClosed, Gen.labelBadServerEOSE, Gen.labelBadServerEvent, Gen.labelBadServerNotice, Gen.labelBadServerOK,
        Gen.labelBadServerAuth, Gen.labelBadServerCount, Gen.labelBadServerClosed, Gen.labelEOSE, Gen.labelEvent, Gen.labelNotice,
        Gen.labelOK, Gen.labelAuth, Gen.labelCount, Gen.labelClosed, encodeEvent,
        bind, Except.bind, pure, Except.pure, throw, throwThe, MonadExceptOf.throw]
       <;> first | exact ⟨_, rfl⟩ | (split <;> exact ⟨_, rfl⟩) | (cases ‹Option Bool› <;> exact ⟨_, rfl⟩))

end Moc.C12
