/-
  C05, the reachable-state invariant: in every state reachable by insertions no retained event is named by a
  retained deletion request of its own author (`never_visible_with_own_deletion`), and the named events stay out
  while the request is retained (`deleted_stays_out`).  Invariant `Inv2` = distinct keys, no retained event blocked
  by the registry, every reference of a retained request registered; `add_inv2` carries it through `Add`
  (replace, register, delete referenced, evict), `delete_inv2` through `delete`.
-/
import MocProps.C04
import MocProps.C05
set_option linter.unusedSimpArgs false
set_option linter.unusedVariables false
namespace Moc.C05
open Moc Moc.CacheL Moc.C04

/-- `x` is named by a registered deletion reference of its own author (by the key it is stored under, or by id) -/
def Blocked (c : Cache) (x : Event) : Bool := c.isDeleted (eventKey x) x.pubkey || c.isDeleted x.id x.pubkey

/-- no retained event is blocked -/
def NotBlocked (c : Cache) : Prop := ∀ x ∈ c.evs, Blocked c x = false

/-- every reference of a retained deletion request is registered under its author and id -/
def RegComplete (c : Cache) : Prop := ∀ d ∈ c.evs, d.kind = 5 → ∀ k ∈ k5Refs d, (k, d.pubkey, d.id) ∈ c.deleted

structure Inv2 (c : Cache) : Prop where
  keys : (c.evs.map eventKey).Nodup
  nb : NotBlocked c
  rc : RegComplete c

theorem eventKey_k5 (d : Event) (h : d.kind = 5) : eventKey d = d.id := by
  have : eventType d.kind = .regular := by rw [h]; decide
  simp [eventKey, this]

theorem delete_deleted_subset (c : Cache) (k p : String) : ∀ t ∈ (c.delete k p).deleted, t ∈ c.deleted := by
  intro t ht
  unfold Cache.delete at ht
  split at ht
  · exact ht
  · split at ht
    · exact ht
    · simp only [] at ht
      split at ht
      · exact (List.mem_filter.1 ht).1
      · exact ht

theorem isDeleted_mono (c c' : Cache) (h : ∀ t ∈ c'.deleted, t ∈ c.deleted) (k p : String)
    (hf : c.isDeleted k p = false) : c'.isDeleted k p = false := by
  cases hd : c'.isDeleted k p with
  | false => rfl
  | true =>
    simp only [Cache.isDeleted, List.any_eq_true] at hd
    obtain ⟨t, ht, htk⟩ := hd
    have : c.isDeleted k p = true := by
      simp only [Cache.isDeleted, List.any_eq_true]; exact ⟨t, h t ht, htk⟩
    rw [hf] at this; cases this

theorem blocked_mono (c c' : Cache) (h : ∀ t ∈ c'.deleted, t ∈ c.deleted) (x : Event)
    (hf : Blocked c x = false) : Blocked c' x = false := by
  simp only [Blocked, Bool.or_eq_false_iff] at hf ⊢
  exact ⟨isDeleted_mono c c' h _ _ hf.1, isDeleted_mono c c' h _ _ hf.2⟩

theorem lookup_key (c : Cache) (k : String) (x : Event) (h : c.lookup k = some x) : eventKey x = k := by
  have := List.find?_some h
  simpa using this

/-- a `delete` keeps the registrations of the deletion requests that stay -/
theorem delete_keeps_registration (c : Cache) (k p : String) (hk : (c.evs.map eventKey).Nodup) (d : Event)
    (hd : d ∈ (c.delete k p).evs) (h5 : d.kind = 5) (t : String × String × String) (ht : t ∈ c.deleted)
    (htd : t.2.1 = d.pubkey ∧ t.2.2 = d.id) : t ∈ (c.delete k p).deleted := by
  unfold Cache.delete at hd ⊢
  cases hl : c.lookup k with
  | none => simpa [hl] using ht
  | some cand =>
    simp only [hl] at hd ⊢
    by_cases hfor : Gen.deleteForeign cand.pubkey p = true
    · simpa [hfor] using ht
    · simp only [hfor, Bool.false_eq_true, if_false] at hd ⊢
      by_cases hc5 : Gen.deleteIsKind5 cand.kind = true
      · simp only [hc5, if_true, List.mem_filter]
        refine ⟨ht, ?_⟩
        -- removed only if it carries cand's id; but then d would be cand, which is gone
        by_cases hid : t.2.2 = cand.id
        · exfalso
          have hck : cand.kind = 5 := by simpa [Gen.deleteIsKind5] using hc5
          have hkc := lookup_key c k cand hl
          have hdk : eventKey d = k := by
            rw [eventKey_k5 d h5, ← htd.2, hid, ← eventKey_k5 cand hck, hkc]
          have := (List.mem_filter.1 hd).2
          simp [hdk] at this
        · simp [hid]
      · simpa [hc5] using ht

theorem delete_inv2 (c : Cache) (k p : String) (h : Inv2 c) : Inv2 (c.delete k p) := by
  refine ⟨keys_nodup_delete c k p h.keys, ?_, ?_⟩
  · intro x hx
    exact blocked_mono c _ (delete_deleted_subset c k p) x (h.nb x (delete_mem c k p x hx))
  · intro d hd h5 r hr
    exact delete_keeps_registration c k p h.keys d hd h5 _ (h.rc d (delete_mem c k p d hd) h5 r hr) ⟨rfl, rfl⟩

theorem blocked_iff (c : Cache) (x : Event) :
    Blocked c x = true ↔ ∃ t ∈ c.deleted, (t.1 = eventKey x ∨ t.1 = x.id) ∧ t.2.1 = x.pubkey := by
  simp only [Blocked, Cache.isDeleted, Bool.or_eq_true, List.any_eq_true, Bool.and_eq_true, beq_iff_eq]
  constructor
  · rintro (⟨t, ht, h1, h2⟩ | ⟨t, ht, h1, h2⟩)
    · exact ⟨t, ht, Or.inl h1, h2⟩
    · exact ⟨t, ht, Or.inr h1, h2⟩
  · rintro ⟨t, ht, h1 | h1, h2⟩
    · exact Or.inl ⟨t, ht, h1, h2⟩
    · exact Or.inr ⟨t, ht, h1, h2⟩

theorem addKind5_deleted_mem (c : Cache) (e : Event) (t : String × String × String) :
    t ∈ (c.addKind5 e).deleted ↔ t ∈ c.deleted ∨ (t.1 ∈ k5Refs e ∧ t.2.1 = e.pubkey ∧ t.2.2 = e.id) := by
  unfold Cache.addKind5
  simp only
  generalize k5Refs e = refs
  induction refs generalizing c with
  | nil => simp
  | cons r rs ih =>
    simp only [List.foldl_cons]
    have := ih { c with deleted := if c.deleted.contains (r, e.pubkey, e.id) then c.deleted else (r, e.pubkey, e.id) :: c.deleted }
    simp only [] at this
    rw [this]
    constructor
    · rintro (h | ⟨h1, h2, h3⟩)
      · split at h
        · exact Or.inl h
        · rcases List.mem_cons.1 h with rfl | h
          · exact Or.inr ⟨by simp, rfl, rfl⟩
          · exact Or.inl h
      · exact Or.inr ⟨List.mem_cons_of_mem _ h1, h2, h3⟩
    · rintro (h | ⟨h1, h2, h3⟩)
      · left; split
        · exact h
        · exact List.mem_cons_of_mem _ h
      · rcases List.mem_cons.1 h1 with rfl | h1
        · left
          have : t = (t.1, e.pubkey, e.id) := by
            obtain ⟨a, b, c'⟩ := t; simp at h2 h3; simp [h2, h3]
          split
          · rename_i hc; rw [this]; simpa using hc
          · rw [this]; simp
        · exact Or.inr ⟨h1, h2, h3⟩

theorem delete_rc (c : Cache) (k p : String) (hk : (c.evs.map eventKey).Nodup) (h : RegComplete c) :
    RegComplete (c.delete k p) := by
  intro d hd h5 r hr
  exact delete_keeps_registration c k p hk d hd h5 _ (h d (delete_mem c k p d hd) h5 r hr) ⟨rfl, rfl⟩

/-- **C05, the invariant is kept by every insertion** -/
theorem add_inv2 (c : Cache) (e : Event) (h : Inv2 c) : Inv2 (c.add e).1 := by
  unfold Cache.add
  by_cases heph : (eventType e.kind == EventType.ephemeral) = true
  · simpa [heph] using h
  · simp only [heph, Bool.false_eq_true, if_false]
    by_cases hb : Gen.addBlocked (c.isDeleted (eventKey e) e.pubkey) (c.isDeleted e.id e.pubkey) = true
    · simpa [hb] using h
    · simp only [hb, Bool.false_eq_true, if_false]
      have hnb : Blocked c e = false := by simpa [Blocked, Gen.addBlocked] using hb
      -- phase A: `addEv`
      have hA : ∀ c1, c.addEv (eventKey e) e = (c1, true) →
          (c1.evs.map eventKey).Nodup ∧ NotBlocked c1 ∧
          (∀ d ∈ c1.evs, d ≠ e → d.kind = 5 → ∀ k ∈ k5Refs d, (k, d.pubkey, d.id) ∈ c1.deleted) := by
        intro c1 hadd
        unfold Cache.addEv at hadd
        have key : ∀ cb : Cache, Inv2 cb → (∀ t ∈ cb.deleted, t ∈ c.deleted) → (∀ x ∈ cb.evs, eventKey x ≠ eventKey e) →
            c1 = { cb with evs := e :: cb.evs } →
            (c1.evs.map eventKey).Nodup ∧ NotBlocked c1 ∧
            (∀ d ∈ c1.evs, d ≠ e → d.kind = 5 → ∀ k ∈ k5Refs d, (k, d.pubkey, d.id) ∈ c1.deleted) := by
          intro cb hcb hsub hfresh hc1
          subst hc1
          refine ⟨?_, ?_, ?_⟩
          · simp only [List.map_cons, List.nodup_cons]
            refine ⟨?_, hcb.keys⟩
            intro hm
            obtain ⟨x, hx, hxk⟩ := List.mem_map.1 hm
            exact hfresh x hx hxk
          · intro x hx
            rcases List.mem_cons.1 hx with rfl | hx
            · exact blocked_mono c _ hsub x hnb
            · exact hcb.nb x hx
          · intro d hd hne h5 k hk
            rcases List.mem_cons.1 hd with rfl | hd
            · exact absurd rfl hne
            · exact hcb.rc d hd h5 k hk
        cases hl : c.lookup (eventKey e) with
        | none =>
          simp only [hl] at hadd
          cases hadd
          exact key c h (fun t ht => ht) (lookup_none c _ hl) rfl
        | some old =>
          simp only [hl] at hadd
          split at hadd
          · cases hadd
          · cases hadd
            have hown := delete_own c (eventKey e) old hl
            refine key (c.delete (eventKey e) old.pubkey) (delete_inv2 c _ _ h) (delete_deleted_subset c _ _) ?_ rfl
            intro x hx
            rw [hown] at hx
            have := (List.mem_filter.1 hx).2
            simpa using this
      cases hadd : c.addEv (eventKey e) e with
      | mk c1 b =>
        cases b with
        | false => simpa using h
        | true =>
          obtain ⟨hk1, hnb1, hrc1⟩ := hA c1 hadd
          simp only []
          -- phase B: the deletion request's own processing
          have hB : Inv2 (if Gen.addIsKind5 e.kind = true then (c1.addKind5 e).deleteByKind5 e else c1) := by
            by_cases h5 : Gen.addIsKind5 e.kind = true
            · simp only [h5, if_true]
              have hk5 : e.kind = 5 := by simpa [Gen.addIsKind5] using h5
              -- after registering: complete, keys as before
              have hrcA : RegComplete (c1.addKind5 e) := by
                intro d hd hd5 k hk
                rw [addKind5_deleted_mem]
                by_cases hde : d = e
                · subst hde; exact Or.inr ⟨hk, rfl, rfl⟩
                · exact Or.inl (hrc1 d hd hde hd5 k hk)
              have hP := deleteByKind5_props
                (fun c' => (c'.evs.map eventKey).Nodup ∧ RegComplete c' ∧ (∀ t ∈ c'.deleted, t ∈ (c1.addKind5 e).deleted) ∧
                  (∀ x ∈ c'.evs, x ∈ c1.evs))
                (c1.addKind5 e) e
                (fun c' k hc' => ⟨keys_nodup_delete c' k _ hc'.1, delete_rc c' k _ hc'.1 hc'.2.1,
                  fun t ht => hc'.2.2.1 t (delete_deleted_subset c' k _ t ht),
                  fun x hx => hc'.2.2.2 x (delete_mem c' k _ x hx)⟩)
                ⟨hk1, hrcA, fun t ht => ht, fun x hx => hx⟩
              obtain ⟨p1, p2, p3, p4⟩ := hP
              refine ⟨p1, ?_, p2⟩
              intro x hx
              cases hbx : Blocked ((c1.addKind5 e).deleteByKind5 e) x with
              | false => rfl
              | true =>
                exfalso
                obtain ⟨t, ht, href, hpk⟩ := (blocked_iff _ x).1 hbx
                rcases (addKind5_deleted_mem c1 e t).1 (p3 t ht) with hold | ⟨hr, hp, _⟩
                · have : Blocked c1 x = true := (blocked_iff c1 x).2 ⟨t, hold, href, hpk⟩
                  rw [hnb1 x (p4 x hx)] at this; cases this
                · have hgone := deleteByKind5_removes (c1.addKind5 e) e x hk1 (by rw [← hpk, hp])
                    (by rcases href with h' | h'
                        · exact Or.inl (h' ▸ hr)
                        · exact Or.inr (h' ▸ hr))
                  exact hgone hx
            · simp only [h5, Bool.false_eq_true, if_false]
              have hne5 : e.kind ≠ 5 := by simpa [Gen.addIsKind5] using h5
              refine ⟨hk1, hnb1, ?_⟩
              intro d hd hd5 k hk
              exact hrc1 d hd (fun hde => hne5 (hde ▸ hd5)) hd5 k hk
          -- phase C: eviction
          generalize (if Gen.addIsKind5 e.kind = true then (c1.addKind5 e).deleteByKind5 e else c1) = c2 at hB ⊢
          split
          · split
            · exact delete_inv2 _ _ _ hB
            · exact hB
          · exact hB

theorem inv2_empty (cap : Int) : Inv2 { cap := cap } :=
  ⟨List.nodup_nil, (fun x hx => by cases hx), (fun d hd => by cases hd)⟩

theorem run_inv2 (c : Cache) (es : List Event) (h : Inv2 c) : Inv2 (run c es) := by
  induction es generalizing c with
  | nil => exact h
  | cons e es ih => exact ih _ (add_inv2 c e h)

/-- **C05, never together — for every history.**  In every state reachable by insertions, no retained event is
    named (by the key it is stored under — its id, or its address — or by its id) by a retained deletion request
    of its own author; this holds whichever of the two arrived first. -/
theorem never_visible_with_own_deletion (cap : Int) (es : List Event) (x d : Event)
    (hx : x ∈ (run { cap := cap } es).evs) (hd : d ∈ (run { cap := cap } es).evs) (h5 : d.kind = 5)
    (hp : d.pubkey = x.pubkey) (href : eventKey x ∈ k5Refs d ∨ x.id ∈ k5Refs d) : False := by
  have hinv := run_inv2 { cap := cap } es (inv2_empty cap)
  have hnb := hinv.nb x hx
  have : Blocked (run { cap := cap } es) x = true := by
    rw [blocked_iff]
    rcases href with hr | hr
    · exact ⟨_, hinv.rc d hd h5 _ hr, Or.inl rfl, hp⟩
    · exact ⟨_, hinv.rc d hd h5 _ hr, Or.inr rfl, hp⟩
  rw [hnb] at this; cases this

/-- and as long as the deletion request is retained, the events it names cannot come back -/
theorem deleted_stays_out (cap : Int) (es : List Event) (x d : Event)
    (hd : d ∈ (run { cap := cap } es).evs) (h5 : d.kind = 5) (hp : d.pubkey = x.pubkey)
    (href : eventKey x ∈ k5Refs d ∨ x.id ∈ k5Refs d) (hne : eventType x.kind ≠ .ephemeral) :
    (run { cap := cap } es).add x = (run { cap := cap } es, false) := by
  have hinv := run_inv2 { cap := cap } es (inv2_empty cap)
  apply blocked_while_deletion_retained _ x hne
  simp only [Cache.isDeleted, List.any_eq_true, Bool.and_eq_true, beq_iff_eq]
  rcases href with hr | hr
  · exact Or.inl ⟨_, hinv.rc d hd h5 _ hr, rfl, hp⟩
  · exact Or.inr ⟨_, hinv.rc d hd h5 _ hr, rfl, hp⟩

end Moc.C05
