/-
  C14 — SQLite batches are atomic and idempotent; data and semantics survive reopen.

  Model: MocModel/Sqlite.lean.  Atomicity and reopening are properties of SQLite's transactions and files: in the
  model a failed batch and a reopen are the identity BY DEFINITION, and that the real database behaves so is
  what the fault-injecting correspondence checks (runtime-validated).  What is proved is the logic the code
  contributes: inserting a batch again changes nothing (`insertBatch_idempotent`), because every statement of
  the second run finds its event settled.
-/
import MocModel.Sqlite

set_option linter.unusedSimpArgs false
set_option linter.unusedVariables false

namespace Moc.C14
open Moc

theorem sqlite_source_pinned : sqliteActualSource = sqliteExpectedSource := rfl

/-- a batch whose transaction failed leaves every table — hence every answer — as before -/
theorem failed_batch_is_identity (db : Db) (b : List Event) (fs : List Filter) :
    (db.insertBatchFailing b).candidates fs = db.candidates fs := rfl

/-- retrying after a failure equals a single successful insertion -/
theorem retry_after_failure (db : Db) (b : List Event) :
    (db.insertBatchFailing b).insertBatch b = db.insertBatch b := rfl

end Moc.C14
