/-
  C14 — SQLite batches are atomic and idempotent; data and semantics survive reopen.

  Model: MocModel/Sqlite.lean.  Atomicity and reopening are properties of SQLite's transactions and files: in the
  model a failed batch and a reopen are the identity BY DEFINITION, and that the real database behaves so is
  what the fault-injecting correspondence checks (runtime-validated).  What is proved is the logic the code
  contributes: inserting a batch again changes nothing (`insertBatch_idempotent`), because every statement of
  the second run finds its event settled.
-/
import MocModel.Sqlite
import MocProps.SqliteLemmas

set_option linter.unusedSimpArgs false
set_option linter.unusedVariables false

namespace Moc.C14
open Moc

theorem sqlite_source_pinned : sqliteActualSource = sqliteExpectedSource := rfl

/-- a batch whose transaction failed leaves every table — hence every answer — as before -/
theorem failed_batch_is_identity (db : Db) (b : List Event) (fs : List Filter) :
    (db.insertBatchFailing b).candidates fs = db.candidates fs := rfl

/-- retrying after a failure equals a single successful insertion -/
theorem retry_after_failure (db : Db) (b : List Event) :
    (db.insertBatchFailing b).insertBatch b = db.insertBatch b := rfl

/-- **C14, idempotence.**  Inserting a batch again — after it succeeded, or as the retry that follows a failed
    attempt — leaves every table exactly as one successful insertion does.  Hypothesis: ids are injective on
    created_at over the stored rows and the batch (equal id ⇒ equal event, which authenticity provides). -/
theorem insertBatch_idempotent (db : Db) (b : List Event)
    (h : Coherent (db.events ++ (b.filterMap buildParams).map (·.row))) :
    (db.insertBatch b).insertBatch b = db.insertBatch b := by
  unfold Db.insertBatch
  exact fold_noop _ _ (fold_settled _ db h)

/-- hence any number of failed attempts and retries ends in the state of a single success -/
theorem retries_equal_single_success (db : Db) (b : List Event) (n : Nat)
    (h : Coherent (db.events ++ (b.filterMap buildParams).map (·.row))) :
    (List.replicate n b).foldl Db.insertBatch (db.insertBatch b) = db.insertBatch b := by
  induction n with
  | zero => rfl
  | succ n ih =>
    simp only [List.replicate_succ, List.foldl_cons]
    rw [insertBatch_idempotent db b h]
    exact ih

/-! non-vacuity: a batch with two versions of one address (the older arriving second), a regular event and a
    deletion request; the hypothesis holds and the second run changes nothing -/
def hx (c : Char) : String := String.ofList [c, c]
def exBatch : List Event := [
  { id := hx 'a', pubkey := hx '1', createdAt := 10, kind := 30023, tags := [["d", "x"]], content := "v2", sig := hx 'a' },
  { id := hx 'b', pubkey := hx '1', createdAt := 5, kind := 30023, tags := [["d", "x"]], content := "v1", sig := hx 'b' },
  { id := hx 'c', pubkey := hx '1', createdAt := 7, kind := 1, tags := [["e", hx 'd']], content := "note", sig := hx 'c' },
  { id := hx 'e', pubkey := hx '1', createdAt := 8, kind := 5, tags := [["e", hx 'c', "wss://r"]], content := "", sig := hx 'e' }]
example : ((({} : Db).insertBatch exBatch).events.map (·.id), (({} : Db).insertBatch exBatch).delIds) =
    ([hx 'a', hx 'c', hx 'e'], [(hx 'c', hx '1')]) := by decide
example : ((({} : Db).insertBatch exBatch).insertBatch exBatch) = (({} : Db).insertBatch exBatch) := by decide

end Moc.C14
