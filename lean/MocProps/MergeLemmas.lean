/- helper lemmas about the association-list maps of MocModel/Merge.lean -/
import MocModel.Merge

namespace Moc
variable {β : Type}

theorem alGet_alErase_ne (l : List (String × β)) (k k' : String) (h : k' ≠ k) :
    alGet (alErase l k) k' = alGet l k' := by
  induction l with
  | nil => rfl
  | cons p ps ih =>
    obtain ⟨a, b⟩ := p
    simp only [alErase, alGet, List.filter_cons] at ih ⊢
    by_cases hp : a = k
    · have : (k' == a) = false := by rw [hp]; simpa using h
      simp [hp, List.lookup_cons, ih]
      rw [hp] at this; simp [this]
    · by_cases hk : k' = a
      · simp [hp, List.lookup_cons, hk]
      · have : (k' == a) = false := by simpa using hk
        simp [hp, List.lookup_cons, this, ih]

theorem alGet_alErase_self (l : List (String × β)) (k : String) : alGet (alErase l k) k = none := by
  induction l with
  | nil => rfl
  | cons p ps ih =>
    obtain ⟨a, b⟩ := p
    simp only [alErase, alGet, List.filter_cons] at ih ⊢
    by_cases hp : a = k
    · simp [hp, ih]
    · have : (k == a) = false := by simpa using (fun h : k = a => hp h.symm)
      simp [hp, List.lookup_cons, this, ih]

theorem alGet_alSet_self (l : List (String × β)) (k : String) (v : β) : alGet (alSet l k v) k = some v := by
  simp [alGet, alSet, List.lookup_cons]

theorem alGet_alSet_ne (l : List (String × β)) (k k' : String) (v : β) (h : k' ≠ k) :
    alGet (alSet l k v) k' = alGet l k' := by
  have h1 : (k' == k) = false := by simpa using h
  have := alGet_alErase_ne l k k' h
  simp only [alGet, alSet, alErase] at this ⊢
  simp [List.lookup_cons, h1, this]

end Moc
