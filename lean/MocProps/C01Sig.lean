import MocModel.Serialize
import MocModel.Spec.Serialize
import MocProps.C01

/-!
  C01, the signature half.  `Event.Verify` with nothing handed in (`verifyFull`: Lean SHA-256, Lean model of the
  signature library) reports authentic exactly when the id is the hash of the serialization and the library's
  check passes; the library's check is BIP-340 on every signature whose `s` is in range, and the out-of-range
  window (btcec v2.3.4 does not reject `s ≥ n`) is fewer than 2^129 of the 2^256 values.

  NOT proved (trusted base): `verifyFast = verifyRef` (Jacobian vs affine arithmetic over the 256-bit field) —
  executed against each other on the BIP's vectors and on one event in sixteen of every correspondence stream.
-/

namespace Moc.Bip340

/-! ### facts provable without field algebra: the range checks, and that the two versions agree on them -/

theorem verifyRef_sig_range (pk msg sig : List Nat)
    (h : (verifyRef pk msg sig).sigParses = true) :
    sig.length = 64 ∧ natOfBytes (sig.take 32) < p ∧ natOfBytes (sig.drop 32) < n := by
  unfold verifyRef at h
  split at h
  · simp at h
  · split at h
    · simp at h
    · split at h
      · simp at h
      · rename_i hl
        split at h
        · simp at h
        · rename_i hr
          refine ⟨by simpa using hl, ?_, ?_⟩ <;> omega

theorem verifyRef_pubkey_range (pk msg sig : List Nat)
    (h : (verifyRef pk msg sig).pubkeyParses = true) :
    pk.length = 32 ∧ natOfBytes pk < p ∧ (liftX (natOfBytes pk)).isSome = true := by
  unfold verifyRef at h
  split at h
  · simp at h
  · rename_i hl
    split at h
    · simp at h
    · rename_i px py hx
      refine ⟨by simpa using hl, ?_, by simp [hx]⟩
      unfold liftX at hx
      split at hx
      · simp at hx
      · omega

theorem verifyRef_verifies_parses (pk msg sig : List Nat)
    (h : (verifyRef pk msg sig).verifies = true) :
    (verifyRef pk msg sig).pubkeyParses = true ∧ (verifyRef pk msg sig).sigParses = true := by
  unfold verifyRef at h ⊢
  by_cases h1 : pk.length ≠ 32
  · simp [h1] at h
  · simp only [h1, if_false] at h ⊢
    cases h2 : liftX (natOfBytes pk) with
    | none => simp [h2] at h
    | some P =>
      obtain ⟨px, py⟩ := P
      simp only [h2] at h ⊢
      by_cases h3 : sig.length ≠ 64
      · simp [h3] at h
      · simp only [h3, if_false] at h ⊢
        by_cases h4 : natOfBytes (sig.take 32) ≥ p ∨ natOfBytes (sig.drop 32) ≥ n
        · simp [h4] at h
        · simp [h4]

/-- the fast version makes the same parse decisions as the reference (only the curve arithmetic differs) -/
theorem verifyFast_parses (pk msg sig : List Nat) :
    (verifyFast pk msg sig).pubkeyParses = (verifyRef pk msg sig).pubkeyParses ∧
    (verifyFast pk msg sig).sigParses = (verifyRef pk msg sig).sigParses := by
  unfold verifyFast verifyRef
  split
  · simp
  · split
    · simp
    · split
      · simp
      · split <;> simp

/-- the library agrees with the BIP (fast version) on every signature whose `s` is in range -/
theorem verifyLib_eq_of_s_lt (pk msg sig : List Nat) (hs : natOfBytes (sig.drop 32) < n) :
    verifyLib pk msg sig = verifyFast pk msg sig := by
  unfold verifyLib verifyFast
  split
  · rfl
  · split
    · rfl
    · split
      · rfl
      · by_cases hr : natOfBytes (sig.take 32) ≥ p
        · have : natOfBytes (sig.take 32) ≥ p ∨ natOfBytes (sig.drop 32) ≥ n := Or.inl hr
          rw [if_pos hr, if_pos this]
        · have : ¬ (natOfBytes (sig.take 32) ≥ p ∨ natOfBytes (sig.drop 32) ≥ n) := by omega
          rw [if_neg hr, if_neg this, Nat.mod_eq_of_lt hs]

/-- where they can differ, `s` is one of the fewer than 2^129 values `n ≤ s < 2^256`: an out-of-range `s` is
    accepted by the library exactly when `s - n` would be a valid `s` -/
theorem out_of_range_s_window : 2 ^ 256 - n < 2 ^ 129 := by decide

/-! kernel-evaluated sanity facts about the curve arithmetic (concrete values: these are tests run by the kernel,
    not universally quantified claims) -/

/-- the generator is the even-`y` point above its `x` -/
theorem liftX_gx_check : liftX gx = some (gx, gy) := by decide +kernel

set_option maxRecDepth 100000 in
/-- `n·G` is the point at infinity and `(n-1)·G = −G` (reference arithmetic) -/
theorem order_check : pmul G n = none ∧ pmul G (n - 1) = negPt G := by decide +kernel

set_option maxRecDepth 100000 in
/-- the Jacobian double-scalar multiplication agrees with the affine reference on two full-width scalars -/
theorem fast_ref_check :
    toAffine (jmul2 (gx, gy, 1) (gx, (p - gy) % p, 1)
      0xE907831F80848D1069A5371B402410364BDF1C5F8307B0084C55F1CE2DCA8215
      0x25F66A4A85EA8B71E482A74F382D2CE5EBEEE8FDB2172F477DF4900D310536C0)
    = padd (pmul G 0xE907831F80848D1069A5371B402410364BDF1C5F8307B0084C55F1CE2DCA8215)
        (pmul (negPt G) 0x25F66A4A85EA8B71E482A74F382D2CE5EBEEE8FDB2172F477DF4900D310536C0) := by
  decide +kernel

end Moc.Bip340

namespace Moc.C01
open Moc.Wire Moc.Bip340

/-- **C01, `Verify` end to end**: authentic ⇔ the id decodes to the SHA-256 of the serialization, pubkey and
    signature decode, and the library's parse and check of (pubkey, id bytes, signature) succeed. -/
theorem verifyFull_true_iff (e : Event) :
    verifyFull e = .ok true ↔
      ∃ idBin pk sg, hexDecode e.id.toList = some idBin ∧
        hexDecode (Sha256.hexHash (String.ofList (serializeChars e))).toList = some idBin ∧
        hexDecode e.pubkey.toList = some pk ∧ hexDecode e.sig.toList = some sg ∧
        verifyLib pk idBin sg = ⟨true, true, true⟩ := by
  unfold verifyFull
  rw [verify_true_iff]
  constructor
  · rintro ⟨⟨idBin, h1, h2⟩, h3, h4, h5, h6, h7⟩
    obtain ⟨pk, hpk⟩ := Option.isSome_iff_exists.1 h3
    obtain ⟨sg, hsg⟩ := Option.isSome_iff_exists.1 h5
    refine ⟨idBin, pk, sg, h1, h2, hpk, hsg, ?_⟩
    simp only [sigOracleOf, hpk, h1, hsg, Option.getD_some] at h4 h6 h7
    cases hv : verifyLib pk idBin sg with
    | mk a b c => rw [hv] at h4 h6 h7; simp_all
  · rintro ⟨idBin, pk, sg, h1, h2, hpk, hsg, hv⟩
    refine ⟨⟨idBin, h1, h2⟩, by simp [hpk], ?_, by simp [hsg], ?_, ?_⟩ <;>
      simp [sigOracleOf, hpk, h1, hsg, hv]

/-- with `s` in range, an authentic event carries a signature the BIP's algorithm (fast version) accepts -/
theorem verifyFull_true_bip340 (e : Event) (h : verifyFull e = .ok true) :
    ∃ idBin pk sg, hexDecode e.id.toList = some idBin ∧ hexDecode e.pubkey.toList = some pk ∧
      hexDecode e.sig.toList = some sg ∧
      (natOfBytes (sg.drop 32) < n → verifyFast pk idBin sg = ⟨true, true, true⟩) := by
  obtain ⟨idBin, pk, sg, h1, _, h3, h4, hv⟩ := (verifyFull_true_iff e).1 h
  exact ⟨idBin, pk, sg, h1, h3, h4, fun hs => by rw [← verifyLib_eq_of_s_lt pk idBin sg hs]; exact hv⟩

/-- a signature the library's check refuses makes the event not authentic, whatever the rest -/
theorem verifyFull_bad_signature (e : Event) (h : (sigOracleOf e).verifies = false) :
    verifyFull e ≠ .ok true :=
  bad_signature_not_authentic _ _ e h

/-- non-vacuity of the parse facts: the BIP's first test vector has a public key on the curve and `r`, `s` in range -/
example : (liftX 0xF9308A019258C31049344F85F89D5229B531C845836F99B08601F113BCE036F9).isSome = true ∧
    0xE907831F80848D1069A5371B402410364BDF1C5F8307B0084C55F1CE2DCA8215 < p ∧
    0x25F66A4A85EA8B71E482A74F382D2CE5EBEEE8FDB2172F477DF4900D310536C0 < n := by
  refine ⟨?_, by decide, by decide⟩
  decide +kernel

end Moc.C01
