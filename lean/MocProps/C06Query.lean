/-
  C06, the query: the row test of a filter's sub-select is the NIP-01 predicate on the stored event
  (`rowMatches_eq`, via `tagRows_mem`), hence after ANY history each filter selects exactly the visible stored
  events that match it (`candidates_eq`, `mem_selected`).
-/
import MocModel.Sqlite
import MocModel.Spec.Nip01
import MocProps.C06Tables
import MocProps.C06Tombs
import MocProps.C03
set_option linter.unusedSimpArgs false
set_option linter.unusedVariables false
namespace Moc.C06
open Moc Moc.C14

/-- a tag name as `ReqFilter.Valid` admits it: one ASCII letter -/
def Letter (k : String) : Prop := ∃ c : Char, k = String.ofList [c] ∧ isAsciiLetter k = true

theorem append_single_inj (a b x y : String) (ca cb : Char) (ha : a = String.ofList [ca]) (hb : b = String.ofList [cb])
    (h : a ++ x = b ++ y) : a = b ∧ x = y := by
  subst ha hb
  have := congrArg String.toList h
  simp only [String.toList_append, String.toList_ofList, List.cons_append, List.nil_append, List.cons.injEq] at this
  refine ⟨by rw [this.1], ?_⟩
  exact String.toList_injective this.2

theorem letter_utf8Size (c : Char) (h : (decide ('a' ≤ c) && decide (c ≤ 'z') || decide ('A' ≤ c) && decide (c ≤ 'Z')) = true) :
    c.utf8Size = 1 := by
  have hle : c.val ≤ 127 := by
    simp only [Bool.or_eq_true, Bool.and_eq_true, decide_eq_true_eq] at h
    rcases h with ⟨_, h2⟩ | ⟨_, h2⟩
    · have : c.val ≤ 'z'.val := h2
      exact UInt32.le_trans this (by decide)
    · have : c.val ≤ 'Z'.val := h2
      exact UInt32.le_trans this (by decide)
  simp [Char.utf8Size, hle]

/-- **the tag rows of an event answer `#k = v` exactly when the event has a tag named `k` with value `v`** -/
theorem tagRows_mem (e : Event) (key : SKey) (k v : String) (hk : Letter k) :
    (k ++ v, e.createdAt, key) ∈ tagRows e key ↔ ∃ t ∈ e.tags, tagName? t = some k ∧ tagValue t = v := by
  obtain ⟨ck, hck, hlet⟩ := hk
  simp only [tagRows, List.mem_eraseDups, List.mem_filterMap]
  constructor
  · rintro ⟨t, ht, h⟩
    cases t with
    | nil =>
      have c1 : Gen.sqlTagEmpty ((([] : List String).length : Nat) : Int) = true := by decide
      rw [if_pos c1] at h; cases h
    | cons n rest =>
      have c1 : Gen.sqlTagEmpty (((n :: rest).length : Nat) : Int) = false := by simp [Gen.sqlTagEmpty]; omega
      simp only [c1, Bool.false_eq_true, if_false, List.headD_cons] at h
      by_cases c2 : Gen.sqlTagNameLen (n.utf8ByteSize : Int) = true
      · simp only [c2, if_true] at h; cases h
      · have c2' : Gen.sqlTagNameLen (n.utf8ByteSize : Int) = false := by simpa using c2
        simp only [c2', Bool.false_eq_true, if_false] at h
        by_cases c3 : isAsciiLetter n = true
        · simp only [c3, Bool.not_true, Bool.false_eq_true, if_false, Option.some.injEq, Prod.mk.injEq, and_true] at h
          have hn : ∃ cn : Char, n = String.ofList [cn] := by
            unfold isAsciiLetter at c3
            cases hl : n.toList with
            | nil => rw [hl] at c3; cases c3
            | cons c rs =>
              cases rs with
              | nil => exact ⟨c, by rw [← hl]; simp⟩
              | cons d ds => rw [hl] at c3; cases c3
          obtain ⟨cn, hcn⟩ := hn
          have hinj := append_single_inj n k _ v cn ck hcn hck h
          refine ⟨n :: rest, ht, by simp [tagName?, hinj.1], ?_⟩
          rw [← hinj.2]
          cases rest with
          | nil => simp [tagValue, Gen.sqlTagHasValue]
          | cons w ws =>
            have c4 : Gen.sqlTagHasValue ((ws.length : Int) + 1 + 1) = true := by
              simp [Gen.sqlTagHasValue]; omega
            simp [tagValue, c4]
        · have c3' : isAsciiLetter n = false := by simpa using c3
          simp only [c3', Bool.not_false, if_true] at h; cases h
  · rintro ⟨t, ht, hn, hv⟩
    refine ⟨t, ht, ?_⟩
    cases t with
    | nil => simp [tagName?] at hn
    | cons n rest =>
      simp only [tagName?, Option.some.injEq] at hn
      subst hn
      have c1 : Gen.sqlTagEmpty (((n :: rest).length : Nat) : Int) = false := by simp [Gen.sqlTagEmpty]; omega
      have hsz : n.utf8ByteSize = 1 := by
        rw [hck]
        have h1 : (String.ofList [ck]).utf8ByteSize = ck.utf8Size := by simp [String.utf8ByteSize, List.utf8Encode]
        rw [h1]
        apply letter_utf8Size
        simpa [isAsciiLetter, hck] using hlet
      have c2 : Gen.sqlTagNameLen (n.utf8ByteSize : Int) = false := by simp [Gen.sqlTagNameLen, hsz]
      simp only [c1, c2, List.headD_cons, hlet, Bool.false_eq_true, if_false, Bool.not_true, Option.some.injEq,
        Prod.mk.injEq, and_true]
      congr 1
      rw [← hv]
      cases rest with
      | nil => simp [tagValue, Gen.sqlTagHasValue]
      | cons w ws =>
        have c4 : Gen.sqlTagHasValue ((ws.length : Int) + 1 + 1) = true := by
          simp [Gen.sqlTagHasValue]; omega
        simp [tagValue, c4]

/-- the filter's ids / authors are lower-case hex and its tag names single letters (`ReqFilter.Valid`) -/
structure FilterHexOK (f : Filter) : Prop where
  ids : ∀ l, f.ids = some l → ∀ x ∈ l, hexNorm x = some x
  authors : ∀ l, f.authors = some l → ∀ x ∈ l, hexNorm x = some x
  names : ∀ l, f.tags = some l → ∀ c ∈ l, Letter c.1

theorem mapM_hexNorm (l : List String) (h : ∀ x ∈ l, hexNorm x = some x) : l.mapM hexNorm = some l := by
  induction l with
  | nil => rfl
  | cons x xs ih =>
    rw [List.mapM_cons, h x (by simp), ih (fun y hy => h y (List.mem_cons_of_mem _ hy))]
    rfl

theorem normList_ok (o : Option (List String)) (h : ∀ l, o = some l → ∀ x ∈ l, hexNorm x = some x) :
    normList o = some o := by
  cases o with
  | none => rfl
  | some l => simp [normList, mapM_hexNorm l (h l rfl)]

/-- **C06, the row test is the NIP-01 predicate.**  For a stored row that came from the inserted event `e`, the
    `where` / `join` conditions of a filter's sub-select hold exactly when the row is not hidden and `e` matches
    the filter in the sense of NIP-01. -/
theorem rowMatches_eq (ps : List Params) (db : Db) (hinv : TInv ps db) (f : Filter) (hf : FilterHexOK f)
    (r : ERow) (hr : r ∈ db.events) (e : Event) (p : Params) (hp : buildParams e = some p) (hlow : LowerHex e)
    (hrow : p.row = r)
    (htags : ∀ t, (t ∈ db.tags ∧ t.2.2 = r.key) ↔ (t ∈ p.tagRows ∧ t.2.2 = r.key)) :
    db.rowMatches f r = some (!db.hidden r && nip01MatchB f e) := by
  obtain ⟨e1, e2, e3, e4, e5⟩ := buildParams_payload e p hp hlow
  rw [hrow] at e2 e3 e4 e5
  have htr : p.tagRows = tagRows e r.key := by
    unfold buildParams at hp
    split at hp
    · cases hp; simp only [] at hrow ⊢; rw [← hrow]
    · cases hp
  simp only [Db.rowMatches, normList_ok _ hf.ids, normList_ok _ hf.authors, Db.rowTest]
  congr 1
  have hsi : sinceTest f.since r.createdAt = sinceOkB f.since e.createdAt := by
    cases f.since <;> simp [sinceTest, sinceOkB, e4]
  have hun : untilTest f.until_ r.createdAt = untilOkB f.until_ e.createdAt := by
    cases f.until_ <;> simp [untilTest, untilOkB, e4]
  have htg : db.tagsTest f.tags r = tagsOkB f.tags e := by
    cases hft : f.tags with
    | none => rfl
    | some conds =>
      simp only [Db.tagsTest, tagsOkB]
      apply C03.all_congr_on
      intro c hc
      have hlet := hf.names conds hft c hc
      rw [Bool.eq_iff_iff]
      simp only [List.any_eq_true, List.contains_iff_mem, hasTagB, Bool.and_eq_true, beq_iff_eq]
      constructor
      · rintro ⟨v, hv, hm⟩
        have := (htags (c.1 ++ v, r.createdAt, r.key)).1 ⟨hm, rfl⟩
        rw [htr, e4] at this
        obtain ⟨t, ht, hn, hval⟩ := (tagRows_mem e r.key c.1 v hlet).1 this.1
        exact ⟨t, ht, hn, by rw [hval]; exact hv⟩
      · rintro ⟨t, ht, hn, hval⟩
        refine ⟨tagValue t, hval, ?_⟩
        have := (tagRows_mem e r.key c.1 (tagValue t) hlet).2 ⟨t, ht, hn, rfl⟩
        rw [← htr, ← e4] at this
        exact ((htags _).2 ⟨this, rfl⟩).1
  rw [hsi, hun, htg, e2, e3, e5]
  simp only [nip01MatchB]
  cases db.hidden r <;> cases listedOr true f.ids e.id <;> cases listedOr true f.authors e.pubkey <;>
    cases listedOr true f.kinds e.kind <;> cases tagsOkB f.tags e <;> cases sinceOkB f.since e.createdAt <;>
    cases untilOkB f.until_ e.createdAt <;> rfl

theorem mapM_some {α β} (g : α → Option β) (h : α → β) (l : List α) (hg : ∀ x ∈ l, g x = some (h x)) :
    l.mapM g = some (l.map h) := by
  induction l with
  | nil => rfl
  | cons x xs ih =>
    rw [List.mapM_cons, hg x (by simp), ih (fun y hy => hg y (List.mem_cons_of_mem _ hy))]
    rfl

/-- the event a stored row stands for -/
def evOf (db : Db) (r : ERow) : Event := (db.eventOf r).getD default

/-- what a filter selects from the tables: the visible stored events that match it -/
def selected (db : Db) (f : Filter) : List Event :=
  ((db.events.map fun r => (r, !db.hidden r && nip01MatchB f (evOf db r))).filter (·.2)).filterMap (fun p => db.eventOf p.1)

/-- **C06, each query equals the filter spec over stored, live events — every history.**  From the empty
    database, after any sequence of batches of lower-case-hex events and for every list of filters with lower-case
    hex ids/authors and single-letter tag names: the query is buildable and each filter's sub-select yields exactly
    the stored events (`tables_after_history`: one per key, the newest version - `every_event_settled`) that are
    not hidden by a deletion request (`hidden_iff_request`) and match the filter per NIP-01, with the filter's
    limit; `Spec/Sqlite.lean`'s `judgeAnswer` then says what a valid merged answer of these is. -/
theorem candidates_eq (batches : List (List Event)) (hlow : ∀ e ∈ batches.flatten, LowerHex e)
    (fs : List Filter) (hfs : ∀ f ∈ fs, FilterHexOK f) :
    (batches.foldl Db.insertBatch {}).candidates fs =
      some (fs.map fun f => { ms := selected (batches.foldl Db.insertBatch {}) f, limit := filterLimit f }) := by
  have hinv := tables_after_history batches
  generalize hdb : batches.foldl Db.insertBatch {} = db at hinv
  unfold Db.candidates
  apply mapM_some
  intro f hf
  have hrows : db.events.mapM (fun r => (db.rowMatches f r).map fun b => (r, b)) =
      some (db.events.map fun r => (r, !db.hidden r && nip01MatchB f (evOf db r))) := by
    apply mapM_some
    intro r hr
    obtain ⟨p, hp, hrow, hpay, htags⟩ := hinv.src r hr
    obtain ⟨e, he, hb⟩ := List.mem_filterMap.1 hp
    have hl := hlow e he
    have hev : evOf db r = e := by
      obtain ⟨e1, e2, e3, e4, e5⟩ := buildParams_payload e p hb hl
      simp only [evOf, Db.eventOf, hpay, Option.map_some, Option.getD_some]
      rw [← hrow, e1, e2, e3, e4, e5]
    rw [rowMatches_eq _ db hinv f (hfs f hf) r hr e p hb hl hrow htags, hev]
    rfl
  simp only [hrows, selected]
  rfl

/-- who is in a filter's selection -/
theorem mem_selected (db : Db) (f : Filter) (e : Event) :
    e ∈ selected db f ↔ ∃ r ∈ db.events, db.eventOf r = some e ∧ db.hidden r = false ∧ nip01MatchB f (evOf db r) = true := by
  simp only [selected, List.mem_filterMap, List.mem_filter, List.mem_map]
  constructor
  · rintro ⟨⟨r, b⟩, ⟨⟨r', hr', heq⟩, hb⟩, he⟩
    simp only [Prod.mk.injEq] at heq
    obtain ⟨rfl, rfl⟩ := heq
    simp only [Bool.and_eq_true, Bool.not_eq_true'] at hb
    exact ⟨r', hr', he, hb.1, hb.2⟩
  · rintro ⟨r, hr, he, hh, hm⟩
    exact ⟨(r, !db.hidden r && nip01MatchB f (evOf db r)), ⟨⟨r, hr, rfl⟩, by simp [hh, hm]⟩, he⟩

/-! non-vacuity of the hypotheses of `candidates_eq` -/
def exE1 : Event := { id := "aa", pubkey := "bb", createdAt := 5, kind := 1, tags := [["t", "x"]], content := "c", sig := "cc" }
def exF1 : Filter := { ids := some ["aa"], tags := some [("t", ["x", "y"])], limit := some 1 }
example : LowerHex exE1 := ⟨by decide, by decide, by decide⟩
example : FilterHexOK exF1 := by
  refine ⟨?_, ?_, ?_⟩
  · intro l hl x hx; simp [exF1] at hl; subst hl; simp at hx; subst hx; decide
  · intro l hl; simp [exF1] at hl
  · intro l hl c hc; simp [exF1] at hl; subst hl; simp at hc; subst hc; exact ⟨'t', rfl, by decide⟩
example : ((([[exE1]] : List (List Event)).foldl Db.insertBatch {}).candidates [exF1]).map (fun l => l.map (fun c => (c.ms.map (·.id), c.limit))) =
    some [(["aa"], some 1)] := by decide
end Moc.C06
