/-
  Helper lemmas about the cache model (MocModel/Cache.lean), shared by C03, C04, C05, C16.
-/
import MocModel.Cache
import MocModel.Spec.Nip01

set_option linter.unusedSimpArgs false

namespace Moc.CacheL
open Moc

/-! ### `delete` only ever removes events (and never changes the capacity) -/

theorem delete_cap (c : Cache) (k p : String) : (c.delete k p).cap = c.cap := by
  unfold Cache.delete
  split
  · rfl
  · split <;> rfl

/-- the events after a `delete` are the events before, minus (possibly) those stored under `k` -/
theorem delete_evs (c : Cache) (k p : String) :
    (c.delete k p).evs = c.evs ∨ (c.delete k p).evs = c.evs.filter (fun x => eventKey x != k) := by
  unfold Cache.delete
  split
  · exact Or.inl rfl
  · split
    · exact Or.inl rfl
    · exact Or.inr rfl

theorem delete_sublist (c : Cache) (k p : String) : List.Sublist (c.delete k p).evs c.evs := by
  rcases delete_evs c k p with h | h <;> rw [h]
  · exact List.Sublist.refl _
  · exact List.filter_sublist

theorem delete_mem (c : Cache) (k p : String) (x : Event) (h : x ∈ (c.delete k p).evs) : x ∈ c.evs :=
  (delete_sublist c k p).subset h

/-- an event stored under another key survives a `delete` -/
theorem delete_keeps_other_key (c : Cache) (k p : String) (x : Event) (hx : x ∈ c.evs)
    (hk : eventKey x ≠ k) : x ∈ (c.delete k p).evs := by
  rcases delete_evs c k p with h | h <;> rw [h]
  · exact hx
  · exact List.mem_filter.2 ⟨hx, by simpa using hk⟩

/-- with distinct keys, looking up an event's own key finds that event -/
theorem find_own_key (l : List Event) (x : Event) (hx : x ∈ l) (hnd : (l.map eventKey).Nodup) :
    l.find? (fun y => eventKey y == eventKey x) = some x := by
  induction l with
  | nil => cases hx
  | cons y ys ih =>
    simp only [List.map_cons, List.nodup_cons] at hnd
    by_cases hy : eventKey y = eventKey x
    · have : y = x := by
        simp only [List.mem_cons] at hx
        rcases hx with rfl | hx
        · rfl
        · exfalso; apply hnd.1; rw [hy]; exact List.mem_map_of_mem (f := eventKey) hx
      subst this
      simp [List.find?]
    · have hy' : (eventKey y == eventKey x) = false := by simpa using hy
      simp only [List.find?, hy']
      simp only [List.mem_cons] at hx
      rcases hx with rfl | hx
      · exact absurd rfl hy
      · exact ih hx hnd.2

theorem lookup_own_key (c : Cache) (x : Event) (hx : x ∈ c.evs) (hnd : (c.evs.map eventKey).Nodup) :
    c.lookup (eventKey x) = some x := find_own_key c.evs x hx hnd

/-- an event of another author survives a `delete` if keys are distinct per slot -/
theorem delete_keeps_other_author (c : Cache) (k p : String) (x : Event) (hx : x ∈ c.evs)
    (hnd : (c.evs.map eventKey).Nodup) (hp : x.pubkey ≠ p) : x ∈ (c.delete k p).evs := by
  by_cases hk : eventKey x = k
  · -- the candidate found under `k` is `x` itself, and its author differs: nothing happens
    subst hk
    unfold Cache.delete
    simp only [lookup_own_key c x hx hnd]
    have : Gen.deleteForeign x.pubkey p = true := by simp [Gen.deleteForeign, hp]
    simp [this, hx]
  · exact delete_keeps_other_key c k p x hx hk

theorem lookup_mem (c : Cache) (k : String) (x : Event) (h : c.lookup k = some x) :
    x ∈ c.evs ∧ eventKey x = k := by
  unfold Cache.lookup at h
  have := List.find?_some h
  exact ⟨List.mem_of_find?_eq_some h, by simpa using this⟩

theorem lookup_none (c : Cache) (k : String) (h : c.lookup k = none) : ∀ x ∈ c.evs, eventKey x ≠ k := by
  unfold Cache.lookup at h
  intro x hx hk
  have := List.find?_eq_none.1 h x hx
  simp [hk] at this

/-- deleting the event found under its own key with its own author removes every event with that key -/
theorem delete_own (c : Cache) (k : String) (x : Event) (h : c.lookup k = some x) :
    (c.delete k x.pubkey).evs = c.evs.filter (fun y => eventKey y != k) := by
  unfold Cache.delete
  simp [h, Gen.deleteForeign]

theorem keys_nodup_delete (c : Cache) (k p : String) (h : (c.evs.map eventKey).Nodup) :
    ((c.delete k p).evs.map eventKey).Nodup :=
  List.Pairwise.sublist ((delete_sublist c k p).map eventKey) h

theorem length_delete_le (c : Cache) (k p : String) : (c.delete k p).evs.length ≤ c.evs.length :=
  (delete_sublist c k p).length_le

/-! ### `deleteByKind5` is a sequence of deletes -/

theorem foldl_delete_props (P : Cache → Prop) (p : String) (hP : ∀ c k, P c → P (c.delete k p)) :
    ∀ (xs : List Event) (c : Cache), P c → P (xs.foldl (fun c x => c.delete (eventKey x) p) c) := by
  intro xs
  induction xs with
  | nil => intro c h; exact h
  | cons x xs ih => intro c h; exact ih _ (hP c _ h)

/-- `deleteByKind5 e` is a sequence of `delete`s issued on behalf of `e.pubkey` -/
theorem deleteByKind5_props (P : Cache → Prop) (c : Cache) (e : Event)
    (hP : ∀ c k, P c → P (c.delete k e.pubkey)) (h : P c) : P (c.deleteByKind5 e) := by
  unfold Cache.deleteByKind5
  generalize k5Refs e = refs
  induction refs generalizing c with
  | nil => exact h
  | cons k ks ih =>
    simp only [List.foldl_cons]
    apply ih
    exact foldl_delete_props P e.pubkey hP _ _ (hP c k h)

/-- anything that survives every single `delete` of author `p` survives `deleteByKind5` -/
theorem deleteByKind5_mem (c : Cache) (e : Event) (x : Event) (h : x ∈ (c.deleteByKind5 e).evs) : x ∈ c.evs := by
  have := deleteByKind5_props (fun c' => ∀ y, y ∈ c'.evs → y ∈ c.evs) c e
    (fun c' k hc y hy => hc y (delete_mem c' k _ y hy)) (fun y hy => hy)
  exact this x h

theorem addKind5_evs (c : Cache) (e : Event) : (c.addKind5 e).evs = c.evs := rfl
theorem addKind5_cap (c : Cache) (e : Event) : (c.addKind5 e).cap = c.cap := rfl

end Moc.CacheL
