/-
  C15 — Shared stores are race-free and linearizable under concurrent sessions.

  What is a theorem here: (1) the linearization checker used on every recorded concurrent history is
  sound — an accepted witness IS a sequential execution of the model, in an order consistent with real
  time, that reproduces every recorded result; (2) every state the sequential model can reach satisfies
  the retention invariant, so a linearizable history can never show more than `capacity` events or an
  event that is not retained.  That the Go code (lock discipline, race freedom) only produces
  linearizable histories is runtime-validated: every generated concurrent history is searched for a
  linearization and the race detector watches the run.
-/
import MocModel.Linearize
import MocProps.C03
import MocProps.C04

set_option linter.unusedSimpArgs false

namespace Moc.C15
open Moc

/-- sequential execution of calls (by index) on the model, comparing each result with the recorded one -/
def replayOK (calls : List CCall) : List Nat → Cache → Bool
  | [], _ => true
  | i :: rest, c =>
    match calls[i]? with
    | none => false
    | some ci =>
      let (c', out) := applyOp c ci.op
      out == ci.out && replayOK calls rest c'

/-- the order never puts a call after one that was invoked only after it had returned -/
def respectsRealTime (calls : List CCall) : List Nat → Bool
  | [] => true
  | i :: rest =>
    (match calls[i]? with
     | none => false
     | some ci => rest.all (notBefore calls ci)) &&
    respectsRealTime calls rest

theorem go_sound (calls : List CCall) : ∀ (order : List Nat) (c : Cache) (d : List Nat),
    witnessValid.go calls order c d = true → replayOK calls order c = true ∧ respectsRealTime calls order = true := by
  intro order
  induction order with
  | nil => intro c d _; exact ⟨rfl, rfl⟩
  | cons i rest ih =>
    intro c d h
    unfold witnessValid.go at h
    unfold replayOK respectsRealTime
    cases hi : calls[i]? with
    | none => simp [hi] at h
    | some ci =>
      simp only [hi] at h ⊢
      simp only [Bool.and_eq_true] at h
      obtain ⟨⟨h1, h2⟩, h3⟩ := h
      obtain ⟨ih1, ih2⟩ := ih _ _ h3
      simp [h1, h2, ih1, ih2]

/-- **C15, the linearization checker is sound**: a witness order accepted by `witnessValid` is a
    permutation-free enumeration of all calls (each exactly once) whose sequential execution on the model
    from the initial state reproduces every recorded result, in an order consistent with real time. -/
theorem witness_sound (calls : List CCall) (order : List Nat) (c0 : Cache)
    (h : witnessValid calls order c0 = true) :
    order.length = calls.length ∧ order.eraseDups.length = order.length ∧
    replayOK calls order c0 = true ∧ respectsRealTime calls order = true := by
  unfold witnessValid at h
  simp only [Bool.and_eq_true, beq_iff_eq] at h
  obtain ⟨⟨h1, h2⟩, h3⟩ := h
  obtain ⟨h4, h5⟩ := go_sound calls order c0 [] h3
  exact ⟨h1, h2, h4, h5⟩

/-! ### what any sequentially reachable state can show -/

theorem mem_insertOrd (e x : Event) : ∀ (l : List Event), x ∈ insertOrd e l → x = e ∨ x ∈ l := by
  intro l
  induction l with
  | nil => intro h; simp [insertOrd] at h; exact Or.inl h
  | cons y ys ih =>
    intro h
    unfold insertOrd at h
    split at h
    · simp only [List.mem_cons] at h
      rcases h with h | h | h
      · exact Or.inl h
      · exact Or.inr (by simp [h])
      · exact Or.inr (List.mem_cons_of_mem _ h)
    · split at h
      · simp only [List.mem_cons] at h
        rcases h with h | h
        · exact Or.inr (by simp [h])
        · rcases ih h with h' | h'
          · exact Or.inl h'
          · exact Or.inr (List.mem_cons_of_mem _ h')
      · simp only [List.mem_cons] at h
        rcases h with h | h
        · exact Or.inl h
        · exact Or.inr (List.mem_cons_of_mem _ h)

theorem length_insertOrd_le (e : Event) : ∀ (l : List Event), (insertOrd e l).length ≤ l.length + 1 := by
  intro l
  induction l with
  | nil => simp [insertOrd]
  | cons y ys ih =>
    unfold insertOrd
    split
    · simp
    · split
      · simp only [List.length_cons]; omega
      · simp

theorem sortOrd_props (es : List Event) : (∀ x ∈ sortOrd es, x ∈ es) ∧ (sortOrd es).length ≤ es.length := by
  unfold sortOrd
  suffices h : ∀ (acc : List Event), (∀ x ∈ es.foldl (fun acc e => insertOrd e acc) acc, x ∈ acc ∨ x ∈ es) ∧
      (es.foldl (fun acc e => insertOrd e acc) acc).length ≤ acc.length + es.length by
    obtain ⟨h1, h2⟩ := h []
    refine ⟨fun x hx => ?_, by simpa using h2⟩
    rcases h1 x hx with h | h
    · cases h
    · exact h
  induction es with
  | nil => intro acc; exact ⟨fun x hx => Or.inl hx, by simp⟩
  | cons e es ih =>
    intro acc
    simp only [List.foldl_cons]
    obtain ⟨h1, h2⟩ := ih (insertOrd e acc)
    constructor
    · intro x hx
      rcases h1 x hx with h | h
      · rcases mem_insertOrd e x acc h with h' | h'
        · exact Or.inr (by simp [h'])
        · exact Or.inl h'
      · exact Or.inr (List.mem_cons_of_mem _ h)
    · have := length_insertOrd_le e acc
      simp only [List.length_cons]; omega

/-- **C15, no query on a sequentially reachable state shows more than `capacity` events or an event that
    is not retained** — hence no linearizable history does.  (Stated for the match-everything listing,
    which is what the statement's "in particular" clauses are about.) -/
theorem listing_within_capacity (cap : Int) (hcap : 0 ≤ cap) (es : List Event)
    (hne : ∀ e ∈ es, C02.TagsNonEmpty e) :
    ∃ l, (C04.run { cap := cap } es).find id [{}] = .ok l ∧ (l.length : Int) ≤ cap ∧
      ∀ x ∈ l, x ∈ (C04.run { cap := cap } es).evs := by
  have hinv := (C04.retention_all_histories cap hcap es).1
  have hcapEq := (C04.retention_all_histories cap hcap es).2
  have hsub := C04.run_subset { cap := cap } es
  generalize C04.run { cap := cap } es = c at hinv hcapEq hsub
  unfold Cache.find
  by_cases hemp : Gen.findEmpty c.evs.length = true
  · refine ⟨[], by simp [hemp], by simpa using hcap, by intro x hx; cases hx⟩
  · have hemp' : Gen.findEmpty c.evs.length = false := by simpa using hemp
    simp only [hemp', Bool.false_eq_true, if_false, List.foldl_cons, List.foldl_nil, Cache.findStep]
    have hfull : isFullScanFilter ({} : Filter) = true := by decide
    simp only [hfull, if_true]
    have hsp := sortOrd_props c.evs
    have hbt : ∀ e ∈ c.byTime, C02.TagsNonEmpty e := by
      intro e he
      have := hsp.1 e he
      rcases hsub e this with h | h
      · cases h
      · exact hne e h
    have hwf : ({} : Filter).WF := by intro l hl; cases hl
    rw [C03.scanLoop_eq {} hwf c.byTime hbt 0]
    simp only [C03.remaining, C03.takeOpt]
    have hr := sortOrd_props (c.byTime.filter (nip01MatchB {} ·))
    refine ⟨_, rfl, ?_, ?_⟩
    · have h1 : (List.filter (fun x => nip01MatchB {} x) c.byTime).length ≤ c.byTime.length := List.length_filter_le _ _
      have h2 := hsp.2
      have h3 := hinv.capOk
      have h4 := hr.2
      unfold sortOrd at h4
      unfold Cache.byTime at h1 h4 ⊢
      omega
    · intro x hx
      have := hr.1 x hx
      exact hsp.1 x (List.mem_filter.1 this).1

end Moc.C15
