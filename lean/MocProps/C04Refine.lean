/-
  C03 / C04 / C05 — the tree and index MAINTENANCE code refines the abstract store.

  `MocModel/CacheC.lean` keeps `evsCreatedAt` and `evsIndex.idx` as state, updated by every operation the way
  event_cache.go does, and reads them where the Go code reads them.  Here: for every insertion history over a
  universe of events whose ids determine them, the concrete model returns the same flags, holds the same maps and
  answers every query exactly as the abstract model whose tree and index are derived views.  Hence every theorem
  of C03, C04, C05 and C16 about the abstract store holds of the concrete one.
-/
import MocProps.CacheCLemmas
import MocProps.C04

namespace Moc.C04R
open Moc Moc.CacheL Moc.C03 Moc.CacheCL

/-- representation invariant of the concrete store -/
structure CInv (U : List Event) (c : CCache) : Prop where
  keys : (c.a.evs.map eventKey).Nodup
  inU : ∀ x ∈ c.a.evs, x ∈ U
  sorted : Sorted c.tree
  tree : ∀ x, x ∈ c.tree ↔ x ∈ c.a.evs
  idx : ∀ k x, x ∈ ixGet c.idx k ↔ (x ∈ c.a.evs ∧ k ∈ idxKeys x)
  nodup : ∀ k, (ixGet c.idx k).Nodup

theorem inv_init (U : List Event) (cap : Int) : CInv U (CCache.init cap) := by
  refine ⟨List.nodup_nil, ?_, ?_, ?_, ?_, ?_⟩
  · intro x hx; cases hx
  · exact List.Pairwise.nil
  · intro x; simp [CCache.init]
  · intro k x; simp [CCache.init, ixGet]
  · intro k; simp [CCache.init, ixGet]

/-! ### delete -/

theorem delete_a (c : CCache) (k p : String) : (c.delete k p).a = c.a.delete k p := by
  unfold CCache.delete
  cases hl : c.a.lookup k with
  | none => simp [Cache.delete, hl]
  | some cand =>
    simp only []
    split
    · rename_i hf; simp [Cache.delete, hl, hf]
    · rfl

theorem delete_inv (U : List Event) (hU : IdInj U) (c : CCache) (k p : String) (h : CInv U c) :
    CInv U (c.delete k p) := by
  unfold CCache.delete
  cases hl : c.a.lookup k with
  | none => exact h
  | some cand =>
    simp only []
    split
    · exact h
    · rename_i hf
      have hp : cand.pubkey = p := by simpa [Gen.deleteForeign] using hf
      obtain ⟨hcm, hck⟩ := lookup_mem c.a k cand hl
      have hevs : (c.a.delete k p).evs = c.a.evs.filter (fun y => eventKey y != k) := by
        rw [← hp]; exact delete_own c.a k cand hl
      -- with distinct keys, what goes away is exactly `cand`
      have hmem : ∀ x, x ∈ (c.a.delete k p).evs ↔ x ∈ c.a.evs ∧ x ≠ cand := by
        intro x
        rw [hevs, List.mem_filter]
        constructor
        · rintro ⟨h1, h2⟩
          refine ⟨h1, ?_⟩
          rintro rfl
          simp [hck] at h2
        · rintro ⟨h1, h2⟩
          refine ⟨h1, ?_⟩
          simp only [bne_iff_ne, ne_eq]
          intro hk
          apply h2
          have e1 := lookup_own_key c.a x h1 h.keys
          rw [hk, hl] at e1
          cases e1; rfl
      have htU : ∀ x ∈ c.tree, x ∈ U := fun x hx => h.inU x ((h.tree x).1 hx)
      refine ⟨keys_nodup_delete c.a k p h.keys, fun x hx => h.inU x (delete_mem c.a k p x hx),
        sorted_tDel cand c.tree h.sorted, ?_, ?_, fun k' => nodup_ixDelete c.idx cand k' (h.nodup k')⟩
      · intro x
        simp only []
        rw [mem_tDel U hU cand c.tree (h.inU cand hcm) htU x, hmem x, h.tree x]
      · intro k' x
        simp only []
        rw [mem_ixDelete, hmem x, h.idx k' x]
        constructor
        · rintro ⟨⟨h1, h2⟩, h3⟩
          exact ⟨⟨h1, fun he => h3 ⟨he ▸ h2, he⟩⟩, h2⟩
        · rintro ⟨⟨h1, h2⟩, h3⟩
          exact ⟨⟨h1, h3⟩, fun ⟨_, he⟩ => h2 he⟩

/-! ### put / addEv -/

theorem put_inv (U : List Event) (hU : IdInj U) (c : CCache) (e : Event) (h : CInv U c) (he : e ∈ U)
    (hfresh : ∀ x ∈ c.a.evs, eventKey x ≠ eventKey e) : CInv U (c.put e) := by
  have hne : e ∉ c.a.evs := fun hm => hfresh e hm rfl
  have htU : ∀ x ∈ c.tree, x ∈ U := fun x hx => h.inU x ((h.tree x).1 hx)
  refine ⟨?_, ?_, insertOrd_sorted e c.tree h.sorted, ?_, ?_, ?_⟩
  · simp only [CCache.put, List.map_cons, List.nodup_cons]
    refine ⟨?_, h.keys⟩
    intro hm
    obtain ⟨x, hx, hxk⟩ := List.mem_map.1 hm
    exact hfresh x hx hxk
  · intro x hx
    simp only [CCache.put, List.mem_cons] at hx
    rcases hx with rfl | hx
    · exact he
    · exact h.inU x hx
  · intro x
    simp only [CCache.put]
    rw [insertOrd_mem_iff U hU e c.tree he htU x, h.tree x, List.mem_cons]
  · intro k x
    simp only [CCache.put]
    rw [mem_ixAdd, h.idx k x, List.mem_cons]
    constructor
    · rintro (⟨h1, h2⟩ | ⟨h1, rfl⟩)
      · exact ⟨Or.inr h1, h2⟩
      · exact ⟨Or.inl rfl, h1⟩
    · rintro ⟨rfl | h1, h2⟩
      · exact Or.inr ⟨h2, rfl⟩
      · exact Or.inl ⟨h1, h2⟩
  · intro k
    simp only [CCache.put]
    unfold ixAdd
    -- every round adds `e`, which is in no set yet
    have : ∀ (ks : List IdxKey) (i : Idx), (ixGet i k).Nodup → (ixGet (ks.foldl (fun i k => ixAdd1 i e k) i) k).Nodup := by
      intro ks
      induction ks with
      | nil => intro i hi; exact hi
      | cons k0 ks ih => intro i hi; exact ih _ (nodup_ixAdd1 i e k0 k hi)
    exact this _ _ (h.nodup k)

theorem addEv_a (c : CCache) (key : String) (e : Event) :
    (c.addEv key e).1.a = (c.a.addEv key e).1 ∧ (c.addEv key e).2 = (c.a.addEv key e).2 := by
  unfold CCache.addEv Cache.addEv
  cases hl : c.a.lookup key with
  | none => simp [CCache.put]
  | some old =>
    simp only []
    split
    · simp
    · simp [CCache.put, delete_a]

theorem addEv_inv (U : List Event) (hU : IdInj U) (c : CCache) (e : Event) (h : CInv U c) (he : e ∈ U) :
    CInv U (c.addEv (eventKey e) e).1 := by
  unfold CCache.addEv
  cases hl : c.a.lookup (eventKey e) with
  | none => exact put_inv U hU c e h he (lookup_none c.a _ hl)
  | some old =>
    simp only []
    split
    · exact h
    · apply put_inv U hU _ e (delete_inv U hU c _ _ h) he
      intro x hx
      rw [delete_a, delete_own c.a _ old hl] at hx
      simpa using (List.mem_filter.1 hx).2

/-! ### deletion requests -/

theorem foldl_delete_a (p : String) (l : List Event) (c : CCache) :
    (l.foldl (fun c x => c.delete (eventKey x) p) c).a = l.foldl (fun a x => a.delete (eventKey x) p) c.a := by
  induction l generalizing c with
  | nil => rfl
  | cons x xs ih => simp only [List.foldl_cons, ih, delete_a]

theorem foldl_delete_inv (U : List Event) (hU : IdInj U) (p : String) (l : List Event) (c : CCache) (h : CInv U c) :
    CInv U (l.foldl (fun c x => c.delete (eventKey x) p) c) := by
  induction l generalizing c with
  | nil => exact h
  | cons x xs ih => exact ih _ (delete_inv U hU c _ _ h)

theorem list_eq_of_subsingleton {α} (l1 l2 : List α) (h1 : l1.Nodup) (h2 : l2.Nodup) (hm : ∀ x, x ∈ l1 ↔ x ∈ l2)
    (hs : ∀ a ∈ l1, ∀ b ∈ l1, a = b) : l1 = l2 := by
  cases l1 with
  | nil =>
    cases l2 with
    | nil => rfl
    | cons b u => exact absurd ((hm b).2 (by simp)) (by simp)
  | cons a t =>
    have ht : t = [] := by
      cases t with
      | nil => rfl
      | cons b u =>
        have : a = b := hs a (by simp) b (by simp)
        subst this
        simp at h1
    subst ht
    cases l2 with
    | nil => exact absurd ((hm a).1 (by simp)) (by simp)
    | cons b u =>
      have hb : b = a := by simpa using (hm b).2 (by simp)
      subst hb
      have hu : u = [] := by
        cases u with
        | nil => rfl
        | cons y v =>
          have hy : y = b := by simpa using (hm y).2 (by simp)
          subst hy
          simp at h2
      rw [hu]

/-- the id index hands the by-id loop exactly the events the abstract model finds by scanning the map -/
theorem idIndex_eq (U : List Event) (hU : IdInj U) (c : CCache) (h : CInv U c) (k : String) :
    ixGet c.idx (.id k) = c.a.evs.filter (fun x => x.id == k) := by
  have hmem : ∀ x, x ∈ ixGet c.idx (.id k) ↔ x ∈ c.a.evs.filter (fun x => x.id == k) := by
    intro x
    rw [h.idx, List.mem_filter]
    simp only [idxKeys, List.cons_append, List.nil_append, List.mem_cons, IdxKey.id.injEq, reduceCtorEq, List.mem_map,
      false_or, beq_iff_eq]
    constructor
    · rintro ⟨h1, h2 | ⟨_, _, h2⟩⟩
      · exact ⟨h1, h2.symm⟩
      · cases h2
    · rintro ⟨h1, h2⟩
      exact ⟨h1, Or.inl h2.symm⟩
  apply list_eq_of_subsingleton _ _ (h.nodup _) (List.Pairwise.filter _ (nodup_of_map_nodup eventKey _ h.keys)) hmem
  intro a ha b hb
  have ha' := List.mem_filter.1 ((hmem a).1 ha)
  have hb' := List.mem_filter.1 ((hmem b).1 hb)
  apply hU a (h.inU a ha'.1) b (h.inU b hb'.1)
  have e1 : a.id = k := by simpa using ha'.2
  have e2 : b.id = k := by simpa using hb'.2
  rw [e1, e2]

theorem deleteById_a (U : List Event) (hU : IdInj U) (c : CCache) (h : CInv U c) (k p : String) :
    (c.deleteById k p).a = (c.a.evs.filter (fun x => x.id == k)).foldl (fun a x => a.delete (eventKey x) p) c.a := by
  unfold CCache.deleteById
  rw [foldl_delete_a, idIndex_eq U hU c h k]

theorem deleteById_inv (U : List Event) (hU : IdInj U) (c : CCache) (h : CInv U c) (k p : String) :
    CInv U (c.deleteById k p) := foldl_delete_inv U hU p _ c h

theorem deleteByKind5_ref (U : List Event) (hU : IdInj U) (e : Event) (refs : List String) :
    ∀ (c : CCache), CInv U c →
      (refs.foldl (fun c k => (c.delete k e.pubkey).deleteById k e.pubkey) c).a =
        refs.foldl (fun a k =>
          let c1 := a.delete k e.pubkey
          (c1.evs.filter (fun x => x.id == k)).foldl (fun c x => c.delete (eventKey x) e.pubkey) c1) c.a ∧
      CInv U (refs.foldl (fun c k => (c.delete k e.pubkey).deleteById k e.pubkey) c) := by
  induction refs with
  | nil => intro c h; exact ⟨rfl, h⟩
  | cons k ks ih =>
    intro c h
    have h1 := delete_inv U hU c k e.pubkey h
    have h2 := deleteById_inv U hU _ h1 k e.pubkey
    obtain ⟨e1, i1⟩ := ih _ h2
    simp only [List.foldl_cons]
    refine ⟨?_, i1⟩
    rw [e1, deleteById_a U hU _ h1, delete_a]

theorem deleteByKind5_a (U : List Event) (hU : IdInj U) (c : CCache) (h : CInv U c) (e : Event) :
    (c.deleteByKind5 e).a = c.a.deleteByKind5 e := (deleteByKind5_ref U hU e (k5Refs e) c h).1

theorem deleteByKind5_inv (U : List Event) (hU : IdInj U) (c : CCache) (h : CInv U c) (e : Event) :
    CInv U (c.deleteByKind5 e) := (deleteByKind5_ref U hU e (k5Refs e) c h).2

/-! ### eviction -/

/-- the eviction step of the abstract `Cache.add` -/
def absEvict (a : Cache) : Cache :=
  if Gen.addOverCap a.evs.length a.cap then
    match oldestOf a.evs with
    | some o => a.delete (eventKey o) o.pubkey
    | none => a
  else a

theorem evict_a (U : List Event) (hU : IdInj U) (c : CCache) (h : CInv U c) : c.evict.a = absEvict c.a := by
  unfold CCache.evict absEvict
  rw [getLast_eq_oldestOf U hU c.a.evs c.tree h.inU h.sorted h.tree]
  split
  · cases oldestOf c.a.evs with
    | none => rfl
    | some o => exact delete_a c _ _
  · rfl

theorem evict_inv (U : List Event) (hU : IdInj U) (c : CCache) (h : CInv U c) : CInv U c.evict := by
  unfold CCache.evict
  split
  · cases c.tree.getLast? with
    | none => exact h
    | some o => exact delete_inv U hU c _ _ h
  · exact h

/-! ### Add -/

theorem addKind5_inv (U : List Event) (c : CCache) (h : CInv U c) (e : Event) : CInv U (c.addKind5 e) :=
  ⟨h.keys, h.inU, h.sorted, h.tree, h.idx, h.nodup⟩

theorem afterAdd_a (U : List Event) (hU : IdInj U) (c : CCache) (h : CInv U c) (e : Event) :
    (c.afterAdd e).a = absEvict (if Gen.addIsKind5 e.kind then (c.a.addKind5 e).deleteByKind5 e else c.a) ∧
    CInv U (c.afterAdd e) := by
  unfold CCache.afterAdd
  split
  · have h1 := addKind5_inv U c h e
    have h2 := deleteByKind5_inv U hU _ h1 e
    exact ⟨by rw [evict_a U hU _ h2, deleteByKind5_a U hU _ h1]; rfl, evict_inv U hU _ h2⟩
  · exact ⟨evict_a U hU c h, evict_inv U hU c h⟩

/-- the abstract `Add`, with its eviction step named -/
theorem abs_add_eq (a : Cache) (e : Event) :
    a.add e =
      if eventType e.kind == .ephemeral then (a, true)
      else if Gen.addBlocked (a.isDeleted (eventKey e) e.pubkey) (a.isDeleted e.id e.pubkey) then (a, false)
      else if (a.addEv (eventKey e) e).2 then
        (absEvict (if Gen.addIsKind5 e.kind then ((a.addEv (eventKey e) e).1.addKind5 e).deleteByKind5 e
                   else (a.addEv (eventKey e) e).1), true)
      else (a, false) := by
  unfold Cache.add absEvict
  split
  · rfl
  · simp only []
    split
    · rfl
    · cases h : a.addEv (eventKey e) e with
      | mk a1 b =>
        cases b with
        | false => simp
        | true =>
          simp only [if_true]
          generalize (if Gen.addIsKind5 e.kind = true then (a1.addKind5 e).deleteByKind5 e else a1) = a2
          congr 1

/-- **one insertion**: same flag, same maps, and the representation invariant is kept -/
theorem add_refines (U : List Event) (hU : IdInj U) (c : CCache) (h : CInv U c) (e : Event) (he : e ∈ U) :
    (c.add e).1.a = (c.a.add e).1 ∧ (c.add e).2 = (c.a.add e).2 ∧ CInv U (c.add e).1 := by
  rw [abs_add_eq]
  unfold CCache.add
  split
  · exact ⟨rfl, rfl, h⟩
  · simp only []
    split
    · exact ⟨rfl, rfl, h⟩
    · obtain ⟨ea, eb⟩ := addEv_a c (eventKey e) e
      have hi := addEv_inv U hU c e h he
      rw [← eb]
      split
      · obtain ⟨e1, i1⟩ := afterAdd_a U hU _ hi e
        refine ⟨?_, rfl, i1⟩
        rw [e1, ea]
      · exact ⟨rfl, rfl, h⟩

/-! ### histories -/

def runC (c : CCache) (es : List Event) : CCache := es.foldl (fun c e => (c.add e).1) c

def flagsC (c : CCache) : List Event → List Bool
  | [] => []
  | e :: es => (c.add e).2 :: flagsC (c.add e).1 es

def flagsA (a : Cache) : List Event → List Bool
  | [] => []
  | e :: es => (a.add e).2 :: flagsA (a.add e).1 es

/-- **every history**: the concrete store (tree and index maintained incrementally) returns the flags of the
    abstract one, holds the same maps, and keeps its representation invariant -/
theorem run_refines (U : List Event) (hU : IdInj U) (es : List Event) :
    ∀ (c : CCache), CInv U c → (∀ e ∈ es, e ∈ U) →
      (runC c es).a = C04.run c.a es ∧ flagsC c es = flagsA c.a es ∧ CInv U (runC c es) := by
  induction es with
  | nil => intro c h _; exact ⟨rfl, rfl, h⟩
  | cons e es ih =>
    intro c h hes
    obtain ⟨e1, e2, i1⟩ := add_refines U hU c h e (hes e (by simp))
    obtain ⟨r1, r2, r3⟩ := ih (c.add e).1 i1 (fun x hx => hes x (List.mem_cons_of_mem _ hx))
    refine ⟨?_, ?_, r3⟩
    · show (runC (c.add e).1 es).a = C04.run (c.a.add e).1 es
      rw [r1, e1]
    · simp only [flagsC, flagsA, e2, r2, e1]

/-! ### queries -/

theorem mem_unionInto (s acc : List Event) (x : Event) : x ∈ unionInto acc s ↔ x ∈ acc ∨ x ∈ s := by
  unfold unionInto
  induction s generalizing acc with
  | nil => simp
  | cons y ys ih =>
    simp only [List.foldl_cons, ih, List.mem_cons]
    split
    · rename_i hc
      have hy : y ∈ acc := by simpa using hc
      constructor
      · rintro (h | h); exact Or.inl h; exact Or.inr (Or.inr h)
      · rintro (h | rfl | h); exact Or.inl h; exact Or.inl hy; exact Or.inr h
    · simp only [List.mem_cons]
      constructor
      · rintro ((rfl | h) | h); exact Or.inr (Or.inl rfl); exact Or.inl h; exact Or.inr (Or.inr h)
      · rintro (h | rfl | h); exact Or.inl (Or.inr h); exact Or.inl (Or.inl rfl); exact Or.inr h

theorem nodup_unionInto (s acc : List Event) (h : acc.Nodup) : (unionInto acc s).Nodup := by
  unfold unionInto
  induction s generalizing acc with
  | nil => exact h
  | cons y ys ih =>
    simp only [List.foldl_cons]
    split
    · exact ih acc h
    · rename_i hc
      exact ih _ (List.nodup_cons.2 ⟨by simpa using hc, h⟩)

theorem condSet_spec (idx : Idx) (ks : List IdxKey) :
    ∀ (acc : List Event), acc.Nodup →
      (ks.foldl (fun a k => unionInto a (ixGet idx k)) acc).Nodup ∧
      ∀ x, x ∈ ks.foldl (fun a k => unionInto a (ixGet idx k)) acc ↔ x ∈ acc ∨ ∃ k ∈ ks, x ∈ ixGet idx k := by
  induction ks with
  | nil => intro acc h; exact ⟨h, by simp⟩
  | cons k ks ih =>
    intro acc h
    obtain ⟨n1, m1⟩ := ih (unionInto acc (ixGet idx k)) (nodup_unionInto _ _ h)
    refine ⟨n1, fun x => ?_⟩
    simp only [List.foldl_cons, m1, mem_unionInto, List.mem_cons, exists_eq_or_imp]
    constructor
    · rintro ((h | h) | h); exact Or.inl h; exact Or.inr (Or.inl h); exact Or.inr (Or.inr h)
    · rintro (h | h | h); exact Or.inl (Or.inl h); exact Or.inl (Or.inr h); exact Or.inr h

theorem mem_condSet (idx : Idx) (ks : List IdxKey) (x : Event) :
    x ∈ condSet idx ks ↔ ∃ k ∈ ks, x ∈ ixGet idx k := by
  have := (condSet_spec idx ks [] List.nodup_nil).2 x
  simpa [condSet] using this

theorem nodup_condSet (idx : Idx) (ks : List IdxKey) : (condSet idx ks).Nodup :=
  (condSet_spec idx ks [] List.nodup_nil).1

theorem mem_insertBySize (s : List Event) (ss : List (List Event)) (t : List Event) :
    t ∈ insertBySize s ss ↔ t = s ∨ t ∈ ss := by
  induction ss with
  | nil => simp [insertBySize]
  | cons x xs ih =>
    simp only [insertBySize]
    split
    · simp
    · simp only [List.mem_cons, ih]
      constructor
      · rintro (h | h | h); exact Or.inr (Or.inl h); exact Or.inl h; exact Or.inr (Or.inr h)
      · rintro (h | h | h); exact Or.inr (Or.inl h); exact Or.inl h; exact Or.inr (Or.inr h)

theorem mem_sortBySize (ss : List (List Event)) (t : List Event) : t ∈ sortBySize ss ↔ t ∈ ss := by
  induction ss with
  | nil => simp [sortBySize]
  | cons s ss ih =>
    simp only [sortBySize, List.foldr_cons, List.mem_cons] at ih ⊢
    rw [mem_insertBySize, ih]

/-- the intersection loop -/
theorem mem_intersectAll (ss : List (List Event)) (hne : ss ≠ []) (x : Event) :
    x ∈ intersectAll ss ↔ ∀ s ∈ ss, x ∈ s := by
  cases ss with
  | nil => exact absurd rfl hne
  | cons m rest =>
    simp only [intersectAll, List.mem_filter, List.all_eq_true, List.contains_iff_mem, List.mem_cons, forall_eq_or_imp]

theorem nodup_intersectAll (ss : List (List Event)) (h : ∀ s ∈ ss, s.Nodup) : (intersectAll ss).Nodup := by
  cases ss with
  | nil => exact List.nodup_nil
  | cons m rest => exact List.Pairwise.filter _ (h m (by simp))

/-- which index keys an event is filed under -/
theorem id_mem_idxKeys (x : Event) (v : String) : IdxKey.id v ∈ idxKeys x ↔ v = x.id := by
  simp [idxKeys]
theorem author_mem_idxKeys (x : Event) (v : String) : IdxKey.author v ∈ idxKeys x ↔ v = x.pubkey := by
  simp [idxKeys]
theorem kind_mem_idxKeys (x : Event) (v : Int) : IdxKey.kind v ∈ idxKeys x ↔ v = x.kind := by
  simp [idxKeys]
theorem tag_mem_idxKeys (x : Event) (n v : String) : IdxKey.tag n v ∈ idxKeys x ↔ (n, v) ∈ idxTagPairs x := by
  simp [idxKeys]

/-- the key lists of a filter select exactly the abstract model's index candidates -/
theorem filterKeys_match (f : Filter) (x : Event) :
    (∀ ks ∈ filterKeys f, ∃ k ∈ ks, k ∈ idxKeys x) ↔ idxCandidate f x = true := by
  unfold filterKeys idxCandidate
  simp only [List.mem_append, Bool.and_eq_true]
  constructor
  · intro h
    refine ⟨⟨⟨?_, ?_⟩, ?_⟩, ?_⟩
    · cases hi : f.ids with
      | none => rfl
      | some l =>
        obtain ⟨k, hk, hm⟩ := h (l.map IdxKey.id) (by simp [hi])
        obtain ⟨v, hv, rfl⟩ := List.mem_map.1 hk
        rw [id_mem_idxKeys] at hm
        simp [listedOr, ← hm, hv]
    · cases hi : f.authors with
      | none => rfl
      | some l =>
        obtain ⟨k, hk, hm⟩ := h (l.map IdxKey.author) (by simp [hi])
        obtain ⟨v, hv, rfl⟩ := List.mem_map.1 hk
        rw [author_mem_idxKeys] at hm
        simp [listedOr, ← hm, hv]
    · cases hi : f.kinds with
      | none => rfl
      | some l =>
        obtain ⟨k, hk, hm⟩ := h (l.map IdxKey.kind) (by simp [hi])
        obtain ⟨v, hv, rfl⟩ := List.mem_map.1 hk
        rw [kind_mem_idxKeys] at hm
        simp [listedOr, ← hm, hv]
    · cases hi : f.tags with
      | none => rfl
      | some conds =>
        simp only [List.all_eq_true, List.any_eq_true, List.contains_iff_mem]
        intro c hc
        obtain ⟨k, hk, hm⟩ := h (c.2.map (fun v => IdxKey.tag c.1 v)) (by
          simp only [hi, List.mem_map]; exact Or.inr ⟨c, hc, rfl⟩)
        obtain ⟨v, hv, rfl⟩ := List.mem_map.1 hk
        exact ⟨v, hv, (tag_mem_idxKeys x c.1 v).1 hm⟩
  · rintro ⟨⟨⟨h1, h2⟩, h3⟩, h4⟩ ks hks
    rcases hks with ((hks | hks) | hks) | hks
    · cases hi : f.ids with
      | none => simp [hi] at hks
      | some l =>
        simp only [hi, List.mem_singleton] at hks
        subst hks
        have : x.id ∈ l := by simpa [listedOr, hi] using h1
        exact ⟨.id x.id, List.mem_map.2 ⟨x.id, this, rfl⟩, (id_mem_idxKeys x x.id).2 rfl⟩
    · cases hi : f.authors with
      | none => simp [hi] at hks
      | some l =>
        simp only [hi, List.mem_singleton] at hks
        subst hks
        have : x.pubkey ∈ l := by simpa [listedOr, hi] using h2
        exact ⟨.author x.pubkey, List.mem_map.2 ⟨x.pubkey, this, rfl⟩, (author_mem_idxKeys x x.pubkey).2 rfl⟩
    · cases hi : f.kinds with
      | none => simp [hi] at hks
      | some l =>
        simp only [hi, List.mem_singleton] at hks
        subst hks
        have : x.kind ∈ l := by simpa [listedOr, hi] using h3
        exact ⟨.kind x.kind, List.mem_map.2 ⟨x.kind, this, rfl⟩, (kind_mem_idxKeys x x.kind).2 rfl⟩
    · cases hi : f.tags with
      | none => simp [hi] at hks
      | some conds =>
        simp only [hi, List.mem_map] at hks
        obtain ⟨c, hc, rfl⟩ := hks
        simp only [hi, List.all_eq_true, List.any_eq_true, List.contains_iff_mem] at h4
        obtain ⟨v, hv, hm⟩ := h4 c hc
        exact ⟨.tag c.1 v, List.mem_map.2 ⟨v, hv, rfl⟩, (tag_mem_idxKeys x c.1 v).2 hm⟩

theorem filterKeys_ne_nil (f : Filter) (h : isFullScanFilter f = false) : filterKeys f ≠ [] := by
  unfold isFullScanFilter Gen.isFullScan at h
  unfold filterKeys
  intro hnil
  simp only [List.append_eq_nil_iff] at hnil
  obtain ⟨⟨⟨h1, h2⟩, h3⟩, h4⟩ := hnil
  have e1 : f.ids = none := by cases hi : f.ids <;> simp [hi] at h1 ⊢
  have e2 : f.authors = none := by cases hi : f.authors <;> simp [hi] at h2 ⊢
  have e3 : f.kinds = none := by cases hi : f.kinds <;> simp [hi] at h3 ⊢
  have e4 : (f.tags.getD []).length = 0 := by
    cases hi : f.tags with
    | none => rfl
    | some l => simp [hi] at h4; simp [h4]
  simp [e1, e2, e3, e4] at h

/-- the store hypotheses of C03 follow from the representation invariant -/
theorem storeOK_of_inv (U : List Event) (hU : IdInj U) (hne : ∀ x ∈ U, C02.TagsNonEmpty x) (c : CCache)
    (h : CInv U c) : StoreOK c.a :=
  ⟨fun a ha b hb hab => hU a (h.inU a ha) b (h.inU b hb) hab, nodup_of_map_nodup eventKey _ h.keys,
   fun e he => hne e (h.inU e he)⟩

/-- the tree the scan walks is the abstract model's sorted view of the map -/
theorem tree_eq_byTime (U : List Event) (hU : IdInj U) (c : CCache) (h : CInv U c) : c.tree = c.a.byTime := by
  apply sorted_ext _ _ h.sorted (sortOrd_sorted _)
  intro x
  rw [h.tree]
  exact (sortOrd_mem U hU c.a.evs h.inU x).symm

/-- the candidates computed from the index sets are exactly the abstract model's candidates -/
theorem cands_spec (U : List Event) (c : CCache) (h : CInv U c) (f : Filter) (hfs : isFullScanFilter f = false) :
    (intersectAll (sortBySize ((filterKeys f).map (condSet c.idx)))).Nodup ∧
    ∀ x, x ∈ intersectAll (sortBySize ((filterKeys f).map (condSet c.idx))) ↔ x ∈ c.a.evs ∧ idxCandidate f x = true := by
  have hne : sortBySize ((filterKeys f).map (condSet c.idx)) ≠ [] := by
    have h0 := filterKeys_ne_nil f hfs
    cases hk : filterKeys f with
    | nil => exact absurd hk h0
    | cons ks rest =>
      intro hnil
      have : condSet c.idx ks ∈ sortBySize ((ks :: rest).map (condSet c.idx)) := (mem_sortBySize _ _).2 (by simp)
      rw [hnil] at this
      cases this
  refine ⟨nodup_intersectAll _ (fun s hs => ?_), fun x => ?_⟩
  · obtain ⟨ks, _, rfl⟩ := List.mem_map.1 ((mem_sortBySize _ _).1 hs)
    exact nodup_condSet _ _
  · rw [mem_intersectAll _ hne, ← filterKeys_match]
    constructor
    · intro hall
      have hk : ∀ ks ∈ filterKeys f, ∃ k ∈ ks, x ∈ ixGet c.idx k := fun ks hks =>
        (mem_condSet c.idx ks x).1 (hall _ ((mem_sortBySize _ _).2 (List.mem_map.2 ⟨ks, hks, rfl⟩)))
      constructor
      · cases hfk : filterKeys f with
        | nil => exact absurd hfk (filterKeys_ne_nil f hfs)
        | cons ks rest =>
          obtain ⟨k, _, hx⟩ := hk ks (by simp [hfk])
          exact ((h.idx k x).1 hx).1
      · intro ks hks
        obtain ⟨k, hk1, hx⟩ := hk ks hks
        exact ⟨k, hk1, ((h.idx k x).1 hx).2⟩
    · rintro ⟨hx, hall⟩ s hs
      obtain ⟨ks, hks, rfl⟩ := List.mem_map.1 ((mem_sortBySize _ _).1 hs)
      obtain ⟨k, hk1, hk2⟩ := hall ks hks
      exact (mem_condSet c.idx ks x).2 ⟨k, hk1, (h.idx k x).2 ⟨hx, hk2⟩⟩

/-- **the index path read from the maintained index** yields the filter's contribution, whatever order Go's maps
    hand the candidates out in -/
theorem cfindIdx_eq (U : List Event) (hU : IdInj U) (hne : ∀ x ∈ U, C02.TagsNonEmpty x) (c : CCache) (h : CInv U c)
    (f : Filter) (hf : FilterOK f) (hfs : isFullScanFilter f = false)
    (perm : List Event → List Event) (hperm : ∀ l, (perm l).Perm l) :
    c.findIdx perm f = .ok (topOf c.a f) := by
  unfold CCache.findIdx
  simp only []
  obtain ⟨hnd, hmem⟩ := cands_spec U c h f hfs
  have hp := hperm (intersectAll (sortBySize ((filterKeys f).map (condSet c.idx))))
  rw [← hp.length_eq]
  exact topk_eq_topOf c.a (storeOK_of_inv U hU hne c h) f hf _ (hp.nodup_iff.2 hnd)
    (fun x => by rw [hp.mem_iff, hmem])

theorem foldl_congr_mem {α β} (g1 g2 : β → α → β) (l : List α) (h : ∀ b, ∀ a ∈ l, g1 b a = g2 b a) (b : β) :
    l.foldl g1 b = l.foldl g2 b := by
  induction l generalizing b with
  | nil => rfl
  | cons a as ih =>
    simp only [List.foldl_cons]
    rw [h b a (by simp)]
    exact ih (fun b a ha => h b a (List.mem_cons_of_mem _ ha)) _

/-- **every query**: the concrete store answers as the abstract one (whose answers C03 characterises) -/
theorem find_refines (U : List Event) (hU : IdInj U) (hne : ∀ x ∈ U, C02.TagsNonEmpty x) (c : CCache) (h : CInv U c)
    (perm : List Event → List Event) (hperm : ∀ l, (perm l).Perm l) (fs : List Filter) (hfs : ∀ f ∈ fs, FilterOK f) :
    c.find perm fs = c.a.find id fs := by
  unfold CCache.find Cache.find
  split
  · rfl
  · apply foldl_congr_mem
    intro acc f hf
    unfold CCache.findStep Cache.findStep
    cases acc with
    | panic => rfl
    | ok tree =>
      simp only []
      have hok := storeOK_of_inv U hU hne c h
      have : (if isFullScanFilter f then scanLoop { f := f } c.tree else c.findIdx perm f) =
          (if isFullScanFilter f then scanLoop { f := f } c.a.byTime else c.a.findIdx id f) := by
        cases hs : isFullScanFilter f with
        | true => simp [tree_eq_byTime U hU c h]
        | false =>
          simp only [Bool.false_eq_true, if_false]
          rw [cfindIdx_eq U hU hne c h f (hfs f hf) hs perm hperm,
            idx_eq_topOf c.a hok f (hfs f hf) id (fun l => List.Perm.refl l)]
      rw [this]
      cases (if isFullScanFilter f then scanLoop { f := f } c.a.byTime else c.a.findIdx id f) <;> rfl

/-- **C03/C04/C05 for the store as implemented (tree and index maintained incrementally).**  For every insertion
    history over events whose ids determine them, every capacity, every filter list and every iteration order of
    Go's maps: the flags are those of the abstract model, and every query after the history is answered exactly
    as by the abstract model — so `find_eq_spec`, `retention_all_histories`, `never_visible_with_own_deletion`
    and `restore_dump` speak about this store too. -/
theorem concrete_refines_abstract (cap : Int) (es : List Event) (hU : IdInj es)
    (hne : ∀ x ∈ es, C02.TagsNonEmpty x) (perm : List Event → List Event) (hperm : ∀ l, (perm l).Perm l)
    (fs : List Filter) (hfs : ∀ f ∈ fs, FilterOK f) :
    flagsC (CCache.init cap) es = flagsA { cap := cap } es ∧
    (runC (CCache.init cap) es).a = C04.run { cap := cap } es ∧
    (runC (CCache.init cap) es).find perm fs = (C04.run { cap := cap } es).find id fs := by
  obtain ⟨r1, r2, r3⟩ := run_refines es hU es (CCache.init cap) (inv_init es cap) (fun e he => he)
  refine ⟨r2, r1, ?_⟩
  rw [find_refines es hU hne _ r3 perm hperm fs hfs, r1]
  rfl

/-- in every reachable state the tree is the sorted view of the map and every index set is exactly the set of
    retained events filed under its key -/
theorem tables_consistent (cap : Int) (es : List Event) (hU : IdInj es) :
    let c := runC (CCache.init cap) es
    c.tree = c.a.byTime ∧ ∀ k x, x ∈ ixGet c.idx k ↔ (x ∈ c.a.evs ∧ k ∈ idxKeys x) := by
  obtain ⟨_, _, r3⟩ := run_refines es hU es (CCache.init cap) (inv_init es cap) (fun e he => he)
  exact ⟨tree_eq_byTime es hU _ r3, r3.idx⟩

/-! non-vacuity -/
def exE (id : String) (t : Int) (k : Int) : Event := { id := id, pubkey := "p", createdAt := t, kind := k, tags := [["t", "x"]], content := "", sig := "" }
def exHist : List Event := [exE "a" 5 1, exE "b" 7 1, exE "c" 7 10002, exE "d" 9 10002, { exE "k" 8 5 with tags := [["e", "a"]] }]

example : IdInj exHist := by
  intro a ha b hb h
  simp only [exHist, List.mem_cons, List.not_mem_nil, or_false] at ha hb
  rcases ha with rfl | rfl | rfl | rfl | rfl <;> rcases hb with rfl | rfl | rfl | rfl | rfl <;> first | rfl | (simp [exE] at h)
example : (runC (CCache.init 3) exHist).tree.map (·.id) = ["d", "k", "b"] := by decide
example : flagsC (CCache.init 3) exHist = [true, true, true, true, true] := by decide

end Moc.C04R
