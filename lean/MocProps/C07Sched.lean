/-
  C07 over ARBITRARY schedules of the router's transition system (MocModel/Router.lean): any interleaving of
  subscribe / unsubscribe / unsubAll / pubBegin / visit / pubEnd / deq steps of any number of connections in which
  every step is enabled when it is taken.

  `must_deliver`   a subscription registered when a publish begins and not touched (closed, replaced, its connection
                   dropped) while the publish is in progress is visited by that publish exactly once, at a moment at
                   which it is still registered with the same filters — so, if its filters match and the queue has
                   room, `EVENT s e` is appended exactly once (`visit_effect`, `owed_count`).
  `must_not_deliver` a subscription id that is not registered when a publish begins and is not subscribed while it is
                   in progress is never in the registry when that publish visits its connection — so it gets
                   nothing from it (`visit_adds_only_open_matching`).
  These are the "must" / "must not" halves of the real-time rule the harness judges recorded concurrent runs by.
-/
import MocProps.C07

set_option linter.unusedSimpArgs false
set_option linter.unusedVariables false

namespace Moc.C07
open Moc

/-- a schedule: every step is enabled in the state it is taken in -/
def Sched : RSt → List RStep → Prop
  | _, [] => True
  | st, s :: rest => st.enabled s = true ∧ Sched (st.step s).1 rest

def runS (st : RSt) (steps : List RStep) : RSt := steps.foldl (fun st s => (st.step s).1) st

theorem runS_append (st : RSt) (a b : List RStep) : runS st (a ++ b) = runS (runS st a) b := by
  simp [runS, List.foldl_append]

theorem sched_append (st : RSt) (a b : List RStep) : Sched st (a ++ b) ↔ Sched st a ∧ Sched (runS st a) b := by
  induction a generalizing st with
  | nil => simp [Sched, runS]
  | cons s a ih => simp only [List.cons_append, Sched, ih, runS, List.foldl_cons, and_assoc]

/-- the step closes, replaces or drops the subscription `(c, s)` -/
def touches (c : Conn) (s : String) : RStep → Bool
  | .subscribe c' s' _ => c' == c && s' == s
  | .unsubscribe c' s' => c' == c && s' == s
  | .unsubAll c' => c' == c
  | _ => false

/-- the step registers the subscription id `(c, s)` -/
def subscribes (c : Conn) (s : String) : RStep → Bool
  | .subscribe c' s' _ => c' == c && s' == s
  | _ => false

def subOf (st : RSt) (c : Conn) (s : String) : Option (List Filter) := alGet ((nGet st.reg c).getD []) s

/-- the registry only changes in the three registry steps -/
theorem reg_pubBegin (st : RSt) (p : Conn) (e : Event) : (st.step (.pubBegin p e)).1.reg = st.reg := rfl
theorem reg_pubEnd (st : RSt) (p : Conn) : (st.step (.pubEnd p)).1.reg = st.reg := rfl
theorem reg_deq (st : RSt) (c : Conn) : (st.step (.deq c)).1.reg = st.reg := by
  simp only [RSt.step]
  cases (nGet st.q c).getD [] <;> rfl
theorem reg_visit (st : RSt) (p c : Conn) : (st.step (.visit p c)).1.reg = st.reg := by
  simp only [RSt.step]
  cases nGet st.pubs p with
  | none => rfl
  | some pb =>
    simp only []
    cases matched ((nGet st.reg c).getD []) pb.e <;> rfl

/-- **an untouched subscription stays as it is** -/
theorem subOf_untouched (st : RSt) (x : RStep) (c : Conn) (s : String) (h : touches c s x = false) :
    subOf (st.step x).1 c s = subOf st c s := by
  cases x with
  | subscribe c' s' fs' =>
    simp only [touches, Bool.and_eq_false_iff, beq_eq_false_iff_ne] at h
    simp only [subOf, RSt.step]
    by_cases hc : c' = c
    · subst hc
      have hs : s ≠ s' := by
        rcases h with h | h
        · exact absurd rfl h
        · exact fun e => h e.symm
      rw [nGet_nSet_self, Option.getD_some, alGet_alSet_ne _ _ _ _ hs]
    · rw [nGet_nSet_ne _ _ _ _ (fun e => hc e.symm)]
  | unsubscribe c' s' =>
    simp only [touches, Bool.and_eq_false_iff, beq_eq_false_iff_ne] at h
    simp only [subOf, RSt.step]
    cases hr : nGet st.reg c' with
    | none => rfl
    | some subs =>
      simp only []
      by_cases hc : c' = c
      · subst hc
        have hs : s ≠ s' := by
          rcases h with h | h
          · exact absurd rfl h
          · exact fun e => h e.symm
        rw [nGet_nSet_self, Option.getD_some, alGet_alErase_ne _ _ _ hs, hr, Option.getD_some]
      · rw [nGet_nSet_ne _ _ _ _ (fun e => hc e.symm)]
  | unsubAll c' =>
    simp only [touches, beq_eq_false_iff_ne] at h
    simp only [subOf, RSt.step]
    rw [nGet_nErase_ne _ _ _ (fun e => h e.symm)]
  | pubBegin p e => simp only [subOf, reg_pubBegin]
  | pubEnd p => simp only [subOf, reg_pubEnd]
  | deq c' => simp only [subOf, reg_deq]
  | visit p c' => simp only [subOf, reg_visit]

/-- a subscription id that is not subscribed stays absent -/
theorem subOf_absent (st : RSt) (x : RStep) (c : Conn) (s : String) (h : subscribes c s x = false)
    (hn : subOf st c s = none) : subOf (st.step x).1 c s = none := by
  cases x with
  | subscribe c' s' fs' =>
    have ht : touches c s (.subscribe c' s' fs') = false := h
    rw [subOf_untouched st _ c s ht]; exact hn
  | unsubscribe c' s' =>
    simp only [subOf, RSt.step] at hn ⊢
    cases hr : nGet st.reg c' with
    | none => simpa [hr] using hn
    | some subs =>
      simp only []
      by_cases hc : c' = c
      · subst hc
        rw [nGet_nSet_self, Option.getD_some]
        by_cases hs : s = s'
        · subst hs; exact alGet_alErase_self _ _
        · rw [alGet_alErase_ne _ _ _ hs]; simpa [hr] using hn
      · rw [nGet_nSet_ne _ _ _ _ (fun e => hc e.symm)]; exact hn
  | unsubAll c' =>
    simp only [subOf, RSt.step] at hn ⊢
    by_cases hc : c' = c
    · subst hc; rw [nGet_nErase_self]; rfl
    · rw [nGet_nErase_ne _ _ _ (fun e => hc e.symm)]; exact hn
  | pubBegin p e => simpa only [subOf, reg_pubBegin] using hn
  | pubEnd p => simpa only [subOf, reg_pubEnd] using hn
  | deq c' => simpa only [subOf, reg_deq] using hn
  | visit p c' => simpa only [subOf, reg_visit] using hn

/-! ### a publish in progress -/

/-- publisher `p` is publishing `e` and has not yet visited `c` -/
def Pending (st : RSt) (p : Conn) (e : Event) (c : Conn) : Prop :=
  ∃ pb, nGet st.pubs p = some pb ∧ pb.e = e ∧ c ∈ pb.todo

/-- publisher `p` is publishing `e` and has visited `c` already (or never had to) -/
def Visited (st : RSt) (p : Conn) (e : Event) (c : Conn) : Prop :=
  ∃ pb, nGet st.pubs p = some pb ∧ pb.e = e ∧ c ∉ pb.todo

theorem nGet_mem_keys {β} (l : List (Conn × β)) (k : Conn) (v : β) (h : nGet l k = some v) : k ∈ l.map (·.1) := by
  induction l with
  | nil => simp [nGet] at h
  | cons x xs ih =>
    obtain ⟨a, b⟩ := x
    simp only [nGet, List.lookup_cons] at h
    by_cases hk : k = a
    · subst hk; simp
    · have : (k == a) = false := by simpa using hk
      simp only [this] at h
      exact List.mem_cons_of_mem _ (ih h)

/-- while `c` is still to be visited, no enabled step other than that visit ends or restarts the publish -/
theorem pending_step (st : RSt) (p c : Conn) (e : Event) (x : RStep) (hp : Pending st p e c)
    (hen : st.enabled x = true) (hx : x ≠ .visit p c) : Pending (st.step x).1 p e c := by
  obtain ⟨pb, h1, h2, h3⟩ := hp
  cases x with
  | subscribe c' s' fs' => exact ⟨pb, h1, h2, h3⟩
  | unsubscribe c' s' =>
    simp only [RSt.step]
    cases nGet st.reg c' <;> exact ⟨pb, h1, h2, h3⟩
  | unsubAll c' => exact ⟨pb, h1, h2, h3⟩
  | deq c' =>
    simp only [RSt.step]
    cases (nGet st.q c').getD [] <;> exact ⟨pb, h1, h2, h3⟩
  | pubBegin p' e' =>
    have hne : p ≠ p' := by
      rintro rfl
      simp [RSt.enabled, h1] at hen
    exact ⟨pb, by simp only [RSt.step]; rw [nGet_nSet_ne _ _ _ _ hne]; exact h1, h2, h3⟩
  | pubEnd p' =>
    have hne : p ≠ p' := by
      rintro rfl
      simp only [RSt.enabled, h1] at hen
      have : pb.todo = [] := by simpa using hen
      rw [this] at h3; cases h3
    exact ⟨pb, by simp only [RSt.step]; rw [nGet_nErase_ne _ _ _ hne]; exact h1, h2, h3⟩
  | visit p' c' =>
    simp only [RSt.step]
    cases hp' : nGet st.pubs p' with
    | none => exact ⟨pb, h1, h2, h3⟩
    | some pb' =>
      simp only []
      cases matched ((nGet st.reg c').getD []) pb'.e with
      | panic => exact ⟨pb, h1, h2, h3⟩
      | ok ms =>
        simp only []
        by_cases hpp : p' = p
        · subst hpp
          rw [h1] at hp'
          cases hp'
          have hcc : c ≠ c' := by rintro rfl; exact hx rfl
          exact ⟨_, nGet_nSet_self _ _ _, h2, List.mem_filter.2 ⟨h3, by simpa using hcc⟩⟩
        · exact ⟨pb, by rw [nGet_nSet_ne _ _ _ _ (fun e => hpp e.symm)]; exact h1, h2, h3⟩

/-- once `c` has been visited it is not visited again before the publish ends -/
theorem visited_step (st : RSt) (p c : Conn) (e : Event) (x : RStep) (hv : Visited st p e c)
    (hen : st.enabled x = true) (hx : x ≠ .pubEnd p) : Visited (st.step x).1 p e c ∧ x ≠ .visit p c := by
  obtain ⟨pb, h1, h2, h3⟩ := hv
  cases x with
  | subscribe c' s' fs' => exact ⟨⟨pb, h1, h2, h3⟩, by simp⟩
  | unsubscribe c' s' =>
    refine ⟨?_, by simp⟩
    simp only [RSt.step]
    cases nGet st.reg c' <;> exact ⟨pb, h1, h2, h3⟩
  | unsubAll c' => exact ⟨⟨pb, h1, h2, h3⟩, by simp⟩
  | deq c' =>
    refine ⟨?_, by simp⟩
    simp only [RSt.step]
    cases (nGet st.q c').getD [] <;> exact ⟨pb, h1, h2, h3⟩
  | pubBegin p' e' =>
    have hne : p ≠ p' := by
      rintro rfl
      simp [RSt.enabled, h1] at hen
    exact ⟨⟨pb, by simp only [RSt.step]; rw [nGet_nSet_ne _ _ _ _ hne]; exact h1, h2, h3⟩, by simp⟩
  | pubEnd p' =>
    have hne : p ≠ p' := by rintro rfl; exact hx rfl
    exact ⟨⟨pb, by simp only [RSt.step]; rw [nGet_nErase_ne _ _ _ hne]; exact h1, h2, h3⟩, by simp⟩
  | visit p' c' =>
    constructor
    · simp only [RSt.step]
      cases hp' : nGet st.pubs p' with
      | none => exact ⟨pb, h1, h2, h3⟩
      | some pb' =>
        simp only []
        cases matched ((nGet st.reg c').getD []) pb'.e with
        | panic => exact ⟨pb, h1, h2, h3⟩
        | ok ms =>
          simp only []
          by_cases hpp : p' = p
          · subst hpp
            rw [h1] at hp'
            cases hp'
            exact ⟨_, nGet_nSet_self _ _ _, h2, fun hm => h3 (List.mem_filter.1 hm).1⟩
          · exact ⟨pb, by rw [nGet_nSet_ne _ _ _ _ (fun e => hpp e.symm)]; exact h1, h2, h3⟩
    · intro heq
      cases heq
      simp only [RSt.enabled, h1] at hen
      exact h3 (by simpa using hen)

/-- a visit that does not panic takes `c` off the to-do list -/
theorem visit_makes_visited (st : RSt) (p c : Conn) (e : Event) (hp : Pending st p e c)
    (hnp : (st.step (.visit p c)).2 ≠ .panic) : Visited (st.step (.visit p c)).1 p e c := by
  obtain ⟨pb, h1, h2, h3⟩ := hp
  simp only [RSt.step, h1] at hnp ⊢
  cases hm : matched ((nGet st.reg c).getD []) pb.e with
  | panic => simp [hm] at hnp
  | ok ms =>
    simp only []
    exact ⟨_, nGet_nSet_self _ _ _, h2, fun hmem => by simpa using (List.mem_filter.1 hmem).2⟩

/-- the first visit of `c` by a publish that gets past it -/
theorem first_visit (p c : Conn) (e : Event) (mid : List RStep) :
    ∀ (st : RSt), Sched st mid → Pending st p e c → ¬ Pending (runS st mid) p e c →
      ∃ pre post, mid = pre ++ .visit p c :: post ∧ (∀ x ∈ pre, x ≠ .visit p c) ∧ Pending (runS st pre) p e c := by
  induction mid with
  | nil => intro st _ hp hn; exact absurd hp hn
  | cons x rest ih =>
    intro st hs hp hn
    by_cases hx : x = .visit p c
    · subst hx
      exact ⟨[], rest, rfl, by simp, hp⟩
    · obtain ⟨pre, post, he, hnv, hpend⟩ := ih (st.step x).1 hs.2 (pending_step st p c e x hp hs.1 hx) hn
      refine ⟨x :: pre, post, by rw [he]; rfl, ?_, hpend⟩
      intro y hy
      rcases List.mem_cons.1 hy with rfl | hy
      · exact hx
      · exact hnv y hy

theorem no_second_visit (p c : Conn) (e : Event) (post : List RStep) :
    ∀ (st : RSt), Sched st post → Visited st p e c → (∀ x ∈ post, x ≠ .pubEnd p) → ∀ x ∈ post, x ≠ .visit p c := by
  induction post with
  | nil => intro st _ _ _ x hx; cases hx
  | cons y rest ih =>
    intro st hs hv hne x hx
    obtain ⟨hv', hy⟩ := visited_step st p c e y hv hs.1 (hne y (by simp))
    rcases List.mem_cons.1 hx with rfl | hx
    · exact hy
    · exact ih _ hs.2 hv' (fun z hz => hne z (List.mem_cons_of_mem _ hz)) x hx

theorem subOf_run_untouched (c : Conn) (s : String) (steps : List RStep) :
    ∀ (st : RSt), (∀ x ∈ steps, touches c s x = false) → subOf (runS st steps) c s = subOf st c s := by
  induction steps with
  | nil => intro st _; rfl
  | cons x rest ih =>
    intro st h
    show subOf (runS (st.step x).1 rest) c s = _
    rw [ih _ (fun y hy => h y (List.mem_cons_of_mem _ hy)), subOf_untouched st x c s (h x (by simp))]

theorem subOf_run_absent (c : Conn) (s : String) (steps : List RStep) :
    ∀ (st : RSt), (∀ x ∈ steps, subscribes c s x = false) → subOf st c s = none → subOf (runS st steps) c s = none := by
  induction steps with
  | nil => intro st _ h; exact h
  | cons x rest ih =>
    intro st h hn
    exact ih _ (fun y hy => h y (List.mem_cons_of_mem _ hy)) (subOf_absent st x c s (h x (by simp)) hn)

/-- **C07, "must deliver", over every schedule.**  A subscription `(c, s)` with filters `fs` that is registered
    when `p` begins to publish `e`, and that no step touches while the publish is in progress, is visited by that
    publish in a state in which it is still registered with `fs`; the visit happens exactly once (when it does
    not panic, i.e. for events without empty tags). -/
theorem must_deliver (st : RSt) (p c : Conn) (e : Event) (s : String) (fs : List Filter) (mid : List RStep)
    (hreg : subOf st c s = some fs)
    (hs : Sched (st.step (.pubBegin p e)).1 mid)
    (hunt : ∀ x ∈ mid, touches c s x = false)
    (hnoend : ∀ x ∈ mid, x ≠ .pubEnd p)
    (hend : (runS (st.step (.pubBegin p e)).1 mid).enabled (.pubEnd p) = true) :
    ∃ pre post, mid = pre ++ .visit p c :: post ∧ (∀ x ∈ pre, x ≠ .visit p c) ∧
      subOf (runS (st.step (.pubBegin p e)).1 pre) c s = some fs ∧
      Pending (runS (st.step (.pubBegin p e)).1 pre) p e c ∧
      ((((runS (st.step (.pubBegin p e)).1 pre).step (.visit p c)).2 ≠ .panic) → ∀ x ∈ post, x ≠ .visit p c) := by
  have hc : c ∈ st.reg.map (·.1) := by
    cases hr : nGet st.reg c with
    | none => simp [subOf, hr, alGet] at hreg
    | some subs => exact nGet_mem_keys _ _ _ hr
  have hp0 : Pending (st.step (.pubBegin p e)).1 p e c := ⟨_, pubBegin_todo st p e, rfl, hc⟩
  have hn : ¬ Pending (runS (st.step (.pubBegin p e)).1 mid) p e c := by
    rintro ⟨pb, h1, _, h3⟩
    simp only [RSt.enabled, h1] at hend
    have : pb.todo = [] := by simpa using hend
    rw [this] at h3; cases h3
  obtain ⟨pre, post, he, hnv, hpend⟩ := first_visit p c e mid _ hs hp0 hn
  have hpre : ∀ x ∈ pre, touches c s x = false := fun x hx => hunt x (by rw [he]; simp [hx])
  refine ⟨pre, post, he, hnv, ?_, hpend, ?_⟩
  · rw [subOf_run_untouched c s pre _ hpre]
    show subOf (st.step (.pubBegin p e)).1 c s = some fs
    simp only [subOf, reg_pubBegin]; exact hreg
  · intro hnp
    -- after the visit `c` is off the to-do list
    have hs' : Sched (runS (st.step (.pubBegin p e)).1 pre) (.visit p c :: post) := by
      rw [he] at hs; exact ((sched_append _ _ _).1 hs).2
    have hvis := visit_makes_visited _ p c e hpend hnp
    exact no_second_visit p c e post _ hs'.2 hvis (fun x hx => hnoend x (by rw [he]; simp [hx]))

/-- **C07, "must not deliver", over every schedule.**  A subscription id that is not registered in a state and is not
    subscribed by any later step is not in the registry at any later visit of its connection, by any publisher. -/
theorem must_not_deliver (st : RSt) (p c : Conn) (s : String) (mid pre post : List RStep)
    (habs : subOf st c s = none) (hnos : ∀ x ∈ mid, subscribes c s x = false)
    (he : mid = pre ++ .visit p c :: post) :
    subOf (runS st pre) c s = none :=
  subOf_run_absent c s pre st (fun x hx => hnos x (by rw [he]; simp [hx])) habs

theorem alGet_mem {β} (l : List (String × β)) (k : String) (v : β) (h : alGet l k = some v) : (k, v) ∈ l := by
  induction l with
  | nil => simp [alGet] at h
  | cons x xs ih =>
    obtain ⟨a, b⟩ := x
    simp only [alGet, List.lookup_cons] at h
    by_cases hk : k = a
    · subst hk
      simp only [beq_self_eq_true, Option.some.injEq] at h
      subst h; simp
    · have : (k == a) = false := by simpa using hk
      simp only [this] at h
      exact List.mem_cons_of_mem _ (ih h)

/-- **the visit `must_deliver` finds delivers exactly once.**  In the state of that visit (subscription still
    registered, publish pending), with room in the connection's queue, the visit appends a batch in which
    `EVENT s e` occurs exactly once when the filters match `e` (NIP-01) and not at all otherwise. -/
theorem visit_delivers_once (st : RSt) (p c : Conn) (e : Event) (s : String) (fs : List Filter)
    (hpend : Pending st p e c) (hsub : subOf st c s = some fs) (hok : SubsOK st)
    (hwf : ∀ q ∈ (nGet st.reg c).getD [], ∀ f ∈ q.2, f.WF) (hne : C02.TagsNonEmpty e)
    (hroom : ((nGet st.q c).getD []).length + ((nGet st.reg c).getD []).length ≤ st.buflen) :
    ∃ added, nGet (st.step (.visit p c)).1.q c = some ((nGet st.q c).getD [] ++ added) ∧
      added.count (.event s e) = if nip01MatchAnyB fs e then 1 else 0 := by
  obtain ⟨pb, h1, h2, _⟩ := hpend
  subst h2
  refine ⟨owedTo st c pb.e, visit_delivers_all st p c pb h1 hwf hne hroom, ?_⟩
  exact owed_count st hok c pb.e s fs (alGet_mem _ _ _ hsub)

/-! non-vacuity: a two-connection schedule in which a subscribe of another id and a dequeue interleave with the publish -/
def exSched : List RStep := [.subscribe 2 "other" [{}], .visit 1 2, .deq 2, .visit 1 1]
def exSt0 : RSt := { buflen := 4, reg := [(1, [("s", [{ kinds := some [1] }])]), (2, [("t", [{}])])] }

example : Sched (exSt0.step (.pubBegin 1 exEv)).1 exSched := by
  simp only [exSched, Sched]
  decide
example : (runS (exSt0.step (.pubBegin 1 exEv)).1 exSched).enabled (.pubEnd 1) = true := by decide
example : subOf exSt0 1 "s" = some [{ kinds := some [1] }] := by decide
example : ∀ x ∈ exSched, touches 1 "s" x = false := by decide

end Moc.C07
