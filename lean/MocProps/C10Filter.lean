/-
  C10, the filter round trip (`filter_roundtrip`) and with it REQ and COUNT (`req_count_roundtrip`): the encoded
  object has distinct keys, every key is known, the tag keys are recognised by the byte-level test of the Go code
  (`isTagKey_hash`), every member is read back as written.
-/
import MocModel.Codec
import MocProps.C10
set_option linter.unusedSimpArgs false
set_option linter.unusedVariables false
namespace Moc.C10
open Moc

/-! ### objects with distinct keys -/

theorem lookup_of_mem_nodup {β} (l : List (String × β)) (k : String) (v : β) (hnd : (l.map Prod.fst).Nodup)
    (h : (k, v) ∈ l) : l.lookup k = some v := by
  induction l with
  | nil => cases h
  | cons x xs ih =>
    obtain ⟨a, b⟩ := x
    simp only [List.map_cons, List.nodup_cons] at hnd
    rcases List.mem_cons.1 h with h | h
    · cases h; simp [List.lookup_cons]
    · have hne : (k == a) = false := by
        have : k ≠ a := fun hka => hnd.1 (by rw [← hka]; exact List.mem_map.2 ⟨(k, v), h, rfl⟩)
        simpa using this
      simp only [List.lookup_cons, hne]
      exact ih hnd.2 h

theorem objGet_of_mem (kvs : List (String × JT)) (k : String) (v : JT) (hnd : (kvs.map Prod.fst).Nodup)
    (h : (k, v) ∈ kvs) : objGet kvs k = some v := by
  unfold objGet
  apply lookup_of_mem_nodup
  · rw [List.map_reverse]; exact (List.reverse_perm _).nodup_iff.2 hnd
  · simpa using h

theorem lookup_none_of_not_mem {β} (l : List (String × β)) (k : String) (h : k ∉ l.map Prod.fst) : l.lookup k = none := by
  induction l with
  | nil => rfl
  | cons x xs ih =>
    obtain ⟨a, b⟩ := x
    simp only [List.map_cons, List.mem_cons, not_or] at h
    have hne : (k == a) = false := by simpa using h.1
    simp only [List.lookup_cons, hne]
    exact ih h.2

theorem objGet_none (kvs : List (String × JT)) (k : String) (h : k ∉ kvs.map Prod.fst) : objGet kvs k = none := by
  unfold objGet
  apply lookup_none_of_not_mem
  simpa [List.map_reverse] using h

theorem eraseDups_nodup (l : List String) (h : l.Nodup) : l.eraseDups = l := by
  induction l with
  | nil => rfl
  | cons x xs ih =>
    obtain ⟨hx, hxs⟩ := List.nodup_cons.1 h
    rw [List.eraseDups_cons]
    have : xs.filter (fun b => !b == x) = xs := by
      rw [List.filter_eq_self]
      intro y hy
      have : y ≠ x := fun hyx => hx (hyx ▸ hy)
      simpa using this
    rw [this, ih hxs]

/-! ### tag keys -/

def isLetterChar (c : Char) : Bool := ('a' ≤ c && c ≤ 'z') || ('A' ≤ c && c ≤ 'Z')

/-- `"#x"` for an ASCII letter `x` is recognised as a tag key, by the byte-level test of the Go code -/
theorem isTagKey_hash (c : Char) (h : isLetterChar c = true) : isTagKey ("#" ++ String.ofList [c]) = true := by
  have hle : c.toNat ≤ 127 := by
    simp only [isLetterChar, Bool.or_eq_true, Bool.and_eq_true, decide_eq_true_eq] at h
    rcases h with ⟨_, h2⟩ | ⟨_, h2⟩
    · have : c.toNat ≤ 'z'.toNat := h2; exact Nat.le_trans this (by decide)
    · have : c.toNat ≤ 'Z'.toNat := h2; exact Nat.le_trans this (by decide)
  have hbytes : (("#" ++ String.ofList [c]).toList.flatMap String.utf8EncodeChar) = [35, UInt8.ofNat c.toNat] := by
    simp [String.toList_append, String.utf8EncodeChar, hle]
  have hsize : ("#" ++ String.ofList [c]).utf8ByteSize = 2 := by
    rw [String.utf8ByteSize_append]
    have h1 : (String.ofList [c]).utf8ByteSize = c.utf8Size := by simp [String.utf8ByteSize, List.utf8Encode]
    have h2 : c.utf8Size = 1 := by
      have : c.val ≤ 127 := by
        have : c.val.toNat ≤ 127 := hle
        exact UInt32.le_iff_toNat_le.2 (by simpa using this)
      simp [Char.utf8Size, this]
    rw [h1, h2]; rfl
  simp only [isTagKey, strByte, hbytes, hsize, Gen.filterKeyTag]
  simp only [isLetterChar, Bool.or_eq_true, Bool.and_eq_true, decide_eq_true_eq] at h
  have hn : (UInt8.ofNat c.toNat).toNat = c.toNat := by
    simp [UInt8.toNat_ofNat']; omega
  simp only [List.getD_cons_zero, List.getD_cons_succ, hn]
  rcases h with ⟨h1, h2⟩ | ⟨h1, h2⟩
  · have a : 'a'.toNat ≤ c.toNat := h1
    have b : c.toNat ≤ 'z'.toNat := h2
    have a' : (97 : Int) ≤ c.toNat := by have : 'a'.toNat = 97 := by decide
                                         omega
    have b' : (c.toNat : Int) ≤ 122 := by have : 'z'.toNat = 122 := by decide
                                          omega
    simp [a', b']
  · have a : 'A'.toNat ≤ c.toNat := h1
    have b : c.toNat ≤ 'Z'.toNat := h2
    have a' : (65 : Int) ≤ c.toNat := by have : 'A'.toNat = 65 := by decide
                                         omega
    have b' : (c.toNat : Int) ≤ 90 := by have : 'Z'.toNat = 90 := by decide
                                         omega
    simp [a', b']

/-! ### the members of an encoded filter -/

def tagKVs (l : List (String × List String)) : List (String × JT) :=
  l.map (fun c => ("#" ++ c.1, JT.arr (c.2.map .str)))

/-- an optional member -/
def piece (key : String) (o : Option JT) : List (String × JT) :=
  match o with
  | some v => [(key, v)]
  | none => []

def fixedKVs (f : Filter) : List (String × JT) :=
  piece "authors" (f.authors.map fun l => JT.arr (l.map .str)) ++
  piece "ids" (f.ids.map fun l => JT.arr (l.map .str)) ++
  piece "kinds" (f.kinds.map fun l => JT.arr (l.map .int)) ++
  piece "limit" (f.limit.map JT.int) ++
  piece "since" (f.since.map JT.int) ++
  piece "until" (f.until_.map JT.int)

theorem encodeFilter_eq (f : Filter) : encodeFilter f = .obj (tagKVs (f.tags.getD []) ++ fixedKVs f) := by
  unfold encodeFilter fixedKVs tagKVs piece
  cases f.tags <;> cases f.authors <;> cases f.ids <;> cases f.kinds <;> cases f.limit <;> cases f.since <;>
    cases f.until_ <;> simp

theorem objGet_append (a b : List (String × JT)) (k : String) :
    objGet (a ++ b) k = (objGet b k).or (objGet a k) := by
  unfold objGet
  rw [List.reverse_append]
  generalize b.reverse = x
  generalize a.reverse = y
  induction x with
  | nil => simp
  | cons p ps ih =>
    obtain ⟨pk, pv⟩ := p
    simp only [List.cons_append, List.lookup_cons]
    split
    · simp
    · exact ih

theorem objGet_piece (key : String) (o : Option JT) (k : String) :
    objGet (piece key o) k = if k = key then o else none := by
  cases o with
  | none => simp [piece, objGet]
  | some v =>
    by_cases h : k = key
    · simp [piece, objGet, List.lookup_cons, h]
    · have : (k == key) = false := by simpa using h
      simp [piece, objGet, List.lookup_cons, this, h]

/-- a key that does not start with `#` is not among the tag members -/
theorem objGet_tags_other (l : List (String × List String)) (k : String) (h : k.toList.head? ≠ some '#') :
    objGet (tagKVs l) k = none := by
  apply objGet_none
  intro hm
  simp only [tagKVs, List.map_map, List.mem_map, Function.comp] at hm
  obtain ⟨c, _, hc⟩ := hm
  apply h
  rw [← hc]
  simp [String.toList_append]

theorem objGet_fixed (f : Filter) (k : String) :
    objGet (fixedKVs f) k =
      if k = "until" then f.until_.map JT.int
      else if k = "since" then f.since.map JT.int
      else if k = "limit" then f.limit.map JT.int
      else if k = "kinds" then f.kinds.map (fun l => JT.arr (l.map .int))
      else if k = "ids" then f.ids.map (fun l => JT.arr (l.map .str))
      else if k = "authors" then f.authors.map (fun l => JT.arr (l.map .str))
      else none := by
  unfold fixedKVs
  simp only [objGet_append, objGet_piece]
  by_cases h1 : k = "until"
  · subst h1; cases f.until_ <;> simp
  · by_cases h2 : k = "since"
    · subst h2; cases f.since <;> simp
    · by_cases h3 : k = "limit"
      · subst h3; cases f.limit <;> simp
      · by_cases h4 : k = "kinds"
        · subst h4; cases f.kinds <;> simp
        · by_cases h5 : k = "ids"
          · subst h5; cases f.ids <;> simp
          · by_cases h6 : k = "authors"
            · subst h6; cases f.authors <;> simp
            · simp [h1, h2, h3, h4, h5, h6]

/-- a filter as `ReqFilter.Valid` admits it, for the round trip: tag conditions (if any) are non-empty, their names
    distinct single ASCII letters; every integer fits an int64 -/
structure FilterRT (f : Filter) : Prop where
  tagsNE : f.tags ≠ some []
  names : ∀ l, f.tags = some l → (l.map Prod.fst).Nodup ∧ ∀ c ∈ l, ∃ ch, c.1 = String.ofList [ch] ∧ isLetterChar ch = true
  kinds : ∀ l, f.kinds = some l → ∀ i ∈ l, inInt64 i = true
  since : ∀ i, f.since = some i → inInt64 i = true
  until_ : ∀ i, f.until_ = some i → inInt64 i = true
  limit : ∀ i, f.limit = some i → inInt64 i = true

def fixedNames : List String := ["authors", "ids", "kinds", "limit", "since", "until"]

theorem piece_keys_sublist (key : String) (o : Option JT) : ((piece key o).map Prod.fst).Sublist [key] := by
  cases o <;> simp [piece]

theorem fixed_keys_sublist (f : Filter) : ((fixedKVs f).map Prod.fst).Sublist fixedNames := by
  unfold fixedKVs fixedNames
  simp only [List.map_append]
  have h := fun (k : String) (o : Option JT) => piece_keys_sublist k o
  exact ((((((h _ _).append (h _ _)).append (h _ _)).append (h _ _)).append (h _ _)).append (h _ _))

theorem tag_keys (l : List (String × List String)) : (tagKVs l).map Prod.fst = l.map (fun c => "#" ++ c.1) := by
  simp [tagKVs, List.map_map, Function.comp_def]

theorem hash_inj (a b : String) (h : "#" ++ a = "#" ++ b) : a = b := by
  have := congrArg String.toList h
  simp only [String.toList_append, List.append_cancel_left_eq] at this
  exact String.toList_injective this

theorem nodup_map_inj {α β} (g : α → β) (hg : ∀ a b, g a = g b → a = b) (l : List α) (h : l.Nodup) : (l.map g).Nodup := by
  induction l with
  | nil => simp
  | cons x xs ih =>
    obtain ⟨hx, hxs⟩ := List.nodup_cons.1 h
    simp only [List.map_cons, List.nodup_cons]
    refine ⟨?_, ih hxs⟩
    intro hm
    obtain ⟨y, hy, hyx⟩ := List.mem_map.1 hm
    exact hx (hg y x hyx ▸ hy)

theorem keys_nodup (f : Filter) (hf : FilterRT f) :
    ((tagKVs (f.tags.getD []) ++ fixedKVs f).map Prod.fst).Nodup := by
  rw [List.map_append, List.nodup_append]
  refine ⟨?_, (fixed_keys_sublist f).nodup (by decide), ?_⟩
  · rw [tag_keys]
    cases ht : f.tags with
    | none => simp
    | some l =>
      simp only [Option.getD_some]
      have := (hf.names l ht).1
      -- "#" ++ · is injective
      have hmap : (l.map (fun c => "#" ++ c.1)) = (l.map Prod.fst).map (fun k => "#" ++ k) := by
        simp [List.map_map, Function.comp_def]
      rw [hmap]
      exact nodup_map_inj _ (fun a b h => hash_inj a b h) _ this
  · intro a ha b hb hab
    subst hab
    rw [tag_keys] at ha
    obtain ⟨c, _, hc⟩ := List.mem_map.1 ha
    have hb' := (fixed_keys_sublist f).subset hb
    rw [← hc] at hb'
    simp only [fixedNames, List.mem_cons, List.not_mem_nil, or_false] at hb'
    rcases hb' with h | h | h | h | h | h <;>
      (have := congrArg (fun s => s.toList.head?) h; simp [String.toList_append] at this)

theorem fixed_not_tagKey (k : String) (h : k ∈ fixedNames) : isTagKey k = false ∧ knownFilterKey k = true := by
  simp only [fixedNames, List.mem_cons, List.not_mem_nil, or_false] at h
  rcases h with rfl | rfl | rfl | rfl | rfl | rfl <;> decide

theorem objGet_tag (l : List (String × List String)) (hnd : (l.map Prod.fst).Nodup) (c : String × List String)
    (hc : c ∈ l) : objGet (tagKVs l) ("#" ++ c.1) = some (.arr (c.2.map .str)) := by
  apply objGet_of_mem
  · rw [tag_keys]
    have hmap : (l.map (fun c => "#" ++ c.1)) = (l.map Prod.fst).map (fun k => "#" ++ k) := by
      simp [List.map_map, Function.comp_def]
    rw [hmap]
    exact nodup_map_inj _ (fun a b h => hash_inj a b h) _ hnd
  · exact List.mem_map.2 ⟨c, hc, rfl⟩

/-- the tag conditions are read back as they were written -/
theorem decTagConds_tags (kvs : List (String × JT)) (l all : List (String × List String))
    (hget : ∀ c ∈ l, objGet kvs ("#" ++ c.1) = some (.arr (c.2.map .str))) :
    decTagConds kvs (l.map (fun c => "#" ++ c.1)) = .ok l := by
  induction l with
  | nil => rfl
  | cons c cs ih =>
    simp only [List.map_cons, decTagConds, hget c (by simp), decStrsStrict_map,
      ih (fun d hd => hget d (List.mem_cons_of_mem _ hd)), bind, Except.bind, pure, Except.pure]
    congr 2
    apply Prod.ext
    · simp only []
      apply String.toList_injective
      simp [String.toList_append]
    · rfl

/-- **C10, filter round trip.**  For every filter whose tag conditions are non-empty with distinct single ASCII
    letter names and whose integers fit an int64, decoding its encoding gives the filter back - all seven members,
    present or absent, and every tag condition with its values. -/
theorem filter_roundtrip (f : Filter) (hf : FilterRT f) : decodeFilter (encodeFilter f) = .ok f := by
  rw [encodeFilter_eq]
  have hnd := keys_nodup f hf
  -- the keys of the object, and which of them are tag keys
  have hkeys : objKeys (tagKVs (f.tags.getD []) ++ fixedKVs f) =
      (f.tags.getD []).map (fun c => "#" ++ c.1) ++ (fixedKVs f).map Prod.fst := by
    unfold objKeys
    rw [eraseDups_nodup _ hnd, List.map_append, tag_keys]
  have htagkey : ∀ c ∈ f.tags.getD [], isTagKey ("#" ++ c.1) = true := by
    intro c hc
    cases ht : f.tags with
    | none => rw [ht] at hc; cases hc
    | some l =>
      rw [ht] at hc
      obtain ⟨ch, hch, hl⟩ := (hf.names l ht).2 c hc
      rw [hch]; exact isTagKey_hash ch hl
  have hknown : (objKeys (tagKVs (f.tags.getD []) ++ fixedKVs f)).all knownFilterKey = true := by
    rw [hkeys, List.all_append, Bool.and_eq_true]
    constructor
    · rw [List.all_eq_true]
      intro k hk
      obtain ⟨c, hc, rfl⟩ := List.mem_map.1 hk
      simp [knownFilterKey, htagkey c hc]
    · rw [List.all_eq_true]
      intro k hk
      exact (fixed_not_tagKey k ((fixed_keys_sublist f).subset hk)).2
  have htk : (objKeys (tagKVs (f.tags.getD []) ++ fixedKVs f)).filter isTagKey =
      (f.tags.getD []).map (fun c => "#" ++ c.1) := by
    rw [hkeys, List.filter_append]
    have h1 : ((f.tags.getD []).map (fun c => "#" ++ c.1)).filter isTagKey = (f.tags.getD []).map (fun c => "#" ++ c.1) := by
      rw [List.filter_eq_self]
      intro k hk
      obtain ⟨c, hc, rfl⟩ := List.mem_map.1 hk
      exact htagkey c hc
    have h2 : ((fixedKVs f).map Prod.fst).filter isTagKey = [] := by
      rw [List.filter_eq_nil_iff]
      intro k hk
      simp [(fixed_not_tagKey k ((fixed_keys_sublist f).subset hk)).1]
    rw [h1, h2, List.append_nil]
  -- reading the fixed members
  have hfix : ∀ k ∈ fixedNames, objGet (tagKVs (f.tags.getD []) ++ fixedKVs f) k = objGet (fixedKVs f) k := by
    intro k hk
    rw [objGet_append, objGet_tags_other]
    · simp
    · simp only [fixedNames, List.mem_cons, List.not_mem_nil, or_false] at hk
      rcases hk with rfl | rfl | rfl | rfl | rfl | rfl <;> decide
  have hgtag : ∀ c ∈ f.tags.getD [], objGet (tagKVs (f.tags.getD []) ++ fixedKVs f) ("#" ++ c.1) = some (.arr (c.2.map .str)) := by
    intro c hc
    rw [objGet_append]
    have hnone : objGet (fixedKVs f) ("#" ++ c.1) = none := by
      apply objGet_none
      intro hm
      have := (fixed_keys_sublist f).subset hm
      simp only [fixedNames, List.mem_cons, List.not_mem_nil, or_false] at this
      rcases this with h | h | h | h | h | h <;>
        (have := congrArg (fun s => s.toList.head?) h; simp [String.toList_append] at this)
    rw [hnone]
    simp only [Option.none_or]
    cases ht : f.tags with
    | none => rw [ht] at hc; cases hc
    | some l =>
      rw [ht] at hc
      simp only [Option.getD_some]
      exact objGet_tag l (hf.names l ht).1 c hc
  -- each member is read back
  have gids : objGet (tagKVs (f.tags.getD []) ++ fixedKVs f) "ids" = f.ids.map (fun l => JT.arr (l.map .str)) := by
    rw [hfix "ids" (by decide), objGet_fixed]; simp (config := { decide := true })
  have gauthors : objGet (tagKVs (f.tags.getD []) ++ fixedKVs f) "authors" = f.authors.map (fun l => JT.arr (l.map .str)) := by
    rw [hfix "authors" (by decide), objGet_fixed]; simp (config := { decide := true })
  have gkinds : objGet (tagKVs (f.tags.getD []) ++ fixedKVs f) "kinds" = f.kinds.map (fun l => JT.arr (l.map .int)) := by
    rw [hfix "kinds" (by decide), objGet_fixed]; simp (config := { decide := true })
  have gsince : objGet (tagKVs (f.tags.getD []) ++ fixedKVs f) "since" = f.since.map JT.int := by
    rw [hfix "since" (by decide), objGet_fixed]; simp (config := { decide := true })
  have guntil : objGet (tagKVs (f.tags.getD []) ++ fixedKVs f) "until" = f.until_.map JT.int := by
    rw [hfix "until" (by decide), objGet_fixed]; simp (config := { decide := true })
  have glimit : objGet (tagKVs (f.tags.getD []) ++ fixedKVs f) "limit" = f.limit.map JT.int := by
    rw [hfix "limit" (by decide), objGet_fixed]; simp (config := { decide := true })
  have dids : decOptStrs (tagKVs (f.tags.getD []) ++ fixedKVs f) "ids" = .ok f.ids := by
    unfold decOptStrs; rw [gids]
    cases f.ids with
    | none => rfl
    | some l => simp [decStrsStrict_map, Except.map]
  have dauthors : decOptStrs (tagKVs (f.tags.getD []) ++ fixedKVs f) "authors" = .ok f.authors := by
    unfold decOptStrs; rw [gauthors]
    cases f.authors with
    | none => rfl
    | some l => simp [decStrsStrict_map, Except.map]
  have dint : ∀ (k : String) (o : Option Int), objGet (tagKVs (f.tags.getD []) ++ fixedKVs f) k = o.map JT.int →
      (∀ i, o = some i → inInt64 i = true) → decOptInt (tagKVs (f.tags.getD []) ++ fixedKVs f) k = .ok o := by
    intro k o hg hin
    unfold decOptInt; rw [hg]
    cases o with
    | none => rfl
    | some i => simp [decInt64, hin i rfl, Except.map]
  have dkinds : decOptInts (tagKVs (f.tags.getD []) ++ fixedKVs f) "kinds" = .ok f.kinds := by
    unfold decOptInts; rw [gkinds]
    cases hk : f.kinds with
    | none => rfl
    | some l => simp [decInts_map l (hf.kinds l hk), Except.map]
  simp only [decodeFilter, hknown, Bool.not_true, Bool.false_eq_true, if_false, htk]
  rw [decTagConds_tags _ _ [] hgtag, dids, dauthors, dkinds, dint "since" f.since gsince hf.since,
    dint "until" f.until_ guntil hf.until_, dint "limit" f.limit glimit hf.limit]
  simp only [bind, Except.bind, pure, Except.pure]
  congr 1
  -- the tags member: absent iff there was none
  obtain ⟨ids, authors, kinds, tags, since, until_, limit⟩ := f
  cases tags with
  | none => simp
  | some l =>
    cases l with
    | nil => exact absurd rfl hf.tagsNE
    | cons c cs => simp

theorem decFilters_map (fs : List Filter) (h : ∀ f ∈ fs, FilterRT f) : decFilters (fs.map encodeFilter) = .ok fs := by
  induction fs with
  | nil => rfl
  | cons f fs ih =>
    simp only [List.map_cons, decFilters, filter_roundtrip f (h f (by simp)),
      ih (fun g hg => h g (List.mem_cons_of_mem _ hg)), bind, Except.bind, pure, Except.pure]

/-- **C10, REQ and COUNT round trip**: for every subscription id and every non-empty list of well-formed filters -/
theorem req_count_roundtrip (sub : String) (fs : List Filter) (hne : fs ≠ []) (h : ∀ f ∈ fs, FilterRT f) :
    decodeClientReq (encodeClientMsg (.req sub fs)) = .ok (.req sub fs) ∧
    decodeClientCount (encodeClientMsg (.count sub fs)) = .ok (.count sub fs) := by
  have hlen : ¬ ((((fs.map encodeFilter).length : Nat) : Int) + 1 + 1 < 3) := by
    cases fs with
    | nil => exact absurd rfl hne
    | cons f fs => simp; omega
  have hd := decFilters_map fs h
  constructor
  · simp [decodeClientReq, encodeClientMsg, decRawArray, decStr, Gen.arityClientReq, Gen.labelBadClientReq, Gen.labelReq,
      hd, bind, Except.bind, pure, Except.pure, throw, throwThe, MonadExceptOf.throw]
    cases fs with
    | nil => exact absurd rfl hne
    | cons f fs => simp; omega
  · simp [decodeClientCount, encodeClientMsg, decRawArray, decStr, Gen.arityClientCount, Gen.labelBadClientCount,
      Gen.labelCount, hd, bind, Except.bind, pure, Except.pure, throw, throwThe, MonadExceptOf.throw]
    cases fs with
    | nil => exact absurd rfl hne
    | cons f fs => simp; omega

end Moc.C10
