/-
  Helper lemmas for C02 (kept apart from the property theorems in C02.lean).
-/
import MocModel.Matcher
import MocModel.Spec.Nip01
import Batteries.Data.List.Perm

namespace Moc.C02

open Moc

/-! ### the Bool monitor is the Prop spec -/

theorem hasTagB_iff (e : Event) (k : String) (vs : List String) :
    hasTagB e k vs = true ↔ hasTag e k vs := by
  unfold hasTagB hasTag
  simp [List.any_eq_true]

theorem nip01MatchB_iff (f : Filter) (e : Event) : nip01MatchB f e = true ↔ nip01Match f e := by
  unfold nip01MatchB nip01Match listedOr tagsOkB sinceOkB untilOkB
  rcases f with ⟨ids, authors, kinds, tags, since, until_, limit⟩
  cases ids <;> cases authors <;> cases kinds <;> cases tags <;> cases since <;> cases until_ <;>
    simp [hasTagB_iff, List.all_eq_true, and_assoc]

/-! ### the value picked by the loop is `tagValue` -/

theorem loop_value (t : List String) : loopValue t = tagValue t := by
  unfold loopValue
  match t with
  | [] => simp [Gen.tagHasValue, tagValue]
  | [_] => simp [Gen.tagHasValue, tagValue]
  | _ :: v :: r => simp [Gen.tagHasValue, tagValue]; omega

/-! ### `condListed` -/

theorem condListed_iff (conds : List (String × List String)) (hnd : (conds.map Prod.fst).Nodup)
    (k v : String) : condListed conds k v = true ↔ ∃ c ∈ conds, c.1 = k ∧ v ∈ c.2 := by
  unfold condListed
  induction conds with
  | nil => simp [List.lookup]
  | cons c cs ih =>
    rcases c with ⟨ck, cvs⟩
    simp only [List.map_cons, List.nodup_cons] at hnd
    simp only [List.lookup]
    by_cases hk : k = ck
    · subst hk
      simp only [beq_self_eq_true]
      constructor
      · intro h; exact ⟨(k, cvs), by simp, rfl, by simpa using h⟩
      · rintro ⟨c', hc', hc1, hv⟩
        simp only [List.mem_cons] at hc'
        rcases hc' with rfl | hc'
        · simpa using hv
        · exfalso; apply hnd.1; rw [← hc1]; exact List.mem_map_of_mem (f := Prod.fst) hc'
    · have : (k == ck) = false := by simpa using hk
      simp only [this]
      rw [ih hnd.2]
      constructor
      · rintro ⟨c', hc', h1, h2⟩; exact ⟨c', List.mem_cons_of_mem _ hc', h1, h2⟩
      · rintro ⟨c', hc', h1, h2⟩
        simp only [List.mem_cons] at hc'
        rcases hc' with rfl | hc'
        · exact absurd h1.symm hk
        · exact ⟨c', hc', h1, h2⟩

theorem nodup_map_fst_inj (conds : List (String × List String)) (hnd : (conds.map Prod.fst).Nodup)
    (a b : String × List String) (ha : a ∈ conds) (hb : b ∈ conds) (h : a.1 = b.1) : a = b := by
  induction conds with
  | nil => cases ha
  | cons c cs ih =>
    simp only [List.map_cons, List.nodup_cons] at hnd
    simp only [List.mem_cons] at ha hb
    rcases ha with rfl | ha <;> rcases hb with rfl | hb
    · rfl
    · exfalso; apply hnd.1; rw [h]; exact List.mem_map_of_mem (f := Prod.fst) hb
    · exfalso; apply hnd.1; rw [← h]; exact List.mem_map_of_mem (f := Prod.fst) ha
    · exact ih hnd.2 ha hb

/-! ### the `found` loop -/

/-- what the loop adds: names of tags with a listed value -/
def Hit (conds : List (String × List String)) (tags : List (List String)) (k : String) : Prop :=
  ∃ t ∈ tags, tagName? t = some k ∧ condListed conds k (tagValue t) = true

theorem foundLoop_spec (conds : List (String × List String)) :
    ∀ (tags : List (List String)) (found : List String),
      (∀ t ∈ tags, t ≠ []) → found.Nodup →
      ∃ r, foundLoop conds tags found = .ok r ∧ r.Nodup ∧
        ∀ k, k ∈ r ↔ (k ∈ found ∨ Hit conds tags k) := by
  intro tags
  induction tags with
  | nil =>
    intro found _ hnd
    exact ⟨found, rfl, hnd, by intro k; simp [Hit]⟩
  | cons t ts ih =>
    intro found hne hnd
    have hts : ∀ t ∈ ts, t ≠ [] := fun t ht => hne t (List.mem_cons_of_mem _ ht)
    cases t with
    | nil => exact absurd rfl (hne [] (by simp))
    | cons k rest =>
      unfold foundLoop
      rw [loop_value]
      by_cases hf : found.contains k = true
      · simp only [hf, if_true]
        obtain ⟨r, hr, hrnd, hrm⟩ := ih found hts hnd
        refine ⟨r, hr, hrnd, ?_⟩
        intro k'
        rw [hrm k']
        constructor
        · rintro (h | ⟨t, ht, h1, h2⟩)
          · exact Or.inl h
          · exact Or.inr ⟨t, List.mem_cons_of_mem _ ht, h1, h2⟩
        · rintro (h | ⟨t, ht, h1, h2⟩)
          · exact Or.inl h
          · simp only [List.mem_cons] at ht
            rcases ht with rfl | ht
            · simp only [tagName?, Option.some.injEq] at h1
              subst h1
              exact Or.inl (by simpa using hf)
            · exact Or.inr ⟨t, ht, h1, h2⟩
      · have hf' : found.contains k = false := by simpa using hf
        simp only [hf', Bool.false_eq_true, if_false]
        by_cases hc : condListed conds k (tagValue (k :: rest)) = true
        · simp only [hc, if_true]
          have hnd' : (k :: found).Nodup := by
            simp only [List.nodup_cons]
            exact ⟨by simpa using hf', hnd⟩
          obtain ⟨r, hr, hrnd, hrm⟩ := ih (k :: found) hts hnd'
          refine ⟨r, hr, hrnd, ?_⟩
          intro k'
          rw [hrm k']
          constructor
          · rintro (h | ⟨t, ht, h1, h2⟩)
            · simp only [List.mem_cons] at h
              rcases h with rfl | h
              · exact Or.inr ⟨k' :: rest, by simp, rfl, hc⟩
              · exact Or.inl h
            · exact Or.inr ⟨t, List.mem_cons_of_mem _ ht, h1, h2⟩
          · rintro (h | ⟨t, ht, h1, h2⟩)
            · exact Or.inl (List.mem_cons_of_mem _ h)
            · simp only [List.mem_cons] at ht
              rcases ht with rfl | ht
              · simp only [tagName?, Option.some.injEq] at h1
                subst h1
                exact Or.inl (by simp)
              · exact Or.inr ⟨t, ht, h1, h2⟩
        · have hc' : condListed conds k (tagValue (k :: rest)) = false := by simpa using hc
          simp only [hc', Bool.false_eq_true, if_false]
          obtain ⟨r, hr, hrnd, hrm⟩ := ih found hts hnd
          refine ⟨r, hr, hrnd, ?_⟩
          intro k'
          rw [hrm k']
          constructor
          · rintro (h | ⟨t, ht, h1, h2⟩)
            · exact Or.inl h
            · exact Or.inr ⟨t, List.mem_cons_of_mem _ ht, h1, h2⟩
          · rintro (h | ⟨t, ht, h1, h2⟩)
            · exact Or.inl h
            · simp only [List.mem_cons] at ht
              rcases ht with rfl | ht
              · simp only [tagName?, Option.some.injEq] at h1
                subst h1
                rw [hc'] at h2; exact absurd h2 (by simp)
              · exact Or.inr ⟨t, ht, h1, h2⟩

/-- pigeonhole: a duplicate-free `r` inside the duplicate-free key list is as long as the
    key list iff it contains every key -/
theorem length_lt_iff_missing (r keys : List String) (hr : r.Nodup) (hk : keys.Nodup)
    (hsub : ∀ k ∈ r, k ∈ keys) : (r.length < keys.length) ↔ ¬ (∀ k ∈ keys, k ∈ r) := by
  constructor
  · intro hlt hall
    have : keys.length ≤ r.length := List.Nodup.length_le_of_subset hk hall
    omega
  · intro hnot
    have hle : r.length ≤ keys.length := List.Nodup.length_le_of_subset hr hsub
    rcases Nat.lt_or_ge r.length keys.length with h | h
    · exact h
    · exfalso
      apply hnot
      have hsp : List.Subperm r keys := List.subperm_of_subset hr hsub
      have hp : List.Perm r keys := hsp.perm_of_length_le h
      intro k hk'
      exact hp.mem_iff.mpr hk'

/-! ### every test of `Match` is the negation of one conjunct of the spec -/

theorem ids_step (f : Filter) (e : Event) :
    Gen.idsReject f.ids.isSome (listedOr false f.ids e.id)
      = !(listedOr true f.ids e.id) := by
  cases f.ids <;> simp [Gen.idsReject, listedOr]

theorem kinds_step (f : Filter) (e : Event) :
    Gen.kindsReject f.kinds.isSome (listedOr false f.kinds e.kind)
      = !(listedOr true f.kinds e.kind) := by
  cases f.kinds <;> simp [Gen.kindsReject, listedOr]

theorem authors_step (f : Filter) (e : Event) :
    Gen.authorsReject f.authors.isSome (listedOr false f.authors e.pubkey)
      = !(listedOr true f.authors e.pubkey) := by
  cases f.authors <;> simp [Gen.authorsReject, listedOr]

theorem since_step (f : Filter) (e : Event) :
    (Gen.sinceChecked f.since.isSome && Gen.sinceReject e.createdAt (f.since.getD 0))
      = !(sinceOkB f.since e.createdAt) := by
  cases f.since with
  | none => simp [Gen.sinceChecked, sinceOkB]
  | some s =>
    simp only [sinceOkB, Gen.sinceChecked, Gen.sinceReject, Option.isSome_some, Option.getD_some, Bool.true_and]
    by_cases h : s ≤ e.createdAt
    · have : ¬ e.createdAt < s := by omega
      simp [h, this]
    · have : e.createdAt < s := by omega
      simp [h, this]

theorem until_step (f : Filter) (e : Event) :
    (Gen.untilChecked f.until_.isSome && Gen.untilReject e.createdAt (f.until_.getD 0))
      = !(untilOkB f.until_ e.createdAt) := by
  cases f.until_ with
  | none => simp [Gen.untilChecked, untilOkB]
  | some u =>
    simp only [untilOkB, Gen.untilChecked, Gen.untilReject, Option.isSome_some, Option.getD_some, Bool.true_and]
    by_cases h : e.createdAt ≤ u
    · have : ¬ u < e.createdAt := by omega
      simp [h, this]
    · have : u < e.createdAt := by omega
      simp [h, this]

/-- the whole tag step: the loop never panics on events without empty tags, and the
    `len(found) < len(m.f.Tags)` test is the negation of "every #x condition has a hit" -/
theorem tags_step (f : Filter) (e : Event) (hwf : f.WF) (hne : ∀ t ∈ e.tags, t ≠ []) :
    ∃ r, foundLoop (f.tags.getD []) e.tags [] = .ok r ∧
      (if Gen.tagsChecked f.tags.isSome then
          (Res.ok (Gen.tagsReject r.length (f.tags.getD []).length) : Res Bool) else .ok false)
        = .ok (!(tagsOkB f.tags e)) := by
  obtain ⟨r, hr, hrnd, hrm⟩ := foundLoop_spec (f.tags.getD []) e.tags [] hne List.nodup_nil
  refine ⟨r, hr, ?_⟩
  cases htags : f.tags with
  | none => simp [Gen.tagsChecked, tagsOkB]
  | some conds =>
    rw [htags] at hr hrm
    simp only [Option.getD_some] at hr hrm
    have hnd : (conds.map Prod.fst).Nodup := hwf conds htags
    have hsub : ∀ k ∈ r, k ∈ conds.map Prod.fst := by
      intro k hk
      rcases (hrm k).1 hk with h | ⟨t, _, _, h2⟩
      · cases h
      · obtain ⟨c, hc', hc1, _⟩ := (condListed_iff conds hnd k _).1 h2
        exact List.mem_map.2 ⟨c, hc', hc1⟩
    have hlen := length_lt_iff_missing r (conds.map Prod.fst) hrnd hnd hsub
    simp only [List.length_map] at hlen
    have hall : (∀ k ∈ conds.map Prod.fst, k ∈ r) ↔ (conds.all fun c => hasTagB e c.1 c.2) = true := by
      simp only [List.all_eq_true, hasTagB_iff]
      constructor
      · intro h c hc'
        have hk : c.1 ∈ r := h c.1 (List.mem_map_of_mem (f := Prod.fst) hc')
        rcases (hrm c.1).1 hk with h' | ⟨t, ht, h1, h2⟩
        · cases h'
        · obtain ⟨c', hc'', hc1, hv⟩ := (condListed_iff conds hnd c.1 _).1 h2
          have hcc : c' = c := nodup_map_fst_inj conds hnd c' c hc'' hc' hc1
          subst hcc
          exact ⟨t, ht, h1, hv⟩
      · intro h k hk
        obtain ⟨c, hc', rfl⟩ := List.mem_map.1 hk
        obtain ⟨t, ht, h1, hv⟩ := h c hc'
        exact (hrm c.1).2 (Or.inr ⟨t, ht, h1, (condListed_iff conds hnd c.1 _).2 ⟨c, hc', rfl, hv⟩⟩)
    simp only [tagsOkB, Gen.tagsChecked, Gen.tagsReject, Option.isSome_some, if_true, Option.getD_some]
    by_cases hb : (conds.all fun c => hasTagB e c.1 c.2) = true
    · have : ¬ ((r.length : Int) < (conds.length : Int)) := by
        intro hlt
        have : r.length < conds.length := by omega
        exact (hlen.1 this) (hall.2 hb)
      simp [hb, this]
    · have hb' : (conds.all fun c => hasTagB e c.1 c.2) = false := by simpa using hb
      have h1 : r.length < conds.length := hlen.2 (fun h => hb (hall.1 h))
      have : (r.length : Int) < (conds.length : Int) := by omega
      simp [hb', this]

end Moc.C02
