/-
  Helper lemmas about the concrete cache model (MocModel/CacheC.lean): the index as a finite map of sets,
  the tree as a sorted list.  Used by C04Refine.
-/
import MocModel.CacheC
import MocProps.CacheLemmas
import MocProps.C03Find

namespace Moc.CacheCL
open Moc Moc.CacheL Moc.C03

/-! ### the index as an association list -/

theorem lookup_filter_ne (idx : Idx) (k k' : IdxKey) :
    List.lookup k' (idx.filter (fun p => p.1 != k)) = if k' = k then none else List.lookup k' idx := by
  induction idx with
  | nil => simp
  | cons p ps ih =>
    obtain ⟨pk, pv⟩ := p
    by_cases hpk : pk = k
    · subst hpk
      simp only [List.filter_cons, bne_self_eq_false, Bool.false_eq_true, if_false, ih, List.lookup_cons]
      by_cases h : k' = pk
      · simp [h]
      · have : (k' == pk) = false := by simpa using h
        simp [h, this]
    · have hne : (pk != k) = true := by simpa using hpk
      simp only [List.filter_cons, hne, if_true, List.lookup_cons, ih]
      by_cases h : k' = pk
      · subst h; simp [hpk]
      · have : (k' == pk) = false := by simpa using h
        simp [this]

@[simp] theorem ixGet_ixSet_same (idx : Idx) (k : IdxKey) (s : List Event) : ixGet (ixSet idx k s) k = s := by
  simp [ixGet, ixSet, List.lookup_cons]

theorem ixGet_ixSet_other (idx : Idx) (k k' : IdxKey) (s : List Event) (h : k' ≠ k) :
    ixGet (ixSet idx k s) k' = ixGet idx k' := by
  have : (k' == k) = false := by simpa using h
  simp [ixGet, ixSet, List.lookup_cons, this, lookup_filter_ne, h]

@[simp] theorem ixGet_ixErase_same (idx : Idx) (k : IdxKey) : ixGet (ixErase idx k) k = [] := by
  simp [ixGet, ixErase, lookup_filter_ne]

theorem ixGet_ixErase_other (idx : Idx) (k k' : IdxKey) (h : k' ≠ k) : ixGet (ixErase idx k) k' = ixGet idx k' := by
  simp [ixGet, ixErase, lookup_filter_ne, h]

/-- one `m[event] = true` -/
theorem mem_ixAdd1 (idx : Idx) (e : Event) (k k' : IdxKey) (x : Event) :
    x ∈ ixGet (ixAdd1 idx e k) k' ↔ x ∈ ixGet idx k' ∨ (k' = k ∧ x = e) := by
  unfold ixAdd1
  by_cases h : k' = k
  · subst h
    simp only [ixGet_ixSet_same, true_and]
    split
    · rename_i hc
      constructor
      · exact Or.inl
      · rintro (h | rfl)
        · exact h
        · simpa using hc
    · simp only [List.mem_cons]
      constructor
      · rintro (h | h); exact Or.inr h; exact Or.inl h
      · rintro (h | h); exact Or.inr h; exact Or.inl h
  · simp [ixGet_ixSet_other _ _ _ _ h, h]

theorem nodup_ixAdd1 (idx : Idx) (e : Event) (k k' : IdxKey) (h : (ixGet idx k').Nodup) :
    (ixGet (ixAdd1 idx e k) k').Nodup := by
  unfold ixAdd1
  by_cases hk : k' = k
  · subst hk
    simp only [ixGet_ixSet_same]
    split
    · exact h
    · rename_i hc
      exact List.nodup_cons.2 ⟨by simpa using hc, h⟩
  · rw [ixGet_ixSet_other _ _ _ _ hk]; exact h

/-- one `delete(m, event)` (with removal of an emptied set) -/
theorem mem_ixDel1 (idx : Idx) (e : Event) (k k' : IdxKey) (x : Event) :
    x ∈ ixGet (ixDel1 idx e k) k' ↔ x ∈ ixGet idx k' ∧ ¬ (k' = k ∧ x = e) := by
  unfold ixDel1
  cases hl : idx.lookup k with
  | none =>
    simp only []
    constructor
    · intro h
      refine ⟨h, ?_⟩
      rintro ⟨rfl, _⟩
      simp [ixGet, hl] at h
    · exact fun h => h.1
  | some s =>
    simp only []
    have hs : ixGet idx k = s := by simp [ixGet, hl]
    by_cases hk : k' = k
    · subst hk
      split
      · rename_i hemp
        simp only [ixGet_ixErase_same, List.not_mem_nil, false_iff, hs, true_and, not_and, Classical.not_not]
        intro hx
        have : x ∉ s.filter (fun y => y != e) := by
          have := List.isEmpty_iff.1 hemp
          rw [this]; simp
        simpa [List.mem_filter, hx] using this
      · simp [hs, List.mem_filter]
    · split
      · rw [ixGet_ixErase_other _ _ _ hk]; simp [hk]
      · rw [ixGet_ixSet_other _ _ _ _ hk]; simp [hk]

theorem nodup_ixDel1 (idx : Idx) (e : Event) (k k' : IdxKey) (h : (ixGet idx k').Nodup) :
    (ixGet (ixDel1 idx e k) k').Nodup := by
  unfold ixDel1
  cases hl : idx.lookup k with
  | none => exact h
  | some s =>
    simp only []
    have hs : ixGet idx k = s := by simp [ixGet, hl]
    by_cases hk : k' = k
    · subst hk
      split
      · simp
      · simp only [ixGet_ixSet_same]
        rw [← hs]
        exact List.Pairwise.filter _ h
    · split
      · rw [ixGet_ixErase_other _ _ _ hk]; exact h
      · rw [ixGet_ixSet_other _ _ _ _ hk]; exact h

/-- `eventCacheEvsIndex.Add` -/
theorem mem_ixAdd (idx : Idx) (e : Event) (k' : IdxKey) (x : Event) :
    x ∈ ixGet (ixAdd idx e) k' ↔ x ∈ ixGet idx k' ∨ (k' ∈ idxKeys e ∧ x = e) := by
  unfold ixAdd
  generalize idxKeys e = ks
  induction ks generalizing idx with
  | nil => simp
  | cons k ks ih =>
    simp only [List.foldl_cons, ih, mem_ixAdd1, List.mem_cons]
    constructor
    · rintro ((h | ⟨h1, h2⟩) | ⟨h1, h2⟩)
      · exact Or.inl h
      · exact Or.inr ⟨Or.inl h1, h2⟩
      · exact Or.inr ⟨Or.inr h1, h2⟩
    · rintro (h | ⟨h1 | h1, h2⟩)
      · exact Or.inl (Or.inl h)
      · exact Or.inl (Or.inr ⟨h1, h2⟩)
      · exact Or.inr ⟨h1, h2⟩

theorem nodup_ixAdd (idx : Idx) (e : Event) (k' : IdxKey) (h : (ixGet idx k').Nodup) :
    (ixGet (ixAdd idx e) k').Nodup := by
  unfold ixAdd
  generalize idxKeys e = ks
  induction ks generalizing idx with
  | nil => exact h
  | cons k ks ih => exact ih _ (nodup_ixAdd1 idx e k k' h)

/-- `eventCacheEvsIndex.Delete` -/
theorem mem_ixDelete (idx : Idx) (e : Event) (k' : IdxKey) (x : Event) :
    x ∈ ixGet (ixDelete idx e) k' ↔ x ∈ ixGet idx k' ∧ ¬ (k' ∈ idxKeys e ∧ x = e) := by
  unfold ixDelete
  generalize idxKeys e = ks
  induction ks generalizing idx with
  | nil => simp
  | cons k ks ih =>
    simp only [List.foldl_cons, ih, mem_ixDel1, List.mem_cons]
    constructor
    · rintro ⟨⟨h1, h2⟩, h3⟩
      refine ⟨h1, ?_⟩
      rintro ⟨h4 | h4, h5⟩
      · exact h2 ⟨h4, h5⟩
      · exact h3 ⟨h4, h5⟩
    · rintro ⟨h1, h2⟩
      exact ⟨⟨h1, fun ⟨h4, h5⟩ => h2 ⟨Or.inl h4, h5⟩⟩, fun ⟨h4, h5⟩ => h2 ⟨Or.inr h4, h5⟩⟩

theorem nodup_ixDelete (idx : Idx) (e : Event) (k' : IdxKey) (h : (ixGet idx k').Nodup) :
    (ixGet (ixDelete idx e) k').Nodup := by
  unfold ixDelete
  generalize idxKeys e = ks
  induction ks generalizing idx with
  | nil => exact h
  | cons k ks ih => exact ih _ (nodup_ixDel1 idx e k k' h)

/-! ### the tree as a sorted list -/

theorem sameKey_iff (U : List Event) (hU : IdInj U) (x y : Event) (hx : x ∈ U) (hy : y ∈ U) :
    sameKey x y = true ↔ x = y := by
  constructor
  · intro h
    simp only [sameKey, Bool.and_eq_true, Bool.not_eq_eq_eq_not, Bool.not_true] at h
    exact hU x hx y hy (before_total h.1 h.2).2
  · rintro rfl
    simp [sameKey, before_irrefl]

theorem mem_tDel (U : List Event) (hU : IdInj U) (cand : Event) (tree : List Event) (hc : cand ∈ U)
    (ht : ∀ x ∈ tree, x ∈ U) (x : Event) : x ∈ tDel cand tree ↔ x ∈ tree ∧ x ≠ cand := by
  simp only [tDel, List.mem_filter]
  constructor
  · rintro ⟨h1, h2⟩
    refine ⟨h1, fun h => ?_⟩
    have := (sameKey_iff U hU x cand (ht x h1) hc).2 h
    simp [this] at h2
  · rintro ⟨h1, h2⟩
    refine ⟨h1, ?_⟩
    cases hs : sameKey x cand with
    | false => rfl
    | true => exact absurd ((sameKey_iff U hU x cand (ht x h1) hc).1 hs) h2

theorem sorted_tDel (cand : Event) (tree : List Event) (h : Sorted tree) : Sorted (tDel cand tree) :=
  sorted_filter _ _ h

/-- the last entry of a sorted list comes after every other one -/
theorem getLast_max (l : List Event) (h : Sorted l) (m : Event) (hm : l.getLast? = some m) :
    ∀ x ∈ l, before m x = false := by
  obtain ⟨ys, rfl⟩ := List.getLast?_eq_some_iff.1 hm
  intro x hx
  rcases List.mem_append.1 hx with hx | hx
  · have := (List.pairwise_append.1 h).2.2 x hx m (by simp)
    exact before_asymm this
  · simp only [List.mem_singleton] at hx
    subst hx
    exact before_irrefl _

/-- `oldestOf` returns an entry that comes after every other one -/
theorem oldestOf_max : ∀ (l : List Event) (o : Event), oldestOf l = some o → ∀ x ∈ l, before o x = false := by
  intro l
  induction l with
  | nil => intro o h; cases h
  | cons e es ih =>
    intro o h x hx
    unfold oldestOf at h
    cases hr : oldestOf es with
    | none =>
      simp only [hr] at h
      cases h
      have := C04.oldestOf_none es hr
      subst this
      simp only [List.mem_singleton] at hx
      subst hx
      exact before_irrefl _
    | some o' =>
      simp only [hr] at h
      have ih' := ih o' hr
      by_cases hb : before o' e = true
      · simp only [hb, if_true] at h
        cases h
        rcases List.mem_cons.1 hx with rfl | hx
        · exact before_irrefl _
        · cases hbx : before e x with
          | false => rfl
          | true =>
            have := before_trans hb hbx
            rw [ih' x hx] at this
            cases this
      · simp only [hb, Bool.false_eq_true, if_false] at h
        cases h
        rcases List.mem_cons.1 hx with rfl | hx
        · simpa using hb
        · exact ih' x hx

/-- the eviction victim read from the tree is the one the abstract model computes from the map -/
theorem getLast_eq_oldestOf (U : List Event) (hU : IdInj U) (evs tree : List Event) (hin : ∀ x ∈ evs, x ∈ U)
    (hs : Sorted tree) (hm : ∀ x, x ∈ tree ↔ x ∈ evs) : tree.getLast? = oldestOf evs := by
  cases ho : oldestOf evs with
  | none =>
    have := C04.oldestOf_none evs ho
    subst this
    have : tree = [] := by
      cases tree with
      | nil => rfl
      | cons t ts => exact absurd ((hm t).1 (by simp)) (by simp)
    simp [this]
  | some o =>
    have hoe := C04.oldestOf_mem evs o ho
    have hot : o ∈ tree := (hm o).2 hoe
    cases hl : tree.getLast? with
    | none =>
      have : tree = [] := List.getLast?_eq_none_iff.1 hl
      rw [this] at hot; cases hot
    | some m =>
      have hmt : m ∈ tree := by
        obtain ⟨ys, rfl⟩ := List.getLast?_eq_some_iff.1 hl
        simp
      have h1 := getLast_max tree hs m hl o hot
      have h2 := oldestOf_max evs o ho m ((hm m).1 hmt)
      have := hU m (hin m ((hm m).1 hmt)) o (hin o hoe) (before_total h1 h2).2
      rw [this]

end Moc.CacheCL
